#!/bin/bash
# tools/mutant.sh <ID> <name> <file> <python-regex> <replacement> [tier]
# Creates a scratch worktree of /repo, applies one textual mutation, checks that the tree still
# builds and (optionally, MUTANT_RUN_TESTS=1) that the repo's tests pass, runs the check against it,
# prints the verdict and removes the worktree.
set -u
export GOFLAGS=-mod=mod GOPROXY=off GOSUMDB=off GOTOOLCHAIN=local
id="$1"; name="$2"; file="$3"; pat="$4"; rep="$5"; tier="${6:-quick}"
wt="/tmp/wt-mut-$name"
git -C /repo worktree remove --force "$wt" >/dev/null 2>&1
git -C /repo worktree add -q --detach "$wt" || exit 3
python3 - "$wt/$file" "$pat" "$rep" <<'PY'
import re,sys
p,pat,rep=sys.argv[1:4]
s=open(p).read()
n=len(re.findall(pat,s,flags=re.S))
if n==0:
    print("MUTANT-ERROR: pattern not found"); sys.exit(4)
s=re.sub(pat,rep,s,count=1,flags=re.S)
open(p,'w').write(s)
PY
rc=$?
if [ $rc -eq 0 ]; then
  if ! (cd "$wt" && go build ./... 2>&1 | head -5 && test ${PIPESTATUS[0]} -eq 0); then echo "MUTANT $name: does not compile"; rc=5; fi
fi
if [ $rc -eq 0 ] && [ "${MUTANT_RUN_TESTS:-0}" = 1 ]; then
  if (cd "$wt" && go test -vet=off -count=1 ./... >/tmp/mut-$name.tests 2>&1); then echo "MUTANT $name: repo tests pass"; else echo "MUTANT $name: repo tests FAIL (mutant not admissible)"; fi
fi
if [ $rc -eq 0 ]; then
  VERIF_REPO="$wt" /verif/check "$id" "$tier" > /tmp/mut-$name.out 2>&1; crc=$?
  echo "MUTANT $name: check exit=$crc  $(grep -c '^VIOLATION' /tmp/mut-$name.out) violation line(s); $(grep '^property=' /tmp/mut-$name.out)"
  grep -A3 '^VIOLATION' /tmp/mut-$name.out | head -8
fi
git -C /repo worktree remove --force "$wt" >/dev/null 2>&1
rm -rf "/tmp/verif-mut/$(basename $wt)"
exit $rc
