#!/bin/bash
# tools/seedsave.sh <PID> <k> <caught:yes|no> "<needs>" "<what ran / result>"
pid="$1"; k="$2"; caught="$3"; needs="$4"; ran="$5"
d=/verif/seeded/$pid-$k; mkdir -p $d/demo
cp /tmp/seedout-$pid-$k/patch.diff $d/patch.diff
cp -r /tmp/seedout-$pid-$k/demo/. $d/demo/ 2>/dev/null
cp /tmp/seedout-$pid-$k/README.md $d/README.md 2>/dev/null
python3 - "$pid" "$k" "$caught" "$needs" "$ran" <<'PY'
import json,sys
pid,k,caught,needs,ran=sys.argv[1:6]
json.dump({"property":pid,"seed":f"{pid}-{k}","breaks":pid,"needs_to_manifest":needs,"confirmed":"suite passes with the patch; demo fails with the patch and passes without (re-run by me in the scratch worktree)","check_quick_detects":caught=="yes","what_i_ran":ran}, open(f"/verif/seeded/{pid}-{k}/meta.json","w"), indent=1)
PY
echo saved $d
