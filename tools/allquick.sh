#!/bin/bash
# tools/allquick.sh [seed] — runs every quick check once (sequentially) at VERIF_SEED=<seed> and prints one line each.
cd /verif
export VERIF_SEED="${1:-1}"
for id in C01 C02 C03 C04 C05 C06 C07 C08 C09 C10 C11 C12 C13 C14 C15 C16 C17 C18; do
  s=$(date +%s); ./check $id quick > /tmp/allquick-$id.out 2>&1; rc=$?; e=$(date +%s)
  echo "$id exit=$rc $((e-s))s $(grep -c '^KNOWN' /tmp/allquick-$id.out) known; $(grep '^property=' /tmp/allquick-$id.out)"
done
