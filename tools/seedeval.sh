#!/bin/bash
# tools/seedeval.sh <PID> <k> <demo-file> <demo-dest-dir-rel> <go test args...>
# Confirms a seeded change: suite passes with the patch, demo fails with and passes without; then runs our check on it.
set -u
export GOFLAGS=-mod=mod GOPROXY=off GOSUMDB=off GOTOOLCHAIN=local
pid="$1"; k="$2"; demo="$3"; dest="$4"; shift 4
wt=/tmp/seed-$pid-$k; out=/tmp/seedout-$pid-$k
cd "$wt" || exit 3
echo "== changed files:"; git status --short
echo "== suite with patch:"; go build ./... && go test -vet=off -count=1 ./... 2>&1 | grep -v 'no test files' | grep -c '^ok'; go test -vet=off -count=1 ./... 2>&1 | grep -E 'FAIL|panic' | head -3
cp "$out/demo/$demo" "$wt/$dest/"
echo "== demo with patch (must FAIL):"; go test -vet=off -count=1 "$@" 2>&1 | tail -3
git diff > /tmp/seedeval-$pid-$k.patch; git apply -R /tmp/seedeval-$pid-$k.patch
echo "== demo without patch (must PASS):"; go test -vet=off -count=1 "$@" 2>&1 | tail -2
git apply /tmp/seedeval-$pid-$k.patch
rm -f "$wt/$dest/$demo"
echo "== our check (quick) on the patched tree:"
VERIF_REPO="$wt" /verif/check "$pid" quick > /tmp/seedcheck-$pid-$k.out 2>&1; echo "exit=$?"; grep -E '^VIOLATION|^property=|INCONCLUSIVE' /tmp/seedcheck-$pid-$k.out | head -5; grep -A4 '^VIOLATION' /tmp/seedcheck-$pid-$k.out | head -8
