#!/bin/bash
# Build the driver and warm the Go build cache for every property package (offline).
set -eu
export GOFLAGS=-mod=mod GOPROXY=off GOSUMDB=off GOTOOLCHAIN=local
root="$(cd "$(dirname "$0")/.." && pwd)"
mkdir -p "$root/.bin"
cd "$root/harness"
go build -o "$root/.bin/check" ./cmd/check
go build ./...
go test -vet=off -count=1 -run '^$' ./... >/dev/null
echo "setup ok"
