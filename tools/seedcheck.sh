#!/bin/bash
# tools/seedcheck.sh <seed-dir-name e.g. C15-2> [ID] [tier]
# Re-runs a check against a kept seeded change: scratch worktree of /repo + seeded/<seed>/patch.diff,
# VERIF_REPO override, worktree removed afterwards. Expected result: exit 1 (the change is detected).
set -u
export GOFLAGS=-mod=mod GOPROXY=off GOSUMDB=off GOTOOLCHAIN=local
ROOT="$(cd "$(dirname "$0")/.." && pwd)"
seed="$1"; id="${2:-}"; [ -z "$id" ] && id="${seed%%-*}"; tier="${3:-quick}"
wt="/tmp/wt-seed-$seed"
git -C /repo worktree remove --force "$wt" >/dev/null 2>&1
git -C /repo worktree add -q --detach "$wt" || exit 3
if ! git -C "$wt" apply "$ROOT/seeded/$seed/patch.diff"; then echo "SEED $seed: patch does not apply to the current tree"; git -C /repo worktree remove --force "$wt"; exit 4; fi
VERIF_REPO="$wt" "$ROOT/check" "$id" "$tier" > "/tmp/seedcheck-$seed.out" 2>&1; rc=$?
echo "SEED $seed: check $id $tier exit=$rc  $(grep -c '^VIOLATION' /tmp/seedcheck-$seed.out) violation line(s); $(grep '^property=' /tmp/seedcheck-$seed.out)"
grep -A2 '^VIOLATION' "/tmp/seedcheck-$seed.out" | head -4 | cut -c1-220
git -C /repo worktree remove --force "$wt" >/dev/null 2>&1
rm -rf "/tmp/verif-mut/$(basename $wt)"
exit $rc
