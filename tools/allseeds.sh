#!/bin/bash
# tools/allseeds.sh [tier] — re-runs every kept seeded change against the check that is recorded as
# detecting it (meta.json detected_by, else its own property), 3 at a time. Prints one line per seed;
# exit=1 means detected. Works from a snapshot of /verif too (vp run -- tools/allseeds.sh).
ROOT="$(cd "$(dirname "$0")/.." && pwd)"
cd "$ROOT"
tier="${1:-quick}"
for s in $(ls seeded); do
  if grep -q '"base_commit"' seeded/$s/meta.json; then echo "SEED $s: superseded by a later fix of /repo (see base_commit in its meta.json); skipped" >&2; continue; fi
  id=$(python3 -c "
import json,re,sys
m=json.load(open('seeded/$s/meta.json'))
d=re.findall(r'C\\d\\d', m.get('detected_by',''))
print(d[0] if d else '$s'.split('-')[0])")
  echo "$s $id"
done | xargs -P 3 -L 1 sh -c "tools/seedcheck.sh \$0 \$1 $tier 2>&1 | grep '^SEED'"
