#!/bin/bash
# tools/allseeds.sh [tier] — re-runs every kept seeded change against its property's check (4 at a time).
# Prints one line per seed; exit=1 means detected.
cd /verif
tier="${1:-quick}"
ls seeded | xargs -P 4 -I{} sh -c "tools/seedcheck.sh {} '' $tier 2>&1 | grep '^SEED'" 
