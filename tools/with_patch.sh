#!/bin/bash
# tools/with_patch.sh <patch.diff> <command...>
# Applies a patch to /repo, runs the command, and always restores /repo.
set -u
patch="$1"; shift
git -C /repo diff --quiet || { echo "/repo is dirty; refusing" >&2; exit 3; }
git -C /repo apply "$patch" || { echo "patch does not apply" >&2; exit 3; }
"$@"; rc=$?
git -C /repo checkout -- . ; git -C /repo clean -fdq
exit $rc
