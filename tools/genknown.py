#!/usr/bin/env python3
"""Rebuilds /verif/known_findings.json from the per-property fragments known/CNN/findings.json.
(Developer tool: never run by a check; the checks only read known_findings.json.)"""
import json, glob, os
root = os.path.dirname(os.path.dirname(os.path.abspath(__file__)))
out = []
for f in sorted(glob.glob(os.path.join(root, 'known', '*', 'findings.json'))):
    for e in json.load(open(f)):
        for k in ('property', 'status', 'key', 'what'):
            assert k in e, (f, k)
        assert e['status'] in ('known', 'fixed'), f
        if e.get('replay'):
            assert os.path.exists(os.path.join(root, e['replay'])), (f, e['replay'])
        out.append(e)
tmp = os.path.join(root, 'known_findings.json.tmp')
with open(tmp, 'w') as fh:
    json.dump({'findings': out}, fh, indent=1, ensure_ascii=False)
os.replace(tmp, os.path.join(root, 'known_findings.json'))  # atomic: running checks never see a partial file
print(len(out), 'findings')
