#!/usr/bin/env python3
"""Regenerates MANIFEST.json from tools/manifest_src.json (claimed checks) and properties.jsonl
(every property not claimed is listed under not_applicable with its reason)."""
import json, os
root = os.path.dirname(os.path.dirname(os.path.abspath(__file__)))
src = json.load(open(os.path.join(root, 'tools', 'manifest_src.json')))
props = [json.loads(l)['id'] for l in open(os.path.join(root, 'properties.jsonl')) if l.strip()]
checks = []
claimed = set()
import glob
for c in [json.load(open(f)) for f in sorted(glob.glob(os.path.join(root,'tools','manifest.d','*.json')))]:
    pid = c['property_id']
    claimed.add(pid)
    checks.append({
        'property_id': pid,
        'quick_cmd': f'./check {pid} quick',
        'thorough_cmd': f'./check {pid} thorough',
        'evidence_file': f'evidence/{pid}.json',
        'replay_cmd_template': f'./check {pid} --replay {{path}}',
        'engine': c.get('engine', 'rapid'),
        'level_claimed': c['level_claimed'],
        'level_note': c['level_note'],
        'technique': c['technique'],
    })
na = []
for p in props:
    if p not in claimed:
        na.append({'property_id': p, 'reason': src['not_applicable'].get(p, 'check not built yet in this session (planned in DESIGN.md); not claimed until its quick tier is silent on the unchanged tree and catches its sensitivity mutants')})
m = {
    'version': 1,
    'setup_cmd': './tools/setup.sh',
    'hooks': src['hooks'],
    'engines': [dict(e, serves_properties=sorted(claimed)) for e in src['engines']],
    'checks': checks,
    'notes': src['notes'],
    'not_applicable': na,
}
json.dump(m, open(os.path.join(root, 'MANIFEST.json'), 'w'), indent=1, ensure_ascii=False)
print('claimed', sorted(claimed), 'not_applicable', [x['property_id'] for x in na])
