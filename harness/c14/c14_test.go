// Package c14: filesystem operations are linearizable under concurrency
// (DESIGN.md §3 C14).
//
// A case is a concurrent program (sequential setup, 2–6 clients × 3–8 calls
// over shared directories and names) generated so that the documented
// precondition of every call holds in every linearization. It is run several
// times on MemFs or DirFs; the stamped history (setup, clients, and a final
// read-everything sweep) is checked with porcupine against models.RefFs.
// MemFs programs are run again in a child process built with -race.
package c14

import (
	"encoding/json"
	"fmt"
	"os"
	"path/filepath"
	"sort"
	"strings"
	"testing"
	"time"

	"github.com/anishathalye/porcupine"
	"github.com/goose-lang/goose/machine/filesys"
	"pgregory.net/rapid"

	"verifharness/cmd/fschild/fsprog"
	"verifharness/ev"
	"verifharness/inject"
	"verifharness/models"
)

const (
	swL2  = "noTwoDescriptorsOnOneInode"       // L2: MemFs descriptor = inode number
	swL3  = "noSharedStagingFile"              // L3: DirFs.AtomicCreate staging file shared by name
	swK1  = "noLinkSourceBeingReplaced"        // K1: DirFs.Link vs concurrent AtomicCreate of its source (linkat ENOENT race)
	swK2  = "noDirFsReadDuringMultiPageAppend" // K2: DirFs.ReadAt concurrent with an Append larger than a page
	tLin  = "TestLinearizable"
	tRace = "TestRace"
)

func TestMain(m *testing.M) {
	ev.Meta("exploration",
		"one evaluation = one run of a generated concurrent program (stamped history checked with porcupine against RefFs); "+
			"non-trivial = two calls of different clients overlapped in logical time and touched the same (dir, name); distinct by program",
		"schedules are those the Go runtime produces (16 cores, with and without Gosched between calls); they are not enumerated",
		"the linearizability checker is porcupine v1.3.0 with the hand-written model models.RefFs; a checker timeout is inconclusive",
		"DirFs.List overlapping a mutation of the same directory is held only to the documented weaker contract (names present throughout ⊆ result ⊆ names the program can ever create there)",
		"call/return stamps come from one atomic counter, not from wall-clock time")
	ev.Main(m, "C14")
}

// Case is one program and the number of times it is run.
type Case struct {
	Prog   fsprog.Program `json:"prog"`
	Rounds int            `json:"rounds"`
}

type pth struct{ dir, name string }

func opPaths(op models.FsOp) []pth {
	switch op.Kind {
	case models.FsCreate, models.FsOpen, models.FsDelete, models.FsAtomic:
		return []pth{{op.Dir, op.Name}}
	case models.FsLink:
		return []pth{{op.Dir, op.Name}, {op.Dir2, op.Name2}}
	}
	return nil
}

func mutatesDir(op models.FsOp, dir string) bool {
	switch op.Kind {
	case models.FsCreate, models.FsDelete, models.FsAtomic:
		return op.Dir == dir
	case models.FsLink:
		return op.Dir2 == dir
	}
	return false
}

// ---- running and judging one round ------------------------------------------------

type verdict struct {
	msg      string
	inconcl  string
	overlaps int
}

func describeHistory(evs []fsprog.Event) string {
	var sb strings.Builder
	for _, e := range evs {
		if e.Skipped {
			continue
		}
		who := fmt.Sprintf("c%d", e.Client)
		if e.Client == -1 {
			who = "setup"
		} else if e.Client == -2 {
			who = "sweep"
		}
		fmt.Fprintf(&sb, "  [%3d,%3d] %-5s %s\n", e.Call, e.Ret, who, models.DescribeFsCall(models.FsCall{Op: e.Op}, e.Out))
	}
	return sb.String()
}

// runOnce runs the program once and judges the history.
func runOnce(p fsprog.Program, yield bool, timeout time.Duration) verdict {
	var fs filesys.Filesys
	if p.Impl == "dir" {
		root, err := os.MkdirTemp(ev.Scratch(), "c14-")
		if err != nil {
			return verdict{inconcl: "scratch: " + err.Error()}
		}
		defer os.RemoveAll(root)
		dfs := filesys.NewDirFs(root)
		defer func() {
			defer func() { recover() }()
			dfs.CloseFs()
		}()
		fs = dfs
	} else {
		fs = filesys.NewMemFs()
	}
	res := fsprog.Run(fs, p, yield)
	all := append(append([]fsprog.Event{}, res.Setup...), res.Events...)
	// setup stamps precede all client stamps already (same clock)
	clock := int64(0)
	for _, e := range all {
		if e.Ret > clock {
			clock = e.Ret
		}
	}
	// ---- final sweep (sequential): close everything, list every directory, read every file
	sweep := func(op models.FsOp, f filesys.File) fsprog.Event {
		e := fsprog.Event{Client: -2, Op: op}
		clock++
		e.Call = clock
		func() {
			defer func() {
				if r := recover(); r != nil {
					e.Out.Panicked = true
					e.Out.Panic = fmt.Sprint(r)
				}
			}()
			switch op.Kind {
			case models.FsClose:
				fs.Close(f)
			case models.FsList:
				n := append([]string{}, fs.List(op.Dir)...)
				sort.Strings(n)
				e.Out.Res.Names = n
			case models.FsOpen:
				e.Out.Res.Fd = int(fs.Open(op.Dir, op.Name))
			case models.FsReadAt:
				e.Out.Res.Data = append([]byte{}, fs.ReadAt(f, op.Off, op.Len)...)
			}
		}()
		clock++
		e.Ret = clock
		return e
	}
	for _, f := range res.Live {
		if p.Impl == "dir" && int(f) <= 2 {
			continue
		}
		all = append(all, sweep(models.FsOp{Kind: models.FsClose, Fd: int(f)}, f))
	}
	var dirs []string
	for _, op := range p.Setup {
		if op.Kind == models.FsMkdir {
			dirs = append(dirs, op.Dir)
		}
	}
	for _, d := range dirs {
		le := sweep(models.FsOp{Kind: models.FsList, Dir: d}, 0)
		all = append(all, le)
		if le.Out.Panicked {
			break
		}
		for _, nm := range le.Out.Res.Names {
			oe := sweep(models.FsOp{Kind: models.FsOpen, Dir: d, Name: nm}, 0)
			all = append(all, oe)
			if oe.Out.Panicked {
				continue
			}
			f := filesys.File(oe.Out.Res.Fd)
			all = append(all, sweep(models.FsOp{Kind: models.FsReadAt, Fd: oe.Out.Res.Fd, Off: 0, Len: 1 << 16}, f))
			all = append(all, sweep(models.FsOp{Kind: models.FsClose, Fd: oe.Out.Res.Fd}, f))
		}
	}

	var v verdict
	// ---- direct: no call of a valid program panics
	for _, e := range all {
		if e.Out.Panicked {
			who := fmt.Sprintf("client %d", e.Client)
			if e.Client < 0 {
				who = map[int]string{-1: "setup", -2: "final sweep"}[e.Client]
			}
			v.msg = fmt.Sprintf("%s: %s panicked: %s\n(every precondition of this call holds in every linearization)\nhistory [call,return]:\n%s", who, e.Op, e.Out.Panic, describeHistory(all))
			return v
		}
	}
	// ---- direct: descriptors that are certainly open at the same time are distinct
	type life struct {
		fd          int
		got, closed int64
		what        string
	}
	var lives []life
	for _, e := range all {
		if e.Skipped {
			continue
		}
		if (e.Op.Kind == models.FsCreate && e.Out.Res.Ok) || e.Op.Kind == models.FsOpen {
			lives = append(lives, life{fd: e.Out.Res.Fd, got: e.Ret, closed: 1 << 62, what: fmt.Sprintf("client %d %s", e.Client, e.Op)})
		}
	}
	for _, e := range all {
		if e.Skipped || e.Op.Kind != models.FsClose {
			continue
		}
		// the close belongs to the latest descriptor with that value obtained before it
		best := -1
		for i, l := range lives {
			if l.fd == e.Op.Fd && l.got < e.Call && l.closed == 1<<62 && (best < 0 || l.got > lives[best].got) {
				best = i
			}
		}
		if best >= 0 {
			lives[best].closed = e.Call
		}
	}
	for i := range lives {
		for j := i + 1; j < len(lives); j++ {
			a, b := lives[i], lives[j]
			if a.fd == b.fd && a.got < b.closed && b.got < a.closed {
				v.msg = fmt.Sprintf("two descriptors that are open at the same time have the same value %d: %s and %s\nhistory [call,return]:\n%s", a.fd, a.what, b.what, describeHistory(all))
				return v
			}
		}
	}
	// ---- DirFs: List overlapping a mutation of its directory → weaker contract
	weak := map[int]bool{}
	if p.Impl == "dir" {
		for i, e := range all {
			if e.Skipped || e.Op.Kind != models.FsList || e.Client < 0 {
				continue
			}
			for _, o := range all {
				if o.Skipped || o.Client == e.Client || o.Client < 0 {
					continue
				}
				if mutatesDir(o.Op, e.Op.Dir) && o.Call < e.Ret && e.Call < o.Ret {
					weak[i] = true
				}
			}
			if weak[i] {
				ev.Label("dir:weak-list")
				possible := map[string]bool{}
				stable := map[string]bool{}
				for _, s := range p.Setup {
					for _, q := range opPaths(s) {
						if q.dir == e.Op.Dir {
							possible[q.name] = true
							stable[q.name] = true
						}
					}
					if s.Kind == models.FsLink && s.Dir2 == e.Op.Dir {
						possible[s.Name2], stable[s.Name2] = true, true
					}
				}
				for _, cl := range p.Clients {
					for _, o := range cl {
						for _, q := range opPaths(o) {
							if q.dir == e.Op.Dir && o.Kind != models.FsOpen {
								possible[q.name] = true
								if o.Kind == models.FsDelete || o.Kind == models.FsAtomic {
									stable[q.name] = false
								}
							}
						}
					}
				}
				got := map[string]bool{}
				for _, n := range e.Out.Res.Names {
					got[n] = true
					if !possible[n] {
						v.msg = fmt.Sprintf("DirFs.List(%q) returned %q, a name no call of the program ever creates there\nhistory:\n%s", e.Op.Dir, n, describeHistory(all))
						return v
					}
				}
				var names []string
				for n := range stable {
					names = append(names, n)
				}
				sort.Strings(names)
				for _, n := range names {
					// only names that exist after the setup count as present throughout
					if stable[n] && !got[n] && existsAfterSetup(p, e.Op.Dir, n) {
						v.msg = fmt.Sprintf("DirFs.List(%q) = %q misses %q, which exists from the setup on and is never deleted or replaced\nhistory:\n%s", e.Op.Dir, e.Out.Res.Names, n, describeHistory(all))
						return v
					}
				}
			}
		}
	}
	// ---- overlap statistics
	for i, a := range all {
		if a.Skipped || a.Client < 0 {
			continue
		}
		for _, b := range all[i+1:] {
			if b.Skipped || b.Client < 0 || b.Client == a.Client || !(a.Call < b.Ret && b.Call < a.Ret) {
				continue
			}
			for _, pa := range opPaths(a.Op) {
				for _, pb := range opPaths(b.Op) {
					if pa == pb {
						v.overlaps++
					}
				}
			}
		}
	}
	// ---- porcupine
	var ops []porcupine.Operation
	for i, e := range all {
		if e.Skipped {
			continue
		}
		cid := e.Client
		if cid < 0 {
			cid = len(p.Clients)
		}
		ops = append(ops, porcupine.Operation{ClientId: cid, Input: models.FsCall{Op: e.Op, Weak: weak[i]}, Call: e.Call, Output: e.Out, Return: e.Ret})
	}
	switch porcupine.CheckOperationsTimeout(models.FsModel(models.NewRefFs()), ops, timeout) {
	case porcupine.Ok:
	case porcupine.Unknown:
		v.inconcl = "porcupine timeout"
	case porcupine.Illegal:
		v.msg = fmt.Sprintf("%s: the history is not linearizable with respect to the reference model (no sequential order of the calls that respects real time explains the results)%s\nhistory [call,return]:\n%s",
			map[string]string{"mem": "MemFs", "dir": "DirFs"}[p.Impl], diagnose(all), describeHistory(all))
	}
	return v
}

func existsAfterSetup(p fsprog.Program, dir, name string) bool {
	ref := models.NewRefFs()
	for _, op := range p.Setup {
		if op.Kind == models.FsAppend || op.Kind == models.FsClose || op.Kind == models.FsReadAt {
			continue
		}
		next, _, valid := ref.Apply(op, -1)
		if valid {
			ref = next
		}
	}
	_, ok := ref.Lookup(dir, name)
	return ok
}

// diagnose adds the cheap direct invariants to an "illegal" verdict.
func diagnose(all []fsprog.Event) string {
	// concurrent Create of one name succeeding more than once without a Delete of that name anywhere
	created := map[pth]int{}
	removable := map[pth]bool{}
	for _, e := range all {
		if e.Skipped {
			continue
		}
		switch e.Op.Kind {
		case models.FsCreate:
			if e.Out.Res.Ok {
				created[pth{e.Op.Dir, e.Op.Name}]++
			}
		case models.FsDelete:
			removable[pth{e.Op.Dir, e.Op.Name}] = true
		}
	}
	var out []string
	for q, n := range created {
		if n > 1 && !removable[q] {
			out = append(out, fmt.Sprintf("Create(%q,%q) succeeded %d times although the name is never deleted", q.dir, q.name, n))
		}
	}
	sort.Strings(out)
	if len(out) == 0 {
		return ""
	}
	return "\n" + strings.Join(out, "\n")
}

// ---- generation ------------------------------------------------------------

func genProg(t *rapid.T, impl string) fsprog.Program {
	l2 := impl == "mem" && models.KnownSwitch(swL2)
	l3 := impl == "dir" && models.KnownSwitch(swL3)
	k1 := impl == "dir" && models.KnownSwitch(swK1)
	k2 := impl == "dir" && models.KnownSwitch(swK2)
	p := fsprog.Program{Impl: impl}
	dirs := []string{"d", "e"}[:rapid.IntRange(1, 2).Draw(t, "ndirs")]
	names := []string{"a", "b", "c"}[:rapid.IntRange(2, 3).Draw(t, "nnames")]
	var paths []pth
	for _, d := range dirs {
		p.Setup = append(p.Setup, models.FsOp{Kind: models.FsMkdir, Dir: d})
		for _, n := range names {
			paths = append(paths, pth{d, n})
		}
	}
	seed := 0
	data := func(label string) (int, int) {
		seed++
		n := rapid.IntRange(0, 12).Draw(t, label)
		if rapid.IntRange(0, 9).Draw(t, label+"big") == 0 {
			n = rapid.SampledFrom([]int{4096, 5000, 70000}).Draw(t, label+"size")
		}
		return seed, n
	}
	nclients := rapid.IntRange(2, 6).Draw(t, "clients")
	exists := map[pth]bool{}
	slot := 0
	for _, q := range paths {
		switch rapid.IntRange(0, 3).Draw(t, "setup") {
		case 0:
			s, n := data("sdata")
			p.Setup = append(p.Setup, models.FsOp{Kind: models.FsAtomic, Dir: q.dir, Name: q.name, Seed: s, N: n})
			exists[q] = true
		case 1:
			slot++
			s, n := data("sdata")
			p.Setup = append(p.Setup,
				models.FsOp{Kind: models.FsCreate, Dir: q.dir, Name: q.name, Fd: slot},
				models.FsOp{Kind: models.FsAppend, Fd: slot, Seed: s, N: n},
				models.FsOp{Kind: models.FsClose, Fd: slot})
			exists[q] = true
		}
	}
	// who may delete a path (-1 = nobody)
	owner := map[pth]int{}
	for _, q := range paths {
		owner[q] = -1
		if rapid.Bool().Draw(t, "owned") {
			owner[q] = rapid.IntRange(0, nclients-1).Draw(t, "owner")
		}
	}
	// L2 restriction: paths are either readable (opened by one designated
	// client, one descriptor at a time, never created) or creatable (never opened)
	readable := map[pth]bool{}
	reader := 0
	if l2 {
		reader = rapid.IntRange(0, nclients-1).Draw(t, "reader")
		for _, q := range paths {
			readable[q] = rapid.Bool().Draw(t, "readable")
		}
	}
	// L3 restriction: one designated AtomicCreate client per name
	atomicBy := map[string]int{}
	if l3 {
		for _, n := range names {
			atomicBy[n] = rapid.IntRange(0, nclients-1).Draw(t, "atomicBy")
		}
	}
	// a "hot" name that several clients try to create first thing after the start barrier
	var hot *pth
	if rapid.IntRange(0, 2).Draw(t, "hot") == 0 {
		var cand []pth
		for _, q := range paths {
			if !exists[q] && !(l2 && readable[q]) {
				cand = append(cand, q)
			}
		}
		if len(cand) > 0 {
			q := rapid.SampledFrom(cand).Draw(t, "hotpath")
			hot = &q
		}
	}
	// K1 restriction: a path is either replaceable by AtomicCreate or usable as a Link source
	replaceable := map[pth]bool{}
	if k1 {
		for _, q := range paths {
			replaceable[q] = rapid.Bool().Draw(t, "replaceable")
		}
	}
	for c := 0; c < nclients; c++ {
		se := map[pth]bool{} // surely exists for this client at this point
		for _, q := range paths {
			if exists[q] && (owner[q] == -1 || owner[q] == c) {
				se[q] = true
			}
		}
		ensure := func(q pth) {
			if owner[q] == -1 || owner[q] == c {
				se[q] = true
			}
		}
		var wslots, rslots []int
		var ops []models.FsOp
		nops := rapid.IntRange(3, 8).Draw(t, "nops")
		if hot != nil && rapid.IntRange(0, 3).Draw(t, "joinhot") > 0 {
			slot++
			ops = append(ops, models.FsOp{Kind: models.FsCreate, Dir: hot.dir, Name: hot.name, Fd: slot})
			wslots = append(wslots, slot)
			ensure(*hot)
		}
		for len(ops) < nops {
			var sure []pth
			for _, q := range paths {
				if se[q] {
					sure = append(sure, q)
				}
			}
			anyPath := func(label string) pth { return rapid.SampledFrom(paths).Draw(t, label) }
			kind := rapid.SampledFrom([]string{models.FsCreate, models.FsCreate, models.FsAppend, models.FsAppend, models.FsClose, models.FsOpen, models.FsOpen,
				models.FsReadAt, models.FsReadAt, models.FsDelete, models.FsLink, models.FsLink, models.FsAtomic, models.FsAtomic, models.FsList}).Draw(t, "kind")
			switch kind {
			case models.FsCreate:
				q := anyPath("path")
				if l2 && readable[q] {
					ev.Prune(swL2)
					continue
				}
				slot++
				ops = append(ops, models.FsOp{Kind: models.FsCreate, Dir: q.dir, Name: q.name, Fd: slot})
				wslots = append(wslots, slot)
				ensure(q)
			case models.FsAppend:
				if len(wslots) == 0 {
					continue
				}
				s, n := data("adata")
				if k2 && n > 12 {
					ev.Prune(swK2)
					n = 12
				}
				ops = append(ops, models.FsOp{Kind: models.FsAppend, Fd: rapid.SampledFrom(wslots).Draw(t, "wslot"), Seed: s, N: n})
			case models.FsClose:
				all := append(append([]int{}, wslots...), rslots...)
				if len(all) == 0 {
					continue
				}
				s := rapid.SampledFrom(all).Draw(t, "cslot")
				ops = append(ops, models.FsOp{Kind: models.FsClose, Fd: s})
				wslots, rslots = without(wslots, s), without(rslots, s)
			case models.FsOpen:
				if len(sure) == 0 {
					continue
				}
				q := rapid.SampledFrom(sure).Draw(t, "opath")
				if l2 {
					if c != reader || !readable[q] {
						ev.Prune(swL2)
						continue
					}
					if len(rslots) > 0 {
						ev.Prune(swL2)
						ops = append(ops, models.FsOp{Kind: models.FsClose, Fd: rslots[0]})
						rslots = nil
					}
				}
				slot++
				ops = append(ops, models.FsOp{Kind: models.FsOpen, Dir: q.dir, Name: q.name, Fd: slot})
				rslots = append(rslots, slot)
			case models.FsReadAt:
				if len(rslots) == 0 {
					continue
				}
				op := models.FsOp{Kind: models.FsReadAt, Fd: rapid.SampledFrom(rslots).Draw(t, "rslot")}
				if rapid.Bool().Draw(t, "whole") {
					op.Len = 1 << 16
				} else {
					op.Off = uint64(rapid.IntRange(0, 14).Draw(t, "off"))
					op.Len = uint64(rapid.IntRange(0, 14).Draw(t, "len"))
				}
				ops = append(ops, op)
			case models.FsDelete:
				var mine []pth
				for _, q := range sure {
					if owner[q] == c {
						mine = append(mine, q)
					}
				}
				if len(mine) == 0 {
					continue
				}
				q := rapid.SampledFrom(mine).Draw(t, "dpath")
				ops = append(ops, models.FsOp{Kind: models.FsDelete, Dir: q.dir, Name: q.name})
				delete(se, q)
			case models.FsLink:
				if len(sure) == 0 {
					continue
				}
				src := rapid.SampledFrom(sure).Draw(t, "lsrc")
				dst := anyPath("ldst")
				if l2 && !readable[src] && readable[dst] {
					ev.Prune(swL2)
					continue
				}
				if k1 && replaceable[src] {
					ev.Prune(swK1)
					continue
				}
				ops = append(ops, models.FsOp{Kind: models.FsLink, Dir: src.dir, Name: src.name, Dir2: dst.dir, Name2: dst.name})
				ensure(dst)
			case models.FsAtomic:
				q := anyPath("apath")
				if l3 && atomicBy[q.name] != c {
					ev.Prune(swL3)
					continue
				}
				if k1 && !replaceable[q] {
					ev.Prune(swK1)
					continue
				}
				s, n := data("xdata")
				ops = append(ops, models.FsOp{Kind: models.FsAtomic, Dir: q.dir, Name: q.name, Seed: s, N: n})
				ensure(q)
			case models.FsList:
				ops = append(ops, models.FsOp{Kind: models.FsList, Dir: rapid.SampledFrom(dirs).Draw(t, "ldir")})
			}
		}
		p.Clients = append(p.Clients, ops)
	}
	return p
}

func without(s []int, x int) []int {
	var out []int
	for _, v := range s {
		if v != x {
			out = append(out, v)
		}
	}
	return out
}

// ---- tests -------------------------------------------------------------------

func check(t ev.TB, c Case) {
	key, _ := json.Marshal(c.Prog)
	kinds := map[string]bool{}
	for _, cl := range c.Prog.Clients {
		for _, op := range cl {
			kinds[op.Kind] = true
		}
	}
	ev.Label(fmt.Sprintf("%s:clients=%d", c.Prog.Impl, len(c.Prog.Clients)))
	for k := range kinds {
		ev.Label(c.Prog.Impl + ":has-" + k)
	}
	total := 0
	rounds := c.Rounds
	if c.Prog.Impl == "mem" {
		rounds *= 4 // MemFs calls are short: more runs for the same cost
	}
	for i := 0; i < rounds; i++ {
		v := runOnce(c.Prog, i%2 == 1, 20*time.Second)
		if v.inconcl != "" {
			ev.Inconclusive(v.inconcl)
			continue
		}
		ev.Eval()
		total += v.overlaps
		if v.msg != "" {
			ev.Failf(t, tLin, c, "%s", v.msg)
		}
	}
	if total > 0 {
		ev.Label(c.Prog.Impl + ":overlap-on-same-path")
		ev.NonTrivial(string(key))
		if len(key) < 2500 {
			ev.Sample(c)
		}
	}
}

func TestLinearizable(t *testing.T) {
	ev.Pinned(t, "C14", tLin, func(raw json.RawMessage) string {
		var c Case
		if json.Unmarshal(raw, &c) != nil {
			return ""
		}
		for i := 0; i < c.Rounds; i++ {
			if v := runOnce(c.Prog, i%2 == 1, 20*time.Second); v.msg != "" {
				return v.msg
			}
		}
		return ""
	})
	rapid.Check(t, func(t *rapid.T) {
		impl := rapid.SampledFrom([]string{"mem", "dir"}).Draw(t, "impl")
		check(t, Case{Prog: genProg(t, impl), Rounds: ev.EnvInt("VERIF_ROUNDS", 4)})
	})
}

func childBin(name string) string { return filepath.Join(os.Getenv("VERIF_BIN"), name) }

// raceChild runs the program in the child built with -race.
func raceChild(p fsprog.Program, rounds int) (msg, inconcl string) {
	bin := childBin("fschild-race")
	b, _ := json.Marshal(p)
	f := filepath.Join(ev.Scratch(), fmt.Sprintf("prog-%d.json", os.Getpid()))
	if err := os.WriteFile(f, b, 0o644); err != nil {
		return "", "scratch: " + err.Error()
	}
	defer os.Remove(f)
	res, err := inject.RunPlainEnv([]string{bin, "conc", f, fmt.Sprint(rounds)}, []string{"GORACE=halt_on_error=1 exitcode=66 atexit_sleep_ms=0"}, 120*time.Second)
	if err != nil || res.TimedOut {
		return "", "race child failed to run or timed out"
	}
	if res.Exit == 66 && strings.Contains(res.Stderr, "WARNING: DATA RACE") {
		if strings.Contains(res.Stderr, "machine/filesys") {
			s := res.Stderr
			if len(s) > 2000 {
				s = s[:2000] + "…"
			}
			return "the race detector reports a data race inside machine/filesys (MemFs):\n" + s, ""
		}
		return "", "data race outside machine/filesys"
	}
	if res.Exit != 0 {
		return "", fmt.Sprintf("race child exit %d", res.Exit)
	}
	return "", ""
}

func TestRace(t *testing.T) {
	if _, err := os.Stat(childBin("fschild-race")); err != nil {
		ev.Inconclusive("race child binary missing")
		t.Skip("no race child")
	}
	rapid.Check(t, func(t *rapid.T) {
		c := Case{Prog: genProg(t, "mem"), Rounds: ev.EnvInt("VERIF_RACE_ROUNDS", 20)}
		msg, inconcl := raceChild(c.Prog, c.Rounds)
		if inconcl != "" {
			ev.Inconclusive(inconcl)
			return
		}
		ev.Eval()
		ev.Label(fmt.Sprintf("race:clients=%d", len(c.Prog.Clients)))
		b, _ := json.Marshal(c.Prog)
		ev.NonTrivial("race|" + string(b))
		if msg != "" {
			ev.Failf(t, tRace, c, "%s", msg)
		}
	})
}

func TestReplay(t *testing.T) {
	p := ev.ReplayPath()
	if p == "" {
		t.Skip("no replay")
	}
	r, err := ev.LoadReplay(p)
	if err != nil {
		t.Fatal(err)
	}
	if r.Test == tContend {
		var cc ContendCase
		if err := json.Unmarshal(r.Case, &cc); err != nil {
			t.Fatal(err)
		}
		cc.Rounds *= 20
		checkContend(t, cc)
		return
	}
	var c Case
	if err := json.Unmarshal(r.Case, &c); err != nil {
		t.Fatal(err)
	}
	if r.Test == tRace {
		msg, inconcl := raceChild(c.Prog, 500)
		if inconcl != "" {
			ev.Inconclusive(inconcl)
		} else if msg != "" {
			ev.Failf(t, tRace, c, "%s", msg)
		}
		return
	}
	c.Rounds = 400
	check(t, c)
}
