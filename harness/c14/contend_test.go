package c14

import (
	"bytes"
	"encoding/json"
	"fmt"
	"os"
	"runtime"
	"sync"
	"sync/atomic"
	"testing"

	"github.com/goose-lang/goose/machine/filesys"
	"pgregory.net/rapid"

	"verifharness/ev"
	"verifharness/models"
)

const tContend = "TestContention"

// ContendCase: K goroutines issue their first call at the same instant (spin
// barrier), Rounds times on a fresh directory each.
//
//	same-create:     all Create("d","a")            → exactly one succeeds
//	same-link:       all Link("d","s" → "d","a")    → exactly one succeeds
//	distinct-create: Create("d", name_i), Append own data, Close
//	                 → all succeed, descriptors pairwise distinct, every file holds exactly its data
//	create-vs-atomic: half Create("d","a"), half AtomicCreate("d","a", data_i)
//	                 → at most one Create succeeds; the file holds the data of one AtomicCreate
//	link-vs-atomic:  goroutine 0 replaces "s" with AtomicCreate 20 times while the others
//	                 Link("s" → fresh names) → every Link succeeds (source exists, target is new)
//	read-vs-append:  goroutine 0 creates "f", appends 4 bytes and then 6 × 70000 bytes while the
//	                 others Open it and ReadAt the whole file in a loop
//	                 → every read returns the contents after a whole number of appends
//	link-delete-list (MemFs): goroutine 0 Link("s" → "t") (a panic = source already gone),
//	                 goroutine 1 Delete("s"), the others List the directory in a loop
//	                 → every observer sees {s}* {s,t}* {t}* and the link succeeded, or {s}* {}* and
//	                 it did not; never {} before {t}, never {t} after a failed Link
//	create-delete-create: goroutine 0 collects: whenever List shows "x" it Links it to a fresh name
//	                 and Deletes "x"; the others Create("x") in a loop and, when they win, Append one
//	                 record and Close → no call panics, every collected file holds at most one
//	                 record, every successful Create's record is in exactly one file
//	churn-distinct:  every goroutine loops Create(own fresh name), Append, Append, Close — descriptors
//	                 are handed out and closed all the time, the OS (or the implementation) reuses
//	                 their numbers → every file holds exactly its creator's two records
type ContendCase struct {
	Impl   string `json:"impl"`
	Mode   string `json:"mode"`
	K      int    `json:"k"`
	Rounds int    `json:"rounds"`
}

func runContend(c ContendCase) (msg string, inconcl string) {
	var fs filesys.Filesys
	if c.Impl == "dir" {
		root, err := os.MkdirTemp(ev.Scratch(), "c14k-")
		if err != nil {
			return "", "scratch: " + err.Error()
		}
		defer os.RemoveAll(root)
		dfs := filesys.NewDirFs(root)
		defer func() {
			defer func() { recover() }()
			dfs.CloseFs()
		}()
		fs = dfs
	} else {
		fs = filesys.NewMemFs()
	}
	for r := 0; r < c.Rounds; r++ {
		dir := fmt.Sprintf("d%d", r)
		fs.Mkdir(dir)
		if c.Mode == "same-link" || c.Mode == "link-vs-atomic" || c.Mode == "link-delete-list" {
			fs.AtomicCreate(dir, "s", []byte("src"))
		}
		var shared filesys.File
		if c.Mode == "shared-append" {
			f, ok := fs.Create(dir, "log")
			if !ok {
				return fmt.Sprintf("round %d: Create of a fresh name failed", r), ""
			}
			shared = f
		}
		oks := make([]bool, c.K)
		fds := make([]filesys.File, c.K)
		panics := make([]string, c.K)
		detail := make([]string, c.K)
		var ready, created, writerDone int32
		var opsDone int32
		linkOK := false
		seen := make([][]string, c.K) // link-delete-list: the states each observer saw, in order
		var creatorsDone int32
		won := make([][]int, c.K) // create-delete-create: the rounds in which creator i won the name
		kept := 0
		var wg sync.WaitGroup
		for i := 0; i < c.K; i++ {
			wg.Add(1)
			go func(i int) {
				defer wg.Done()
				defer func() {
					if p := recover(); p != nil {
						panics[i] = fmt.Sprint(p)
					}
				}()
				atomic.AddInt32(&ready, 1)
				for spin := 0; atomic.LoadInt32(&ready) < int32(c.K); spin++ {
					if spin > 2000 || spin%200 == 199 {
						runtime.Gosched()
					}
				}
				switch c.Mode {
				case "churn-distinct":
					for j := 0; j < churnIters; j++ {
						f, ok := fs.Create(dir, fmt.Sprintf("c%d_%d", i, j))
						if !ok {
							detail[i] = fmt.Sprintf("Create of the fresh name c%d_%d failed", i, j)
							return
						}
						fs.Append(f, sharedRecord(i, j%200, 24))
						fs.Append(f, sharedRecord(i, j%200, 40))
						fs.Close(f)
					}
				case "create-delete-create":
					if i == 0 {
						for n := 0; n < 200000; n++ {
							last := atomic.LoadInt32(&creatorsDone) == int32(c.K-1)
							for _, nm := range fs.List(dir) {
								if nm == "x" {
									// only this goroutine deletes: "x" exists until the Delete below
									if !fs.Link(dir, "x", dir, fmt.Sprintf("k%d", kept)) {
										detail[i] = fmt.Sprintf("Link(\"x\" → \"k%d\") failed although List had just shown \"x\" and nobody else deletes it", kept)
										return
									}
									kept++
									fs.Delete(dir, "x")
									break // a host directory scan concurrent with changes may repeat an entry
								}
							}
							if last {
								break
							}
							runtime.Gosched()
						}
						return
					}
					defer atomic.AddInt32(&creatorsDone, 1)
					for j := 0; j < 150; j++ {
						f, ok := fs.Create(dir, "x")
						if ok {
							won[i] = append(won[i], j)
							fs.Append(f, sharedRecord(i, j, 16))
							fs.Close(f)
						} else {
							runtime.Gosched()
						}
					}
				case "link-delete-list":
					switch i {
					case 0:
						func() {
							defer func() {
								recover() // the source was deleted first: a caller error, not a failure
								atomic.AddInt32(&opsDone, 1)
							}()
							linkOK = fs.Link(dir, "s", dir, "t")
						}()
					case 1:
						fs.Delete(dir, "s")
						atomic.AddInt32(&opsDone, 1)
					default:
						for n := 0; n < 100000; n++ {
							last := atomic.LoadInt32(&opsDone) == 2
							st := ""
							for _, nm := range fs.List(dir) {
								if nm == "s" || nm == "t" {
									st += nm
								}
							}
							if st == "ts" {
								st = "st"
							}
							if st == "" {
								st = "-"
							}
							if k := len(seen[i]); k == 0 || seen[i][k-1] != st {
								seen[i] = append(seen[i], st)
							}
							if last {
								break
							}
						}
					}
				case "link-vs-atomic":
					if i == 0 {
						for j := 0; j < 20; j++ {
							fs.AtomicCreate(dir, "s", models.Pattern(j, 10))
						}
						atomic.StoreInt32(&writerDone, 1)
						return
					}
					for j := 0; j < 400 && (j < 20 || atomic.LoadInt32(&writerDone) == 0); j++ {
						if !fs.Link(dir, "s", dir, fmt.Sprintf("l%d_%d", i, j)) {
							detail[i] = fmt.Sprintf("Link(%q,\"s\" → %q,\"l%d_%d\") returned false although the source exists throughout (it is only ever replaced by AtomicCreate) and the target name is new", dir, dir, i, j)
							return
						}
					}
				case "read-vs-append":
					const big = 70000
					if i == 0 {
						f, ok := fs.Create(dir, "f")
						if !ok {
							detail[i] = "Create of a fresh name failed"
							atomic.StoreInt32(&created, 1)
							atomic.StoreInt32(&writerDone, 1)
							return
						}
						fs.Append(f, models.Pattern(1, 4))
						atomic.StoreInt32(&created, 1)
						for j := 0; j < 6; j++ {
							fs.Append(f, models.Pattern(10+j, big))
							runtime.Gosched()
						}
						atomic.StoreInt32(&writerDone, 1)
						fs.Close(f)
						return
					}
					for atomic.LoadInt32(&created) == 0 {
						runtime.Gosched()
					}
					full := models.Pattern(1, 4)
					for j := 0; j < 6; j++ {
						full = append(full, models.Pattern(10+j, big)...)
					}
					f := fs.Open(dir, "f")
					for n := 0; n < 5000; n++ {
						last := atomic.LoadInt32(&writerDone) == 1
						got := fs.ReadAt(f, 0, uint64(len(full)+100))
						if len(got) < 4 || (len(got)-4)%big != 0 || !bytes.Equal(got, full[:len(got)]) {
							detail[i] = fmt.Sprintf("a ReadAt of the whole file concurrent with Append calls of %d bytes returned %d bytes; the file only ever holds 4 + k·%d bytes (k whole appends)", big, len(got), big)
							break
						}
						if last {
							break
						}
					}
					fs.Close(f)
				case "shared-append":
					// every goroutine appends its own records through ONE shared descriptor; goroutine 0
					// appends large records (they force the buffer to be re-allocated), the others small ones
					for j := 0; j < 12; j++ {
						n := 16
						if i == 0 {
							n = 40000
						}
						fs.Append(shared, sharedRecord(i, j, n))
					}
				case "same-create":
					fds[i], oks[i] = fs.Create(dir, "a")
				case "same-link":
					oks[i] = fs.Link(dir, "s", dir, "a")
				case "distinct-create":
					fds[i], oks[i] = fs.Create(dir, fmt.Sprintf("n%d", i))
					if oks[i] {
						fs.Append(fds[i], models.Pattern(i+1, 10+i))
						fs.Append(fds[i], models.Pattern(i+100, 5))
					}
				case "create-vs-atomic":
					if i%2 == 0 {
						fds[i], oks[i] = fs.Create(dir, "a")
					} else {
						fs.AtomicCreate(dir, "a", models.Pattern(i+1, 20+i))
					}
				}
			}(i)
		}
		wg.Wait()
		for i, p := range panics {
			if p != "" {
				return fmt.Sprintf("round %d: goroutine %d panicked: %s", r, i, p), ""
			}
		}
		for i, d := range detail {
			if d != "" {
				return fmt.Sprintf("round %d: goroutine %d: %s", r, i, d), ""
			}
		}
		nok := 0
		for _, ok := range oks {
			if ok {
				nok++
			}
		}
		readAll := func(name string) []byte {
			f := fs.Open(dir, name)
			defer fs.Close(f)
			return append([]byte{}, fs.ReadAt(f, 0, 1<<16)...)
		}
		closeAll := func() {
			for i, ok := range oks {
				if ok && (c.Mode == "same-create" || c.Mode == "distinct-create" || c.Mode == "create-vs-atomic") {
					func() {
						defer func() { recover() }()
						fs.Close(fds[i])
					}()
				}
			}
		}
		switch c.Mode {
		case "churn-distinct":
			for i := 0; i < c.K; i++ {
				for j := 0; j < churnIters; j++ {
					name := fmt.Sprintf("c%d_%d", i, j)
					want := append(sharedRecord(i, j%200, 24), sharedRecord(i, j%200, 40)...)
					got := readAll(name)
					if !bytes.Equal(got, want) {
						return fmt.Sprintf("round %d: %d goroutines each created, appended to (24 + 40 bytes) and closed %d files of their own; file %s holds %d bytes %x, want the %d bytes its creator appended (first difference at byte %d): appends through distinct descriptors of distinct files were misplaced or lost", r, c.K, churnIters, name, len(got), head(got, 24), len(want), firstDiffAt(got, want)), ""
					}
					fs.Delete(dir, name)
				}
			}
		case "create-delete-create":
			files := []string{}
			for _, nm := range fs.List(dir) {
				files = append(files, nm)
			}
			found := map[[2]int]string{}
			for _, nm := range files {
				got := readAll(nm)
				if len(got) != 0 && len(got) != 16 {
					return fmt.Sprintf("round %d: file %q (a former \"x\", linked away before it was deleted) holds %d bytes; every successful Create appends exactly one 16-byte record to its own new file, so two Creates wrote into one file or an append was torn", r, nm, len(got)), ""
				}
				if len(got) == 16 {
					w, j, ok := parseSharedRecord(got)
					if !ok {
						return fmt.Sprintf("round %d: file %q holds %x, not a record any creator appended", r, nm, got), ""
					}
					if prev, dup := found[[2]int{w, j}]; dup {
						return fmt.Sprintf("round %d: the record of creator %d's Create #%d is in both %q and %q", r, w, j, prev, nm), ""
					}
					found[[2]int{w, j}] = nm
				}
			}
			for i := 1; i < c.K; i++ {
				for _, j := range won[i] {
					if _, ok := found[[2]int{i, j}]; !ok {
						return fmt.Sprintf("round %d: creator %d's Create(\"x\") #%d succeeded and it appended its record, but no file holds it (files: %d); the file it created was replaced under it", r, i, j, len(files)), ""
					}
				}
			}
		case "link-delete-list":
			final := ""
			for _, nm := range fs.List(dir) {
				final += nm
			}
			if final == "" {
				final = "-"
			}
			rank := map[string]int{"s": 0, "st": 1, "t": 2}
			want := "t"
			if !linkOK {
				rank, want = map[string]int{"s": 0, "-": 1}, "-"
			}
			for i := 2; i < c.K; i++ {
				all := append(append([]string{}, seen[i]...), final)
				prev := -1
				for _, st := range all {
					rk, ok := rank[st]
					if !ok || rk < prev {
						return fmt.Sprintf("round %d: Link(\"s\" → \"t\") returned %v concurrently with Delete(\"s\"); observer %d saw the directory go through %v (\"-\" = neither name) and finally %q; with Link=%v the only linearizable sequences are %s", r, linkOK, i, seen[i], final, linkOK,
							map[bool]string{true: "s → st → t", false: "s → - (the Delete came first)"}[linkOK]), ""
					}
					prev = rk
				}
			}
			if final != want {
				return fmt.Sprintf("round %d: Link(\"s\" → \"t\") returned %v concurrently with Delete(\"s\") but the directory finally lists %q, want %q", r, linkOK, final, want), ""
			}
		case "shared-append":
			fs.Close(shared)
			f := fs.Open(dir, "log")
			got := append([]byte{}, fs.ReadAt(f, 0, 1<<22)...)
			fs.Close(f)
			if m := checkSharedLog(got, c.K); m != "" {
				return fmt.Sprintf("round %d: %d goroutines appended through one shared descriptor: %s", r, c.K, m), ""
			}
		case "same-create":
			closeAll()
			if nok != 1 {
				return fmt.Sprintf("round %d: %d of %d concurrent Create(%q,\"a\") calls succeeded; exactly one must", r, nok, c.K, dir), ""
			}
		case "same-link":
			if nok != 1 {
				return fmt.Sprintf("round %d: %d of %d concurrent Link(… → %q,\"a\") calls succeeded; exactly one must", r, nok, c.K, dir), ""
			}
		case "distinct-create":
			for i := 0; i < c.K; i++ {
				for j := i + 1; j < c.K; j++ {
					if oks[i] && oks[j] && fds[i] == fds[j] {
						closeAll()
						return fmt.Sprintf("round %d: concurrent Create of %q and %q returned the same descriptor value %d", r, fmt.Sprintf("n%d", i), fmt.Sprintf("n%d", j), int(fds[i])), ""
					}
				}
			}
			closeAll()
			if nok != c.K {
				return fmt.Sprintf("round %d: only %d of %d concurrent Create calls of distinct fresh names succeeded", r, nok, c.K), ""
			}
			for i := 0; i < c.K; i++ {
				want := append(models.Pattern(i+1, 10+i), models.Pattern(i+100, 5)...)
				var got []byte
				p := ""
				func() {
					defer func() {
						if x := recover(); x != nil {
							p = fmt.Sprint(x)
						}
					}()
					got = readAll(fmt.Sprintf("n%d", i))
				}()
				if p != "" {
					return fmt.Sprintf("round %d: reading n%d after concurrent creates panicked: %s", r, i, p), ""
				}
				if !bytes.Equal(got, want) {
					return fmt.Sprintf("round %d: file n%d holds %d bytes %x, its creator appended %d bytes %x (appends through distinct descriptors were lost or mixed)", r, i, len(got), got, len(want), want), ""
				}
			}
		case "create-vs-atomic":
			closeAll()
			if nok > 1 {
				return fmt.Sprintf("round %d: %d concurrent Create(%q,\"a\") calls succeeded", r, nok, dir), ""
			}
			got := readAll("a")
			match := false
			for i := 1; i < c.K; i += 2 {
				if bytes.Equal(got, models.Pattern(i+1, 20+i)) {
					match = true
				}
			}
			if !match {
				return fmt.Sprintf("round %d: after concurrent Create/AtomicCreate the file holds %d bytes %x, not the data of any AtomicCreate", r, len(got), got), ""
			}
		}
	}
	return "", ""
}

// sharedRecord is the j-th record of goroutine i: a 16-byte header (magic, writer, sequence number,
// length) followed by a payload determined by the header.
func sharedRecord(i, j, n int) []byte {
	b := make([]byte, n)
	copy(b, []byte{0xA5, 0x5A, byte(i), byte(j), byte(n), byte(n >> 8), byte(n >> 16), 0xC3})
	for k := 8; k < n; k++ {
		b[k] = byte(k*7 + i*31 + j*13)
	}
	return b
}

const churnIters = 250

func head(b []byte, n int) []byte {
	if len(b) > n {
		return b[:n]
	}
	return b
}

func firstDiffAt(a, b []byte) int {
	for i := 0; i < len(a) && i < len(b); i++ {
		if a[i] != b[i] {
			return i
		}
	}
	if len(a) < len(b) {
		return len(a)
	}
	return len(b)
}

// parseSharedRecord recognises one whole 16-byte-header record with n == len(b).
func parseSharedRecord(b []byte) (writer, seq int, ok bool) {
	if len(b) < 8 || b[0] != 0xA5 || b[1] != 0x5A || b[7] != 0xC3 {
		return 0, 0, false
	}
	writer, seq = int(b[2]), int(b[3])
	n := int(b[4]) | int(b[5])<<8 | int(b[6])<<16
	if n != len(b) || !bytes.Equal(b, sharedRecord(writer, seq, n)) {
		return 0, 0, false
	}
	return writer, seq, true
}

// checkSharedLog checks that the log is a sequence of whole records, each written record exactly
// once, and every writer's records in the order it appended them.
func checkSharedLog(got []byte, k int) string {
	next := make([]int, k)
	off := 0
	for off < len(got) {
		if len(got)-off < 8 || got[off] != 0xA5 || got[off+1] != 0x5A || got[off+7] != 0xC3 {
			return fmt.Sprintf("no record header at offset %d of %d (an append was torn or overwritten)", off, len(got))
		}
		i, j := int(got[off+2]), int(got[off+3])
		n := int(got[off+4]) | int(got[off+5])<<8 | int(got[off+6])<<16
		if i >= k || n < 8 || off+n > len(got) {
			return fmt.Sprintf("damaged record header at offset %d", off)
		}
		if !bytes.Equal(got[off:off+n], sharedRecord(i, j, n)) {
			return fmt.Sprintf("record %d of goroutine %d at offset %d is damaged", j, i, off)
		}
		if j != next[i] {
			return fmt.Sprintf("goroutine %d's record %d appears where its record %d is due (an append that returned is lost or out of order)", i, j, next[i])
		}
		next[i]++
		off += n
	}
	for i, n := range next {
		if n != 12 {
			return fmt.Sprintf("the log holds %d of the 12 records goroutine %d appended (appends that returned are lost)", n, i)
		}
	}
	return ""
}

func checkContend(t ev.TB, c ContendCase) {
	msg, inconcl := runContend(c)
	if inconcl != "" {
		ev.Inconclusive(inconcl)
		return
	}
	ev.Add("", int64(c.Rounds))
	ev.Label(c.Impl + ":" + c.Mode)
	b, _ := json.Marshal(c)
	ev.NonTrivial(string(b))
	if msg != "" {
		ev.Failf(t, tContend, c, "%s: %s", map[string]string{"mem": "MemFs", "dir": "DirFs"}[c.Impl], msg)
	}
}

func TestContention(t *testing.T) {
	ev.Pinned(t, "C14", tContend, func(raw json.RawMessage) string {
		var c ContendCase
		if json.Unmarshal(raw, &c) != nil {
			return ""
		}
		msg, _ := runContend(c)
		return msg
	})
	rapid.Check(t, func(t *rapid.T) {
		c := ContendCase{
			Impl: rapid.SampledFrom([]string{"mem", "mem", "dir"}).Draw(t, "impl"),
			Mode: rapid.SampledFrom([]string{"same-create", "same-link", "distinct-create", "create-vs-atomic", "link-vs-atomic", "read-vs-append", "shared-append", "link-delete-list", "create-delete-create", "churn-distinct"}).Draw(t, "mode"),
			K:    rapid.IntRange(2, 8).Draw(t, "k"),
		}
		if c.Mode == "link-delete-list" {
			// MemFs only: a directory scan of the host file system concurrent with link/unlink may
			// legitimately miss or repeat entries, List of the in-memory file system is one critical section
			c.Impl = "mem"
			if c.K < 3 {
				c.K = 3
			}
		}
		if c.Mode == "link-vs-atomic" && c.Impl == "dir" && models.KnownSwitch(swK1) {
			// known finding K1: DirFs.Link fails spuriously while its source name is being replaced
			ev.Prune(swK1)
			c.Mode = "same-link"
		}
		if c.Mode == "read-vs-append" {
			if c.Impl == "dir" && models.KnownSwitch(swK2) {
				// known finding K2: a DirFs.ReadAt concurrent with a multi-page Append sees part of it
				ev.Prune(swK2)
				c.Mode = "distinct-create"
			} else if c.Impl == "mem" && models.KnownSwitch(swL2) {
				// known finding L2: Open while the creator's descriptor is open
				ev.Prune(swL2)
				c.Mode = "distinct-create"
			}
		}
		if c.Mode == "create-vs-atomic" && c.Impl == "dir" && models.KnownSwitch(swL3) && c.K > 3 {
			// known finding L3: two concurrent DirFs.AtomicCreate calls of one name share the staging file
			ev.Prune(swL3)
			c.K = 3
		}
		c.Rounds = ev.EnvInt("VERIF_CONTEND_ROUNDS", 300)
		if c.Impl == "dir" {
			c.Rounds /= 10
		}
		if c.Mode == "create-delete-create" && c.K < 3 {
			c.K = 3
		}
		if c.Mode == "churn-distinct" {
			// volume matters: a descriptor number must be reused while its previous owner is still
			// inside Close (seeded change C14-6 shows about once per 10^5 files)
			c.K += 8
		}
		switch c.Mode { // long rounds
		case "churn-distinct":
			c.Rounds = 2 + ev.EnvInt("VERIF_CONTEND_ROUNDS", 300)/75
		case "create-delete-create":
			c.Rounds = 1 + c.Rounds/40
		case "link-vs-atomic":
			c.Rounds = 2 * ev.EnvInt("VERIF_CONTEND_ROUNDS", 300) / 10
		case "read-vs-append":
			c.Rounds = 1 + c.Rounds/30
		case "shared-append":
			c.Rounds = 1 + c.Rounds/15
		}
		checkContend(t, c)
	})
}
