// Package c06: translation is deterministic and packages do not influence each
// other; translating many packages at once is free of data races (DESIGN.md
// §3 C06).
//
// A case is a module of generated packages (or the repo's own
// internal/examples) plus a plan of invocations: the same packages translated
// one at a time, in subsets, in shuffled pattern order, repeatedly, under
// different GOMAXPROCS values, through TranslationConfig.TranslatePackages and
// through the goose binary. The oracle is metamorphic: the per-package result
// (file bytes, error text) of every invocation must equal the result of
// translating that package alone; repetitions of one invocation must agree
// byte for byte including stderr. TestRace runs a -race build of cmd/goose
// on multi-package patterns.
package c06

import (
	"bytes"
	"encoding/json"
	"fmt"
	"os"
	"path/filepath"
	"runtime"
	"sort"
	"strings"
	"sync/atomic"
	"testing"
	"verifharness/gen"

	"github.com/goose-lang/goose"
	"pgregory.net/rapid"

	"verifharness/c08/gmod"
	"verifharness/ev"
)

const swTwoFfi = "noTwoFfiPackage"

func TestMain(m *testing.M) {
	ev.Meta("exploration",
		"cases = (module of 3-8 generated packages importing each other and FFI/builtin leaves, some with conversion errors, or the repo's internal/examples; flag set; plan of invocations: package subsets in drawn order x GOMAXPROCS in {1,2,4,16} x library/binary x repetitions); "+
			"non-trivial = an invocation translates >= 3 packages together of which >= 1 has errors and >= 2 share an imported package (for the repo examples: >= 3 packages together); distinct by hash of module shape, flags and invocation; "+
			"race part: cases = multi-package goose-race runs, non-trivial = >= 3 packages in one run",
		"worker scheduling cannot be controlled from outside: it is varied through GOMAXPROCS, repetition and machine load only",
		"a data race is only reported when the detector sees both accesses in one run",
		"the binary's stderr is compared as a multiset of per-package error texts plus exact equality across repetitions")
	ev.Main(m, "C06")
}

// Inv is one invocation of the translator.
type Inv struct {
	Via          string `json:"via"`  // "lib" or "bin"
	Pkgs         []int  `json:"pkgs"` // indices into the package list, in pattern order
	Dots         bool   `json:"dots"` // use the single pattern ./... (all packages) instead of listing
	Procs        int    `json:"procs"`
	Reps         int    `json:"reps"`
	IgnoreErrors bool   `json:"ignore_errors"` // binary only
	// generated modules only. Rel: the listed packages are spelled ./dir instead of by import path.
	// Tree k > 0: the recursive pattern TOP/... is given as well, TOP the first directory of package
	// k-1's path; every package below TOP joins the selection (seeded change C06-10: patterns that
	// merely share a spelling prefix with TOP were dropped as "covered")
	Rel     bool `json:"rel,omitempty"`
	Tree    int  `json:"tree,omitempty"`
	TreePos int  `json:"tree_pos,omitempty"`
}

// Case is one generated case.
type Case struct {
	Repo   bool        `json:"repo"` // translate the repo's internal/examples instead of Mod
	Mod    gmod.Module `json:"mod"`
	TwoFfi []int       `json:"two_ffi"` // packages reaching two FFIs: never sent through the in-process entry point
	Flags  []string    `json:"flags"`
	Invs   []Inv       `json:"invs"`
}

// pkgRef is a package of the case: pattern (import path) and output path.
type pkgRef struct {
	path    string
	outFile string
}

func mapPath(p string) string {
	return strings.NewReplacer(".", "_", "-", "_").Replace(p)
}

// obs is what translating one package gave.
type obs struct {
	text    []byte // file contents (library: always; binary: when written)
	present bool
	err     string
	crash   bool
}

var caseCounter int64

func config(flags []string) goose.TranslationConfig {
	var tr goose.TranslationConfig
	for _, f := range flags {
		switch f {
		case "-typecheck":
			tr.TypeCheck = true
		case "-source-comments":
			tr.AddSourceFileComments = true
		case "-skip-interfaces":
			tr.SkipInterfaces = true
		}
	}
	return tr
}

// libRun translates patterns in-process and returns the package paths in
// result order with their observations.
func libRun(modDir string, flags []string, procs int, repo bool, patterns []string) (order []string, res map[string]obs, perr error) {
	if procs > 0 {
		old := runtime.GOMAXPROCS(procs)
		defer runtime.GOMAXPROCS(old)
	}
	if repo {
		// never let `go list` touch go.mod/go.sum of the tree under test
		old := os.Getenv("GOFLAGS")
		os.Setenv("GOFLAGS", "-mod=readonly")
		defer os.Setenv("GOFLAGS", old)
	}
	files, errs, perr := config(flags).TranslatePackages(modDir, patterns...)
	if perr != nil {
		return nil, nil, perr
	}
	res = map[string]obs{}
	for i, f := range files {
		var buf bytes.Buffer
		f.Write(&buf)
		o := obs{text: buf.Bytes(), present: true}
		if errs[i] != nil {
			o.err = errs[i].Error()
		}
		key := f.PkgPath
		if key == "" {
			key = fmt.Sprintf("<no package path #%d>", i)
		}
		order = append(order, key)
		res[key] = o
	}
	return order, res, nil
}

type binResult struct {
	exit   int
	stderr string
	tree   map[string][]byte
	crash  bool
}

func binRun(bin, modDir, outDir string, flags []string, procs int, repo, ignoreErrors bool, extraEnv []string, patterns []string) (binResult, string) {
	env := []string{"NO_COLOR=1"}
	if procs > 0 {
		env = append(env, fmt.Sprintf("GOMAXPROCS=%d", procs))
	}
	if repo {
		env = append(env, "GOFLAGS=-mod=readonly")
	}
	env = append(env, extraEnv...)
	args := []string{"-out", outDir}
	args = append(args, flags...)
	if ignoreErrors {
		args = append(args, "-ignore-errors")
	}
	args = append(args, patterns...)
	r := gmod.Run(modDir, env, bin, args...)
	if r.Err != nil || r.TimedOut {
		return binResult{}, "goose could not be run"
	}
	tree, err := gmod.ReadTree(outDir)
	if err != nil {
		return binResult{}, "cannot read output tree"
	}
	return binResult{exit: r.Exit, stderr: r.Stderr, tree: tree, crash: gmod.Crashed(r.Stderr) || r.Exit == 2}, ""
}

// examplePkgs lists the repo's example packages (sorted import paths).
func examplePkgs() ([]string, error) {
	r := gmod.Run(ev.Repo(), []string{"GOFLAGS=-mod=readonly"}, "go", "list", "./internal/examples/...")
	if r.Err != nil || r.Exit != 0 {
		return nil, fmt.Errorf("go list failed: %s", r.Stderr)
	}
	ps := strings.Fields(r.Stdout)
	sort.Strings(ps)
	return ps, nil
}

// runCase returns "" when the property holds on c.
func runCase(c Case) string {
	goose_ := filepath.Join(os.Getenv("VERIF_BIN"), "goose")
	if _, err := os.Stat(goose_); err != nil {
		ev.Inconclusive("goose binary missing")
		return ""
	}
	root := filepath.Join(ev.Scratch(), fmt.Sprintf("case%d", atomic.AddInt64(&caseCounter, 1)))
	defer os.RemoveAll(root)
	var pkgs []pkgRef
	modDir := ev.Repo()
	if c.Repo {
		ps, err := examplePkgs()
		if err != nil || len(ps) == 0 {
			ev.Inconclusive("cannot list the repo's example packages")
			return ""
		}
		for _, p := range ps {
			pkgs = append(pkgs, pkgRef{path: p, outFile: mapPath(p) + ".v"})
		}
		if err := os.MkdirAll(root, 0o755); err != nil {
			ev.Inconclusive("cannot create scratch")
			return ""
		}
	} else {
		var err error
		modDir, err = c.Mod.Write(root, ev.Repo())
		if err != nil {
			ev.Inconclusive("cannot write module")
			return ""
		}
		for _, p := range c.Mod.Pkgs {
			ip := c.Mod.ImportPath(p)
			pkgs = append(pkgs, pkgRef{path: ip, outFile: mapPath(ip) + ".v"})
		}
	}
	n := len(pkgs)
	two := map[int]bool{}
	for _, i := range c.TwoFfi {
		two[i%n] = true
	}
	outN := 0
	newOut := func() string { outN++; return filepath.Join(root, fmt.Sprintf("out%d", outN)) }

	// baseline: every package that some invocation uses, translated alone
	base := map[int]obs{}
	baseline := func(i int) (obs, string) {
		if o, ok := base[i]; ok {
			return o, ""
		}
		var o obs
		if two[i] {
			br, inc := binRun(goose_, modDir, newOut(), c.Flags, 0, c.Repo, false, nil, []string{pkgs[i].path})
			if inc != "" {
				return o, inc
			}
			if br.crash {
				o.crash = true
			} else {
				o.text, o.present = br.tree[pkgs[i].outFile]
				o.err = strings.TrimSuffix(br.stderr, "\n")
			}
		} else {
			_, res, perr := libRun(modDir, c.Flags, 0, c.Repo, []string{pkgs[i].path})
			if perr != nil {
				return o, "baseline: pattern error"
			}
			r, ok := res[pkgs[i].path]
			if !ok || len(res) != 1 {
				return o, "baseline: package not returned under its own path"
			}
			o = r
		}
		base[i] = o
		return o, ""
	}

	for k, inv := range c.Invs {
		if len(inv.Pkgs) == 0 {
			continue
		}
		var idx []int
		seen := map[int]bool{}
		for _, i := range inv.Pkgs {
			i = ((i % n) + n) % n
			if !seen[i] {
				seen[i] = true
				idx = append(idx, i)
			}
		}
		var patterns, names []string
		anyTwo, anyCrash, anyErr := false, false, false
		if !c.Repo {
			for _, i := range idx {
				if inv.Rel {
					patterns = append(patterns, "./"+c.Mod.Pkgs[i].Dir)
				} else {
					patterns = append(patterns, pkgs[i].path)
				}
			}
			if inv.Tree > 0 {
				top := c.Mod.Pkgs[(inv.Tree-1)%n].Dir
				if j := strings.Index(top, "/"); j >= 0 {
					top = top[:j]
				}
				for j, p := range c.Mod.Pkgs {
					if (p.Dir == top || strings.HasPrefix(p.Dir, top+"/")) && !seen[j] {
						seen[j] = true
						idx = append(idx, j)
					}
				}
				tp := c.Mod.Path + "/" + top + "/..."
				if inv.Rel {
					tp = "./" + top + "/..."
				}
				at := ((inv.TreePos % (len(patterns) + 1)) + len(patterns) + 1) % (len(patterns) + 1)
				patterns = append(patterns[:at:at], append([]string{tp}, patterns[at:]...)...)
			}
		}
		for _, i := range idx {
			if c.Repo {
				patterns = append(patterns, pkgs[i].path)
			}
			names = append(names, pkgs[i].path)
			o, inc := baseline(i)
			if inc != "" {
				ev.Inconclusive(inc)
				return ""
			}
			anyTwo = anyTwo || two[i]
			anyCrash = anyCrash || o.crash
			anyErr = anyErr || o.err != ""
		}
		if inv.Dots && len(idx) == n {
			if c.Repo {
				patterns = []string{"./internal/examples/..."}
			} else {
				patterns = []string{"./..."}
			}
		}
		via := inv.Via
		if anyTwo {
			via = "bin" // a panic in a translation goroutine cannot be caught in-process
		}
		reps := inv.Reps
		if reps < 1 {
			reps = 1
		}
		desc := fmt.Sprintf("invocation %d (%s, GOMAXPROCS=%d, patterns %v)", k, via, inv.Procs, patterns)
		var firstOrder []string
		var firstStderr string
		for rep := 0; rep < reps; rep++ {
			if via == "lib" {
				order, res, perr := libRun(modDir, c.Flags, inv.Procs, c.Repo, patterns)
				if perr != nil {
					ev.Inconclusive("library: pattern error")
					return ""
				}
				if len(order) != len(idx) {
					return fmt.Sprintf("%s: %d packages selected, %d results returned (%v)", desc, len(idx), len(order), order)
				}
				for _, i := range idx {
					b := base[i]
					o, ok := res[pkgs[i].path]
					if !ok {
						return fmt.Sprintf("%s: no result for package %s (results: %v)", desc, pkgs[i].path, order)
					}
					if !bytes.Equal(o.text, b.text) {
						return fmt.Sprintf("%s, repetition %d: output of package %s differs from its output when translated alone\n%s", desc, rep, pkgs[i].path, firstDiff(b.text, o.text))
					}
					if o.err != b.err {
						return fmt.Sprintf("%s, repetition %d: error text of package %s differs from the one when translated alone\n alone:\n%s\n together:\n%s", desc, rep, pkgs[i].path, indent(b.err), indent(o.err))
					}
				}
				if rep == 0 {
					firstOrder = order
				} else if strings.Join(order, " ") != strings.Join(firstOrder, " ") {
					return fmt.Sprintf("%s: result order differs between repetitions: %v vs %v", desc, firstOrder, order)
				}
				continue
			}
			br, inc := binRun(goose_, modDir, newOut(), c.Flags, inv.Procs, c.Repo, inv.IgnoreErrors, nil, patterns)
			if inc != "" {
				ev.Inconclusive(inc)
				return ""
			}
			if br.crash && !anyCrash {
				return fmt.Sprintf("%s, repetition %d: every package translates (or is refused) without a crash when given alone, together goose crashed: exit %d\n%s", desc, rep, br.exit, indent(head(br.stderr, 10)))
			}
			want := map[string]bool{}
			var wantErrLen int
			for _, i := range idx {
				b := base[i]
				if b.crash {
					continue
				}
				shouldExist := b.present && (b.err == "" || inv.IgnoreErrors)
				if two[i] {
					shouldExist = b.present
				}
				got, ok := br.tree[pkgs[i].outFile]
				if shouldExist {
					want[pkgs[i].outFile] = true
					if !ok {
						return fmt.Sprintf("%s, repetition %d: package %s produces %s (%d bytes) when translated alone, but no such file when translated together with %v; exit %d; stderr:\n%s", desc, rep, pkgs[i].path, pkgs[i].outFile, len(b.text), others(names, pkgs[i].path), br.exit, indent(head(br.stderr, 6)))
					}
					if !bytes.Equal(got, b.text) {
						return fmt.Sprintf("%s, repetition %d: file of package %s differs from its output when translated alone\n%s", desc, rep, pkgs[i].path, firstDiff(b.text, got))
					}
				} else if ok && !two[i] {
					return fmt.Sprintf("%s, repetition %d: package %s has errors and -ignore-errors is off, but %s was written", desc, rep, pkgs[i].path, pkgs[i].outFile)
				}
				if b.err != "" {
					wantErrLen += len(b.err) + 1
					if !anyCrash && !strings.Contains(br.stderr, b.err+"\n") {
						return fmt.Sprintf("%s, repetition %d: stderr lacks the error text package %s gives when translated alone\n alone:\n%s\n stderr:\n%s", desc, rep, pkgs[i].path, indent(head(b.err, 12)), indent(head(br.stderr, 24)))
					}
				}
			}
			if !anyCrash {
				if len(br.stderr) != wantErrLen {
					return fmt.Sprintf("%s, repetition %d: stderr has %d bytes, the error texts of the selected packages add up to %d\n%s", desc, rep, len(br.stderr), wantErrLen, indent(head(br.stderr, 24)))
				}
				wantExit := 0
				if anyErr {
					wantExit = 1
				}
				if br.exit != wantExit {
					return fmt.Sprintf("%s, repetition %d: exit status %d, expected %d from the per-package results", desc, rep, br.exit, wantExit)
				}
				for _, f := range gmod.TreeKeys(br.tree) {
					if !want[f] && !(anyTwo && inv.IgnoreErrors && f == "..v") {
						return fmt.Sprintf("%s, repetition %d: unexpected output file %s", desc, rep, f)
					}
				}
				if rep == 0 {
					firstStderr = br.stderr
				} else if br.stderr != firstStderr {
					return fmt.Sprintf("%s: stderr differs between repetition 0 and %d\n first:\n%s\n now:\n%s", desc, rep, indent(head(firstStderr, 16)), indent(head(br.stderr, 16)))
				}
			}
		}
	}
	return ""
}

func others(all []string, me string) []string {
	var out []string
	for _, s := range all {
		if s != me {
			out = append(out, s)
		}
	}
	return out
}

func indent(s string) string { return "   " + strings.ReplaceAll(s, "\n", "\n   ") }

func head(s string, n int) string {
	lines := strings.Split(strings.TrimRight(s, "\n"), "\n")
	if len(lines) > n {
		lines = append(lines[:n], "…")
	}
	return strings.Join(lines, "\n")
}

func firstDiff(a, b []byte) string {
	la, lb := strings.Split(string(a), "\n"), strings.Split(string(b), "\n")
	for i := 0; i < len(la) || i < len(lb); i++ {
		var x, y string
		if i < len(la) {
			x = la[i]
		} else {
			x = "<end of file>"
		}
		if i < len(lb) {
			y = lb[i]
		} else {
			y = "<end of file>"
		}
		if x != y {
			return fmt.Sprintf(" first difference at line %d (%d vs %d bytes in total):\n   alone:    %s\n   observed: %s", i+1, len(a), len(b), x, y)
		}
	}
	return " (no line difference)"
}

// ---- generator ------------------------------------------------------------

var ffiName = map[string]string{
	gmod.MachineDisk: "disk", gmod.PrimitiveDisk: "disk",
	gmod.MachineAsync: "async_disk", gmod.PrimitiveAsync: "async_disk",
	gmod.Grove: "grove",
}

var ffiLeaves = []string{gmod.MachineDisk, gmod.PrimitiveDisk, gmod.MachineAsync, gmod.PrimitiveAsync, gmod.Grove}
var plainLeaves = []string{gmod.Machine, "sync", "fmt", "log", gmod.GokvTime}

// several directories share a spelling prefix without being inside one another (a, a1/inner; kv, kv2;
// sub/x, sub2)
var dirPool = []string{"a", "b", "util", "core", "kv", "store", "my-pkg", "v1.2", "sub/x", "sub/y", "trusted_t", "zz/deep/er", "a1/inner", "kv2", "sub2"}
var fileNames = []string{"a.go", "b.go", "m.go", "z.go", "x_y.go", "c.go", "k9.go"}

func use(ip, name string, idx int) string {
	switch ip {
	case gmod.MachineDisk, gmod.PrimitiveDisk, gmod.MachineAsync, gmod.PrimitiveAsync:
		return "\ts = s + " + name + ".BlockSize\n"
	case gmod.Machine:
		return "\ts = s + machine.RandomUint64()\n"
	case gmod.Grove:
		return "\ts = s + grove_ffi.Use()\n"
	case gmod.GokvTime:
		return "\ts = s + time.TimeNow()\n"
	case "sync":
		return "\tmu := new(sync.Mutex)\n\tmu.Lock()\n\tmu.Unlock()\n"
	case "fmt":
		return "\tfmt.Println(\"x\")\n"
	case "log":
		return "\tlog.Println(\"x\")\n"
	}
	// a package of the generated module: use its exported struct type, method, constructor and
	// constant, so that names qualified relative to the translating package (pkg.P vs P) appear
	// in both the declaring and the using package (seeded change C06-3)
	v := fmt.Sprintf("%d", idx)
	return "\t" + name + ".F()\n" +
		"\tp" + v + " := &" + name + ".P{A: s + " + name + ".K, B: false}\n" +
		"\tq" + v + " := " + name + ".MkP(p" + v + ".A)\n" +
		"\ts = s + q" + v + ".A + p" + v + ".GetA()\n"
}

// exportedDecls is part of every generated package (see use).
const exportedDecls = "// P is an exported pair.\ntype P struct {\n\tA uint64\n\tB bool\n}\n\nfunc (p *P) GetA() uint64 {\n\treturn p.A\n}\n\nfunc MkP(a uint64) P {\n\treturn P{A: a, B: true}\n}\n\nconst K uint64 = 7\n"

// declaration templates; %[1]d is the declaration's own id, %[2]d / %[3]d are
// ids of a Sum / const (or struct) declaration of the same package.
var goodDecls = []string{
	"const C%[1]d uint64 = 1%[1]d\n",
	"// S%[1]d is a pair.\ntype S%[1]d struct {\n\ta uint64\n\tb bool\n}\n\nfunc (s *S%[1]d) Get() uint64 {\n\treturn s.a\n}\n",
	"func Sum%[1]d(n uint64) uint64 {\n\tvar s uint64 = 0\n\tfor i := uint64(0); i < n; i++ {\n\t\ts = s + i\n\t}\n\treturn s\n}\n",
	"func M%[1]d(k uint64) uint64 {\n\tm := make(map[uint64]uint64)\n\tm[k] = k + 1\n\tv, ok := m[k]\n\tif ok {\n\t\treturn v\n\t}\n\treturn 0\n}\n",
	"func Sl%[1]d(n uint64) []uint64 {\n\txs := make([]uint64, n)\n\tvar ys []uint64\n\tfor _, x := range xs {\n\t\tys = append(ys, x)\n\t}\n\treturn ys\n}\n",
	"type I%[1]d interface {\n\tArea() uint64\n}\n\ntype Sq%[1]d struct {\n\tSide uint64\n}\n\nfunc (t Sq%[1]d) Area() uint64 {\n\treturn t.Side * t.Side\n}\n\nfunc measure%[1]d(t I%[1]d) uint64 {\n\treturn t.Area()\n}\n\nfunc UseI%[1]d() uint64 {\n\ts := Sq%[1]d{\n\t\tSide: 2,\n\t}\n\treturn measure%[1]d(s) + measure%[1]d(s)\n}\n",
	"// D%[1]d depends on declarations of other files.\nfunc D%[1]d() uint64 {\n\treturn Sum%[2]d(C%[3]d)\n}\n",
	"type T%[1]d struct {\n\ts []S%[4]d\n\tn uint64\n}\n",
	"func Spawn%[1]d() {\n\tv := new(uint64)\n\tgo func() {\n\t\t*v = Sum%[2]d(C%[3]d)\n\t}()\n}\n",
}

var sameNameVariants = []string{
	"type H struct {\n\thook func(uint64) uint64\n\tn    uint64\n}\n\nfunc CallH(h *H) uint64 {\n\treturn h.hook(1) + h.n\n}\n",
	"type H struct {\n\tn uint64\n}\n\nfunc (h *H) hook(x uint64) uint64 {\n\treturn x + h.n\n}\n\nfunc CallH(h *H) uint64 {\n\treturn h.hook(1) + h.n\n}\n",
	"type H struct {\n\tn    bool\n\thook uint64\n}\n\nfunc CallH(h *H) uint64 {\n\treturn h.hook\n}\n",
}

// documented rejections (testdata/negative-tests of the repo)
var badDecls = []string{
	"func Bad%[1]d(xs []uint64) uint64 {\n\tvar sum uint64\n\tfor _, x := range xs {\n\t\tsum += x\n\t\tbreak\n\t}\n\treturn sum\n}\n",
	"func Bad%[1]d() map[uint64]uint64 {\n\treturn map[uint64]uint64{1: 2}\n}\n",
	"func Bad%[1]d() uint64 {\n\tx, y := uint64(0), uint64(0)\n\treturn x + y\n}\n",
	"func Bad%[1]d(m map[uint64]uint64) uint64 {\n\treturn 0\n\tm[1] = 1\n\treturn 1\n}\n",
}

type genInfo struct {
	sameName int // packages that declare the same-named type H (with differing content)
	hasErr   []bool
	imports  [][]string
}

func genModule(t *rapid.T) (gmod.Module, []int, genInfo) {
	var m gmod.Module
	var info genInfo
	swTwo := ev.SwitchOn(swTwoFfi)
	m.Path = rapid.SampledFrom([]string{"example.com/m", "ex-ample.com/my.mod"}).Draw(t, "modpath")
	n := gen.Range(t, "npkgs", 3, 8)
	wantTwo := gen.Range(t, "wantTwoFfi", 0, 3) == 0
	allowTwo := wantTwo && !swTwo
	dirs := rapid.Permutation(append([]string(nil), dirPool...)).Draw(t, "dirs")[:n]
	name := func(dir string) string { return mapPath(dir[strings.LastIndex(dir, "/")+1:]) }
	ffis := map[string]map[string]bool{} // import path -> FFI names reached
	for l, f := range ffiName {
		ffis[l] = map[string]bool{f: true}
	}
	pkgName := map[string]string{}
	for _, l := range append(append([]string(nil), ffiLeaves...), plainLeaves...) {
		pkgName[l] = gmod.LeafName(l)
	}
	var two []int
	for i := 0; i < n; i++ {
		ip := m.Path + "/" + dirs[i]
		pkgName[ip] = name(dirs[i])
		var cands []string
		for j := 0; j < i; j++ {
			p := 3
			if j == 0 {
				p = 6 // a hub that many packages share
			}
			if gen.Range(t, "imp", 0, 9) < p {
				cands = append(cands, m.Path+"/"+dirs[j])
			}
		}
		if gen.Range(t, "ffiKind", 0, 9) < 3 {
			cands = append(cands, rapid.SampledFrom(ffiLeaves).Draw(t, "ffi"))
		}
		for _, l := range plainLeaves {
			if gen.Range(t, "leaf", 0, 9) < 2 {
				cands = append(cands, l)
			}
		}
		reach := map[string]bool{}
		var imps []string
		for _, c := range cands {
			nr := map[string]bool{}
			for f := range reach {
				nr[f] = true
			}
			for f := range ffis[c] {
				nr[f] = true
			}
			if len(nr) > 1 && !allowTwo {
				if wantTwo && swTwo {
					ev.Prune(swTwoFfi)
				}
				continue
			}
			reach = nr
			imps = append(imps, c)
		}
		ffis[ip] = reach
		if len(reach) > 1 {
			two = append(two, i)
		}

		// declarations: a base set, extras, possibly documented rejections
		var decls []string
		decls = append(decls, "func F() {\n}\n", exportedDecls)
		// a type of the SAME name in several packages but with different content: hook is a
		// func-typed field in one package, a method in another, a plain field in a third (seeded
		// change C06-7: information cached under the unqualified type name)
		if hv := gen.Range(t, "sameNameType", 0, 5); hv >= 1 && hv <= 3 {
			decls = append(decls, sameNameVariants[hv-1])
			info.sameName++
		}
		id := 0
		var sums, consts, structs []int
		add := func(k int) {
			id++
			a, b, s := 0, 0, 0
			if len(sums) > 0 {
				a = sums[gen.Range(t, "sumRef", 0, len(sums)-1)]
			}
			if len(consts) > 0 {
				b = consts[gen.Range(t, "constRef", 0, len(consts)-1)]
			}
			if len(structs) > 0 {
				s = structs[gen.Range(t, "structRef", 0, len(structs)-1)]
			}
			decls = append(decls, fmt.Sprintf(goodDecls[k], id, a, b, s)+"")
			switch k {
			case 0:
				consts = append(consts, id)
			case 1:
				structs = append(structs, id)
			case 2:
				sums = append(sums, id)
			}
		}
		add(0)
		add(1)
		add(2)
		for k := gen.Range(t, "extraDecls", 1, 6); k > 0; k-- {
			add(gen.Range(t, "declKind", 0, len(goodDecls)-1))
		}
		hasErr := false
		if gen.Range(t, "errs", 0, 9) < 3 {
			for k := gen.Range(t, "nbad", 1, 2); k > 0; k-- {
				id++
				decls = append(decls, fmt.Sprintf(badDecls[gen.Range(t, "badKind", 0, len(badDecls)-1)], id))
				hasErr = true
			}
		}
		// files
		nf := gen.Range(t, "nfiles", 1, 3)
		fnames := rapid.Permutation(append([]string(nil), fileNames...)).Draw(t, "fileNames")
		files := make([]gmod.File, nf)
		has := make([]map[string]bool, nf)
		bodies := make([][]string, nf)
		for k := range files {
			files[k].Name = fnames[k]
			files[k].Style = gen.Range(t, "style", 0, 2)
			has[k] = map[string]bool{}
		}
		for _, d := range rapid.Permutation(decls).Draw(t, "declOrder") {
			k := gen.Range(t, "declFile", 0, nf-1)
			bodies[k] = append(bodies[k], d)
		}
		var kept []string
		for _, c := range rapid.Permutation(append([]string(nil), imps...)).Draw(t, "importOrder") {
			first := gen.Range(t, "file", 0, nf-1)
			placed := false
			for d := 0; d < nf && !placed; d++ {
				k := (first + d) % nf
				if !has[k][pkgName[c]] {
					files[k].Imports = append(files[k].Imports, c)
					has[k][pkgName[c]] = true
					placed = true
				}
			}
			if placed {
				kept = append(kept, c)
				for k := 0; k < nf; k++ {
					if !has[k][pkgName[c]] && gen.Range(t, "repeat", 0, 3) == 0 {
						files[k].Imports = append(files[k].Imports, c)
						has[k][pkgName[c]] = true
					}
				}
			}
		}
		for k := range files {
			var b strings.Builder
			for _, d := range bodies[k] {
				b.WriteString(d)
				b.WriteString("\n")
			}
			if len(files[k].Imports) > 0 {
				fmt.Fprintf(&b, "func U%d() uint64 {\n\tvar s uint64 = 0\n", k)
				for ci, c := range files[k].Imports {
					b.WriteString(use(c, pkgName[c], ci))
				}
				b.WriteString("\treturn s\n}\n")
			}
			files[k].Body = b.String()
		}
		sort.Strings(kept)
		info.hasErr = append(info.hasErr, hasErr)
		info.imports = append(info.imports, kept)
		m.Pkgs = append(m.Pkgs, gmod.Pkg{Dir: dirs[i], Name: name(dirs[i]), Files: files})
	}
	return m, two, info
}

// nExamples is the number of packages under internal/examples (indices are
// taken modulo the real count).
const nExamples = 12

var procsPool = []int{1, 2, 4, 16}
var flagPool = []string{"-typecheck", "-source-comments", "-skip-interfaces"}

func genInvs(t *rapid.T, n int, count int) []Inv {
	var invs []Inv
	for k := 0; k < count; k++ {
		var inv Inv
		inv.Via = rapid.SampledFrom([]string{"lib", "bin", "bin"}).Draw(t, "via")
		inv.Procs = rapid.SampledFrom(procsPool).Draw(t, "procs")
		inv.Reps = rapid.SampledFrom([]int{1, 1, 2, 3, 5}).Draw(t, "reps")
		inv.IgnoreErrors = gen.Range(t, "ignoreErrors", 0, 3) == 0
		ord := rapid.Permutation(indices(n)).Draw(t, "order")
		switch gen.Range(t, "selection", 0, 5) {
		case 0:
			inv.Pkgs = ord
			inv.Dots = true
		case 1, 2:
			inv.Pkgs = ord
		case 3:
			inv.Pkgs = ord[:1]
		default:
			inv.Pkgs = ord[:gen.Range(t, "subset", 2, n)]
		}
		if !inv.Dots {
			inv.Rel = gen.Chance(t, "relativePatterns", 35)
			if len(inv.Pkgs) < n && gen.Chance(t, "treePattern", 40) {
				inv.Tree = 1 + gen.Range(t, "treeOf", 0, n-1)
				inv.TreePos = gen.Range(t, "treePos", 0, len(inv.Pkgs))
			}
		}
		invs = append(invs, inv)
	}
	return invs
}

func indices(n int) []int {
	out := make([]int, n)
	for i := range out {
		out[i] = i
	}
	return out
}

func genFlags(t *rapid.T) []string {
	var fl []string
	for _, f := range flagPool {
		if gen.Range(t, "flag", 0, 3) == 0 {
			fl = append(fl, f)
		}
	}
	return fl
}

// ---- classification ---------------------------------------------------------

func classify(c Case, info *genInfo) {
	ev.Label(fmt.Sprintf("flags: %d", len(c.Flags)))
	n := len(c.Mod.Pkgs)
	if c.Repo {
		ev.Label("module: repo internal/examples")
	} else {
		ev.Label(fmt.Sprintf("module: generated, %d packages", n))
		if len(c.TwoFfi) > 0 {
			ev.Label("module has a package reaching two FFIs")
		}
		if info != nil {
			for _, e := range info.hasErr {
				if e {
					ev.Label("module has a package with conversion errors")
					break
				}
			}
		}
	}
	shape := c
	shape.Invs = nil
	if !c.Repo {
		shape.Mod.Pkgs = nil
		for _, p := range c.Mod.Pkgs {
			q := gmod.Pkg{Dir: p.Dir, Name: p.Name}
			for _, f := range p.Files {
				q.Files = append(q.Files, gmod.File{Name: f.Name, Imports: f.Imports, Body: fmt.Sprint(ev.Hash(f.Body))})
			}
			shape.Mod.Pkgs = append(shape.Mod.Pkgs, q)
		}
	}
	sb, _ := json.Marshal(shape)
	for _, inv := range c.Invs {
		ev.Label("via " + inv.Via)
		ev.Label(fmt.Sprintf("GOMAXPROCS=%d", inv.Procs))
		ev.Label(fmt.Sprintf("repetitions: %d", inv.Reps))
		switch {
		case len(inv.Pkgs) == 1:
			ev.Label("selection: one package")
		case inv.Dots:
			ev.Label("selection: ./...")
		case inv.Tree > 0:
			ev.Label("selection: list with a recursive pattern DIR/...")
		default:
			ev.Label("selection: list of >= 2")
		}
		ev.Add("invocations", int64(inv.Reps))
		nt := false
		if c.Repo {
			nt = len(inv.Pkgs) >= 3
		} else if info != nil && len(inv.Pkgs) >= 3 {
			errs := 0
			shared := map[string]int{}
			for _, i := range inv.Pkgs {
				if i < len(info.hasErr) && info.hasErr[i] {
					errs++
				}
				if i < len(info.imports) {
					for _, d := range info.imports[i] {
						shared[d]++
					}
				}
			}
			sh := false
			for _, k := range shared {
				if k >= 2 {
					sh = true
				}
			}
			if errs > 0 {
				ev.Label("group has a package with errors")
			}
			if sh {
				ev.Label("group shares an imported package")
			}
			nt = errs > 0 && sh
		}
		if nt {
			ib, _ := json.Marshal(inv)
			ev.NonTrivial(string(sb) + string(ib))
		}
	}
}

// infoOf recomputes the generator's bookkeeping from a case (for replays).
func infoOf(c Case) *genInfo {
	var info genInfo
	for _, p := range c.Mod.Pkgs {
		set := map[string]bool{}
		bad := false
		for _, f := range p.Files {
			for _, d := range f.Imports {
				set[d] = true
			}
			if strings.Contains(f.Body, "func Bad") {
				bad = true
			}
		}
		var imps []string
		for d := range set {
			imps = append(imps, d)
		}
		sort.Strings(imps)
		info.imports = append(info.imports, imps)
		info.hasErr = append(info.hasErr, bad)
	}
	return &info
}

func check(t ev.TB, c Case) {
	ev.Eval()
	classify(c, infoOf(c))
	if ev.WantSample() {
		ev.Sample(c)
	}
	if msg := runCase(c); msg != "" {
		ev.Failf(t, "TestDeterminism", c, "%s", msg)
	}
}

func genCase(t *rapid.T) Case {
	var c Case
	c.Flags = genFlags(t)
	if gen.Range(t, "repoExamples", 0, 7) == 0 {
		c.Repo = true
		c.Invs = genInvs(t, nExamples, gen.Range(t, "ninvs", 2, 4))
		return c
	}
	c.Mod, c.TwoFfi, _ = genModule(t)
	c.Invs = genInvs(t, len(c.Mod.Pkgs), gen.Range(t, "ninvs", 4, 8))
	return c
}

func TestDeterminism(t *testing.T) {
	ev.Pinned(t, "C06", "TestDeterminism", func(raw json.RawMessage) string {
		var c Case
		if err := json.Unmarshal(raw, &c); err != nil {
			return "unreadable pinned case: " + err.Error()
		}
		return runCase(c)
	})
	rapid.Check(t, func(t *rapid.T) { check(t, genCase(t)) })
}

// ---- race part --------------------------------------------------------------

// RaceCase is one run of the -race build of cmd/goose.
type RaceCase struct {
	Race  bool        `json:"race"` // marks the case kind in replay files
	Repo  bool        `json:"repo"`
	Mod   gmod.Module `json:"mod"`
	Flags []string    `json:"flags"`
	Procs int         `json:"procs"`
}

func runRace(c RaceCase) string {
	bin := filepath.Join(os.Getenv("VERIF_BIN"), "goose-race")
	if _, err := os.Stat(bin); err != nil {
		ev.Inconclusive("goose-race binary missing")
		return ""
	}
	root := filepath.Join(ev.Scratch(), fmt.Sprintf("race%d", atomic.AddInt64(&caseCounter, 1)))
	defer os.RemoveAll(root)
	modDir := ev.Repo()
	patterns := []string{"./internal/examples/..."}
	if !c.Repo {
		var err error
		modDir, err = c.Mod.Write(root, ev.Repo())
		if err != nil {
			ev.Inconclusive("cannot write module")
			return ""
		}
		patterns = []string{"./..."}
	}
	br, inc := binRun(bin, modDir, filepath.Join(root, "out"), c.Flags, c.Procs, c.Repo, true,
		[]string{"GORACE=halt_on_error=1 exitcode=66"}, patterns)
	if inc != "" {
		ev.Inconclusive(inc)
		return ""
	}
	if br.exit == 66 || strings.Contains(br.stderr, "WARNING: DATA RACE") {
		i := strings.Index(br.stderr, "WARNING: DATA RACE")
		if i < 0 {
			i = 0
		}
		return fmt.Sprintf("data race reported by the -race build of cmd/goose on %v (GOMAXPROCS=%d, exit %d):\n%s", patterns, c.Procs, br.exit, head(br.stderr[i:], 40))
	}
	return ""
}

func checkRace(t ev.TB, c RaceCase) {
	ev.Eval()
	n := len(c.Mod.Pkgs)
	if c.Repo {
		ev.Label("race run: repo internal/examples")
		n = nExamples
	} else {
		ev.Label(fmt.Sprintf("race run: generated, %d packages", n))
	}
	ev.Label(fmt.Sprintf("race run: GOMAXPROCS=%d", c.Procs))
	if n >= 3 {
		b, _ := json.Marshal(c)
		ev.NonTrivial(string(b))
	}
	if ev.WantSample() {
		ev.Sample(c)
	}
	if msg := runRace(c); msg != "" {
		ev.Failf(t, "TestRace", c, "%s", msg)
	}
}

func TestRace(t *testing.T) {
	// the repo's own examples first, at two parallelism levels
	for _, p := range []int{4, 16} {
		checkRace(t, RaceCase{Race: true, Repo: true, Procs: p, Flags: []string{"-typecheck"}})
	}
	rapid.Check(t, func(t *rapid.T) {
		var c RaceCase
		c.Race = true
		c.Flags = genFlags(t)
		c.Procs = rapid.SampledFrom([]int{2, 4, 16}).Draw(t, "procs")
		sw := ev.SwitchOn(swTwoFfi)
		var two []int
		c.Mod, two, _ = genModule(t)
		if len(two) > 0 && sw {
			t.Skip("unreachable: generator excludes two-FFI packages while the switch is on")
		}
		checkRace(t, c)
	})
}

func TestReplay(t *testing.T) {
	p := ev.ReplayPath()
	if p == "" {
		t.Skip("no replay")
	}
	r, err := ev.LoadReplay(p)
	if err != nil {
		t.Fatal(err)
	}
	var probe struct {
		Race bool `json:"race"`
	}
	_ = json.Unmarshal(r.Case, &probe)
	if probe.Race {
		var c RaceCase
		if err := json.Unmarshal(r.Case, &c); err != nil {
			t.Fatal(err)
		}
		// a race needs the schedule: try several times
		for i := 0; i < 5; i++ {
			checkRace(t, c)
		}
		return
	}
	var c Case
	if err := json.Unmarshal(r.Case, &c); err != nil {
		t.Fatal(err)
	}
	check(t, c)
}
