package c13

import (
	"bytes"
	"encoding/json"
	"fmt"
	"os"
	"path/filepath"
	"strings"
	"testing"
	"time"

	"github.com/goose-lang/goose/machine/filesys"
	"pgregory.net/rapid"

	"verifharness/cmd/fschild/fsprog"
	"verifharness/ev"
	"verifharness/inject"
	"verifharness/models"
)

const (
	tConc   = "TestConcurrent"
	tRace   = "TestConcurrentRace"
	readLen = 400000
)

// ConcCase is a concurrent program of AtomicCreate calls and whole-file
// readers (Open, ReadAt(0, readLen), Close), run Rounds times.
type ConcCase struct {
	Kind   string         `json:"kind"` // "creators" | "reader"
	Prog   fsprog.Program `json:"prog"`
	Rounds int            `json:"rounds"`
}

type target struct{ dir, name string }

// concOracle judges one run.
func concOracle(p fsprog.Program, res fsprog.Result, final map[target][]byte, finalPanic string) (msg string, overlaps int) {
	if finalPanic != "" {
		return "reading the files after the run panicked: " + finalPanic, 0
	}
	all := append(append([]fsprog.Event{}, res.Setup...), res.Events...)
	for _, e := range all {
		if e.Out.Panicked {
			return fmt.Sprintf("client %d call %d %s panicked: %s", e.Client, e.Index, e.Op, e.Out.Panic), 0
		}
	}
	// candidates per target
	cands := map[target][][]byte{}
	lasts := map[target][][]byte{} // last AtomicCreate of every client per target
	for _, op := range p.Setup {
		if op.Kind == models.FsAtomic {
			tg := target{op.Dir, op.Name}
			cands[tg] = append(cands[tg], op.Data())
		}
	}
	for _, cl := range p.Clients {
		last := map[target][]byte{}
		var order []target
		for _, op := range cl {
			if op.Kind == models.FsAtomic {
				tg := target{op.Dir, op.Name}
				cands[tg] = append(cands[tg], op.Data())
				if _, ok := last[tg]; !ok {
					order = append(order, tg)
				}
				last[tg] = op.Data()
			}
		}
		for _, tg := range order {
			lasts[tg] = append(lasts[tg], last[tg])
		}
	}
	oneOf := func(b []byte, set [][]byte) bool {
		for _, s := range set {
			if bytes.Equal(b, s) {
				return true
			}
		}
		return false
	}
	show := func(b []byte, set [][]byte) string {
		known := map[string][]byte{}
		for i, s := range set {
			known[fmt.Sprintf("candidate %d (%d bytes)", i, len(s))] = s
		}
		return describe(b, known)
	}
	// which target does a (client, slot) read?
	slotTarget := map[[2]int]target{}
	type window struct{ call, ret int64 }
	var readWins []window
	openCall := map[[2]int]int64{}
	for _, e := range res.Events {
		k := [2]int{e.Client, e.Slot}
		switch e.Op.Kind {
		case models.FsOpen:
			slotTarget[k] = target{e.Op.Dir, e.Op.Name}
			openCall[k] = e.Call
		case models.FsReadAt:
			if e.Skipped {
				continue
			}
			tg := slotTarget[k]
			readWins = append(readWins, window{openCall[k], e.Ret})
			if !oneOf(e.Out.Res.Data, cands[tg]) {
				return fmt.Sprintf("reader (client %d, call %d) read %s/%s while it was being replaced and saw %s — neither the old nor any new contents in full",
					e.Client, e.Index, tg.dir, tg.name, show(e.Out.Res.Data, cands[tg])), 0
			}
		}
	}
	for _, tg := range targetsOf(p) {
		set := lasts[tg]
		if len(set) == 0 {
			continue
		}
		got, ok := final[tg]
		if !ok {
			return fmt.Sprintf("%s/%s does not exist after all AtomicCreate calls returned", tg.dir, tg.name), 0
		}
		if !oneOf(got, set) {
			return fmt.Sprintf("after %d client(s) finished AtomicCreate on %s/%s the file is %s — not the complete data of the last call of any of them",
				len(set), tg.dir, tg.name, show(got, cands[tg])), 0
		}
	}
	// overlap statistics
	var atom []fsprog.Event
	for _, e := range res.Events {
		if e.Op.Kind == models.FsAtomic {
			atom = append(atom, e)
		}
	}
	for i := range atom {
		for j := i + 1; j < len(atom); j++ {
			if atom[i].Client != atom[j].Client && atom[i].Call < atom[j].Ret && atom[j].Call < atom[i].Ret {
				overlaps++
			}
		}
		for _, w := range readWins {
			if atom[i].Call < w.ret && w.call < atom[i].Ret {
				overlaps++
			}
		}
	}
	return "", overlaps
}

func targetsOf(p fsprog.Program) []target {
	seen := map[target]bool{}
	var out []target
	add := func(op models.FsOp) {
		if op.Kind == models.FsAtomic {
			tg := target{op.Dir, op.Name}
			if !seen[tg] {
				seen[tg] = true
				out = append(out, tg)
			}
		}
	}
	for _, op := range p.Setup {
		add(op)
	}
	for _, cl := range p.Clients {
		for _, op := range cl {
			add(op)
		}
	}
	return out
}

// runConcOnce runs the program once on a fresh filesystem.
func runConcOnce(p fsprog.Program, yield bool) (msg string, overlaps int, inconcl string) {
	var fs filesys.Filesys
	var dfs filesys.DirFs
	if p.Impl == "dir" {
		root, err := os.MkdirTemp(ev.Scratch(), "c13c-")
		if err != nil {
			return "", 0, "scratch: " + err.Error()
		}
		defer os.RemoveAll(root)
		dfs = filesys.NewDirFs(root)
		defer func() {
			defer func() { recover() }()
			dfs.CloseFs()
		}()
		fs = dfs
	} else {
		fs = filesys.NewMemFs()
	}
	res := fsprog.Run(fs, p, yield)
	for _, f := range res.Live {
		func() {
			defer func() { recover() }()
			if p.Impl != "dir" || int(f) > 2 {
				fs.Close(f)
			}
		}()
	}
	final := map[target][]byte{}
	finalPanic := ""
	func() {
		defer func() {
			if r := recover(); r != nil {
				finalPanic = fmt.Sprint(r)
			}
		}()
		for _, tg := range targetsOf(p) {
			f := fs.Open(tg.dir, tg.name)
			final[tg] = append([]byte{}, fs.ReadAt(f, 0, readLen)...)
			fs.Close(f)
		}
	}()
	msg, overlaps = concOracle(p, res, final, finalPanic)
	return msg, overlaps, ""
}

func checkConc(t ev.TB, c ConcCase, replay bool) {
	ev.Label(c.Prog.Impl + ":" + c.Kind)
	ev.Label(fmt.Sprintf("clients=%d", len(c.Prog.Clients)))
	key, _ := json.Marshal(c.Prog)
	total := 0
	for i := 0; i < c.Rounds; i++ {
		msg, ov, inconcl := runConcOnce(c.Prog, i%2 == 1)
		if inconcl != "" {
			ev.Inconclusive(inconcl)
			return
		}
		ev.Eval()
		total += ov
		if msg != "" {
			ev.Failf(t, tConc, c, "%s (%s, round %d)", msg, c.Prog.Impl, i)
		}
	}
	if total > 0 {
		ev.Label(c.Prog.Impl + ":overlap-observed")
		ev.NonTrivial(string(key))
		if len(key) < 3000 {
			ev.Sample(c)
		}
	}
}

// ---- generation ------------------------------------------------------------

var concSizes = []int{0, 1, 100, 4096, 10000, 300000}

func genConc(t *rapid.T, impl string) ConcCase {
	l3 := models.KnownSwitch(swL3) && impl == "dir"
	l2 := models.KnownSwitch(swL2) && impl == "mem"
	c := ConcCase{Rounds: ev.EnvInt("VERIF_ROUNDS", 3)}
	c.Prog.Impl = impl
	dirs := []string{"d", "e", "f"}
	names := []string{"a", "b", "c", "g", "h", "i"}
	for _, d := range dirs {
		c.Prog.Setup = append(c.Prog.Setup, models.FsOp{Kind: models.FsMkdir, Dir: d})
	}
	seed := 0
	data := func(label string) (int, int) {
		seed++
		n := rapid.SampledFrom(concSizes).Draw(t, label)
		if rapid.IntRange(0, 2).Draw(t, label+"r") == 0 {
			n = rapid.IntRange(0, 6000).Draw(t, label+"n")
		}
		return seed, n
	}
	if rapid.IntRange(0, 2).Draw(t, "kind") == 0 {
		c.Kind = "reader"
		s, n := data("old")
		c.Prog.Setup = append(c.Prog.Setup, models.FsOp{Kind: models.FsAtomic, Dir: "d", Name: "a", Seed: s, N: n})
		writers := rapid.IntRange(1, 3).Draw(t, "writers")
		if l3 && writers > 1 {
			// known finding L3: concurrent creators of one name share the staging file
			ev.Prune(swL3)
			writers = 1
		}
		for w := 0; w < writers; w++ {
			var cl []models.FsOp
			for k := rapid.IntRange(1, 3).Draw(t, "creates"); k > 0; k-- {
				s, n := data("new")
				cl = append(cl, models.FsOp{Kind: models.FsAtomic, Dir: "d", Name: "a", Seed: s, N: n})
			}
			c.Prog.Clients = append(c.Prog.Clients, cl)
		}
		readers := rapid.IntRange(1, 2).Draw(t, "readers")
		if l2 && readers > 1 {
			// known finding L2: two descriptors on one inode are one descriptor in MemFs
			ev.Prune(swL2)
			readers = 1
		}
		for r := 0; r < readers; r++ {
			var cl []models.FsOp
			for k := rapid.IntRange(5, 40).Draw(t, "reads"); k > 0; k-- {
				cl = append(cl,
					models.FsOp{Kind: models.FsOpen, Dir: "d", Name: "a", Fd: 1},
					models.FsOp{Kind: models.FsReadAt, Fd: 1, Off: 0, Len: readLen},
					models.FsOp{Kind: models.FsClose, Fd: 1})
			}
			c.Prog.Clients = append(c.Prog.Clients, cl)
		}
		return c
	}
	c.Kind = "creators"
	m := rapid.IntRange(2, 6).Draw(t, "creators")
	rel := rapid.SampledFrom([]string{"diffdir", "diffname", "same", "mixed"}).Draw(t, "relation")
	if l3 && rel != "diffname" {
		// known finding L3: creators of one name (in any directory) share <root>/<name>.tmp
		ev.Prune(swL3)
		rel = "diffname"
	}
	perm := rapid.Permutation(names).Draw(t, "names")
	for i := 0; i < m; i++ {
		var tg target
		switch rel {
		case "diffdir":
			tg = target{dirs[i%len(dirs)], "a"} // more than three creators: some share a file
		case "diffname":
			tg = target{"d", perm[i]}
			if !l3 {
				tg.dir = rapid.SampledFrom(dirs).Draw(t, "dir")
			}
		case "same":
			tg = target{"d", "a"}
		default:
			tg = target{rapid.SampledFrom(dirs[:2]).Draw(t, "dir"), rapid.SampledFrom(names[:2]).Draw(t, "name")}
		}
		if i == 0 && rapid.Bool().Draw(t, "hasold") {
			s, n := data("old")
			c.Prog.Setup = append(c.Prog.Setup, models.FsOp{Kind: models.FsAtomic, Dir: tg.dir, Name: tg.name, Seed: s, N: n})
		}
		var cl []models.FsOp
		for k := rapid.IntRange(1, 2).Draw(t, "creates"); k > 0; k-- {
			s, n := data("new")
			cl = append(cl, models.FsOp{Kind: models.FsAtomic, Dir: tg.dir, Name: tg.name, Seed: s, N: n})
		}
		c.Prog.Clients = append(c.Prog.Clients, cl)
	}
	return c
}

func TestConcurrent(t *testing.T) {
	rapid.Check(t, func(t *rapid.T) {
		impl := rapid.SampledFrom([]string{"dir", "mem"}).Draw(t, "impl")
		checkConc(t, genConc(t, impl), false)
	})
}

// TestConcurrentRace runs MemFs programs in a child built with -race.
func TestConcurrentRace(t *testing.T) {
	bin := childBin("fschild-race")
	if _, err := os.Stat(bin); err != nil {
		ev.Inconclusive("race child binary missing")
		t.Skip("no race child")
	}
	rapid.Check(t, func(t *rapid.T) {
		c := genConc(t, "mem")
		c.Rounds = ev.EnvInt("VERIF_RACE_ROUNDS", 20)
		ev.Label("race:" + c.Kind)
		if msg, inconcl := raceChild(bin, c.Prog, c.Rounds); inconcl != "" {
			ev.Inconclusive(inconcl)
		} else {
			ev.Eval()
			b, _ := json.Marshal(c.Prog)
			ev.NonTrivial("race|" + string(b))
			if msg != "" {
				ev.Failf(t, tRace, c, "%s", msg)
			}
		}
	})
}

// raceChild runs the program in the -race child; msg != "" when the race
// detector reported a data race inside machine/filesys.
func raceChild(bin string, p fsprog.Program, rounds int) (msg, inconcl string) {
	b, _ := json.Marshal(p)
	f := filepath.Join(ev.Scratch(), fmt.Sprintf("prog-%d.json", os.Getpid()))
	if err := os.WriteFile(f, b, 0o644); err != nil {
		return "", "scratch: " + err.Error()
	}
	defer os.Remove(f)
	res, err := inject.RunPlainEnv([]string{bin, "conc", f, fmt.Sprint(rounds)}, []string{"GORACE=halt_on_error=1 exitcode=66 atexit_sleep_ms=0"}, 120*time.Second)
	if err != nil || res.TimedOut {
		return "", "race child failed to run or timed out"
	}
	if res.Exit == 66 && strings.Contains(res.Stderr, "WARNING: DATA RACE") {
		if strings.Contains(res.Stderr, "machine/filesys") {
			return "the race detector reports a data race inside machine/filesys (MemFs):\n" + firstN(res.Stderr, 1800), ""
		}
		return "", "data race outside machine/filesys"
	}
	if res.Exit != 0 {
		return "", fmt.Sprintf("race child exit %d", res.Exit)
	}
	return "", ""
}
