// Package c13: AtomicCreate is all-or-nothing, durable-before-visible and
// interference-free (DESIGN.md §3 C13).
//
// TestFaults: for a generated scenario (old contents, leftovers of an earlier
// interrupted call, data sizes) a child process (cmd/fschild) performs one
// DirFs.AtomicCreate under strace; from a dry-run trace every system call of
// the operation is used once as a crash point (SIGKILL on entry) and once per
// errno as a failing call; a file-size limit produces short writes.
// TestConcurrent: readers and creators run concurrently in process on DirFs
// and MemFs, and the MemFs programs run again in a child built with -race.
package c13

import (
	"bytes"
	"encoding/json"
	"fmt"
	"os"
	"path/filepath"
	"regexp"
	"sort"
	"strconv"
	"strings"
	"sync"
	"testing"
	"time"

	"github.com/goose-lang/goose/machine/filesys"
	"pgregory.net/rapid"

	"verifharness/ev"
	"verifharness/inject"
	"verifharness/models"
)

const (
	swL3      = "noSharedStagingFile"        // L3: DirFs.AtomicCreate stages in <root>/<name>.tmp without O_TRUNC/O_EXCL
	swL2      = "noTwoDescriptorsOnOneInode" // L2 (pinned under C12): MemFs descriptor = inode number
	tFaults   = "TestFaults"
	traceSet  = inject.Syscalls + ",link,unlink,rename,open,creat,truncate,pwritev,writev,sync_file_range,syncfs,sync"
	otherDir  = "other"
	otherSeed = 201
	otherN    = 777
)

func TestMain(m *testing.M) {
	ev.Meta("fault_enumeration",
		"faults: one evaluation = one (scenario, crash point | failing call | size limit) child run, all system calls of the operation enumerated per scenario; non-trivial = the fault lies strictly between the first write and the rename, or the scenario has leftovers of an interrupted call. "+
			"concurrent: one evaluation = one round of a concurrent program; non-trivial = >= 2 AtomicCreate calls overlapped, or an AtomicCreate overlapped a reader's Open..ReadAt",
		"crashes are process kills (SIGKILL on entry to a system call), not power loss: flush-before-visible is asserted on the system-call trace of the successful run",
		"failing calls are injected with strace (the call is not executed and returns the errno)",
		"short writes are produced with RLIMIT_FSIZE (write crossing the limit is short, the next fails with EFBIG)",
		"concurrent schedules are those the Go runtime produces (with and without Gosched between calls)")
	ev.Main(m, "C13")
}

// ---- cases -----------------------------------------------------------------

// Data describes models.Pattern(Seed, N).
type Data struct {
	Seed int `json:"seed"`
	N    int `json:"n"`
}

func (d Data) bytes() []byte { return models.Pattern(d.Seed, d.N) }

// Leftover is what an earlier interrupted AtomicCreate of the same name left.
type Leftover struct {
	Kind string `json:"kind"` // "none" | "synthetic" (file <root>/<name>.tmp written directly) | "kill" (a real earlier call killed at At)
	Data Data   `json:"data"`
	At   string `json:"at,omitempty"` // "write" | "fsync" | "renameat"
}

// Scenario of one AtomicCreate(Dir, Name, New).
type Scenario struct {
	Dir  string   `json:"dir"`
	Name string   `json:"name"`
	Old  *Data    `json:"old"` // nil = the file does not exist
	Left Leftover `json:"left"`
	New  Data     `json:"new"`
	Next Data     `json:"next"` // data of the follow-up, un-injected AtomicCreate
}

// Fault is one injection.
type Fault struct {
	Mode    string `json:"mode"`              // "kill" | "error" | "fsize" | "none" (only the un-injected run)
	Syscall string `json:"syscall,omitempty"` // kill/error
	K       int    `json:"k,omitempty"`       // k-th call of Syscall within the operation (1-based)
	Errno   string `json:"errno,omitempty"`   // error
	Limit   int    `json:"limit,omitempty"`   // fsize: RLIMIT_FSIZE in bytes
}

func (f Fault) String() string {
	switch f.Mode {
	case "kill":
		return fmt.Sprintf("crash on entry to %s #%d", f.Syscall, f.K)
	case "error":
		return fmt.Sprintf("%s #%d fails with %s", f.Syscall, f.K, f.Errno)
	case "fsize":
		return fmt.Sprintf("file size limit %d bytes", f.Limit)
	}
	return f.Mode
}

// Case is a scenario and, for replays, the single fault to apply (nil = all).
type Case struct {
	Sc    Scenario `json:"scenario"`
	Fault *Fault   `json:"fault,omitempty"`
}

// ---- helpers -----------------------------------------------------------------

func childBin(name string) string { return filepath.Join(os.Getenv("VERIF_BIN"), name) }

func copyTree(src, dst string) error {
	return filepath.Walk(src, func(p string, info os.FileInfo, err error) error {
		if err != nil {
			return err
		}
		rel, _ := filepath.Rel(src, p)
		q := filepath.Join(dst, rel)
		if info.IsDir() {
			return os.MkdirAll(q, 0o755)
		}
		b, err := os.ReadFile(p)
		if err != nil {
			return err
		}
		return os.WriteFile(q, b, 0o644)
	})
}

func describe(b []byte, known map[string][]byte) string {
	var names []string
	for k := range known {
		names = append(names, k)
	}
	sort.Strings(names)
	for _, k := range names {
		if bytes.Equal(b, known[k]) {
			return fmt.Sprintf("%d bytes = %s", len(b), k)
		}
	}
	for _, k := range names {
		v := known[k]
		if len(v) > 0 && len(b) > 0 {
			n := 0
			for n < len(b) && n < len(v) && b[n] == v[n] {
				n++
			}
			if n > 0 {
				return fmt.Sprintf("%d bytes, the first %d of which are the first bytes of %s (%d bytes)", len(b), n, k, len(v))
			}
		}
	}
	return fmt.Sprintf("%d bytes matching none of the expected contents", len(b))
}

// readDest returns the contents of root/dir/name; exists=false when absent.
func readDest(root, dir, name string) (b []byte, exists bool, err error) {
	b, err = os.ReadFile(filepath.Join(root, dir, name))
	if os.IsNotExist(err) {
		return nil, false, nil
	}
	return b, err == nil, err
}

// atomicInProcess runs an un-injected AtomicCreate on a DirFs over root.
func atomicInProcess(root, dir, name string, data []byte) (pmsg string) {
	defer func() {
		if r := recover(); r != nil {
			pmsg = fmt.Sprint(r)
		}
	}()
	fs := filesys.NewDirFs(root)
	defer fs.CloseFs()
	fs.AtomicCreate(dir, name, data)
	return ""
}

type runner struct {
	sc      Scenario
	tmpl    string // prepared state
	work    string // parent of per-run roots
	n       int
	inconcl string
}

func (r *runner) freshRoot() (string, error) {
	r.n++
	root := filepath.Join(r.work, fmt.Sprintf("r%d", r.n))
	return root, copyTree(r.tmpl, root)
}

func (r *runner) argv(root string, d Data, limit int) []string {
	a := []string{childBin("fschild"), "atomic", root, r.sc.Dir, r.sc.Name, strconv.Itoa(d.Seed), strconv.Itoa(d.N)}
	if limit > 0 {
		a = append(a, strconv.Itoa(limit))
	}
	return a
}

// opCall is a system call of the operation (after NewDirFs opened the root).
type opCall struct {
	inject.Call
	Occ int // occurrence among the calls of the same name in the whole trace (strace's when=)
	K   int // occurrence among the calls of the same name within the operation
}

var fdArg = regexp.MustCompile(`^(-?\d+|AT_FDCWD), `)
var pathArg = regexp.MustCompile(`^(-?\d+|AT_FDCWD), "((?:[^"\\]|\\.)*)"(\.\.\.)?(?:, (.*))?$`)

// opCalls splits a trace into the calls of the operation. ok=false when the
// trace does not have the expected shape (several threads issuing traced
// calls, root not opened).
func opCalls(calls []inject.Call, root string) (rootFd string, ops []opCall, ok bool) {
	pid := 0
	occ := map[string]int{}
	k := map[string]int{}
	started := false
	for _, c := range calls {
		if c.Name == "+++" {
			continue
		}
		if pid == 0 {
			pid = c.Pid
		}
		if c.Pid != pid {
			if c.Ret == "?" {
				// strace prints a half-decoded pending call for the other
				// threads of a process that is being killed
				continue
			}
			return "", nil, false
		}
		occ[c.Name]++
		if !started {
			if (c.Name == "openat" || c.Name == "open") && strings.Contains(c.Args, `"`+root+`"`) && strings.Contains(c.Args, "O_DIRECTORY") {
				started = true
				rootFd = c.Ret
			}
			continue
		}
		if c.Name == "write" && strings.HasPrefix(c.Args, "2, ") {
			continue // the child's own message on stderr
		}
		k[c.Name]++
		ops = append(ops, opCall{Call: c, Occ: occ[c.Name], K: k[c.Name]})
	}
	return rootFd, ops, started
}

// traceInvariant checks clause (3) on the trace of a successful run.
// It returns a violation message, or an "inconclusive" reason when the trace
// cannot be interpreted.
func traceInvariant(rootFd string, ops []opCall, dir, name string, n int) (viol, inconcl string) {
	dest := dir + "/" + name
	paths := map[string]string{rootFd: ""} // fd -> path relative to root
	resolve := func(fd, p string) (string, bool) {
		if strings.HasPrefix(p, "/") {
			return p, true
		}
		base, ok := paths[fd]
		if !ok {
			return "", false
		}
		return filepath.Join(base, p), true
	}
	renameIdx, stagingFd, stagingPath := -1, "", ""
	written := map[string]int{}
	fdOfPath := map[string]string{} // path -> descriptor of its most recent successful open
	lastWriteOn := map[string]int{}
	syncOn := map[string][]int{}
	for i, c := range ops {
		switch c.Name {
		case "openat", "open", "creat":
			args := c.Args
			if c.Name != "openat" {
				args = "AT_FDCWD, " + args
			}
			m := pathArg.FindStringSubmatch(args)
			if m == nil || m[3] != "" || strings.Contains(m[2], `\`) {
				return "", "unparsed open in trace: " + c.Raw
			}
			p, ok := resolve(m[1], m[2])
			if !ok {
				return "", "open relative to an unknown descriptor: " + c.Raw
			}
			if c.Failed {
				continue
			}
			if p == dest && (strings.Contains(m[4], "O_WRONLY") || strings.Contains(m[4], "O_RDWR") || strings.Contains(m[4], "O_CREAT") || strings.Contains(m[4], "O_TRUNC")) {
				return fmt.Sprintf("the destination %s is opened for writing/creation (%s); it must only be replaced by the rename", dest, c.Raw), ""
			}
			paths[c.Ret] = p
			fdOfPath[p] = c.Ret
		case "write", "pwrite64", "writev", "pwritev":
			m := fdArg.FindStringSubmatch(c.Args)
			if m == nil {
				return "", "unparsed write in trace: " + c.Raw
			}
			if c.Failed {
				continue
			}
			nn, err := strconv.Atoi(c.Ret)
			if err != nil {
				return "", "unparsed write result: " + c.Raw
			}
			if p, ok := paths[m[1]]; ok && p == dest {
				return fmt.Sprintf("bytes are written to the destination %s itself (%s)", dest, firstN(c.Raw, 80)), ""
			}
			written[m[1]] += nn
			lastWriteOn[m[1]] = i
		case "fsync", "fdatasync":
			if !c.Failed {
				syncOn[c.Args] = append(syncOn[c.Args], i)
			}
		case "renameat", "renameat2", "rename":
			args := c.Args
			if c.Name == "rename" {
				return "", "rename(2) in trace: " + c.Raw
			}
			m := pathArg.FindStringSubmatch(args)
			if m == nil || m[3] != "" {
				return "", "unparsed rename: " + c.Raw
			}
			src, ok1 := resolve(m[1], m[2])
			m2 := pathArg.FindStringSubmatch(m[4])
			if m2 == nil || m2[3] != "" || !ok1 {
				return "", "unparsed rename: " + c.Raw
			}
			dst, ok2 := resolve(m2[1], m2[2])
			if !ok2 {
				return "", "unparsed rename: " + c.Raw
			}
			if dst == dest && !c.Failed {
				if renameIdx >= 0 {
					return "the destination is renamed onto twice", ""
				}
				renameIdx = i
				stagingPath = src
				stagingFd = fdOfPath[src]
			}
		case "linkat", "link", "unlinkat", "unlink", "truncate", "ftruncate":
			if strings.Contains(c.Args, `"`+dest+`"`) {
				return fmt.Sprintf("the destination %s is touched by %s", dest, firstN(c.Raw, 100)), ""
			}
		}
	}
	if renameIdx < 0 {
		return fmt.Sprintf("the successful run never renames a staging file onto %s (the name must become visible through a rename)", dest), ""
	}
	if stagingPath == dest {
		return "the staging path equals the destination", ""
	}
	if stagingFd == "" {
		return "", "staging descriptor not identified in trace"
	}
	if n > 0 {
		if written[stagingFd] != n {
			return fmt.Sprintf("%d bytes were written to the staging file %s before the rename, the data has %d", written[stagingFd], stagingPath, n), ""
		}
		if lastWriteOn[stagingFd] > renameIdx {
			return fmt.Sprintf("data is written to the staging file after the rename made %s visible", dest), ""
		}
		flushed := false
		for _, i := range syncOn[stagingFd] {
			if i > lastWriteOn[stagingFd] && i < renameIdx {
				flushed = true
			}
		}
		if !flushed {
			var tr []string
			for _, c := range ops {
				tr = append(tr, firstN(c.Name+"("+c.Args, 60)+") = "+c.Ret)
			}
			return fmt.Sprintf("no successful fsync of the staging descriptor %s between its last write and the rename onto %s: the data is not flushed before the name becomes visible\ntrace of the operation:\n  %s",
				stagingFd, dest, strings.Join(tr, "\n  ")), ""
		}
	}
	return "", ""
}

func firstN(s string, n int) string {
	if len(s) > n {
		return s[:n] + "…"
	}
	return s
}

var straceOnce sync.Once
var straceErr error

func straceAvailable() bool {
	straceOnce.Do(func() { straceErr = inject.Available() })
	return straceErr == nil
}

// ---- the fault oracle --------------------------------------------------------

type outcome struct {
	evals      int
	nontrivial []string
}

// prepare builds the template state of the scenario. Returns an inconclusive
// reason when the leftover could not be produced.
func (r *runner) prepare() string {
	sc := r.sc
	for _, d := range []string{sc.Dir, otherDir} {
		if err := os.MkdirAll(filepath.Join(r.tmpl, d), 0o755); err != nil {
			return "scratch: " + err.Error()
		}
	}
	if err := os.WriteFile(filepath.Join(r.tmpl, otherDir, sc.Name), models.Pattern(otherSeed, otherN), 0o644); err != nil {
		return "scratch: " + err.Error()
	}
	if sc.Old != nil {
		if err := os.WriteFile(filepath.Join(r.tmpl, sc.Dir, sc.Name), sc.Old.bytes(), 0o644); err != nil {
			return "scratch: " + err.Error()
		}
	}
	switch sc.Left.Kind {
	case "synthetic":
		if err := os.WriteFile(filepath.Join(r.tmpl, sc.Name+".tmp"), sc.Left.Data.bytes(), 0o644); err != nil {
			return "scratch: " + err.Error()
		}
	case "kill":
		// a real earlier call, killed at the chosen system call
		root0 := r.tmpl + ".dry"
		if err := copyTree(r.tmpl, root0); err != nil {
			return "scratch: " + err.Error()
		}
		dry, err := inject.Run(inject.Spec{Mode: inject.Trace, Argv: r.argv(root0, sc.Left.Data, 0), TraceSet: traceSet})
		os.RemoveAll(root0)
		if err != nil || dry.TimedOut || dry.Exit != 0 {
			return "leftover dry run failed"
		}
		_, ops, ok := opCalls(dry.Calls, root0)
		if !ok {
			return "leftover dry run: unexpected trace shape"
		}
		at := sc.Left.At
		occ := 0
		for _, c := range ops {
			if c.Name == at && c.K == 1 {
				occ = c.Occ
			}
		}
		if occ == 0 {
			return "leftover: no " + at + " call in the earlier operation"
		}
		res, err := inject.Run(inject.Spec{Mode: inject.Kill, Syscall: at, When: occ, Argv: r.argv(r.tmpl, sc.Left.Data, 0), TraceSet: traceSet})
		if err != nil || res.TimedOut || !res.Killed {
			return "leftover: the earlier call was not killed as requested"
		}
	}
	return ""
}

func faultsOf(ops []opCall, n int) []Fault {
	var fs []Fault
	for _, c := range ops {
		fs = append(fs, Fault{Mode: "kill", Syscall: c.Name, K: c.K})
		for _, e := range []string{"EIO", "ENOSPC", "EINTR"} {
			fs = append(fs, Fault{Mode: "error", Syscall: c.Name, K: c.K, Errno: e})
		}
	}
	seen := map[int]bool{}
	for _, l := range []int{1, n / 2, n - 1, 4096} {
		if l >= 1 && l < n && !seen[l] {
			seen[l] = true
			fs = append(fs, Fault{Mode: "fsize", Limit: l})
		}
	}
	return fs
}

// runScenario decides one scenario (all faults, or only `only`). It returns
// the violation message ("" = holds) together with the fault that exposed it.
func runScenario(sc Scenario, only *Fault, out *outcome) (msg string, at *Fault, inconcl string) {
	work, err := os.MkdirTemp(ev.Scratch(), "c13-")
	if err != nil {
		return "", nil, "scratch: " + err.Error()
	}
	defer os.RemoveAll(work)
	r := &runner{sc: sc, tmpl: filepath.Join(work, "tmpl"), work: work}
	needStrace := sc.Left.Kind == "kill" || only == nil || only.Mode != "fsize"
	straceOK := straceAvailable()
	if needStrace && !straceOK && sc.Left.Kind == "kill" {
		return "", nil, "strace unavailable"
	}
	if why := r.prepare(); why != "" {
		return "", nil, why
	}
	newData, nextData := sc.New.bytes(), sc.Next.bytes()
	known := map[string][]byte{"the new data": newData, "the follow-up data": nextData, "the leftover/earlier data": sc.Left.Data.bytes()}
	var oldData []byte
	if sc.Old != nil {
		oldData = sc.Old.bytes()
		known["the old contents"] = oldData
	}
	before := func() string {
		if sc.Old == nil {
			return "absent"
		}
		return fmt.Sprintf("the old contents (%d bytes)", len(oldData))
	}
	leftovers := func(root string) string {
		ents, _ := os.ReadDir(root)
		var l []string
		for _, e := range ents {
			if !e.IsDir() {
				if fi, err := e.Info(); err == nil {
					l = append(l, fmt.Sprintf("%s (%d bytes)", e.Name(), fi.Size()))
				}
			}
		}
		if len(l) == 0 {
			return "no files in the root"
		}
		return "files in the root: " + strings.Join(l, ", ")
	}
	// checkAfter: clause (1) (returned ⇒ new; otherwise old-or-new), the
	// sibling file is untouched, and clause (2) (follow-up call wins).
	checkAfter := func(root string, returned bool, what string) string {
		got, exists, err := readDest(root, sc.Dir, sc.Name)
		if err != nil {
			return ""
		}
		isNew := exists && bytes.Equal(got, newData)
		isOld := (sc.Old == nil && !exists) || (sc.Old != nil && exists && bytes.Equal(got, oldData))
		state := "absent"
		if exists {
			state = describe(got, known)
		}
		if returned && !isNew {
			return fmt.Sprintf("%s: AtomicCreate(%q,%q, %d bytes) returned normally but %s/%s is %s", what, sc.Dir, sc.Name, len(newData), sc.Dir, sc.Name, state)
		}
		if !isNew && !isOld {
			return fmt.Sprintf("%s: %s/%s is neither as before (%s) nor exactly the new data (%d bytes): it is %s", what, sc.Dir, sc.Name, before(), len(newData), state)
		}
		if ob, err := os.ReadFile(filepath.Join(root, otherDir, sc.Name)); err != nil || !bytes.Equal(ob, models.Pattern(otherSeed, otherN)) {
			return fmt.Sprintf("%s: the file %s/%s of another directory was disturbed", what, otherDir, sc.Name)
		}
		left := leftovers(root)
		if p := atomicInProcess(root, sc.Dir, sc.Name, nextData); p != "" {
			return fmt.Sprintf("%s, then an un-injected AtomicCreate(%q,%q, %d bytes) panicked: %s (%s)", what, sc.Dir, sc.Name, len(nextData), p, left)
		}
		got2, exists2, _ := readDest(root, sc.Dir, sc.Name)
		if !exists2 || !bytes.Equal(got2, nextData) {
			st := "absent"
			if exists2 {
				st = describe(got2, known)
			}
			return fmt.Sprintf("%s, then an un-injected AtomicCreate(%q,%q, %d bytes) returned, but the file is %s (before that call: %s)", what, sc.Dir, sc.Name, len(nextData), st, left)
		}
		return ""
	}
	leftDesc := "no leftovers"
	switch sc.Left.Kind {
	case "synthetic":
		leftDesc = fmt.Sprintf("leftover %s.tmp of %d bytes in the root", sc.Name, sc.Left.Data.N)
	case "kill":
		leftDesc = fmt.Sprintf("earlier AtomicCreate of %d bytes killed at %s", sc.Left.Data.N, sc.Left.At)
	}
	hasLeft := sc.Left.Kind != "none"
	key := func(f string) string { b, _ := json.Marshal(sc); return string(b) + "|" + f }

	// --- un-injected run (in process when strace is not needed/available)
	var ops []opCall
	if straceOK && (only == nil || only.Mode != "fsize") {
		root, err := r.freshRoot()
		if err != nil {
			return "", nil, "scratch: " + err.Error()
		}
		dry, err := inject.Run(inject.Spec{Mode: inject.Trace, Argv: r.argv(root, sc.New, 0), TraceSet: traceSet})
		if err != nil || dry.TimedOut {
			return "", nil, "dry run failed or timed out"
		}
		out.evals++
		if hasLeft {
			out.nontrivial = append(out.nontrivial, key("none"))
		}
		if dry.Exit == 3 {
			return fmt.Sprintf("un-injected AtomicCreate(%q,%q, %d bytes) panicked (%s): %s", sc.Dir, sc.Name, len(newData), leftDesc, strings.TrimSpace(dry.Stderr)), nil, ""
		}
		if dry.Exit != 0 {
			return "", nil, fmt.Sprintf("dry run exit %d", dry.Exit)
		}
		var rootFd string
		var ok bool
		rootFd, ops, ok = opCalls(dry.Calls, root)
		if !ok || len(ops) == 0 {
			return "", nil, "dry run: unexpected trace shape"
		}
		if m := checkAfter(root, true, "no fault ("+leftDesc+")"); m != "" {
			return m, nil, ""
		}
		viol, why := traceInvariant(rootFd, ops, sc.Dir, sc.Name, sc.New.N)
		if why != "" {
			ev.Inconclusive("trace invariant: " + firstN(why, 60))
		} else if viol != "" {
			return "successful run (" + leftDesc + "): " + viol, nil, ""
		}
		os.RemoveAll(root)
	} else {
		root, err := r.freshRoot()
		if err != nil {
			return "", nil, "scratch: " + err.Error()
		}
		out.evals++
		if hasLeft {
			out.nontrivial = append(out.nontrivial, key("none"))
		}
		if p := atomicInProcess(root, sc.Dir, sc.Name, newData); p != "" {
			return fmt.Sprintf("un-injected AtomicCreate(%q,%q, %d bytes) panicked (%s): %s", sc.Dir, sc.Name, len(newData), leftDesc, p), nil, ""
		}
		if m := checkAfter(root, true, "no fault ("+leftDesc+")"); m != "" {
			return m, nil, ""
		}
		os.RemoveAll(root)
		if !straceOK {
			ev.Inconclusive("strace unavailable")
		}
	}

	// --- faults
	var faults []Fault
	if only != nil && only.Mode == "none" {
		faults = nil
	} else if only != nil {
		faults = []Fault{*only}
	} else {
		faults = faultsOf(ops, sc.New.N)
	}
	firstWrite, renameAt := -1, -1
	for i, c := range ops {
		if c.Name == "write" && firstWrite < 0 {
			firstWrite = i
		}
		if strings.HasPrefix(c.Name, "renameat") {
			renameAt = i
		}
	}
	for fi := range faults {
		f := faults[fi]
		root, err := r.freshRoot()
		if err != nil {
			return "", nil, "scratch: " + err.Error()
		}
		what := f.String() + " (" + leftDesc + ")"
		switch f.Mode {
		case "fsize":
			res, err := inject.RunPlain(r.argv(root, sc.New, f.Limit), 30*time.Second)
			if err != nil || res.TimedOut {
				ev.Inconclusive("fsize child failed or timed out")
				continue
			}
			if res.Exit != 0 && res.Exit != 3 && !res.Killed {
				ev.Inconclusive(fmt.Sprintf("fsize child exit %d", res.Exit))
				continue
			}
			out.evals++
			out.nontrivial = append(out.nontrivial, key(f.String()))
			if m := checkAfter(root, res.Exit == 0 && !res.Killed, what); m != "" {
				return m, &f, ""
			}
		case "kill", "error":
			if !straceOK {
				ev.Inconclusive("strace unavailable")
				continue
			}
			idx, occ := -1, 0
			for i, c := range ops {
				if c.Name == f.Syscall && c.K == f.K {
					idx, occ = i, c.Occ
				}
			}
			if idx < 0 {
				ev.Inconclusive("fault point not present in the dry run")
				continue
			}
			spec := inject.Spec{Mode: inject.Kill, Syscall: f.Syscall, When: occ, Argv: r.argv(root, sc.New, 0), TraceSet: traceSet}
			if f.Mode == "error" {
				spec.Mode, spec.Errno = inject.Error, f.Errno
			}
			res, err := inject.Run(spec)
			if err != nil || res.TimedOut {
				ev.Inconclusive("injected child failed or timed out")
				continue
			}
			_, got, ok := opCalls(res.Calls, root)
			if !ok || len(got) <= idx && f.Mode == "error" {
				ev.Inconclusive("injected run: unexpected trace shape")
				continue
			}
			// the run must be the dry run up to the fault
			same := len(got) > idx
			for i := 0; same && i < idx; i++ {
				if got[i].Name != ops[i].Name {
					same = false
				}
			}
			if same && got[idx].Name != f.Syscall {
				same = false
			}
			if f.Mode == "kill" && (!res.Killed || !same || got[idx].Ret != "?") {
				ev.Inconclusive("kill did not hit the intended call")
				continue
			}
			if f.Mode == "error" && (!same || !got[idx].Inject) {
				ev.Inconclusive("error was not injected at the intended call")
				continue
			}
			if f.Mode == "error" && res.Exit != 0 && res.Exit != 3 {
				ev.Inconclusive(fmt.Sprintf("injected child exit %d", res.Exit))
				continue
			}
			out.evals++
			// durable-before-visible under faults: if the flush of the staging file fails, the name
			// must not be made visible afterwards (a caller that is told nothing believes the data
			// is durable) — seeded change C13-3
			if f.Mode == "error" && (f.Syscall == "fsync" || f.Syscall == "fdatasync") {
				for _, c := range got[idx+1:] {
					if (c.Name == "rename" || c.Name == "renameat" || c.Name == "renameat2" || c.Name == "link" || c.Name == "linkat") && !c.Inject && strings.HasPrefix(c.Ret, "0") {
						return fmt.Sprintf("%s: %s, but the operation went on to %s (= %s): the name becomes visible although the flush of its data failed%s", what, f.String(), c.Name, c.Ret, map[bool]string{true: ", and the call returned normally", false: ""}[res.Exit == 0]), &f, ""
					}
				}
			}
			between := firstWrite >= 0 && renameAt >= 0 && idx > firstWrite && idx <= renameAt
			if between || hasLeft {
				out.nontrivial = append(out.nontrivial, key(f.String()))
			}
			if between {
				ev.Label("fault-between-first-write-and-rename")
			}
			ev.Label(f.Mode + "@" + f.Syscall)
			returned := f.Mode == "error" && res.Exit == 0
			if m := checkAfter(root, returned, what); m != "" {
				return m, &f, ""
			}
		}
		os.RemoveAll(root)
	}
	return "", nil, ""
}

// ---- generation ------------------------------------------------------------

var sizes = []int{0, 1, 4096, 10000, 300000}

func genSize(t *rapid.T, label string) int {
	switch rapid.IntRange(0, 3).Draw(t, label+"kind") {
	case 0:
		return rapid.SampledFrom(sizes).Draw(t, label+"big")
	case 1:
		return rapid.IntRange(0, 20000).Draw(t, label+"mid")
	default:
		return rapid.IntRange(0, 50).Draw(t, label+"small")
	}
}

// relSize draws a size shorter than / equal to / longer than base.
func relSize(t *rapid.T, label string, base int, rel int) int {
	switch rel {
	case 0:
		if base == 0 {
			return 0
		}
		return rapid.IntRange(0, base-1).Draw(t, label+"shorter")
	case 1:
		return base
	default:
		return base + rapid.IntRange(1, 5000).Draw(t, label+"longer")
	}
}

func genScenario(t *rapid.T) Scenario {
	l3 := models.KnownSwitch(swL3)
	var sc Scenario
	sc.Dir = rapid.SampledFrom([]string{"d", "e"}).Draw(t, "dir")
	sc.Name = rapid.SampledFrom([]string{"a", "b", "c.d"}).Draw(t, "name")
	sc.New = Data{Seed: rapid.IntRange(1, 60).Draw(t, "newseed"), N: genSize(t, "new")}
	if rapid.IntRange(0, 2).Draw(t, "hasold") > 0 {
		sc.Old = &Data{Seed: rapid.IntRange(61, 120).Draw(t, "oldseed"), N: genSize(t, "old")}
	}
	leftRel := rapid.IntRange(0, 2).Draw(t, "leftrel")
	switch rapid.IntRange(0, 5).Draw(t, "leftkind") {
	case 0, 1:
		sc.Left.Kind = "none"
	case 2:
		sc.Left.Kind = "synthetic"
	default:
		sc.Left.Kind = "kill"
		sc.Left.At = rapid.SampledFrom([]string{"write", "fsync", "renameat"}).Draw(t, "leftat")
	}
	if sc.Left.Kind != "none" {
		if l3 && leftRel == 2 {
			// known finding L3: a leftover longer than the new data survives as a tail
			ev.Prune(swL3)
			leftRel = rapid.IntRange(0, 1).Draw(t, "leftrel2")
		}
		sc.Left.Data = Data{Seed: rapid.IntRange(121, 180).Draw(t, "leftseed"), N: relSize(t, "left", sc.New.N, leftRel)}
		if sc.Left.Kind == "kill" && sc.Left.At == "write" && sc.Left.Data.N == 0 {
			sc.Left.At = "fsync" // an empty write loop issues no write
		}
	}
	nextRel := rapid.IntRange(0, 2).Draw(t, "nextrel")
	if l3 && nextRel == 0 {
		// known finding L3: a follow-up shorter than what the interrupted call staged keeps its tail
		ev.Prune(swL3)
		nextRel = rapid.IntRange(1, 2).Draw(t, "nextrel2")
	}
	sc.Next = Data{Seed: rapid.IntRange(181, 250).Draw(t, "nextseed"), N: relSize(t, "next", sc.New.N, nextRel)}
	return sc
}

// ---- tests -------------------------------------------------------------------

func checkFaults(t ev.TB, c Case) {
	var out outcome
	msg, at, inconcl := runScenario(c.Sc, c.Fault, &out)
	ev.Add("", int64(out.evals))
	ev.Add("scenarios", 1)
	for _, k := range out.nontrivial {
		ev.NonTrivial(k)
	}
	ev.Label("leftover=" + c.Sc.Left.Kind + c.Sc.Left.At)
	if c.Sc.Left.Kind != "none" {
		switch {
		case c.Sc.Left.Data.N < c.Sc.New.N:
			ev.Label("leftover-shorter-than-new")
		case c.Sc.Left.Data.N == c.Sc.New.N:
			ev.Label("leftover-equal-new")
		default:
			ev.Label("leftover-longer-than-new")
		}
	}
	switch {
	case c.Sc.Next.N < c.Sc.New.N:
		ev.Label("followup-shorter-than-new")
	case c.Sc.Next.N == c.Sc.New.N:
		ev.Label("followup-equal-new")
	default:
		ev.Label("followup-longer-than-new")
	}
	if c.Sc.Old == nil {
		ev.Label("old=absent")
	} else {
		ev.Label("old=present")
	}
	switch n := c.Sc.New.N; {
	case n == 0:
		ev.Label("new=0")
	case n <= 4096:
		ev.Label("new<=4096")
	default:
		ev.Label("new>4096")
	}
	if len(out.nontrivial) > 0 {
		ev.Sample(c)
	}
	if inconcl != "" {
		ev.Inconclusive(firstN(inconcl, 70))
		return
	}
	if msg != "" {
		fc := c
		fc.Fault = at
		ev.Failf(t, tFaults, fc, "%s", msg)
	}
}

func pinnedFaults(raw json.RawMessage) string {
	var c Case
	if err := json.Unmarshal(raw, &c); err != nil {
		return ""
	}
	var out outcome
	msg, _, inconcl := runScenario(c.Sc, c.Fault, &out)
	if inconcl != "" {
		ev.Inconclusive("pinned: " + firstN(inconcl, 60))
	}
	return msg
}

func TestFaults(t *testing.T) {
	if _, err := os.Stat(childBin("fschild")); err != nil {
		ev.Inconclusive("child binary missing")
		t.Skip("no child binary")
	}
	ev.Pinned(t, "C13", tFaults, pinnedFaults)
	rapid.Check(t, func(t *rapid.T) { checkFaults(t, Case{Sc: genScenario(t)}) })
}

func TestReplay(t *testing.T) {
	p := ev.ReplayPath()
	if p == "" {
		t.Skip("no replay")
	}
	r, err := ev.LoadReplay(p)
	if err != nil {
		t.Fatal(err)
	}
	switch r.Test {
	case tConc, tRace:
		var c ConcCase
		if err := json.Unmarshal(r.Case, &c); err != nil {
			t.Fatal(err)
		}
		if r.Test == tRace {
			msg, inconcl := raceChild(childBin("fschild-race"), c.Prog, 300)
			if inconcl != "" {
				ev.Inconclusive(inconcl)
			} else if msg != "" {
				ev.Failf(t, tRace, c, "%s", msg)
			}
			return
		}
		c.Rounds = 300
		checkConc(t, c, true)
	default:
		var c Case
		if err := json.Unmarshal(r.Case, &c); err != nil {
			t.Fatal(err)
		}
		checkFaults(t, c)
	}
}
