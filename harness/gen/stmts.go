package gen

import (
	"fmt"
	"strings"
)

func indentLines(ls []string) []string {
	out := make([]string, len(ls))
	for i, l := range ls {
		out[i] = "\t" + l
	}
	return out
}

// stmts generates a statement list of about n statements in a new scope
// nested in sc, ending according to usage u.
func (g *G) stmts(parent *scope, u usage, n int, depth int) []string {
	sc := &scope{parent: parent}
	var out []string
	for i := 0; i < n; i++ {
		g.fn.budget--
		if g.fn.budget < -40 {
			break
		}
		// a non-tail `if` whose then-branch transfers control (early return / break / continue)
		if u != uLocal && depth > 0 && g.chance("earlyexit", 12) {
			out = append(out, g.earlyExit(sc, u, depth)...)
			continue
		}
		out = append(out, g.plainStmt(sc, depth)...)
	}
	out = append(out, g.tail(sc, u, depth)...)
	return out
}

// unusedFixups emits `_ = x` for variables of the scope never read.
func (g *G) unusedFixups(sc *scope) []string {
	var out []string
	for _, v := range sc.vars {
		if !v.Used {
			out = append(out, g.observe(v)...)
			v.Used = true
		}
	}
	return out
}

// observe makes an otherwise unused variable count: in an entry function (which has the hidden
// trace variable zt as its last result) most scalars, lengths and scalar fields are folded into the
// trace instead of being discarded with `_ = v`, so that the value a construct computed reaches
// the compared result even when the random program never uses it again.
func (g *G) observe(v *Var) []string {
	tr := ""
	if g.fn != nil {
		tr = g.fn.trace
	}
	if tr == "" || v.T == nil || v.Closure != nil || g.chance("observeskip", 25) {
		return []string{"_ = " + v.Name}
	}
	fold := func(e string) string { return fmt.Sprintf("%s = %s*31 + %s", tr, tr, e) }
	switch {
	case v.T.K == KU64:
		return []string{fold(v.Name)}
	case v.T.IsInt():
		return []string{fold("uint64(" + v.Name + ")")}
	case v.T.K == KBool:
		return []string{"if " + v.Name + " {", "\t" + fold("1"), "}"}
	case v.T.K == KStr, v.T.K == KSlice && !v.Big:
		return []string{fold("uint64(len(" + v.Name + "))")}
	case v.T.K == KMap && v.NonNil:
		return []string{fold("uint64(len(" + v.Name + "))")}
	case v.T.K == KPtr && v.NonNil && v.T.Elem.IsInt():
		return []string{fold("uint64(*" + v.Name + ")")}
	case v.T.K == KStruct, v.T.K == KPtr && v.NonNil && v.T.Elem.K == KStruct:
		sd := v.T.S
		if v.T.K == KPtr {
			sd = v.T.Elem.S
		}
		for _, f := range sd.Fields {
			if f.T.IsInt() {
				return []string{fold("uint64(" + v.Name + "." + f.Name + ")")}
			}
		}
	}
	return []string{"_ = " + v.Name}
}

// earlyExit: if c { …; return/break/continue } with no else, followed by more statements.
func (g *G) earlyExit(sc *scope, u usage, depth int) []string {
	g.label("early-exit")
	cond := g.boolExpr(sc, 1)
	var body []string
	switch {
	case u == uReturn && len(g.fn.sig.Results) > 0:
		// every path of the branch returns (tail-if-else always has an else when there are results)
		body = g.stmts(sc, uReturn, g.pick("eestmts", 3), depth-1)
	case u == uReturn:
		body = append(g.stmts(sc, uLocal, g.pick("eestmts", 3), depth-1), "return")
	default:
		body = append(g.stmts(sc, uLocal, g.pick("eestmts", 3), depth-1), []string{"break", "continue"}[g.pick("eekind", 2)])
	}
	out := []string{"if " + cond + " {"}
	out = append(out, indentLines(body)...)
	out = append(out, "}")
	return out
}

// tail ends a block according to the usage.
func (g *G) tail(sc *scope, u usage, depth int) []string {
	switch u {
	case uLocal:
		return g.unusedFixups(sc)
	case uLoop:
		fix := g.unusedFixups(sc)
		switch g.pick("looptail", 5) {
		case 0:
			return append(fix, "continue")
		case 1:
			if depth > 0 {
				g.label("loop-tail-if")
				cond := g.boolExpr(sc, 1)
				out := append(fix, "if "+cond+" {")
				out = append(out, indentLines(g.stmts(sc, uLoop, g.pick("ltn", 2), depth-1))...)
				out = append(out, "} else {")
				out = append(out, indentLines(g.stmts(sc, uLoop, g.pick("ltn2", 2), depth-1))...)
				out = append(out, "}")
				return out
			}
		case 2:
			if g.chance("tailbreak", 50) {
				g.label("break")
				return append(fix, "break")
			}
		}
		return fix // fall through = continue
	case uReturn:
		res := g.fn.sig.Results
		if depth > 0 && g.chance("tailif", 25) {
			g.label("tail-if-else")
			cond := g.boolExpr(sc, 1)
			fix := g.unusedFixups(sc)
			out := append(fix, "if "+cond+" {")
			out = append(out, indentLines(g.stmts(sc, uReturn, g.pick("tin", 3), depth-1))...)
			if len(res) > 0 || g.chance("tailelse", 60) {
				if g.chance("elseif", 25) && depth > 1 {
					g.label("else-if")
					out = append(out, "} else if "+g.boolExpr(sc, 1)+" {")
					out = append(out, indentLines(g.stmts(sc, uReturn, g.pick("tin3", 2), depth-2))...)
				}
				out = append(out, "} else {")
				out = append(out, indentLines(g.stmts(sc, uReturn, g.pick("tin2", 3), depth-1))...)
			}
			out = append(out, "}")
			return out
		}
		if len(res) == 0 {
			fix := g.unusedFixups(sc)
			if g.chance("explicitreturn", 30) {
				return append(fix, "return")
			}
			return fix
		}
		return g.returnStmt(sc, depth)
	}
	return nil
}

func (g *G) returnStmt(sc *scope, depth int) []string {
	res := g.fn.sig.Results
	// return f(...) for a helper with exactly matching results (also impure: sole effect)
	if g.chance("returncall", 15) {
		for _, h := range g.helpers {
			if h != g.fn.sig && sameTypes(h.Results, res) && (!g.fn.pure || h.Pure) {
				call := g.renderCall(sc, h, nil, depth)
				return append(g.unusedFixups(sc), "return "+call)
			}
		}
	}
	parts := make([]string, len(res))
	for i, r := range res {
		if g.fn.trace != "" && i == len(res)-1 {
			parts[i] = g.fn.trace
			continue
		}
		// prefer returning variables in scope so that effects are observable
		if g.chance("retvar", 75) {
			parts[i] = g.nonConst(sc, r, 0)
		}
		if parts[i] == "" {
			parts[i] = g.exprTyped(sc, r, min(depth, 2), true)
		}
	}
	return append(g.unusedFixups(sc), "return "+strings.Join(parts, ", "))
}

func sameTypes(a, b []*Ty) bool {
	if len(a) != len(b) || len(a) == 0 {
		return false
	}
	for i := range a {
		if !a[i].Same(b[i]) {
			return false
		}
	}
	return true
}

func (g *G) declare(sc *scope, v *Var) {
	sc.vars = append(sc.vars, v)
}

// plainStmt generates one statement that does not transfer control.
func (g *G) plainStmt(sc *scope, depth int) []string {
	for tries := 0; tries < 4; tries++ {
		if out := g.tryPlain(sc, depth); out != nil {
			return out
		}
	}
	return g.defineStmt(sc, depth)
}

func (g *G) tryPlain(sc *scope, depth int) []string {
	k := g.pick("stmtkind", 36)
	switch k {
	case 0, 1, 2:
		return g.defineStmt(sc, depth)
	case 3, 4:
		return g.varStmt(sc, depth)
	case 5, 6:
		return g.assignStmt(sc, depth)
	case 7:
		return g.incDecStmt(sc)
	case 8, 9:
		if g.fn.pure {
			return nil
		}
		return g.storeStmt(sc, depth)
	case 10, 11:
		if depth > 0 {
			return g.ifStmt(sc, depth)
		}
	case 12, 13:
		if depth > 0 {
			return g.forStmt(sc, depth)
		}
	case 14:
		if depth > 0 {
			return g.rangeStmt(sc, depth)
		}
	case 15:
		return g.multiDefine(sc, depth)
	case 16:
		return g.mapCommaOk(sc)
	case 17:
		if g.fn.pure {
			return nil
		}
		return g.callStmt(sc, depth)
	case 18:
		return g.appendStmt(sc, depth)
	case 19:
		return g.subsliceStmt(sc)
	case 20:
		if !g.cfg.NoClosures && depth > 0 {
			return g.closureStmt(sc, depth)
		}
	case 21:
		if g.fn.pure {
			return nil
		}
		return g.encodeStmt(sc)
	case 22:
		return g.multiAssign(sc, depth)
	case 24:
		return g.copyStmt(sc)
	case 25:
		if g.fn.pure {
			return nil
		}
		return g.machineStmt(sc)
	case 26:
		if g.fn.pure {
			return nil
		}
		return g.nestedFieldStore(sc, depth)
	case 27:
		if !g.cfg.NoClosures {
			return g.methodValueStmt(sc)
		}
	case 28:
		if !g.fn.pure {
			return g.ptrPtrStmt(sc, depth)
		}
	case 29:
		if !g.fn.pure && !g.cfg.NoClosures {
			return g.effectfulOperandStmt(sc)
		}
	case 30:
		if g.generics && !g.fn.pure {
			return g.genericLayoutStmt(sc, depth)
		}
	case 31:
		if !g.fn.pure {
			return g.structSnapshotStmt(sc)
		}
	case 32:
		return g.emptyWindowStmt(sc)
	case 33:
		return g.stringBytesCopyStmt(sc)
	case 34:
		return g.ptrFieldPathStmt(sc, depth)
	case 35:
		return g.chainedSliceStmt(sc)
	case 23:
		if !g.cfg.NoBareBlocks && depth > 0 {
			g.label("bare-block")
			out := []string{"{"}
			if g.chance("bbwrapper", 40) {
				// an if without early exit as first statement: goose folds the rest of the block
				// into that statement's continuation, so the block has a single binding whose
				// declarations must still end with the block (seeded changes C01-1, C05-2)
				g.label("bare-block-starting-with-if")
				out = append(out, "\tif "+g.boolExpr(sc, 1)+" {", "\t}")
			}
			out = append(out, indentLines(g.stmts(sc, uLocal, 1+g.pick("bbn", 3), depth-1))...)
			return append(out, "}")
		}
	}
	return nil
}

func (g *G) defineStmt(sc *scope, depth int) []string {
	t := g.anyTy("definety", 1)
	name := g.freshName(sc, "define")
	v := &Var{Name: name, T: t}
	var rhs string
	switch t.K {
	case KSlice:
		rhs, v.MinLen = g.sliceExpr(sc, t, depth, 0)
		v.CapKnown = strings.HasPrefix(rhs, "make(") || strings.HasPrefix(rhs, t.Go()+"{")
	case KPtr:
		rhs = g.ptrExpr(sc, t, depth)
		v.NonNil = true
	case KMap:
		rhs = g.exprTyped(sc, t, depth, false)
		v.NonNil = true
	default:
		if !g.fn.pure && g.chance("defcall", 20) {
			if c := g.callExpr(sc, t, depth, false); c != "" {
				rhs = c
				break
			}
		}
		rhs = g.exprTyped(sc, t, min(depth, 2), false)
	}
	if t.K == KU8 && strings.HasPrefix(rhs, "uint8(") {
		// x := uint8(e) would give x the type "uint8", which goose does not accept as a
		// variable type (only the spelling byte); byte(...) of an 8-bit value is the identity
		rhs = "byte(" + rhs + ")"
	}
	g.label("define")
	g.declare(sc, v)
	return []string{name + " := " + rhs}
}

func (g *G) varStmt(sc *scope, depth int) []string {
	t := g.anyTy("varty", 1)
	name := g.freshName(sc, "var")
	v := &Var{Name: name, T: t, Mutable: true}
	g.label("var-decl")
	defer g.declare(sc, v)
	if g.chance("varzero", 35) {
		// zero value: nil pointer / nil slice / nil map
		return []string{"var " + name + " " + t.Go()}
	}
	var rhs string
	switch t.K {
	case KSlice:
		// mutable slice variables are always initialised with fresh slices (append linearity)
		rhs, v.MinLen = g.freshSlice(sc, t, depth)
	case KPtr:
		rhs = g.ptrExpr(sc, t, depth)
		v.NonNil = true
	case KMap:
		rhs = "make(" + g.mapTypeName(t) + ")"
		v.NonNil = true
	default:
		rhs = g.expr(sc, t, min(depth, 2))
	}
	if g.chance("varinfer", 30) && t.K != KU64 && t.K != KU32 && t.K != KU8 || (t.IsInt() && t.K != KU8 && !isLiteral(rhs) && g.chance("varinferint", 30)) {
		// var x = e (type inferred; integer literals would become int, so only non-literals)
		if !(t.IsInt() && startsWithDigit(rhs)) {
			return []string{"var " + name + " = " + rhs}
		}
	}
	return []string{"var " + name + " " + t.Go() + " = " + rhs}
}

func startsWithDigit(s string) bool { return s != "" && s[0] >= '0' && s[0] <= '9' }

func (g *G) freshSlice(sc *scope, t *Ty, depth int) (string, int) {
	if g.chance("freshlit", 25) {
		if g.chance("freshempty", 50) {
			return t.Go() + "{}", 0
		}
		return t.Go() + "{" + g.expr(sc, t.Elem, 0) + "}", 1
	}
	n := g.pick("freshlen", 5)
	if g.chance("freshcap", 30) {
		return fmt.Sprintf("make(%s, %d, %d)", t.Go(), n, n+g.pick("freshcapx", 4)), n
	}
	return fmt.Sprintf("make(%s, %d)", t.Go(), n), n
}

func (g *G) mutableVars(sc *scope, pred func(*Var) bool) []*Var {
	return g.varsOf(sc, func(v *Var) bool { return v.Mutable && v.Closure == nil && pred(v) })
}

func (g *G) assignStmt(sc *scope, depth int) []string {
	vs := g.mutableVars(sc, func(v *Var) bool { return !v.LoopVar && v.T.K != KSlice })
	if len(vs) == 0 {
		return nil
	}
	v := vs[g.pick("assignvar", len(vs))]
	if v.T.IsInt() && g.chance("opassign", 45) {
		op := []string{"+=", "-=", "|=", "&=", "^="}[g.pick("assignop", 5)]
		g.label("op-assign")
		return []string{v.Name + " " + op + " " + g.expr(sc, v.T, min(depth, 2))}
	}
	g.label("assign")
	var rhs string
	switch v.T.K {
	case KPtr:
		rhs = g.ptrExpr(sc, v.T, depth)
		v.NonNil = v.NonNil && true
		// after assignment the variable is non-nil only if it was already known so on every path;
		// ptrExpr always yields non-nil, but the assignment may sit in a branch, so keep the old fact.
	case KMap:
		rhs = g.exprTyped(sc, v.T, depth, true)
	default:
		if !g.fn.pure && g.chance("assigncall", 15) {
			if c := g.callExpr(sc, v.T, depth, false); c != "" {
				rhs = c
				break
			}
		}
		rhs = g.expr(sc, v.T, min(depth, 2))
	}
	return []string{v.Name + " = " + rhs}
}

func (g *G) incDecStmt(sc *scope) []string {
	vs := g.mutableVars(sc, func(v *Var) bool {
		if v.LoopVar {
			return false
		}
		if g.cfg.NoIncDecNarrow {
			return v.T.K == KU64
		}
		return v.T.IsInt()
	})
	if len(vs) == 0 {
		return nil
	}
	v := vs[g.pick("incvar", len(vs))]
	g.label("inc-dec")
	v.Used = v.Used || false
	return []string{v.Name + []string{"++", "--"}[g.pick("incdec", 2)]}
}

// storeStmt writes through a pointer, slice element, map or struct field.
func (g *G) storeStmt(sc *scope, depth int) []string {
	type alt func() []string
	var alts []alt
	for _, v := range g.varsOf(sc, func(v *Var) bool { return v.T.K == KPtr && v.NonNil && v.Closure == nil }) {
		v := v
		alts = append(alts, func() []string {
			g.label("store-through-pointer")
			return []string{"*" + use(v) + " = " + g.expr(sc, v.T.Elem, min(depth, 2))}
		})
		if v.T.Elem.K == KStruct {
			for _, f := range v.T.Elem.S.Fields {
				f := f
				if f.T.K == KSlice || f.T.K == KMap {
					continue
				}
				alts = append(alts, func() []string {
					g.label("store-field-through-pointer")
					return []string{use(v) + "." + f.Name + " = " + g.fieldVal(sc, f.T, depth)}
				})
			}
		}
	}
	for _, v := range g.mutableVars(sc, func(v *Var) bool { return v.T.K == KStruct }) {
		v := v
		for _, f := range v.T.S.Fields {
			f := f
			if f.T.K == KSlice || f.T.K == KMap {
				continue
			}
			alts = append(alts, func() []string {
				g.label("store-field-of-var")
				return []string{use(v) + "." + f.Name + " = " + g.fieldVal(sc, f.T, depth)}
			})
		}
	}
	g.bigOK = true
	storeVars := g.varsOf(sc, func(v *Var) bool { return v.T.K == KSlice && v.MinLen > 0 })
	g.bigOK = false
	for _, v := range storeVars {
		v := v
		alts = append(alts, func() []string {
			g.label("slice-store")
			return []string{fmt.Sprintf("%s[%s] = %s", use(v), g.idxExpr(sc, "storeidx", v.MinLen), g.expr(sc, v.T.Elem, min(depth, 2)))}
		})
	}
	for _, v := range g.varsOf(sc, func(v *Var) bool { return v.T.K == KMap && v.NonNil }) {
		v := v
		alts = append(alts, func() []string {
			if g.chance("mapdelete", 25) {
				g.label("map-delete")
				return []string{fmt.Sprintf("delete(%s, %s)", use(v), g.expr(sc, v.T.Key, 1))}
			}
			g.label("map-insert")
			return []string{fmt.Sprintf("%s[%s] = %s", use(v), g.expr(sc, v.T.Key, 1), g.expr(sc, v.T.Elem, min(depth, 2)))}
		})
	}
	if len(alts) == 0 {
		return nil
	}
	return alts[g.pick("storealt", len(alts))]()
}

func (g *G) fieldVal(sc *scope, t *Ty, depth int) string {
	if t.K == KPtr {
		return g.ptrExpr(sc, t, depth)
	}
	return g.expr(sc, t, min(depth, 2))
}

func (g *G) ifStmt(sc *scope, depth int) []string {
	g.label("if")
	cond := g.boolExpr(sc, 2)
	out := []string{"if " + cond + " {"}
	out = append(out, indentLines(g.stmts(sc, uLocal, 1+g.pick("ifn", 3), depth-1))...)
	if g.chance("ifelse", 50) {
		if depth > 1 && g.chance("ifelseif", 30) {
			g.label("else-if")
			out = append(out, "} else if "+g.boolExpr(sc, 1)+" {")
			out = append(out, indentLines(g.stmts(sc, uLocal, 1+g.pick("ifn3", 2), depth-2))...)
		}
		out = append(out, "} else {")
		out = append(out, indentLines(g.stmts(sc, uLocal, 1+g.pick("ifn2", 3), depth-1))...)
	}
	out = append(out, "}")
	// nil facts established inside branches do not survive; facts are only ever added at declaration
	return out
}

func (g *G) loopVarName(sc *scope) string {
	cands := []string{"i", "j", "l", "idx"}
	for _, c := range cands {
		if g.cfg.NoLoopVarReuse {
			if !g.fn.names[c] {
				g.fn.names[c] = true
				return c
			}
			continue
		}
		if sc.lookup(c) == nil || g.chance("loopvarshadow", 50) {
			g.fn.names[c] = true
			return c
		}
	}
	// (a closure has its own counter but shares the enclosing function's name set: skip names
	// that are taken, otherwise the closure reuses the outer function's i1, i2, …)
	for {
		g.fn.loopVar++
		n := fmt.Sprintf("i%d", g.fn.loopVar)
		if g.fn.names[n] {
			continue
		}
		g.fn.names[n] = true
		return n
	}
}

func (g *G) forStmt(sc *scope, depth int) []string {
	g.fn.loopDepth++
	defer func() { g.fn.loopDepth-- }()
	switch g.pick("forkind", 4) {
	case 0, 1: // three-clause loop
		g.label("for-3clause")
		iv := g.loopVarName(sc)
		bound := fmt.Sprintf("%d", 1+g.pick("forbound", 6))
		sl := g.varsOf(sc, func(v *Var) bool { return v.T.K == KSlice })
		if len(sl) > 0 && g.chance("forlen", 35) {
			bv := sl[g.pick("forlenidx", len(sl))]
			bound = "uint64(len(" + use(bv) + "))"
			// the bound is re-evaluated every iteration: the body must not grow that slice
			if g.fn.lenBound == nil {
				g.fn.lenBound = map[string]int{}
			}
			g.fn.lenBound[bv.Name]++
			defer func() { g.fn.lenBound[bv.Name]-- }()
		}
		start := g.pick("forstart", 3)
		inner := &scope{parent: sc}
		inner.vars = append(inner.vars, &Var{Name: iv, T: TU64, Mutable: true, LoopVar: true, Used: true})
		post := iv + "++"
		if g.chance("forpostplus", 30) {
			post = iv + " += " + fmt.Sprintf("%d", 1+g.pick("forstep", 2))
		} else if g.chance("forpostassign", 20) {
			post = iv + " = " + iv + " + 1"
		}
		out := []string{fmt.Sprintf("for %s := uint64(%d); %s < %s; %s {", iv, start, iv, bound, post)}
		out = append(out, indentLines(g.stmts(inner, uLoop, 1+g.pick("forn", 3), depth-1))...)
		return append(out, "}")
	case 2: // for cond { k = k + 1; … } with the increment first (bounded on every path)
		g.label("for-cond")
		k := g.freshName(sc, "forcounter")
		kv := &Var{Name: k, T: TU64, Mutable: true, LoopVar: true, Used: true}
		g.declare(sc, kv)
		bound := 1 + g.pick("forcbound", 6)
		out := []string{fmt.Sprintf("var %s uint64 = 0", k), fmt.Sprintf("for %s < %d {", k, bound), fmt.Sprintf("\t%s = %s + 1", k, k)}
		out = append(out, indentLines(g.stmts(sc, uLoop, 1+g.pick("forcn", 3), depth-1))...)
		return append(out, "}")
	default: // for { if k >= N { break }; k++ ; … }
		g.label("for-infinite")
		k := g.freshName(sc, "forcounter2")
		kv := &Var{Name: k, T: TU64, Mutable: true, LoopVar: true, Used: true}
		g.declare(sc, kv)
		bound := 1 + g.pick("foribound", 5)
		out := []string{fmt.Sprintf("var %s uint64", k), "for {", fmt.Sprintf("\tif %s >= %d {", k, bound), "\t\tbreak", "\t}", fmt.Sprintf("\t%s++", k)}
		out = append(out, indentLines(g.stmts(sc, uLoop, 1+g.pick("forin", 3), depth-1))...)
		return append(out, "}")
	}
}

func (g *G) rangeStmt(sc *scope, depth int) []string {
	g.fn.loopDepth++
	defer func() { g.fn.loopDepth-- }()
	sl := g.varsOf(sc, func(v *Var) bool { return v.T.K == KSlice })
	ms := g.varsOf(sc, func(v *Var) bool { return v.T.K == KMap && v.NonNil && v.T.Elem.IsInt() && v.T.Key.K == KU64 })
	if len(ms) > 0 && (len(sl) == 0 || g.chance("rangemap", 40)) {
		// map range with a commutative body: fold into a uint64 accumulator
		accs := g.mutableVars(sc, func(v *Var) bool { return v.T.K == KU64 && !v.LoopVar })
		if len(accs) == 0 {
			return nil
		}
		m := ms[g.pick("rangemapidx", len(ms))]
		acc := accs[g.pick("rangeacc", len(accs))]
		g.label("range-map")
		kn, vn := g.loopVarName(sc), g.loopVarName(sc)
		conv := vn
		if m.T.Elem.K != KU64 {
			conv = "uint64(" + vn + ")"
		}
		body := fmt.Sprintf("%s += %s ^ %s", acc.Name, kn, conv)
		if g.chance("rangemapmul", 40) {
			body = fmt.Sprintf("%s += (%s + 1) * (%s | 1)", acc.Name, kn, conv)
		}
		return []string{fmt.Sprintf("for %s, %s := range %s {", kn, vn, use(m)), "\t" + body, "}"}
	}
	if len(sl) == 0 {
		return nil
	}
	s := sl[g.pick("rangeslidx", len(sl))]
	g.label("range-slice")
	inner := &scope{parent: sc}
	hdr := ""
	switch g.pick("rangeform", 3) {
	case 0:
		in, xn := g.loopVarName(sc), g.loopVarName(sc)
		inner.vars = append(inner.vars, &Var{Name: in, T: TU64, LoopVar: true, Used: true}, &Var{Name: xn, T: s.T.Elem, LoopVar: true})
		hdr = fmt.Sprintf("for %s, %s := range %s {", in, xn, use(s))
		// the index of a range loop is an int in Go: convert on use
		inner.vars[0].Name = in
		inner.vars[0].T = nil
	case 1:
		xn := g.loopVarName(sc)
		inner.vars = append(inner.vars, &Var{Name: xn, T: s.T.Elem, LoopVar: true})
		hdr = fmt.Sprintf("for _, %s := range %s {", xn, use(s))
	default:
		in := g.loopVarName(sc)
		inner.vars = append(inner.vars, &Var{Name: in, T: nil, LoopVar: true, Used: true})
		hdr = fmt.Sprintf("for %s := range %s {", in, use(s))
	}
	// int-typed range index: expose it as a uint64 through a conversion variable
	var pre []string
	for _, v := range inner.vars {
		if v.T == nil {
			u := v.Name + "u"
			pre = append(pre, fmt.Sprintf("%s := uint64(%s)", u, v.Name))
			inner.vars = append(inner.vars, &Var{Name: u, T: TU64, LoopVar: true, Used: false})
			g.fn.names[u] = true
		}
	}
	var vars []*Var
	for _, v := range inner.vars {
		if v.T != nil {
			vars = append(vars, v)
		}
	}
	inner.vars = vars
	body := append(pre, g.stmts(inner, uLocal, 1+g.pick("rangen", 2), depth-1)...)
	body = append(body, g.unusedFixups(inner)...)
	out := []string{hdr}
	out = append(out, indentLines(body)...)
	return append(out, "}")
}

func (g *G) multiDefine(sc *scope, depth int) []string {
	if g.generics && g.chance("gswapdefine", 25) {
		ta, tb := g.scalarTy("gswapa"), g.scalarTy("gswapb")
		ea, eb := g.expr(sc, ta, 1), g.expr(sc, tb, 1)
		na := g.freshName(sc, "gsa")
		nb := g.freshName(sc, "gsb", na)
		g.declare(sc, &Var{Name: na, T: tb})
		g.declare(sc, &Var{Name: nb, T: ta})
		g.label("generic-call")
		g.label("multi-define")
		return []string{fmt.Sprintf("%s, %s := gswap(%s, %s)", na, nb, castLit(ta, ea), castLit(tb, eb))}
	}
	var cands []*FuncSig
	for _, h := range g.helpers {
		if len(h.Results) >= 2 && h != g.fn.sig && (!g.fn.pure || h.Pure) {
			cands = append(cands, h)
		}
	}
	if len(cands) == 0 {
		return nil
	}
	h := cands[g.pick("mdcallee", len(cands))]
	g.label("multi-define")
	call := g.renderCall(sc, h, nil, depth)
	var names []string
	var vs []*Var
	for _, r := range h.Results {
		if g.chance("mdblank", 15) && len(names) > 0 {
			names = append(names, "_")
			continue
		}
		n := g.freshName(sc, "md", names...)
		names = append(names, n)
		vs = append(vs, &Var{Name: n, T: r, NonNil: false})
	}
	for _, v := range vs {
		g.declare(sc, v)
	}
	return []string{strings.Join(names, ", ") + " := " + call}
}

func (g *G) multiAssign(sc *scope, depth int) []string {
	var cands []*FuncSig
	for _, h := range g.helpers {
		if len(h.Results) >= 2 && h != g.fn.sig && (!g.fn.pure || h.Pure) {
			cands = append(cands, h)
		}
	}
	if len(cands) == 0 {
		return nil
	}
	h := cands[g.pick("macallee", len(cands))]
	for _, r := range h.Results {
		if r.K == KSlice {
			// mutable slice variables only ever hold fresh slices (append linearity)
			return nil
		}
	}
	var lhs, pre []string
	usedVars := map[string]bool{}
	for _, r := range h.Results {
		vs := g.mutableVars(sc, func(v *Var) bool { return v.T.Same(r) && !v.LoopVar && !usedVars[v.Name] && v.T.K != KSlice })
		if len(vs) == 0 || g.chance("mafreshvar", 25) {
			// no assignable variable of that type yet: declare one (zero value) right before
			// (a name that shadows nothing: the call's arguments are rendered afterwards)
			g.ctr++
			name := fmt.Sprintf("ma%d", g.ctr)
			g.fn.names[name] = true
			nv := &Var{Name: name, T: r, Mutable: true}
			pre = append(pre, "var "+name+" "+r.Go())
			g.declare(sc, nv)
			usedVars[name] = true
			lhs = append(lhs, name)
			continue
		}
		v := vs[g.pick("mavar", len(vs))]
		usedVars[v.Name] = true
		if v.T.K == KPtr || v.T.K == KMap {
			v.NonNil = false
		}
		if v.T.K == KSlice {
			v.MinLen = 0
		}
		lhs = append(lhs, v.Name)
	}
	g.label("multi-assign")
	return append(pre, strings.Join(lhs, ", ")+" = "+g.renderCall(sc, h, nil, depth))
}

func (g *G) mapCommaOk(sc *scope) []string {
	ms := g.varsOf(sc, func(v *Var) bool { return v.T.K == KMap && v.NonNil })
	if len(ms) == 0 {
		return nil
	}
	m := ms[g.pick("cokmap", len(ms))]
	g.label("map-comma-ok")
	rhs := fmt.Sprintf("%s[%s]", use(m), g.expr(sc, m.T.Key, 1))
	vn := g.freshName(sc, "cokv")
	okn := g.freshName(sc, "cokok", vn)
	// form × position of the two-valued lookup: definition, parenthesised, assignment to declared
	// variables, blank value (two real defects, 6c974fd)
	switch g.pick("cokform", 5) {
	case 0:
		g.label("map-comma-ok-parenthesised")
		rhs = "(" + rhs + ")"
	case 1:
		g.label("map-comma-ok-assign")
		// the variables are declared BEFORE the lookup is evaluated: their names must not shadow
		// anything the lookup mentions
		g.ctr++
		vn, okn = fmt.Sprintf("cv%d", g.ctr), fmt.Sprintf("co%d", g.ctr)
		g.fn.names[vn], g.fn.names[okn] = true, true
		g.declare(sc, &Var{Name: vn, T: m.T.Elem, Mutable: true})
		g.declare(sc, &Var{Name: okn, T: TBool, Mutable: true})
		return []string{"var " + vn + " " + m.T.Elem.Go(), "var " + okn + " bool", fmt.Sprintf("%s, %s = %s", vn, okn, rhs)}
	case 2:
		g.label("map-comma-ok-blank-value")
		g.declare(sc, &Var{Name: okn, T: TBool})
		return []string{fmt.Sprintf("_, %s := %s", okn, rhs)}
	}
	g.declare(sc, &Var{Name: vn, T: m.T.Elem})
	g.declare(sc, &Var{Name: okn, T: TBool})
	return []string{fmt.Sprintf("%s, %s := %s", vn, okn, rhs)}
}

// callStmt: a call whose results are discarded (only result-less callees).
func (g *G) callStmt(sc *scope, depth int) []string {
	type cand struct {
		sig  *FuncSig
		recv *Var
	}
	var cands []cand
	for _, h := range g.helpers {
		if len(h.Results) == 0 && h != g.fn.sig {
			cands = append(cands, cand{h, nil})
		}
	}
	for _, v := range sc.all() {
		var sd *StructDef
		isPtr := false
		if v.T != nil && v.T.K == KStruct {
			sd = v.T.S
		} else if v.T != nil && v.T.K == KPtr && v.T.Elem.K == KStruct && v.NonNil {
			sd, isPtr = v.T.Elem.S, true
		}
		if v.Closure != nil && len(v.Closure.Results) == 0 {
			cands = append(cands, cand{v.Closure, v})
		}
		if sd == nil || v.Closure != nil {
			continue
		}
		for _, m := range g.methods[sd] {
			if (m.Recv.K == KPtr) == isPtr && len(m.Results) == 0 && m != g.fn.sig {
				cands = append(cands, cand{m, v})
			}
		}
	}
	if len(cands) == 0 {
		return nil
	}
	c := cands[g.pick("callstmt", len(cands))]
	g.label("call-stmt")
	return []string{g.renderCall(sc, c.sig, c.recv, depth)}
}

func (g *G) appendStmt(sc *scope, depth int) []string {
	if g.fn.loopDepth >= 2 {
		// appending inside nested loops lets slices (and with them every loop bounded by their
		// length) grow exponentially: the Go run then takes millions of iterations
		return nil
	}
	vs := g.mutableVars(sc, func(v *Var) bool { return v.T.K == KSlice })
	if len(vs) == 0 {
		return nil
	}
	if g.fn.inClosure {
		// a closure appending to a captured slice could be called from a loop bounded by its length
		return nil
	}
	var ok []*Var
	for _, v := range vs {
		if g.fn.lenBound[v.Name] == 0 {
			ok = append(ok, v)
		}
	}
	if vs = ok; len(vs) == 0 {
		return nil
	}
	v := vs[g.pick("appendvar", len(vs))]
	v.Used = true
	if g.chance("appendslice", 30) {
		others := g.varsOf(sc, func(o *Var) bool { return o != v && o.T.Same(v.T) })
		g.label("append-slice")
		if len(others) > 0 && g.chance("appendothervar", 60) {
			o := others[g.pick("appendother", len(others))]
			return []string{fmt.Sprintf("%s = append(%s, %s...)", v.Name, v.Name, use(o))}
		}
		fresh, _ := g.freshSlice(sc, v.T, depth)
		return []string{fmt.Sprintf("%s = append(%s, %s...)", v.Name, v.Name, fresh)}
	}
	g.label("append")
	line := fmt.Sprintf("%s = append(%s, %s)", v.Name, v.Name, g.expr(sc, v.T.Elem, min(depth, 2)))
	// the length fact only grows on this path; keep the old lower bound (the statement may be in a branch)
	return []string{line}
}

// subsliceStmt: t := s[a:b] on a slice whose length is statically known and
// which was never appended to (fresh make): a and b within the known length.
func (g *G) subsliceStmt(sc *scope) []string {
	vs := g.varsOf(sc, func(v *Var) bool { return v.T.K == KSlice && v.MinLen >= 1 && !v.Mutable })
	if len(vs) == 0 {
		return nil
	}
	s := vs[g.pick("subslvar", len(vs))]
	a := g.pick("subsla", s.MinLen+1)
	b := a + g.pick("subslb", s.MinLen-a+1)
	name := g.freshName(sc, "subsl")
	g.label("subslice")
	var e string
	n := b - a
	if !g.inIdx && g.chance("subsldyn", 30) {
		// dynamic bounds of any unsigned type, kept within the statically known length; the
		// length of the result is then unknown (0 as lower bound)
		g.inIdx = true
		g.label("subslice-dynamic-bound")
		ty := []*Ty{TU64, TU32, TU8}[g.pick("subsldynty", 3)]
		if ty.K == KU8 && s.MinLen > 200 {
			ty = TU32
		}
		switch g.pick("subsldynform", 3) {
		case 0:
			e = fmt.Sprintf("%s[%d:%d+%s%%%d]", use(s), a, a, paren(g.nonConstOr(sc, TU64, 1)), s.MinLen-a+1)
		case 1:
			e = fmt.Sprintf("%s[%s%%%d:]", use(s), paren(g.nonConstOr(sc, ty, 1)), s.MinLen+1)
		default:
			e = fmt.Sprintf("%s[:%s%%%d]", use(s), paren(g.nonConstOr(sc, ty, 1)), s.MinLen+1)
		}
		g.inIdx = false
		g.declare(sc, &Var{Name: name, T: s.T, MinLen: 0})
		return []string{name + " := " + e}
	}
	switch g.pick("subslform", 3) {
	case 0:
		e = fmt.Sprintf("%s[%d:%d]", use(s), a, b)
	case 1:
		e = fmt.Sprintf("%s[%d:]", use(s), a)
		n = s.MinLen - a
	default:
		e = fmt.Sprintf("%s[:%d]", use(s), b)
		n = b
	}
	g.declare(sc, &Var{Name: name, T: s.T, MinLen: n})
	return []string{name + " := " + e}
}

func (g *G) closureStmt(sc *scope, depth int) []string {
	sig := &FuncSig{Pure: true}
	np := g.pick("clparams", 3)
	inner := &scope{parent: sc}
	inner.params = true
	blank := -1
	if np >= 2 && g.chance("clblank", 30) {
		// a blank parameter still consumes its argument (seeded change C01-12)
		blank = g.pick("clblankidx", np)
		g.label("closure-blank-parameter")
	}
	for j := 0; j < np; j++ {
		p := &Var{Name: fmt.Sprintf("c%s%d", "a", j), T: g.scalarTy("clparamty"), Used: true}
		// avoid clashes with constants c0, c1…: use names ca0, ca1
		if j == blank {
			p.Name = "_"
			sig.Params = append(sig.Params, p)
			continue
		}
		sig.Params = append(sig.Params, p)
		inner.vars = append(inner.vars, p)
	}
	nr := g.pick("clresults", 2)
	for j := 0; j < nr; j++ {
		sig.Results = append(sig.Results, g.scalarTy("clresty"))
	}
	name := g.freshName(sc, "closure")
	// a closure that mutates a captured var-declared variable is impure
	saved := g.fn
	captured := g.mutableVars(sc, func(v *Var) bool { return v.T.Scalar() && !v.LoopVar })
	mutate := !saved.pure && len(captured) > 0 && g.chance("clmutate", 50)
	sig.Pure = !mutate
	g.fn = &fnCtx{sig: sig, pure: true, labels: saved.labels, names: saved.names, budget: 20, inClosure: true}
	var body []string
	if mutate {
		cv := captured[g.pick("clcap", len(captured))]
		g.prog.Features["closure-mutates-capture"]++
		saved.labels["closure-mutates-capture"] = true
		body = append(body, cv.Name+" = "+g.expr(inner, cv.T, 1))
	}
	body = append(body, g.stmts(inner, uReturn, g.pick("clstmts", 2), 1)...)
	g.fn = saved
	g.label("closure")
	var ps []string
	for _, p := range sig.Params {
		ps = append(ps, p.Name+" "+p.T.Go())
	}
	hdr := name + " := func(" + strings.Join(ps, ", ") + ")"
	if len(sig.Results) == 1 {
		hdr += " " + sig.Results[0].Go()
	}
	out := []string{hdr + " {"}
	out = append(out, indentLines(body)...)
	out = append(out, "}")
	g.declare(sc, &Var{Name: name, Closure: sig, T: &Ty{K: -1}})
	return out
}

// encodeStmt: machine.UInt64Put / UInt32Put into a byte slice of known length.
func (g *G) encodeStmt(sc *scope) []string {
	if g.cfg.NoMachine {
		return nil
	}
	bs := g.varsOf(sc, func(v *Var) bool { return v.T.K == KSlice && v.T.Elem.K == KU8 && v.MinLen >= 4 })
	if len(bs) == 0 {
		return nil
	}
	b := bs[g.pick("encbuf", len(bs))]
	g.prog.Imports["github.com/goose-lang/goose/machine"] = true
	// argument forms: any expression, a widening / narrowing conversion written directly as the
	// argument, a literal; and (often) on a buffer whose bytes are all non-zero from an earlier Put,
	// so that a Put that writes too few or too many bytes shows (seeded change C01-11)
	arg := func(t *Ty) string {
		other := TU32
		if t.K == KU32 {
			other = TU64
		}
		switch g.pick("encarg", 4) {
		case 0:
			if e := g.nonConst(sc, other, 1); e != "" {
				g.label("encode-argument-conversion")
				return t.Go() + "(" + e + ")"
			}
		case 1:
			if e := g.nonConst(sc, TU8, 1); e != "" {
				g.label("encode-argument-conversion")
				return t.Go() + "(" + e + ")"
			}
		case 2:
			return g.litOf(t, true)
		}
		return g.expr(sc, t, 1)
	}
	var out []string
	if b.MinLen >= 8 && g.chance("encprefill", 50) {
		g.label("encode-over-nonzero-buffer")
		out = append(out, fmt.Sprintf("machine.UInt64Put(%s, %d)", use(b), []uint64{0xffffffffffffffff, 0x0102030405060708, 0x8877665544332211}[g.pick("encfill", 3)]))
	}
	if b.MinLen >= 8 && g.chance("enc64", 60) {
		g.label("uint64put")
		return append(out, fmt.Sprintf("machine.UInt64Put(%s, %s)", use(b), arg(TU64)))
	}
	g.label("uint32put")
	return append(out, fmt.Sprintf("machine.UInt32Put(%s, %s)", use(b), arg(TU32)))
}

// copyStmt: n := copy(dst, src) into a local fresh slice (no overlap: dst is a
// var-declared slice, which is always initialised fresh and never aliased).
func (g *G) copyStmt(sc *scope) []string {
	dsts := g.mutableVars(sc, func(v *Var) bool { return v.T.K == KSlice && v.T.Elem.Scalar() })
	if len(dsts) == 0 || g.fn.pure {
		return nil
	}
	d := dsts[g.pick("copydst", len(dsts))]
	srcs := g.varsOf(sc, func(v *Var) bool { return v != d && v.T.Same(d.T) && !v.Mutable })
	srcExpr := ""
	if len(srcs) == 0 || g.chance("copyfresh", 30) {
		srcExpr, _ = g.freshSlice(sc, d.T, 1)
	} else {
		srcExpr = use(srcs[g.pick("copysrc", len(srcs))])
	}
	g.label("copy")
	name := g.freshName(sc, "copyn")
	// copy returns an int: observe it through a conversion
	g.declare(sc, &Var{Name: name, T: TU64})
	return []string{fmt.Sprintf("%s := uint64(copy(%s, %s))", name, use(d), srcExpr)}
}

// machineStmt: MapClear, Assume(true-by-construction), Assert(true-by-construction), Linearize.
func (g *G) machineStmt(sc *scope) []string {
	if g.cfg.NoMachine {
		return nil
	}
	imp := func() { g.prog.Imports["github.com/goose-lang/goose/machine"] = true }
	switch g.pick("machinekind", 4) {
	case 0:
		ms := g.varsOf(sc, func(v *Var) bool { return v.T.K == KMap && v.NonNil })
		if len(ms) == 0 {
			return nil
		}
		g.label("map-clear")
		imp()
		return []string{"machine.MapClear(" + use(ms[g.pick("clearmap", len(ms))]) + ")"}
	case 1:
		x := g.nonConst(sc, TU64, 0)
		if x == "" {
			return nil
		}
		g.label("assume")
		imp()
		return []string{fmt.Sprintf("machine.Assume(%s == %s)", x, x)}
	case 2:
		x := g.nonConst(sc, TU64, 0)
		if x == "" {
			return nil
		}
		g.label("assert")
		imp()
		return []string{fmt.Sprintf("machine.Assert((%s | 1) != 0)", paren(x))}
	default:
		g.label("linearize")
		imp()
		return []string{"machine.Linearize()"}
	}
}

// nestedFieldStore: x.f.g = v through a var-declared struct or a pointer whose field is a struct value.
func (g *G) nestedFieldStore(sc *scope, depth int) []string {
	type alt func() []string
	var alts []alt
	for _, v := range g.varsOf(sc, func(v *Var) bool {
		return v.Closure == nil && ((v.T.K == KStruct && v.Mutable) || (v.T.K == KPtr && v.T.Elem.K == KStruct && v.NonNil))
	}) {
		v := v
		sd := v.T.S
		if v.T.K == KPtr {
			sd = v.T.Elem.S
		}
		for _, f := range sd.Fields {
			f := f
			if f.T.K != KStruct {
				continue
			}
			for _, f2 := range f.T.S.Fields {
				f2 := f2
				if !f2.T.Scalar() {
					continue
				}
				alts = append(alts, func() []string {
					g.label("nested-field-store")
					return []string{fmt.Sprintf("%s.%s.%s = %s", use(v), f.Name, f2.Name, g.expr(sc, f2.T, min(depth, 2)))}
				})
			}
		}
	}
	if len(alts) == 0 {
		return nil
	}
	return alts[g.pick("nestedalt", len(alts))]()
}

// ptrFieldPathStmt: an assignment target / operand of & whose path goes THROUGH a pointer-typed
// field: n.leaf.x = v, n.leaf.x += v, p := &n.leaf.y (seeded change C01-29: the location of the
// pointer slot instead of the pointer stored in it). Self-contained: the leaf is freshly allocated,
// so the path is never nil.
func (g *G) ptrFieldPathStmt(sc *scope, depth int) []string {
	type cand struct {
		outer *StructDef
		f     Field
		inner Field
	}
	var cands []cand
	for _, sd := range g.prog.Structs {
		for _, f := range sd.Fields {
			if f.T.K != KPtr || f.T.Elem.K != KStruct {
				continue
			}
			for _, f2 := range f.T.Elem.S.Fields {
				if f2.T.IsInt() {
					cands = append(cands, cand{sd, f, f2})
				}
			}
		}
	}
	if len(cands) == 0 {
		return nil
	}
	c := cands[g.pick("pfcand", len(cands))]
	g.ctr++
	n := g.ctr
	leaf, node, r := fmt.Sprintf("pl%d", n), fmt.Sprintf("pn%d", n), fmt.Sprintf("pr%d", n)
	g.fn.names[leaf], g.fn.names[node], g.fn.names[r] = true, true, true
	innerTy := &Ty{K: KStruct, S: c.f.T.Elem.S}
	outerTy := &Ty{K: KStruct, S: c.outer}
	out := []string{leaf + " := &" + g.structLit(sc, innerTy, 0)}
	path := ""
	switch g.pick("pfnode", 3) {
	case 0: // node held through a pointer
		out = append(out, fmt.Sprintf("%s := &%s{%s: %s}", node, c.outer.Name, c.f.Name, leaf))
		g.declare(sc, &Var{Name: node, T: PtrTo(outerTy), NonNil: true, Used: true})
	case 1: // node is a struct variable
		out = append(out, fmt.Sprintf("var %s %s = %s{%s: %s}", node, c.outer.Name, c.outer.Name, c.f.Name, leaf))
		g.declare(sc, &Var{Name: node, T: outerTy, Mutable: true, Used: true})
	default: // node is a := struct value (read-only path to the pointer)
		out = append(out, fmt.Sprintf("%s := %s{%s: %s}", node, c.outer.Name, c.f.Name, leaf))
		g.declare(sc, &Var{Name: node, T: outerTy, Used: true})
	}
	g.declare(sc, &Var{Name: leaf, T: c.f.T, NonNil: true, Used: true})
	path = fmt.Sprintf("%s.%s.%s", node, c.f.Name, c.inner.Name)
	v := g.expr(sc, c.inner.T, min(depth, 1))
	switch g.pick("pfform", 3) {
	case 0:
		g.label("store-through-pointer-field")
		out = append(out, fmt.Sprintf("%s = %s", path, v))
	case 1:
		g.label("opassign-through-pointer-field")
		out = append(out, fmt.Sprintf("%s += %s", path, v))
	default:
		g.label("address-through-pointer-field")
		q := fmt.Sprintf("pq%d", n)
		g.fn.names[q] = true
		out = append(out, fmt.Sprintf("%s := &%s", q, path), fmt.Sprintf("*%s = %s", q, v))
		g.declare(sc, &Var{Name: q, T: PtrTo(c.inner.T), NonNil: true, Used: true})
	}
	out = append(out, fmt.Sprintf("%s := uint64(%s.%s)", r, leaf, c.inner.Name))
	g.declare(sc, &Var{Name: r, T: TU64})
	return out
}

// chainedSliceStmt: a slice expression applied to a slice expression, s[:n][lo:], s[a:][:m],
// s[a:b][c:d]: omitted bounds default to the bounds of the INNER window (seeded change C01-31).
func (g *G) chainedSliceStmt(sc *scope) []string {
	vs := g.varsOf(sc, func(v *Var) bool { return v.T != nil && v.T.K == KSlice && v.MinLen >= 3 && !v.Big })
	g.ctr++
	n := g.ctr
	var out []string
	var src string
	var elem *Ty
	ln := 0
	if len(vs) > 0 && g.chance("csexisting", 50) {
		v := vs[g.pick("csvar", len(vs))]
		src, elem, ln = use(v), v.T.Elem, v.MinLen
	} else {
		src = fmt.Sprintf("cs%d", n)
		g.fn.names[src] = true
		elem, ln = TU64, 4+g.pick("cslen", 4)
		out = append(out, fmt.Sprintf("%s := make([]uint64, %d)", src, ln))
		g.declare(sc, &Var{Name: src, T: SliceOf(TU64), MinLen: ln, Used: true, CapKnown: true})
	}
	if ln > 8 {
		ln = 8
	}
	w, r := fmt.Sprintf("cw%d", n), fmt.Sprintf("cr%d", n)
	g.fn.names[w], g.fn.names[r] = true, true
	hi := 2 + g.pick("cshi", ln-1) // inner upper bound in [2, ln]
	lo := g.pick("cslo", hi)       // outer lower bound in [0, hi)
	var e string
	switch g.pick("csform", 4) {
	case 0:
		g.label("chained-slice-prefix-then-suffix")
		e = fmt.Sprintf("%s[:%d][%d:]", src, hi, lo)
	case 1:
		g.label("chained-slice-suffix-then-prefix")
		e = fmt.Sprintf("%s[%d:][:%d]", src, lo, hi-lo)
	case 2:
		g.label("chained-slice-window-then-suffix")
		e = fmt.Sprintf("%s[%d:%d][%d:]", src, lo, hi, (hi-lo)/2)
	default:
		g.label("chained-slice-prefix-then-prefix")
		e = fmt.Sprintf("%s[:%d][:%d]", src, hi, lo)
	}
	out = append(out, w+" := "+e, fmt.Sprintf("%s := uint64(len(%s))", r, w))
	g.declare(sc, &Var{Name: w, T: SliceOf(elem), MinLen: 0})
	g.declare(sc, &Var{Name: r, T: TU64})
	return out
}

// castLit gives an integer literal argument of a generic call its type
// (type inference would otherwise make it an int).
func castLit(t *Ty, e string) string {
	if t.IsInt() && isLiteral(e) {
		return map[Kind]string{KU64: "uint64", KU32: "uint32", KU8: "byte"}[t.K] + "(" + e + ")"
	}
	return e
}

// methodValueStmt: f := x.m for a method with at least one parameter (a partial application in
// GooseLang; parameter-less method values are the known finding methodValue). The receiver is
// evaluated — and, for value receivers, copied — here, not when f is called, so later stores to x
// must not be seen through f (seeded change C01-5).
func (g *G) methodValueStmt(sc *scope) []string {
	type cand struct {
		v *Var
		m *FuncSig
	}
	var cands []cand
	for _, v := range sc.all() {
		var sd *StructDef
		isPtr := false
		if v.T != nil && v.T.K == KStruct {
			sd = v.T.S
		} else if v.T != nil && v.T.K == KPtr && v.T.Elem.K == KStruct && v.NonNil {
			sd, isPtr = v.T.Elem.S, true
		}
		if sd == nil || v.Closure != nil || v.Big {
			continue
		}
		for _, m := range g.methods[sd] {
			if (m.Recv.K == KPtr) == isPtr && len(m.Params) >= 2 && m != g.fn.sig && (!g.fn.pure || m.Pure) {
				cands = append(cands, cand{v, m})
			}
		}
	}
	if len(cands) == 0 {
		return nil
	}
	c := cands[g.pick("mvcand", len(cands))]
	g.ctr++
	name := fmt.Sprintf("mv%d", g.ctr)
	g.fn.names[name] = true
	g.label("method-value")
	mv := &Var{Name: name, Closure: &FuncSig{Name: name, Params: c.m.Params[1:], Results: c.m.Results, Pure: c.m.Pure}, T: &Ty{K: -1}}
	out := []string{name + " := " + use(c.v) + "." + c.m.Name}
	// change what the receiver expression denotes before the value is called …
	sd := c.v.T.S
	if c.v.T.K == KPtr {
		sd = c.v.T.Elem.S
	}
	if g.chance("mvmutate", 60) && !g.fn.pure {
		switch {
		case c.v.T.K == KPtr && c.v.Mutable && !c.v.LoopVar:
			g.label("method-value-receiver-reassigned")
			out = append(out, c.v.Name+" = &"+g.structLit(sc, c.v.T.Elem, 1))
		case len(sd.Fields) > 0 && (c.v.T.K == KPtr || c.v.Mutable):
			// store to every scalar field: whichever the method reads has changed
			stored := false
			for _, f := range sd.Fields {
				if f.T.Scalar() {
					out = append(out, c.v.Name+"."+f.Name+" = "+g.expr(sc, f.T, 1))
					stored = true
				}
			}
			if stored {
				g.label("method-value-receiver-field-stored")
				if c.v.T.K == KStruct {
					g.label("method-value-copied-receiver-changed")
				}
			}
		}
	}
	g.declare(sc, mv)
	// … and call it right away, keeping the results for later use
	if len(c.m.Results) >= 1 && g.chance("mvcall", 70) {
		var names []string
		call := g.renderCall(sc, mv.Closure, mv, 1)
		for _, r := range c.m.Results {
			g.ctr++
			n := fmt.Sprintf("mvr%d", g.ctr)
			g.fn.names[n] = true
			names = append(names, n)
			g.declare(sc, &Var{Name: n, T: r})
		}
		out = append(out, strings.Join(names, ", ")+" := "+call)
		// fold the results into assignable variables so that they reach the function's results
		if !g.fn.pure {
			for i, r := range c.m.Results {
				vs := g.mutableVars(sc, func(v *Var) bool { return v.T != nil && v.T.Same(r) && !v.LoopVar && v.T.Scalar() })
				if len(vs) == 0 {
					continue
				}
				v := vs[g.pick("mvfold", len(vs))]
				switch {
				case r.IsInt():
					out = append(out, v.Name+" = "+v.Name+" ^ "+names[i])
				case r.K == KBool:
					out = append(out, v.Name+" = "+v.Name+" != "+names[i])
				case r.K == KStr:
					out = append(out, v.Name+" = "+v.Name+" + "+names[i])
				}
				v.Used = true
				for _, nv := range sc.vars {
					if nv.Name == names[i] {
						nv.Used = true
					}
				}
			}
		}
	}
	return out
}

// ptrPtrStmt: a pointer to a pointer (to a struct or a scalar), loaded from and stored through.
// One level of indirection is everywhere in the generated programs; the second level checks that
// the translation strips exactly one pointer per dereference (seeded change C01-7).
func (g *G) ptrPtrStmt(sc *scope, depth int) []string {
	var elem *Ty
	if len(g.prog.Structs) > 0 && g.chance("ppstruct", 65) {
		elem = &Ty{K: KStruct, S: g.prog.Structs[g.pick("ppst", len(g.prog.Structs))]}
	} else {
		elem = g.intTy("ppint")
	}
	pt := PtrTo(elem)
	g.ctr++
	inner := fmt.Sprintf("pi%d", g.ctr)
	outer := fmt.Sprintf("po%d", g.ctr)
	got := fmt.Sprintf("pg%d", g.ctr)
	for _, n := range []string{inner, outer, got} {
		g.fn.names[n] = true
	}
	g.label("pointer-to-pointer")
	var out []string
	out = append(out, "var "+inner+" "+pt.Go()+" = "+g.ptrExpr(sc, pt, 1))
	g.declare(sc, &Var{Name: inner, T: pt, Mutable: true, NonNil: true, Used: true})
	if g.chance("ppnew", 30) {
		out = append(out, outer+" := new("+pt.Go()+")")
		if g.chance("ppreadfresh", 60) {
			// the fresh cell holds a nil pointer, whatever the pointee type (seeded change C01-32:
			// new(*S) allocated as a zero struct)
			g.label("read-of-fresh-pointer-cell")
			z := fmt.Sprintf("pz%d", g.ctr)
			g.fn.names[z] = true
			out = append(out, z+" := *"+outer+" == nil")
			g.declare(sc, &Var{Name: z, T: TBool})
		}
		out = append(out, "*"+outer+" = "+inner)
	} else {
		out = append(out, outer+" := &"+inner)
	}
	g.declare(sc, &Var{Name: outer, T: PtrTo(pt), NonNil: true, Used: true})
	if g.chance("ppstore", 60) {
		// store a different pointer through the outer one
		out = append(out, "*"+outer+" = "+g.ptrExpr(sc, pt, 1))
	}
	out = append(out, got+" := *"+outer)
	g.declare(sc, &Var{Name: got, T: pt, NonNil: true})
	if elem.K == KStruct {
		for _, f := range elem.S.Fields {
			if f.T.Scalar() && g.chance("ppfield", 60) {
				out = append(out, "(*"+outer+")."+f.Name+" = "+g.expr(sc, f.T, 1))
			}
		}
	} else {
		out = append(out, "**"+outer+" = "+g.expr(sc, elem, 1))
	}
	return out
}

// effectfulOperandStmt: an operator one of whose operands is a call with a visible effect (a
// closure that counts its calls through a pointer) and whose other operand is a constant that may
// decide the result on its own (x || true, x && false, x * 0, x & 0): the call must still run —
// exactly once, and not at all when Go's short-circuit rule skips it (seeded change C01-13).
func (g *G) effectfulOperandStmt(sc *scope) []string {
	g.ctr++
	n := g.ctr
	cnt, fn, res, seen := fmt.Sprintf("ec%d", n), fmt.Sprintf("ef%d", n), fmt.Sprintf("er%d", n), fmt.Sprintf("es%d", n)
	for _, x := range []string{cnt, fn, res, seen} {
		g.fn.names[x] = true
	}
	g.label("effectful-operand-with-constant")
	arg := g.expr(sc, TU64, 1)
	var out []string
	out = append(out, cnt+" := new(uint64)")
	boolConst := func() string {
		r := []string{"true", "false"}[g.pick("eoconst", 2)]
		for _, c := range g.consts {
			if c.T.K == KBool && g.chance("eoconstname", 40) {
				r = c.Name
			}
		}
		return r
	}
	if g.chance("eobool", 65) {
		out = append(out, fmt.Sprintf("%s := func(x uint64) bool {\n\t*%s = *%s + 1\n\treturn x > %d\n}", fn, cnt, cnt, g.pick("eothr", 9)))
		op := []string{"&&", "||"}[g.pick("eoop", 2)]
		call := fn + "(" + arg + ")"
		switch g.pick("eoside", 3) {
		case 0: // constant on the right: the call always runs
			out = append(out, fmt.Sprintf("%s := %s %s %s", res, call, op, boolConst()))
		case 1: // constant on the left: the call runs unless the constant decides
			out = append(out, fmt.Sprintf("%s := %s %s %s", res, boolConst(), op, call))
		default: // two calls
			out = append(out, fmt.Sprintf("%s := %s %s %s(%s)", res, call, op, fn, g.expr(sc, TU64, 0)))
		}
		g.declare(sc, &Var{Name: res, T: TBool})
	} else {
		out = append(out, fmt.Sprintf("%s := func(x uint64) uint64 {\n\t*%s = *%s + 1\n\treturn x + %d\n}", fn, cnt, cnt, g.pick("eoadd", 9)))
		op := []string{"*", "&", "|", "-", "%", "<<", ">>", "<<", ">>"}[g.pick("eoaop", 9)]
		k := map[string]string{"*": "0", "&": "0", "|": "18446744073709551615", "-": "0", "%": "1"}[op]
		if op == "<<" || op == ">>" {
			// a constant count at or beyond the width: the result is 0, the call still runs (seeded change C01-16)
			k = []string{"64", "65", "200", "63", "0"}[g.pick("eoshift", 5)]
		}
		call := fn + "(" + arg + ")"
		if op == "*" || op == "&" || op == "|" {
			if g.chance("eoleftconst", 40) {
				out = append(out, fmt.Sprintf("%s := %s %s %s", res, k, op, call))
			} else {
				out = append(out, fmt.Sprintf("%s := %s %s %s", res, call, op, k))
			}
		} else {
			out = append(out, fmt.Sprintf("%s := %s %s %s", res, call, op, k))
		}
		g.declare(sc, &Var{Name: res, T: TU64})
	}
	out = append(out, seen+" := *"+cnt)
	g.declare(sc, &Var{Name: seen, T: TU64})
	return out
}

// genericLayoutStmt instantiates the generic helpers that depend on the LAYOUT of their type
// parameter (zero value, allocation, load and store at type T) at scalars, structs, slices and —
// the interesting case — pointers (seeded change C01-20: `*S` passed as struct.t S).
func (g *G) genericLayoutStmt(sc *scope, depth int) []string {
	var t *Ty
	switch g.pick("gltype", 6) {
	case 0:
		t = g.scalarTy("glscalar")
	case 1, 2:
		if len(g.prog.Structs) > 0 {
			t = PtrTo(&Ty{K: KStruct, S: g.prog.Structs[g.pick("glpst", len(g.prog.Structs))]})
		} else {
			t = PtrTo(g.intTy("glpint"))
		}
	case 3:
		t = PtrTo(g.intTy("glpint2"))
	case 4:
		if len(g.prog.Structs) > 0 {
			t = &Ty{K: KStruct, S: g.prog.Structs[g.pick("glst", len(g.prog.Structs))]}
		} else {
			t = TU32
		}
	default:
		t = SliceOf(g.intTy("glslice"))
	}
	g.ctr++
	n := g.ctr
	z, np, ld, old := fmt.Sprintf("gz%d", n), fmt.Sprintf("gn%d", n), fmt.Sprintf("gl%d", n), fmt.Sprintf("go%d", n)
	for _, x := range []string{z, np, ld, old} {
		g.fn.names[x] = true
	}
	g.label("generic-layout")
	if t.K == KPtr {
		g.label("generic-layout-at-pointer-type")
	}
	inst := func() string {
		if g.chance("glexplicit", 50) {
			return "[" + t.Go() + "]"
		}
		return ""
	}
	val := g.exprTyped(sc, t, 1, false)
	val2 := g.exprTyped(sc, t, 1, false)
	out := []string{
		z + " := gzero[" + t.Go() + "]()",
		np + " := gnew" + inst() + "(" + castLit(t, val) + ")",
		old + " := gstore" + inst() + "(" + np + ", " + castLit(t, val2) + ")",
		ld + " := *" + np,
	}
	nn := t.K == KPtr || t.K == KMap
	g.declare(sc, &Var{Name: z, T: t})
	g.declare(sc, &Var{Name: np, T: PtrTo(t), NonNil: true})
	g.declare(sc, &Var{Name: old, T: t, NonNil: nn})
	g.declare(sc, &Var{Name: ld, T: t, NonNil: nn})
	if t.K == KPtr || t.K == KSlice {
		// the zero value of a pointer / slice type is nil
		r := fmt.Sprintf("gb%d", n)
		g.fn.names[r] = true
		out = append(out, r+" := "+z+" == nil")
		g.declare(sc, &Var{Name: r, T: TBool})
		for _, v := range sc.vars {
			if v.Name == z {
				v.Used = true
			}
		}
	}
	return out
}

// stringBytesCopyStmt: conversions between strings and byte slices copy. A byte slice is converted
// (to a string, or to a string and back — Go's idiom for copying), the original is then modified,
// and both are read: the copy must keep the old contents (seeded change C01-26).
func (g *G) stringBytesCopyStmt(sc *scope) []string {
	bs := g.varsOf(sc, func(v *Var) bool {
		return v.T != nil && v.T.K == KSlice && v.T.Elem.K == KU8 && v.MinLen >= 1 && v.Closure == nil && !v.Big
	})
	g.ctr++
	n := g.ctr
	src := fmt.Sprintf("sb%d", n)
	var out []string
	form := g.pick("sbform", 4)
	if form == 3 {
		// starts from a string literal: no byte slice needed
	} else if len(bs) > 0 && g.chance("sbexisting", 60) {
		src = use(bs[g.pick("sbvar", len(bs))])
	} else {
		g.fn.names[src] = true
		out = append(out, fmt.Sprintf("%s := make([]byte, %d)", src, 2+g.pick("sblen", 3)), fmt.Sprintf("%s[0] = %d", src, 65+g.pick("sbinit", 20)))
		g.declare(sc, &Var{Name: src, T: SliceOf(TU8), MinLen: 2, Used: true})
	}
	cp, r := fmt.Sprintf("sc%d", n), fmt.Sprintf("sr%d", n)
	g.fn.names[cp], g.fn.names[r] = true, true
	g.declare(sc, &Var{Name: r, T: TU64})
	newByte := 97 + g.pick("sbnew", 20)
	switch form {
	case 0:
		g.label("bytes-copied-through-string-round-trip")
		out = append(out, fmt.Sprintf("%s := []byte(string(%s))", cp, src), fmt.Sprintf("%s[0] = %d", cp, newByte),
			fmt.Sprintf("%s := uint64(%s[0])*1000 + uint64(%s[0])", r, src, cp))
	case 1:
		g.label("bytes-copied-through-string-round-trip")
		out = append(out, fmt.Sprintf("%s := []byte((string)(%s))", cp, src), fmt.Sprintf("%s[0] = %s[0] + 1", src, src),
			fmt.Sprintf("%s := uint64(%s[0])*1000 + uint64(%s[0])", r, src, cp))
	case 2:
		g.label("string-of-bytes-then-modify-bytes")
		out = append(out, fmt.Sprintf("%s := string(%s)", cp, src), fmt.Sprintf("%s[0] = %d", src, newByte),
			fmt.Sprintf("%s := uint64(%s[0])*1000 + uint64([]byte(%s)[0])", r, src, cp))
	default:
		g.label("bytes-of-string-then-modify-bytes")
		lit := []string{"\"abc\"", "\"héllo\"", "\"zz\""}[g.pick("sblit", 3)]
		st := fmt.Sprintf("ss%d", n)
		g.fn.names[st] = true
		out = append(out, fmt.Sprintf("%s := %s", st, lit), fmt.Sprintf("%s := []byte(%s)", cp, st), fmt.Sprintf("%s[0] = %d", cp, newByte),
			fmt.Sprintf("%s := uint64(len(%s))*1000 + uint64([]byte(%s)[0]) + uint64(%s[0])", r, st, st, cp))
	}
	return out
}

// structSnapshotStmt: a struct copied out of a pointer (in each declaration form), the original
// then modified through the pointer, the copy read afterwards: the copy must keep the old contents
// (seeded change C01-21).
func (g *G) structSnapshotStmt(sc *scope) []string {
	ps := g.varsOf(sc, func(v *Var) bool {
		return v.T != nil && v.T.K == KPtr && v.NonNil && v.T.Elem.K == KStruct && v.Closure == nil
	})
	if len(ps) == 0 {
		return nil
	}
	p := ps[g.pick("snapptr", len(ps))]
	st := p.T.Elem
	g.ctr++
	name := fmt.Sprintf("sn%d", g.ctr)
	g.fn.names[name] = true
	g.label("struct-snapshot-then-modify-original")
	var out []string
	mut := false
	switch g.pick("snapform", 4) {
	case 0:
		out = append(out, "var "+name+" = *"+use(p))
		mut = true
	case 1:
		out = append(out, "var "+name+" "+st.Go()+" = *"+use(p))
		mut = true
	case 2:
		out = append(out, name+" := *"+use(p))
	default:
		out = append(out, "var "+name+" "+st.Go(), name+" = *"+use(p))
		mut = true
	}
	for _, f := range st.S.Fields {
		if f.T.Scalar() {
			out = append(out, p.Name+"."+f.Name+" = "+g.expr(sc, f.T, 1))
		}
	}
	g.declare(sc, &Var{Name: name, T: st, Mutable: mut})
	return out
}

// emptyWindowStmt: an empty or constant-bound sub-slice keeps the capacity behind it (seeded
// change C01-19): cap of s[:0], s[n:n], s[0:n] on slices that are never appended to.
func (g *G) emptyWindowStmt(sc *scope) []string {
	vs := g.varsOf(sc, func(v *Var) bool {
		return v.T != nil && v.T.K == KSlice && v.MinLen >= 1 && v.CapKnown && !v.Mutable && !v.Big
	})
	if len(vs) == 0 {
		return nil
	}
	s := vs[g.pick("ewvar", len(vs))]
	g.ctr++
	w, c := fmt.Sprintf("ew%d", g.ctr), fmt.Sprintf("ec%d", g.ctr)
	g.fn.names[w], g.fn.names[c] = true, true
	g.label("empty-window-capacity")
	n := g.pick("ewn", s.MinLen+1)
	var e string
	switch g.pick("ewform", 4) {
	case 0:
		e = fmt.Sprintf("%s[:0]", use(s))
	case 1:
		e = fmt.Sprintf("%s[%d:%d]", use(s), n, n)
	case 2:
		e = fmt.Sprintf("%s[0:%d]", use(s), n)
	default:
		e = fmt.Sprintf("%s[%d:]", use(s), n)
	}
	g.declare(sc, &Var{Name: w, T: s.T, MinLen: 0})
	g.declare(sc, &Var{Name: c, T: TU64})
	return []string{w + " := " + e, c + " := uint64(cap(" + w + "))*1000 + uint64(len(" + w + "))"}
}
