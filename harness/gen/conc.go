package gen

import (
	"fmt"
	"regexp"
	"strings"

	"pgregory.net/rapid"
)

// ConcProgram is a generated data-race-free concurrent program (C03).
type ConcProgram struct {
	Src string
	// Independent: the result cannot depend on the schedule (commutative
	// updates under the lock, result read after a join).
	Independent bool
	Features    []string
	Threads     int
	// MayReject: the program uses a construct outside the documented subset (go statement on
	// a named function or method with arguments); goose may refuse it, but if it accepts it
	// the usual oracle applies.
	MayReject bool
}

type cgen struct {
	t     *rapid.T
	feats map[string]bool
}

func (g *cgen) pick(label string, n int) int      { return Uniform(g.t, label, n) }
func (g *cgen) chance(label string, pct int) bool { return Chance(g.t, label, pct) }
func (g *cgen) lit(label string) uint64 {
	return []uint64{1, 2, 3, 5, 7, 10, 100, 255, 1 << 32, 1<<64 - 1}[g.pick(label, 10)]
}
func (g *cgen) feat(f string) { g.feats[f] = true }

// critical section operations. id is an expression naming the thread
// (a literal, or the loop copy variable).
func (g *cgen) op(independent bool, id string, keyBase int) string {
	c := g.lit("opc")
	if independent {
		switch g.pick("iop", 7) {
		case 0:
			return fmt.Sprintf("x += %d", c)
		case 1:
			return fmt.Sprintf("y ^= %d", c)
		case 2:
			g.feat("shared-struct")
			return fmt.Sprintf("acc.sum = acc.sum + %s + %d", id, c%1000)
		case 3:
			g.feat("shared-struct")
			return "acc.cnt = acc.cnt + 1"
		case 4:
			g.feat("shared-map")
			return fmt.Sprintf("m[%s + %d] = %d", id, keyBase, c)
		case 5:
			return "x++"
		default:
			g.feat("shared-slice")
			ix := id + " % 4"
			var n int
			if _, err := fmt.Sscanf(id, "%d", &n); err == nil {
				ix = fmt.Sprintf("%d", n%4)
			}
			return fmt.Sprintf("cells[%s] = cells[%s] + %d", ix, ix, c%97+1)
		}
	}
	switch g.pick("dop", 6) {
	case 0:
		g.feat("noncommutative")
		return fmt.Sprintf("x = x*3 + %s", id)
	case 1:
		g.feat("order-log")
		return fmt.Sprintf("log = append(log, %s)", id)
	case 2:
		g.feat("shared-map")
		return fmt.Sprintf("m[7] = %s + 1", id)
	case 3:
		g.feat("noncommutative")
		return fmt.Sprintf("if x %% 2 == 0 {\n\t\t\tx = x + %s + 1\n\t\t} else {\n\t\t\tx = x * 2\n\t\t}", id)
	case 4:
		g.feat("shared-struct")
		return fmt.Sprintf("acc.sum = acc.sum*2 + %s", id)
	default:
		return fmt.Sprintf("x += %d", c)
	}
}

// GenerateConcurrent draws one concurrent program with a single closed entry
// function entry0.
func GenerateConcurrent(t *rapid.T) *ConcProgram {
	g := &cgen{t: t, feats: map[string]bool{}}
	p := g.generate()
	return g.placeLock(p)
}

var muWord = regexp.MustCompile(`\bmu\b`)

// placeLock moves the program's mutex from a local variable into a struct field — of a struct behind
// a pointer, of a var-declared struct value, or two selectors deep inside a := struct value — so
// that locks are also reached through field paths (seeded change C03-5). Everything else, including
// sync.NewCond(mu), follows the same path.
func (g *cgen) placeLock(p *ConcProgram) *ConcProgram {
	const decl = "\tmu := new(sync.Mutex)\n"
	if !strings.Contains(p.Src, decl) || strings.Count(p.Src, decl) != 1 {
		return p
	}
	kind := g.pick("lockplace", 5)
	if kind <= 1 {
		return p
	}
	var setup, path string
	switch kind {
	case 2:
		setup, path = "\tlkh := &LkHolder{mu: new(sync.Mutex)}\n", "lkh.mu"
		p.Features = append(p.Features, "lock-in-field-of-pointer")
	case 3:
		setup, path = "\tvar lkv LkHolder = LkHolder{mu: new(sync.Mutex)}\n", "lkv.mu"
		p.Features = append(p.Features, "lock-in-field-of-var-struct")
	default:
		setup, path = "\tlko := LkOuter{in: LkHolder{mu: new(sync.Mutex)}}\n", "lko.in.mu"
		p.Features = append(p.Features, "lock-in-nested-field-of-value-struct")
	}
	src := strings.Replace(p.Src, decl, "\x00", 1)
	src = muWord.ReplaceAllString(src, path)
	src = strings.Replace(src, "\x00", setup, 1)
	types := "type LkHolder struct {\n\tmu *sync.Mutex\n\tn  uint64\n}\n\ntype LkOuter struct {\n\tin LkHolder\n}\n\n"
	i := strings.Index(src, ")\n\n")
	if i < 0 {
		return p
	}
	p.Src = src[:i+3] + types + src[i+3:]
	return p
}

func (g *cgen) generate() *ConcProgram {
	if g.chance("loopvarshape", 20) {
		return g.loopVarCapture()
	}
	if g.chance("gocallshape", 12) {
		return g.goCallFrontier()
	}
	if g.chance("captureassignshape", 10) {
		return g.captureAssignFrontier()
	}
	if g.chance("returninloopshape", 8) {
		return g.returnInGoroutineLoopFrontier()
	}
	if g.chance("returninifshape", 8) {
		return g.returnInGoroutineIfFrontier()
	}
	if g.chance("onceshape", 8) {
		return g.onceByCounter()
	}
	independent := g.chance("independent", 55)
	nthreads := 1 + g.pick("nthreads", 3)
	useMachine := false
	var b strings.Builder
	w := func(format string, a ...any) { fmt.Fprintf(&b, format, a...) }

	// join mechanism
	join := []string{"waitgroup", "cond-counter"}[g.pick("join", 2)]
	if !independent && g.chance("nojoin", 40) {
		join = "none"
	}
	handoff := independent && g.chance("handoff", 30) // condition-variable hand-off of a value
	spawnLoop := nthreads >= 2 && g.chance("spawnloop", 40)

	w("func entry0() (uint64, uint64, uint64, uint64, uint64, uint64, []uint64) {\n")
	w("\tmu := new(sync.Mutex)\n")
	w("\tvar x uint64 = %d\n", g.lit("x0"))
	w("\tvar y uint64 = %d\n", g.lit("y0"))
	w("\tacc := &Acc{sum: %d}\n", g.lit("acc0")%1000)
	w("\tm := make(map[uint64]uint64)\n")
	w("\tcells := make([]uint64, 4)\n")
	w("\tvar log []uint64\n")
	needCond := join == "cond-counter" || handoff
	if needCond {
		w("\tcond := sync.NewCond(mu)\n")
		g.feat("condvar")
	}
	if join == "cond-counter" {
		w("\tvar done uint64\n")
	}
	if handoff {
		w("\tvar ready bool\n\tvar handed uint64\n")
	}
	if join == "waitgroup" {
		w("\twg := new(sync.WaitGroup)\n")
		g.feat("waitgroup")
		if !spawnLoop || g.chance("addonce", 50) {
			// the delta as a literal, a converted variable, or an expression over one (seeded change
			// C03-11: a binary-expression delta rebuilt from the wrong operand)
			switch g.pick("addform", 5) {
			case 0, 1:
				w("\twg.Add(%d)\n", nthreads)
			case 2:
				g.feat("waitgroup-add-converted-variable")
				w("\tnw := uint64(%d)\n\twg.Add(int(nw))\n", nthreads)
			case 3:
				g.feat("waitgroup-add-expression")
				w("\tnw := uint64(%d)\n\twg.Add(int(nw) + 1)\n", nthreads-1)
			default:
				g.feat("waitgroup-add-expression")
				w("\tnw := uint64(%d)\n\twg.Add(1 + int(nw))\n", nthreads-1)
			}
		} else {
			spawnLoop = true
		}
	}
	addInLoop := join == "waitgroup" && !strings.Contains(b.String(), "wg.Add(")

	body := func(id string, keyBase int) string {
		var s strings.Builder
		ws := func(format string, a ...any) { fmt.Fprintf(&s, format, a...) }
		if id == "idx" {
			ws("\t\t_ = idx\n")
		}
		if g.chance("sleep", 20) {
			useMachine = true
			g.feat("sleep")
			ws("\t\tmachine.Sleep(%d)\n", []int{1, 1000, 100000}[g.pick("sleepns", 3)])
		}
		if id == "idx" && g.chance("localwork", 40) {
			ws("\t\tloc := %s*%d + 1\n\t\t_ = loc\n", id, g.lit("locc")%100+1)
		}
		nsec := 1
		if g.chance("twosections", 25) {
			nsec = 2
		}
		for k := 0; k < nsec; k++ {
			ws("\t\tmu.Lock()\n")
			nops := 1 + g.pick("nops", 3)
			for j := 0; j < nops; j++ {
				ws("\t\t%s\n", g.op(independent, id, keyBase))
			}
			if nsec == 2 && k == 0 && g.chance("holdlong", 60) {
				// hold the first of two back-to-back sections for 2 ms: a goroutine that has waited
				// longer than 1 ms is handed the mutex directly on Unlock (Go's starvation mode), so
				// the schedule "another thread between the two sections" really occurs in Go runs
				// (seeded change C03-9: adjacent Unlock/Lock pairs merged)
				useMachine = true
				g.feat("long-first-section-then-adjacent-relock")
				ws("\t\tmachine.Sleep(2000000)\n")
			}
			ws("\t\tmu.Unlock()\n")
		}
		switch join {
		case "waitgroup":
			ws("\t\twg.Done()\n")
		case "cond-counter":
			ws("\t\tmu.Lock()\n\t\tdone = done + 1\n")
			if g.chance("broadcast", 50) {
				ws("\t\tcond.Broadcast()\n")
			} else {
				ws("\t\tcond.Signal()\n")
			}
			ws("\t\tmu.Unlock()\n")
		}
		return s.String()
	}

	if spawnLoop {
		g.feat("spawn-in-loop")
		w("\tfor i := uint64(0); i < %d; i++ {\n", nthreads)
		w("\t\tidx := i\n")
		if addInLoop {
			w("\t\twg.Add(1)\n")
		}
		w("\t\tgo func() {\n%s\t\t}()\n", indentMore(body("idx", 10)))
		w("\t}\n")
	} else {
		for k := 0; k < nthreads; k++ {
			w("\tgo func() {\n%s\t}()\n", body(fmt.Sprintf("%d", k), 10))
			if g.chance("parentbetween", 25) {
				// the parent also works on the shared state after spawning (captured variables alias)
				g.feat("parent-writes-after-go")
				w("\tmu.Lock()\n\t%s\n\tmu.Unlock()\n", g.op(independent, fmt.Sprintf("%d", 50+k), 20))
			}
		}
	}
	if handoff {
		g.feat("handoff")
		w("\tgo func() {\n\t\tmu.Lock()\n\t\thanded = %d\n\t\tready = true\n\t\tcond.Broadcast()\n\t\tmu.Unlock()\n\t}()\n", g.lit("handval"))
		w("\tmu.Lock()\n\tfor !ready {\n")
		if g.chance("waittimeout", 45) {
			useMachine = true
			g.feat("wait-timeout")
			w("\t\tmachine.WaitTimeout(cond, %d)\n", []int{0, 0, 1, 5}[g.pick("wtms", 4)])
		} else {
			w("\t\tcond.Wait()\n")
		}
		w("\t}\n\tx = x + handed\n\tmu.Unlock()\n")
	}
	switch join {
	case "waitgroup":
		w("\twg.Wait()\n")
	case "cond-counter":
		w("\tmu.Lock()\n\tfor done < %d {\n", nthreads)
		if g.chance("joinwaittimeout", 40) {
			useMachine = true
			g.feat("wait-timeout")
			w("\t\tmachine.WaitTimeout(cond, %d)\n", []int{0, 0, 1, 5}[g.pick("jwtms", 4)])
		} else {
			w("\t\tcond.Wait()\n")
		}
		w("\t}\n\tmu.Unlock()\n")
	case "none":
		g.feat("read-without-join")
	}
	// read the result under the lock
	w("\tmu.Lock()\n\tr0 := x\n\tr1 := acc.sum\n\tr2 := acc.cnt\n\tr3 := uint64(len(m)) + m[7]\n\tr4 := cells[0] + cells[1] + cells[2] + cells[3]\n\tr5 := log\n\tr6 := y\n\tmu.Unlock()\n")
	w("\treturn r0, r6, r1, r2, r3, r4, r5\n}\n")

	var hdr strings.Builder
	hdr.WriteString("package main\n\nimport (\n")
	if useMachine {
		hdr.WriteString("\t\"github.com/goose-lang/goose/machine\"\n")
	}
	hdr.WriteString("\t\"sync\"\n)\n\ntype Acc struct {\n\tsum uint64\n\tcnt uint64\n}\n\n")
	var feats []string
	for f := range g.feats {
		feats = append(feats, f)
	}
	return &ConcProgram{Src: hdr.String() + b.String(), Independent: independent && join != "none", Features: feats, Threads: nthreads + 1}
}

func indentMore(s string) string {
	lines := strings.Split(strings.TrimRight(s, "\n"), "\n")
	for i := range lines {
		lines[i] = "\t" + lines[i]
	}
	return strings.Join(lines, "\n") + "\n"
}

// loopVarCapture generates a program whose goroutines capture the variable of
// a three-clause for loop directly (no `idx := i` copy) and are joined inside
// the iteration, so that all accesses to the loop variable are ordered: the
// goroutine reads it, and sometimes updates it, and the loop continues from
// the updated value. The result does not depend on the schedule.
func (g *cgen) loopVarCapture() *ConcProgram {
	g.feat("captures-loop-variable")
	var b strings.Builder
	w := func(format string, a ...any) { fmt.Fprintf(&b, format, a...) }
	n := 2 + g.pick("lvbound", 5)
	childWrites := g.chance("lvchildwrites", 50)
	parentWrites := g.chance("lvparentwrites", 30)
	join := []string{"waitgroup", "cond"}[g.pick("lvjoin", 2)]
	w("func entry0() (uint64, uint64, uint64, []uint64) {\n")
	w("\tmu := new(sync.Mutex)\n\tvar x uint64 = %d\n\tvar iters uint64\n\tvar log []uint64\n", g.lit("lvx0")%1000)
	if join == "cond" {
		w("\tcond := sync.NewCond(mu)\n")
		g.feat("condvar")
	}
	w("\tfor i := uint64(%d); i < %d; i++ {\n", g.pick("lvstart", 2), n)
	if parentWrites {
		g.feat("parent-writes-loop-variable-before-go")
		w("\t\tif i == 1 {\n\t\t\ti = i + 1\n\t\t}\n")
	}
	if join == "waitgroup" {
		g.feat("waitgroup")
		w("\t\twg := new(sync.WaitGroup)\n\t\twg.Add(1)\n")
	} else {
		w("\t\tvar done bool\n")
	}
	w("\t\tgo func() {\n\t\t\tmu.Lock()\n\t\t\tx = x*3 + i\n\t\t\tlog = append(log, i)\n")
	if childWrites {
		g.feat("goroutine-writes-loop-variable")
		w("\t\t\tif i %% 2 == 0 {\n\t\t\t\ti = i + %d\n\t\t\t}\n", 1+g.pick("lvinc", 2))
	}
	if join == "cond" {
		w("\t\t\tdone = true\n\t\t\tcond.Signal()\n")
	}
	w("\t\t\tmu.Unlock()\n")
	if join == "waitgroup" {
		w("\t\t\twg.Done()\n")
	}
	w("\t\t}()\n")
	if join == "waitgroup" {
		w("\t\twg.Wait()\n")
	} else {
		w("\t\tmu.Lock()\n\t\tfor !done {\n\t\t\tcond.Wait()\n\t\t}\n\t\tmu.Unlock()\n")
	}
	w("\t\titers = iters + 1\n\t}\n")
	w("\tmu.Lock()\n\tr0 := x\n\tr1 := log\n\tmu.Unlock()\n\treturn r0, iters, uint64(len(r1)), r1\n}\n")
	var feats []string
	for f := range g.feats {
		feats = append(feats, f)
	}
	return &ConcProgram{Src: "package main\n\nimport (\n\t\"sync\"\n)\n\n" + b.String(), Independent: true, Features: feats, Threads: 2}
}

// goCallFrontier: `go f(args)` / `go x.m(args)` on named functions and `go func(n T){…}(args)`, whose operands read cells
// that the parent overwrites right after the go statement. Go evaluates the operands in the
// spawning goroutine, so the result does not depend on the schedule.
func (g *cgen) goCallFrontier() *ConcProgram {
	g.feat("go-call-with-arguments")
	var b strings.Builder
	w := func(format string, a ...any) { fmt.Fprintf(&b, format, a...) }
	form := g.pick("goform", 3) // named function, method, function literal with parameters (seeded change C03-7)
	w("type Rec struct {\n\tv uint64\n}\n\n")
	w("func record(x uint64, out *uint64, wg *sync.WaitGroup) {\n\t*out = x\n\twg.Done()\n}\n\n")
	w("func (r *Rec) put(x uint64, wg *sync.WaitGroup) {\n\tr.v = x\n\twg.Done()\n}\n\n")
	w("func entry0() (uint64, uint64) {\n")
	w("\tvar x uint64 = %d\n\tp := new(uint64)\n\t*p = %d\n\tout := new(uint64)\n\tr := &Rec{}\n\tq := &Rec{v: %d}\n\tsl := make([]uint64, 2)\n\tsl[1] = %d\n\twg := new(sync.WaitGroup)\n\twg.Add(1)\n",
		g.lit("gcx")%100, g.lit("gcp")%100, g.lit("gcq")%100, g.lit("gcs")%100)
	arg := []string{"x", "*p", "x + *p", "q.v", "sl[1]"}[g.pick("gcarg", 5)]
	switch form {
	case 1:
		g.feat("go-method-call")
		w("\tgo r.put(%s, wg)\n", arg)
	case 2:
		g.feat("go-literal-with-parameters")
		w("\tgo func(n uint64) {\n\t\t*out = n\n\t\twg.Done()\n\t}(%s)\n", arg)
	default:
		w("\tgo record(%s, out, wg)\n", arg)
	}
	w("\tx = %d\n\t*p = %d\n\tq.v = %d\n\tsl[1] = %d\n", 200+g.pick("gcx2", 50), 300+g.pick("gcp2", 50), 400+g.pick("gcq2", 50), 500+g.pick("gcs2", 50))
	w("\twg.Wait()\n\treturn *out + r.v, x\n}\n")
	var feats []string
	for f := range g.feats {
		feats = append(feats, f)
	}
	return &ConcProgram{Src: "package main\n\nimport (\n\t\"sync\"\n)\n\n" + b.String(), Independent: true, Features: feats, Threads: 2, MayReject: true}
}

// captureAssignFrontier: a goroutine captures a variable that is a plain value in GooseLang (a :=
// variable or a parameter) and the parent changes it after the go statement, ordered by a mutex the
// parent holds across the go statement. goose rejects such assignments today; a change that starts
// accepting them (as a re-binding) must still let the goroutine see the new value (seeded change
// C03-4). Rejection is fine (MayReject); the result does not depend on the schedule.
func (g *cgen) captureAssignFrontier() *ConcProgram {
	g.feat("parent-assigns-captured-value-variable")
	var b strings.Builder
	w := func(format string, a ...any) { fmt.Fprintf(&b, format, a...) }
	param := g.chance("caparam", 40)
	update := []string{"limit = %d", "limit = limit + %d", "limit += %d"}[g.pick("caupdate", 3)]
	update = fmt.Sprintf(update, 2+g.pick("caval", 50))
	if g.chance("caincdec", 15) {
		update = "limit++"
	}
	body := func(ind string) {
		w(ind + "mu := new(sync.Mutex)\n" + ind + "wg := new(sync.WaitGroup)\n" + ind + "got := new(uint64)\n" + ind + "wg.Add(1)\n")
		w(ind + "mu.Lock()\n")
		w(ind + "go func() {\n" + ind + "\tmu.Lock()\n" + ind + "\t*got = limit\n" + ind + "\tmu.Unlock()\n" + ind + "\twg.Done()\n" + ind + "}()\n")
		w(ind + update + "\n")
		w(ind + "mu.Unlock()\n" + ind + "wg.Wait()\n")
	}
	if param {
		g.feat("captured-parameter")
		w("func run(limit uint64) (uint64, uint64) {\n")
		body("\t")
		w("\treturn *got, limit\n}\n\n")
		w("func entry0() (uint64, uint64) {\n\treturn run(%d)\n}\n", 1+g.pick("cainit", 9))
	} else {
		w("func entry0() (uint64, uint64) {\n\tlimit := uint64(%d)\n", 1+g.pick("cainit", 9))
		body("\t")
		w("\treturn *got, limit\n}\n")
	}
	var feats []string
	for f := range g.feats {
		feats = append(feats, f)
	}
	return &ConcProgram{Src: "package main\n\nimport (\n\t\"sync\"\n)\n\n" + b.String(), Independent: true, Features: feats, Threads: 2, MayReject: true}
}

// returnInGoroutineLoopFrontier: a goroutine whose body contains loops and leaves them with a bare
// `return` (possibly from a nested loop) after publishing a result under the mutex. goose rejects a
// return inside a loop today; a change that starts accepting it must end the whole thread there,
// not only the innermost loop (seeded change C03-6). Rejection is fine (MayReject); the result does
// not depend on the schedule.
func (g *cgen) returnInGoroutineLoopFrontier() *ConcProgram {
	g.feat("return-inside-goroutine-loop")
	var b strings.Builder
	w := func(format string, a ...any) { fmt.Fprintf(&b, format, a...) }
	n := 3 + g.pick("rgn", 2)
	thr := 2 + g.pick("rgthr", 5)
	nested := g.chance("rgnested", 70)
	w("func entry0() (uint64, uint64) {\n")
	w("\tmu := new(sync.Mutex)\n\twg := new(sync.WaitGroup)\n\tvar found uint64\n\tvar visits uint64\n\twg.Add(1)\n")
	w("\tgo func() {\n")
	if nested {
		g.feat("return-from-nested-loop")
		w("\t\tfor i := uint64(0); i < %d; i++ {\n\t\t\tfor j := uint64(0); j < %d; j++ {\n", n, n)
		w("\t\t\t\tmu.Lock()\n\t\t\t\tvisits = visits + 1\n\t\t\t\tmu.Unlock()\n")
		w("\t\t\t\tif i*%d+j >= %d {\n\t\t\t\t\tmu.Lock()\n\t\t\t\t\tfound = i*10 + j\n\t\t\t\t\tmu.Unlock()\n\t\t\t\t\twg.Done()\n\t\t\t\t\treturn\n\t\t\t\t}\n", n, thr)
		w("\t\t\t}\n\t\t}\n")
	} else {
		w("\t\tfor i := uint64(0); i < %d; i++ {\n", n*n)
		w("\t\t\tmu.Lock()\n\t\t\tvisits = visits + 1\n\t\t\tmu.Unlock()\n")
		w("\t\t\tif i >= %d {\n\t\t\t\tmu.Lock()\n\t\t\t\tfound = i + 100\n\t\t\t\tmu.Unlock()\n\t\t\t\twg.Done()\n\t\t\t\treturn\n\t\t\t}\n", thr)
		w("\t\t}\n")
	}
	if g.chance("rgtailloop", 65) {
		// the loop is the goroutine's last statement: the return inside it is the only way out
		// (the threshold is always reached)
		g.feat("goroutine-body-ends-in-loop")
		w("\t}()\n")
	} else {
		w("\t\twg.Done()\n\t}()\n")
	}
	w("\twg.Wait()\n\tmu.Lock()\n\tr0 := found\n\tr1 := visits\n\tmu.Unlock()\n\treturn r0, r1\n}\n")
	var feats []string
	for f := range g.feats {
		feats = append(feats, f)
	}
	return &ConcProgram{Src: "package main\n\nimport (\n\t\"sync\"\n)\n\n" + b.String(), Independent: true, Features: feats, Threads: 2, MayReject: true}
}

// returnInGoroutineIfFrontier: an early `return` from a goroutine's closure at the end of an if
// that is nested 1–3 deep (no loop), holding the mutex; the code after the ifs unlocks and calls
// Done as well. goose rejects every return in a goroutine today; a change that starts accepting
// them must end the thread there, at every nesting depth (seeded change C03-10). Rejection is fine
// (MayReject); the result does not depend on the schedule.
func (g *cgen) returnInGoroutineIfFrontier() *ConcProgram {
	g.feat("return-inside-goroutine-if")
	var b strings.Builder
	w := func(format string, a ...any) { fmt.Fprintf(&b, format, a...) }
	depth := 1 + g.pick("rifdepth", 3)
	g.feat(fmt.Sprintf("return-at-if-depth-%d", depth))
	conds := make([]bool, depth)
	for i := range conds {
		conds[i] = g.chance("rifcond", 70)
	}
	w("func run(a0 bool, a1 bool, a2 bool) (uint64, uint64) {\n")
	w("\tmu := new(sync.Mutex)\n\twg := new(sync.WaitGroup)\n\tv := new(uint64)\n\tvar steps uint64\n\twg.Add(1)\n")
	w("\tgo func() {\n\t\tmu.Lock()\n\t\tsteps = steps + 1\n")
	ind := "\t\t"
	for d := 0; d < depth; d++ {
		w("%sif a%d {\n", ind, d)
		ind += "\t"
		if d+1 < depth && g.chance("rifwork", 50) {
			w("%ssteps = steps + 10\n", ind)
		}
	}
	w("%s*v = 100\n%smu.Unlock()\n%swg.Done()\n%sreturn\n", ind, ind, ind, ind)
	for d := depth - 1; d >= 0; d-- {
		ind = ind[:len(ind)-1]
		w("%s}\n", ind)
		if d > 0 && g.chance("rifafter", 40) {
			w("%ssteps = steps + 100\n", ind)
		}
	}
	w("\t\t*v = *v + 1\n\t\tmu.Unlock()\n\t\twg.Done()\n\t}()\n")
	w("\twg.Wait()\n\tmu.Lock()\n\tr0 := *v\n\tr1 := steps\n\tmu.Unlock()\n\treturn r0, r1\n}\n\n")
	args := []string{"false", "false", "false"}
	for i, c := range conds {
		args[i] = fmt.Sprint(c)
	}
	w("func entry0() (uint64, uint64) {\n\treturn run(%s)\n}\n", strings.Join(args, ", "))
	var feats []string
	for f := range g.feats {
		feats = append(feats, f)
	}
	return &ConcProgram{Src: "package main\n\nimport (\n\t\"sync\"\n)\n\n" + b.String(), Independent: true, Features: feats, Threads: 2, MayReject: true}
}

// onceByCounter: goroutines decide under the mutex who does a piece of work exactly once (an arrival
// counter or a done flag), release the mutex as the first statement of BOTH branches of the if/else,
// and the chosen one works afterwards. The condition reads the protected state, so it must be
// evaluated before the release (seeded change C03-12: the common Unlock hoisted in front of the if).
// The result does not depend on the schedule.
func (g *cgen) onceByCounter() *ConcProgram {
	g.feat("once-by-counter-unlock-in-both-branches")
	var b strings.Builder
	w := func(format string, a ...any) { fmt.Fprintf(&b, format, a...) }
	k := 2
	flag := g.chance("onceflag", 30)
	last := g.chance("oncelast", 60)
	w("func entry0() (uint64, uint64) {\n")
	w("\tmu := new(sync.Mutex)\n\twg := new(sync.WaitGroup)\n\tvar arrived uint64\n\tvar work uint64\n\twg.Add(%d)\n", k)
	if flag {
		w("\tvar done bool\n")
	}
	for i := 0; i < k; i++ {
		w("\tgo func() {\n\t\tmu.Lock()\n\t\tarrived = arrived + 1\n")
		cond := fmt.Sprintf("arrived == %d", map[bool]int{true: k, false: 1}[last])
		if flag {
			g.feat("once-by-flag")
			cond = "!done"
			w("\t\tif %s {\n\t\t\tdone = true\n\t\t\tmu.Unlock()\n", cond)
		} else {
			w("\t\tif %s {\n\t\t\tmu.Unlock()\n", cond)
		}
		w("\t\t\tmu.Lock()\n\t\t\twork = work + %d\n\t\t\tmu.Unlock()\n", 10+i)
		w("\t\t} else {\n\t\t\tmu.Unlock()\n\t\t}\n\t\twg.Done()\n\t}()\n")
	}
	w("\twg.Wait()\n\tmu.Lock()\n\tvar r0 uint64 = work\n\tr1 := arrived\n\tmu.Unlock()\n")
	// which goroutine works depends on the schedule, how OFTEN work happens does not
	w("\tif r0 >= 10 && r0 <= %d {\n\t\tr0 = 1\n\t}\n\treturn r0, r1\n}\n", 10+k-1)
	var feats []string
	for f := range g.feats {
		feats = append(feats, f)
	}
	return &ConcProgram{Src: "package main\n\nimport (\n\t\"sync\"\n)\n\n" + b.String(), Independent: true, Features: feats, Threads: k + 1}
}
