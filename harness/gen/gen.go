package gen

import (
	"fmt"
	"math/bits"
	"strings"

	"pgregory.net/rapid"
)

// Config selects sizes and the exclusion switches of known findings
// (true = the generator avoids the construct; see DESIGN.md §4).
type Config struct {
	Entries, Helpers, Structs int
	MaxStmts, MaxDepth        int

	NoIncDecNarrow bool // T1: x++/x-- only on uint64 variables
	NoLoopVarReuse bool // T7: loop variable names are fresh in the function
	NoBareBlocks   bool // T8: no non-tail { … } blocks
	NoPtrNilAssign bool // T9: never assign nil to a pointer variable
	NoMachine      bool // do not import the machine package (faster type-check)
	NoClosures     bool
	NoShadowing    bool
	NoGenerics     bool
}

// DefaultConfig is the C01 configuration: all known findings excluded.
func DefaultConfig() Config {
	return Config{Entries: 6, Helpers: 4, Structs: 3, MaxStmts: 7, MaxDepth: 3,
		NoIncDecNarrow: true, NoLoopVarReuse: true, NoBareBlocks: true, NoPtrNilAssign: true}
}

type scope struct {
	vars   []*Var
	parent *scope
	params bool // the parameter scope of a function: same Go scope as the body's top-level block
}

func (s *scope) all() []*Var {
	var out []*Var
	seen := map[string]bool{}
	for c := s; c != nil; c = c.parent {
		for i := len(c.vars) - 1; i >= 0; i-- {
			v := c.vars[i]
			if !seen[v.Name] {
				seen[v.Name] = true
				out = append(out, v)
			}
		}
	}
	return out
}

func (s *scope) lookup(name string) *Var {
	for c := s; c != nil; c = c.parent {
		for i := len(c.vars) - 1; i >= 0; i-- {
			if c.vars[i].Name == name {
				return c.vars[i]
			}
		}
	}
	return nil
}

type usage int

const (
	uLocal  usage = iota // no control transfer allowed
	uReturn              // tail of a function body: must end by returning (if the function has results)
	uLoop                // tail of a loop body: break/continue available
)

type fnCtx struct {
	loopDepth int
	lenBound  map[string]int // slices whose length bounds an enclosing three-clause loop
	inClosure bool
	trace     string // entries: name of the hidden trace variable (the last result), see observe
	sig       *FuncSig
	pure      bool
	labels    map[string]bool
	names     map[string]bool // every local name used in this function (for fresh loop variables)
	budget    int
	loopVar   int
}

// G is the generator state for one package.
type G struct {
	t          *rapid.T
	cfg        Config
	prog       *Program
	consts     []*Var
	helpers    []*FuncSig
	methods    map[*StructDef][]*FuncSig
	fn         *fnCtx
	ctr        int
	inKey      bool
	inIdx      bool
	bigOK      bool
	mapAliases map[string]string
	generics   bool
	funcField  bool
}

// mapTypeName returns the spelling of a map type for make(…): usually the type itself, sometimes
// a package-level alias of it (type MA0 = map[K]V), which must allocate the same map (seeded
// change C01-8).
func (g *G) mapTypeName(t *Ty) string {
	if !g.chance("mapalias", 30) {
		return t.Go()
	}
	if g.mapAliases == nil {
		g.mapAliases = map[string]string{}
	}
	key := t.Go()
	if n, ok := g.mapAliases[key]; ok {
		return n
	}
	n := fmt.Sprintf("MA%d", len(g.mapAliases))
	g.mapAliases[key] = n
	g.prog.Consts = append(g.prog.Consts, "type "+n+" = "+key)
	g.label("map-type-alias")
	return n
}

// Uniform draws an index in [0, n) uniformly. rapid.IntRange and
// rapid.SampledFrom are both biased towards small values (the number of random
// bits is itself drawn from a geometric distribution: a "20 %" choice built on
// them fires more than half of the time, and late alternatives of a long list
// are starved); rapid.Bool is a single fair bit, so the index is assembled from
// fair bits with rejection. It still shrinks towards index 0 (all bits false).
func Uniform(t *rapid.T, label string, n int) int {
	if n <= 1 {
		return 0
	}
	bl := bits.Len(uint(n - 1))
	v := 0
	for try := 0; try < 8; try++ {
		v = 0
		for i := 0; i < bl; i++ {
			if fairBit.Draw(t, label) {
				v |= 1 << (bl - 1 - i)
			}
		}
		if v < n {
			return v
		}
	}
	return v % n
}

var fairBit = rapid.Bool()

// Range draws an integer in [lo, hi] uniformly (see Uniform).
func Range(t *rapid.T, label string, lo, hi int) int {
	if hi-lo >= 1<<20 {
		return rapid.IntRange(lo, hi).Draw(t, label)
	}
	return lo + Uniform(t, label, hi-lo+1)
}

// Chance is true with probability pct/100.
func Chance(t *rapid.T, label string, pct int) bool { return Uniform(t, label, 100) < pct }

func (g *G) pick(label string, n int) int { return Uniform(g.t, label, n) }

func (g *G) chance(label string, pct int) bool { return Chance(g.t, label, pct) }

func (g *G) label(l string) {
	if g.fn != nil {
		g.fn.labels[l] = true
	}
	g.prog.Features[l]++
}

// Generate draws one package.
func Generate(t *rapid.T, cfg Config) *Program {
	g := &G{t: t, cfg: cfg, prog: &Program{Imports: map[string]bool{}, Features: map[string]int{}}, methods: map[*StructDef][]*FuncSig{}}
	if !cfg.NoGenerics && g.chance("generics", 40) {
		g.generics = true
		g.prog.Consts = append(g.prog.Consts, genericHelpers)
		g.label("generic-helpers")
	}
	if g.chance("funcfield", 35) {
		g.funcField = true
		g.prog.Consts = append(g.prog.Consts, "type Fh struct {\n\tf func(uint64) uint64\n\tk uint64\n}\n\nfunc fhInc(x uint64) uint64 {\n\treturn x + 1\n}\n\n// fhApply has a function-typed parameter and fhPick a function-typed result.\nfunc fhApply(f func(uint64) uint64, x uint64) uint64 {\n\treturn f(x) + 1\n}\n\nfunc fhPick(c bool, f func(uint64) uint64) func(uint64) uint64 {\n\tif c {\n\t\treturn f\n\t}\n\treturn fhInc\n}")
		g.label("func-field-struct")
	}
	ns := g.pick("nstructs", cfg.Structs+1)
	for i := 0; i < ns; i++ {
		g.genStruct(i)
	}
	nc := g.pick("nconsts", 4)
	for i := 0; i < nc; i++ {
		g.genConst(i)
	}
	for _, s := range g.prog.Structs {
		nm := g.pick("nmethods", 3)
		for i := 0; i < nm; i++ {
			g.genMethod(s, i)
		}
	}
	nh := g.pick("nhelpers", cfg.Helpers+1)
	for i := 0; i < nh; i++ {
		g.genHelper(i)
	}
	ne := 1 + g.pick("nentries", cfg.Entries)
	for i := 0; i < ne; i++ {
		g.genEntry(i)
	}
	return g.prog
}

const genericHelpers = `func gid[T any](x T) T {
	return x
}

func gpick[T any](c bool, a T, b T) T {
	if c {
		return a
	}
	return b
}

func gfirst[T any](s []T, d T) T {
	if uint64(len(s)) == 0 {
		return d
	}
	return s[0]
}

func gswap[A any, B any](a A, b B) (B, A) {
	return b, a
}

func gzero[T any]() T {
	var z T
	return z
}

func gnew[T any](x T) *T {
	p := new(T)
	*p = x
	return p
}

func gstore[T any](p *T, x T) T {
	old := *p
	*p = x
	return old
}`

// genericCall wraps an expression of type t in a call of a generic helper.
func (g *G) genericCall(sc *scope, t *Ty, depth int) string {
	if !g.generics || depth <= 0 {
		return ""
	}
	inst := ""
	if g.chance("explicitinst", 35) {
		inst = "[" + t.Go() + "]"
	}
	switch g.pick("generickind", 3) {
	case 0:
		g.label("generic-call")
		return "gid" + inst + "(" + castLit(t, g.expr(sc, t, depth-1)) + ")"
	case 1:
		g.label("generic-call")
		return "gpick" + inst + "(" + g.boolExpr(sc, depth-1) + ", " + castLit(t, g.expr(sc, t, depth-1)) + ", " + castLit(t, g.expr(sc, t, depth-1)) + ")"
	default:
		vs := g.varsOf(sc, func(v *Var) bool { return v.T.K == KSlice && v.T.Elem.Same(t) })
		if len(vs) == 0 {
			return ""
		}
		g.label("generic-call")
		return "gfirst" + inst + "(" + use(vs[g.pick("gfirstslice", len(vs))]) + ", " + castLit(t, g.expr(sc, t, depth-1)) + ")"
	}
}

// ---- declarations ----

var scalarTys = []*Ty{TU64, TU64, TU64, TU32, TU8, TBool, TStr}

func (g *G) scalarTy(label string) *Ty { return scalarTys[g.pick(label, len(scalarTys))] }

func (g *G) intTy(label string) *Ty { return []*Ty{TU64, TU64, TU32, TU8}[g.pick(label, 4)] }

// anyTy draws a type for variables/params/fields. depth limits nesting.
func (g *G) anyTy(label string, depth int) *Ty {
	n := 10
	if depth <= 0 {
		return g.scalarTy(label + ".s")
	}
	switch g.pick(label, n) {
	case 0, 1, 2, 3:
		return g.scalarTy(label + ".s")
	case 4:
		if len(g.prog.Structs) > 0 {
			return &Ty{K: KStruct, S: g.prog.Structs[g.pick(label+".st", len(g.prog.Structs))]}
		}
	case 5:
		if len(g.prog.Structs) > 0 {
			return PtrTo(&Ty{K: KStruct, S: g.prog.Structs[g.pick(label+".pst", len(g.prog.Structs))]})
		}
		return PtrTo(g.scalarTy(label + ".ps"))
	case 6:
		return PtrTo(g.scalarTy(label + ".ps"))
	case 7:
		return SliceOf(g.scalarTy(label + ".sl"))
	case 8:
		if len(g.prog.Structs) > 0 && g.chance(label+".slst", 40) {
			return SliceOf(&Ty{K: KStruct, S: g.prog.Structs[g.pick(label+".sst", len(g.prog.Structs))]})
		}
		return SliceOf(g.intTy(label + ".sli"))
	case 9:
		k := TU64
		if g.chance(label+".mk", 30) {
			k = TStr
		}
		return MapOf(k, g.scalarTy(label+".mv"))
	}
	return g.scalarTy(label + ".s")
}

func (g *G) genStruct(i int) {
	s := &StructDef{Name: fmt.Sprintf("S%d", i)}
	nf := 1 + g.pick("nfields", 4)
	for j := 0; j < nf; j++ {
		var t *Ty
		switch g.pick("fieldkind", 8) {
		case 0:
			if i > 0 {
				t = &Ty{K: KStruct, S: g.prog.Structs[g.pick("fst", i)]}
			}
		case 1:
			t = PtrTo(g.scalarTy("fps"))
			if i > 0 && g.chance("fpst", 50) {
				t = PtrTo(&Ty{K: KStruct, S: g.prog.Structs[g.pick("fpsti", i)]})
			}
		case 2:
			t = SliceOf(g.intTy("fsl"))
		}
		if t == nil {
			t = g.scalarTy("fscalar")
		}
		s.Fields = append(s.Fields, Field{Name: fmt.Sprintf("f%d", j), T: t})
	}
	g.prog.Structs = append(g.prog.Structs, s)
}

var boundary = map[int][]uint64{
	64: {0, 1, 2, 3, 7, 8, 255, 256, 65535, 1 << 31, 1<<32 - 1, 1 << 32, 1 << 63, 1<<64 - 1, 12345678901234567},
	32: {0, 1, 2, 3, 7, 8, 255, 256, 65535, 1 << 31, 1<<32 - 1, 100000},
	8:  {0, 1, 2, 3, 7, 8, 127, 128, 255, 200},
}

func (g *G) litInt(w int) uint64 {
	b := boundary[w]
	if g.chance("litrandom", 25) {
		return rapid.Uint64().Draw(g.t, "litval") & (uint64(1)<<uint(w) - 1 | -(uint64(w) >> 6))
	}
	return b[g.pick("litidx", len(b))]
}

var strPool = []string{"", "a", "b", "ab", "hello", "x y", "héllo", "0", "abcabc", "tab\\there", "日本", "%", "100%", "%s%d", "%%", "(*", "*)"}

func (g *G) litOf(t *Ty, typed bool) string {
	switch t.K {
	case KU64, KU32, KU8:
		s := fmt.Sprintf("%d", g.litInt(t.Width()))
		if typed {
			return s
		}
		// untyped context: give the literal its type explicitly (byte, not uint8: goose only
		// knows the spelling "byte" for 8-bit variables)
		name := map[Kind]string{KU64: "uint64", KU32: "uint32", KU8: "byte"}[t.K]
		return name + "(" + s + ")"
	case KBool:
		if g.chance("litbool", 50) {
			return "true"
		}
		return "false"
	case KStr:
		return `"` + strPool[g.pick("litstr", len(strPool))] + `"`
	}
	panic("litOf")
}

func (g *G) genConst(i int) {
	t := g.scalarTy("constty")
	name := fmt.Sprintf("c%d", i)
	g.prog.Consts = append(g.prog.Consts, fmt.Sprintf("const %s %s = %s", name, t.Go(), g.litOf(t, true)))
	g.consts = append(g.consts, &Var{Name: name, T: t})
}

func (g *G) newFn(sig *FuncSig, pure bool) {
	g.fn = &fnCtx{sig: sig, pure: pure, labels: map[string]bool{}, names: map[string]bool{}, budget: 60}
	for _, p := range sig.Params {
		g.fn.names[p.Name] = true
	}
}

func (g *G) finishFn(body []string, entry bool) *Func {
	f := &Func{Sig: g.fn.sig, Body: body, Entry: entry, Labels: g.fn.labels}
	g.prog.Funcs = append(g.prog.Funcs, f)
	g.fn = nil
	return f
}

func paramScope(sig *FuncSig) *scope {
	sc := &scope{params: true}
	for _, p := range sig.Params {
		sc.vars = append(sc.vars, p)
	}
	return sc
}

func (g *G) genMethod(s *StructDef, i int) {
	st := &Ty{K: KStruct, S: s}
	ptr := g.chance("ptrrecv", 50)
	sig := &FuncSig{Name: fmt.Sprintf("m%d", i)}
	recv := &Var{Name: "r", T: st, NonNil: true, Used: true}
	if ptr {
		sig.Recv = PtrTo(st)
		recv.T = sig.Recv
	} else {
		sig.Recv = st
	}
	sig.Params = []*Var{recv}
	np := g.pick("mparams", 3)
	for j := 0; j < np; j++ {
		sig.Params = append(sig.Params, &Var{Name: fmt.Sprintf("a%d", j), T: g.scalarTy("mparamty"), Used: true})
	}
	nr := g.pick("mresults", 3)
	for j := 0; j < nr; j++ {
		sig.Results = append(sig.Results, g.scalarTy("mresty"))
	}
	sig.Pure = !ptr || g.chance("mpure", 40)
	g.newFn(sig, sig.Pure)
	body := g.stmts(paramScope(sig), uReturn, 1+g.pick("mstmts", 3), 2)
	g.finishFn(body, false)
	g.methods[s] = append(g.methods[s], sig)
}

func (g *G) genHelper(i int) {
	sig := &FuncSig{Name: fmt.Sprintf("h%d", i)}
	np := 1 + g.pick("hparams", 3)
	for j := 0; j < np; j++ {
		t := g.anyTy("hparamty", 1)
		v := &Var{Name: fmt.Sprintf("p%d", j), T: t, Used: true, NonNil: true}
		if t.K == KSlice {
			v.MinLen = g.pick("hminlen", 4)
		}
		sig.Params = append(sig.Params, v)
	}
	nr := g.pick("hresults", 4)
	for j := 0; j < nr; j++ {
		sig.Results = append(sig.Results, g.resultTy("hresty"))
	}
	sig.Pure = g.chance("hpure", 50)
	if g.chance("hrec", 15) && len(sig.Results) > 0 {
		g.genRecursive(sig)
		return
	}
	g.newFn(sig, sig.Pure)
	hsc := paramScope(sig)
	var pro []string
	if g.chance("hprologue", 60) {
		pro = g.prologue(hsc)
	}
	rest := g.stmts(hsc, uReturn, 1+g.pick("hstmts", g.cfg.MaxStmts), g.cfg.MaxDepth)
	body := append(append(pro, g.unusedFixups(hsc)...), rest...)
	g.finishFn(body, false)
	g.helpers = append(g.helpers, sig)
}

// genRecursive emits a helper that recurses on a decreasing first parameter.
func (g *G) genRecursive(sig *FuncSig) {
	n := &Var{Name: "n", T: TU64, Used: true}
	sig.Params = append([]*Var{n}, sig.Params...)
	sig.MaxRec = 6
	sig.Pure = true
	g.newFn(sig, true)
	g.label("recursion")
	sc := paramScope(sig)
	var body []string
	base := make([]string, len(sig.Results))
	for i, r := range sig.Results {
		base[i] = g.expr(sc, r, 1)
	}
	body = append(body, "if n == 0 {", "\treturn "+strings.Join(base, ", "), "}")
	args := []string{"n - 1"}
	for _, p := range sig.Params[1:] {
		args = append(args, g.argFor(sc, p, 1))
	}
	call := sig.Name + "(" + strings.Join(args, ", ") + ")"
	if len(sig.Results) == 1 && sig.Results[0].IsInt() && g.chance("recacc", 60) {
		body = append(body, "return "+g.nonConstOr(sc, sig.Results[0], 1)+" + "+call)
	} else {
		body = append(body, "return "+call)
	}
	g.finishFn(body, false)
	g.helpers = append(g.helpers, sig)
}

// prologue declares a few seed variables so that later expressions have
// non-constant material to work with (otherwise most conditions are constant
// and most of the generated code is dead).
func (g *G) prologue(sc *scope) []string {
	var out []string
	n := 2 + g.pick("pron", 4)
	for i := 0; i < n; i++ {
		name := g.freshName(sc, "pro")
		switch g.pick("prokind", 12) {
		case 0, 1, 2:
			t := g.intTy("proint")
			v := &Var{Name: name, T: t}
			out = append(out, name+" := "+g.litOf(t, false))
			g.declare(sc, v)
		case 3, 4, 5:
			t := g.intTy("provarint")
			out = append(out, "var "+name+" "+t.Go()+" = "+g.litOf(t, true))
			g.declare(sc, &Var{Name: name, T: t, Mutable: true})
		case 6:
			ln := []int{8, 12, 16}[g.pick("probuf", 3)]
			out = append(out, fmt.Sprintf("%s := make([]byte, %d)", name, ln))
			g.declare(sc, &Var{Name: name, T: SliceOf(TU8), MinLen: ln, CapKnown: true})
		case 7:
			if g.chance("protable", 35) {
				// a 256-element table: the only slices a byte-typed index can address directly
				et := g.intTy("protablety")
				g.label("table-256")
				out = append(out, fmt.Sprintf("%s := make([]%s, 256)", name, et.Go()))
				mul := []int{1, 3, 7}[g.pick("protablemul", 3)]
				conv := map[Kind]string{KU64: "%s", KU32: "uint32(%s)", KU8: "byte(%s)"}[et.K]
				out = append(out, fmt.Sprintf("for %si := uint64(0); %si < 256; %si++ {\n\t%s[%si] = %s\n}", name, name, name, name, name, fmt.Sprintf(conv, fmt.Sprintf("%si*%d + 1", name, mul))))
				g.declare(sc, &Var{Name: name, T: SliceOf(et), MinLen: 256, Used: true, Big: true})
				break
			}
			t := SliceOf(g.intTy("prosl"))
			ln := 1 + g.pick("prosllen", 4)
			out = append(out, fmt.Sprintf("var %s %s = make(%s, %d)", name, t.Go(), t.Go(), ln))
			g.declare(sc, &Var{Name: name, T: t, Mutable: true, MinLen: ln})
		case 8:
			t := MapOf(TU64, g.intTy("promap"))
			out = append(out, fmt.Sprintf("%s := make(%s)", name, g.mapTypeName(t)))
			g.declare(sc, &Var{Name: name, T: t, NonNil: true})
		case 9, 10:
			if len(g.prog.Structs) > 0 {
				st := &Ty{K: KStruct, S: g.prog.Structs[g.pick("prost", len(g.prog.Structs))]}
				if g.chance("proptr", 50) {
					out = append(out, name+" := &"+g.structLit(sc, st, 1))
					g.declare(sc, &Var{Name: name, T: PtrTo(st), NonNil: true})
				} else {
					out = append(out, "var "+name+" "+st.Go()+" = "+g.structLit(sc, st, 1))
					g.declare(sc, &Var{Name: name, T: st, Mutable: true})
				}
				break
			}
			fallthrough
		default:
			if g.funcField && g.chance("profh", 60) {
				fn := "fhInc"
				if g.chance("fhclosure", 60) {
					fn = fmt.Sprintf("func(fa uint64) uint64 {\n\t\treturn fa %s %d\n\t}", []string{"+", "*", "^", "-"}[g.pick("fhop", 4)], 1+g.pick("fhlit", 9))
				}
				lit := fmt.Sprintf("Fh{f: %s, k: %s}", fn, g.litOf(TU64, true))
				if g.chance("fhptr", 50) {
					lit = "&" + lit
				}
				out = append(out, name+" := "+lit)
				g.declare(sc, &Var{Name: name, T: &Ty{K: -2}, FuncHolder: true})
				g.label("func-field-value")
				break
			}
			out = append(out, "var "+name+" bool = "+g.litOf(TBool, true))
			g.declare(sc, &Var{Name: name, T: TBool, Mutable: true})
		}
	}
	return out
}

func (g *G) resultTy(label string) *Ty {
	return g.anyTy(label, 1)
}

func (g *G) genEntry(i int) {
	sig := &FuncSig{Name: fmt.Sprintf("entry%d", i)}
	nr := 1 + g.pick("eresults", 4)
	for j := 0; j < nr; j++ {
		sig.Results = append(sig.Results, g.resultTy("eresty"))
	}
	traced := g.chance("traced", 75)
	if traced {
		sig.Results = append(sig.Results, TU64)
	}
	g.newFn(sig, false)
	top := &scope{params: true}
	var pro []string
	if traced {
		// hidden from the scope: only observe() and the return statements touch it
		g.fn.trace = "zt"
		g.fn.names["zt"] = true
		g.label("traced-entry")
		pro = append(pro, "var zt uint64 = 0", "_ = zt")
	}
	pro = append(pro, g.prologue(top)...)
	rest := g.stmts(top, uReturn, 2+g.pick("estmts", g.cfg.MaxStmts), g.cfg.MaxDepth)
	body := append(append(pro, g.unusedFixups(top)...), rest...)
	g.finishFn(body, true)
}

// ---- names ----

var localNames = []string{"x", "y", "z", "a", "b", "v", "w", "k", "n", "t", "acc", "tmp", "val", "ok", "s", "m", "p", "q", "é", "ñ1", "变量", "Skip", "ref", "expr", "in_", "x_y", "X"}

func (g *G) freshName(sc *scope, label string, avoid ...string) string {
	for tries := 0; tries < 6; tries++ {
		n := g.freshName1(sc, label)
		clash := false
		for _, a := range avoid {
			if a == n {
				clash = true
			}
		}
		if !clash {
			return n
		}
	}
	g.ctr++
	n := fmt.Sprintf("u%d", g.ctr)
	g.fn.names[n] = true
	return n
}

func (g *G) freshName1(sc *scope, label string) string {
	// mostly fresh names; sometimes (in an inner scope) shadow an outer one
	if !g.cfg.NoShadowing && sc.parent != nil && g.chance(label+".shadow", 35) {
		outer := sc.parent.all()
		var cands []*Var
		for _, v := range outer {
			if sc.lookupLocal(v.Name) == nil && !v.LoopVar && v.Closure == nil && !(sc.parent.params && sc.parent.lookupLocal(v.Name) != nil) {
				cands = append(cands, v)
			}
		}
		if len(cands) > 0 {
			g.label("shadowing")
			return cands[g.pick(label+".shadowidx", len(cands))].Name
		}
	}
	for tries := 0; tries < 4; tries++ {
		n := localNames[g.pick(label+".name", len(localNames))]
		if sc.lookup(n) == nil && !g.fn.names[n] && !g.isGlobalName(n) {
			g.fn.names[n] = true
			return n
		}
	}
	g.ctr++
	n := fmt.Sprintf("v%d", g.ctr)
	g.fn.names[n] = true
	return n
}

func (s *scope) lookupLocal(name string) *Var {
	for _, v := range s.vars {
		if v.Name == name {
			return v
		}
	}
	return nil
}

func (g *G) isGlobalName(n string) bool {
	for _, c := range g.consts {
		if c.Name == n {
			return true
		}
	}
	return false
}

// ---- expressions ----

func (g *G) varsOf(sc *scope, pred func(*Var) bool) []*Var {
	var out []*Var
	for _, v := range sc.all() {
		// a 256-element table is only indexed (and measured): it is never aliased, passed on,
		// ranged over or used as a loop bound, so that loop trip counts stay small
		if v.Big && !g.bigOK {
			continue
		}
		if pred(v) {
			out = append(out, v)
		}
	}
	return out
}

func use(v *Var) string {
	v.Used = true
	return v.Name
}

// nonConst returns a non-constant pure expression of integer/scalar type t,
// or "" if none can be built from the scope.
func (g *G) nonConst(sc *scope, t *Ty, depth int) string {
	type alt func() string
	var alts []alt
	for _, v := range g.varsOf(sc, func(v *Var) bool { return v.T.Same(t) && v.Closure == nil }) {
		v := v
		alts = append(alts, func() string { return use(v) })
	}
	// struct fields
	for _, v := range g.varsOf(sc, func(v *Var) bool {
		return v.Closure == nil && (v.T.K == KStruct || (v.T.K == KPtr && v.T.Elem.K == KStruct && v.NonNil))
	}) {
		v := v
		sd := v.T.S
		if v.T.K == KPtr {
			sd = v.T.Elem.S
		}
		for _, f := range sd.Fields {
			f := f
			if f.T.Same(t) {
				alts = append(alts, func() string { g.label("field-read"); return use(v) + "." + f.Name })
			}
		}
	}
	// deref
	for _, v := range g.varsOf(sc, func(v *Var) bool { return v.T.K == KPtr && v.NonNil && v.T.Elem.Same(t) }) {
		v := v
		alts = append(alts, func() string { g.label("deref"); return "*" + use(v) })
	}
	// slice index
	g.bigOK = true
	idxVars := g.varsOf(sc, func(v *Var) bool { return v.T.K == KSlice && v.MinLen > 0 && v.T.Elem.Same(t) })
	g.bigOK = false
	for _, v := range idxVars {
		v := v
		alts = append(alts, func() string {
			g.label("slice-index")
			return fmt.Sprintf("%s[%s]", use(v), g.idxExpr(sc, "idx", v.MinLen))
		})
	}
	// map lookup (not inside a map key: keeps generation well-founded)
	for _, v := range g.varsOf(sc, func(v *Var) bool { return !g.inKey && v.T.K == KMap && v.NonNil && v.T.Elem.Same(t) }) {
		v := v
		alts = append(alts, func() string {
			g.label("map-get")
			g.inKey = true
			k := g.expr(sc, v.T.Key, 0)
			g.inKey = false
			return fmt.Sprintf("%s[%s]", use(v), k)
		})
	}
	if t.K == KU64 {
		for _, v := range g.varsOf(sc, func(v *Var) bool { return v.T.K == KSlice || v.T.K == KStr || (v.T.K == KMap && v.NonNil) }) {
			v := v
			alts = append(alts, func() string { g.label("len"); return "uint64(len(" + use(v) + "))" })
		}
		if !g.cfg.NoMachine {
			for _, v := range g.varsOf(sc, func(v *Var) bool { return v.T.K == KSlice && v.T.Elem.K == KU8 && v.MinLen >= 8 }) {
				v := v
				alts = append(alts, func() string {
					g.label("uint64get")
					g.prog.Imports["github.com/goose-lang/goose/machine"] = true
					return "machine.UInt64Get(" + use(v) + ")"
				})
			}
		}
	}
	if t.K == KU64 && depth >= 0 && !g.inKey && g.funcField {
		// function values as arguments and results: a named function, the field of a holder, or
		// a pure closure variable of the same signature
		fvals := []string{"fhInc"}
		for _, v := range g.varsOf(sc, func(v *Var) bool { return v.FuncHolder }) {
			fvals = append(fvals, v.Name+".f")
		}
		for _, v := range g.varsOf(sc, func(v *Var) bool {
			return v.Closure != nil && v.Closure.Pure && len(v.Closure.Params) == 1 && v.Closure.Params[0].T.K == KU64 && len(v.Closure.Results) == 1 && v.Closure.Results[0].K == KU64
		}) {
			fvals = append(fvals, v.Name)
		}
		alts = append(alts, func() string {
			g.label("func-typed-argument")
			fv := fvals[g.pick("fval", len(fvals))]
			for _, v := range sc.all() {
				if v.Name == fv || v.Name+".f" == fv {
					v.Used = true
				}
			}
			g.inKey = true
			a := g.expr(sc, TU64, 0)
			g.inKey = false
			if g.chance("fhpick", 35) {
				g.label("func-typed-result")
				return "fhApply(fhPick(" + g.boolExpr(sc, 0) + ", " + fv + "), " + a + ")"
			}
			return "fhApply(" + fv + ", " + a + ")"
		})
	}
	if t.K == KU64 && depth >= 0 && !g.inKey {
		for _, v := range g.varsOf(sc, func(v *Var) bool { return v.FuncHolder }) {
			v := v
			alts = append(alts, func() string {
				g.label("call-through-struct-field")
				if g.chance("fhk", 30) {
					return use(v) + ".k"
				}
				g.inKey = true
				a := g.expr(sc, TU64, 0)
				g.inKey = false
				return use(v) + ".f(" + a + ")"
			})
		}
	}
	if t.K == KU32 && !g.cfg.NoMachine {
		for _, v := range g.varsOf(sc, func(v *Var) bool { return v.T.K == KSlice && v.T.Elem.K == KU8 && v.MinLen >= 4 }) {
			v := v
			alts = append(alts, func() string {
				g.label("uint32get")
				g.prog.Imports["github.com/goose-lang/goose/machine"] = true
				return "machine.UInt32Get(" + use(v) + ")"
			})
		}
	}
	if len(alts) == 0 {
		return ""
	}
	return alts[g.pick("nonconst", len(alts))]()
}

// nonConstOr returns a non-constant expression or, failing that, any expression.
func (g *G) nonConstOr(sc *scope, t *Ty, depth int) string {
	if s := g.nonConst(sc, t, depth); s != "" {
		return s
	}
	return g.exprTyped(sc, t, depth, false)
}

// expr builds a pure expression of type t in a typed context.
func (g *G) expr(sc *scope, t *Ty, depth int) string { return g.exprTyped(sc, t, depth, true) }

func (g *G) exprTyped(sc *scope, t *Ty, depth int, typed bool) string {
	g.fn.budget--
	if g.fn.budget < 0 {
		depth = 0
	}
	if (t.Scalar() || t.K == KStruct) && depth > 0 && g.generics && g.chance("usegeneric", 8) {
		if s := g.genericCall(sc, t, depth); s != "" {
			return s
		}
	}
	switch t.K {
	case KU64, KU32, KU8:
		return g.intExpr(sc, t, depth, typed)
	case KBool:
		return g.boolExpr(sc, depth)
	case KStr:
		return g.strExpr(sc, depth)
	case KStruct:
		return g.structExpr(sc, t, depth)
	case KPtr:
		return g.ptrExpr(sc, t, depth)
	case KSlice:
		s, _ := g.sliceExpr(sc, t, depth, 0)
		return s
	case KMap:
		for _, v := range g.varsOf(sc, func(v *Var) bool { return v.T.Same(t) && v.NonNil }) {
			if g.chance("mapvar", 60) {
				return use(v)
			}
		}
		g.label("make-map")
		return "make(" + g.mapTypeName(t) + ")"
	}
	panic("expr")
}

// idxExpr returns an index expression whose value is in [0, n) (n >= 1). Besides literals it
// produces the operand kinds goose has to convert: uint64 / uint32 / byte typed arithmetic reduced
// modulo n, an explicit widening conversion, and — on tables of at least 256 elements — a bare
// narrowing conversion byte(e) of a wider value (seeded change C01-3: forms × operand kinds).
func (g *G) idxExpr(sc *scope, label string, n int) string {
	if n <= 1 {
		return "0"
	}
	if g.inIdx || g.inKey || g.chance(label+".lit", 45) {
		return fmt.Sprintf("%d", g.pick(label, n))
	}
	g.inIdx = true
	defer func() { g.inIdx = false }()
	forms := []string{"u64", "u32", "widen"}
	if n <= 255 {
		forms = append(forms, "u8")
	}
	if n >= 256 {
		forms = append(forms, "narrow", "narrow", "narrow")
	}
	switch forms[g.pick(label+".form", len(forms))] {
	case "u64":
		g.label("index-dynamic")
		return fmt.Sprintf("%s %% %d", paren(g.nonConstOr(sc, TU64, 1)), n)
	case "u32":
		g.label("index-dynamic-u32")
		return fmt.Sprintf("%s %% %d", paren(g.nonConstOr(sc, TU32, 1)), n)
	case "u8":
		g.label("index-dynamic-u8")
		return fmt.Sprintf("%s %% %d", paren(g.nonConstOr(sc, TU8, 1)), n)
	case "widen":
		g.label("index-dynamic-widened")
		return fmt.Sprintf("uint64(%s) %% %d", g.nonConstOr(sc, TU32, 1), n)
	default:
		from := []*Ty{TU64, TU64, TU32}[g.pick(label+".from", 3)]
		if e := g.nonConst(sc, from, 1); e != "" {
			g.label("index-narrowing-conversion")
			return []string{"byte", "uint8"}[g.pick(label+".sp", 2)] + "(" + e + ")"
		}
		return fmt.Sprintf("%d", g.pick(label, n))
	}
}

var arithOps = []string{"+", "-", "*", "/", "%", "&", "|", "^", "<<", ">>"}

func (g *G) intExpr(sc *scope, t *Ty, depth int, typed bool) string {
	if depth <= 0 {
		if g.chance("leafvar", 70) {
			if s := g.nonConst(sc, t, 0); s != "" {
				return s
			}
		}
		for _, c := range g.consts {
			if c.T.Same(t) && g.chance("leafconst", 30) {
				g.label("const-use")
				return c.Name
			}
		}
		return g.litOf(t, typed)
	}
	switch g.pick("intexpr", 10) {
	case 0, 1, 2, 3: // binary operator: left operand non-constant
		l := g.nonConst(sc, t, depth-1)
		if l == "" {
			return g.intExpr(sc, t, 0, typed)
		}
		if depth > 1 && g.chance("nestl", 40) {
			// keep l (non-constant) in the expression so that the whole stays non-constant
			l = "(" + l + " ^ (" + g.intExpr(sc, t, depth-1, true) + "))"
		}
		op := arithOps[g.pick("arith", len(arithOps))]
		g.label("arith")
		switch op {
		case "/", "%":
			r := g.intExpr(sc, t, depth-1, true)
			if isLiteral(r) {
				if isZeroLit(r) {
					r = "3"
				}
				return fmt.Sprintf("%s %s %s", l, op, r)
			}
			return fmt.Sprintf("%s %s (%s | 1)", l, op, paren(r))
		case "<<", ">>":
			g.label("shift")
			// shift count: any unsigned width, any magnitude
			ct := g.intTy("shiftty")
			var r string
			if g.chance("shiftlit", 50) {
				r = fmt.Sprintf("%d", []uint64{0, 1, 3, 7, 8, 31, 32, 33, 63, 64, 65, 200}[g.pick("shiftn", 12)])
			} else {
				r = g.nonConst(sc, ct, 0)
				if r == "" {
					r = "5"
				}
			}
			return fmt.Sprintf("%s %s %s", paren(l), op, paren(r))
		}
		r := g.intExpr(sc, t, depth-1, true)
		return fmt.Sprintf("%s %s %s", paren(l), op, paren(r))
	case 4: // conversion from another width (operand non-constant), possibly through a third one
		from := g.intTy("convfrom")
		// narrower widths than both ends: the "sandwich" T(M(e)) is the only chain in which the
		// intermediate conversion changes the value (seeded change C01-4)
		var narrower []*Ty
		for _, m := range []*Ty{TU32, TU8} {
			if m.Width() < t.Width() && m.Width() < from.Width() {
				narrower = append(narrower, m)
			}
		}
		if from.Same(t) && len(narrower) == 0 {
			break
		}
		inner := g.nonConst(sc, from, depth-1)
		if inner == "" {
			break
		}
		if depth > 1 && g.chance("convnest", 40) {
			inner = fmt.Sprintf("%s + %s", inner, g.intExpr(sc, from, depth-2, true))
		}
		g.label("conversion")
		if from.Same(t) || g.chance("convchain", 40) {
			mid := g.intTy("convmid")
			if len(narrower) > 0 && (from.Same(t) || g.chance("convsandwich", 60)) {
				mid = narrower[g.pick("convnarrow", len(narrower))]
				g.label("conversion-sandwich")
			}
			if !mid.Same(t) {
				g.label("conversion-chain")
				inner = map[Kind]string{KU64: "uint64", KU32: "uint32", KU8: []string{"byte", "uint8"}[g.pick("convmidsp", 2)]}[mid.K] + "(" + inner + ")"
			}
		}
		if t.K == KU8 {
			// the expression may initialise a variable, whose type goose accepts only under the
			// spelling byte: the outermost conversion is byte(…), alone or around uint8(…)
			if g.chance("convbytesp", 50) {
				return "byte(" + inner + ")"
			}
			return "byte(uint8(" + inner + "))"
		}
		name := map[Kind]string{KU64: "uint64", KU32: "uint32"}[t.K]
		return name + "(" + inner + ")"
	case 5: // complement
		inner := g.nonConst(sc, t, depth-1)
		if inner != "" {
			g.label("complement")
			return "^" + paren(inner)
		}
	case 6: // pure call
		if s := g.callExpr(sc, t, depth, true); s != "" {
			return s
		}
	case 7:
		if s := g.nonConst(sc, t, depth); s != "" {
			return s
		}
	}
	return g.intExpr(sc, t, 0, typed)
}

func isLiteral(s string) bool {
	if s == "" {
		return false
	}
	for _, c := range s {
		if c < '0' || c > '9' {
			return false
		}
	}
	return true
}

func isZeroLit(s string) bool { return strings.Trim(s, "0") == "" }

func paren(s string) string {
	simple := true
	for _, c := range s {
		if !(c == '_' || c == '.' || (c >= '0' && c <= '9') || (c >= 'a' && c <= 'z') || (c >= 'A' && c <= 'Z')) {
			simple = false
			break
		}
	}
	if simple {
		return s
	}
	if strings.HasPrefix(s, "(") && strings.HasSuffix(s, ")") && balancedOuter(s) {
		return s
	}
	return "(" + s + ")"
}

func balancedOuter(s string) bool {
	d := 0
	for i, c := range s {
		if c == '(' {
			d++
		} else if c == ')' {
			d--
			if d == 0 && i != len(s)-1 {
				return false
			}
		}
	}
	return true
}

func (g *G) boolExpr(sc *scope, depth int) string {
	if depth <= 0 {
		if g.chance("boolleafvar", 50) {
			if s := g.nonConst(sc, TBool, 0); s != "" {
				return s
			}
		}
		if g.chance("boolleafcmp", 85) {
			t := g.intTy("leafcmpty")
			if l := g.nonConst(sc, t, 0); l != "" {
				op := []string{"==", "!=", "<", ">", "<=", ">="}[g.pick("leafcmpop", 6)]
				return fmt.Sprintf("%s %s %s", paren(l), op, g.litOf(t, true))
			}
			if l := g.nonConst(sc, TU64, 0); l != "" {
				return fmt.Sprintf("%s %s %s", paren(l), []string{"<", ">=", "!="}[g.pick("leafcmpop2", 3)], g.litOf(TU64, true))
			}
		}
		return g.litOf(TBool, true)
	}
	switch g.pick("boolexpr", 13) {
	case 12: // a length minus a constant, compared: uint64 arithmetic wraps on short slices (seeded change C01-35)
		ss := g.varsOf(sc, func(v *Var) bool { return v.T.K == KSlice && !v.Big })
		if len(ss) > 0 && !g.inIdx && !g.inKey {
			v := ss[g.pick("lenminusvar", len(ss))]
			k := 1 + g.pick("lenminusk", 4)
			op := []string{"<", "<=", ">", ">="}[g.pick("lenminusop", 4)]
			rhs := g.litOf(TU64, true)
			if g.chance("lenminusrhsvar", 50) {
				if e := g.nonConst(sc, TU64, 0); e != "" {
					rhs = paren(e)
				}
			}
			g.label("length-minus-constant-compared")
			fn := []string{"len", "len", "cap"}[g.pick("lenminusfn", 3)]
			if fn == "cap" && !v.CapKnown {
				fn = "len"
			}
			if g.chance("lenminusflip", 30) {
				return fmt.Sprintf("%s %s (uint64(%s(%s)) - %d)", rhs, op, fn, use(v), k)
			}
			return fmt.Sprintf("(uint64(%s(%s)) - %d) %s %s", fn, use(v), k, op, rhs)
		}
	case 11: // comparison of two NARROWING conversions whose operands agree below the target width
		// and differ above it (truncation preserves neither equality nor order; seeded change C01-28)
		if l := g.nonConst(sc, TU64, 0); l != "" && !g.inIdx && !g.inKey {
			w := []string{"uint32", "byte", "uint8"}[g.pick("narrowty", 3)]
			bits := map[string]uint{"uint32": 32, "byte": 8, "uint8": 8}[w]
			k := uint64(1+g.pick("narrowk", 3)) << bits
			d := uint64(g.pick("narrowd", 3)) // 0: equal after truncation, else ordered the other way round
			op := []string{"==", "!=", "<", ">", "<=", ">="}[g.pick("narrowop", 6)]
			g.label("comparison-of-narrowing-conversions")
			// (l | k) has a bit above the width set, (l & ^k) + d has it clear
			return fmt.Sprintf("%s(%s | %d) %s %s((%s & %d) + %d)", w, paren(l), k, op, w, paren(l), ^k, d)
		}
	case 8: // guarded slice access: the right operand is only defined when the left one holds
		ss := g.varsOf(sc, func(v *Var) bool { return v.T.K == KSlice && v.T.Elem.IsInt() })
		if len(ss) > 0 && !g.inIdx && !g.inKey {
			v := ss[g.pick("guardslice", len(ss))]
			var e string
			if g.chance("guardlit", 30) {
				e = fmt.Sprintf("%d", g.pick("guardidx", 9))
			} else {
				g.inIdx = true
				e = g.nonConstOr(sc, TU64, 0)
				g.inIdx = false
			}
			g.label("short-circuit-guards-index")
			cmp := fmt.Sprintf("%s[%s] %s %s", use(v), e, []string{"==", "!=", "<", ">="}[g.pick("guardop", 4)], g.litOf(v.T.Elem, true))
			if g.chance("guardor", 40) {
				return fmt.Sprintf("(%s >= uint64(len(%s))) || (%s)", paren(e), v.Name, cmp)
			}
			return fmt.Sprintf("(%s < uint64(len(%s))) && (%s)", paren(e), v.Name, cmp)
		}
	case 9: // guarded dereference of a pointer that may be nil
		ps := g.varsOf(sc, func(v *Var) bool { return v.T.K == KPtr && v.T.Elem.IsInt() })
		if len(ps) > 0 {
			v := ps[g.pick("guardptr", len(ps))]
			g.label("short-circuit-guards-deref")
			cmp := fmt.Sprintf("*%s %s %s", use(v), []string{"==", "!=", "<", ">="}[g.pick("guardpop", 4)], g.litOf(v.T.Elem, true))
			if g.chance("guardpor", 40) {
				return fmt.Sprintf("(%s == nil) || (%s)", v.Name, cmp)
			}
			return fmt.Sprintf("(%s != nil) && (%s)", v.Name, cmp)
		}
	case 10: // effectful right operand: runs only if the left operand does not decide the result
		if !g.fn.pure && !g.inKey && depth > 0 {
			c := g.callExpr(sc, TBool, depth, false)
			if c == "" {
				// a call with an integer result, compared with a literal
				it := g.intTy("effcallty")
				if ic := g.callExpr(sc, it, depth, false); ic != "" {
					c = ic + " " + []string{"!=", "<", ">="}[g.pick("effcmp", 3)] + " " + g.litOf(it, true)
				}
			}
			if c != "" {
				op := []string{"&&", "||"}[g.pick("effop", 2)]
				if g.chance("effleft", 40) {
					// effectful LEFT operand, constant right operand: the value may be decided by the
					// constant, the call still runs (seeded change C01-13)
					g.label("short-circuit-effectful-left-operand")
					r := []string{"true", "false"}[g.pick("effconst", 2)]
					for _, cst := range g.consts {
						if cst.T.K == KBool && g.chance("effconstname", 50) {
							r = cst.Name
						}
					}
					return fmt.Sprintf("%s %s %s", paren(c), op, r)
				}
				g.label("short-circuit-effectful-right-operand")
				l := g.boolExpr(sc, 0)
				return fmt.Sprintf("%s %s %s", paren(l), op, paren(c))
			}
		}
	case 0, 1, 2: // integer comparison
		t := g.intTy("cmpty")
		l := g.nonConst(sc, t, depth-1)
		if l == "" {
			break
		}
		g.label("int-compare")
		op := []string{"==", "!=", "<", ">", "<=", ">="}[g.pick("cmpop", 6)]
		return fmt.Sprintf("%s %s %s", paren(l), op, paren(g.intExpr(sc, t, depth-1, true)))
	case 3: // string / bool equality
		t := []*Ty{TStr, TBool}[g.pick("eqty", 2)]
		l := g.nonConst(sc, t, depth-1)
		if l == "" {
			break
		}
		g.label("eq-compare")
		op := []string{"==", "!="}[g.pick("eqop", 2)]
		return fmt.Sprintf("%s %s %s", paren(l), op, paren(g.expr(sc, t, depth-1)))
	case 4:
		g.label("not")
		return "!" + paren(g.boolExpr(sc, depth-1))
	case 5, 6:
		g.label("logic")
		op := []string{"&&", "||"}[g.pick("logop", 2)]
		return fmt.Sprintf("%s %s %s", paren(g.boolExpr(sc, depth-1)), op, paren(g.boolExpr(sc, depth-1)))
	case 7:
		ps := g.varsOf(sc, func(v *Var) bool { return v.T.K == KPtr })
		if len(ps) > 0 {
			g.label("nil-compare")
			return use(ps[g.pick("nilp", len(ps))]) + []string{" == nil", " != nil"}[g.pick("nilop", 2)]
		}
	}
	return g.boolExpr(sc, 0)
}

func (g *G) strExpr(sc *scope, depth int) string {
	if depth > 0 {
		switch g.pick("strexpr", 6) {
		case 0, 1:
			l := g.nonConst(sc, TStr, depth-1)
			if l != "" {
				g.label("string-concat")
				return l + " + " + paren(g.strExpr(sc, depth-1))
			}
		case 2:
			if !g.cfg.NoMachine {
				if x := g.nonConst(sc, TU64, depth-1); x != "" {
					g.label("uint64-to-string")
					g.prog.Imports["github.com/goose-lang/goose/machine"] = true
					return "machine.UInt64ToString(" + x + ")"
				}
			}
		case 3:
			bs := g.varsOf(sc, func(v *Var) bool { return v.T.K == KSlice && v.T.Elem.K == KU8 })
			if len(bs) > 0 {
				g.label("string-from-bytes")
				return "string(" + use(bs[g.pick("strb", len(bs))]) + ")"
			}
		case 4:
			if s := g.callExpr(sc, TStr, depth, true); s != "" {
				return s
			}
		}
	}
	if g.chance("strleafvar", 60) {
		if s := g.nonConst(sc, TStr, 0); s != "" {
			return s
		}
	}
	return g.litOf(TStr, true)
}

func (g *G) structLit(sc *scope, t *Ty, depth int) string {
	var parts []string
	for _, f := range t.S.Fields {
		if g.chance("fieldgiven", 70) {
			d := depth - 1
			if d < 0 {
				d = 0
			}
			if f.T.K == KU64 && g.chance("fieldconstexpr", 20) {
				// a constant operator expression (only at uint64: at narrower widths it is the known
				// finding untypedConstExpr); its width is that of the NAMED field, wherever it
				// stands in the literal (seeded change C01-23)
				g.label("struct-literal-constant-expression")
				parts = append(parts, f.Name+": "+[]string{"8 * 512", "(1 << 12) + 3", "(3 + 4) * 1000", "1 << 40", "70000 - 1"}[g.pick("fieldconst", 5)])
				continue
			}
			parts = append(parts, f.Name+": "+g.expr(sc, f.T, d))
		}
	}
	if len(parts) < len(t.S.Fields) {
		g.label("incomplete-struct-literal")
	}
	if len(parts) >= 2 && g.chance("fieldshuffle", 40) {
		// keyed fields may come in any order
		g.label("struct-literal-reordered")
		for i := len(parts) - 1; i > 0; i-- {
			j := g.pick("fieldperm", i+1)
			parts[i], parts[j] = parts[j], parts[i]
		}
	}
	g.label("struct-literal")
	return t.S.Name + "{" + strings.Join(parts, ", ") + "}"
}

func (g *G) structExpr(sc *scope, t *Ty, depth int) string {
	if g.chance("structvar", 50) {
		if s := g.nonConst(sc, t, depth); s != "" {
			return s
		}
	}
	return g.structLit(sc, t, depth)
}

func (g *G) ptrExpr(sc *scope, t *Ty, depth int) string {
	vs := g.varsOf(sc, func(v *Var) bool { return v.T.Same(t) && v.NonNil })
	if len(vs) > 0 && g.chance("ptrvar", 45) {
		return use(vs[g.pick("ptrvaridx", len(vs))])
	}
	// address of a var-declared local of the element type
	ms := g.varsOf(sc, func(v *Var) bool { return v.Mutable && v.T.Same(t.Elem) && !v.LoopVar })
	if len(ms) > 0 && g.chance("addrof", 35) {
		g.label("address-of-local")
		return "&" + use(ms[g.pick("addrofidx", len(ms))])
	}
	// pointer to a field of a var-declared struct / of a struct behind a pointer, or to a slice element
	if g.chance("interiorptr", 30) {
		type alt func() string
		var alts []alt
		for _, v := range g.varsOf(sc, func(v *Var) bool {
			return v.Closure == nil && ((v.T.K == KStruct && v.Mutable) || (v.T.K == KPtr && v.T.Elem.K == KStruct && v.NonNil))
		}) {
			v := v
			sd := v.T.S
			if v.T.K == KPtr {
				sd = v.T.Elem.S
			}
			for _, f := range sd.Fields {
				f := f
				if f.T.Same(t.Elem) {
					alts = append(alts, func() string { g.label("field-pointer"); return "&" + use(v) + "." + f.Name })
				}
			}
		}
		for _, v := range g.varsOf(sc, func(v *Var) bool { return v.T.K == KSlice && v.MinLen > 0 && v.T.Elem.Same(t.Elem) }) {
			v := v
			alts = append(alts, func() string {
				g.label("slice-element-pointer")
				return fmt.Sprintf("&%s[%s]", use(v), g.idxExpr(sc, "elemptridx", v.MinLen))
			})
		}
		if len(alts) > 0 {
			return alts[g.pick("interioralt", len(alts))]()
		}
	}
	if t.Elem.K == KStruct {
		if g.chance("newstruct", 30) {
			g.label("new")
			return "new(" + t.Elem.Go() + ")"
		}
		g.label("struct-alloc")
		return "&" + g.structLit(sc, t.Elem, depth)
	}
	g.label("new")
	return "new(" + t.Elem.Go() + ")"
}

// sliceExpr returns an expression of slice type and the statically known
// minimum length of its value. want is the minimum length required.
func (g *G) sliceExpr(sc *scope, t *Ty, depth int, want int) (string, int) {
	vs := g.varsOf(sc, func(v *Var) bool { return v.T.Same(t) && v.MinLen >= want })
	if len(vs) > 0 && g.chance("slicevar", 55) {
		v := vs[g.pick("slicevaridx", len(vs))]
		return use(v), v.MinLen
	}
	if t.Elem.K == KU8 && want == 0 && g.chance("bytesofstr", 15) {
		if s := g.nonConst(sc, TStr, 0); s != "" {
			g.label("string-to-bytes")
			return "[]byte(" + s + ")", 0
		}
	}
	if want <= 1 && g.chance("slicelit", 25) {
		if want == 0 && g.chance("emptylit", 40) {
			g.label("slice-literal")
			return t.Go() + "{}", 0
		}
		g.label("slice-literal")
		return t.Go() + "{" + g.expr(sc, t.Elem, 0) + "}", 1
	}
	if want == 0 && !g.inIdx && !g.inKey && g.chance("makedyn", 20) {
		// dynamic length: any unsigned type, including a bare narrowing conversion (length < 256)
		g.inIdx = true
		defer func() { g.inIdx = false }()
		g.label("make-slice-dynamic-length")
		switch g.pick("makedynform", 4) {
		case 0:
			return fmt.Sprintf("make(%s, %s %% 6)", t.Go(), paren(g.nonConstOr(sc, TU64, 1))), 0
		case 1:
			return fmt.Sprintf("make(%s, %s %% 6)", t.Go(), paren(g.nonConstOr(sc, TU32, 1))), 0
		case 2:
			return fmt.Sprintf("make(%s, %s %% 6)", t.Go(), paren(g.nonConstOr(sc, TU8, 1))), 0
		default:
			from := []*Ty{TU64, TU32}[g.pick("makedynfrom", 2)]
			if e := g.nonConst(sc, from, 1); e != "" {
				g.label("make-slice-narrowed-length")
				return fmt.Sprintf("make(%s, byte(%s) %% 32)", t.Go(), e), 0
			}
		}
	}
	n := want + g.pick("makelen", 5)
	g.label("make-slice")
	if g.chance("makecap", 30) {
		c := n + g.pick("makecapextra", 4)
		return fmt.Sprintf("make(%s, %d, %d)", t.Go(), n, c), n
	}
	return fmt.Sprintf("make(%s, %d)", t.Go(), n), n
}

// callExpr builds a call to a helper/method whose single result has type t.
// pureOnly restricts to pure callees (for use inside expressions).
func (g *G) callExpr(sc *scope, t *Ty, depth int, pureOnly bool) string {
	type cand struct {
		sig  *FuncSig
		recv *Var
	}
	var cands []cand
	ok := func(s *FuncSig) bool {
		if len(s.Results) != 1 || !s.Results[0].Same(t) {
			return false
		}
		if pureOnly && !s.Pure {
			return false
		}
		if g.fn.pure && !s.Pure {
			return false
		}
		return s != g.fn.sig
	}
	for _, h := range g.helpers {
		if ok(h) {
			cands = append(cands, cand{h, nil})
		}
	}
	for _, v := range sc.all() {
		var sd *StructDef
		isPtr := false
		if v.T.K == KStruct {
			sd = v.T.S
		} else if v.T.K == KPtr && v.T.Elem.K == KStruct && v.NonNil {
			sd, isPtr = v.T.Elem.S, true
		}
		if sd == nil || v.Closure != nil {
			continue
		}
		for _, m := range g.methods[sd] {
			// T6: call a method only with exactly the receiver kind it declares
			if (m.Recv.K == KPtr) == isPtr && ok(m) {
				cands = append(cands, cand{m, v})
			}
		}
	}
	// closures in scope
	for _, v := range sc.all() {
		if v.Closure != nil && len(v.Closure.Results) == 1 && v.Closure.Results[0].Same(t) && (!pureOnly || v.Closure.Pure) && (!g.fn.pure || v.Closure.Pure) {
			cands = append(cands, cand{v.Closure, v})
		}
	}
	if len(cands) == 0 {
		return ""
	}
	c := cands[g.pick("callee", len(cands))]
	return g.renderCall(sc, c.sig, c.recv, depth)
}

func (g *G) renderCall(sc *scope, sig *FuncSig, recv *Var, depth int) string {
	d := depth - 1
	if d < 0 {
		d = 0
	}
	var args []string
	ps := sig.Params
	name := sig.Name
	if sig.Recv != nil {
		ps = ps[1:]
		name = use(recv) + "." + sig.Name
		g.label("method-call")
	} else if recv != nil {
		name = use(recv)
		g.label("closure-call")
	} else {
		g.label("call")
	}
	for i, p := range ps {
		if sig.MaxRec > 0 && i == 0 {
			args = append(args, fmt.Sprintf("%d", g.pick("recdepth", sig.MaxRec+1)))
			continue
		}
		args = append(args, g.argFor(sc, p, d))
	}
	return name + "(" + strings.Join(args, ", ") + ")"
}

func (g *G) argFor(sc *scope, p *Var, depth int) string {
	switch p.T.K {
	case KSlice:
		s, _ := g.sliceExpr(sc, p.T, depth, p.MinLen)
		return s
	}
	return g.expr(sc, p.T, depth)
}
