package gen

import (
	"fmt"
	"strings"

	"pgregory.net/rapid"
)

type cfgen struct {
	t   *rapid.T
	ctr int
}

func (g *cfgen) pick(label string, n int) int { return Uniform(g.t, label, n) }

func (g *cfgen) cond(inLoop bool) string {
	cs := []string{"p0", "p1", "p2", "!p0", "r%2 == 0", "r > 10", "p1 && p2", "p0 || p2"}
	if inLoop {
		cs = append(cs, "i == 1", "i == 0")
	}
	return cs[g.pick("cond", len(cs))]
}

func (g *cfgen) block(depth int, inLoop bool, ind string) []string {
	n := g.pick("nstmts", 4)
	var out []string
	// a nested block may declare its own k, shadowing the function's k until the block ends; code
	// after the block reads the outer k again (seeded change C01-30: a then-branch flattened
	// together with the statements that follow the if)
	shadowAt := -1
	if depth < 3 && n > 0 && Chance(g.t, "shadowk", 35) {
		shadowAt = g.pick("shadowat", n)
	}
	for k := 0; k < n; k++ {
		if k == shadowAt {
			g.ctr++
			out = append(out, fmt.Sprintf("%sk := r + %d", ind, 1000+g.ctr), ind+"r = r*2 + k")
		}
		out = append(out, g.stmt(depth, inLoop, ind)...)
	}
	return out
}

func (g *cfgen) stmt(depth int, inLoop bool, ind string) []string {
	g.ctr++
	kinds := 9
	if depth <= 0 {
		kinds = 4
	}
	switch g.pick("stmt", kinds) {
	case 0:
		return []string{fmt.Sprintf("%sr = r*3 + %d", ind, g.ctr)}
	case 1:
		return []string{fmt.Sprintf("%sr = r*3 + k + %d", ind, g.ctr)}
	case 2:
		return []string{fmt.Sprintf("%sreturn r + %d", ind, 100+g.ctr)}
	case 3:
		if inLoop {
			return []string{ind + []string{"break", "continue"}[g.pick("bc", 2)]}
		}
		return []string{fmt.Sprintf("%sr = r + %d", ind, g.ctr)}
	case 7, 8:
		// one branch leaves (return / break / continue), the other falls through to the code after
		// the if; the surviving branch may shadow k, which the code after the if reads
		exit := fmt.Sprintf("return r + %d", 200+g.ctr)
		if inLoop && g.pick("exitkind", 2) == 0 {
			exit = []string{"break", "continue"}[g.pick("bc2", 2)]
		}
		stay := []string{fmt.Sprintf("%s\tr = r*5 + %d", ind, g.ctr)}
		if Chance(g.t, "stayshadow", 60) {
			stay = []string{fmt.Sprintf("%s\tk := r + %d", ind, 3000+g.ctr), ind + "\tr = r*2 + k"}
		}
		leave := []string{fmt.Sprintf("%s\tr = r + %d", ind, g.ctr), ind + "\t" + exit}
		out := []string{ind + "if " + g.cond(inLoop) + " {"}
		if g.pick("exitbranch", 2) == 0 {
			out = append(append(append(out, leave...), ind+"} else {"), stay...)
		} else {
			out = append(append(append(out, stay...), ind+"} else {"), leave...)
		}
		return append(out, ind+"}", fmt.Sprintf("%sr = r*3 + k + %d", ind, g.ctr))
	case 4, 5:
		out := []string{ind + "if " + g.cond(inLoop) + " {"}
		out = append(out, g.block(depth-1, inLoop, ind+"\t")...)
		switch g.pick("else", 3) {
		case 1:
			out = append(out, ind+"} else {")
			out = append(out, g.block(depth-1, inLoop, ind+"\t")...)
		case 2:
			out = append(out, ind+"} else if "+g.cond(inLoop)+" {")
			out = append(out, g.block(depth-1, inLoop, ind+"\t")...)
		}
		return append(out, ind+"}")
	default:
		if inLoop {
			// nested loops would need a second index name; keep one level
			return []string{fmt.Sprintf("%sr = r + %d", ind, g.ctr)}
		}
		out := []string{ind + "for i := uint64(0); i < 3; i++ {"}
		out = append(out, g.block(depth-1, true, ind+"\t")...)
		return append(out, ind+"}")
	}
}

// GenerateControlFlow draws a package with one function cf(p0, p1, p2 bool) uint64 whose body has
// if/else, loops, return, break and continue in arbitrary positions (most shapes are outside what
// goose accepts) and eight closed entry functions, one per argument vector.
func GenerateControlFlow(t *rapid.T) string {
	g := &cfgen{t: t}
	var sb strings.Builder
	sb.WriteString("package main\n\nfunc cf(p0 bool, p1 bool, p2 bool) uint64 {\n\tvar r uint64 = 1\n\tk := uint64(7)\n\t_ = k\n")
	for _, l := range g.block(3, false, "\t") {
		sb.WriteString(l + "\n")
	}
	sb.WriteString("\treturn r\n}\n\n")
	for k := 0; k < 8; k++ {
		fmt.Fprintf(&sb, "func entry%d() uint64 {\n\treturn cf(%v, %v, %v)\n}\n\n", k, k&1 != 0, k&2 != 0, k&4 != 0)
	}
	return sb.String()
}
