// Package gen (engine E1) generates well-typed Go programs inside (and, for
// C02, around) the goose subset from rapid draws. Programs are constructed
// top-down from the expected type so that typing holds by construction; the
// generator additionally keeps the facts needed to make the programs
// well-defined (slice lengths, non-nil pointers, bounded loops, at most one
// effectful operand per operator) — see DESIGN.md §2.1 and Appendix C.
package gen

import (
	"fmt"
	"strings"
)

// Kind of a generated type.
type Kind int

const (
	KU64 Kind = iota
	KU32
	KU8
	KBool
	KStr
	KStruct
	KPtr
	KSlice
	KMap
)

// Ty is a type of the generated program.
type Ty struct {
	K    Kind
	Elem *Ty // Ptr, Slice, Map value
	Key  *Ty // Map key
	S    *StructDef
}

var (
	TU64  = &Ty{K: KU64}
	TU32  = &Ty{K: KU32}
	TU8   = &Ty{K: KU8}
	TBool = &Ty{K: KBool}
	TStr  = &Ty{K: KStr}
)

func PtrTo(t *Ty) *Ty    { return &Ty{K: KPtr, Elem: t} }
func SliceOf(t *Ty) *Ty  { return &Ty{K: KSlice, Elem: t} }
func MapOf(k, v *Ty) *Ty { return &Ty{K: KMap, Key: k, Elem: v} }

// Go renders the type in Go syntax.
func (t *Ty) Go() string {
	switch t.K {
	case KU64:
		return "uint64"
	case KU32:
		return "uint32"
	case KU8:
		return "byte"
	case KBool:
		return "bool"
	case KStr:
		return "string"
	case KStruct:
		return t.S.Name
	case KPtr:
		return "*" + t.Elem.Go()
	case KSlice:
		return "[]" + t.Elem.Go()
	case KMap:
		return "map[" + t.Key.Go() + "]" + t.Elem.Go()
	}
	return "?"
}

func (t *Ty) IsInt() bool { return t.K == KU64 || t.K == KU32 || t.K == KU8 }

func (t *Ty) Width() int {
	switch t.K {
	case KU64:
		return 64
	case KU32:
		return 32
	case KU8:
		return 8
	}
	return 0
}

// Same reports structural identity of types.
func (t *Ty) Same(u *Ty) bool {
	if t.K != u.K {
		return false
	}
	switch t.K {
	case KStruct:
		return t.S == u.S
	case KPtr, KSlice:
		return t.Elem.Same(u.Elem)
	case KMap:
		return t.Key.Same(u.Key) && t.Elem.Same(u.Elem)
	}
	return true
}

// Comparable: usable with == in generated code (we only compare scalars).
func (t *Ty) Scalar() bool { return t.K <= KStr }

// StructDef is a generated struct type.
type StructDef struct {
	Name   string
	Fields []Field
}

type Field struct {
	Name string
	T    *Ty
}

// Var is a variable in scope.
type Var struct {
	Name     string
	T        *Ty
	CapKnown bool // a := variable bound directly to make(...) / a literal: its capacity is the same in Go and GooseLang (after an append it is not)
	Mutable  bool // declared with var (pointer-wrapped in GooseLang) → assignable, addressable
	MinLen   int  // slices: statically known lower bound of len
	NonNil   bool // pointers / maps: known non-nil
	Used     bool
	Closure  *FuncSig // non-nil for variables holding a function literal
	LoopVar  bool
	// FuncHolder: the variable holds an Fh (or *Fh): a struct with a function-typed field
	FuncHolder bool
	// Big: a 256-element table (see varsOf)
	Big bool
}

// FuncSig is the signature of a generated function or closure.
type FuncSig struct {
	Name    string
	Recv    *Ty // nil, struct (value receiver) or pointer to struct
	Params  []*Var
	Results []*Ty
	Pure    bool // no observable heap effects
	MaxRec  int  // >0: recursive on first parameter, callers pass at most MaxRec
}

// Func is a generated top-level function.
type Func struct {
	Sig    *FuncSig
	Body   []string // lines
	Entry  bool
	Doc    string
	Labels map[string]bool // features used (for non-triviality classification)
}

// Program is a generated package.
type Program struct {
	Structs []*StructDef
	Consts  []string // rendered const/var declarations
	Funcs   []*Func
	Imports map[string]bool
	// Order is the order in which top-level declarations are rendered
	// (indexes into a flat list: structs, consts, funcs); nil = natural.
	Features map[string]int
}

// Source renders the package.
func (p *Program) Source(pkg string) string {
	var sb strings.Builder
	fmt.Fprintf(&sb, "package %s\n\n", pkg)
	var imps []string
	for _, i := range []string{"github.com/goose-lang/goose/machine", "sync"} {
		if p.Imports[i] {
			imps = append(imps, i)
		}
	}
	if len(imps) > 0 {
		sb.WriteString("import (\n")
		for _, i := range imps {
			fmt.Fprintf(&sb, "\t%q\n", i)
		}
		sb.WriteString(")\n\n")
	}
	for _, s := range p.Structs {
		fmt.Fprintf(&sb, "type %s struct {\n", s.Name)
		for _, f := range s.Fields {
			fmt.Fprintf(&sb, "\t%s %s\n", f.Name, f.T.Go())
		}
		sb.WriteString("}\n\n")
	}
	for _, c := range p.Consts {
		sb.WriteString(c + "\n\n")
	}
	for _, f := range p.Funcs {
		sb.WriteString(f.Render())
		sb.WriteString("\n")
	}
	return sb.String()
}

// Render renders one function.
func (f *Func) Render() string {
	var sb strings.Builder
	if f.Doc != "" {
		for _, l := range strings.Split(f.Doc, "\n") {
			sb.WriteString("// " + l + "\n")
		}
	}
	sb.WriteString("func ")
	s := f.Sig
	if s.Recv != nil {
		fmt.Fprintf(&sb, "(%s %s) ", s.Params[0].Name, s.Recv.Go())
	}
	sb.WriteString(s.Name + "(")
	ps := s.Params
	if s.Recv != nil {
		ps = ps[1:]
	}
	for i, p := range ps {
		if i > 0 {
			sb.WriteString(", ")
		}
		sb.WriteString(p.Name + " " + p.T.Go())
	}
	sb.WriteString(")")
	switch len(s.Results) {
	case 0:
	case 1:
		sb.WriteString(" " + s.Results[0].Go())
	default:
		sb.WriteString(" (")
		for i, r := range s.Results {
			if i > 0 {
				sb.WriteString(", ")
			}
			sb.WriteString(r.Go())
		}
		sb.WriteString(")")
	}
	sb.WriteString(" {\n")
	for _, l := range f.Body {
		sb.WriteString("\t" + l + "\n")
	}
	sb.WriteString("}\n")
	return sb.String()
}
