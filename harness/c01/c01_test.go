// Package c01: accepted sequential programs keep their meaning (DESIGN.md §3 C01).
package c01

import (
	"encoding/json"
	"fmt"
	"os"
	"path/filepath"
	"sort"
	"strings"
	"testing"

	"pgregory.net/rapid"

	"verifharness/ev"
	"verifharness/gen"
	"verifharness/glang"
	"verifharness/tv"
)

var runner *tv.GoRunner

func TestMain(m *testing.M) {
	ev.Meta("translation_validation",
		"programs = generated Go packages of the goose subset (structs, consts, methods, helpers, closed entry functions); each entry is run by the Go toolchain and its emitted GooseLang by the reference interpreter, results compared through a canonical rendering of everything reachable; "+
			"non-trivial entry = Go returned normally and the entry or a callee uses a loop, early exit, store, slice/map operation, closure, conversion, shadowing or pointer; distinct by hash of the package source + entry name",
		"GooseLang semantics = harness/glang (DESIGN.md Appendix A), calibrated on every run against internal/examples/semantics",
		"known findings are excluded by generator switches (DESIGN.md §4)")
	ev.Main(m, "C01")
}

// Case is a generated package.
type Case struct {
	Src string `json:"src"`
}

func setup(t ev.TB) bool {
	if runner == nil {
		res, err := glang.Calibrate(ev.Repo())
		if err != nil || len(res.Problems) > 0 {
			ev.Inconclusive(fmt.Sprintf("interpreter calibration failed: %v %v", err, res))
			return false
		}
		ev.Add("calibration_tests_passed", int64(res.Passed))
		r, err := tv.NewGoRunner()
		if err != nil {
			ev.Inconclusive("cannot create go runner: " + err.Error())
			return false
		}
		runner = r
	}
	return true
}

// config is the default generator configuration with the exclusion switches
// of the findings that are still listed as known (a fixed finding turns its
// switch off, so the formerly excluded programs are generated again).
func config() gen.Config {
	cfg := gen.DefaultConfig()
	cfg.NoIncDecNarrow = ev.SwitchOn("c02IncDecNarrow")
	cfg.NoLoopVarReuse = ev.SwitchOn("c02LoopVarScope")
	cfg.NoBareBlocks = ev.SwitchOn("c02BareBlockScope")
	cfg.NoPtrNilAssign = ev.SwitchOn("c02PointerNilAssign")
	for sw, on := range map[string]bool{"c02IncDecNarrow": cfg.NoIncDecNarrow, "c02LoopVarScope": cfg.NoLoopVarReuse, "c02BareBlockScope": cfg.NoBareBlocks, "c02PointerNilAssign": cfg.NoPtrNilAssign} {
		if on {
			ev.Prune(sw)
		}
	}
	return cfg
}

var nontrivialLabels = []string{"for-3clause", "for-cond", "for-infinite", "range-slice", "range-map", "early-exit", "store-through-pointer", "store-field-through-pointer",
	"store-field-of-var", "slice-store", "map-insert", "map-delete", "append", "append-slice", "subslice", "closure", "conversion", "shadowing", "address-of-local", "struct-alloc", "recursion", "uint64put", "uint32put", "multi-assign", "bare-block", "copy", "map-clear", "nested-field-store", "field-pointer", "slice-element-pointer"}

var generatorBugs, programsRun int

func check(t ev.TB, c Case, labels map[string]bool) {
	ev.Eval()
	ev.Add("programs", 1)
	programsRun++
	rep := tv.Validate(c.Src, runner)
	if rep.GeneratorBug != "" {
		generatorBugs++
		ev.Inconclusive("generator bug")
		ev.Note("generator bug: %s", firstLine(rep.GeneratorBug))
		if d := os.Getenv("VERIF_DUMP_UNUSABLE"); d != "" {
			os.WriteFile(filepath.Join(d, fmt.Sprintf("unusable-%x.go", ev.Hash(c.Src))), []byte("// "+firstLine(rep.GeneratorBug)+"\n"+c.Src), 0o644)
		}
		if ev.WantSample() || true {
			ev.Add("generator_bugs", 1)
		}
		if testing.Verbose() {
			fmt.Println("GENERATOR BUG:", firstLine(rep.GeneratorBug))
			var ln int
			if _, err := fmt.Sscanf(rep.GeneratorBug[strings.Index(rep.GeneratorBug, "prog.go:")+8:], "%d", &ln); err == nil {
				lines := strings.Split(c.Src, "\n")
				for i := ln - 3; i < ln+45 && i < len(lines); i++ {
					if i >= 0 {
						fmt.Printf("%4d  %s\n", i+1, lines[i])
					}
				}
			}
		}
		return
	}
	nt := false
	for _, l := range nontrivialLabels {
		if labels == nil || labels[l] {
			nt = true
		}
	}
	for _, e := range rep.Entries {
		ev.Add("entries", 1)
		switch {
		case e.GoPanic != "":
			ev.Label("entry:go-panicked")
		case e.Agree:
			ev.Label("entry:agree")
			ev.Add("disagreements_checked", 1)
			if nt {
				ev.NonTrivial(c.Src + "\x00" + e.Name)
			}
		case e.EvalOrder:
			ev.Label("entry:known-eval-order")
		case e.Outcome == "unknown-primitive":
			ev.Label("entry:model-lacks-primitive")
			ev.Inconclusive("model lacks primitive")
		case e.Outcome == "long-run-inconclusive":
			ev.Label("entry:long-go-run-out-of-fuel")
			ev.Inconclusive("Go run of more than 2000 loop iterations/calls; the model ran out of fuel")
		default:
			ev.Label("entry:DISAGREE")
		}
		// calibration of tv.SmallRun: interpreter steps per Go step (function entry / loop iteration)
		if e.Agree && e.GoSteps > 0 {
			r := e.FuelUsed / int64(e.GoSteps)
			switch {
			case r < 100:
				ev.Label("fuel-per-go-step:<100")
			case r < 400:
				ev.Label("fuel-per-go-step:100-399")
			case r < 1000:
				ev.Label("fuel-per-go-step:400-999")
			default:
				ev.Label("fuel-per-go-step:>=1000")
				ev.Note("fuel per Go step %d (fuel %d, Go steps %d) in %s", r, e.FuelUsed, e.GoSteps, e.Name)
			}
		}
	}
	if len(rep.Violations) > 0 {
		ev.Failf(t, "TestDifferential", c, "%s\n--- emitted GooseLang ---\n%s", strings.Join(rep.Violations, "\n"), rep.Text)
	}
	if nt && len(rep.Entries) > 0 {
		ev.Sample(map[string]any{"src": c.Src, "entries": rep.Entries})
	}
}

func firstLine(s string) string {
	if i := strings.Index(s, "\n"); i >= 0 {
		return s[:i]
	}
	return s
}

func TestDifferential(t *testing.T) {
	if !setup(t) {
		t.Skip("setup failed")
	}
	ev.Pinned(t, "C01", "TestDifferential", func(raw json.RawMessage) string {
		var c Case
		if json.Unmarshal(raw, &c) != nil {
			return ""
		}
		rep := tv.Validate(c.Src, runner)
		return strings.Join(rep.Violations, "\n")
	})
	rapid.Check(t, func(t *rapid.T) {
		p := gen.Generate(t, config())
		labels := map[string]bool{}
		var ls []string
		for l := range p.Features {
			labels[l] = true
			ls = append(ls, l)
		}
		sort.Strings(ls)
		for _, l := range ls {
			ev.Label("feature:" + l)
		}
		check(t, Case{Src: p.Source("main")}, labels)
	})
	if generatorBugs*20 > programsRun && programsRun > 0 {
		// more than 5 % unusable programs: the run says little — inconclusive, not a pass
		t.Fatalf("INCONCLUSIVE: %d of %d generated programs were unusable", generatorBugs, programsRun)
	}
}

func TestReplay(t *testing.T) {
	p := ev.ReplayPath()
	if p == "" {
		t.Skip("no replay")
	}
	if !setup(t) {
		t.Skip("setup failed")
	}
	r, err := ev.LoadReplay(p)
	if err != nil {
		t.Fatal(err)
	}
	var c Case
	if err := json.Unmarshal(r.Case, &c); err != nil {
		t.Fatal(err)
	}
	check(t, c, nil)
}
