package models

import (
	"encoding/json"
	"os"
	"path/filepath"
	"sync"
	"time"

	"verifharness/ev"
)

var (
	switchOnce sync.Once
	switchSet  map[string]bool
	switchBad  bool
)

// KnownSwitch reports whether the generator exclusion switch of a known (not
// fixed) finding is on. Unlike ev.SwitchOn it reads known_findings.json once
// per process and retries while the file is unreadable (it is rewritten in
// place by tools/genknown.py, possibly while a check is running); if it stays
// unreadable every switch counts as ON (fewer inputs, never a false alarm)
// and the run records an inconclusive note.
func KnownSwitch(name string) bool {
	switchOnce.Do(func() {
		path := filepath.Join(ev.Root(), "known_findings.json")
		for try := 0; try < 100; try++ {
			b, err := os.ReadFile(path)
			if os.IsNotExist(err) {
				switchSet = map[string]bool{}
				return
			}
			var all struct {
				Findings []ev.Finding `json:"findings"`
			}
			if err == nil && json.Unmarshal(b, &all) == nil && len(b) > 0 {
				switchSet = map[string]bool{}
				for _, f := range all.Findings {
					if f.Status == "known" && f.Switch != "" {
						switchSet[f.Switch] = true
					}
				}
				return
			}
			time.Sleep(50 * time.Millisecond)
		}
		switchBad = true
		ev.Inconclusive("known_findings.json unreadable: all exclusion switches assumed on")
	})
	if switchBad {
		return true
	}
	return switchSet[name]
}
