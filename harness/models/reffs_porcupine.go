package models

import (
	"bytes"
	"fmt"
	"sort"

	"github.com/anishathalye/porcupine"
)

// FsCall is the input of one operation of a concurrent filesystem history.
// Descriptor numbers in Op.Fd are the implementation's numbers. Weak marks a
// call whose result is not compared (DirFs.List overlapping a mutation of the
// same directory is documented as non-atomic and is judged separately).
type FsCall struct {
	Op   FsOp
	Weak bool
}

// FsOut is the output of one operation of a concurrent history.
type FsOut struct {
	Res      FsRes
	Panicked bool
	Panic    string
}

func sameNames(a, b []string) bool {
	a = append([]string{}, a...)
	b = append([]string{}, b...)
	sort.Strings(a)
	sort.Strings(b)
	if len(a) != len(b) {
		return false
	}
	for i := range a {
		if a[i] != b[i] {
			return false
		}
	}
	return true
}

// FsResEqual compares an observed result with the model's result for the
// kind of call (descriptor numbers are not compared; nil and empty data are
// equal; name lists are compared as sets).
func FsResEqual(kind string, want, got FsRes) bool {
	switch kind {
	case FsCreate, FsLink:
		return want.Ok == got.Ok
	case FsReadAt:
		return bytes.Equal(want.Data, got.Data)
	case FsList:
		return sameNames(want.Names, got.Names)
	}
	return true
}

// FsModel is the porcupine model "the history is a linearization of RefFs
// starting from init". A call that panicked, a call whose precondition does
// not hold at its linearization point, a result different from the model's,
// and a Create/Open that hands out a descriptor number that is still open
// are all rejected.
func FsModel(init *RefFs) porcupine.Model {
	return porcupine.Model{
		Init: func() interface{} { return init },
		Step: func(state, input, output interface{}) (bool, interface{}) {
			st := state.(*RefFs)
			in := input.(FsCall)
			out := output.(FsOut)
			if out.Panicked {
				return false, st
			}
			useFd := -1
			switch in.Op.Kind {
			case FsOpen:
				if out.Res.Fd < 0 {
					return false, st
				}
				useFd = out.Res.Fd
			case FsCreate:
				if out.Res.Ok {
					if out.Res.Fd < 0 {
						return false, st
					}
					useFd = out.Res.Fd
				}
			}
			next, res, valid := st.Apply(in.Op, useFd)
			if !valid {
				return false, st
			}
			if in.Weak {
				return true, next
			}
			if !FsResEqual(in.Op.Kind, res, out.Res) {
				return false, st
			}
			return true, next
		},
		Equal: func(a, b interface{}) bool {
			return a.(*RefFs).Canon() == b.(*RefFs).Canon()
		},
		DescribeOperation: func(input, output interface{}) string {
			in := input.(FsCall)
			out := output.(FsOut)
			return DescribeFsCall(in, out)
		},
	}
}

// DescribeFsCall renders one call and its observed result.
func DescribeFsCall(in FsCall, out FsOut) string {
	if out.Panicked {
		return fmt.Sprintf("%s -> PANIC %s", in.Op, out.Panic)
	}
	switch in.Op.Kind {
	case FsCreate:
		if out.Res.Ok {
			return fmt.Sprintf("%s -> fd%d, ok", in.Op, out.Res.Fd)
		}
		return fmt.Sprintf("%s -> !ok", in.Op)
	case FsOpen:
		return fmt.Sprintf("%s -> fd%d", in.Op, out.Res.Fd)
	case FsLink:
		return fmt.Sprintf("%s -> %v", in.Op, out.Res.Ok)
	case FsReadAt:
		d := out.Res.Data
		if len(d) > 16 {
			return fmt.Sprintf("%s -> %d bytes %x…", in.Op, len(d), d[:16])
		}
		return fmt.Sprintf("%s -> %d bytes %x", in.Op, len(d), d)
	case FsList:
		return fmt.Sprintf("%s -> %q", in.Op, out.Res.Names)
	}
	return in.Op.String()
}
