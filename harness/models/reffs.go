// Package models (engine E6): reference models.
//
// RefFs is the reference filesystem of properties C12/C13/C14: a set of
// directories, an inode table (contents + link count), (dir,name) → inode, and
// a descriptor table fd → (inode, mode) with an independent descriptor per
// Create/Open. It is a persistent value: every operation returns a new *RefFs
// and never mutates the receiver (maps are copied on write, file contents are
// never modified in place), so a *RefFs can be a porcupine model state.
package models

import (
	"crypto/sha256"
	"fmt"
	"sort"
	"strings"
	"sync/atomic"
)

// Kinds of filesystem operations.
const (
	FsMkdir  = "mkdir"
	FsCreate = "create"
	FsAppend = "append"
	FsClose  = "close"
	FsOpen   = "open"
	FsReadAt = "readat"
	FsDelete = "delete"
	FsLink   = "link"
	FsAtomic = "atomic"
	FsList   = "list"
)

// FsOp is one call of the filesys.Filesys interface. Descriptors are logical
// numbers (the numbers RefFs hands out); data is described by (Seed, N) and
// expanded by Pattern so that histories stay small when serialised.
type FsOp struct {
	Kind  string `json:"k"`
	Dir   string `json:"dir,omitempty"`
	Name  string `json:"name,omitempty"`
	Dir2  string `json:"dir2,omitempty"`  // Link: new directory
	Name2 string `json:"name2,omitempty"` // Link: new name
	Fd    int    `json:"fd,omitempty"`    // Append/Close/ReadAt: descriptor
	Seed  int    `json:"seed,omitempty"`  // Append/AtomicCreate: data = Pattern(Seed, N)
	N     int    `json:"n,omitempty"`
	Off   uint64 `json:"off,omitempty"` // ReadAt
	Len   uint64 `json:"len,omitempty"`
}

func (o FsOp) String() string {
	switch o.Kind {
	case FsMkdir, FsList:
		return fmt.Sprintf("%s(%q)", o.Kind, o.Dir)
	case FsCreate, FsOpen, FsDelete:
		return fmt.Sprintf("%s(%q,%q)", o.Kind, o.Dir, o.Name)
	case FsAppend:
		return fmt.Sprintf("append(fd%d, pattern(seed=%d,n=%d))", o.Fd, o.Seed, o.N)
	case FsClose:
		return fmt.Sprintf("close(fd%d)", o.Fd)
	case FsReadAt:
		return fmt.Sprintf("readat(fd%d, off=%d, len=%d)", o.Fd, o.Off, o.Len)
	case FsLink:
		return fmt.Sprintf("link(%q,%q -> %q,%q)", o.Dir, o.Name, o.Dir2, o.Name2)
	case FsAtomic:
		return fmt.Sprintf("atomiccreate(%q,%q, pattern(seed=%d,n=%d))", o.Dir, o.Name, o.Seed, o.N)
	}
	return o.Kind
}

// Data expands the data argument of Append/AtomicCreate.
func (o FsOp) Data() []byte { return Pattern(o.Seed, o.N) }

// Pattern returns n bytes determined by seed. The sequence has no short
// period and differs between seeds at (almost) every position, so misplaced,
// lost, duplicated or foreign bytes change a comparison.
func Pattern(seed, n int) []byte {
	if n <= 0 {
		return []byte{}
	}
	b := make([]byte, n)
	x := uint32(seed)*2654435761 + 0x9e3779b9
	for i := range b {
		x ^= x << 13
		x ^= x >> 17
		x ^= x << 5
		b[i] = byte(x>>8) ^ byte(i)
	}
	return b
}

// FsRes is the observable result of a call.
type FsRes struct {
	Ok    bool     `json:"ok,omitempty"`    // Create, Link
	Fd    int      `json:"fd,omitempty"`    // Create (when Ok), Open
	Data  []byte   `json:"data,omitempty"`  // ReadAt (nil and empty are the same result)
	Names []string `json:"names,omitempty"` // List, sorted
}

// Mode of a descriptor.
type FsMode uint8

const (
	FsRead FsMode = iota
	FsWrite
)

type refInode struct {
	data  []byte // immutable
	nlink int
}

type refDesc struct {
	ino  int
	mode FsMode
}

type refPath struct{ dir, name string }

// RefFs is the reference filesystem (immutable value).
type RefFs struct {
	dirs    map[string]bool
	inodes  map[int]refInode
	dirents map[refPath]int
	fds     map[int]refDesc
	nextIno int
	nextFd  int
	canon   atomic.Pointer[string]
}

// NewRefFs returns the empty filesystem (no directories).
func NewRefFs() *RefFs {
	return &RefFs{
		dirs:    map[string]bool{},
		inodes:  map[int]refInode{},
		dirents: map[refPath]int{},
		fds:     map[int]refDesc{},
	}
}

func (fs *RefFs) clone() *RefFs {
	n := &RefFs{
		dirs:    make(map[string]bool, len(fs.dirs)+1),
		inodes:  make(map[int]refInode, len(fs.inodes)+1),
		dirents: make(map[refPath]int, len(fs.dirents)+1),
		fds:     make(map[int]refDesc, len(fs.fds)+1),
		nextIno: fs.nextIno,
		nextFd:  fs.nextFd,
	}
	for k, v := range fs.dirs {
		n.dirs[k] = v
	}
	for k, v := range fs.inodes {
		n.inodes[k] = v
	}
	for k, v := range fs.dirents {
		n.dirents[k] = v
	}
	for k, v := range fs.fds {
		n.fds[k] = v
	}
	return n
}

// gc drops an inode that has neither names nor descriptors.
func (fs *RefFs) gc(ino int) {
	in, ok := fs.inodes[ino]
	if !ok || in.nlink > 0 {
		return
	}
	for _, d := range fs.fds {
		if d.ino == ino {
			return
		}
	}
	delete(fs.inodes, ino)
}

// unlink removes one name of an inode (receiver is a fresh clone).
func (fs *RefFs) unlink(p refPath) {
	ino := fs.dirents[p]
	delete(fs.dirents, p)
	in := fs.inodes[ino]
	in.nlink--
	fs.inodes[ino] = in
	fs.gc(ino)
}

// Apply performs op. useFd >= 0 makes Create/Open install that descriptor
// number (used when checking a concurrent history, where the numbers are the
// implementation's; the call is invalid when the number is already open);
// useFd < 0 allocates a fresh number. valid=false means that a documented
// precondition of the call does not hold in this state (the state is
// returned unchanged): unknown directory, Create/Open/… in a directory that
// was not made, Append on a descriptor that is not a live descriptor from
// Create, ReadAt on one that is not a live descriptor from Open, Close of a
// descriptor that is not live, Delete/Open/Link-source of a name that does
// not exist, Mkdir of an existing directory.
func (fs *RefFs) Apply(op FsOp, useFd int) (next *RefFs, res FsRes, valid bool) {
	alloc := func(n *RefFs, ino int, mode FsMode) (int, bool) {
		fd := useFd
		if fd < 0 {
			fd = n.nextFd
			n.nextFd++
		} else if _, live := n.fds[fd]; live {
			return 0, false
		}
		n.fds[fd] = refDesc{ino: ino, mode: mode}
		return fd, true
	}
	switch op.Kind {
	case FsMkdir:
		if fs.dirs[op.Dir] {
			return fs, res, false
		}
		n := fs.clone()
		n.dirs[op.Dir] = true
		return n, res, true
	case FsCreate:
		if !fs.dirs[op.Dir] {
			return fs, res, false
		}
		p := refPath{op.Dir, op.Name}
		if _, exists := fs.dirents[p]; exists {
			return fs, FsRes{Ok: false}, true
		}
		n := fs.clone()
		ino := n.nextIno
		n.nextIno++
		n.inodes[ino] = refInode{nlink: 1}
		n.dirents[p] = ino
		fd, ok := alloc(n, ino, FsWrite)
		if !ok {
			return fs, res, false
		}
		return n, FsRes{Ok: true, Fd: fd}, true
	case FsOpen:
		if !fs.dirs[op.Dir] {
			return fs, res, false
		}
		ino, exists := fs.dirents[refPath{op.Dir, op.Name}]
		if !exists {
			return fs, res, false
		}
		n := fs.clone()
		fd, ok := alloc(n, ino, FsRead)
		if !ok {
			return fs, res, false
		}
		return n, FsRes{Fd: fd}, true
	case FsAppend:
		d, live := fs.fds[op.Fd]
		if !live || d.mode != FsWrite {
			return fs, res, false
		}
		n := fs.clone()
		in := n.inodes[d.ino]
		old := in.data
		nd := make([]byte, len(old)+op.N)
		copy(nd, old)
		copy(nd[len(old):], op.Data())
		in.data = nd
		n.inodes[d.ino] = in
		return n, res, true
	case FsClose:
		d, live := fs.fds[op.Fd]
		if !live {
			return fs, res, false
		}
		n := fs.clone()
		delete(n.fds, op.Fd)
		n.gc(d.ino)
		return n, res, true
	case FsReadAt:
		d, live := fs.fds[op.Fd]
		if !live || d.mode != FsRead {
			return fs, res, false
		}
		data := fs.inodes[d.ino].data
		size := uint64(len(data))
		if op.Off >= size {
			return fs, FsRes{}, true
		}
		end := size
		if op.Len < size-op.Off {
			end = op.Off + op.Len
		}
		out := make([]byte, end-op.Off)
		copy(out, data[op.Off:end])
		return fs, FsRes{Data: out}, true
	case FsDelete:
		p := refPath{op.Dir, op.Name}
		if _, exists := fs.dirents[p]; !exists || !fs.dirs[op.Dir] {
			return fs, res, false
		}
		n := fs.clone()
		n.unlink(p)
		return n, res, true
	case FsLink:
		if !fs.dirs[op.Dir] || !fs.dirs[op.Dir2] {
			return fs, res, false
		}
		ino, exists := fs.dirents[refPath{op.Dir, op.Name}]
		if !exists {
			return fs, res, false
		}
		q := refPath{op.Dir2, op.Name2}
		if _, taken := fs.dirents[q]; taken {
			return fs, FsRes{Ok: false}, true
		}
		n := fs.clone()
		n.dirents[q] = ino
		in := n.inodes[ino]
		in.nlink++
		n.inodes[ino] = in
		return n, FsRes{Ok: true}, true
	case FsAtomic:
		if !fs.dirs[op.Dir] {
			return fs, res, false
		}
		n := fs.clone()
		p := refPath{op.Dir, op.Name}
		if _, exists := n.dirents[p]; exists {
			n.unlink(p)
		}
		ino := n.nextIno
		n.nextIno++
		n.inodes[ino] = refInode{data: op.Data(), nlink: 1}
		n.dirents[p] = ino
		return n, res, true
	case FsList:
		if !fs.dirs[op.Dir] {
			return fs, res, false
		}
		return fs, FsRes{Names: fs.Names(op.Dir)}, true
	}
	return fs, res, false
}

// ---- inspection (used by generators and oracles) -----------------------

// Dirs returns the directories, sorted.
func (fs *RefFs) Dirs() []string {
	var out []string
	for d := range fs.dirs {
		out = append(out, d)
	}
	sort.Strings(out)
	return out
}

// HasDir reports whether the directory exists.
func (fs *RefFs) HasDir(dir string) bool { return fs.dirs[dir] }

// Names returns the names in dir, sorted (never nil).
func (fs *RefFs) Names(dir string) []string {
	out := []string{}
	for p := range fs.dirents {
		if p.dir == dir {
			out = append(out, p.name)
		}
	}
	sort.Strings(out)
	return out
}

// Lookup returns the inode number of dir/name.
func (fs *RefFs) Lookup(dir, name string) (ino int, ok bool) {
	ino, ok = fs.dirents[refPath{dir, name}]
	return
}

// Fds returns the live descriptors of the given mode, sorted.
func (fs *RefFs) Fds(mode FsMode) []int {
	var out []int
	for fd, d := range fs.fds {
		if d.mode == mode {
			out = append(out, fd)
		}
	}
	sort.Ints(out)
	return out
}

// AllFds returns all live descriptors, sorted.
func (fs *RefFs) AllFds() []int {
	var out []int
	for fd := range fs.fds {
		out = append(out, fd)
	}
	sort.Ints(out)
	return out
}

// FdInode returns the inode and mode behind a live descriptor.
func (fs *RefFs) FdInode(fd int) (ino int, mode FsMode, live bool) {
	d, ok := fs.fds[fd]
	return d.ino, d.mode, ok
}

// OpenCount returns the number of live descriptors on an inode.
func (fs *RefFs) OpenCount(ino int) int {
	n := 0
	for _, d := range fs.fds {
		if d.ino == ino {
			n++
		}
	}
	return n
}

// Size returns the length of an inode's contents.
func (fs *RefFs) Size(ino int) int { return len(fs.inodes[ino].data) }

// Contents returns a copy of an inode's contents.
func (fs *RefFs) Contents(ino int) []byte {
	return append([]byte{}, fs.inodes[ino].data...)
}

// Nlink returns the number of names of an inode.
func (fs *RefFs) Nlink(ino int) int { return fs.inodes[ino].nlink }

// Canon is a canonical description of the state that does not depend on
// inode numbering or allocation counters: two states with equal Canon are
// indistinguishable by any continuation that uses explicit descriptor
// numbers (Apply with useFd >= 0).
func (fs *RefFs) Canon() string {
	if p := fs.canon.Load(); p != nil {
		return *p
	}
	var sb strings.Builder
	ren := map[int]int{}
	var order []int
	id := func(ino int) int {
		if r, ok := ren[ino]; ok {
			return r
		}
		ren[ino] = len(order)
		order = append(order, ino)
		return ren[ino]
	}
	for _, d := range fs.Dirs() {
		fmt.Fprintf(&sb, "D%q[", d)
		for _, nm := range fs.Names(d) {
			fmt.Fprintf(&sb, "%q=%d,", nm, id(fs.dirents[refPath{d, nm}]))
		}
		sb.WriteString("]")
	}
	for _, fd := range fs.AllFds() {
		d := fs.fds[fd]
		fmt.Fprintf(&sb, "F%d=%d/%d,", fd, id(d.ino), d.mode)
	}
	for i := 0; i < len(order); i++ {
		d := fs.inodes[order[i]].data
		if len(d) <= 64 {
			fmt.Fprintf(&sb, "I%d:%x;", i, d)
		} else {
			fmt.Fprintf(&sb, "I%d:%d#%x;", i, len(d), sha256.Sum256(d))
		}
	}
	s := sb.String()
	fs.canon.Store(&s)
	return s
}
