package models

// RegDisk is the reference model of properties C09/C10/C11: an array of
// Size() independent 4096-byte registers initialised to zero. It is written
// independently of machine/disk (flat byte image, explicit range checks).
//
// This file also holds the block-content encodings shared by the disk checks
// (position-dependent fill, tagged blocks for torn-read detection) and the
// porcupine adapter (per-address register model).

import (
	"encoding/binary"
	"hash/fnv"

	"github.com/anishathalye/porcupine"
)

// DiskBlockSize is the register width the property states (4096 bytes); it is
// deliberately a literal and not disk.BlockSize.
const DiskBlockSize = 4096

// RegDisk is the register-array reference disk.
type RegDisk struct {
	n   uint64
	img []byte // n*4096 bytes
}

// NewRegDisk returns a zeroed disk of n blocks.
func NewRegDisk(n uint64) *RegDisk {
	return &RegDisk{n: n, img: make([]byte, n*DiskBlockSize)}
}

// NewRegDiskImage returns the disk obtained by opening a backing image with
// the given prior content as a disk of n blocks: the retained prefix is
// preserved, everything else reads as zero.
func NewRegDiskImage(prior []byte, n uint64) *RegDisk {
	d := NewRegDisk(n)
	copy(d.img, prior)
	return d
}

// Size is the number of blocks.
func (d *RegDisk) Size() uint64 { return d.n }

// InRange reports whether a is a valid address.
func (d *RegDisk) InRange(a uint64) bool { return a < d.n }

// Read returns a copy of block a; ok=false means the call is refused.
func (d *RegDisk) Read(a uint64) (blk []byte, ok bool) {
	if a >= d.n {
		return nil, false
	}
	blk = make([]byte, DiskBlockSize)
	copy(blk, d.img[a*DiskBlockSize:(a+1)*DiskBlockSize])
	return blk, true
}

// Peek returns block a without copying (callers must not modify it).
func (d *RegDisk) Peek(a uint64) []byte {
	return d.img[a*DiskBlockSize : (a+1)*DiskBlockSize]
}

// Write stores v at a; false means the call is refused (and nothing changed).
func (d *RegDisk) Write(a uint64, v []byte) bool {
	if len(v) != DiskBlockSize || a >= d.n {
		return false
	}
	copy(d.img[a*DiskBlockSize:(a+1)*DiskBlockSize], v)
	return true
}

// Barrier is a no-op in the model (durability is not observable).
func (d *RegDisk) Barrier() {}

// Image returns the backing image the model predicts (n*4096 bytes; not a copy).
func (d *RegDisk) Image() []byte { return d.img }

// Reopen returns the model of closing the disk and opening its image with n blocks.
func (d *RegDisk) Reopen(n uint64) *RegDisk { return NewRegDiskImage(d.img, n) }

// ---- block contents -----------------------------------------------------

func mix64(x uint64) uint64 {
	x += 0x9e3779b97f4a7c15
	x = (x ^ (x >> 30)) * 0xbf58476d1ce4e5b9
	x = (x ^ (x >> 27)) * 0x94d049bb133111eb
	return x ^ (x >> 31)
}

// NumBlockPatterns is the number of patterns FillBlock knows.
const NumBlockPatterns = 7

// FillBlock fills buf (any length) with the content named (tag, pat).
// Pattern 0 makes every byte depend on its position and on the tag, so that
// shifted, truncated or mixed-up blocks are never equal to an intended one.
func FillBlock(buf []byte, tag uint64, pat int) {
	switch pat {
	case 1:
		for i := range buf {
			buf[i] = 0
		}
	case 2:
		for i := range buf {
			buf[i] = 0xff
		}
	case 3: // only the first byte is non-zero
		for i := range buf {
			buf[i] = 0
		}
		if len(buf) > 0 {
			buf[0] = byte(tag) | 1
		}
	case 4: // only the last byte is non-zero
		for i := range buf {
			buf[i] = 0
		}
		if len(buf) > 0 {
			buf[len(buf)-1] = byte(tag) | 1
		}
	case 5: // position counter plus tag (period 251, not a divisor of 4096)
		for i := range buf {
			buf[i] = byte(uint64(i%251) + tag)
		}
	case 6: // like the repository's tests: ten leading bytes
		for i := range buf {
			buf[i] = 0
		}
		for i := 0; i < 10 && i < len(buf); i++ {
			buf[i] = byte(tag) | 1
		}
	default:
		var w [8]byte
		for i := 0; i < len(buf); i += 8 {
			binary.LittleEndian.PutUint64(w[:], mix64(tag*0x100000001b3+uint64(i/8)+1))
			copy(buf[i:], w[:])
		}
	}
}

// MakeBlock returns a fresh buffer of n bytes filled by FillBlock.
func MakeBlock(n int, tag uint64, pat int) []byte {
	b := make([]byte, n)
	FillBlock(b, tag, pat)
	return b
}

// BlockHash is a 64-bit digest of a block (used in child-process logs).
func BlockHash(b []byte) uint64 {
	h := fnv.New64a()
	h.Write(b)
	return h.Sum64()
}

// posMix(i) is the per-word mask of tagged blocks.
func posMix(i int) uint64 { return uint64(i+1) * 0x9e3779b97f4a7c15 }

// TagBlock fills a 4096-byte buffer with the tagged encoding of tag != 0:
// word i (little endian) = tag XOR posMix(i). Tag 0 is the all-zero block
// (the initial register value).
func TagBlock(buf []byte, tag uint64) {
	if tag == 0 {
		for i := range buf {
			buf[i] = 0
		}
		return
	}
	for i := 0; i+8 <= len(buf); i += 8 {
		binary.LittleEndian.PutUint64(buf[i:], tag^posMix(i/8))
	}
}

// DecodeTag decodes a block written by TagBlock. ok=false means the block is
// not one whole tagged block: torn (words of different tags), shifted or of
// the wrong size; then tag is what word 0 carries and word `at` carries tagAt.
func DecodeTag(b []byte) (tag uint64, ok bool, at int, tagAt uint64) {
	if len(b) != DiskBlockSize {
		return 0, false, -1, 0
	}
	allZero := true
	for _, x := range b {
		if x != 0 {
			allZero = false
			break
		}
	}
	if allZero {
		return 0, true, 0, 0
	}
	tag = binary.LittleEndian.Uint64(b[0:]) ^ posMix(0)
	for i := 1; i < DiskBlockSize/8; i++ {
		t := binary.LittleEndian.Uint64(b[i*8:]) ^ posMix(i)
		if t != tag {
			return tag, false, i, t
		}
	}
	if tag == 0 {
		return 0, false, 0, 0
	}
	return tag, true, 0, 0
}

// ---- porcupine adapter --------------------------------------------------

// RegIn is the input of one register operation of a concurrent history.
type RegIn struct {
	Write bool
	Addr  uint64
	Tag   uint64 // written tag
}

// RegOut is its output.
type RegOut struct {
	Tag     uint64 // tag read
	Refused bool   // the call panicked
}

// RegisterModel is the per-address register specification of a disk of the
// given size: histories are partitioned by address; an in-range address is an
// atomic register holding a tag (0 initially); operations on out-of-range
// addresses must be refused and change nothing.
func RegisterModel(size uint64) porcupine.Model {
	return porcupine.Model{
		Partition: func(h []porcupine.Operation) [][]porcupine.Operation {
			idx := map[uint64]int{}
			var parts [][]porcupine.Operation
			for _, op := range h {
				a := op.Input.(RegIn).Addr
				i, ok := idx[a]
				if !ok {
					i = len(parts)
					idx[a] = i
					parts = append(parts, nil)
				}
				parts[i] = append(parts[i], op)
			}
			return parts
		},
		Init: func() interface{} { return uint64(0) },
		Step: func(state, input, output interface{}) (bool, interface{}) {
			in := input.(RegIn)
			out := output.(RegOut)
			if in.Addr >= size {
				return out.Refused, state
			}
			if out.Refused {
				return false, state
			}
			if in.Write {
				return true, in.Tag
			}
			return out.Tag == state.(uint64), state
		},
		Equal: func(a, b interface{}) bool { return a.(uint64) == b.(uint64) },
	}
}
