// Package catalog is the catalogue of out-of-subset and look-alike Go
// constructs shared by the C02 (reject-or-faithful) and C07 (never crashes)
// checks (DESIGN.md §3 C02).
package catalog

import (
	"fmt"
	"strings"
)

// Item is one out-of-subset or look-alike construct. It is rendered as a
// closed entry function
//
//	func entryK() uint64 { var r uint64; <Setup>; <Core in a context>; return r }
//
// plus optional extra top-level declarations. Core observes the construct by
// folding what it computes into r. The oracle is the same for every item:
// the declaration is rejected with a located conversion error, or it is
// emitted and Go and GooseLang agree on the result.
type Item struct {
	ID    string
	Decls string // extra top-level declarations (%N% is replaced by a unique suffix)
	Setup string
	Core  string
	// NoLoopCtx: Core declares variables or uses control flow that cannot be wrapped in a loop body
	NoCtx bool
	// Known names the switch of the known finding this item reproduces ("" if none)
	Known string
	// Imports: extra import specs, e.g. `mach "github.com/goose-lang/goose/machine"`
	Imports []string
}

// Items is the catalogue.
var Items = []Item{
	// ---- operators ----
	{ID: "op-andnot", Setup: "a := uint64(0xff0f)\n\tb := uint64(0x0ff0)", Core: "r = a &^ b"},
	{ID: "op-unary-minus", Setup: "a := uint64(5)", Core: "r = -a"},
	{ID: "op-unary-plus", Setup: "a := uint64(5)", Core: "r = +a"},
	{ID: "assign-mul", Setup: "var x uint64 = 6", Core: "x *= 7\n\tr = x"},
	{ID: "assign-div", Setup: "var x uint64 = 60", Core: "x /= 7\n\tr = x"},
	{ID: "assign-rem", Setup: "var x uint64 = 60", Core: "x %= 7\n\tr = x"},
	{ID: "assign-shl", Setup: "var x uint64 = 6", Core: "x <<= 3\n\tr = x"},
	{ID: "assign-shr", Setup: "var x uint64 = 600", Core: "x >>= 3\n\tr = x"},
	{ID: "assign-andnot", Setup: "var x uint64 = 0xff", Core: "x &^= 0x0f\n\tr = x"},
	{ID: "struct-equal", Decls: "type P%N% struct {\n\ta uint64\n\tb bool\n}", Setup: "p := P%N%{a: 1, b: true}\n\tq := P%N%{a: 1, b: true}", Core: "if p == q {\n\t\tr = 1\n\t}"},

	// operators and update statements with an EFFECTFUL operand: if they are ever accepted, the operand must be evaluated exactly once (seeded change C02-7)
	{ID: "op-andnot-effectful-left", Decls: "func bmp%N%(p *uint64) uint64 {\n\t*p = *p + 1\n\treturn *p\n}", Setup: "c := new(uint64)", Core: "r = bmp%N%(c) &^ 4\n\tr = r*10 + *c"},
	{ID: "op-andnot-effectful-right", Decls: "func bmp%N%(p *uint64) uint64 {\n\t*p = *p + 1\n\treturn *p\n}", Setup: "c := new(uint64)\n\ta := uint64(0xff)", Core: "r = a &^ bmp%N%(c)\n\tr = r*10 + *c"},
	{ID: "op-unary-minus-effectful", Decls: "func bmp%N%(p *uint64) uint64 {\n\t*p = *p + 1\n\treturn *p\n}", Setup: "c := new(uint64)", Core: "r = -bmp%N%(c)\n\tr = r*10 + *c"},
	{ID: "opassign-effectful-rhs", Decls: "func bmp%N%(p *uint64) uint64 {\n\t*p = *p + 1\n\treturn *p\n}", Setup: "c := new(uint64)\n\tvar x uint64 = 6", Core: "x *= bmp%N%(c)\n\tr = x*10 + *c"},
	{ID: "opassign-index-effectful", Decls: "func bmp%N%(p *uint64) uint64 {\n\t*p = *p + 1\n\treturn *p\n}", Setup: "c := new(uint64)\n\ts := make([]uint64, 4)", Core: "s[bmp%N%(c)] += 5\n\tr = s[1]*100 + s[2]*10 + *c"},
	{ID: "incdec-index-effectful", Decls: "func bmp%N%(p *uint64) uint64 {\n\t*p = *p + 1\n\treturn *p\n}", Setup: "c := new(uint64)\n\ts := make([]uint64, 4)", Core: "s[bmp%N%(c)]++\n\tr = s[1]*100 + s[2]*10 + *c"},
	{ID: "opassign-field-of-call", Decls: "type Oc%N% struct {\n\ta uint64\n\tn uint64\n}\n\nfunc (o *Oc%N%) self() *Oc%N% {\n\to.n = o.n + 1\n\treturn o\n}", Setup: "o := &Oc%N%{a: 1}", Core: "o.self().a += 5\n\tr = o.a*10 + o.n"},
	{ID: "opassign-map-effectful-key", Decls: "func bmp%N%(p *uint64) uint64 {\n\t*p = *p + 1\n\treturn *p\n}", Setup: "c := new(uint64)\n\tm := make(map[uint64]uint64)", Core: "m[bmp%N%(c)] += 5\n\tr = m[1]*100 + m[2]*10 + *c"},
	{ID: "shift-effectful-count", Decls: "func bmp%N%(p *uint64) uint64 {\n\t*p = *p + 1\n\treturn *p\n}", Setup: "c := new(uint64)\n\ta := uint64(3)", Core: "r = a << bmp%N%(c)\n\tr = r*10 + *c"},
	{ID: "pointer-compare", Setup: "p := new(uint64)\n\tq := new(uint64)", Core: "if p != q {\n\t\tr = 1\n\t}\n\tif p == p {\n\t\tr += 2\n\t}"},
	{ID: "slice-compare-nil-after-append", Setup: "var s []uint64", Core: "s = append(s, 1)\n\tif s != nil {\n\t\tr = 1\n\t}"},
	{ID: "map-compare-nil", Setup: "m := make(map[uint64]uint64)", Core: "if m != nil {\n\t\tr = 1\n\t}"},
	{ID: "bool-compare", Setup: "a := true\n\tb := false", Core: "if a != b {\n\t\tr = 1\n\t}"},

	// ---- conversions ----
	{ID: "conv-int", Setup: "a := uint64(1) << 40", Core: "r = uint64(int(a))"},
	{ID: "conv-uint16", Setup: "a := uint64(0x12345)", Core: "r = uint64(uint16(a))"},
	{ID: "conv-float", Setup: "a := uint64(7)", Core: "r = uint64(float64(a) / 2)"},
	{ID: "conv-byte-spelling", Setup: "a := uint64(0x1234)", Core: "r = uint64(byte(a))", Known: "c02ByteConversion"},
	{ID: "conv-named-narrow", Decls: "type Id%N% uint32", Setup: "a := uint64(0x123456789)", Core: "r = uint64(Id%N%(a))", Known: "c02NamedConversion"},
	{ID: "conv-named-same-width", Decls: "type W%N% uint64", Setup: "a := uint64(77)", Core: "r = uint64(W%N%(a)) + 1"},
	{ID: "conv-untyped-const", Core: "r = uint64(1 << 40)"},
	{ID: "const-expr-u32", Core: "var x uint32 = 1 << 20\n\tr = uint64(x + 1)", NoCtx: true, Known: "c02UntypedConstExpr"},
	{ID: "conv-string-rune", Core: "s := string(rune(65))\n\tr = uint64(len(s))", NoCtx: true},
	// string conversions × operand kinds (seeded change C02-9)
	{ID: "conv-string-of-byte-var", Setup: "var b byte = 0xe9", Core: "s := string(rune(b))\n\tr = uint64(len(s))", NoCtx: true},
	{ID: "conv-string-of-byte-direct", Setup: "var b byte = 0xe9", Core: "s := string(b)\n\tr = uint64(len(s))", NoCtx: true},
	{ID: "conv-string-of-u32-direct", Setup: "var b uint32 = 0xe9", Core: "s := string(rune(b))\n\tr = uint64(len(s)) + 1", NoCtx: true},
	{ID: "conv-runes-of-string", Setup: "t := \"é!\"", Core: "rs := []rune(t)\n\tr = uint64(len(rs))", NoCtx: true},
	{ID: "conv-parenthesised-string-type", Setup: "bs := make([]byte, 2)\n\tbs[0] = 104", Core: "s := (string)(bs)\n\tr = uint64(len(s)) + 1", NoCtx: true},
	{ID: "conv-named-string-of-bytes", Decls: "type Nsb%N% string", Setup: "bs := make([]byte, 2)\n\tbs[0] = 104", Core: "s := Nsb%N%(bs)\n\tr = uint64(len(s)) + 1", NoCtx: true},
	{ID: "conv-bytes-of-named-string", Decls: "type Nbs%N% string", Setup: "var s Nbs%N% = \"héllo\"", Core: "bs := []byte(s)\n\tr = uint64(len(bs)) + uint64(bs[1])", NoCtx: true},
	{ID: "conv-string-of-named-bytes", Decls: "type Nby%N% []byte", Setup: "var bs Nby%N% = make([]byte, 2)\n\tbs[0] = 104", Core: "s := string(bs)\n\tr = uint64(len(s)) + 1", NoCtx: true},
	{ID: "string-opassign-concat", Setup: "var s string = \"a\"\n\tt := \"bc\"", Core: "s += t\n\tr = uint64(len(s))"},
	{ID: "string-non-ascii-len", Setup: "s := \"héllo\"", Core: "r = uint64(len(s))"},
	{ID: "string-bytes-roundtrip-non-ascii", Setup: "s := \"日本\"", Core: "bs := []byte(s)\n\tt := string(bs)\n\tif t == s {\n\t\tr = uint64(len(bs)) + uint64(bs[0])\n\t}", NoCtx: true},
	{ID: "conv-uint32-of-u8", Setup: "var b byte = 200", Core: "r = uint64(uint32(b) * 2)"},

	// ---- slices, strings, arrays ----
	{ID: "slice-3index", Setup: "s := make([]uint64, 4, 8)", Core: "t := s[1:2:3]\n\tr = uint64(len(t)) + uint64(cap(t))", NoCtx: true},
	{ID: "slice-full", Setup: "s := make([]uint64, 4)", Core: "t := s[:]\n\tr = uint64(len(t))", NoCtx: true},
	{ID: "string-index", Setup: `s := "hello"`, Core: "r = uint64(s[1])"},
	{ID: "string-slice", Setup: `s := "hello"`, Core: "t := s[1:3]\n\tr = uint64(len(t))", NoCtx: true, Known: "c02NamedTypeCrash"},
	{ID: "string-slice-take", Setup: `s := "hello"`, Core: "t := s[:3]\n\tr = uint64(len(t))", NoCtx: true},
	{ID: "string-slice-skip", Setup: `s := "hello"`, Core: "t := s[2:]\n\tr = uint64(len(t))", NoCtx: true},
	{ID: "named-string-slice-take", Decls: "type Ns%N% string", Setup: "var s Ns%N% = \"hello\"", Core: "t := s[:3]\n\tr = uint64(len(t))", NoCtx: true},
	{ID: "array-pointer-slice-take", Core: "arr := new([4]uint64)\n\tt := arr[:2]\n\tr = uint64(len(t))", NoCtx: true},
	{ID: "array-pointer-slice-skip", Core: "arr := new([4]uint64)\n\tt := arr[1:]\n\tr = uint64(len(t))", NoCtx: true},
	{ID: "array-pointer-slice-sub", Core: "arr := new([4]uint64)\n\tt := arr[1:3]\n\tr = uint64(len(t))", NoCtx: true},
	{ID: "array-slice-take", Core: "var arr [4]uint64\n\tt := arr[:2]\n\tr = uint64(len(t))", NoCtx: true},
	{ID: "string-index-var", Setup: "s := \"hello\"\n\tvar i uint64 = 1", Core: "r = uint64(s[i])"},
	{ID: "array-pointer-index", Core: "arr := new([4]uint64)\n\tarr[1] = 3\n\tr = arr[1]", NoCtx: true},
	{ID: "array-local", Core: "var arr [3]uint64\n\tarr[1] = 5\n\tr = arr[1] + uint64(len(arr))", NoCtx: true},
	{ID: "array-literal", Core: "arr := [2]uint64{3, 4}\n\tr = arr[0] + arr[1]", NoCtx: true},
	{ID: "slice-literal-multi", Core: "s := []uint64{1, 2, 3}\n\tr = s[2] + uint64(len(s))", NoCtx: true},
	{ID: "map-literal", Core: "m := map[uint64]uint64{1: 2}\n\tr = m[1]", NoCtx: true},
	{ID: "struct-literal-unkeyed", Decls: "type Q%N% struct {\n\ta uint64\n\tb uint64\n}", Core: "q := Q%N%{3, 4}\n\tr = q.a*10 + q.b", NoCtx: true},
	{ID: "anonymous-struct", Core: "q := struct{ a uint64 }{a: 3}\n\tr = q.a", NoCtx: true},
	{ID: "float-constant", Core: "x := 1.5\n\tr = uint64(x * 2)", NoCtx: true},
	{ID: "rune-constant", Core: "x := 'a'\n\tr = uint64(x)", NoCtx: true},
	{ID: "string-with-quote", Core: "s := \"a\\\"b\"\n\tr = uint64(len(s))", NoCtx: true},
	{ID: "string-multiline", Core: "s := `a\nb`\n\tr = uint64(len(s))", NoCtx: true},
	{ID: "copy-named-slice", Decls: "type Bs%N% []byte", Setup: "var d Bs%N% = make([]byte, 3)\n\tsrc := make([]byte, 2)\n\tsrc[0] = 9", Core: "n := copy(d, src)\n\tr = uint64(n) + uint64(d[0])", Known: "c02NamedTypeCrash"},
	{ID: "slice-of-named-slice", Decls: "type Ws%N% []uint64", Setup: "var d Ws%N% = make([]uint64, 3)", Core: "t := d[1:]\n\tr = uint64(len(t))", NoCtx: true, Known: "c02NamedTypeCrash"},
	{ID: "empty-literal-named-slice", Decls: "type Es%N% []uint64", Core: "d := Es%N%{}\n\tr = uint64(len(d))", NoCtx: true, Known: "c02NamedTypeCrash"},
	{ID: "deref-named-pointer", Decls: "type Pp%N% *uint64", Setup: "x := new(uint64)\n\t*x = 4\n\tvar p Pp%N% = x", Core: "r = *p", Known: "c02NamedTypeCrash"},
	{ID: "len-of-array-pointer", Core: "arr := new([4]uint64)\n\tr = uint64(len(arr))", NoCtx: true},
	{ID: "cap-after-make", Setup: "s := make([]uint64, 2, 5)", Core: "r = uint64(cap(s))"},
	{ID: "nil-slice-compare-make0", Setup: "s := make([]uint64, 0)", Core: "if s != nil {\n\t\tr = 1\n\t}", Known: "c02Make0NotNil"},
	{ID: "nil-map", Core: "var m map[uint64]uint64 = nil\n\tr = uint64(len(m))", NoCtx: true},
	{ID: "map-key-u32", Core: "m := make(map[uint32]uint64)\n\tm[3] = 4\n\tr = m[3]", NoCtx: true},
	{ID: "map-key-bool", Core: "m := make(map[bool]uint64)\n\tm[true] = 4\n\tr = m[true]", NoCtx: true},
	{ID: "delete-named-map", Decls: "type Mm%N% map[uint64]uint64", Setup: "var m Mm%N% = make(map[uint64]uint64)\n\tm[1] = 2", Core: "delete(m, 1)\n\tr = uint64(len(m))"},

	// ---- statements ----
	{ID: "switch", Setup: "a := uint64(2)", Core: "switch a {\n\tcase 2:\n\t\tr = 7\n\tdefault:\n\t\tr = 8\n\t}"},
	{ID: "defer", Core: "defer func() {}()\n\tr = 1", NoCtx: true},
	{ID: "goto", Core: "goto done\ndone:\n\tr = 1", NoCtx: true},
	{ID: "labeled-break", Core: "outer:\n\tfor i := uint64(0); i < 3; i++ {\n\t\tfor j := uint64(0); j < 3; j++ {\n\t\t\tr = r + 1\n\t\t\tif j == 1 {\n\t\t\t\tbreak outer\n\t\t\t}\n\t\t\tcontinue\n\t\t}\n\t\tcontinue\n\t}", NoCtx: true},
	{ID: "go-with-args", Decls: "func spin%N%(x uint64) {}", Core: "go spin%N%(1)\n\tr = 1"},
	{ID: "go-named", Decls: "func spun%N%() {}", Core: "go spun%N%()\n\tr = 1"},
	{ID: "channel", Core: "c := make(chan uint64, 1)\n\tc <- 3\n\tr = <-c", NoCtx: true},
	{ID: "incdec-field", Decls: "type F%N% struct {\n\ta uint64\n}", Setup: "p := &F%N%{a: 1}", Core: "p.a++\n\tr = p.a"},
	{ID: "incdec-index", Setup: "s := make([]uint64, 2)", Core: "s[1]++\n\tr = s[1]"},
	{ID: "incdec-deref", Setup: "p := new(uint64)", Core: "*p++\n\tr = *p"},
	{ID: "incdec-define-var", Core: "x := uint64(3)\n\tx++\n\tr = x", NoCtx: true},
	{ID: "incdec-u32", Setup: "var x uint32 = 7", Core: "x++\n\tr = uint64(x)", Known: "c02IncDecNarrow"},
	{ID: "incdec-u8-wrap", Setup: "var x byte = 255", Core: "x++\n\tr = uint64(x)", Known: "c02IncDecNarrow"},
	{ID: "assign-to-define-var", Core: "x := uint64(3)\n\tx = 4\n\tr = x", NoCtx: true},
	{ID: "assign-to-param", Decls: "func setp%N%(x uint64) uint64 {\n\tx = x + 1\n\treturn x\n}", Core: "r = setp%N%(4)"},
	{ID: "range-string", Core: "for _, c := range \"ab\" {\n\t\tr += uint64(c)\n\t}", NoCtx: true},
	{ID: "range-int", Core: "for i := range 3 {\n\t\tr += uint64(i)\n\t}", NoCtx: true},
	{ID: "range-array", Core: "arr := [2]uint64{1, 2}\n\tfor _, x := range arr {\n\t\tr += x\n\t}", NoCtx: true},
	{ID: "range-break", Setup: "s := make([]uint64, 3)", Core: "for i := range s {\n\t\tr += uint64(i) + 1\n\t\tbreak\n\t}"},
	{ID: "range-continue-mid", Setup: "s := make([]uint64, 3)", Core: "for i := range s {\n\t\tif i == 1 {\n\t\t\tcontinue\n\t\t}\n\t\tr += 1\n\t}"},
	// return inside loops × nesting × results (seeded change C01-18)
	{ID: "return-in-tail-loop-noresult", Decls: "func ril%N%(p *uint64, n uint64) {\n\tfor i := uint64(0); i < n; i++ {\n\t\tif i == 2 {\n\t\t\treturn\n\t\t}\n\t\t*p = *p + 1\n\t}\n}", Setup: "c := new(uint64)", Core: "ril%N%(c, 5)\n\tr = *c + 10"},
	{ID: "return-in-nested-tail-loop-noresult", Decls: "func rin%N%(p *uint64, n uint64) {\n\tfor i := uint64(0); i < n; i++ {\n\t\tfor j := uint64(0); j < n; j++ {\n\t\t\tif i == 1 && j == 2 {\n\t\t\t\treturn\n\t\t\t}\n\t\t\t*p = *p + 1\n\t\t}\n\t}\n}", Setup: "c := new(uint64)", Core: "rin%N%(c, 4)\n\tr = *c + 10"},
	{ID: "return-in-nontail-loop-noresult", Decls: "func rit%N%(p *uint64, n uint64) {\n\tfor i := uint64(0); i < n; i++ {\n\t\tif i == 2 {\n\t\t\treturn\n\t\t}\n\t\t*p = *p + 1\n\t}\n\t*p = *p + 100\n}", Setup: "c := new(uint64)", Core: "rit%N%(c, 5)\n\tr = *c + 10"},
	{ID: "return-value-in-loop", Decls: "func riv%N%(n uint64) uint64 {\n\tfor i := uint64(0); i < n; i++ {\n\t\tif i == 2 {\n\t\t\treturn i + 40\n\t\t}\n\t}\n\treturn 7\n}", Core: "r = riv%N%(5)*100 + riv%N%(1)"},
	{ID: "return-in-range-loop", Decls: "func rir%N%(s []uint64) uint64 {\n\tfor i, x := range s {\n\t\tif x == 0 && i == 1 {\n\t\t\treturn uint64(i) + 40\n\t\t}\n\t}\n\treturn 7\n}", Setup: "s := make([]uint64, 3)", Core: "r = rir%N%(s)"},
	{ID: "return-in-infinite-loop", Decls: "func rif%N%(n uint64) uint64 {\n\tvar i uint64 = 0\n\tfor {\n\t\tif i >= n {\n\t\t\treturn i + 1\n\t\t}\n\t\ti = i + 1\n\t}\n}", Core: "r = rif%N%(4)"},
	{ID: "return-in-loop-inside-closure", Setup: "c := new(uint64)", Core: "f := func() {\n\t\tfor i := uint64(0); i < 5; i++ {\n\t\t\tif i == 2 {\n\t\t\t\treturn\n\t\t\t}\n\t\t\t*c = *c + 1\n\t\t}\n\t}\n\tf()\n\tr = *c + 10", NoCtx: true},
	// loop init clause × kind of variable (seeded change C01-22)
	{ID: "for-init-assign-define-var", Core: "i := uint64(7)\n\tfor i = 0; i < 3; i++ {\n\t\tr += 2\n\t}\n\tr += i", NoCtx: true},
	{ID: "for-init-assign-param", Decls: "func fia%N%(i uint64) uint64 {\n\tvar s uint64\n\tfor i = 1; i < 4; i++ {\n\t\ts += i\n\t}\n\treturn s*10 + i\n}", Core: "r = fia%N%(9)"},
	{ID: "for-init-assign-var", Core: "var i uint64 = 7\n\tfor i = 0; i < 3; i++ {\n\t\tr += 2\n\t}\n\tr += i", NoCtx: true},
	{ID: "for-init-assign-pointer-var", Setup: "a := new(uint64)\n\t*a = 42\n\tb := new(uint64)", Core: "p := a\n\tfor p = b; *p < 2; *p = *p + 1 {\n\t\tr += 1\n\t}\n\tr += *a", NoCtx: true},
	{ID: "for-post-non-increment", Core: "for i := uint64(1); i < 40; i = i*2 + 1 {\n\t\tr += i\n\t}", NoCtx: true},
	{ID: "for-continue-runs-post", Core: "for i := uint64(0); i < 6; i += 2 {\n\t\tif i == 2 {\n\t\t\tcontinue\n\t\t}\n\t\tr += i + 1\n\t}", NoCtx: true},
	{ID: "for-no-init", Setup: "var i uint64 = 1", Core: "for ; i < 4; i++ {\n\t\tr += i\n\t}\n\tr = r*10 + i"},
	{ID: "for-no-post", Core: "for i := uint64(0); i < 3; {\n\t\ti = i + 1\n\t\tr += i\n\t}", NoCtx: true},
	// switch × position × clause ending (seeded change C02-10)
	{ID: "switch-in-loop-clause-break", Setup: "s := make([]uint64, 4)\n\ts[2] = 5", Core: "for i := uint64(0); i < 4; i++ {\n\t\tswitch s[i] {\n\t\tcase 0:\n\t\t\tr += 1\n\t\t\tbreak\n\t\tdefault:\n\t\t\tr += 10\n\t\t}\n\t}", NoCtx: true},
	{ID: "switch-in-loop-clause-continue", Setup: "s := make([]uint64, 4)\n\ts[2] = 5", Core: "for i := uint64(0); i < 4; i++ {\n\t\tswitch s[i] {\n\t\tcase 0:\n\t\t\tcontinue\n\t\tdefault:\n\t\t\tr += 10\n\t\t}\n\t\tr += 1\n\t}", NoCtx: true},
	{ID: "switch-default-first", Setup: "a := uint64(2)", Core: "switch a {\n\tdefault:\n\t\tr = 8\n\tcase 2:\n\t\tr = 7\n\t}"},
	{ID: "switch-multi-value-case", Setup: "a := uint64(3)", Core: "switch a {\n\tcase 1, 3, 5:\n\t\tr = 7\n\tcase 2:\n\t\tr = 8\n\t}"},
	{ID: "switch-tagless", Setup: "a := uint64(3)", Core: "switch {\n\tcase a > 5:\n\t\tr = 1\n\tcase a > 2:\n\t\tr = 2\n\tdefault:\n\t\tr = 3\n\t}"},
	{ID: "switch-effectful-tag", Decls: "func bmpsw%N%(p *uint64) uint64 {\n\t*p = *p + 1\n\treturn *p\n}", Setup: "c := new(uint64)", Core: "switch bmpsw%N%(c) {\n\tcase 5:\n\t\tr = 1\n\tcase 1:\n\t\tr = 2\n\tdefault:\n\t\tr = 3\n\t}\n\tr = r*10 + *c"},
	{ID: "switch-with-init", Setup: "a := uint64(2)", Core: "switch b := a + 1; b {\n\tcase 3:\n\t\tr = b\n\tdefault:\n\t\tr = 9\n\t}"},
	{ID: "switch-with-return-in-clause", Decls: "func swr%N%(a uint64) uint64 {\n\tswitch a {\n\tcase 1:\n\t\treturn 10\n\tcase 2:\n\t\treturn 20\n\t}\n\treturn 30\n}", Core: "r = swr%N%(2) + swr%N%(7)"},
	{ID: "defer-in-function", Decls: "func dfr%N%(p *uint64) uint64 {\n\tdefer func() {\n\t\t*p = *p + 100\n\t}()\n\t*p = *p + 1\n\treturn *p\n}", Setup: "c := new(uint64)", Core: "r = dfr%N%(c)*1000 + *c"},
	// struct literal: field order × omitted fields × constant-expression values (seeded change C01-23)
	{ID: "struct-literal-reordered-const-expr", Decls: "type Hd%N% struct {\n\tkind byte\n\tlen  uint32\n\toff  uint64\n}", Core: "h := Hd%N%{off: 8 * 512, len: 16, kind: 3}\n\tr = h.off + uint64(h.len) + uint64(h.kind)", NoCtx: true},
	{ID: "struct-literal-omitted-leading-const-expr", Decls: "type He%N% struct {\n\tkind byte\n\tlen  uint32\n\toff  uint64\n}", Core: "h := He%N%{off: (1 << 12) + 3}\n\tr = h.off + uint64(h.len) + uint64(h.kind)", NoCtx: true},
	{ID: "struct-literal-reordered-vars", Decls: "type Hf%N% struct {\n\tkind byte\n\tlen  uint32\n\toff  uint64\n}", Setup: "var k byte = 3\n\tvar o uint64 = 4096", Core: "h := Hf%N%{off: o, kind: k}\n\tr = h.off + uint64(h.len) + uint64(h.kind)", NoCtx: true},
	{ID: "struct-literal-named-const-field", Decls: "const Sec%N% uint64 = 512\n\ntype Hg%N% struct {\n\tkind byte\n\toff  uint64\n}", Core: "h := Hg%N%{off: 8 * Sec%N%}\n\tr = h.off + uint64(h.kind)", NoCtx: true},
	// negated comparisons × operator × equal / unequal operands (seeded change C01-24)
	{ID: "negated-comparisons-equal-operands", Setup: "a := uint64(7)\n\tb := uint64(7)", Core: "if !(a <= b) {\n\t\tr += 1\n\t}\n\tif !(a >= b) {\n\t\tr += 2\n\t}\n\tif !(a < b) {\n\t\tr += 4\n\t}\n\tif !(a > b) {\n\t\tr += 8\n\t}\n\tif !(a == b) {\n\t\tr += 16\n\t}\n\tif !(a != b) {\n\t\tr += 32\n\t}"},
	{ID: "negated-comparisons-unequal-operands-u32", Setup: "var a uint32 = 3\n\tvar b uint32 = 9", Core: "if !(a <= b) {\n\t\tr += 1\n\t}\n\tif !(a >= b) {\n\t\tr += 2\n\t}\n\tif !(b < a) {\n\t\tr += 4\n\t}\n\tif !(b > a) {\n\t\tr += 8\n\t}\n\tif !(a == b) {\n\t\tr += 16\n\t}\n\tif !(a != b) {\n\t\tr += 32\n\t}"},
	{ID: "if-init", Setup: "a := uint64(2)", Core: "if b := a + 1; b == 3 {\n\t\tr = b\n\t}"},
	{ID: "for-two-vars", Core: "for i, j := uint64(0), uint64(5); i < j; i++ {\n\t\tr += 1\n\t}", NoCtx: true},
	{ID: "multi-define-values", Core: "a, b := uint64(1), uint64(2)\n\tr = a*10 + b", NoCtx: true},
	{ID: "multi-var", Core: "var a, b uint64\n\tr = a + b + 1", NoCtx: true},
	{ID: "local-const", Core: "const k uint64 = 4\n\tr = k", NoCtx: true},
	{ID: "local-type", Core: "type L struct{ a uint64 }\n\tl := L{a: 2}\n\tr = l.a", NoCtx: true},
	// blank identifiers × statement form (seeded change C07-6)
	{ID: "blank-multi-assign-two", Decls: "func twob%N%() (uint64, uint64) {\n\treturn 1, 2\n}", Core: "_, _ = twob%N%()\n\tr = 1"},
	{ID: "blank-multi-assign-among-targets", Decls: "func threeb%N%() (uint64, uint64, uint64) {\n\treturn 1, 2, 3\n}", Setup: "var x uint64 = 0", Core: "_, x, _ = threeb%N%()\n\tr = x"},
	{ID: "blank-single-assign", Setup: "x := uint64(3)", Core: "_ = x\n\tr = x"},
	{ID: "blank-define-one-of-two", Decls: "func twoc%N%() (uint64, uint64) {\n\treturn 1, 2\n}", Core: "x, _ := twoc%N%()\n\tr = x", NoCtx: true},
	{ID: "blank-define-both", Decls: "func twod%N%() (uint64, uint64) {\n\treturn 1, 2\n}", Core: "var a uint64\n\tvar b uint64\n\ta, b = twod%N%()\n\t_, _ = a, b\n\tr = a + b", NoCtx: true},
	{ID: "blank-range-both", Setup: "s := make([]uint64, 3)", Core: "for _, _ = range s {\n\t\tr += 1\n\t}"},
	{ID: "blank-range-key-only", Setup: "s := make([]uint64, 3)", Core: "for _ = range s {\n\t\tr += 1\n\t}"},
	{ID: "blank-map-comma-ok", Setup: "m := make(map[uint64]uint64)\n\tm[1] = 2", Core: "_, ok := m[1]\n\tif ok {\n\t\tr = 1\n\t}", NoCtx: true},
	{ID: "blank-var-decl", Core: "var _ uint64 = 3\n\tr = 1", NoCtx: true},
	{ID: "multi-assign-index-uses-assigned", Decls: "func twoe%N%() (uint64, uint64) {\n\treturn 1, 7\n}", Setup: "var i uint64 = 0\n\ta := make([]uint64, 3)", Core: "i, a[i] = twoe%N%()\n\tr = a[0]*10 + a[1] + i*100"},
	{ID: "swap-assign", Setup: "var a uint64 = 1\n\tvar b uint64 = 2", Core: "a, b = b, a\n\tr = a*10 + b"},
	{ID: "loop-return", Decls: "func lr%N%() uint64 {\n\tfor i := uint64(0); i < 3; i++ {\n\t\tif i == 1 {\n\t\t\treturn i + 10\n\t\t}\n\t\tcontinue\n\t}\n\treturn 0\n}", Core: "r = lr%N%()"},
	{ID: "early-return-with-else", Decls: "func ee%N%(x uint64) uint64 {\n\tvar y uint64\n\tif x == 0 {\n\t\treturn 5\n\t} else {\n\t\ty = 1\n\t}\n\treturn y + 1\n}", Core: "r = ee%N%(1)*10 + ee%N%(0)"},
	{ID: "early-return-with-else-if", Decls: "func eei%N%(x uint64) uint64 {\n\tvar y uint64\n\tif x == 0 {\n\t\treturn 5\n\t} else if x == 1 {\n\t\ty = 1\n\t}\n\treturn y + 1\n}", Core: "r = eei%N%(1)*10 + eei%N%(0)"},
	{ID: "break-with-else-if", Core: "for i := uint64(0); i < 3; i++ {\n\t\tif i == 2 {\n\t\t\tbreak\n\t\t} else if i == 1 {\n\t\t\tr += 10\n\t\t}\n\t\tr += 1\n\t}", NoCtx: true},
	{ID: "nested-early-return", Decls: "func ne%N%(x uint64) uint64 {\n\tif x < 5 {\n\t\tif x == 0 {\n\t\t\treturn 7\n\t\t}\n\t}\n\treturn 1\n}", Core: "r = ne%N%(0)*10 + ne%N%(2)"},
	{ID: "break-non-tail", Core: "for i := uint64(0); i < 3; i++ {\n\t\tif i == 1 {\n\t\t\tbreak\n\t\t}\n\t\tr += 1\n\t}", NoCtx: true},
	{ID: "continue-then-code", Core: "for i := uint64(0); i < 3; i++ {\n\t\tif i == 1 {\n\t\t\tr += 10\n\t\t\tcontinue\n\t\t}\n\t\tr += 1\n\t\tcontinue\n\t}", NoCtx: true},
	{ID: "loop-fallthrough-if", Core: "for i := uint64(0); i < 3; i++ {\n\t\tif i == 1 {\n\t\t\tr += 10\n\t\t}\n\t\tr += 1\n\t}", NoCtx: true},
	{ID: "bare-block", Setup: "x := uint64(1)", Core: "{\n\t\tx := uint64(5)\n\t\tr += x\n\t}\n\tr += x", NoCtx: true, Known: "c02BareBlockScope"},
	{ID: "loop-var-shadow-after", Setup: "i := uint64(7)", Core: "for i := uint64(0); i < 2; i++ {\n\t\tr += 1\n\t}\n\tr += i * 100", NoCtx: true, Known: "c02LoopVarScope"},
	{ID: "pointer-assign-nil", Decls: "type N%N% struct {\n\ta uint64\n}", Setup: "var p *N%N% = &N%N%{a: 1}", Core: "p = nil\n\tif p == nil {\n\t\tr = 1\n\t}", Known: "c02PointerNilAssign"},
	{ID: "address-of-define-var", Core: "x := uint64(3)\n\tp := &x\n\t*p = 4\n\tr = x + *p", NoCtx: true, Known: "c02AddressOfNonVar"},
	{ID: "field-store-define-var", Decls: "type Fs%N% struct {\n\ta uint64\n}", Core: "x := Fs%N%{a: 1}\n\tx.a = 2\n\tr = x.a", NoCtx: true, Known: "c02AddressOfNonVar"},
	{ID: "field-store-param", Decls: "type Fp%N% struct {\n\ta uint64\n}\n\nfunc fsp%N%(x Fp%N%) uint64 {\n\tx.a = 2\n\treturn x.a\n}", Core: "r = fsp%N%(Fp%N%{a: 1})", Known: "c02AddressOfNonVar"},
	{ID: "closure-captures-loop-var", Decls: "type H%N% struct {\n\tf func() uint64\n}", Setup: "h := &H%N%{}", Core: "for i := uint64(0); i < 3; i++ {\n\t\th.f = func() uint64 {\n\t\t\treturn i\n\t\t}\n\t\tcontinue\n\t}\n\tr = h.f()", NoCtx: true, Known: "c02LoopVarCapture"},
	{ID: "eval-order-args", Decls: "func bump%N%(p *uint64) uint64 {\n\t*p = *p + 1\n\treturn *p\n}\n\nfunc pair%N%(a uint64, b uint64) uint64 {\n\treturn a*10 + b\n}", Setup: "c := new(uint64)", Core: "r = pair%N%(bump%N%(c), bump%N%(c))", Known: "c02EvalOrder"},
	{ID: "method-value", Decls: "type Mv%N% struct {\n\ta uint64\n}\n\nfunc (m Mv%N%) get() uint64 {\n\treturn m.a\n}", Setup: "m := Mv%N%{a: 6}", Core: "f := m.get\n\tr = f()", NoCtx: true, Known: "c02MethodValue"},
	// method values of methods WITH parameters are partial applications (receiver evaluated when the value is made; seeded change C01-5)
	{ID: "method-value-param-receiver-copied", Decls: "type Mw%N% struct {\n\ta uint64\n}\n\nfunc (m Mw%N%) add(x uint64) uint64 {\n\treturn m.a + x\n}", Setup: "var m Mw%N% = Mw%N%{a: 6}", Core: "f := m.add\n\tm.a = 100\n\tr = f(1)*1000 + m.a", NoCtx: true},
	{ID: "method-value-param-pointer-shared", Decls: "type Mx2%N% struct {\n\ta uint64\n}\n\nfunc (m *Mx2%N%) add(x uint64) uint64 {\n\treturn m.a + x\n}", Setup: "p := &Mx2%N%{a: 6}", Core: "f := p.add\n\tp.a = 100\n\tr = f(1)", NoCtx: true},
	{ID: "method-value-param-pointer-var-reassigned", Decls: "type My%N% struct {\n\ta uint64\n}\n\nfunc (m *My%N%) add(x uint64) uint64 {\n\treturn m.a + x\n}", Setup: "var p *My%N% = &My%N%{a: 6}", Core: "f := p.add\n\tp = &My%N%{a: 50}\n\tr = f(1)*1000 + p.a", NoCtx: true},
	{ID: "method-value-param-through-field", Decls: "type Mz%N% struct {\n\ta uint64\n}\n\nfunc (m Mz%N%) add(x uint64) uint64 {\n\treturn m.a + x\n}\n\ntype Hz%N% struct {\n\tin Mz%N%\n}", Setup: "h := &Hz%N%{in: Mz%N%{a: 6}}", Core: "f := h.in.add\n\th.in = Mz%N%{a: 70}\n\tr = f(1)*1000 + h.in.a", NoCtx: true},
	{ID: "method-value-param-passed", Decls: "type Mq%N% struct {\n\ta uint64\n}\n\nfunc (m Mq%N%) add(x uint64) uint64 {\n\treturn m.a + x\n}\n\nfunc apq%N%(f func(uint64) uint64) uint64 {\n\treturn f(2)\n}", Setup: "m := Mq%N%{a: 6}", Core: "r = apq%N%(m.add)"},
	{ID: "implicit-addr-receiver", Decls: "type Ia%N% struct {\n\ta uint64\n}\n\nfunc (m *Ia%N%) inc() {\n\tm.a = m.a + 1\n}", Setup: "var m Ia%N% = Ia%N%{a: 6}", Core: "m.inc()\n\tr = m.a", Known: "c02ImplicitReceiver"},
	{ID: "implicit-deref-receiver", Decls: "type Id2%N% struct {\n\ta uint64\n}\n\nfunc (m Id2%N%) get() uint64 {\n\treturn m.a\n}", Setup: "m := &Id2%N%{a: 6}", Core: "r = m.get()", Known: "c02ImplicitReceiver"},
	{ID: "type-assertion", Core: "var x interface{} = uint64(3)\n\tr = x.(uint64)", NoCtx: true, Known: "c02InterfaceTypeInfo"},
	{ID: "variadic-call", Decls: "func va%N%(xs ...uint64) uint64 {\n\treturn uint64(len(xs))\n}", Core: "r = va%N%(1, 2)", Known: "c02Variadic"},
	{ID: "named-result", Decls: "func nr%N%() (x uint64) {\n\tx = 3\n\treturn\n}", Core: "r = nr%N%()"},
	{ID: "func-var", Core: "var f func() uint64 = func() uint64 {\n\t\treturn 2\n\t}\n\tr = f()", NoCtx: true},
	{ID: "embedded-field", Decls: "type Eb%N% struct {\n\ta uint64\n}\n\ntype Eo%N% struct {\n\tEb%N%\n}", Core: "o := Eo%N%{}\n\tr = o.a + 1", NoCtx: true},
	// embedded struct: promoted field/method × read / store / address / explicit path (seeded change C02-6)
	{ID: "embedded-promoted-store", Decls: "type Eb3%N% struct {\n\ta uint64\n}\n\nfunc (e Eb3%N%) get() uint64 {\n\treturn e.a + 1\n}\n\ntype Eo3%N% struct {\n\tEb3%N%\n\tb uint64\n}", Core: "var o Eo3%N%\n\to.a = 7\n\tr = o.Eb3%N%.a + o.b", NoCtx: true},
	{ID: "embedded-promoted-store-through-pointer", Decls: "type Eb3%N% struct {\n\ta uint64\n}\n\nfunc (e Eb3%N%) get() uint64 {\n\treturn e.a + 1\n}\n\ntype Eo3%N% struct {\n\tEb3%N%\n\tb uint64\n}", Core: "o := &Eo3%N%{}\n\to.a = 7\n\tr = o.Eb3%N%.a + o.b", NoCtx: true},
	{ID: "embedded-promoted-address", Decls: "type Eb3%N% struct {\n\ta uint64\n}\n\nfunc (e Eb3%N%) get() uint64 {\n\treturn e.a + 1\n}\n\ntype Eo3%N% struct {\n\tEb3%N%\n\tb uint64\n}", Core: "o := &Eo3%N%{}\n\tp := &o.a\n\t*p = 7\n\tr = o.Eb3%N%.a", NoCtx: true},
	{ID: "embedded-promoted-opassign", Decls: "type Eb3%N% struct {\n\ta uint64\n}\n\nfunc (e Eb3%N%) get() uint64 {\n\treturn e.a + 1\n}\n\ntype Eo3%N% struct {\n\tEb3%N%\n\tb uint64\n}", Core: "o := &Eo3%N%{}\n\to.a += 7\n\tr = o.Eb3%N%.a", NoCtx: true},
	{ID: "embedded-promoted-method", Decls: "type Eb3%N% struct {\n\ta uint64\n}\n\nfunc (e Eb3%N%) get() uint64 {\n\treturn e.a + 1\n}\n\ntype Eo3%N% struct {\n\tEb3%N%\n\tb uint64\n}", Core: "o := Eo3%N%{b: 2}\n\tr = o.get() + o.b", NoCtx: true},
	{ID: "embedded-explicit-path", Decls: "type Eb3%N% struct {\n\ta uint64\n}\n\nfunc (e Eb3%N%) get() uint64 {\n\treturn e.a + 1\n}\n\ntype Eo3%N% struct {\n\tEb3%N%\n\tb uint64\n}", Core: "o := &Eo3%N%{}\n\to.Eb3%N%.a = 7\n\tr = o.Eb3%N%.a + o.Eb3%N%.get()", NoCtx: true},
	{ID: "embedded-literal", Decls: "type Eb3%N% struct {\n\ta uint64\n}\n\nfunc (e Eb3%N%) get() uint64 {\n\treturn e.a + 1\n}\n\ntype Eo3%N% struct {\n\tEb3%N%\n\tb uint64\n}", Core: "o := Eo3%N%{Eb3%N%: Eb3%N%{a: 3}, b: 2}\n\tr = o.Eb3%N%.a + o.b", NoCtx: true},
	{ID: "multi-name-field", Decls: "type Mf%N% struct {\n\ta, b uint64\n}", Core: "o := Mf%N%{a: 1, b: 2}\n\tr = o.a + o.b", NoCtx: true},
	{ID: "generic-struct", Decls: "type Gs%N%[T any] struct {\n\tv T\n}", Core: "o := Gs%N%[uint64]{v: 3}\n\tr = o.v", NoCtx: true},
	// ---- package-level constants: untyped / typed × the width they are used at (seeded change C02-3) ----
	{ID: "untyped-const-at-u64", Decls: "const Nu%N% = 10", Setup: "var x uint64 = 9", Core: "r = x + Nu%N%"},
	{ID: "untyped-const-compare-u32", Decls: "const Nc%N% = 10", Setup: "var x uint32 = 9", Core: "if x+1 == Nc%N% {\n\t\tr = 1\n\t}"},
	{ID: "untyped-const-arith-u32", Decls: "const Na%N% = 10", Setup: "var x uint32 = 9", Core: "r = uint64(x + Na%N%)"},
	{ID: "untyped-const-arith-u8", Decls: "const Nb%N% = 200", Setup: "var x byte = 100", Core: "r = uint64(x + Nb%N%)"},
	{ID: "untyped-const-assign-u32", Decls: "const Ns%N% = 70000", Setup: "var x uint32 = 1", Core: "x = Ns%N%\n\tr = uint64(x) + 1"},
	{ID: "untyped-const-append-byte", Decls: "const Np%N% = 65", Setup: "var b []byte", Core: "b = append(b, Np%N%)\n\tr = uint64(b[0]) + uint64(len(b))"},
	{ID: "untyped-const-conv-u32", Decls: "const Nv%N% = 10", Setup: "var x uint32 = 5", Core: "r = uint64(uint32(Nv%N%) + x)"},
	{ID: "untyped-const-index", Decls: "const Ni%N% = 2", Setup: "s := make([]uint64, 4)\n\ts[2] = 7", Core: "r = s[Ni%N%]"},
	{ID: "untyped-const-shift-count", Decls: "const Nh%N% = 3", Setup: "var x uint64 = 5", Core: "r = x << Nh%N%"},
	{ID: "untyped-const-expr-decl", Decls: "const Ne%N% = 1 << 20", Setup: "var x uint64 = 1", Core: "r = x + Ne%N%"},
	{ID: "untyped-const-of-const", Decls: "const Nq%N% = 10\n\nconst Nr%N% = Nq%N% + 1", Setup: "var x uint32 = 1", Core: "r = uint64(x + Nr%N%)"},
	{ID: "untyped-const-bool", Decls: "const Bt%N% = true", Core: "if Bt%N% {\n\t\tr = 1\n\t}"},
	{ID: "untyped-const-string", Decls: "const St%N% = \"ab\"", Setup: "t := \"c\"", Core: "u := St%N% + t\n\tr = uint64(len(u))", NoCtx: true},
	{ID: "untyped-const-float", Decls: "const Fl%N% = 2.0", Setup: "var x uint64 = 3", Core: "r = x * Fl%N%"},
	{ID: "untyped-const-rune", Decls: "const Ru%N% = 'a'", Setup: "var x uint64 = 3", Core: "r = x + Ru%N%"},
	{ID: "typed-const-u32-widened", Decls: "const Tw%N% uint32 = 10", Setup: "var x uint64 = 3", Core: "r = x + uint64(Tw%N%)"},
	{ID: "typed-const-u8-arith", Decls: "const Tb%N% byte = 200", Setup: "var x byte = 100", Core: "r = uint64(x + Tb%N%)"},
	{ID: "typed-const-u64-narrowed", Decls: "const Tn%N% uint64 = 300", Setup: "var x uint32 = 3", Core: "r = uint64(x + uint32(Tn%N%))"},
	{ID: "global-var", Decls: "var Gv%N% uint64 = 4", Core: "r = Gv%N% + 1"},
	{ID: "global-var-untyped", Decls: "var Gu%N% = 4", Core: "r = uint64(Gu%N%) + 1"},
	{ID: "iota-const", Decls: "const (\n\tIa%N% uint64 = iota\n\tIb%N%\n\tIc%N%\n)", Core: "r = Ic%N%"},
	{ID: "int-type", Core: "var x int = 3\n\tr = uint64(x)", NoCtx: true},
	{ID: "uint8-spelling", Setup: "a := uint64(300)", Core: "var x uint8 = uint8(a)\n\tr = uint64(x)", NoCtx: true},
	{ID: "mutex-by-value", Decls: "type Mx%N% struct {\n\tmu sync.Mutex\n}", Core: "m := &Mx%N%{}\n\tm.mu.Lock()\n\tr = 1\n\tm.mu.Unlock()", NoCtx: true},

	// ---- builtins with unusual but type-correct arguments ----
	{ID: "panic-int", Setup: "a := uint64(1)", Core: "if a == 0 {\n\t\tpanic(42)\n\t}\n\tr = 1"},
	{ID: "panic-typed-const", Decls: "const errCode%N% uint64 = 7", Setup: "a := uint64(1)", Core: "if a == 0 {\n\t\tpanic(errCode%N%)\n\t}\n\tr = 1"},
	{ID: "panic-bool", Setup: "a := uint64(1)", Core: "if a == 0 {\n\t\tpanic(true)\n\t}\n\tr = 1"},
	{ID: "panic-float", Setup: "a := uint64(1)", Core: "if a == 0 {\n\t\tpanic(1.5)\n\t}\n\tr = 1"},
	{ID: "panic-rune", Setup: "a := uint64(1)", Core: "if a == 0 {\n\t\tpanic('x')\n\t}\n\tr = 1"},
	{ID: "panic-nil", Setup: "a := uint64(1)", Core: "if a == 0 {\n\t\tpanic(nil)\n\t}\n\tr = 1"},
	{ID: "panic-string-var", Setup: "a := uint64(1)\n\tmsg := \"boom\"", Core: "if a == 0 {\n\t\tpanic(msg)\n\t}\n\tr = uint64(len(msg))"},
	{ID: "panic-const-concat", Setup: "a := uint64(1)", Core: "if a == 0 {\n\t\tpanic(\"a\" + \"b\")\n\t}\n\tr = 1"},
	{ID: "panic-named-string-const", Decls: "const msg%N% = \"bad\"", Setup: "a := uint64(1)", Core: "if a == 0 {\n\t\tpanic(msg%N%)\n\t}\n\tr = 1"},
	{ID: "copy-from-string", Setup: "b := make([]byte, 3)", Core: "n := copy(b, \"hey\")\n\tr = uint64(n) + uint64(b[0])", Known: "c02StringAsSlice"},
	{ID: "append-string-spread", Setup: "var b []byte", Core: "b = append(b, \"hey\"...)\n\tr = uint64(len(b))", Known: "c02StringAsSlice"},
	{ID: "len-string-literal", Core: "r = uint64(len(\"hello\"))"},
	{ID: "len-array", Core: "var arr [3]uint64\n\tr = uint64(len(arr)) + uint64(cap(arr))", NoCtx: true},
	{ID: "new-slice", Core: "p := new([]uint64)\n\tr = uint64(len(*p))", NoCtx: true},
	{ID: "new-pointer", Decls: "type Np%N% struct {\n\ta uint64\n}", Core: "p := new(*Np%N%)\n\tif *p == nil {\n\t\tr = 1\n\t}", NoCtx: true},
	{ID: "new-bool-string", Core: "p := new(bool)\n\tq := new(string)\n\tif !*p {\n\t\tr = uint64(len(*q)) + 1\n\t}", NoCtx: true},
	{ID: "make-len-u32", Setup: "var n uint32 = 3", Core: "s := make([]uint64, n)\n\tr = uint64(len(s))", NoCtx: true, Known: "c02NarrowIndex"},
	{ID: "index-u32", Setup: "s := make([]uint64, 4)\n\ts[2] = 9\n\tvar i uint32 = 2", Core: "r = s[i]", Known: "c02NarrowIndex"},
	{ID: "index-store-u8", Setup: "s := make([]uint64, 4)\n\tvar i byte = 3", Core: "s[i] = 5\n\tr = s[3]", Known: "c02NarrowIndex"},
	{ID: "slice-bounds-u32", Setup: "s := make([]uint64, 4)\n\tvar lo uint32 = 1\n\tvar hi uint32 = 3", Core: "t := s[lo:hi]\n\tr = uint64(len(t))", NoCtx: true, Known: "c02NarrowIndex"},
	{ID: "make-len-const-expr", Core: "s := make([]uint64, 1+2)\n\tr = uint64(len(s))", NoCtx: true},
	{ID: "make-map-size-hint", Core: "m := make(map[uint64]uint64, 10)\n\tm[1] = 2\n\tr = m[1] + uint64(len(m))", NoCtx: true},
	{ID: "make-zero-zero", Core: "s := make([]uint64, 0, 0)\n\ts = append(s, 4)\n\tr = s[0]", NoCtx: true},
	{ID: "builtin-min-max", Setup: "a := uint64(3)\n\tb := uint64(9)", Core: "r = min(a, b)*10 + max(a, b)"},
	{ID: "builtin-clear", Setup: "m := make(map[uint64]uint64)\n\tm[1] = 2", Core: "clear(m)\n\tr = uint64(len(m)) + 1"},
	{ID: "bytes-of-literal", Core: "b := []byte(\"hi\")\n\tr = uint64(len(b)) + uint64(b[0])", NoCtx: true},
	{ID: "string-of-byte-literal", Core: "s := string([]byte{104})\n\tr = uint64(len(s))", NoCtx: true},
	{ID: "conv-of-constant", Core: "r = uint64(uint32(7)) + uint64(uint8(255))"},
	{ID: "delete-string-key", Setup: "m := make(map[string]uint64)\n\tm[\"a\"] = 2", Core: "delete(m, \"a\")\n\tr = uint64(len(m)) + 1"},
	{ID: "call-result-as-stmt", Decls: "func two%N%() (uint64, uint64) {\n\treturn 1, 2\n}", Core: "two%N%()\n\tr = 1"},
	{ID: "method-on-literal", Decls: "type Ml%N% struct {\n\ta uint64\n}\n\nfunc (m Ml%N%) get() uint64 {\n\treturn m.a\n}", Core: "r = Ml%N%{a: 4}.get()"},
	{ID: "nested-func-literal-call", Core: "r = func() uint64 {\n\t\treturn 5\n\t}()"},
	{ID: "index-of-call", Decls: "func mk%N%() []uint64 {\n\treturn make([]uint64, 2)\n}", Core: "r = mk%N%()[1] + 1"},
	{ID: "selector-of-call", Decls: "type Sc%N% struct {\n\ta uint64\n}\n\nfunc mks%N%() Sc%N% {\n\treturn Sc%N%{a: 3}\n}", Core: "r = mks%N%().a"},

	// ---- builtins × operand kinds: plain / named type / type parameter (seeded change C02-5) ----
	{ID: "clear-slice", Setup: "s := make([]uint64, 3)\n\ts[1] = 5", Core: "clear(s)\n\tr = s[1] + uint64(len(s))"},
	{ID: "clear-named-slice", Decls: "type Cb%N% []uint64", Setup: "var s Cb%N% = make([]uint64, 3)\n\ts[1] = 5", Core: "clear(s)\n\tr = s[1] + uint64(len(s))"},
	{ID: "clear-named-map", Decls: "type Cm%N% map[uint64]uint64", Setup: "var m Cm%N% = make(map[uint64]uint64)\n\tm[1] = 2", Core: "clear(m)\n\tr = uint64(len(m)) + 1"},
	{ID: "clear-type-param-slice", Decls: "func wipe%N%[S ~[]uint64](s S) {\n\tclear(s)\n}", Setup: "s := make([]uint64, 3)\n\ts[1] = 5", Core: "wipe%N%(s)\n\tr = s[1] + uint64(len(s))"},
	{ID: "len-named-slice", Decls: "type Ln%N% []uint64", Setup: "var s Ln%N% = make([]uint64, 3)", Core: "r = uint64(len(s)) + uint64(cap(s))"},
	{ID: "len-named-map", Decls: "type Lm%N% map[uint64]uint64", Setup: "var m Lm%N% = make(map[uint64]uint64)\n\tm[1] = 2", Core: "r = uint64(len(m))"},
	{ID: "len-named-string", Decls: "type Ls%N% string", Setup: "var s Ls%N% = \"abc\"", Core: "r = uint64(len(s))"},
	{ID: "append-named-slice", Decls: "type An%N% []uint64", Setup: "var s An%N%", Core: "s = append(s, 4)\n\tr = s[0] + uint64(len(s))"},
	{ID: "make-named-slice", Decls: "type Mn%N% []uint64", Core: "s := make(Mn%N%, 3)\n\tr = uint64(len(s))", NoCtx: true},
	{ID: "make-named-map", Decls: "type Mm2%N% map[uint64]uint64", Core: "m := make(Mm2%N%)\n\tm[1] = 2\n\tr = m[1]", NoCtx: true},
	{ID: "index-named-slice", Decls: "type In%N% []uint64", Setup: "var s In%N% = make([]uint64, 3)\n\ts[1] = 5", Core: "r = s[1]"},
	{ID: "index-named-map", Decls: "type Im%N% map[uint64]uint64", Setup: "var m Im%N% = make(map[uint64]uint64)\n\tm[1] = 5", Core: "r = m[1]"},
	{ID: "range-named-slice", Decls: "type Rn%N% []uint64", Setup: "var s Rn%N% = make([]uint64, 3)", Core: "for i := range s {\n\t\tr += uint64(i) + 1\n\t}"},
	{ID: "range-named-map", Decls: "type Rm%N% map[uint64]uint64", Setup: "var m Rm%N% = make(map[uint64]uint64)\n\tm[1] = 5", Core: "for k, v := range m {\n\t\tr += k + v\n\t}"},
	{ID: "new-named-struct-pointer", Decls: "type Ns2%N% struct {\n\ta uint64\n}\n\ntype Np2%N% *Ns2%N%", Core: "var p Np2%N% = new(Ns2%N%)\n\tr = p.a + 1", NoCtx: true},
	{ID: "min-max-u32", Setup: "var a uint32 = 3\n\tvar b uint32 = 9", Core: "r = uint64(min(a, b))*10 + uint64(max(a, b))"},
	{ID: "print-builtin", Setup: "a := uint64(3)", Core: "println(a)\n\tr = a"},

	// ---- assignment target × position (seeded change C02-4): := variables and parameters are values in GooseLang ----
	{ID: "assign-define-var-after-capture", Core: "x := uint64(1)\n\tf := func() uint64 {\n\t\treturn x\n\t}\n\tx = 2\n\tr = f()", NoCtx: true},
	{ID: "opassign-define-var-after-capture", Core: "x := uint64(1)\n\tf := func() uint64 {\n\t\treturn x\n\t}\n\tx += 5\n\tr = f()*10 + x", NoCtx: true},
	{ID: "assign-param-after-capture", Decls: "func pc%N%(x uint64) uint64 {\n\tf := func() uint64 {\n\t\treturn x\n\t}\n\tx = x + 1\n\treturn f()*10 + x\n}", Core: "r = pc%N%(4)"},
	{ID: "assign-define-var-in-branch", Setup: "a := uint64(2)", Core: "x := uint64(1)\n\tif a > 1 {\n\t\tx = 5\n\t}\n\tr = x", NoCtx: true},
	{ID: "assign-define-var-in-loop", Core: "x := uint64(1)\n\tfor i := uint64(0); i < 3; i++ {\n\t\tx = x + i\n\t}\n\tr = x", NoCtx: true},
	{ID: "assign-define-var-in-closure", Core: "x := uint64(1)\n\tf := func() {\n\t\tx = 7\n\t}\n\tf()\n\tr = x", NoCtx: true},
	{ID: "assign-define-var-in-nested-block", Core: "x := uint64(1)\n\t{\n\t\tx = 7\n\t}\n\tr = x", NoCtx: true},
	{ID: "assign-define-var-then-early-return", Decls: "func er%N%(a uint64) uint64 {\n\tx := uint64(1)\n\tx = a + 1\n\tif a > 5 {\n\t\treturn x\n\t}\n\treturn x * 2\n}", Core: "r = er%N%(3)*100 + er%N%(9)"},
	{ID: "opassign-param", Decls: "func op%N%(x uint64) uint64 {\n\tx += 3\n\treturn x\n}", Core: "r = op%N%(4)"},
	{ID: "assign-range-var", Setup: "s := make([]uint64, 3)", Core: "for _, v := range s {\n\t\tv = v + 1\n\t\tr += v\n\t}"},
	{ID: "assign-multi-define-var", Core: "a, b := uint64(1), uint64(2)\n\ta = b\n\tr = a + b", NoCtx: true},
	{ID: "redefine-one-new", Core: "a := uint64(1)\n\ta, b := uint64(5), uint64(2)\n\tr = a*10 + b", NoCtx: true},
	{ID: "redefine-after-capture", Decls: "func two2%N%() (uint64, uint64) {\n\treturn 5, 6\n}", Core: "a := uint64(1)\n\tf := func() uint64 {\n\t\treturn a\n\t}\n\ta, b := two2%N%()\n\tr = f()*100 + a*10 + b", NoCtx: true, Known: "c02RedefineAfterCapture"},

	// ---- declarations: unusual but type-correct (seeded change C07-4) ----
	{ID: "constraint-interface-union", Decls: "type Num%N% interface {\n\t~uint64 | ~uint32\n}\n\nfunc gmax%N%[T Num%N%](a T, b T) T {\n\tif a > b {\n\t\treturn a\n\t}\n\treturn b\n}", Core: "r = gmax%N%[uint64](3, 4)"},
	{ID: "constraint-interface-tilde", Decls: "type Tl%N% interface {\n\t~uint64\n}\n\nfunc gid2%N%[T Tl%N%](a T) T {\n\treturn a\n}", Core: "r = gid2%N%[uint64](3)"},
	{ID: "constraint-inline-union", Decls: "func gin%N%[T ~uint64 | ~uint32](a T) T {\n\treturn a\n}", Core: "r = gin%N%[uint64](3)"},
	{ID: "constraint-comparable", Decls: "func geq%N%[T comparable](a T, b T) bool {\n\treturn a == b\n}", Core: "if geq%N%[uint64](3, 3) {\n\t\tr = 1\n\t}"},
	{ID: "embedded-interface", Decls: "type Ea%N% interface {\n\tGet() uint64\n}\n\ntype Eb2%N% interface {\n\tEa%N%\n\tPut(x uint64)\n}", Core: "r = 1"},
	{ID: "embedded-generic-interface", Decls: "type Eg%N%[T any] interface {\n\tGet() T\n}\n\ntype Eh%N% interface {\n\tEg%N%[uint64]\n}", Core: "r = 1"},
	{ID: "embedded-pointer-field", Decls: "type Ep%N% struct {\n\ta uint64\n}\n\ntype Eq%N% struct {\n\t*Ep%N%\n}", Core: "o := Eq%N%{Ep%N%: &Ep%N%{a: 2}}\n\tr = o.a + 1", NoCtx: true},
	{ID: "embedded-qualified-field", Decls: "type Em%N% struct {\n\tsync.Mutex\n\ta uint64\n}", Core: "o := &Em%N%{a: 2}\n\to.Lock()\n\tr = o.a\n\to.Unlock()", NoCtx: true},
	{ID: "method-expression", Decls: "type Me%N% struct {\n\ta uint64\n}\n\nfunc (m Me%N%) get() uint64 {\n\treturn m.a\n}", Setup: "m := Me%N%{a: 6}", Core: "f := Me%N%.get\n\tr = f(m)", NoCtx: true},
	{ID: "blank-param", Decls: "func bp%N%(_ uint64, x uint64) uint64 {\n\treturn x\n}", Core: "r = bp%N%(1, 2)"},
	{ID: "blank-field", Decls: "type Bf%N% struct {\n\t_ uint64\n\ta uint64\n}", Core: "o := Bf%N%{a: 3}\n\tr = o.a", NoCtx: true},
	{ID: "blank-global-var", Decls: "var _ = uint64(3)", Core: "r = 1"},
	{ID: "blank-const", Decls: "const _ uint64 = 3", Core: "r = 1"},
	{ID: "blank-func", Decls: "func _() {\n}", Core: "r = 1"},
	{ID: "blank-receiver", Decls: "type Br%N% struct {\n\ta uint64\n}\n\nfunc (_ Br%N%) one() uint64 {\n\treturn 1\n}", Core: "r = Br%N%{}.one()"},
	{ID: "unnamed-receiver", Decls: "type Ur%N% struct {\n\ta uint64\n}\n\nfunc (Ur%N%) one() uint64 {\n\treturn 1\n}", Core: "r = Ur%N%{}.one()"},
	{ID: "named-func-type", Decls: "type Fn%N% func(uint64) uint64", Core: "var f Fn%N% = func(x uint64) uint64 {\n\t\treturn x + 1\n\t}\n\tr = f(2)", NoCtx: true},
	{ID: "named-to-named-conversion", Decls: "type Na2%N% uint64\n\ntype Nb2%N% uint64", Setup: "var a Na2%N% = 4", Core: "r = uint64(Nb2%N%(a)) + 1"},
	{ID: "nil-argument-slice", Decls: "func ln%N%(s []uint64) uint64 {\n\treturn uint64(len(s))\n}", Core: "r = ln%N%(nil) + 1"},
	{ID: "nil-argument-map", Decls: "func lm%N%(m map[uint64]uint64) uint64 {\n\treturn uint64(len(m))\n}", Core: "r = lm%N%(nil) + 1", Known: "c02PointerNilAssign"},
	{ID: "nil-return-pointer", Decls: "func np%N%() *uint64 {\n\treturn nil\n}", Core: "if np%N%() == nil {\n\t\tr = 1\n\t}", Known: "c02PointerNilAssign"},
	{ID: "nil-argument-pointer", Decls: "func ip%N%(p *uint64) uint64 {\n\tif p == nil {\n\t\treturn 1\n\t}\n\treturn 2\n}", Core: "r = ip%N%(nil)", Known: "c02PointerNilAssign"},
	{ID: "nil-initialiser-pointer", Core: "var p *uint64 = nil\n\tif p == nil {\n\t\tr = 1\n\t}", NoCtx: true, Known: "c02PointerNilAssign"},
	{ID: "nil-field-pointer", Decls: "type Nf%N% struct {\n\tp *uint64\n}", Core: "o := Nf%N%{p: nil}\n\tif o.p == nil {\n\t\tr = 1\n\t}", NoCtx: true, Known: "c02PointerNilAssign"},
	{ID: "nil-return-slice", Decls: "func ns%N%() []uint64 {\n\treturn nil\n}", Core: "r = uint64(len(ns%N%())) + 1"},
	{ID: "redefine-var-declared", Decls: "func two3%N%() (uint64, uint64) {\n\treturn 5, 6\n}", Core: "var a uint64 = 1\n\ta, b := two3%N%()\n\tr = a*10 + b", NoCtx: true, Known: "c02RedefinePtrWrapped"},
	{ID: "any-variable", Core: "var x any = uint64(3)\n\t_ = x\n\tr = 1", NoCtx: true},
	{ID: "struct-with-func-type-param", Decls: "func ap%N%(f func(uint64) uint64, x uint64) uint64 {\n\treturn f(x)\n}", Core: "r = ap%N%(func(y uint64) uint64 {\n\t\treturn y * 2\n\t}, 4)"},
	{ID: "type-alias", Decls: "type Al%N% = uint64", Setup: "var a Al%N% = 4", Core: "r = a + 1"},
	{ID: "generic-type-method", Known: "c02GenericMethodCrash", Decls: "type Gt%N%[T any] struct {\n\tv T\n}\n\nfunc (g Gt%N%[T]) get() T {\n\treturn g.v\n}", Core: "o := Gt%N%[uint64]{v: 3}\n\tr = o.get()", NoCtx: true},
	{ID: "init-func", Decls: "var initv%N% uint64\n\nfunc init() {\n\tinitv%N% = 3\n}", Core: "r = initv%N% + 1"},

	// ---- maps: lookup of a missing key × value type × plain / named map type (seeded change C01-8) ----
	{ID: "map-missing-bool", Core: "m := make(map[uint64]bool)\n\tm[1] = true\n\tif !m[3] {\n\t\tr = 1\n\t}\n\tif m[1] {\n\t\tr += 2\n\t}", NoCtx: true},
	{ID: "map-missing-string", Core: "m := make(map[uint64]string)\n\tm[1] = \"ab\"\n\tr = uint64(len(m[3]))*10 + uint64(len(m[1])) + 1", NoCtx: true},
	{ID: "map-missing-u32", Core: "m := make(map[uint64]uint32)\n\tm[1] = 7\n\tr = uint64(m[3]+1)*10 + uint64(m[1])", NoCtx: true},
	{ID: "map-missing-u8", Core: "m := make(map[uint64]byte)\n\tm[1] = 7\n\tr = uint64(m[3]+1)*10 + uint64(m[1])", NoCtx: true},
	{ID: "map-missing-struct", Decls: "type Mv2%N% struct {\n\ta uint64\n\tb bool\n}", Core: "m := make(map[uint64]Mv2%N%)\n\tm[1] = Mv2%N%{a: 5, b: true}\n\tx := m[3]\n\ty := m[1]\n\tif !x.b {\n\t\tr = x.a + y.a + 1\n\t}", NoCtx: true},
	{ID: "map-missing-slice", Core: "m := make(map[uint64][]uint64)\n\tm[1] = make([]uint64, 2)\n\tr = uint64(len(m[3]))*10 + uint64(len(m[1])) + 1", NoCtx: true},
	{ID: "map-missing-pointer", Core: "m := make(map[uint64]*uint64)\n\tp := new(uint64)\n\tm[1] = p\n\tif m[3] == nil {\n\t\tr = 1\n\t}\n\tif m[1] != nil {\n\t\tr += 2\n\t}", NoCtx: true},
	// package-level const / var specs × number of names × how the values are supplied (seeded change C07-9; on the
	// unchanged tree all names but the first were silently dropped)
	{ID: "pkg-const-two-names", Decls: "const ca%N%, cb%N% uint64 = 1, 2", Core: "r = ca%N%*10 + cb%N%"},
	{ID: "pkg-const-two-names-untyped", Decls: "const cc%N%, cd%N% = 3, 4", Setup: "var x uint64 = 1", Core: "r = x + cc%N%*10 + cd%N%"},
	{ID: "pkg-const-group-two-names", Decls: "const (\n\tce%N%, cf%N% uint64 = 5, 6\n\tcg%N%        uint64 = 7\n)", Core: "r = ce%N%*100 + cf%N%*10 + cg%N%"},
	{ID: "pkg-var-two-names", Decls: "var va%N%, vb%N% uint64 = 3, 4", Core: "r = va%N%*10 + vb%N%"},
	{ID: "pkg-var-two-names-from-call", Decls: "func pr%N%() (uint64, uint64) {\n\treturn 5, 6\n}\n\nvar lo%N%, hi%N% uint64 = pr%N%()", Core: "r = lo%N%*10 + hi%N%"},
	{ID: "pkg-var-two-names-from-call-untyped", Decls: "func pr%N%() (uint64, uint64) {\n\treturn 5, 6\n}\n\nvar lo%N%, hi%N% = pr%N%()", Core: "r = lo%N%*10 + hi%N%"},
	{ID: "pkg-var-initialised-by-call", Decls: "func one%N%() uint64 {\n\treturn 9\n}\n\nvar vi%N% uint64 = one%N%()", Core: "r = vi%N% + 1"},
	{ID: "pkg-var-two-names-no-value", Decls: "var vz%N%, vy%N% uint64", Core: "r = vz%N% + vy%N% + 1"},
	// slice literals × element form (positional, keyed, keyed then positional, gaps, out of order; seeded change C02-13)
	{ID: "slice-literal-three-elements", Core: "s := []uint64{4, 5, 6}\n\tr = uint64(len(s))*1000 + s[0]*100 + s[1]*10 + s[2]", NoCtx: true},
	{ID: "slice-literal-keyed-gap", Core: "s := []uint64{2: 7}\n\tr = uint64(len(s))*100 + s[0]*10 + s[2]", NoCtx: true},
	{ID: "slice-literal-keyed-then-positional", Core: "s := []uint64{2: 7, 9}\n\tr = uint64(len(s))*100 + s[2]*10 + s[3]", NoCtx: true},
	{ID: "slice-literal-keyed-then-positional-next-slot", Core: "s := []uint64{1: 7, 9}\n\tr = uint64(len(s))*100 + s[1]*10 + s[2]", NoCtx: true},
	{ID: "slice-literal-positional-then-keyed", Core: "s := []uint64{3, 2: 8}\n\tr = uint64(len(s))*100 + s[0]*10 + s[2]", NoCtx: true},
	{ID: "slice-literal-keys-out-of-order", Core: "s := []uint64{1: 5, 0: 6}\n\tr = uint64(len(s))*100 + s[0]*10 + s[1]", NoCtx: true},
	{ID: "slice-literal-constant-key", Decls: "const ki%N% = 2", Core: "s := []uint64{ki%N%: 5, 6}\n\tr = uint64(len(s))*100 + s[2]*10 + s[3]", NoCtx: true},
	{ID: "slice-literal-of-structs", Decls: "type Sl%N% struct {\n\ta uint64\n}", Core: "s := []Sl%N%{{a: 1}, {a: 2}}\n\tr = uint64(len(s))*10 + s[1].a", NoCtx: true},
	// if with an init statement × name of its variable × where the if stands (seeded change C02-14)
	{ID: "if-init-fresh-name", Setup: "x := uint64(7)", Core: "if y := x + 100; y > 50 {\n\t\tr = y\n\t}\n\tr = r + x"},
	{ID: "if-init-shadows-outer-in-nested-block", Setup: "x := uint64(7)", Core: "if x < 10 {\n\t\tif x := x + 100; x > 150 {\n\t\t\tr = 1\n\t\t}\n\t\tr = r + x + 7\n\t}"},
	{ID: "if-init-shadows-outer-in-bare-block", Setup: "x := uint64(7)", Core: "{\n\t\tif x := x + 100; x > 50 {\n\t\t\tr = 1\n\t\t}\n\t\tr = r*10 + x\n\t}"},
	{ID: "if-init-shadows-loop-variable", Core: "for i := uint64(0); i < 3; i++ {\n\t\tif i := i + 10; i > 11 {\n\t\t\tr = r + 100\n\t\t}\n\t\tr = r + i\n\t}", NoCtx: true},
	{ID: "if-init-evaluated-once", Decls: "func bmp%N%(p *uint64) uint64 {\n\t*p = *p + 1\n\treturn *p\n}", Setup: "c := new(uint64)", Core: "if v := bmp%N%(c); v > 0 {\n\t\tr = v\n\t} else {\n\t\tr = v + 50\n\t}\n\tr = r*10 + *c"},
	{ID: "if-init-else-if-chain", Setup: "x := uint64(7)", Core: "if y := x + 1; y > 100 {\n\t\tr = 1\n\t} else if z := y + 1; z > 5 {\n\t\tr = z + y\n\t} else {\n\t\tr = 3\n\t}"},
	// embedded structs: the same name reachable at different depths (Go picks the shallowest; seeded change C02-15)
	{ID: "embedded-depth-ambiguity-field", Decls: "type Hd%N% struct {\n\tid uint64\n}\n\ntype Tg%N% struct {\n\tid uint64\n}\n\ntype Mt%N% struct {\n\tHd%N%\n}\n\ntype En%N% struct {\n\tMt%N%\n\tTg%N%\n}", Core: "e := En%N%{Mt%N%: Mt%N%{Hd%N%: Hd%N%{id: 1}}, Tg%N%: Tg%N%{id: 2}}\n\tr = e.id*10 + e.Mt%N%.id", NoCtx: true},
	{ID: "embedded-depth-ambiguity-method", Decls: "type Hd%N% struct {\n\tid uint64\n}\n\nfunc (h Hd%N%) Key() uint64 {\n\treturn h.id\n}\n\ntype Tg%N% struct {\n\tid uint64\n}\n\nfunc (t Tg%N%) Key() uint64 {\n\treturn t.id + 1000\n}\n\ntype Mt%N% struct {\n\tHd%N%\n}\n\ntype En%N% struct {\n\tMt%N%\n\tTg%N%\n}", Core: "e := En%N%{Mt%N%: Mt%N%{Hd%N%: Hd%N%{id: 1}}, Tg%N%: Tg%N%{id: 2}}\n\tr = e.Key()", NoCtx: true},
	{ID: "embedded-depth-ambiguity-store", Decls: "type Hd%N% struct {\n\tid uint64\n}\n\ntype Tg%N% struct {\n\tid uint64\n}\n\ntype Mt%N% struct {\n\tHd%N%\n}\n\ntype En%N% struct {\n\tMt%N%\n\tTg%N%\n}", Core: "e := &En%N%{}\n\te.id = 5\n\tr = e.Tg%N%.id*10 + e.Mt%N%.Hd%N%.id", NoCtx: true},
	{ID: "embedded-pointer-promoted-field", Decls: "type Hp%N% struct {\n\tid uint64\n}\n\ntype Ep%N% struct {\n\t*Hp%N%\n\tn uint64\n}", Core: "e := Ep%N%{Hp%N%: &Hp%N%{id: 4}, n: 2}\n\te.id = e.id + 1\n\tr = e.id*10 + e.n", NoCtx: true},
	// append with several values
	{ID: "append-two-values", Setup: "s := make([]uint64, 1)", Core: "s2 := append(s, 4, 5)\n\tr = uint64(len(s2))*100 + s2[1]*10 + s2[2]"},
	{ID: "append-no-values-after-spread", Setup: "s := make([]uint64, 1)\n\tt := make([]uint64, 2)", Core: "s2 := append(s, t...)\n\tr = uint64(len(s2))"},
	// range over a string × loop-variable form × text (runes, not bytes; seeded change C02-17)
	{ID: "range-string-index-only-non-ascii", Setup: "s := \"héllo😀\"", Core: "for i := range s {\n\t\tr = r*2 + uint64(i) + 1\n\t}", NoCtx: true},
	{ID: "range-string-index-blank-value-non-ascii", Setup: "s := \"日本\"", Core: "for i, _ := range s {\n\t\tr = r*10 + uint64(i) + 1\n\t}", NoCtx: true},
	{ID: "range-string-no-variables-non-ascii", Setup: "s := \"héé\"", Core: "for range s {\n\t\tr = r + 1\n\t}", NoCtx: true},
	{ID: "range-string-index-only-ascii", Setup: "s := \"abc\"", Core: "for i := range s {\n\t\tr = r*2 + uint64(i) + 1\n\t}", NoCtx: true},
	{ID: "range-string-value-non-ascii", Setup: "s := \"aé\"", Core: "for _, c := range s {\n\t\tr = r*1000 + uint64(c)\n\t}", NoCtx: true},
	{ID: "string-compare-less", Setup: "a := \"abc\"\n\tb := \"abd\"", Core: "if a < b {\n\t\tr = 1\n\t}\n\tif b > a {\n\t\tr += 2\n\t}"},
	{ID: "string-index-last-byte-non-ascii", Setup: "s := \"aé\"", Core: "r = uint64(s[uint64(len(s))-1])"},
	{ID: "string-of-rune-value", Setup: "var c rune = 233", Core: "s := string(c)\n\tr = uint64(len(s))", NoCtx: true},
	// assignment to a package-level variable × where the assignment stands (seeded changes C07-11, C02-16)
	{ID: "assign-global-direct", Decls: "var gv%N% uint64 = 1", Core: "gv%N% = 5\n\tr = gv%N%"},
	{ID: "assign-global-in-closure", Decls: "var gw%N% uint64 = 1", Core: "f := func() {\n\t\tgw%N% = 7\n\t}\n\tf()\n\tr = gw%N%", NoCtx: true},
	{ID: "assign-global-in-returned-closure", Decls: "var gx%N% uint64 = 1\n\nfunc later%N%(v uint64) func() {\n\treturn func() {\n\t\tgx%N% = v\n\t}\n}", Core: "later%N%(9)()\n\tr = gx%N%"},
	{ID: "opassign-global-in-function", Decls: "var gy%N% uint64 = 1\n\nfunc bumpg%N%() uint64 {\n\tgy%N% += 2\n\treturn gy%N%\n}", Core: "r = bumpg%N%()*10 + bumpg%N%()"},
	{ID: "global-without-value-written-then-read", Decls: "var gz%N% uint64\n\nfunc setg%N%(v uint64) {\n\tgz%N% = v\n}", Core: "setg%N%(4)\n\tr = gz%N% + 1"},
	{ID: "global-pointer-contents-mutated", Decls: "var gp%N% *uint64 = new(uint64)", Core: "*gp%N% = 6\n\tr = *gp%N% + 1"},
	{ID: "global-initialised-by-effectful-call-read-twice", Decls: "func fresh%N%() *uint64 {\n\treturn new(uint64)\n}\n\nvar gq%N% *uint64 = fresh%N%()", Core: "p := gq%N%\n\t*p = 8\n\tr = *gq%N%"},
	// two Go declarations that map to one Coq name; a method declared on an alias (reported by the seed agent of C04-13)
	{ID: "method-and-function-same-coq-name", Decls: "type Fo%N% struct {\n\tx uint64\n}\n\nfunc (f Fo%N%) bar() uint64 {\n\treturn f.x\n}\n\nfunc Fo%N%__bar(f Fo%N%) uint64 {\n\treturn f.x + 100\n}", Core: "f := Fo%N%{x: 1}\n\tr = f.bar()*1000 + Fo%N%__bar(f)", NoCtx: true},
	{ID: "method-on-alias-receiver", Decls: "type Tt%N% struct {\n\ty uint64\n}\n\ntype Al%N% = Tt%N%\n\nfunc (a Al%N%) get() uint64 {\n\treturn a.y + 1\n}", Core: "a := Al%N%{y: 4}\n\tr = a.get()", NoCtx: true},
	{ID: "method-on-alias-pointer-receiver", Decls: "type Tu%N% struct {\n\ty uint64\n}\n\ntype Am%N% = Tu%N%\n\nfunc (a *Am%N%) set(v uint64) {\n\ta.y = v\n}", Core: "a := &Tu%N%{y: 4}\n\ta.set(9)\n\tr = a.y", NoCtx: true},
	// return nil × result type × where the return stands (a closure inside a function with other result types; seeded change C02-18)
	{ID: "closure-returns-nil-slice-inside-pointer-function", Decls: "func cn%N%() *uint64 {\n\tf := func() []byte {\n\t\treturn nil\n\t}\n\tb := f()\n\tp := new(uint64)\n\t*p = uint64(len(b)) + 5\n\treturn p\n}", Core: "r = *cn%N%()"},
	{ID: "closure-returns-nil-slice-pair-inside-pointer-function", Decls: "func cp%N%() (*uint64, bool) {\n\tf := func() ([]byte, bool) {\n\t\treturn nil, true\n\t}\n\tb, ok := f()\n\tp := new(uint64)\n\tif ok {\n\t\t*p = uint64(len(append(b, 1))) + 5\n\t}\n\treturn p, ok\n}", Core: "p, _ := cp%N%()\n\tr = *p", NoCtx: true},
	{ID: "function-returns-nil-slice", Decls: "func ns%N%() []uint64 {\n\treturn nil\n}", Core: "s := ns%N%()\n\tr = uint64(len(s)) + uint64(len(append(s, 3)))", NoCtx: true},
	{ID: "function-returns-nil-map-read", Known: "c02PointerNilAssign", Decls: "func nm%N%() map[uint64]uint64 {\n\treturn nil\n}", Core: "m := nm%N%()\n\tr = m[3] + uint64(len(m)) + 1", NoCtx: true},
	// builtins with fewer explicit arguments than operands: append(s), and a multi-valued call that supplies
	// both operands (reported by the seed agent of C07-8: copy(g()) made goose panic)
	{ID: "append-single-argument", Setup: "s := make([]uint64, 2)", Core: "s2 := append(s)\n\tr = uint64(len(s2))"},
	{ID: "copy-forwarded-call", Decls: "func two%N%() ([]uint64, []uint64) {\n\ta := make([]uint64, 2)\n\tb := make([]uint64, 3)\n\tb[0] = 7\n\treturn a, b\n}", Core: "r = uint64(copy(two%N%()))"},
	{ID: "append-forwarded-call", Decls: "func sv%N%() ([]uint64, uint64) {\n\treturn make([]uint64, 1), 9\n}", Core: "s2 := append(sv%N%())\n\tr = s2[1] + uint64(len(s2))"},
	{ID: "delete-forwarded-call", Decls: "func mk%N%(m map[uint64]uint64) (map[uint64]uint64, uint64) {\n\treturn m, 1\n}", Setup: "m := make(map[uint64]uint64)\n\tm[1] = 2", Core: "delete(mk%N%(m))\n\tr = uint64(len(m)) + 1"},
	{ID: "call-forwarded-results", Decls: "func pr%N%() (uint64, uint64) {\n\treturn 3, 4\n}\n\nfunc ad%N%(a uint64, b uint64) uint64 {\n\treturn a*10 + b\n}", Core: "r = ad%N%(pr%N%())"},
	// two-valued map lookup × syntactic position (parenthesised, assignment instead of definition, nested, as
	// key, in a call argument next to a two-result call; seeded change C01-25 and two real defects)
	{ID: "map-comma-ok-parenthesised", Core: "m := make(map[uint64]uint64)\n\tm[1] = 5\n\t_, ok := (m[1])\n\tif ok {\n\t\tr = 1\n\t}", NoCtx: true},
	{ID: "map-comma-ok-parenthesised-value", Core: "m := make(map[uint64]uint64)\n\tm[1] = 5\n\tv, ok := (m[1])\n\tif ok {\n\t\tr = v + 1\n\t}", NoCtx: true},
	{ID: "map-comma-ok-assign", Core: "m := make(map[uint64]uint64)\n\tm[1] = 5\n\tvar v uint64\n\tvar ok bool\n\tv, ok = m[1]\n\tif ok {\n\t\tr = v + 1\n\t}", NoCtx: true},
	{ID: "map-comma-ok-assign-missing", Core: "m := make(map[uint64]uint64)\n\tm[1] = 5\n\tvar v uint64 = 9\n\tvar ok bool = true\n\tv, ok = m[2]\n\tif !ok {\n\t\tr = v + 1\n\t}", NoCtx: true},
	{ID: "map-comma-ok-assign-blank", Core: "m := make(map[uint64]uint64)\n\tm[1] = 5\n\tvar ok bool\n\t_, ok = m[1]\n\tif ok {\n\t\tr = 1\n\t}", NoCtx: true},
	{ID: "map-comma-ok-nested-map", Core: "mm := make(map[uint64]map[uint64]uint64)\n\tmm[1] = make(map[uint64]uint64)\n\tmm[1][2] = 7\n\tv, ok := mm[1][2]\n\tif ok {\n\t\tr = v + 1\n\t}", NoCtx: true},
	{ID: "map-comma-ok-lookup-as-key", Core: "idx := make(map[uint64]uint64)\n\tidx[1] = 4\n\ttbl := make(map[uint64]uint64)\n\ttbl[4] = 9\n\tv, ok := tbl[idx[1]]\n\tif ok {\n\t\tr = v + 1\n\t}", NoCtx: true},
	{ID: "map-lookup-in-two-result-call-arg", Decls: "func dm%N%(a uint64, b uint64) (uint64, uint64) {\n\treturn a / b, a % b\n}", Core: "m := make(map[uint64]uint64)\n\tm[1] = 47\n\tq, x := dm%N%(m[1], 10)\n\tr = q*100 + x", NoCtx: true},
	{ID: "map-lookup-in-two-result-call-arg-assign", Decls: "func dm%N%(a uint64, b uint64) (uint64, uint64) {\n\treturn a / b, a % b\n}", Core: "m := make(map[uint64]uint64)\n\tm[1] = 47\n\tvar q uint64\n\tvar x uint64\n\tq, x = dm%N%(m[1]+9, 10)\n\tr = q*100 + x", NoCtx: true},
	{ID: "map-lookup-nested-one-valued", Core: "m := make(map[uint64]uint64)\n\tm[1] = 2\n\tm[2] = 9\n\tr = m[m[1]]", NoCtx: true},
	// type assertions × operand kind × form
	{ID: "type-assert-named-interface-to-struct", Decls: "type Ti%N% interface {\n\tget() uint64\n}\n\ntype Ts%N% struct {\n\tx uint64\n}\n\nfunc (s Ts%N%) get() uint64 {\n\treturn s.x\n}\n\nfunc ta%N%(i Ti%N%) uint64 {\n\ts := i.(Ts%N%)\n\treturn s.x + 1\n}", Core: "r = ta%N%(Ts%N%{x: 3})", NoCtx: true},
	{ID: "type-assert-comma-ok", Decls: "type Ti%N% interface {\n\tget() uint64\n}\n\ntype Ts%N% struct {\n\tx uint64\n}\n\nfunc (s Ts%N%) get() uint64 {\n\treturn s.x\n}\n\nfunc ta%N%(i Ti%N%) uint64 {\n\t_, ok := i.(Ts%N%)\n\tif ok {\n\t\treturn 1\n\t}\n\treturn 2\n}", Core: "r = ta%N%(Ts%N%{x: 3})", NoCtx: true},
	{ID: "type-assert-comma-ok-wrong-type", Decls: "type Ti%N% interface {\n\tget() uint64\n}\n\ntype Ts%N% struct {\n\tx uint64\n}\n\nfunc (s Ts%N%) get() uint64 {\n\treturn s.x\n}\n\ntype Tu%N% struct {\n\ty uint64\n}\n\nfunc (s Tu%N%) get() uint64 {\n\treturn s.y\n}\n\nfunc ta%N%(i Ti%N%) uint64 {\n\tu, ok := i.(Tu%N%)\n\tif ok {\n\t\treturn u.y\n\t}\n\treturn 2\n}", Core: "r = ta%N%(Ts%N%{x: 3})", NoCtx: true},
	{ID: "type-assert-empty-interface-comma-ok", Core: "var x interface{} = uint64(3)\n\tv, ok := x.(uint64)\n\tif ok {\n\t\tr = v + 1\n\t}", NoCtx: true},
	{ID: "type-assert-empty-interface-wrong-type", Core: "var x interface{} = uint64(3)\n\t_, ok := x.(bool)\n\tif !ok {\n\t\tr = 1\n\t}", NoCtx: true},
	// explicit dereference as an assignment target / operand of & × kind of the pointer variable (seeded change C02-11)
	{ID: "explicit-deref-field-store-var-pointer", Decls: "type Dp%N% struct {\n\tx uint64\n}", Core: "var p *Dp%N% = &Dp%N%{x: 1}\n\t(*p).x = 7\n\tr = p.x", NoCtx: true},
	{ID: "explicit-deref-field-store-define-pointer", Decls: "type Dp%N% struct {\n\tx uint64\n}", Core: "p := &Dp%N%{x: 1}\n\t(*p).x = 7\n\tr = p.x", NoCtx: true},
	{ID: "explicit-deref-field-store-param-pointer", Decls: "type Dp%N% struct {\n\tx uint64\n}\n\nfunc ds%N%(p *Dp%N%) {\n\t(*p).x = 7\n}", Core: "q := &Dp%N%{x: 1}\n\tds%N%(q)\n\tr = q.x", NoCtx: true},
	{ID: "explicit-deref-field-store-through-field", Decls: "type Dp%N% struct {\n\tx uint64\n\tnext *Dp%N%\n}", Core: "p := &Dp%N%{x: 1, next: &Dp%N%{x: 2}}\n\t(*p.next).x = 3\n\tr = p.x*10 + p.next.x", NoCtx: true},
	{ID: "explicit-deref-field-address-var-pointer", Decls: "type Dp%N% struct {\n\tx uint64\n}", Core: "var p *Dp%N% = &Dp%N%{x: 1}\n\tq := &(*p).x\n\t*q = 7\n\tr = p.x", NoCtx: true},
	{ID: "address-of-deref-var-pointer", Core: "var p *uint64 = new(uint64)\n\tq := &*p\n\t*q = 7\n\tr = *p", NoCtx: true},
	{ID: "address-of-deref-define-pointer", Core: "p := new(uint64)\n\tq := &*p\n\t*q = 7\n\tr = *p", NoCtx: true},
	{ID: "explicit-deref-field-store-loop-pointer", Decls: "type Dp%N% struct {\n\tx uint64\n}", Core: "s := make([]*Dp%N%, 2)\n\ts[0] = &Dp%N%{x: 1}\n\ts[1] = &Dp%N%{x: 2}\n\tfor _, p := range s {\n\t\t(*p).x = 7\n\t}\n\tr = s[0].x + s[1].x", NoCtx: true},
	{ID: "map-missing-comma-ok-string", Core: "m := make(map[uint64]string)\n\tv, ok := m[3]\n\tif !ok {\n\t\tr = uint64(len(v)) + 1\n\t}", NoCtx: true},
	{ID: "map-string-key", Core: "m := make(map[string]uint64)\n\tm[\"a\"] = 4\n\tr = m[\"a\"]*10 + m[\"b\"] + 1", NoCtx: true},
	{ID: "named-map-missing-bool", Decls: "type Nmb%N% map[uint64]bool", Core: "m := make(Nmb%N%)\n\tif !m[3] {\n\t\tr = 1\n\t}", NoCtx: true},
	{ID: "named-map-insert", Decls: "type Nmi%N% map[uint64]bool", Core: "m := make(Nmi%N%)\n\tm[1] = true\n\tif m[1] {\n\t\tr = 2\n\t}", NoCtx: true},
	{ID: "named-map-missing-string", Decls: "type Nms%N% map[uint64]string", Core: "m := make(Nms%N%)\n\tr = uint64(len(m[3])) + 1", NoCtx: true},
	{ID: "named-map-missing-u32-string-key", Decls: "type Nmk%N% map[string]uint32", Core: "m := make(Nmk%N%)\n\tr = uint64(m[\"zz\"] + 1)", NoCtx: true},
	{ID: "named-map-param", Decls: "type Nmp%N% map[uint64]bool\n\nfunc has%N%(m Nmp%N%, k uint64) bool {\n\treturn m[k]\n}", Core: "m := make(map[uint64]bool)\n\tm[1] = true\n\tif has%N%(m, 1) && !has%N%(m, 2) {\n\t\tr = 1\n\t}", NoCtx: true},
	{ID: "map-alias-missing-bool", Decls: "type Nma%N% = map[uint64]bool", Core: "m := make(Nma%N%)\n\tif !m[3] {\n\t\tr = 1\n\t}", NoCtx: true},

	// ---- interfaces: struct-to-interface conversion × the position of the converting call ----
	{ID: "interface-call-assign", NoCtx: true, Decls: "type Sh%N% interface {\n\tArea() uint64\n\tScale(k uint64) uint64\n}\n\ntype Sq%N% struct {\n\tside uint64\n}\n\nfunc (s Sq%N%) Area() uint64 {\n\treturn s.side * s.side\n}\n\nfunc (s Sq%N%) Scale(k uint64) uint64 {\n\treturn s.side * k\n}\n\nfunc meas%N%(s Sh%N%) uint64 {\n\treturn s.Area() + s.Scale(2)\n}", Setup: "q := Sq%N%{side: 3}", Core: "r = meas%N%(q)"},
	{ID: "interface-call-define", Decls: "type Sh%N% interface {\n\tArea() uint64\n\tScale(k uint64) uint64\n}\n\ntype Sq%N% struct {\n\tside uint64\n}\n\nfunc (s Sq%N%) Area() uint64 {\n\treturn s.side * s.side\n}\n\nfunc (s Sq%N%) Scale(k uint64) uint64 {\n\treturn s.side * k\n}\n\nfunc meas%N%(s Sh%N%) uint64 {\n\treturn s.Area() + s.Scale(2)\n}", Setup: "q := Sq%N%{side: 3}", Core: "a := meas%N%(q)\n\tr = a + 1", NoCtx: true},
	{ID: "interface-call-in-condition", Known: "c02InterfaceConversion", Decls: "type Sh%N% interface {\n\tArea() uint64\n\tScale(k uint64) uint64\n}\n\ntype Sq%N% struct {\n\tside uint64\n}\n\nfunc (s Sq%N%) Area() uint64 {\n\treturn s.side * s.side\n}\n\nfunc (s Sq%N%) Scale(k uint64) uint64 {\n\treturn s.side * k\n}\n\nfunc meas%N%(s Sh%N%) uint64 {\n\treturn s.Area() + s.Scale(2)\n}", Setup: "q := Sq%N%{side: 3}", Core: "if meas%N%(q) > 10 {\n\t\tr = 1\n\t}"},
	{ID: "interface-call-in-arith", Known: "c02InterfaceConversion", Decls: "type Sh%N% interface {\n\tArea() uint64\n\tScale(k uint64) uint64\n}\n\ntype Sq%N% struct {\n\tside uint64\n}\n\nfunc (s Sq%N%) Area() uint64 {\n\treturn s.side * s.side\n}\n\nfunc (s Sq%N%) Scale(k uint64) uint64 {\n\treturn s.side * k\n}\n\nfunc meas%N%(s Sh%N%) uint64 {\n\treturn s.Area() + s.Scale(2)\n}", Setup: "q := Sq%N%{side: 3}", Core: "r = 1 + meas%N%(q)*2"},
	{ID: "interface-call-as-argument", Known: "c02InterfaceConversion", Decls: "type Sh%N% interface {\n\tArea() uint64\n\tScale(k uint64) uint64\n}\n\ntype Sq%N% struct {\n\tside uint64\n}\n\nfunc (s Sq%N%) Area() uint64 {\n\treturn s.side * s.side\n}\n\nfunc (s Sq%N%) Scale(k uint64) uint64 {\n\treturn s.side * k\n}\n\nfunc meas%N%(s Sh%N%) uint64 {\n\treturn s.Area() + s.Scale(2)\n}\n\nfunc twice%N%(x uint64) uint64 {\n\treturn x * 2\n}", Setup: "q := Sq%N%{side: 3}", Core: "r = twice%N%(meas%N%(q))"},
	{ID: "interface-call-literal-arg", NoCtx: true, Decls: "type Sh%N% interface {\n\tArea() uint64\n\tScale(k uint64) uint64\n}\n\ntype Sq%N% struct {\n\tside uint64\n}\n\nfunc (s Sq%N%) Area() uint64 {\n\treturn s.side * s.side\n}\n\nfunc (s Sq%N%) Scale(k uint64) uint64 {\n\treturn s.side * k\n}\n\nfunc meas%N%(s Sh%N%) uint64 {\n\treturn s.Area() + s.Scale(2)\n}", Core: "r = meas%N%(Sq%N%{side: 4})"},
	{ID: "interface-call-in-nested-block", Known: "c02InterfaceConversion", NoCtx: true, Decls: "type Sh%N% interface {\n\tArea() uint64\n\tScale(k uint64) uint64\n}\n\ntype Sq%N% struct {\n\tside uint64\n}\n\nfunc (s Sq%N%) Area() uint64 {\n\treturn s.side * s.side\n}\n\nfunc (s Sq%N%) Scale(k uint64) uint64 {\n\treturn s.side * k\n}\n\nfunc meas%N%(s Sh%N%) uint64 {\n\treturn s.Area() + s.Scale(2)\n}", Setup: "q := Sq%N%{side: 3}\n\ta := uint64(2)", Core: "if a > 1 {\n\t\tr = meas%N%(q)\n\t}"},
	{ID: "interface-second-param", Known: "c02InterfaceConversion", Decls: "type Sh%N% interface {\n\tArea() uint64\n\tScale(k uint64) uint64\n}\n\ntype Sq%N% struct {\n\tside uint64\n}\n\nfunc (s Sq%N%) Area() uint64 {\n\treturn s.side * s.side\n}\n\nfunc (s Sq%N%) Scale(k uint64) uint64 {\n\treturn s.side * k\n}\n\nfunc meas%N%(s Sh%N%) uint64 {\n\treturn s.Area() + s.Scale(2)\n}\n\nfunc meas2%N%(k uint64, s Sh%N%) uint64 {\n\treturn s.Area() + k\n}", Setup: "q := Sq%N%{side: 3}", Core: "r = meas2%N%(5, q)"},
	{ID: "interface-var-assignment", Known: "c02InterfaceConversion", Decls: "type Sh%N% interface {\n\tArea() uint64\n\tScale(k uint64) uint64\n}\n\ntype Sq%N% struct {\n\tside uint64\n}\n\nfunc (s Sq%N%) Area() uint64 {\n\treturn s.side * s.side\n}\n\nfunc (s Sq%N%) Scale(k uint64) uint64 {\n\treturn s.side * k\n}\n\nfunc meas%N%(s Sh%N%) uint64 {\n\treturn s.Area() + s.Scale(2)\n}", Setup: "q := Sq%N%{side: 3}", Core: "var s Sh%N% = q\n\tr = s.Area()", NoCtx: true},
	{ID: "interface-returned", Known: "c02InterfaceConversion", NoCtx: true, Decls: "type Sh%N% interface {\n\tArea() uint64\n\tScale(k uint64) uint64\n}\n\ntype Sq%N% struct {\n\tside uint64\n}\n\nfunc (s Sq%N%) Area() uint64 {\n\treturn s.side * s.side\n}\n\nfunc (s Sq%N%) Scale(k uint64) uint64 {\n\treturn s.side * k\n}\n\nfunc meas%N%(s Sh%N%) uint64 {\n\treturn s.Area() + s.Scale(2)\n}\n\nfunc mk%N%() Sh%N% {\n\treturn Sq%N%{side: 3}\n}", Core: "r = mk%N%().Area()"},
	{ID: "interface-pointer-receiver", Known: "c02InterfaceConversion", Decls: "type Cn%N% interface {\n\tInc() uint64\n}\n\ntype Ct%N% struct {\n\tn uint64\n}\n\nfunc (c *Ct%N%) Inc() uint64 {\n\tc.n = c.n + 1\n\treturn c.n\n}\n\nfunc bump%N%(c Cn%N%) uint64 {\n\treturn c.Inc() + c.Inc()\n}", Setup: "c := &Ct%N%{n: 1}", Core: "r = bump%N%(c) + c.n"},
	{ID: "interface-two-implementations", Known: "c02InterfaceConversion", NoCtx: true, Decls: "type Sh%N% interface {\n\tArea() uint64\n\tScale(k uint64) uint64\n}\n\ntype Sq%N% struct {\n\tside uint64\n}\n\nfunc (s Sq%N%) Area() uint64 {\n\treturn s.side * s.side\n}\n\nfunc (s Sq%N%) Scale(k uint64) uint64 {\n\treturn s.side * k\n}\n\nfunc meas%N%(s Sh%N%) uint64 {\n\treturn s.Area() + s.Scale(2)\n}\n\ntype Rc%N% struct {\n\tw uint64\n\th uint64\n}\n\nfunc (s Rc%N%) Area() uint64 {\n\treturn s.w * s.h\n}\n\nfunc (s Rc%N%) Scale(k uint64) uint64 {\n\treturn s.w * k\n}", Setup: "q := Sq%N%{side: 3}\n\tw := Rc%N%{w: 2, h: 5}", Core: "r = meas%N%(q)*100 + meas%N%(w)"},
	{ID: "interface-struct-field", Known: "c02InterfaceConversion", Decls: "type Sh%N% interface {\n\tArea() uint64\n\tScale(k uint64) uint64\n}\n\ntype Sq%N% struct {\n\tside uint64\n}\n\nfunc (s Sq%N%) Area() uint64 {\n\treturn s.side * s.side\n}\n\nfunc (s Sq%N%) Scale(k uint64) uint64 {\n\treturn s.side * k\n}\n\nfunc meas%N%(s Sh%N%) uint64 {\n\treturn s.Area() + s.Scale(2)\n}\n\ntype Hd%N% struct {\n\ts Sh%N%\n}", Setup: "q := Sq%N%{side: 3}", Core: "h := Hd%N%{s: q}\n\tr = h.s.Area()", NoCtx: true},
	{ID: "unnamed-param", Decls: "func up%N%(uint64) uint64 {\n\treturn 1\n}", Core: "r = up%N%(3)"},
	{ID: "local-var-group", Core: "var (\n\t\ta uint64 = 1\n\t\tb uint64 = 2\n\t)\n\tr = a + b", NoCtx: true},
	{ID: "type-group", Decls: "type (\n\tTa%N% struct {\n\t\ta uint64\n\t}\n\tTb%N% struct {\n\t\tb uint64\n\t}\n)", Core: "r = Ta%N%{a: 1}.a + Tb%N%{b: 2}.b"},
	{ID: "type-switch", Core: "var x interface{} = uint64(3)\n\tswitch x.(type) {\n\tcase uint64:\n\t\tr = 1\n\tdefault:\n\t\tr = 2\n\t}", NoCtx: true},
	{ID: "select-stmt", Core: "c := make(chan uint64, 1)\n\tc <- 1\n\tselect {\n\tcase v := <-c:\n\t\tr = v\n\tdefault:\n\t\tr = 2\n\t}", NoCtx: true},
	{ID: "switch-fallthrough", Setup: "a := uint64(1)", Core: "switch a {\n\tcase 1:\n\t\tr = 1\n\t\tfallthrough\n\tcase 2:\n\t\tr = r + 5\n\t}"},
	{ID: "range-assign-existing-index", Setup: "s := make([]uint64, 3)", Core: "var i int\n\tfor i = range s {\n\t}\n\tr = uint64(i)", NoCtx: true},
	{ID: "assign-explicit-deref-field", Decls: "type Df%N% struct {\n\ta uint64\n}", Setup: "p := &Df%N%{a: 1}", Core: "(*p).a = 3\n\tr = p.a"},
	{ID: "assign-slice-in-field", Decls: "type Sf%N% struct {\n\ts []uint64\n}", Setup: "o := &Sf%N%{s: make([]uint64, 2)}", Core: "o.s[1] = 4\n\tr = o.s[1]"},
	{ID: "assign-map-in-field", Decls: "type Mf2%N% struct {\n\tm map[uint64]uint64\n}", Setup: "o := &Mf2%N%{m: make(map[uint64]uint64)}", Core: "o.m[1] = 4\n\tr = o.m[1]"},
	{ID: "assign-parenthesised", Core: "var x uint64 = 1\n\t(x) = 3\n\tr = x", NoCtx: true},
	{ID: "assign-slice-element-field", Decls: "type Ef%N% struct {\n\ta uint64\n}", Setup: "s := make([]Ef%N%, 2)", Core: "s[1].a = 4\n\tr = s[1].a"},
	{ID: "anonymous-struct-field-type", Decls: "type As%N% struct {\n\tin struct {\n\t\ta uint64\n\t}\n}", Core: "o := As%N%{}\n\tr = o.in.a + 1", NoCtx: true},
	{ID: "inline-interface-param", Known: "c02InterfaceConversion", NoCtx: true, Decls: "func fi%N%(x interface {\n\tGet() uint64\n}) uint64 {\n\treturn x.Get()\n}\n\ntype Gi%N% struct {\n\ta uint64\n}\n\nfunc (g Gi%N%) Get() uint64 {\n\treturn g.a\n}", Core: "r = fi%N%(Gi%N%{a: 4})"},
	{ID: "generic-type-variable", Decls: "type Gv2%N%[T any] struct {\n\tv T\n}", Core: "var o Gv2%N%[uint64]\n\tr = o.v + 1", NoCtx: true},

	// ---- renamed imports of packages goose special-cases by the spelling of the qualifier (seeded change C05-6) ----
	{ID: "renamed-import-machine", Imports: []string{`mach "github.com/goose-lang/goose/machine"`}, Setup: "b := make([]byte, 8)", Core: "mach.UInt64Put(b, 77)\n\tr = mach.UInt64Get(b)"},
	{ID: "renamed-import-sync", Imports: []string{`sy "sync"`}, Core: "mu := new(sy.Mutex)\n\tmu.Lock()\n\tr = 1\n\tmu.Unlock()", NoCtx: true},
	{ID: "renamed-import-machine-as-sync", Imports: []string{`sync2 "github.com/goose-lang/goose/machine"`}, Core: "r = uint64(len(sync2.UInt64ToString(12345)))"},
	{ID: "dot-import-machine", Imports: []string{`. "github.com/goose-lang/goose/machine"`}, Setup: "b := make([]byte, 8)", Core: "UInt64Put(b, 77)\n\tr = UInt64Get(b)"},

	// ---- type structure: recursive and mutually recursive types, types of types ----
	{ID: "recursive-struct-pointer", Decls: "type Nd%N% struct {\n\tnext *Nd%N%\n\tv    uint64\n}", Core: "a := &Nd%N%{v: 1}\n\tb := &Nd%N%{next: a, v: 2}\n\tr = b.v*10 + b.next.v", NoCtx: true},
	{ID: "recursive-struct-walk", Decls: "type Nw%N% struct {\n\tnext *Nw%N%\n\tv    uint64\n}\n\nfunc sumw%N%(n *Nw%N%) uint64 {\n\tif n == nil {\n\t\treturn 0\n\t}\n\treturn n.v + sumw%N%(n.next)\n}", Core: "var nilp *Nw%N%\n\ta := &Nw%N%{next: nilp, v: 1}\n\tb := &Nw%N%{next: a, v: 2}\n\tr = sumw%N%(b)", NoCtx: true},
	{ID: "recursive-struct-slice-of-self", Decls: "type Tr%N% struct {\n\tkids []Tr%N%\n\tv    uint64\n}", Core: "t := Tr%N%{v: 3}\n\tr = t.v + uint64(len(t.kids))", NoCtx: true},
	{ID: "recursive-struct-map-of-self", Decls: "type Tm%N% struct {\n\tkids map[uint64]*Tm%N%\n\tv    uint64\n}", Core: "t := &Tm%N%{kids: make(map[uint64]*Tm%N%), v: 3}\n\tt.kids[1] = t\n\tr = t.kids[1].v", NoCtx: true},
	{ID: "mutually-recursive-structs", Decls: "type Ma%N% struct {\n\tb *Mb%N%\n\tv uint64\n}\n\ntype Mb%N% struct {\n\ta *Ma%N%\n\tw uint64\n}", Core: "x := &Ma%N%{v: 1}\n\ty := &Mb%N%{a: x, w: 2}\n\tx.b = y\n\tr = x.b.w*10 + y.a.v", NoCtx: true},
	// a declaration that closes a cycle AND contains another unsupported construct: one error for it, not two (seeded change C07-10)
	{ID: "mutually-recursive-structs-second-also-unsupported", Decls: "type Nd%N% struct {\n\tedges []Ed%N%\n\tv     uint64\n}\n\ntype Ed%N% struct {\n\tfrom []Nd%N%\n\tw    int\n}", Core: "d := Nd%N%{v: 1}\n\tr = d.v + uint64(len(d.edges))", NoCtx: true},
	{ID: "mutually-recursive-structs-first-also-unsupported", Decls: "type Nf%N% struct {\n\tedges []Ef%N%\n\tv     int\n}\n\ntype Ef%N% struct {\n\tfrom []Nf%N%\n\tw    uint64\n}", Core: "e := Ef%N%{w: 1}\n\tr = e.w + uint64(len(e.from))", NoCtx: true},
	{ID: "mutually-recursive-functions", Decls: "func evn%N%(n uint64) bool {\n\tif n == 0 {\n\t\treturn true\n\t}\n\treturn odd%N%(n - 1)\n}\n\nfunc odd%N%(n uint64) bool {\n\tif n == 0 {\n\t\treturn false\n\t}\n\treturn evn%N%(n - 1)\n}", Core: "if evn%N%(4) {\n\t\tr = 1\n\t}"},
	{ID: "mutually-recursive-structs-via-slices", Decls: "type Dr%N% struct {\n\tentries []En%N%\n\tv       uint64\n}\n\ntype En%N% struct {\n\tsubs []Dr%N%\n\tw    uint64\n}", Core: "d := Dr%N%{v: 1}\n\te := En%N%{w: 2}\n\tr = d.v*10 + e.w + uint64(len(d.entries)) + uint64(len(e.subs))", NoCtx: true},
	{ID: "func-type-and-struct-cycle", Decls: "type Vs%N% func(Nv%N%) bool\n\ntype Nv%N% struct {\n\tvisit Vs%N%\n\ta     uint64\n}", Core: "n := Nv%N%{a: 3}\n\tr = n.a", NoCtx: true},
	{ID: "struct-field-type-declared-later", Decls: "type Fe%N% struct {\n\tin Fl%N%\n}\n\ntype Fl%N% struct {\n\ta uint64\n}", Core: "o := Fe%N%{in: Fl%N%{a: 4}}\n\tr = o.in.a", NoCtx: true},
	{ID: "method-before-receiver-type", Decls: "func (m Mr%N%) get() uint64 {\n\treturn m.a + 1\n}\n\ntype Mr%N% struct {\n\ta uint64\n}", Core: "r = Mr%N%{a: 4}.get()"},
	{ID: "named-over-named-struct", Decls: "type Ns1%N% struct {\n\ta uint64\n}\n\ntype Ns2%N% Ns1%N%", Core: "o := Ns2%N%{a: 4}\n\tr = o.a", NoCtx: true},
	{ID: "deep-type-nesting", Core: "m := make(map[uint64][]*[]uint64)\n\tvar s []uint64 = make([]uint64, 2)\n\ts[1] = 5\n\tm[1] = append(m[1], &s)\n\tr = (*m[1][0])[1]", NoCtx: true},
	{ID: "local-type-declaration", Core: "type lt struct {\n\t\ta uint64\n\t}\n\to := lt{a: 4}\n\tr = o.a", NoCtx: true},
	{ID: "func-type-mentions-struct", Decls: "type Fs%N% struct {\n\tf func(*Fs%N%) uint64\n\ta uint64\n}", Core: "o := &Fs%N%{a: 4}\n\to.f = func(x *Fs%N%) uint64 {\n\t\treturn x.a + 1\n\t}\n\tr = o.f(o)", NoCtx: true},
	{ID: "long-parameter-list", Decls: "func lp%N%(a uint64, b uint64, c uint64, d uint64, e uint64, f uint64, g uint64, h uint64, i uint64, j uint64, k uint64, l uint64) uint64 {\n\treturn a + b*2 + c*3 + d + e + f + g + h + i + j + k + l*7\n}", Core: "r = lp%N%(1, 2, 3, 4, 5, 6, 7, 8, 9, 10, 11, 12)"},

	// ---- look-alikes: user definitions named like GooseLang library functions (captured by later emitted code) ----
	{ID: "user-func-SliceGet", Decls: "func SliceGet(x uint64) uint64 {\n\treturn x + 100\n}", Setup: "s := make([]uint64, 2)\n\ts[1] = 5", Core: "r = s[1] + SliceGet(1)", Known: "c02LibraryNameCapture"},
	{ID: "user-func-MapInsert", Decls: "func MapInsert(x uint64) uint64 {\n\treturn x + 100\n}", Setup: "m := make(map[uint64]uint64)", Core: "m[1] = 2\n\tr = m[1] + MapInsert(1)", Known: "c02LibraryNameCapture"},
	{ID: "user-func-NewSlice", Decls: "func NewSlice(x uint64) uint64 {\n\treturn x + 100\n}", Core: "s := make([]uint64, 3)\n\tr = uint64(len(s)) + NewSlice(1)", NoCtx: true, Known: "c02LibraryNameCapture"},
	{ID: "user-func-ref_to", Decls: "func ref_to(x uint64) uint64 {\n\treturn x + 100\n}", Core: "var v uint64 = 3\n\tr = v + ref_to(1)", NoCtx: true, Known: "c02LibraryNameCapture"},
	{ID: "user-func-Fst", Decls: "func Fst(x uint64) uint64 {\n\treturn x + 100\n}", Setup: "m := make(map[uint64]uint64)\n\tm[1] = 7", Core: "r = m[1] + Fst(1)", Known: "c02LibraryNameCapture"},
	{ID: "user-func-to_u64", Decls: "func to_u64(x uint64) uint64 {\n\treturn x + 100\n}", Setup: "var k uint32 = 3", Core: "r = uint64(k) + to_u64(1)", Known: "c02LibraryNameCapture"},
	{ID: "user-const-uint64T", Decls: "const uint64T uint64 = 5", Core: "var v uint64 = 3\n\tr = v + uint64T", NoCtx: true, Known: "c02LibraryNameCapture"},
	{ID: "user-func-Continue", Decls: "func Continue() uint64 {\n\treturn 100\n}", Core: "for i := uint64(0); i < 2; i++ {\n\t\tr += 1\n\t}\n\tr += Continue()", NoCtx: true, Known: "c02LibraryNameCapture"},

	// ---- look-alikes: user definitions that share a name with a builtin ----
	{ID: "user-func-len", Decls: "func len(x uint64) uint64 {\n\treturn x + 100\n}", Core: "r = len(3)", Known: "c02BuiltinLookalike"},
	{ID: "user-func-len-in-slice-bound", Decls: "func len(s []uint64) uint64 {\n\treturn 2\n}", Setup: "s := make([]uint64, 4)\n\ts[1] = 7\n\ts[3] = 9", Core: "t := s[1:len(s)]\n\tfor _, v := range t {\n\t\tr += v + 1\n\t}", NoCtx: true},
	{ID: "user-func-len-in-loop-bound", Decls: "func len(s []uint64) uint64 {\n\treturn 2\n}", Setup: "s := make([]uint64, 4)", Core: "for i := uint64(0); i < len(s); i++ {\n\t\tr += 1\n\t}", NoCtx: true},
	{ID: "local-closure-named-len", Setup: "s := make([]uint64, 4)\n\ts[1] = 7\n\ts[3] = 9", Core: "len := func(x []uint64) uint64 {\n\t\treturn 2\n\t}\n\tt := s[1:len(s)]\n\tfor _, v := range t {\n\t\tr += v + 1\n\t}", NoCtx: true},
	{ID: "slice-to-len-of-same", Setup: "s := make([]uint64, 4)\n\ts[1] = 7\n\ts[3] = 9", Core: "t := s[1:len(s)]\n\tfor _, v := range t {\n\t\tr += v + 1\n\t}", NoCtx: true},
	{ID: "slice-to-len-of-other", Setup: "s := make([]uint64, 4)\n\ts[1] = 7\n\ts[3] = 9\n\tu := make([]uint64, 2)", Core: "t := s[1:len(u)]\n\tfor _, v := range t {\n\t\tr += v + 1\n\t}", NoCtx: true},
	{ID: "user-func-cap", Decls: "func cap(x uint64) uint64 {\n\treturn x + 100\n}", Core: "r = cap(3)", Known: "c02BuiltinLookalike"},
	{ID: "user-func-append", Decls: "func append(x uint64, y uint64) uint64 {\n\treturn x*10 + y\n}", Core: "r = append(3, 4)", Known: "c02BuiltinLookalike"},
	{ID: "user-func-copy", Decls: "func copy(x uint64, y uint64) uint64 {\n\treturn x*10 + y\n}", Core: "r = copy(3, 4)", Known: "c02BuiltinLookalike"},
	{ID: "user-func-delete", Decls: "func delete(x uint64, y uint64) uint64 {\n\treturn x*10 + y\n}", Core: "r = delete(3, 4)", Known: "c02BuiltinLookalike"},
	{ID: "user-func-make", Decls: "func make(x uint64, y uint64) uint64 {\n\treturn x*10 + y\n}", Core: "r = make(3, 4)", Known: "c02BuiltinLookalike"},
	{ID: "user-func-new", Decls: "func new(x uint64) uint64 {\n\treturn x + 100\n}", Core: "r = new(3)", Known: "c02BuiltinLookalike"},
	{ID: "user-func-panic", Decls: "func panic(x string) uint64 {\n\treturn 100\n}", Core: "r = panic(\"no\")", Known: "c02BuiltinLookalike"},
	{ID: "user-func-uint64", Decls: "func uint64x%N%() {}\n\nfunc uint32(x uint64) uint64 {\n\treturn x + 100\n}", Core: "r = uint32(3)", Known: "c02BuiltinLookalike"},
	{ID: "user-var-nil", Core: "nil := uint64(3)\n\tr = nil", NoCtx: true},
	{ID: "user-var-nil-as-initialiser", Core: "nil := uint64(5)\n\tvar y uint64 = nil\n\tr = y + 1", NoCtx: true},
	{ID: "user-param-nil-as-initialiser", Decls: "func bmpnil%N%(nil uint64) uint64 {\n\tvar y uint64 = nil\n\ty += 1\n\treturn y\n}", Core: "r = bmpnil%N%(5)"},
	{ID: "user-var-true", Core: "true := uint64(3)\n\tr = true", NoCtx: true},
	{ID: "user-type-string", Decls: "type byte%N% uint64", Core: "var x byte%N% = 300\n\tr = uint64(x)", NoCtx: true},
}

// Contexts are the syntactic contexts an item's Core can be placed in.
var Contexts = []string{"plain", "then-branch", "else-branch", "loop-body", "closure"}

// Use is one use of a catalogue item in a context.
type Use struct {
	Item string `json:"item"`
	Ctx  int    `json:"ctx"`
}

// ByID finds an item.
func ByID(id string) *Item {
	for i := range Items {
		if Items[i].ID == id {
			return &Items[i]
		}
	}
	return nil
}

// Solo reports whether the item redefines a universe name at package level
// and therefore needs a package of its own.
func (it *Item) Solo() bool {
	return strings.HasPrefix(it.ID, "user-func-") || strings.HasPrefix(it.ID, "user-var-") || strings.HasPrefix(it.ID, "user-const-")
}

func indent(s string) string { return strings.ReplaceAll(s, "\n", "\n\t") }

// RenderUse renders the extra declarations and the entry function (named
// entryC<k>) of one use.
func RenderUse(u Use, k int) (decls string, entry string, name string) {
	it := ByID(u.Item)
	suffix := fmt.Sprintf("x%d", k)
	sub := func(s string) string { return strings.ReplaceAll(s, "%N%", suffix) }
	name = fmt.Sprintf("entryC%d", k)
	core := sub(it.Core)
	ctx := u.Ctx
	if it.NoCtx {
		ctx = 0
	}
	switch ctx {
	case 1:
		core = "if r == 0 {\n\t\t" + indent(core) + "\n\t}"
	case 2:
		core = "if r != 0 {\n\t\tr = 9\n\t} else {\n\t\t" + indent(core) + "\n\t}"
	case 3:
		core = "for it := uint64(0); it < 1; it++ {\n\t\t" + indent(core) + "\n\t}"
	case 4:
		core = "fn := func() {\n\t\t" + indent(core) + "\n\t}\n\tfn()"
	}
	var sb strings.Builder
	fmt.Fprintf(&sb, "func %s() uint64 {\n\tvar r uint64\n", name)
	if it.Setup != "" {
		sb.WriteString("\t" + sub(it.Setup) + "\n")
	}
	sb.WriteString("\t" + core + "\n\treturn r\n}\n")
	return sub(it.Decls), sb.String(), name
}

// RenderPackage renders a package main consisting of an optional base
// program and the given uses; it returns the source and entry name -> use.
func RenderPackage(base string, uses []Use) (string, map[string]Use) {
	var sb strings.Builder
	entries := map[string]Use{}
	var body strings.Builder
	var specs []string
	seen := map[string]bool{}
	addSpec := func(spec string) {
		if !seen[spec] {
			seen[spec] = true
			specs = append(specs, spec)
		}
	}
	for k, u := range uses {
		d, e, name := RenderUse(u, k)
		if strings.Contains(d+e, "sync.") {
			addSpec(`"sync"`)
		}
		if it := ByID(u.Item); it != nil {
			for _, sp := range it.Imports {
				addSpec(sp)
			}
		}
		if d != "" {
			body.WriteString(d + "\n\n")
		}
		body.WriteString(e + "\n")
		entries[name] = u
	}
	if base != "" {
		for _, sp := range specs {
			if strings.Contains(base, "\t"+sp+"\n") || strings.Contains(base, "import "+sp+"\n") {
				continue
			}
			if strings.Contains(base, "import (") {
				base = strings.Replace(base, "import (", "import (\n\t"+sp, 1)
			} else {
				base = strings.Replace(base, "package main\n", "package main\n\nimport "+sp+"\n", 1)
			}
		}
		sb.WriteString(base + "\n")
	} else {
		sb.WriteString("package main\n\n")
		for _, sp := range specs {
			sb.WriteString("import " + sp + "\n")
		}
		if len(specs) > 0 {
			sb.WriteString("\n")
		}
	}
	sb.WriteString(body.String())
	return sb.String(), entries
}
