package glang

import (
	"os"
	"testing"
)

func TestCalibration(t *testing.T) {
	repo := os.Getenv("VERIF_REPO")
	if repo == "" {
		repo = "/repo"
	}
	res, err := Calibrate(repo)
	if err != nil {
		t.Fatal(err)
	}
	t.Logf("test*: %d/%d give #true", res.Passed, res.Tests)
	for _, n := range res.FailingNotes {
		t.Log("  ", n)
	}
	for _, p := range res.Problems {
		t.Error(p)
	}
}

func TestCalibrationThreaded(t *testing.T) {
	repo := os.Getenv("VERIF_REPO")
	if repo == "" {
		repo = "/repo"
	}
	prog, names, err := LoadSemantics(repo)
	if err != nil {
		t.Fatal(err)
	}
	n := 0
	for _, name := range names {
		if len(name) < 4 || name[:4] != "test" {
			continue
		}
		runs, complete := Explore(prog, name, 5_000_000, 50, 100000, func(o ThreadedOutcome) bool {
			if o.Deadlock || o.Aborted || o.Main.Kind != Value || !Equal(o.Main.Val, VBool(true)) || len(o.StuckInfo) > 0 {
				t.Errorf("%s under schedule %v: deadlock=%v aborted=%v main=%s %v %s stuck=%v", name, o.Trace, o.Deadlock, o.Aborted, o.Main.Kind, showOpt(o.Main.Val), o.Main.Msg, o.StuckInfo)
				return false
			}
			return true
		})
		if runs > 1 {
			t.Logf("%s: %d schedules (complete=%v)", name, runs, complete)
		}
		n++
	}
	t.Logf("%d tests run threaded", n)
}
