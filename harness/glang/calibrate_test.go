package glang

import (
	"os"
	"testing"
)

func TestCalibration(t *testing.T) {
	repo := os.Getenv("VERIF_REPO")
	if repo == "" {
		repo = "/repo"
	}
	res, err := Calibrate(repo)
	if err != nil {
		t.Fatal(err)
	}
	t.Logf("test*: %d/%d give #true", res.Passed, res.Tests)
	for _, n := range res.FailingNotes {
		t.Log("  ", n)
	}
	for _, p := range res.Problems {
		t.Error(p)
	}
}
