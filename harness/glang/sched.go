package glang

import "verifharness/vread"

// Sequential fallbacks; the thread scheduler (C03) replaces these when
// in.sched != nil (see threads.go).

type sched struct{}
type thread struct{}

func (in *Interp) syncPoint(what string) {}

func (in *Interp) lockAcquire(l VLoc) {
	c := in.cell(l, 0)
	b, ok := (*c).(VBool)
	if !ok {
		stuck("lock.acquire on a non-lock")
	}
	if b {
		stuck("lock.acquire of a held lock in a sequential execution (deadlock)")
	}
	*c = VBool(true)
}

func (in *Interp) lockRelease(l VLoc) {
	c := in.cell(l, 0)
	b, ok := (*c).(VBool)
	if !ok {
		stuck("lock.release on a non-lock")
	}
	if !b {
		stuck("lock.release of a lock that is not held")
	}
	*c = VBool(false)
}

func (in *Interp) condBlock(c VLoc, timeout bool) {}
func (in *Interp) condWake(c VLoc, all bool)      {}

func (in *Interp) wgWait(l VLoc) {
	c := in.cell(l, 0)
	if asInt(*c, 64, "waitgroup.Wait") != 0 {
		stuck("waitgroup.Wait with a non-zero counter in a sequential execution (deadlock)")
	}
}

func (in *Interp) fork(body vread.Expr, env *Env, sc scope) {
	panic(unknownErr{"Fork in sequential mode"})
}
