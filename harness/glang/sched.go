package glang

import (
	"fmt"

	"verifharness/vread"
)

// Threads and scheduling (C03).
//
// Each GooseLang thread runs in its own goroutine, but only one runs at a
// time: a thread hands control back to the scheduler at scheduling points
// (lock.acquire, the re-acquire of condWait, waitgroup.Wait, time.Sleep and
// thread end). For data-race-free programs interleaving at these points only
// loses no terminal result: everything a thread does between two of its
// scheduling points is ordered with other threads' conflicting accesses by
// the synchronisation operations themselves.
//
// The scheduler is stateless: a run is determined by a sequence of choices
// (index of the runnable thread picked at each scheduling point with more
// than one runnable thread). Explore enumerates choice sequences depth-first.

type threadState int

const (
	tsRunnable threadState = iota
	tsWantLock             // blocked until the lock is free
	tsCondWait             // released the lock in condWait: runnable once another thread has taken a step
	tsWgWait               // blocked until the waitgroup counter is 0
	tsDone
)

type thread struct {
	id      int
	state   threadState
	lock    VLoc // tsWantLock
	wg      VLoc // tsWgWait
	sinceEp int  // tsCondWait: release count of the lock when it started waiting
	resume  chan struct{}
	outcome *Outcome // set when the thread finished abnormally (stuck etc.)
	result  Val
	killed  bool
}

type sched struct {
	in      *Interp
	cur     *thread
	threads []*thread
	yield   chan *thread
	epoch   int // incremented every time a thread is resumed
	// releases counts lock.release operations per lock cell: a condWait-er re-checks
	// its condition only after somebody has been inside a critical section of that lock
	releases map[*Block]int
	prefix   []int
	pos      int
	trace    []choicePoint
	maxSteps int
	steps    int
}

type choicePoint struct {
	options int
	chosen  int
}

// ThreadedOutcome is the result of one complete run under one schedule.
type ThreadedOutcome struct {
	Main      Outcome  // outcome of the main thread
	Deadlock  bool     // main thread could not finish: no runnable thread
	StuckInfo []string // threads (other than main) that got stuck
	Aborted   bool     // step bound exceeded
	Trace     []int    // choices taken
	Final     *Interp  // the interpreter (heap) after the run, for decoding results
	options   []int
}

func (in *Interp) syncPoint(what string) {
	if in.sched == nil {
		return
	}
	t := in.sched.cur
	t.state = tsRunnable
	in.sched.park(t)
}

// park hands control to the scheduler and waits to be resumed.
func (s *sched) park(t *thread) {
	s.yield <- t
	<-t.resume
	if t.killed {
		panic(abortRun{})
	}
}

func (in *Interp) lockAcquire(l VLoc) {
	c := in.cell(l, 0)
	if _, ok := (*c).(VBool); !ok {
		stuck("lock.acquire on a non-lock")
	}
	if in.sched == nil {
		if bool((*c).(VBool)) {
			stuck("lock.acquire of a held lock in a sequential execution (deadlock)")
		}
		*c = VBool(true)
		return
	}
	t := in.sched.cur
	t.state = tsWantLock
	t.lock = l
	in.sched.park(t)
	// the scheduler resumes a tsWantLock thread only when the lock is free
	c = in.cell(l, 0)
	if bool((*c).(VBool)) {
		panic("scheduler resumed a thread whose lock is held")
	}
	*c = VBool(true)
}

func (in *Interp) lockRelease(l VLoc) { in.lockReleaseYield(l, true) }

// lockReleaseYield: condWait releases without a scheduling point of its own (it parks right away,
// and the bookkeeping of "another thread has released the lock since" starts there).
func (in *Interp) lockReleaseYield(l VLoc, yield bool) {
	c := in.cell(l, 0)
	b, ok := (*c).(VBool)
	if !ok {
		stuck("lock.release on a non-lock")
	}
	if !b {
		stuck("lock.release of a lock that is not held")
	}
	*c = VBool(false)
	if in.sched != nil {
		in.sched.releases[l.B]++
		// another thread may run between a release and what the releasing thread does next: for a
		// data-race-free program that changes nothing, but the TRANSLATED program may read shared
		// state right after the release (seeded change C03-12: the condition of an if evaluated
		// after a hoisted Unlock)
		if yield {
			in.syncPoint("lock.release")
		}
	}
}

// condBlock is the middle of condWait: the lock has been released; GooseLang
// condition variables wake up spuriously, so the thread only needs another
// thread to have run (otherwise re-checking its condition is pointless).
func (in *Interp) condBlock(c VLoc, timeout bool) {
	if in.sched == nil {
		return
	}
	t := in.sched.cur
	t.state = tsCondWait
	// the condition variable's lock: the waiter becomes runnable again once another
	// thread has released it (the awaited condition can only change under that lock);
	// its own release just before does not count
	lk := in.asLoc(*in.cell(c, 0), "condWait")
	t.lock = lk
	t.sinceEp = in.sched.releases[lk.B]
	in.sched.park(t)
}

func (in *Interp) condWake(c VLoc, all bool) {}

func (in *Interp) wgWait(l VLoc) {
	c := in.cell(l, 0)
	if in.sched == nil {
		if asInt(*c, 64, "waitgroup.Wait") != 0 {
			stuck("waitgroup.Wait with a non-zero counter in a sequential execution (deadlock)")
		}
		return
	}
	t := in.sched.cur
	t.state = tsWgWait
	t.wg = l
	in.sched.park(t)
}

func (in *Interp) fork(body vread.Expr, env *Env, sc scope) {
	if in.sched == nil {
		panic(unknownErr{"Fork in sequential mode"})
	}
	s := in.sched
	t := &thread{id: len(s.threads), resume: make(chan struct{})}
	s.threads = append(s.threads, t)
	go s.runThread(t, func(ti *Interp) Val { return ti.eval(body, env, sc) })
}

// runThread is the body of a thread goroutine: waits to be scheduled, runs f,
// reports completion.
func (s *sched) runThread(t *thread, f func(*Interp) Val) {
	<-t.resume
	if t.killed {
		return
	}
	aborted := false
	func() {
		defer func() {
			if r := recover(); r != nil {
				switch r := r.(type) {
				case abortRun:
					aborted = true
				case stuckErr, fuelErr, unknownErr, divergeErr:
					o := outcomeOfPanic(r)
					t.outcome = &o
				default:
					t.outcome = &Outcome{Kind: Unknown, Msg: fmt.Sprintf("internal error of the interpreter: %v", r)}
				}
			}
		}()
		t.result = f(s.in)
	}()
	if aborted {
		return
	}
	t.state = tsDone
	s.yield <- t
}

type abortRun struct{}

// runnable lists the threads that can take a step now.
func (s *sched) runnable() []*thread {
	var out []*thread
	for _, t := range s.threads {
		switch t.state {
		case tsRunnable:
			out = append(out, t)
		case tsWantLock:
			if b, ok := (*s.in.cell(t.lock, 0)).(VBool); ok && !bool(b) {
				out = append(out, t)
			}
		case tsCondWait:
			if s.releases[t.lock.B] > t.sinceEp {
				out = append(out, t)
			}
		case tsWgWait:
			if v, ok := (*s.in.cell(t.wg, 0)).(VInt); ok && v.N == 0 {
				out = append(out, t)
			}
		}
	}
	return out
}

// RunThreaded evaluates `name #()` with threads under the given choice
// prefix (choices beyond the prefix default to 0).
func RunThreaded(prog *Program, name string, fuel int64, prefix []int, maxSteps int) ThreadedOutcome {
	in := NewInterp(prog, fuel)
	s := &sched{in: in, yield: make(chan *thread), prefix: prefix, maxSteps: maxSteps, releases: map[*Block]int{}}
	in.sched = s
	main := &thread{id: 0, resume: make(chan struct{})}
	s.threads = []*thread{main}
	pkg := prog.Main
	d := pkg.lookupDef(name, len(pkg.Defs))
	if d == nil {
		return ThreadedOutcome{Main: Outcome{Kind: Unknown, Msg: "no definition " + name}}
	}
	go s.runThread(main, func(ti *Interp) Val {
		f := ti.defValue(d, nil)
		return ti.apply(f, []Val{VUnit{}})
	})
	var res ThreadedOutcome
	mainDone := false
	for {
		r := s.runnable()
		if len(r) == 0 {
			if !mainDone {
				res.Deadlock = true
			}
			break
		}
		s.steps++
		if s.steps > maxSteps {
			res.Aborted = true
			break
		}
		pick := 0
		if len(r) > 1 && !mainDone {
			if s.pos < len(s.prefix) {
				pick = s.prefix[s.pos]
				if pick >= len(r) {
					pick = len(r) - 1
				}
			}
			s.pos++
			res.Trace = append(res.Trace, pick)
			res.options = append(res.options, len(r))
		}
		t := r[pick]
		s.epoch++
		t.state = tsRunnable
		s.cur = t
		t.resume <- struct{}{}
		y := <-s.yield
		if y.state == tsDone {
			if y.outcome != nil && y.id != 0 {
				res.StuckInfo = append(res.StuckInfo, fmt.Sprintf("thread %d: %s %s", y.id, y.outcome.Kind, y.outcome.Msg))
			}
			if y.id == 0 {
				mainDone = true
				if y.outcome != nil {
					res.Main = *y.outcome
				} else {
					res.Main = Outcome{Kind: Value, Val: y.result}
				}
			}
		}
	}
	res.Final = in
	// unwind the goroutines of threads that never finished (all of them are parked)
	for _, t := range s.threads {
		if t.state != tsDone {
			t.killed = true
			t.resume <- struct{}{}
		}
	}
	return res
}

// Explore enumerates schedules depth-first up to maxRuns runs and returns
// every run's outcome. complete reports whether the enumeration finished.
func Explore(prog *Program, name string, fuel int64, maxRuns, maxSteps int, visit func(ThreadedOutcome) bool) (runs int, complete bool) {
	var prefix []int
	for {
		out := RunThreaded(prog, name, fuel, prefix, maxSteps)
		runs++
		if !visit(out) {
			return runs, false
		}
		// next prefix: increment the last choice that has an untried option
		tr, opts := out.Trace, out.options
		i := len(tr) - 1
		for i >= 0 && tr[i]+1 >= opts[i] {
			i--
		}
		if i < 0 {
			return runs, true
		}
		prefix = append(append([]int{}, tr[:i]...), tr[i]+1)
		if runs >= maxRuns {
			return runs, false
		}
	}
}
