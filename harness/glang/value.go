// Package glang (engine E3) is a reference interpreter for the GooseLang text
// goose emits, written from knowledge of Perennial's goose_lang (lang.v,
// notation.v, lib/{struct,slice,map,loop,lock,waitgroup,string,encoding,
// control,time}); see DESIGN.md §2.3 and Appendix A for the definitions it
// assumes. It is calibrated on internal/examples/semantics (calibrate.go).
package glang

import (
	"fmt"
	"sort"
	"strings"

	"verifharness/vread"
)

// Val is a GooseLang value.
type Val interface{}

type (
	// VInt is an unsigned integer literal of width 64, 32 or 8.
	VInt struct {
		W int
		N uint64
	}
	VBool bool
	VUnit struct{}
	VStr  string
	// VLoc is a location: block + offset; B == nil is null.
	VLoc struct {
		B   *Block
		Off int
	}
	VPair struct{ A, B Val }
	// VClo is a closure. Params are the remaining parameters ("" = <>).
	VClo struct {
		Rec    string
		Params []string
		Body   vread.Expr
		Env    *Env
		Def    int // index of the definition whose text this closure comes from
		pkg    *Package
	}
	// VMap is the contents of a map cell (mutable; only reachable through the
	// cell allocated by NewMap).
	VMap struct {
		Keys    []Val
		Vals    []Val
		Default Val
	}
	// VType is a type used as a value (type arguments).
	VType struct{ T Type }
	// VDesc is a struct descriptor used as a value.
	VDesc struct{ D *Desc }
	// VExt is an opaque external value (lock, waitgroup, cond, disk).
	VExt struct {
		Kind string
		P    interface{}
	}
	// VPrimClo is a partially applied library function awaiting one value.
	VPrimClo struct {
		Name string
		Fn   func(Val) Val
	}
	// VBuiltin is a library function used as a value (e.g. Skip, Linearize).
	VBuiltin struct{ Name string }
)

// Block is a heap block of cells.
type Block struct {
	ID    int
	Cells []Val
}

// Type is a GooseLang type.
type Type interface{}

type (
	TBase   struct{ Name string } // uint64T uint32T byteT boolT stringT unitT ptrT anyT funcT mapT extT
	TSlice  struct{ Elem Type }
	TProd   struct{ A, B Type }
	TStruct struct{ D *Desc }
	TArray  struct{ Elem Type }
)

// Desc is a struct descriptor.
type Desc struct {
	Name   string
	Fields []DescField
}

type DescField struct {
	Name string
	Type Type
}

// TySize is ty_size: number of heap cells a value of the type occupies.
func TySize(t Type) int {
	switch t := t.(type) {
	case TBase:
		if t.Name == "unitT" {
			return 0
		}
		return 1
	case TSlice:
		return 3
	case TProd:
		return TySize(t.A) + TySize(t.B)
	case TStruct:
		n := 0
		for _, f := range t.D.Fields {
			n += TySize(f.Type)
		}
		return n
	case TArray:
		return 1
	}
	return 1
}

// ZeroVal is zero_val.
func ZeroVal(t Type) Val {
	switch t := t.(type) {
	case TBase:
		switch t.Name {
		case "uint64T":
			return VInt{64, 0}
		case "uint32T":
			return VInt{32, 0}
		case "byteT":
			return VInt{8, 0}
		case "boolT":
			return VBool(false)
		case "stringT":
			return VStr("")
		case "unitT":
			return VUnit{}
		default: // ptrT, mapT, function types, anyT, ext
			return VLoc{}
		}
	case TSlice:
		return SliceNil()
	case TProd:
		return VPair{ZeroVal(t.A), ZeroVal(t.B)}
	case TStruct:
		return zeroStruct(t.D.Fields)
	case TArray:
		return VLoc{}
	}
	return VLoc{}
}

func zeroStruct(fs []DescField) Val {
	if len(fs) == 0 {
		return VUnit{}
	}
	return VPair{ZeroVal(fs[0].Type), zeroStruct(fs[1:])}
}

// SliceNil is slice.nil = (#null, #0, #0).
func SliceNil() Val { return MkSlice(VLoc{}, 0, 0) }

// MkSlice builds ((ptr, len), cap).
func MkSlice(p VLoc, n, c uint64) Val {
	return VPair{VPair{p, VInt{64, n}}, VInt{64, c}}
}

// Flatten lists the cells a value occupies: pairs flatten recursively, unit
// flattens to nothing, everything else is one cell.
func Flatten(v Val, out []Val) []Val {
	switch v := v.(type) {
	case VPair:
		out = Flatten(v.A, out)
		return Flatten(v.B, out)
	case VUnit:
		return out
	}
	return append(out, v)
}

// Show renders a value (debugging and messages).
func Show(v Val) string {
	switch v := v.(type) {
	case VInt:
		switch v.W {
		case 64:
			return fmt.Sprintf("#%d", v.N)
		case 32:
			return fmt.Sprintf("#(U32 %d)", v.N)
		default:
			return fmt.Sprintf("#(U8 %d)", v.N)
		}
	case VBool:
		return fmt.Sprintf("#%v", bool(v))
	case VUnit:
		return "#()"
	case VStr:
		return fmt.Sprintf("#(str%q)", string(v))
	case VLoc:
		if v.B == nil {
			return "#null"
		}
		return fmt.Sprintf("#(loc %d+%d)", v.B.ID, v.Off)
	case VPair:
		return "(" + Show(v.A) + ", " + Show(v.B) + ")"
	case *VClo:
		return "<closure " + v.Rec + ">"
	case *VMap:
		var parts []string
		for i := range v.Keys {
			parts = append(parts, Show(v.Keys[i])+"↦"+Show(v.Vals[i]))
		}
		sort.Strings(parts)
		return "{" + strings.Join(parts, ", ") + "}"
	case VType:
		return "<type>"
	case VDesc:
		return "<desc " + v.D.Name + ">"
	case VExt:
		return "<" + v.Kind + ">"
	case VBuiltin:
		return "<builtin " + v.Name + ">"
	case VPrimClo:
		return "<" + v.Name + ">"
	case nil:
		return "<nil>"
	}
	return fmt.Sprintf("<?%T>", v)
}

// Comparable reports whether = can be applied to v (is_comparable).
func Comparable(v Val) bool {
	switch v := v.(type) {
	case VInt, VBool, VUnit, VStr, VLoc:
		return true
	case VPair:
		return Comparable(v.A) && Comparable(v.B)
	}
	return false
}

// Equal is structural equality of comparable values.
func Equal(a, b Val) bool {
	switch a := a.(type) {
	case VInt:
		b, ok := b.(VInt)
		return ok && a == b
	case VBool:
		b, ok := b.(VBool)
		return ok && a == b
	case VUnit:
		_, ok := b.(VUnit)
		return ok
	case VStr:
		b, ok := b.(VStr)
		return ok && a == b
	case VLoc:
		b, ok := b.(VLoc)
		return ok && a.B == b.B && (a.B == nil || a.Off == b.Off)
	case VPair:
		b, ok := b.(VPair)
		return ok && Equal(a.A, b.A) && Equal(a.B, b.B)
	}
	return false
}

// Env is a lexical environment of GooseLang variables (string binders) and
// Gallina-level type parameters (names prefixed with "ty:").
type Env struct {
	Name   string
	Val    Val
	Parent *Env
}

func (e *Env) Bind(name string, v Val) *Env {
	if name == "" {
		return e
	}
	return &Env{Name: name, Val: v, Parent: e}
}

func (e *Env) Lookup(name string) (Val, bool) {
	for ; e != nil; e = e.Parent {
		if e.Name == name {
			return e.Val, true
		}
	}
	return nil, false
}
