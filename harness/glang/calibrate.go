package glang

import (
	"fmt"
	"os"
	"path/filepath"
	"sort"
	"strings"

	"verifharness/vread"
)

// semanticFailures are the failing_test* functions of the semantics package
// whose upstream failure is a semantic one: under the real GooseLang
// semantics they do NOT evaluate to #true.
var semanticFailures = map[string]bool{
	"failing_testEncDec32": true, "failing_testArgumentOrder": true, "failing_testFunctionOrdering": true,
	"failing_testU32NewtypeLen": true, "failing_testCompareSliceToNil": true, "failing_testReverseAssignOps32": true,
	"failing_testFooBarMutation": true, "failing_testStructUpdates": true,
}

// CalibrationResult reports how the interpreter fares on the semantics corpus.
type CalibrationResult struct {
	Tests        int
	Passed       int
	Problems     []string // test* that did not give #true, failing_test* that did
	FailingNotes []string
}

// LoadSemantics parses the semantics gold file and returns the program and its definition names.
func LoadSemantics(repo string) (*Program, []string, error) {
	path := filepath.Join(repo, "internal/examples/semantics/semantics.gold.v")
	b, err := os.ReadFile(path)
	if err != nil {
		return nil, nil, err
	}
	f, err := vread.ParseFile(string(b))
	if err != nil {
		return nil, nil, fmt.Errorf("semantics.gold.v does not parse: %v", err)
	}
	prog := Load("semantics", map[string]*vread.File{"semantics": f})
	var names []string
	for _, d := range prog.Main.Defs {
		names = append(names, d.S.Name)
	}
	sort.Strings(names)
	return prog, names, nil
}

// Calibrate runs every test*/failing_test* definition of the semantics gold
// file in the given repository tree.
func Calibrate(repo string) (*CalibrationResult, error) {
	path := filepath.Join(repo, "internal/examples/semantics/semantics.gold.v")
	b, err := os.ReadFile(path)
	if err != nil {
		return nil, err
	}
	f, err := vread.ParseFile(string(b))
	if err != nil {
		return nil, fmt.Errorf("semantics.gold.v does not parse: %v", err)
	}
	prog := Load("semantics", map[string]*vread.File{"semantics": f})
	res := &CalibrationResult{}
	var names []string
	for _, d := range prog.Main.Defs {
		names = append(names, d.S.Name)
	}
	sort.Strings(names)
	for _, n := range names {
		isTest := strings.HasPrefix(n, "test")
		isFailing := strings.HasPrefix(n, "failing_test")
		if !isTest && !isFailing {
			continue
		}
		in := NewInterp(prog, 5_000_000)
		out := in.Run(n)
		ok := out.Kind == Value && Equal(out.Val, VBool(true))
		if isTest {
			res.Tests++
			if ok {
				res.Passed++
			} else {
				res.Problems = append(res.Problems, fmt.Sprintf("%s: %s %s %s", n, out.Kind, showOpt(out.Val), out.Msg))
			}
		} else {
			res.FailingNotes = append(res.FailingNotes, fmt.Sprintf("%s: %s %s %s", n, out.Kind, showOpt(out.Val), out.Msg))
			if semanticFailures[n] && ok {
				res.Problems = append(res.Problems, fmt.Sprintf("%s evaluates to #true but is a documented upstream semantic failure", n))
			}
		}
	}
	return res, nil
}

func showOpt(v Val) string {
	if v == nil {
		return ""
	}
	return Show(v)
}
