package glang

import (
	"strconv"

	"verifharness/vread"
)

var primNames = map[string]bool{}

func init() {
	for _, n := range []string{
		"ref_to", "ref", "zero_val", "zero_array",
		"struct.mk", "struct.new", "struct.alloc", "struct.get", "struct.loadF", "struct.storeF", "struct.fieldRef", "struct.load", "struct.store",
		"slice.len", "slice.cap", "slice.ptr", "NewSlice", "NewSliceWithCap", "SliceRef", "SliceGet", "SliceSet", "SliceSkip", "SliceTake", "SliceSubslice",
		"SliceAppend", "SliceAppendSlice", "SliceCopy", "SliceSingleton", "ForSlice",
		"NewMap", "MapGet", "MapInsert", "MapDelete", "MapLen", "MapIter", "MapClear",
		"Fst", "Snd",
		"StringLength", "StringToBytes", "StringFromBytes", "uint64_to_string",
		"to_u64", "to_u32", "to_u8",
		"UInt64Put", "UInt64Get", "UInt32Put", "UInt32Get",
		"Panic", "control.impl.Assume", "control.impl.Assert", "control.impl.Exit",
		"rand.RandomUint64", "time.Sleep", "time.TimeNow", "NewProph", "ResolveProph", "util.DPrintf",
		"lock.new", "lock.acquire", "lock.release", "lock.newCond", "lock.condWait", "lock.condSignal", "lock.condBroadcast", "lock.condWaitTimeout",
		"waitgroup.New", "waitgroup.Add", "waitgroup.Done", "waitgroup.Wait", "Fork",
		"disk.Read", "disk.ReadTo", "disk.Write", "disk.Size", "disk.Barrier", "disk.Get", "disk.Init",
	} {
		primNames[n] = true
	}
}

func isPrim(name string) bool { return primNames[name] }

func (in *Interp) argc(name string, args []vread.Expr, n int) {
	if len(args) != n {
		if len(args) < n {
			panic(unknownErr{"partial application of " + name})
		}
		stuck("%s applied to %d arguments, takes %d", name, len(args), n)
	}
}

func asInt(v Val, w int, what string) uint64 {
	i, ok := v.(VInt)
	if !ok || i.W != w {
		stuck("%s: expected a %d-bit integer, got %s", what, w, Show(v))
	}
	return i.N
}

// slice accessors: ((ptr, len), cap)
func asSlice(v Val, what string) (VLoc, uint64, uint64) {
	p, ok := v.(VPair)
	if ok {
		if q, ok := p.A.(VPair); ok {
			if ptr, ok := q.A.(VLoc); ok {
				n, ok1 := q.B.(VInt)
				c, ok2 := p.B.(VInt)
				if ok1 && ok2 && n.W == 64 && c.W == 64 {
					return ptr, n.N, c.N
				}
			}
		}
	}
	stuck("%s: expected a slice value, got %s", what, Show(v))
	panic("unreachable")
}

func fieldName(e vread.Expr, what string) string {
	s, ok := vread.Strip(e).(vread.Str)
	if !ok {
		panic(unknownErr{what + " with a non-literal field name"})
	}
	return s.S
}

func fieldOffset(d *Desc, f string) (int, Type) {
	off := 0
	for _, fd := range d.Fields {
		if fd.Name == f {
			return off, fd.Type
		}
		off += TySize(fd.Type)
	}
	stuck("struct %s has no field %q", d.Name, f)
	panic("unreachable")
}

func (in *Interp) zeroCells(t Type, n uint64) []Val {
	if n > 1<<22 {
		stuck("allocation of %d elements", n)
	}
	one := Flatten(ZeroVal(t), nil)
	cells := make([]Val, 0, int(n)*len(one))
	for i := uint64(0); i < n; i++ {
		cells = append(cells, one...)
	}
	return cells
}

func (in *Interp) mapCell(v Val, what string) *VMap {
	l, ok := v.(VLoc)
	if !ok {
		stuck("%s on non-map %s", what, Show(v))
	}
	if l.B == nil {
		stuck("%s on nil map", what)
	}
	m, ok := (*in.cell(l, 0)).(*VMap)
	if !ok {
		stuck("%s: location does not hold a map", what)
	}
	return m
}

func (m *VMap) find(k Val) int {
	for i := range m.Keys {
		if Equal(m.Keys[i], k) {
			return i
		}
	}
	return -1
}

func (in *Interp) prim(name string, args []vread.Expr, env *Env, sc scope) Val {
	in.tick()
	ev := func(e vread.Expr) Val { return in.eval(e, env, sc) }
	ty := func(e vread.Expr) Type { return in.evalType(e, env, sc) }
	vals := func(es ...vread.Expr) []Val { return in.evalArgs(es, env, sc) }
	switch name {
	case "ref_to":
		in.argc(name, args, 2)
		ty(args[0])
		return in.alloc(Flatten(ev(args[1]), nil))
	case "ref":
		in.argc(name, args, 1)
		return in.alloc(Flatten(ev(args[0]), nil))
	case "zero_val":
		in.argc(name, args, 1)
		return ZeroVal(ty(args[0]))
	case "zero_array":
		in.argc(name, args, 2)
		t := ty(args[0])
		n := asInt(ev(args[1]), 64, name)
		return in.alloc(in.zeroCells(t, n))
	case "struct.mk", "struct.new":
		in.argc(name, args, 2)
		d := in.evalDesc(args[0], sc)
		lst, ok := vread.Strip(args[1]).(vread.List)
		if !ok {
			panic(unknownErr{name + " without a literal field list"})
		}
		given := map[string]vread.Expr{}
		for _, el := range lst.Elems {
			b, ok := el.(vread.Bin)
			if !ok || b.Op != "::=" {
				panic(unknownErr{name + ": malformed field"})
			}
			f := fieldName(b.X, name)
			if _, dup := given[f]; dup {
				stuck("%s %s: field %q given twice", name, d.Name, f)
			}
			fieldOffset(d, f)
			given[f] = b.Y
		}
		fv := make([]Val, len(d.Fields))
		order := make([]int, len(d.Fields))
		for i := range order {
			order[i] = len(d.Fields) - 1 - i
		}
		if in.LeftToRight {
			// Go evaluates the fields in the order they are written
			order = order[:0]
			for _, el := range lst.Elems {
				f := fieldName(el.(vread.Bin).X, name)
				for i, fd := range d.Fields {
					if fd.Name == f {
						order = append(order, i)
					}
				}
			}
			for i, fd := range d.Fields {
				if _, ok := given[fd.Name]; !ok {
					fv[i] = ZeroVal(fd.Type)
				}
			}
		}
		for _, i := range order {
			fd := d.Fields[i]
			if e, ok := given[fd.Name]; ok {
				fv[i] = ev(e)
			} else {
				fv[i] = ZeroVal(fd.Type)
			}
		}
		var v Val = VUnit{}
		for i := len(fv) - 1; i >= 0; i-- {
			v = VPair{fv[i], v}
		}
		if name == "struct.new" {
			return in.alloc(Flatten(v, nil))
		}
		return v
	case "struct.alloc":
		in.argc(name, args, 2)
		in.evalDesc(args[0], sc)
		return in.alloc(Flatten(ev(args[1]), nil))
	case "struct.get":
		if len(args) == 2 {
			// struct.get d f is itself a value (a projection function)
			d := in.evalDesc(args[0], sc)
			f := fieldName(args[1], name)
			fieldOffset(d, f)
			return VPrimClo{Name: "struct.get " + d.Name + " " + f, Fn: func(v Val) Val { return structGet(d, f, v) }}
		}
		in.argc(name, args, 3)
		d := in.evalDesc(args[0], sc)
		f := fieldName(args[1], name)
		return structGet(d, f, ev(args[2]))
	case "struct.fieldRef":
		in.argc(name, args, 3)
		d := in.evalDesc(args[0], sc)
		off, _ := fieldOffset(d, fieldName(args[1], name))
		l := in.asLoc(ev(args[2]), name)
		if l.B == nil {
			stuck("struct.fieldRef of null")
		}
		return VLoc{l.B, l.Off + off}
	case "struct.loadF":
		in.argc(name, args, 3)
		d := in.evalDesc(args[0], sc)
		off, ft := fieldOffset(d, fieldName(args[1], name))
		l := in.asLoc(ev(args[2]), name)
		if l.B == nil {
			stuck("struct.loadF through null")
		}
		return in.loadTy(ft, VLoc{l.B, l.Off + off})
	case "struct.storeF":
		in.argc(name, args, 4)
		d := in.evalDesc(args[0], sc)
		off, ft := fieldOffset(d, fieldName(args[1], name))
		vs := vals(args[2], args[3])
		l := in.asLoc(vs[0], name)
		if l.B == nil {
			stuck("struct.storeF through null")
		}
		in.storeTy(ft, VLoc{l.B, l.Off + off}, vs[1])
		return VUnit{}
	case "struct.load":
		in.argc(name, args, 2)
		d := in.evalDesc(args[0], sc)
		return in.loadTy(TStruct{d}, in.asLoc(ev(args[1]), name))
	case "struct.store":
		in.argc(name, args, 3)
		d := in.evalDesc(args[0], sc)
		vs := vals(args[1], args[2])
		in.storeTy(TStruct{d}, in.asLoc(vs[0], name), vs[1])
		return VUnit{}

	// ---- slices ----
	case "slice.len":
		in.argc(name, args, 1)
		_, n, _ := asSlice(ev(args[0]), name)
		return VInt{64, n}
	case "slice.cap":
		in.argc(name, args, 1)
		_, _, c := asSlice(ev(args[0]), name)
		return VInt{64, c}
	case "slice.ptr":
		in.argc(name, args, 1)
		p, _, _ := asSlice(ev(args[0]), name)
		return p
	case "NewSlice":
		in.argc(name, args, 2)
		t := ty(args[0])
		n := asInt(ev(args[1]), 64, name)
		if n == 0 {
			return SliceNil()
		}
		return MkSlice(in.alloc(in.zeroCells(t, n)), n, n)
	case "NewSliceWithCap":
		in.argc(name, args, 3)
		t := ty(args[0])
		vs := vals(args[1], args[2])
		n, c := asInt(vs[0], 64, name), asInt(vs[1], 64, name)
		if c < n {
			stuck("NewSliceWithCap: capacity %d < length %d", c, n)
		}
		return MkSlice(in.alloc(in.zeroCells(t, c)), n, c)
	case "SliceRef", "SliceGet":
		in.argc(name, args, 3)
		t := ty(args[0])
		vs := vals(args[1], args[2])
		p, _, _ := asSlice(vs[0], name)
		i := asInt(vs[1], 64, name)
		if p.B == nil {
			stuck("%s on nil slice", name)
		}
		l := VLoc{p.B, p.Off + int(i)*TySize(t)}
		if i > 1<<40 {
			stuck("%s index %d", name, i)
		}
		if name == "SliceRef" {
			return l
		}
		return in.loadTy(t, l)
	case "SliceSet":
		in.argc(name, args, 4)
		t := ty(args[0])
		vs := vals(args[1], args[2], args[3])
		p, _, _ := asSlice(vs[0], name)
		i := asInt(vs[1], 64, name)
		if p.B == nil || i > 1<<40 {
			stuck("SliceSet on nil slice or huge index")
		}
		in.storeTy(t, VLoc{p.B, p.Off + int(i)*TySize(t)}, vs[2])
		return VUnit{}
	case "SliceSkip":
		in.argc(name, args, 3)
		t := ty(args[0])
		vs := vals(args[1], args[2])
		p, n, c := asSlice(vs[0], name)
		k := asInt(vs[1], 64, name)
		if k > n {
			stuck("SliceSkip %d of a slice of length %d (length would wrap around)", k, n)
		}
		q := p
		if p.B != nil {
			q = VLoc{p.B, p.Off + int(k)*TySize(t)}
		}
		return MkSlice(q, n-k, c-k)
	case "SliceTake":
		in.argc(name, args, 2)
		vs := vals(args[0], args[1])
		p, _, c := asSlice(vs[0], name)
		k := asInt(vs[1], 64, name)
		if c < k {
			stuck("SliceTake: slice index out-of-bounds (%d > cap %d)", k, c)
		}
		return MkSlice(p, k, c)
	case "SliceSubslice":
		in.argc(name, args, 4)
		t := ty(args[0])
		vs := vals(args[1], args[2], args[3])
		p, _, c := asSlice(vs[0], name)
		a, b := asInt(vs[1], 64, name), asInt(vs[2], 64, name)
		if b < a {
			stuck("SliceSubslice: slice indices out of order (%d > %d)", a, b)
		}
		if c < b {
			stuck("SliceSubslice: slice index out-of-bounds (%d > cap %d)", b, c)
		}
		q := p
		if p.B != nil {
			q = VLoc{p.B, p.Off + int(a)*TySize(t)}
		}
		return MkSlice(q, b-a, c-a)
	case "SliceSingleton":
		in.argc(name, args, 1)
		v := ev(args[0])
		return MkSlice(in.alloc(Flatten(v, nil)), 1, 1)
	case "SliceAppend":
		in.argc(name, args, 3)
		t := ty(args[0])
		vs := vals(args[1], args[2])
		p, n, c := asSlice(vs[0], name)
		sz := TySize(t)
		if c > n {
			in.storeTy(t, VLoc{p.B, p.Off + int(n)*sz}, vs[1])
			return MkSlice(p, n+1, c)
		}
		cells := make([]Val, 0, int(n+1)*sz)
		for i := 0; i < int(n)*sz; i++ {
			cells = append(cells, *in.cell(p, i))
		}
		cells = append(cells, in.zeroCells(t, 1)...)
		np := in.alloc(cells)
		in.storeTy(t, VLoc{np.B, int(n) * sz}, vs[1])
		return MkSlice(np, n+1, n+1)
	case "SliceAppendSlice":
		in.argc(name, args, 3)
		t := ty(args[0])
		vs := vals(args[1], args[2])
		p1, n1, c1 := asSlice(vs[0], name)
		p2, n2, _ := asSlice(vs[1], name)
		sz := TySize(t)
		if c1-n1 >= n2 {
			for i := 0; i < int(n2)*sz; i++ {
				*in.cell(p1, int(n1)*sz+i) = *in.cell(p2, i)
			}
			return MkSlice(p1, n1+n2, c1)
		}
		cells := make([]Val, 0, int(n1+n2)*sz)
		for i := 0; i < int(n1)*sz; i++ {
			cells = append(cells, *in.cell(p1, i))
		}
		for i := 0; i < int(n2)*sz; i++ {
			cells = append(cells, *in.cell(p2, i))
		}
		return MkSlice(in.alloc(cells), n1+n2, n1+n2)
	case "SliceCopy":
		in.argc(name, args, 3)
		t := ty(args[0])
		vs := vals(args[1], args[2])
		pd, nd, _ := asSlice(vs[0], name)
		ps, ns, _ := asSlice(vs[1], name)
		n := nd
		if ns < n {
			n = ns
		}
		sz := TySize(t)
		for i := 0; i < int(n)*sz; i++ {
			*in.cell(pd, i) = *in.cell(ps, i)
		}
		return VInt{64, n}
	case "ForSlice":
		// ForSlice t "i" "x" s body
		in.argc(name, args, 5)
		t := ty(args[0])
		kb, vb := binderOf(args[1]), binderOf(args[2])
		p, n, _ := asSlice(ev(args[3]), name)
		sz := TySize(t)
		for i := uint64(0); i < n; i++ {
			in.tick()
			x := in.loadTy(t, VLoc{p.B, p.Off + int(i)*sz})
			e2 := env.Bind(kb, VInt{64, i}).Bind(vb, x)
			in.eval(args[4], e2, sc)
		}
		return VUnit{}

	// ---- maps ----
	case "NewMap":
		in.argc(name, args, 3)
		ty(args[0])
		vt := ty(args[1])
		return in.alloc([]Val{&VMap{Default: ZeroVal(vt)}})
	case "MapGet":
		in.argc(name, args, 2)
		vs := vals(args[0], args[1])
		m := in.mapCell(vs[0], name)
		if i := m.find(vs[1]); i >= 0 {
			return VPair{m.Vals[i], VBool(true)}
		}
		return VPair{m.Default, VBool(false)}
	case "MapInsert":
		in.argc(name, args, 3)
		vs := vals(args[0], args[1], args[2])
		m := in.mapCell(vs[0], name)
		if !Comparable(vs[1]) {
			stuck("map key %s is not comparable", Show(vs[1]))
		}
		if i := m.find(vs[1]); i >= 0 {
			m.Vals[i] = vs[2]
		} else {
			m.Keys = append(m.Keys, vs[1])
			m.Vals = append(m.Vals, vs[2])
		}
		return VUnit{}
	case "MapDelete":
		in.argc(name, args, 2)
		vs := vals(args[0], args[1])
		m := in.mapCell(vs[0], name)
		if i := m.find(vs[1]); i >= 0 {
			m.Keys = append(append([]Val(nil), m.Keys[:i]...), m.Keys[i+1:]...)
			m.Vals = append(append([]Val(nil), m.Vals[:i]...), m.Vals[i+1:]...)
		}
		return VUnit{}
	case "MapLen":
		in.argc(name, args, 1)
		return VInt{64, uint64(len(in.mapCell(ev(args[0]), name).Keys))}
	case "MapClear":
		in.argc(name, args, 1)
		m := in.mapCell(ev(args[0]), name)
		m.Keys, m.Vals = nil, nil
		return VUnit{}
	case "MapIter":
		in.argc(name, args, 2)
		vs := vals(args[0], args[1])
		m := in.mapCell(vs[0], name)
		keys := append([]Val(nil), m.Keys...)
		mvals := append([]Val(nil), m.Vals...)
		for i := range keys {
			in.tick()
			in.apply(vs[1], []Val{keys[i], mvals[i]})
		}
		return VUnit{}
	case "Fst", "Snd":
		in.argc(name, args, 1)
		p, ok := ev(args[0]).(VPair)
		if !ok {
			stuck("%s of a non-pair", name)
		}
		if name == "Fst" {
			return p.A
		}
		return p.B

	// ---- strings, conversions, encoding ----
	case "StringLength":
		in.argc(name, args, 1)
		s, ok := ev(args[0]).(VStr)
		if !ok {
			stuck("StringLength of a non-string")
		}
		return VInt{64, uint64(len(s))}
	case "StringToBytes":
		in.argc(name, args, 1)
		s, ok := ev(args[0]).(VStr)
		if !ok {
			stuck("StringToBytes of a non-string")
		}
		if len(s) == 0 {
			return SliceNil()
		}
		cells := make([]Val, len(s))
		for i := 0; i < len(s); i++ {
			cells[i] = VInt{8, uint64(s[i])}
		}
		return MkSlice(in.alloc(cells), uint64(len(s)), uint64(len(s)))
	case "StringFromBytes":
		in.argc(name, args, 1)
		p, n, _ := asSlice(ev(args[0]), name)
		b := make([]byte, n)
		for i := range b {
			b[i] = byte(asInt(*in.cell(p, i), 8, name))
		}
		return VStr(string(b))
	case "uint64_to_string":
		in.argc(name, args, 1)
		return VStr(strconv.FormatUint(asInt(ev(args[0]), 64, name), 10))
	case "to_u64", "to_u32", "to_u8":
		in.argc(name, args, 1)
		i, ok := ev(args[0]).(VInt)
		if !ok {
			stuck("%s of a non-integer", name)
		}
		w := map[string]int{"to_u64": 64, "to_u32": 32, "to_u8": 8}[name]
		return VInt{w, i.N & mask(w)}
	case "UInt64Put", "UInt32Put":
		in.argc(name, args, 2)
		vs := vals(args[0], args[1])
		p, _, _ := asSlice(vs[0], name)
		w := 64
		if name == "UInt32Put" {
			w = 32
		}
		n := asInt(vs[1], w, name)
		for i := 0; i < w/8; i++ {
			c := in.cell(p, i)
			*c = VInt{8, (n >> (8 * uint(i))) & 0xff}
		}
		return VUnit{}
	case "UInt64Get", "UInt32Get":
		in.argc(name, args, 1)
		p, _, _ := asSlice(ev(args[0]), name)
		w := 64
		if name == "UInt32Get" {
			w = 32
		}
		var n uint64
		for i := 0; i < w/8; i++ {
			n |= asInt(*in.cell(p, i), 8, name) << (8 * uint(i))
		}
		return VInt{w, n}

	// ---- control ----
	case "Panic":
		stuck("Panic %s", vread.Sexp(args[0]))
	case "control.impl.Assume":
		in.argc(name, args, 1)
		if b, ok := ev(args[0]).(VBool); !ok || !bool(b) {
			if !ok {
				stuck("Assume of a non-boolean")
			}
			panic(divergeErr{})
		}
		return VUnit{}
	case "control.impl.Assert":
		in.argc(name, args, 1)
		if b, ok := ev(args[0]).(VBool); !ok || !bool(b) {
			stuck("Assert failed")
		}
		return VUnit{}
	case "control.impl.Exit":
		stuck("Exit")
	case "rand.RandomUint64":
		in.Nondet = true
		return VInt{64, 0}
	case "time.TimeNow":
		in.Nondet = true
		return VInt{64, 0}
	case "time.Sleep":
		in.argc(name, args, 1)
		ev(args[0])
		// not a scheduling point: for data-race-free programs a delay only changes which
		// interleaving of the synchronisation operations happens, and all of those are explored
		return VUnit{}
	case "NewProph":
		return VExt{Kind: "proph"}
	case "ResolveProph":
		vals(args...)
		return VUnit{}
	case "util.DPrintf":
		vals(args...)
		return VUnit{}

	// ---- concurrency (see sched.go) ----
	case "lock.new":
		return in.alloc([]Val{VBool(false)})
	case "lock.acquire":
		in.argc(name, args, 1)
		in.lockAcquire(in.asLoc(ev(args[0]), name))
		return VUnit{}
	case "lock.release":
		in.argc(name, args, 1)
		in.lockRelease(in.asLoc(ev(args[0]), name))
		return VUnit{}
	case "lock.newCond":
		in.argc(name, args, 1)
		return in.alloc([]Val{ev(args[0])})
	case "lock.condWait", "lock.condWaitTimeout":
		vs := vals(args...)
		c := in.asLoc(vs[0], name)
		l := in.asLoc(*in.cell(c, 0), name)
		in.lockReleaseYield(l, false)
		in.condBlock(c, name == "lock.condWaitTimeout")
		in.lockAcquire(l)
		return VUnit{}
	case "lock.condSignal", "lock.condBroadcast":
		in.argc(name, args, 1)
		c := in.asLoc(ev(args[0]), name)
		in.cell(c, 0)
		in.condWake(c, name == "lock.condBroadcast")
		return VUnit{}
	case "waitgroup.New":
		return in.alloc([]Val{VInt{64, 0}})
	case "waitgroup.Add":
		in.argc(name, args, 2)
		vs := vals(args[0], args[1])
		c := in.cell(in.asLoc(vs[0], name), 0)
		*c = VInt{64, asInt(*c, 64, name) + asInt(vs[1], 64, name)}
		in.syncPoint("wg.add")
		return VUnit{}
	case "waitgroup.Done":
		in.argc(name, args, 1)
		c := in.cell(in.asLoc(ev(args[0]), name), 0)
		n := asInt(*c, 64, name)
		if n == 0 {
			stuck("waitgroup.Done on a zero counter")
		}
		*c = VInt{64, n - 1}
		in.syncPoint("wg.done")
		return VUnit{}
	case "waitgroup.Wait":
		in.argc(name, args, 1)
		in.wgWait(in.asLoc(ev(args[0]), name))
		return VUnit{}
	case "Fork":
		in.argc(name, args, 1)
		in.fork(args[0], env, sc)
		return VUnit{}

	// ---- disk FFI ----
	case "disk.Get":
		return VExt{Kind: "disk"}
	case "disk.Init":
		vals(args...)
		return VUnit{}
	case "disk.Size":
		return VInt{64, in.DiskSize}
	case "disk.Barrier":
		return VUnit{}
	case "disk.Read":
		in.argc(name, args, 1)
		a := asInt(ev(args[0]), 64, name)
		if a >= in.DiskSize {
			stuck("disk.Read out of bounds")
		}
		blk := in.diskBlock(a)
		return MkSlice(in.alloc(append([]Val(nil), blk...)), 4096, 4096)
	case "disk.Write":
		in.argc(name, args, 2)
		vs := vals(args[0], args[1])
		a := asInt(vs[0], 64, name)
		if a >= in.DiskSize {
			stuck("disk.Write out of bounds")
		}
		p, _, _ := asSlice(vs[1], name)
		blk := make([]Val, 4096)
		for i := range blk {
			blk[i] = VInt{8, asInt(*in.cell(p, i), 8, name)}
		}
		if in.disk == nil {
			in.disk = map[uint64][]Val{}
		}
		in.disk[a] = blk
		return VUnit{}
	}
	panic(unknownErr{"primitive " + name})
}

func structGet(d *Desc, f string, v Val) Val {
	for _, fd := range d.Fields {
		p, ok := v.(VPair)
		if !ok {
			stuck("struct.get %s %q of %s", d.Name, f, Show(v))
		}
		if fd.Name == f {
			return p.A
		}
		v = p.B
	}
	stuck("struct %s has no field %q", d.Name, f)
	panic("unreachable")
}

func (in *Interp) diskBlock(a uint64) []Val {
	if b, ok := in.disk[a]; ok {
		return b
	}
	b := make([]Val, 4096)
	for i := range b {
		b[i] = VInt{8, 0}
	}
	return b
}

func binderOf(e vread.Expr) string {
	switch e := vread.Strip(e).(type) {
	case vread.Str:
		return e.S
	case vread.Anon:
		return ""
	}
	panic(unknownErr{"binder " + vread.Sexp(e)})
}
