package glang

import (
	"fmt"
	"strings"

	"verifharness/vread"
)

// Def is one definition of a loaded package.
type Def struct {
	Pkg   *Package
	Index int
	S     *vread.Sentence
	desc  *Desc
}

// Package is the parsed output file of one Go package.
type Package struct {
	Name string
	File *vread.File
	Defs []*Def
}

// Program is a set of packages; Main is the one entry points are looked up in.
type Program struct {
	Pkgs map[string]*Package
	Main *Package
}

// Load builds a program from parsed files keyed by Go package name.
func Load(mainPkg string, files map[string]*vread.File) *Program {
	p := &Program{Pkgs: map[string]*Package{}}
	for name, f := range files {
		pkg := &Package{Name: name, File: f}
		for _, s := range f.Defs() {
			pkg.Defs = append(pkg.Defs, &Def{Pkg: pkg, Index: len(pkg.Defs), S: s})
		}
		p.Pkgs[name] = pkg
	}
	p.Main = p.Pkgs[mainPkg]
	return p
}

// lookupDef finds the latest definition named name before index `before`
// (Coq scoping: a definition sees only earlier ones).
func (pkg *Package) lookupDef(name string, before int) *Def {
	if before > len(pkg.Defs) {
		before = len(pkg.Defs)
	}
	for i := before - 1; i >= 0; i-- {
		if pkg.Defs[i].S.Name == name {
			return pkg.Defs[i]
		}
	}
	return nil
}

// scope identifies where a piece of text lives: package + definition index.
type scope struct {
	pkg    *Package
	before int
}

// OutcomeKind classifies the result of an evaluation.
type OutcomeKind int

const (
	Value OutcomeKind = iota
	Stuck
	OutOfFuel
	Unknown  // the text uses a primitive the interpreter does not model
	Diverges // control.impl.Assume #false
)

func (k OutcomeKind) String() string {
	return [...]string{"value", "stuck", "out-of-fuel", "unknown-primitive", "diverges"}[k]
}

// Outcome of an evaluation.
type Outcome struct {
	Kind OutcomeKind
	Val  Val
	Msg  string
}

type stuckErr struct{ msg string }
type fuelErr struct{}
type unknownErr struct{ name string }
type divergeErr struct{}

// Interp is one execution state: heap + fuel (+ scheduler for threads).
type Interp struct {
	Prog        *Program
	Fuel        int64
	LeftToRight bool // evaluate operands left-to-right (triage of the known evaluation-order finding)
	nextBlock   int
	disk        map[uint64][]Val
	DiskSize    uint64
	Nondet      bool // a nondeterministic primitive (random, time) was used
	sched       *sched
	valCache    map[*Def]Val
}

// NewInterp creates an interpreter with the given fuel.
func NewInterp(p *Program, fuel int64) *Interp {
	return &Interp{Prog: p, Fuel: fuel, DiskSize: 1000, valCache: map[*Def]Val{}}
}

func stuck(format string, a ...any) {
	panic(stuckErr{fmt.Sprintf(format, a...)})
}

// Run evaluates `name #()` in the main package... more generally applies the
// named definition to the given argument values.
func (in *Interp) Run(name string, args ...Val) (out Outcome) {
	defer func() {
		if r := recover(); r != nil {
			out = outcomeOfPanic(r)
		}
	}()
	pkg := in.Prog.Main
	d := pkg.lookupDef(name, len(pkg.Defs))
	if d == nil {
		return Outcome{Kind: Unknown, Msg: "no definition " + name}
	}
	f := in.defValue(d, nil)
	if len(args) == 0 {
		args = []Val{VUnit{}}
	}
	v := in.apply(f, args)
	return Outcome{Kind: Value, Val: v}
}

func outcomeOfPanic(r interface{}) Outcome {
	switch r := r.(type) {
	case stuckErr:
		return Outcome{Kind: Stuck, Msg: r.msg}
	case fuelErr:
		return Outcome{Kind: OutOfFuel}
	case unknownErr:
		return Outcome{Kind: Unknown, Msg: r.name}
	case divergeErr:
		return Outcome{Kind: Diverges}
	}
	panic(r)
}

// defValue evaluates a definition used as a value.
func (in *Interp) defValue(d *Def, tyArgs []Type) Val {
	sc := scope{d.Pkg, d.Index}
	switch d.S.DefKind {
	case "struct":
		return VDesc{in.descOf(d)}
	case "ty":
		return VType{in.evalType(d.S.Body, nil, sc)}
	case "expr":
		return in.eval(d.S.Body, nil, sc)
	case "val":
		if len(d.S.TypeParams) == 0 {
			if v, ok := in.valCache[d]; ok {
				return v
			}
			v := in.eval(d.S.Body, nil, sc)
			if _, ok := v.(*VClo); ok {
				in.valCache[d] = v
			}
			return v
		}
		if len(tyArgs) != len(d.S.TypeParams) {
			stuck("definition %s takes %d type arguments, given %d", d.S.Name, len(d.S.TypeParams), len(tyArgs))
		}
		var env *Env
		for i, tp := range d.S.TypeParams {
			env = env.Bind("ty:"+tp, VType{tyArgs[i]})
		}
		return in.eval(d.S.Body, env, sc)
	}
	panic(unknownErr{"definition kind " + d.S.DefKind})
}

func (in *Interp) descOf(d *Def) *Desc {
	if d.desc != nil {
		return d.desc
	}
	desc := &Desc{Name: d.S.Name}
	d.desc = desc
	sc := scope{d.Pkg, d.Index}
	for _, f := range d.S.Fields {
		desc.Fields = append(desc.Fields, DescField{Name: f.Name, Type: in.evalType(f.Type, nil, sc)})
	}
	return desc
}

// resolve finds what a Gallina identifier refers to: a user definition
// (earlier in the same package, or in another loaded package) or nil.
func (in *Interp) resolve(name string, sc scope) *Def {
	if d := sc.pkg.lookupDef(name, sc.before); d != nil {
		return d
	}
	if i := strings.Index(name, "."); i > 0 {
		if pkg, ok := in.Prog.Pkgs[name[:i]]; ok && pkg != sc.pkg {
			return pkg.lookupDef(name[i+1:], len(pkg.Defs))
		}
	}
	return nil
}

func (in *Interp) tick() {
	in.Fuel--
	if in.Fuel < 0 {
		panic(fuelErr{})
	}
}

func (in *Interp) eval(e vread.Expr, env *Env, sc scope) Val {
	in.tick()
	switch e := e.(type) {
	case vread.Paren:
		return in.eval(e.X, env, sc)
	case vread.Scoped:
		return in.eval(e.X, env, sc)
	case vread.Str:
		v, ok := env.Lookup(e.S)
		if !ok {
			stuck("unbound variable %q", e.S)
		}
		return v
	case vread.Lit:
		switch e.Kind {
		case "u64":
			return VInt{64, e.N}
		case "u32":
			return VInt{32, e.N}
		case "u8":
			return VInt{8, e.N}
		case "bool":
			return VBool(e.B)
		case "unit":
			return VUnit{}
		case "null":
			return VLoc{}
		case "str":
			return VStr(e.S)
		}
	case vread.Anon:
		stuck("<> used as an expression")
	case vread.Gid:
		return in.evalGid(e.Name, env, sc)
	case vread.App:
		return in.evalApp(e, env, sc)
	case vread.Bin:
		return in.evalBin(e, env, sc)
	case vread.Not:
		v := in.eval(e.X, env, sc)
		switch v := v.(type) {
		case VBool:
			return !v
		case VInt:
			return VInt{v.W, (^v.N) & mask(v.W)}
		}
		stuck("~ applied to %s", Show(v))
	case vread.Load:
		t := in.evalType(e.Ty, env, sc)
		l := in.eval(e.X, env, sc)
		return in.loadTy(t, in.asLoc(l, "load"))
	case vread.Store:
		t := in.evalType(e.Ty, env, sc)
		var dst, val Val
		if in.LeftToRight {
			dst = in.eval(e.Dst, env, sc)
			val = in.eval(e.Val, env, sc)
		} else {
			val = in.eval(e.Val, env, sc)
			dst = in.eval(e.Dst, env, sc)
		}
		in.storeTy(t, in.asLoc(dst, "store"), val)
		return VUnit{}
	case vread.Let:
		b := in.eval(e.Bound, env, sc)
		env2 := in.bindPattern(env, e.Names, b)
		return in.eval(e.Body, env2, sc)
	case vread.Seq:
		in.eval(e.A, env, sc)
		return in.eval(e.B, env, sc)
	case vread.If:
		c := in.eval(e.Cond, env, sc)
		b, ok := c.(VBool)
		if !ok {
			stuck("if: on non-boolean %s", Show(c))
		}
		if b {
			return in.eval(e.Then, env, sc)
		}
		return in.eval(e.Else, env, sc)
	case vread.Lam:
		return &VClo{Params: e.Params, Body: e.Body, Env: env, Def: sc.before, pkg: sc.pkg}
	case vread.Rec:
		c := &VClo{Rec: e.Name, Params: e.Params, Body: e.Body, Env: env, Def: sc.before, pkg: sc.pkg}
		return c
	case vread.Tuple:
		vals := make([]Val, len(e.Elems))
		if in.LeftToRight {
			for i := range e.Elems {
				vals[i] = in.eval(e.Elems[i], env, sc)
			}
		} else {
			for i := len(e.Elems) - 1; i >= 0; i-- {
				vals[i] = in.eval(e.Elems[i], env, sc)
			}
		}
		v := vals[0]
		for _, x := range vals[1:] {
			v = VPair{v, x}
		}
		return v
	case vread.For:
		cond := in.eval(e.Cond, env, sc)
		post := in.eval(e.Post, env, sc)
		body := in.eval(e.Body, env, sc)
		for {
			in.tick()
			c := in.apply(cond, []Val{VUnit{}})
			cb, ok := c.(VBool)
			if !ok {
				stuck("loop condition is %s", Show(c))
			}
			if !cb {
				return VUnit{}
			}
			r := in.apply(body, []Val{VUnit{}})
			rb, ok := r.(VBool)
			if !ok {
				stuck("loop body returned %s (neither Continue nor Break)", Show(r))
			}
			if !rb {
				return VUnit{}
			}
			in.apply(post, []Val{VUnit{}})
		}
	case vread.List:
		panic(unknownErr{"list outside struct.mk/struct.decl"})
	case vread.GallinaFun:
		panic(unknownErr{"Gallina fun"})
	}
	panic(unknownErr{fmt.Sprintf("expression %T", e)})
}

func (in *Interp) bindPattern(env *Env, names []string, v Val) *Env {
	if len(names) == 1 {
		return env.Bind(names[0], v)
	}
	// left-nested: ((a, b), c)
	p, ok := v.(VPair)
	if !ok {
		stuck("destructuring %s with a %d-tuple pattern", Show(v), len(names))
	}
	env = in.bindPattern(env, names[:len(names)-1], p.A)
	return env.Bind(names[len(names)-1], p.B)
}

func mask(w int) uint64 {
	if w >= 64 {
		return ^uint64(0)
	}
	return (uint64(1) << uint(w)) - 1
}

func (in *Interp) asLoc(v Val, what string) VLoc {
	l, ok := v.(VLoc)
	if !ok {
		stuck("%s through non-location %s", what, Show(v))
	}
	return l
}

// knownUnmodelled lists library names that exist in Perennial but that the
// interpreter does not model: using them makes an evaluation inconclusive.
// Any other unresolvable identifier is an error of the emitted text.
func knownUnmodelled(name string) bool {
	for _, p := range []string{"FS.", "grove_ffi.", "async_disk.", "time.", "rand.", "marshal.", "std.", "atomic.", "util.", "control.impl.", "lock.", "waitgroup.", "disk.", "slice.", "struct.", "string.", "encoding.", "prophecy."} {
		if strings.HasPrefix(name, p) {
			return true
		}
	}
	return false
}

// builtin constants (Gallina identifiers that are values)
func (in *Interp) evalGid(name string, env *Env, sc scope) Val {
	if v, ok := env.Lookup("ty:" + name); ok {
		return v
	}
	if d := in.resolve(name, sc); d != nil {
		return in.defValue(d, nil)
	}
	switch name {
	case "Skip":
		return VUnit{}
	case "Continue":
		return VBool(true)
	case "Break":
		return VBool(false)
	case "slice.nil":
		return SliceNil()
	case "null":
		return VLoc{}
	case "Linearize":
		return VUnit{}
	case "disk.BlockSize":
		return VInt{64, 4096}
	}
	if t, ok := builtinType(name); ok {
		return VType{t}
	}
	if isPrim(name) {
		return VBuiltin{name}
	}
	if knownUnmodelled(name) {
		panic(unknownErr{"identifier " + name})
	}
	stuck("identifier %s is neither defined earlier in the file nor part of the GooseLang library known to the model", name)
	panic("unreachable")
}

func (in *Interp) evalApp(e vread.App, env *Env, sc scope) Val {
	fn := vread.Strip(e.Fn)
	if g, ok := fn.(vread.Gid); ok {
		if _, shadow := env.Lookup("ty:" + g.Name); !shadow {
			d := in.resolve(g.Name, sc)
			if d == nil && isPrim(g.Name) {
				return in.prim(g.Name, e.Args, env, sc)
			}
			if d != nil && d.S.DefKind == "val" && len(d.S.TypeParams) > 0 {
				k := len(d.S.TypeParams)
				if len(e.Args) < k {
					stuck("generic %s applied to too few arguments", g.Name)
				}
				// value arguments first (right to left), as for any application
				rest := in.evalArgs(e.Args[k:], env, sc)
				tys := make([]Type, k)
				for i := 0; i < k; i++ {
					tys[i] = in.evalType(e.Args[i], env, sc)
				}
				f := in.defValue(d, tys)
				if len(rest) == 0 {
					return f
				}
				return in.apply(f, rest)
			}
		}
	}
	var f Val
	var args []Val
	if in.LeftToRight {
		f = in.eval(e.Fn, env, sc)
		args = in.evalArgs(e.Args, env, sc)
	} else {
		args = in.evalArgs(e.Args, env, sc)
		f = in.eval(e.Fn, env, sc)
	}
	return in.apply(f, args)
}

// evalArgs evaluates argument expressions right to left (heap_lang order).
func (in *Interp) evalArgs(args []vread.Expr, env *Env, sc scope) []Val {
	vals := make([]Val, len(args))
	if in.LeftToRight {
		for i := range args {
			vals[i] = in.eval(args[i], env, sc)
		}
		return vals
	}
	for i := len(args) - 1; i >= 0; i-- {
		vals[i] = in.eval(args[i], env, sc)
	}
	return vals
}

func (in *Interp) apply(f Val, args []Val) Val {
	for len(args) > 0 {
		in.tick()
		switch c := f.(type) {
		case *VClo:
			env := c.Env
			if c.Rec != "" {
				env = env.Bind(c.Rec, c)
			}
			n := len(c.Params)
			if len(args) < n {
				n = len(args)
			}
			for i := 0; i < n; i++ {
				env = env.Bind(c.Params[i], args[i])
			}
			if n < len(c.Params) {
				return &VClo{Params: c.Params[n:], Body: c.Body, Env: env, Def: c.Def, pkg: c.pkg}
			}
			f = in.eval(c.Body, env, scope{c.pkg, c.Def})
			args = args[n:]
		case VPrimClo:
			f = c.Fn(args[0])
			args = args[1:]
		case VBuiltin:
			panic(unknownErr{"library function " + c.Name + " used as a first-class value"})
		default:
			stuck("application of non-function %s", Show(f))
		}
	}
	return f
}

func (in *Interp) evalBin(e vread.Bin, env *Env, sc scope) Val {
	switch e.Op {
	case "&&", "||":
		x := in.eval(e.X, env, sc)
		xb, ok := x.(VBool)
		if !ok {
			stuck("%s on non-boolean %s", e.Op, Show(x))
		}
		if (e.Op == "&&") != bool(xb) {
			return xb // && with false, || with true
		}
		return in.eval(e.Y, env, sc)
	}
	var x, y Val
	if in.LeftToRight {
		x = in.eval(e.X, env, sc)
		y = in.eval(e.Y, env, sc)
	} else {
		y = in.eval(e.Y, env, sc)
		x = in.eval(e.X, env, sc)
	}
	return binop(e.Op, x, y)
}

func binop(op string, x, y Val) Val {
	switch op {
	case "=", "≠":
		if !Comparable(x) || !Comparable(y) {
			stuck("%s on incomparable values %s, %s", op, Show(x), Show(y))
		}
		return VBool(Equal(x, y) == (op == "="))
	case "≪", "≫":
		xi, ok1 := x.(VInt)
		yi, ok2 := y.(VInt)
		if !ok1 || !ok2 {
			stuck("shift of %s by %s", Show(x), Show(y))
		}
		if yi.N >= uint64(xi.W) {
			return VInt{xi.W, 0}
		}
		if op == "≪" {
			return VInt{xi.W, (xi.N << yi.N) & mask(xi.W)}
		}
		return VInt{xi.W, xi.N >> yi.N}
	case "+":
		if xs, ok := x.(VStr); ok {
			ys, ok := y.(VStr)
			if !ok {
				stuck("string + %s", Show(y))
			}
			return xs + ys
		}
	}
	xi, ok1 := x.(VInt)
	yi, ok2 := y.(VInt)
	if !ok1 || !ok2 || xi.W != yi.W {
		stuck("operator %s on %s and %s (operands must be integers of the same width)", op, Show(x), Show(y))
	}
	m := mask(xi.W)
	switch op {
	case "+":
		return VInt{xi.W, (xi.N + yi.N) & m}
	case "-":
		return VInt{xi.W, (xi.N - yi.N) & m}
	case "*":
		return VInt{xi.W, (xi.N * yi.N) & m}
	case "`quot`":
		if yi.N == 0 {
			stuck("division by zero")
		}
		return VInt{xi.W, xi.N / yi.N}
	case "`rem`":
		if yi.N == 0 {
			stuck("remainder by zero")
		}
		return VInt{xi.W, xi.N % yi.N}
	case "`and`":
		return VInt{xi.W, xi.N & yi.N}
	case "`or`":
		return VInt{xi.W, xi.N | yi.N}
	case "`xor`":
		return VInt{xi.W, xi.N ^ yi.N}
	case "<":
		return VBool(xi.N < yi.N)
	case ">":
		return VBool(xi.N > yi.N)
	case "≤":
		return VBool(xi.N <= yi.N)
	case "≥":
		return VBool(xi.N >= yi.N)
	}
	panic(unknownErr{"operator " + op})
}

// ---- types ----

func builtinType(name string) (Type, bool) {
	switch name {
	case "uint64T", "uint32T", "byteT", "boolT", "stringT", "unitT", "ptrT", "anyT":
		return TBase{name}, true
	case "fileT", "ProphIdT", "disk.Disk", "refT", "mapValT", "condvarRefT", "lockRefT", "waitgroupRefT":
		return TBase{"ptrT"}, true
	case "disk.blockT":
		return TSlice{TBase{"byteT"}}, true
	}
	return nil, false
}

func (in *Interp) evalType(e vread.Expr, env *Env, sc scope) Type {
	switch e := e.(type) {
	case vread.Paren:
		return in.evalType(e.X, env, sc)
	case vread.Scoped:
		// (a -> b)%ht : a function type, one cell
		return TBase{"funcT"}
	case vread.Gid:
		if v, ok := env.Lookup("ty:" + e.Name); ok {
			if t, ok := v.(VType); ok {
				return t.T
			}
		}
		if d := in.resolve(e.Name, sc); d != nil {
			switch d.S.DefKind {
			case "ty":
				return in.evalType(d.S.Body, nil, scope{d.Pkg, d.Index})
			case "struct":
				stuck("struct descriptor %s used as a type", e.Name)
			}
			stuck("%s is not a type", e.Name)
		}
		if t, ok := builtinType(e.Name); ok {
			return t
		}
		panic(unknownErr{"type " + e.Name})
	case vread.App:
		fn, ok := vread.Strip(e.Fn).(vread.Gid)
		if !ok {
			panic(unknownErr{"type application"})
		}
		switch fn.Name {
		case "slice.T":
			return TSlice{in.evalType(e.Args[0], env, sc)}
		case "struct.t":
			return TStruct{in.evalDesc(e.Args[0], sc)}
		case "mapT":
			return TBase{"mapT"}
		case "arrayT":
			return TArray{in.evalType(e.Args[0], env, sc)}
		case "arrowT":
			return TBase{"funcT"}
		case "refT", "struct.ptrT":
			return TBase{"ptrT"}
		}
		panic(unknownErr{"type constructor " + fn.Name})
	case vread.Bin:
		switch e.Op {
		case "*":
			return TProd{in.evalType(e.X, env, sc), in.evalType(e.Y, env, sc)}
		case "->":
			return TBase{"funcT"}
		}
	}
	panic(unknownErr{fmt.Sprintf("type expression %s", vread.Sexp(e))})
}

func (in *Interp) evalDesc(e vread.Expr, sc scope) *Desc {
	g, ok := vread.Strip(e).(vread.Gid)
	if !ok {
		panic(unknownErr{"struct descriptor expression " + vread.Sexp(e)})
	}
	d := in.resolve(g.Name, sc)
	if d == nil {
		stuck("identifier %s is neither defined earlier in the file nor part of the GooseLang library known to the model", g.Name)
	}
	if d.S.DefKind != "struct" {
		stuck("%s is not a struct descriptor", g.Name)
	}
	return in.descOf(d)
}

// ---- heap ----

func (in *Interp) alloc(cells []Val) VLoc {
	in.nextBlock++
	b := &Block{ID: in.nextBlock, Cells: cells}
	return VLoc{B: b}
}

func (in *Interp) cell(l VLoc, off int) *Val {
	if l.B == nil {
		stuck("access through null pointer")
	}
	i := l.Off + off
	if i < 0 || i >= len(l.B.Cells) {
		stuck("access to unallocated cell (block %d offset %d, block has %d cells)", l.B.ID, i, len(l.B.Cells))
	}
	return &l.B.Cells[i]
}

func (in *Interp) loadTy(t Type, l VLoc) Val {
	switch t := t.(type) {
	case TBase:
		if t.Name == "unitT" {
			return VUnit{}
		}
		return *in.cell(l, 0)
	case TSlice:
		p := *in.cell(l, 0)
		n := *in.cell(l, 1)
		c := *in.cell(l, 2)
		return VPair{VPair{p, n}, c}
	case TProd:
		a := in.loadTy(t.A, l)
		b := in.loadTy(t.B, VLoc{l.B, l.Off + TySize(t.A)})
		return VPair{a, b}
	case TStruct:
		return in.loadFields(t.D.Fields, l)
	}
	return *in.cell(l, 0)
}

func (in *Interp) loadFields(fs []DescField, l VLoc) Val {
	if len(fs) == 0 {
		return VUnit{}
	}
	a := in.loadTy(fs[0].Type, l)
	return VPair{a, in.loadFields(fs[1:], VLoc{l.B, l.Off + TySize(fs[0].Type)})}
}

func (in *Interp) storeTy(t Type, l VLoc, v Val) {
	switch t := t.(type) {
	case TBase:
		if t.Name == "unitT" {
			return
		}
		*in.cell(l, 0) = v
		return
	case TSlice:
		p, ok := v.(VPair)
		if !ok {
			stuck("store of non-slice value %s at slice type", Show(v))
		}
		q, ok := p.A.(VPair)
		if !ok {
			stuck("store of non-slice value %s at slice type", Show(v))
		}
		*in.cell(l, 0) = q.A
		*in.cell(l, 1) = q.B
		*in.cell(l, 2) = p.B
		return
	case TProd:
		p, ok := v.(VPair)
		if !ok {
			stuck("store of non-pair %s at product type", Show(v))
		}
		in.storeTy(t.A, l, p.A)
		in.storeTy(t.B, VLoc{l.B, l.Off + TySize(t.A)}, p.B)
		return
	case TStruct:
		in.storeFields(t.D.Fields, l, v)
		return
	}
	*in.cell(l, 0) = v
}

func (in *Interp) storeFields(fs []DescField, l VLoc, v Val) {
	if len(fs) == 0 {
		return
	}
	p, ok := v.(VPair)
	if !ok {
		stuck("store of %s at struct type", Show(v))
	}
	in.storeTy(fs[0].Type, l, p.A)
	in.storeFields(fs[1:], VLoc{l.B, l.Off + TySize(fs[0].Type)}, p.B)
}

// LoadTy is load_ty for callers outside the package (result decoding); a
// stuck load panics with a description.
func (in *Interp) LoadTy(t Type, l VLoc) (v Val) {
	defer func() {
		if r := recover(); r != nil {
			if s, ok := r.(stuckErr); ok {
				panic(s.msg)
			}
			panic(r)
		}
	}()
	return in.loadTy(t, l)
}
