// Package modgen writes temporary Go modules for the CLI-level checks
// (C17, C18, C06, C08): a go.mod (optionally with
// `replace github.com/goose-lang/goose => <tree under test>`), a go.sum copied
// from the tree under test, the package files of the case, and any number of
// local stub modules reached through replace directives.
//
// Everything is plain data (JSON-serialisable), so a Module can be stored in a
// replay file and written again byte for byte.
//
//	m := modgen.Module{Path: "example.com/m", Goose: true,
//		Files: []modgen.File{{Path: "a/a.go", Content: "package a\n"}}}
//	if err := modgen.Write(dir, m); err != nil { ev.Inconclusive(...) }
//	res := modgen.Run(dir, 60*time.Second, nil, filepath.Join(modgen.BinDir(), "goose"), "-out", out, "./...")
//
// Nothing here decides a property; errors are infrastructure trouble and
// belong in ev.Inconclusive.
package modgen

import (
	"bytes"
	"context"
	"fmt"
	"os"
	"os/exec"
	"path/filepath"
	"regexp"
	"sort"
	"strings"
	"time"

	"verifharness/ev"
)

// GoosePath is the module path of the tree under test.
const GoosePath = "github.com/goose-lang/goose"

// File is one file of a module; Path is slash-separated and relative to the
// module root (it may contain directories, which are created).
type File struct {
	Path    string `json:"path"`
	Content string `json:"content"`
}

// Stub is a local module reached through `require <Path> v0.0.0` plus
// `replace <Path> => <Dir>`. Dir is relative to the root of the main module
// (use "../stubs/x" to keep it outside the main module's ./... pattern) or
// absolute. A go.mod is generated for the stub unless Files contains one.
type Stub struct {
	Path  string `json:"path"`
	Dir   string `json:"dir"`
	Files []File `json:"files"`
}

// Module describes a temporary module.
type Module struct {
	Path      string `json:"path"`                 // module path, e.g. "example.com/m"
	GoVersion string `json:"go_version,omitempty"` // "go" directive; default "1.22"
	Goose     bool   `json:"goose,omitempty"`      // require + replace GoosePath => ev.Repo(), copy its go.sum
	Testify   bool   `json:"testify,omitempty"`    // require github.com/stretchr/testify at the version /repo pins
	Stubs     []Stub `json:"stubs,omitempty"`
	Files     []File `json:"files"`
}

// GoMod returns the text of the go.mod that Write produces for m.
func GoMod(m Module) string {
	var b strings.Builder
	gov := m.GoVersion
	if gov == "" {
		gov = "1.22"
	}
	fmt.Fprintf(&b, "module %s\n\ngo %s\n", m.Path, gov)
	if m.Goose {
		fmt.Fprintf(&b, "\nrequire %s v0.0.0\n\nreplace %s => %s\n", GoosePath, GoosePath, ev.Repo())
	}
	if m.Testify {
		fmt.Fprintf(&b, "\nrequire github.com/stretchr/testify %s\n", RepoRequireVersion("github.com/stretchr/testify", "v1.9.0"))
	}
	for _, s := range m.Stubs {
		dir := s.Dir
		if !filepath.IsAbs(dir) && !strings.HasPrefix(dir, "./") && !strings.HasPrefix(dir, "../") {
			dir = "./" + dir
		}
		fmt.Fprintf(&b, "\nrequire %s v0.0.0\n\nreplace %s => %s\n", s.Path, s.Path, dir)
	}
	return b.String()
}

// RepoRequireVersion returns the version at which the go.mod of the tree
// under test requires the given module (def when it cannot be determined).
func RepoRequireVersion(mod, def string) string {
	b, err := os.ReadFile(filepath.Join(ev.Repo(), "go.mod"))
	if err != nil {
		return def
	}
	re := regexp.MustCompile(`(?m)^\s*(?:require\s+)?` + regexp.QuoteMeta(mod) + `\s+(v\S+)`)
	if mm := re.FindSubmatch(b); mm != nil {
		return string(mm[1])
	}
	return def
}

func writeFiles(root string, files []File) error {
	for _, f := range files {
		p := filepath.Join(root, filepath.FromSlash(f.Path))
		if err := os.MkdirAll(filepath.Dir(p), 0o755); err != nil {
			return err
		}
		if err := os.WriteFile(p, []byte(f.Content), 0o644); err != nil {
			return err
		}
	}
	return nil
}

func hasFile(files []File, name string) bool {
	for _, f := range files {
		if f.Path == name {
			return true
		}
	}
	return false
}

// Write materialises m under root (created if needed): go.mod (unless Files
// already contains one), go.sum (a copy of the tree under test's go.sum when
// Goose or Testify is set), the files, and the stub modules.
func Write(root string, m Module) error {
	if err := os.MkdirAll(root, 0o755); err != nil {
		return err
	}
	if !hasFile(m.Files, "go.mod") {
		if err := os.WriteFile(filepath.Join(root, "go.mod"), []byte(GoMod(m)), 0o644); err != nil {
			return err
		}
	}
	if (m.Goose || m.Testify) && !hasFile(m.Files, "go.sum") {
		sum, err := os.ReadFile(filepath.Join(ev.Repo(), "go.sum"))
		if err != nil {
			return fmt.Errorf("modgen: cannot copy go.sum of the tree under test: %w", err)
		}
		if err := os.WriteFile(filepath.Join(root, "go.sum"), sum, 0o644); err != nil {
			return err
		}
	}
	if err := writeFiles(root, m.Files); err != nil {
		return err
	}
	for _, s := range m.Stubs {
		dir := s.Dir
		if !filepath.IsAbs(dir) {
			dir = filepath.Join(root, filepath.FromSlash(dir))
		}
		if err := os.MkdirAll(dir, 0o755); err != nil {
			return err
		}
		if !hasFile(s.Files, "go.mod") {
			gm := fmt.Sprintf("module %s\n\ngo 1.22\n", s.Path)
			if err := os.WriteFile(filepath.Join(dir, "go.mod"), []byte(gm), 0o644); err != nil {
				return err
			}
		}
		if err := writeFiles(dir, s.Files); err != nil {
			return err
		}
	}
	return nil
}

// BinDir is the directory holding the binaries the driver built from the
// tree under test ($VERIF_BIN: goose, test_gen, harness helpers).
func BinDir() string { return os.Getenv("VERIF_BIN") }

// Bin returns the path of a driver-built binary and whether it exists.
func Bin(name string) (string, bool) {
	p := filepath.Join(BinDir(), name)
	if BinDir() == "" {
		return p, false
	}
	st, err := os.Stat(p)
	return p, err == nil && !st.IsDir()
}

// Env returns the environment for child processes: the current environment
// with the offline Go settings forced and the extra KEY=VALUE pairs applied
// (later entries win).
func Env(extra ...string) []string {
	kv := map[string]string{}
	var order []string
	set := func(e string) {
		i := strings.IndexByte(e, '=')
		if i <= 0 {
			return
		}
		k := e[:i]
		if _, ok := kv[k]; !ok {
			order = append(order, k)
		}
		kv[k] = e[i+1:]
	}
	for _, e := range os.Environ() {
		set(e)
	}
	for _, e := range []string{"GOFLAGS=-mod=mod", "GOPROXY=off", "GOSUMDB=off", "GOTOOLCHAIN=local", "NO_COLOR=1"} {
		set(e)
	}
	for _, e := range extra {
		set(e)
	}
	sort.Strings(order)
	out := make([]string, 0, len(order))
	for _, k := range order {
		out = append(out, k+"="+kv[k])
	}
	return out
}

// Result is the outcome of one child process.
type Result struct {
	Exit     int // exit status; -1 when the process did not exit by itself
	Stdout   string
	Stderr   string
	TimedOut bool
	Err      error // start failure or abnormal termination (signal); nil on a normal exit with any status
}

// Run executes argv[0] with argv[1:] in dir with Env(extraEnv...) and returns
// its exit status and output. A timeout or a start failure is reported in the
// result (never as a property verdict).
func Run(dir string, timeout time.Duration, extraEnv []string, argv ...string) Result {
	ctx, cancel := context.WithTimeout(context.Background(), timeout)
	defer cancel()
	cmd := exec.CommandContext(ctx, argv[0], argv[1:]...)
	cmd.Dir = dir
	cmd.Env = Env(extraEnv...)
	var so, se bytes.Buffer
	cmd.Stdout = &so
	cmd.Stderr = &se
	cmd.WaitDelay = 5 * time.Second
	err := cmd.Run()
	r := Result{Stdout: so.String(), Stderr: se.String()}
	if err == nil {
		return r
	}
	if ctx.Err() != nil {
		r.TimedOut = true
		r.Exit = -1
		r.Err = ctx.Err()
		return r
	}
	if ee, ok := err.(*exec.ExitError); ok && ee.ExitCode() >= 0 {
		r.Exit = ee.ExitCode()
		return r
	}
	r.Exit = -1
	r.Err = err
	return r
}
