package c17

// gen_test.go: constructive generator of modules, invocations and prior
// output trees.

import (
	"fmt"
	"path"
	"path/filepath"
	"sort"
	"strings"
	"sync"
	"verifharness/gen"

	"pgregory.net/rapid"

	"verifharness/ev"
	"verifharness/modgen"
)

// swLoadIgnore is the generator switch of the known finding
// "ignore-errors-writes-dot-dot-v": while on, -ignore-errors is never
// combined with a package that cannot be loaded.
const swLoadIgnore = "c17IgnoreErrorsLoadFailure"

var (
	swOnce sync.Once
	swVal  bool
)

func loadIgnoreSwitch() bool {
	swOnce.Do(func() { swVal = ev.SwitchOn(swLoadIgnore) })
	return swVal
}

var (
	modPaths = []string{"example.com/m", "example.com/goose-demo/m", "ex.org/a-b/mod.x", "m0.io/x_y", "example.com/foo/v2", "ex.org/lib/v3", "example.com/Up/v1"}
	segments = []string{"a", "b2", "use_disk", "a-b", "c.d", "errs", "inner", "x_y", "Up", "testdata", "_hid", "not-goose", "v1.2"}
)

type pkgGen struct {
	dir        string // relative to the module root, "" = root
	name       string
	class      string
	importable bool
	baseFn     string
}

func coqKey(dir string) string { return strings.NewReplacer(".", "_", "-", "_").Replace(dir) }

type declGen struct {
	t *rapid.T
	n int
}

func (d *declGen) id() int { d.n++; return d.n }

// good returns the source of a translatable declaration and the Coq
// definition names it yields.
func (d *declGen) good() (src string, names []string) {
	i := d.id()
	switch gen.Range(d.t, "good", 0, 5) {
	case 0:
		return fmt.Sprintf("const C%d uint64 = %d\n", i, i), []string{fmt.Sprintf("C%d", i)}
	case 1:
		return fmt.Sprintf("type T%d struct {\n\tA uint64\n\tB bool\n}\n", i), []string{fmt.Sprintf("T%d", i)}
	case 2:
		return fmt.Sprintf("type T%d struct {\n\tA uint64\n}\n\nfunc (t T%d) Get() uint64 {\n\treturn t.A\n}\n", i, i),
			[]string{fmt.Sprintf("T%d", i), fmt.Sprintf("T%d__Get", i)}
	case 3:
		return fmt.Sprintf("func F%d() uint64 {\n\treturn %d\n}\n", i, i), []string{fmt.Sprintf("F%d", i)}
	case 4:
		return fmt.Sprintf("func F%d(x uint64) uint64 {\n\treturn x + %d\n}\n", i, i), []string{fmt.Sprintf("F%d", i)}
	default:
		return fmt.Sprintf("func F%d(b bool) bool {\n\tif b {\n\t\treturn false\n\t}\n\treturn true\n}\n", i), []string{fmt.Sprintf("F%d", i)}
	}
}

// bad returns a type-correct declaration that goose rejects with a
// conversion error.
func (d *declGen) bad() (src string, name string) {
	i := d.id()
	name = fmt.Sprintf("B%d", i)
	switch gen.Range(d.t, "bad", 0, 6) {
	case 0:
		src = fmt.Sprintf("func %s() (r uint64) {\n\treturn\n}\n", name)
	case 1:
		src = fmt.Sprintf("func %s() float64 {\n\treturn 1.0\n}\n", name)
	case 2:
		src = fmt.Sprintf("func %s(c chan uint64) {\n\tc <- 1\n}\n", name)
	case 3:
		src = fmt.Sprintf("func %s() {\n\tdefer func() {}()\n}\n", name)
	case 4:
		src = fmt.Sprintf("func %s(x uint64) uint64 {\n\tswitch x {\n\tcase 1:\n\t\treturn 2\n\t}\n\treturn 3\n}\n", name)
	case 5:
		src = fmt.Sprintf("var %s = 3\n", name)
	default:
		src = fmt.Sprintf("func %s() int8 {\n\treturn 1\n}\n", name)
	}
	return
}

// broken returns a declaration that makes the package fail to load.
func (d *declGen) broken() string {
	i := d.id()
	switch gen.Range(d.t, "broken", 0, 2) {
	case 0:
		return fmt.Sprintf("func L%d() uint64 {\n\treturn \"s\"\n}\n", i)
	case 1:
		return fmt.Sprintf("func L%d() uint64 {\n\treturn undefinedName%d\n}\n", i, i)
	default:
		return fmt.Sprintf("func L%d() uint64 {\n\treturn 1 +\n}\n", i)
	}
}

type fileGen struct {
	name    string
	tag     string // text before the package clause
	imports []string
	decls   []string
	plant   Plant
}

func (f *fileGen) render(pkg string) string {
	var b strings.Builder
	b.WriteString(f.tag)
	b.WriteString("package " + pkg + "\n")
	for _, im := range f.imports {
		fmt.Fprintf(&b, "\nimport %q\n", im)
	}
	for _, d := range f.decls {
		b.WriteString("\n" + d)
	}
	return b.String()
}

func genCase(t *rapid.T) Case {
	c := Case{Plants: map[string]Plant{}}
	feat := map[string]bool{}

	// ---- flags ----
	ignore := gen.Range(t, "ignore", 0, 9) >= 7
	allowLoad := !(ignore && loadIgnoreSwitch())
	if ignore {
		c.Flags = append(c.Flags, "-ignore-errors")
	}
	for _, f := range []string{"-typecheck", "-source-comments", "-skip-interfaces"} {
		if gen.Range(t, f, 0, 3) == 0 {
			c.Flags = append(c.Flags, f)
		}
	}
	if len(c.Flags) > 1 {
		c.Flags = rapid.Permutation(c.Flags).Draw(t, "flagorder")
	}
	loadOK := func() bool {
		if allowLoad {
			return true
		}
		ev.Prune(swLoadIgnore)
		return false
	}

	// ---- module ----
	modPath := rapid.SampledFrom(modPaths).Draw(t, "modpath")
	nPkgs := gen.Range(t, "npkgs", 1, 6)
	var pkgs []pkgGen
	usedDir := map[string]bool{}
	usedCoq := map[string]bool{}
	for i := 0; i < nPkgs; i++ {
		var dir string
		switch k := gen.Range(t, "dirkind", 0, 5); {
		case k == 0 && !usedDir[""]:
			dir = ""
		case k <= 2 && len(pkgs) > 0:
			parent := rapid.SampledFrom(pkgs).Draw(t, "parent").dir
			dir = path.Join(parent, rapid.SampledFrom(segments).Draw(t, "seg"))
		default:
			depth := gen.Range(t, "depth", 1, 3)
			var segs []string
			for j := 0; j < depth; j++ {
				segs = append(segs, rapid.SampledFrom(segments).Draw(t, "seg"))
			}
			dir = path.Join(segs...)
		}
		for usedDir[dir] || usedCoq[coqKey(dir)] {
			dir = path.Join(dir, fmt.Sprintf("p%d", i))
		}
		usedDir[dir] = true
		usedCoq[coqKey(dir)] = true
		base := path.Base(dir)
		name := strings.Map(func(r rune) rune {
			if r == '.' || r == '-' {
				return -1
			}
			return r
		}, base)
		name = strings.TrimLeft(name, "_0123456789")
		plain := dir != "" && name == base
		if dir == "" {
			name = "rootpkg"
			// the root package of a module with a major-version suffix is usually named after the
			// element before the suffix (example.com/foo/v2 → package foo; seeded change C17-6)
			if segs := strings.Split(modPath, "/"); len(segs) >= 2 && len(segs[len(segs)-1]) == 2 && segs[len(segs)-1][0] == 'v' && gen.Chance(t, "vnname", 70) {
				name = strings.ToLower(segs[len(segs)-2])
				feat["root-of-vN-module-named-after-parent"] = true
			}
		}
		if name == "" || gen.Range(t, "rename", 0, 3) == 0 {
			name = fmt.Sprintf("pk%d", i)
			plain = false
			feat["pkgname≠dirname"] = true
		}
		class := "good"
		switch k := gen.Range(t, "class", 0, 9); {
		case k >= 8:
			class = "load"
			if !loadOK() {
				class = "conv"
			}
		case k >= 5:
			class = "conv"
		}
		special := strings.Contains("/"+dir+"/", "/testdata/") || strings.Contains("/"+dir, "/_")
		pkgs = append(pkgs, pkgGen{dir: dir, name: name, class: class, importable: plain && !special && class != "load"})
	}

	for pi := range pkgs {
		p := &pkgs[pi]
		d := &declGen{t: t}
		var files []*fileGen
		// always-selected first file
		f0 := &fileGen{name: rapid.SampledFrom([]string{"a.go", "main.go", "x1.go", p.name + ".go"}).Draw(t, "f0name")}
		p.baseFn = fmt.Sprintf("Base%d", pi)
		f0.decls = append(f0.decls, fmt.Sprintf("func %s() uint64 {\n\treturn %d\n}\n", p.baseFn, pi))
		f0.plant.Good = append(f0.plant.Good, p.baseFn)
		if gen.Range(t, "pkgdoc", 0, 2) == 0 {
			f0.tag = fmt.Sprintf("// Package %s is generated.\n", p.name)
		}
		gooseOnly := gen.Chance(t, "gooseonly", 25)
		if gooseOnly {
			// every file of the package needs the goose tag: without -tags goose the package has no
			// Go files at all (seeded change C17-8: a pre-check of the patterns without the tag)
			f0.tag = "//go:build goose\n\n" + f0.tag
			feat["package:goose-tag-only"] = true
		}
		files = append(files, f0)
		selected := []*fileGen{f0}
		if !gooseOnly && rapid.Bool().Draw(t, "plain1") {
			f := &fileGen{name: rapid.SampledFrom([]string{"b.go", "more.go", "zz.go"}).Draw(t, "f1name")}
			files = append(files, f)
			selected = append(selected, f)
		}
		if gen.Range(t, "tagged", 0, 2) == 0 {
			tg := rapid.SampledFrom([][2]string{
				{"tagged.go", "//go:build goose\n\n"},
				{"both.go", "//go:build goose && linux\n\n"},
				{"old_style.go", "//go:build goose\n// +build goose\n\n"},
				{"not_win.go", "//go:build !windows\n\n"},
				{"os_linux.go", ""},
			}).Draw(t, "tag")
			f := &fileGen{name: tg[0], tag: tg[1]}
			files = append(files, f)
			selected = append(selected, f)
			feat["file:"+tg[0]] = true
		}
		// import of an earlier package
		if p.class != "load" && gen.Range(t, "import", 0, 2) == 0 {
			var cands []pkgGen
			for _, q := range pkgs[:pi] {
				if q.importable {
					cands = append(cands, q)
				}
			}
			if len(cands) > 0 {
				q := rapid.SampledFrom(cands).Draw(t, "imported")
				f0.imports = append(f0.imports, modPath+"/"+q.dir)
				f0.decls = append(f0.decls, fmt.Sprintf("func Use%d() uint64 {\n\treturn %s.%s()\n}\n", pi, q.name, q.baseFn))
				f0.plant.Good = append(f0.plant.Good, fmt.Sprintf("Use%d", pi))
				feat["import"] = true
			}
		}
		// good declarations everywhere
		for _, f := range selected {
			for k := gen.Range(t, "ngood", 0, 2); k > 0; k-- {
				src, names := d.good()
				f.decls = append(f.decls, src)
				f.plant.Good = append(f.plant.Good, names...)
			}
		}
		// what makes the package fail
		switch p.class {
		case "conv":
			for k := gen.Range(t, "nbad", 1, 3); k > 0; k-- {
				f := rapid.SampledFrom(selected).Draw(t, "badfile")
				src, name := d.bad()
				pos := gen.Range(t, "badpos", 0, len(f.decls))
				f.decls = append(f.decls[:pos], append([]string{src}, f.decls[pos:]...)...)
				f.plant.Bad = append(f.plant.Bad, name)
			}
		case "load":
			f := rapid.SampledFrom(selected).Draw(t, "brokenfile")
			f.decls = append(f.decls, d.broken())
			f.plant.TypeError = true
			if rapid.Bool().Draw(t, "alsobad") {
				src, name := d.bad()
				f0.decls = append(f0.decls, src)
				f0.plant.Bad = append(f0.plant.Bad, name)
			}
		}
		// files the goose build configuration excludes: they hold things that
		// would change the outcome if they were included
		if rapid.Bool().Draw(t, "excluded") {
			ex := rapid.SampledFrom([][2]string{
				{"nogoose.go", "//go:build !goose\n// +build !goose\n\n"},
				{"ign.go", "//go:build ignore\n\n"},
				{"win.go", "//go:build windows\n\n"},
				{"thing_windows.go", ""},
				{"never.go", "//go:build goose && !goose\n\n"},
			}).Draw(t, "extag")
			f := &fileGen{name: ex[0], tag: ex[1]}
			src, names := d.good()
			f.decls = append(f.decls, src)
			f.plant.Good = names
			src, name := d.bad()
			f.decls = append(f.decls, src)
			f.plant.Bad = []string{name}
			if rapid.Bool().Draw(t, "exbroken") {
				f.decls = append(f.decls, d.broken())
				f.plant.TypeError = true
			}
			files = append(files, f)
			feat["file:"+ex[0]] = true
		}
		if gen.Range(t, "testfile", 0, 2) == 0 {
			f := &fileGen{name: "a_test.go"}
			src, name := d.bad()
			f.decls = append(f.decls, src, d.broken())
			f.plant.Bad = []string{name}
			f.plant.TypeError = true
			files = append(files, f)
			feat["file:a_test.go"] = true
		}
		seen := map[string]bool{}
		for _, f := range files {
			if seen[f.name] {
				continue // same name drawn twice: keep the first
			}
			seen[f.name] = true
			rel := path.Join(p.dir, f.name)
			c.Module.Files = append(c.Module.Files, modgen.File{Path: rel, Content: f.render(p.name)})
			c.Plants[rel] = f.plant
		}
	}
	c.Module.Path = modPath
	sort.Slice(c.Module.Files, func(i, j int) bool { return c.Module.Files[i].Path < c.Module.Files[j].Path })

	hasEmpty := gen.Range(t, "emptydir", 0, 2) == 0 && !usedDir["emptyd"]
	if hasEmpty {
		c.EmptyDirs = []string{"m/emptyd/sub"}
	}

	// ---- effective directory ----
	isPkgDir := map[string]bool{}
	dirSet := map[string]bool{"": true}
	for _, p := range pkgs {
		isPkgDir[p.dir] = true
		for d := p.dir; d != "." && d != ""; d = path.Dir(d) {
			dirSet[d] = true
		}
	}
	var dirs []string
	for d := range dirSet {
		dirs = append(dirs, d)
	}
	sort.Strings(dirs)
	eff := ""
	if rapid.Bool().Draw(t, "effsub") {
		eff = rapid.SampledFrom(dirs).Draw(t, "eff")
	}
	if hasEmpty && gen.Range(t, "effempty", 0, 9) == 0 {
		eff = "emptyd"
	}
	c.Eff = path.Join("m", eff)

	// ---- cwd and -dir ----
	switch gen.Range(t, "cwdmode", 0, 5) {
	case 0, 1:
		c.Cwd, c.Dir = c.Eff, ""
		feat["dir:absent"] = true
	case 2:
		c.Cwd, c.Dir = "outside", "ABS:"+c.Eff
		feat["dir:absolute-from-outside"] = true
	case 3:
		c.Cwd, c.Dir = "outside", path.Join("..", c.Eff)
		feat["dir:relative-from-outside"] = true
	case 4:
		c.Cwd = "m"
		c.Dir = eff
		if eff == "" {
			c.Dir = "."
		}
		feat["dir:subdir-of-cwd"] = true
	default:
		// from a package directory of the module, pointing elsewhere
		from := rapid.SampledFrom(dirs).Draw(t, "cwdfrom")
		c.Cwd = path.Join("m", from)
		c.Dir = "ABS:" + c.Eff
		feat["dir:absolute-from-inside"] = true
	}

	// ---- -out ----
	switch gen.Range(t, "outmode", 0, 5) {
	case 0:
		c.Out = ""
		feat["out:absent(cwd)"] = true
	case 1:
		c.Out = "out"
		c.OutExists = rapid.Bool().Draw(t, "outexists")
		feat["out:relative"] = true
		if c.OutExists && gen.Chance(t, "outsymlink", 40) {
			c.OutSymlink = true
			feat["out:symlink-to-directory"] = true
		}
	case 2:
		c.Out = "out/deep/er"
		feat["out:nested-missing"] = true
	case 3:
		c.Out = "ABS:abs-out/Goose"
		c.OutExists = rapid.Bool().Draw(t, "outexists")
		feat["out:absolute"] = true
	case 4:
		c.Out = "./o.d/"
		c.OutExists = true
		feat["out:existing"] = true
	default:
		c.Out = "ABS:outside/g"
		feat["out:absolute"] = true
	}

	// ---- patterns (resolved in the effective directory) ----
	relTo := func(dir string) string {
		r, err := filepath.Rel("/"+eff, "/"+dir)
		if err != nil {
			return "./..."
		}
		r = filepath.ToSlash(r)
		if r == "." || strings.HasPrefix(r, "..") {
			return r
		}
		return "./" + r
	}
	importPath := func(dir string) string {
		if dir == "" {
			return modPath
		}
		return modPath + "/" + dir
	}
	dotOK := isPkgDir[eff] || allowLoad
	nPat := gen.Range(t, "npat", 0, 3)
	if nPat == 0 && !dotOK {
		if !isPkgDir[eff] {
			ev.Prune(swLoadIgnore)
		}
		nPat = 1
	}
	for i := 0; i < nPat; i++ {
		var p Pattern
		switch k := gen.Range(t, "patkind", 0, 11); k {
		case 0:
			p = Pattern{".", "dot"}
			if !dotOK {
				ev.Prune(swLoadIgnore)
				p = Pattern{"./...", "dot-recursive"}
			}
		case 1, 2:
			p = Pattern{"./...", "dot-recursive"}
		case 3, 4:
			q := rapid.SampledFrom(pkgs).Draw(t, "patpkg")
			p = Pattern{relTo(q.dir), "relative"}
			if gen.Range(t, "slash", 0, 3) == 0 && p.Text != "." && p.Text != ".." {
				p.Text += "/"
			}
		case 5:
			q := rapid.SampledFrom(pkgs).Draw(t, "patpkg")
			r := relTo(q.dir)
			p = Pattern{strings.TrimSuffix(r, "/") + "/...", "relative-recursive"}
		case 6:
			q := rapid.SampledFrom(pkgs).Draw(t, "patpkg")
			p = Pattern{importPath(q.dir), "import-path"}
		case 7:
			p = Pattern{modPath + "/...", "import-path-recursive"}
			if rapid.Bool().Draw(t, "sub") {
				q := rapid.SampledFrom(pkgs).Draw(t, "patpkg")
				p.Text = importPath(q.dir) + "/..."
			}
		case 8:
			if loadOK() {
				p = Pattern{rapid.SampledFrom([]string{"./nope", "./nope/...", modPath + "/zzz", "./a/nope"}).Draw(t, "nonexistent"), "nonexistent"}
			} else {
				p = Pattern{"./...", "dot-recursive"}
			}
		case 9:
			if hasEmpty && eff == "" {
				if rapid.Bool().Draw(t, "emptyrec") || !loadOK() {
					p = Pattern{"./emptyd/...", "matches-nothing"}
				} else {
					p = Pattern{"./emptyd", "no-go-files"}
				}
			} else {
				p = Pattern{"./...", "dot-recursive"}
			}
		default:
			if len(c.Patterns) > 0 {
				p = rapid.SampledFrom(c.Patterns).Draw(t, "dup")
				p.Kind = "duplicate"
			} else {
				p = Pattern{"./...", "dot-recursive"}
			}
		}
		c.Patterns = append(c.Patterns, p)
	}
	if len(c.Patterns) == 0 {
		feat["pattern:none"] = true
	}
	for _, p := range c.Patterns {
		feat["pattern:"+p.Kind] = true
	}

	// ---- prior output tree ----
	c.Prior = rapid.SliceOfN(rapid.IntRange(0, 11), 6, 6).Draw(t, "prior") // choice = v%3 (absent / identical / stale), stale variant = v/3
	unrel := []modgen.File{
		{Path: "unrelated.v", Content: "(* keep me *)\n"},
		{Path: "notes/readme.md", Content: "notes\n"},
		{Path: "example_com/keep.txt", Content: "k\n"},
		{Path: coqKey(modPath) + "/zzz_other.v", Content: "Definition Z := 1.\n"},
		{Path: "Goose/old.v", Content: "(* old *)\n"},
	}
	for _, u := range unrel {
		if gen.Range(t, "unrelated", 0, 2) == 0 {
			c.Unrelated = append(c.Unrelated, u)
		}
	}
	for f := range feat {
		c.Feat = append(c.Feat, f)
	}
	sort.Strings(c.Feat)
	return c
}
