package c17

import (
	"encoding/json"
	"fmt"
	"sort"
	"strings"
	"testing"

	"pgregory.net/rapid"

	"verifharness/ev"
)

func TestMain(m *testing.M) {
	ev.Meta("exploration",
		"cases = (temporary module mixing translatable packages, packages with planted conversion errors, packages that fail to load, build-tagged files; cwd, -dir, -out, flags, package patterns; prior output tree); "+
			"non-trivial = the invocation matches at least 2 packages of which at least 1 fails, or the prior output tree is non-empty; distinct by (module files, cwd, argv, prior choices)",
		"which packages and files the patterns select is taken from `go list -e -tags goose` run in the directory -dir/cwd designates (differential for source selection)",
		"the Coq path of a package is its import path with '.' and '-' replaced by '_' plus '.v' (internal/coq ImportToPath)",
		"the declarations of a partial file are read with a regexp for lines starting with `Definition <name>`",
		"a matched package that cannot be loaded has no declarations: with -ignore-errors either no file or a file without definitions at its own Coq path is accepted",
		"when the patterns match no package at all only 'exit status is 0 or 1 and nothing is written' is asserted (TranslatePackages documents matching nothing as an error)",
		"go.mod/go.sum are excluded from the 'untouched' comparison (the go command may rewrite them); directories are not compared, only regular files",
		"identical output of two runs on the same module is assumed (C06); a difference is counted as inconclusive here")
	ev.Main(m, "C17")
}

func caseKey(c Case) string {
	var b strings.Builder
	for _, f := range c.Module.Files {
		b.WriteString(f.Path + "\x00" + f.Content + "\x00")
	}
	b.WriteString(c.Module.Path + "|" + c.Cwd + "|" + c.Dir + "|" + c.Out + "|" + fmt.Sprint(c.OutExists, c.Flags, c.Prior))
	for _, p := range c.Patterns {
		b.WriteString("|" + p.Text)
	}
	return b.String()
}

func check(t ev.TB, test string, c Case) {
	ev.Eval()
	for _, f := range c.Feat {
		ev.Label(f)
	}
	for _, f := range c.Flags {
		ev.Label("flag:" + f)
	}
	msg, inconc, stats := runCase(c)
	var ks []string
	for k := range stats {
		ks = append(ks, k)
	}
	sort.Strings(ks)
	for _, k := range ks {
		switch k {
		case "invocations":
			ev.Add("goose_invocations", int64(stats[k]))
		case "matched":
			switch n := stats[k]; {
			case n == 0:
				ev.Label("matched:0")
			case n == 1:
				ev.Label("matched:1")
			default:
				ev.Label("matched:2+")
			}
		default:
			ev.Label("has:" + k)
		}
	}
	if _, ok := stats["matched"]; !ok && inconc == "" {
		ev.Label("matched:0")
	}
	failing := stats["conv"] + stats["load"]
	priorN := stats["prior-identical"] + stats["prior-stale"] + stats["prior-of-failing-package"] + stats["prior-unrelated"]
	if inconc == "" && ((stats["matched"] >= 2 && failing >= 1) || priorN > 0) {
		ev.Label("non-trivial")
		ev.NonTrivial(caseKey(c))
		if stats["matched"] >= 2 && failing >= 1 && stats["good"] >= 1 && ev.WantSample() {
			ev.Sample(c)
		}
	}
	if inconc != "" {
		ev.Inconclusive(inconc)
		return
	}
	if msg != "" {
		ev.Failf(t, test, c, "%s", msg)
	}
}

func pinned(t ev.TB) {
	ev.Pinned(t, "C17", "TestGooseCommand", func(raw json.RawMessage) string {
		var c Case
		if err := json.Unmarshal(raw, &c); err != nil {
			ev.Inconclusive("pinned case unreadable")
			return ""
		}
		msg, inconc, _ := runCase(c)
		if inconc != "" {
			ev.Inconclusive("pinned: " + inconc)
		}
		return msg
	})
}

func TestGooseCommand(t *testing.T) {
	if e := setup(); e != "" {
		ev.Inconclusive(e)
		t.Fatalf("setup: %s", e)
	}
	if ev.ShardIndex() == 0 {
		pinned(t)
	}
	rapid.Check(t, func(t *rapid.T) {
		check(t, "TestGooseCommand", genCase(t))
	})
}

func TestReplay(t *testing.T) {
	p := ev.ReplayPath()
	if p == "" {
		t.Skip("no replay")
	}
	r, err := ev.LoadReplay(p)
	if err != nil {
		t.Fatal(err)
	}
	var c Case
	if err := json.Unmarshal(r.Case, &c); err != nil {
		t.Fatal(err)
	}
	check(t, "TestGooseCommand", c)
}
