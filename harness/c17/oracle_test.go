// Package c17: the goose command — exit status, file placement, partial
// output, write-if-changed, source selection (DESIGN.md §3 C17).
//
// oracle_test.go: the case type and the oracle. A case is a temporary module
// (with the generator's record of what it planted in every file), an
// invocation (cwd, -dir, -out, flags, patterns) and choices for the prior
// state of the output tree. The oracle asks `go list -e -tags goose` which
// packages and files the patterns select, derives from the planted record
// what goose must do, and runs the real binary two or three times:
//
//	A  on a fresh output tree,
//	B  on an output tree pre-populated with identical / stale / unrelated files,
//	C  (only with -dir) from inside that directory without -dir.
package c17

import (
	"encoding/json"
	"fmt"
	"io"
	"io/fs"
	"os"
	"path/filepath"
	"regexp"
	"sort"
	"strings"
	"sync"
	"syscall"
	"time"

	"verifharness/ev"
	"verifharness/modgen"
)

// Plant is what the generator put into one source file.
type Plant struct {
	Good      []string `json:"good,omitempty"`       // Coq definition names the file contributes when it is selected
	Bad       []string `json:"bad,omitempty"`        // names of declarations goose cannot translate (conversion errors)
	TypeError bool     `json:"type_error,omitempty"` // the file does not parse / type-check (package cannot be loaded)
}

// Pattern is one package pattern of the command line.
type Pattern struct {
	Text string `json:"text"`
	Kind string `json:"kind"` // label only
}

// Case is one generated configuration. Paths are relative to the per-case
// workspace root W: the module lives in W/m, W/outside is a directory outside
// the module.
type Case struct {
	Module    modgen.Module    `json:"module"`
	Plants    map[string]Plant `json:"plants"` // key: file path relative to the module root
	EmptyDirs []string         `json:"empty_dirs,omitempty"`
	Cwd       string           `json:"cwd"` // relative to W
	Dir       string           `json:"dir"` // -dir argument as given ("" = flag absent); "ABS:x" = absolute path W/x
	Eff       string           `json:"eff"` // the directory -dir/cwd designate, relative to W (where patterns are resolved)
	Out       string           `json:"out"` // -out argument ("" = absent); "ABS:x" = absolute path W/x
	OutExists bool             `json:"out_exists"`
	// OutSymlink: the output root exists as a symbolic link to a directory (seeded change C17-9)
	OutSymlink bool          `json:"out_symlink,omitempty"`
	Flags      []string      `json:"flags,omitempty"`
	Patterns   []Pattern     `json:"patterns"`
	Prior      []int         `json:"prior"`     // choices for the prior state of the i-th relevant output path
	Unrelated  []modgen.File `json:"unrelated"` // extra files in the prior output tree (relative to the output root)
	Feat       []string      `json:"feat,omitempty"`
}

func (c Case) hasFlag(f string) bool {
	for _, x := range c.Flags {
		if x == f {
			return true
		}
	}
	return false
}

// coqRel is the Coq path derived from an import path: '.' and '-' become
// '_', and the last element gets the extension .v.
func coqRel(importPath string) string {
	p := strings.NewReplacer(".", "_", "-", "_").Replace(importPath)
	return filepath.FromSlash(p) + ".v"
}

var (
	setupOnce sync.Once
	setupErr  string
	gooseBin  string
)

func setup() string {
	setupOnce.Do(func() {
		var ok bool
		gooseBin, ok = modgen.Bin("goose")
		if !ok {
			setupErr = "goose binary not available ($VERIF_BIN)"
		}
	})
	return setupErr
}

// ---- snapshots of the output tree ---------------------------------------

type fileState struct {
	Content string
	Mtime   time.Time
	Ino     uint64
}

func snapshot(root string) (map[string]fileState, error) {
	out := map[string]fileState{}
	if _, err := os.Lstat(root); err != nil {
		return out, nil
	}
	// the output root may be a symbolic link to a directory (WalkDir does not follow the root)
	if real, err := filepath.EvalSymlinks(root); err == nil {
		root = real
	}
	err := filepath.WalkDir(root, func(p string, d fs.DirEntry, err error) error {
		if err != nil {
			return err
		}
		if d.IsDir() {
			return nil
		}
		rel, _ := filepath.Rel(root, p)
		if b := filepath.Base(rel); b == "go.mod" || b == "go.sum" {
			return nil // the go command itself may touch these
		}
		info, err := d.Info()
		if err != nil {
			return err
		}
		b, err := os.ReadFile(p)
		if err != nil {
			return err
		}
		st := fileState{Content: string(b), Mtime: info.ModTime()}
		if sys, ok := info.Sys().(*syscall.Stat_t); ok {
			st.Ino = sys.Ino
		}
		out[rel] = st
		return nil
	})
	return out, err
}

var defRe = regexp.MustCompile(`(?m)^Definition\s+([A-Za-z_][A-Za-z0-9_']*)`)

func defNames(v string) []string {
	var out []string
	for _, m := range defRe.FindAllStringSubmatch(v, -1) {
		out = append(out, m[1])
	}
	sort.Strings(out)
	return out
}

// ---- expectation ----------------------------------------------------------

type pkgExp struct {
	ImportPath string
	Class      string   // "good" | "conv" | "load"
	Names      []string // sorted definition names of the selected files (good declarations only)
	Bad        []string
	CoqRel     string // output path relative to the output root ("" when the entry has no real import path)
}

type listEntry struct {
	ImportPath string
	Dir        string
	Name       string
	GoFiles    []string
	Error      *struct{ Err string }
}

// expectation asks the go command which packages and files the patterns
// select (with the goose build tag) and classifies every package from the
// generator's record.
func expectation(c Case, w string) (pkgs []pkgExp, inconc string) {
	eff := filepath.Join(w, c.Eff)
	modRoot := filepath.Join(w, "m")
	args := []string{"list", "-e", "-tags", "goose", "-json=ImportPath,Dir,Name,GoFiles,Error"}
	for _, p := range c.Patterns {
		args = append(args, p.Text)
	}
	r := modgen.Run(eff, 2*time.Minute, nil, append([]string{"go"}, args...)...)
	if r.Err != nil || r.TimedOut || r.Exit != 0 {
		return nil, "go list failed: " + firstLine(r.Stderr)
	}
	dec := json.NewDecoder(strings.NewReader(r.Stdout))
	seen := map[string]bool{}
	for {
		var e listEntry
		if err := dec.Decode(&e); err == io.EOF {
			break
		} else if err != nil {
			return nil, "go list output unreadable: " + err.Error()
		}
		if seen[e.ImportPath] {
			continue
		}
		seen[e.ImportPath] = true
		pe := pkgExp{ImportPath: e.ImportPath}
		if !strings.HasPrefix(e.ImportPath, ".") && !filepath.IsAbs(e.ImportPath) && e.ImportPath != "" {
			pe.CoqRel = coqRel(e.ImportPath)
		}
		if e.Error != nil || e.Dir == "" {
			pe.Class = "load"
			pkgs = append(pkgs, pe)
			continue
		}
		rel, err := filepath.Rel(modRoot, e.Dir)
		if err != nil || strings.HasPrefix(rel, "..") {
			return nil, "go list selected a package outside the module: " + e.Dir
		}
		if len(e.GoFiles) == 0 {
			pe.Class = "load"
			pkgs = append(pkgs, pe)
			continue
		}
		names := map[string]bool{}
		for _, f := range e.GoFiles {
			key := filepath.ToSlash(filepath.Join(rel, f))
			pl, ok := c.Plants[key]
			if !ok {
				return nil, "go list selected a file the generator did not plant: " + key
			}
			if pl.TypeError {
				pe.Class = "load"
			}
			for _, n := range pl.Good {
				names[n] = true
			}
			pe.Bad = append(pe.Bad, pl.Bad...)
		}
		for n := range names {
			pe.Names = append(pe.Names, n)
		}
		sort.Strings(pe.Names)
		sort.Strings(pe.Bad)
		if pe.Class == "" {
			if len(pe.Bad) > 0 {
				pe.Class = "conv"
			} else {
				pe.Class = "good"
			}
		}
		pkgs = append(pkgs, pe)
	}
	sort.Slice(pkgs, func(i, j int) bool { return pkgs[i].ImportPath < pkgs[j].ImportPath })
	return pkgs, ""
}

func firstLine(s string) string {
	s = strings.TrimSpace(s)
	if i := strings.IndexByte(s, '\n'); i >= 0 {
		s = s[:i]
	}
	if len(s) > 300 {
		s = s[:300]
	}
	return s
}

// ---- running ---------------------------------------------------------------

func resolve(w, cwd, arg string) string {
	if strings.HasPrefix(arg, "ABS:") {
		return filepath.Join(w, strings.TrimPrefix(arg, "ABS:"))
	}
	return filepath.Join(w, cwd, arg)
}

func cmdArg(w, arg string) string {
	if strings.HasPrefix(arg, "ABS:") {
		return filepath.Join(w, strings.TrimPrefix(arg, "ABS:"))
	}
	return arg
}

// buildWorkspace (re)creates W from the case.
func buildWorkspace(c Case, w string) error {
	if err := os.RemoveAll(w); err != nil {
		return err
	}
	if err := modgen.Write(filepath.Join(w, "m"), c.Module); err != nil {
		return err
	}
	for _, d := range append([]string{"outside"}, c.EmptyDirs...) {
		if err := os.MkdirAll(filepath.Join(w, d), 0o755); err != nil {
			return err
		}
	}
	if err := os.MkdirAll(filepath.Join(w, c.Cwd), 0o755); err != nil {
		return err
	}
	return nil
}

type runResult struct {
	Exit   int
	Stderr string
	Before map[string]fileState
	After  map[string]fileState
}

// invoke runs goose for the case (variant "C": from inside the effective
// directory without -dir) and snapshots the output root before and after.
func invoke(c Case, w, outRoot string, inside bool) (runResult, string) {
	var rr runResult
	var argv []string
	argv = append(argv, gooseBin)
	cwd := filepath.Join(w, c.Cwd)
	if inside {
		cwd = filepath.Join(w, c.Eff)
		argv = append(argv, "-out", outRoot)
	} else {
		if c.Out != "" {
			argv = append(argv, "-out", cmdArg(w, c.Out))
		}
		if c.Dir != "" {
			argv = append(argv, "-dir", cmdArg(w, c.Dir))
		}
	}
	argv = append(argv, c.Flags...)
	for _, p := range c.Patterns {
		argv = append(argv, p.Text)
	}
	var err error
	if rr.Before, err = snapshot(outRoot); err != nil {
		return rr, "snapshot: " + err.Error()
	}
	r := modgen.Run(cwd, 3*time.Minute, nil, argv...)
	if r.Err != nil || r.TimedOut {
		return rr, "goose did not run to completion: " + fmt.Sprint(r.Err)
	}
	rr.Exit = r.Exit
	rr.Stderr = r.Stderr
	if rr.After, err = snapshot(outRoot); err != nil {
		return rr, "snapshot: " + err.Error()
	}
	return rr, ""
}

func tail(s string, n int) string {
	s = strings.TrimSpace(s)
	if len(s) > n {
		s = "…" + s[len(s)-n:]
	}
	return strings.ReplaceAll(s, "\n", " | ")
}

var oldTime = time.Date(2001, 2, 3, 4, 5, 6, 0, time.UTC)

// judge compares one run with the expectation. prior maps paths that were
// planted before the run to their role ("identical", "stale", "other").
// written returns the bytes of the files goose is expected to have produced.
func judge(phase string, c Case, pkgs []pkgExp, rr runResult, prior map[string]string) (msg string, written map[string]string) {
	ignore := c.hasFlag("-ignore-errors")
	allGood := true
	for _, p := range pkgs {
		if p.Class != "good" {
			allGood = false
		}
	}
	desc := func() string {
		var parts []string
		for _, p := range pkgs {
			parts = append(parts, p.ImportPath+":"+p.Class)
		}
		return strings.Join(parts, " ")
	}
	// exit status
	if rr.Exit != 0 && rr.Exit != 1 {
		return fmt.Sprintf("[%s] goose exited with status %d (want 0 or 1); stderr: %s", phase, rr.Exit, tail(rr.Stderr, 400)), nil
	}
	if len(pkgs) > 0 {
		want := 1
		if allGood {
			want = 0
		}
		if rr.Exit != want {
			return fmt.Sprintf("[%s] exit status %d, want %d (matched packages: %s); stderr: %s", phase, rr.Exit, want, desc(), tail(rr.Stderr, 300)), nil
		}
	}
	// which files must / may be written
	must := map[string]pkgExp{}
	may := map[string]pkgExp{}
	for _, p := range pkgs {
		switch {
		case p.Class == "good":
			must[p.CoqRel] = p
		case p.Class == "conv" && ignore:
			must[p.CoqRel] = p
		case p.Class == "load" && ignore && p.CoqRel != "":
			// a package that cannot be loaded has no declarations: either no
			// file, or a file without definitions at its own path
			may[p.CoqRel] = p
		}
	}
	written = map[string]string{}
	var mustRels []string
	for rel := range must {
		mustRels = append(mustRels, rel)
	}
	sort.Strings(mustRels)
	for _, rel := range mustRels {
		p := must[rel]
		st, ok := rr.After[rel]
		if !ok {
			return fmt.Sprintf("[%s] package %s (%s) should have been written to %s under the output root, but that file does not exist; files present: %v", phase, p.ImportPath, p.Class, rel, keys(rr.After)), nil
		}
		got := defNames(st.Content)
		if fmt.Sprint(got) != fmt.Sprint(p.Names) {
			return fmt.Sprintf("[%s] %s (package %s, %s) defines %v, want exactly the translatable declarations of the selected files %v (untranslatable: %v)", phase, rel, p.ImportPath, p.Class, got, p.Names, p.Bad), nil
		}
		if !strings.Contains(st.Content, p.ImportPath) {
			return fmt.Sprintf("[%s] %s does not mention its package %s", phase, rel, p.ImportPath), nil
		}
		written[rel] = st.Content
		if before, existed := rr.Before[rel]; existed {
			switch prior[rel] {
			case "identical":
				// (content differing from the first run is left to the caller:
				// non-deterministic output is not this property's subject)
				if before.Content == st.Content && (!st.Mtime.Equal(before.Mtime) || st.Ino != before.Ino) {
					return fmt.Sprintf("[%s] %s already had the right content but was rewritten (mtime %v -> %v, inode %d -> %d)", phase, rel, before.Mtime.UTC(), st.Mtime.UTC(), before.Ino, st.Ino), nil
				}
			case "stale":
				if st.Content == before.Content {
					return fmt.Sprintf("[%s] %s had stale content and was not rewritten", phase, rel), nil
				}
			}
		}
	}
	// everything else under the output root must be untouched
	for _, rel := range keys(rr.After) {
		st := rr.After[rel]
		if _, ok := must[rel]; ok {
			continue
		}
		before, existed := rr.Before[rel]
		if p, ok := may[rel]; ok && (!existed || before.Content != st.Content) {
			if n := defNames(st.Content); len(n) != 0 {
				return fmt.Sprintf("[%s] %s (package %s could not be loaded) defines %v", phase, rel, p.ImportPath, n), nil
			}
			continue
		}
		if !existed {
			return fmt.Sprintf("[%s] unexpected new file %s under the output root (%d bytes: %q); matched packages: %s; flags %v", phase, rel, len(st.Content), clip(st.Content, 80), desc(), c.Flags), nil
		}
		if before.Content != st.Content {
			return fmt.Sprintf("[%s] file %s under the output root was modified although no matched package maps to it (or its package failed); matched packages: %s; flags %v", phase, rel, desc(), c.Flags), nil
		}
		if !st.Mtime.Equal(before.Mtime) || st.Ino != before.Ino {
			return fmt.Sprintf("[%s] file %s under the output root was rewritten (mtime/inode changed) although nothing maps to it", phase, rel), nil
		}
	}
	for _, rel := range keys(rr.Before) {
		if _, ok := rr.After[rel]; !ok {
			return fmt.Sprintf("[%s] file %s under the output root was deleted", phase, rel), nil
		}
	}
	return "", written
}

func clip(s string, n int) string {
	if len(s) > n {
		return s[:n]
	}
	return s
}

func keys(m map[string]fileState) []string {
	var out []string
	for k := range m {
		out = append(out, k)
	}
	sort.Strings(out)
	return out
}

func plantFile(root, rel, content string, i int) error {
	p := filepath.Join(root, rel)
	if err := os.MkdirAll(filepath.Dir(p), 0o755); err != nil {
		return err
	}
	if err := os.WriteFile(p, []byte(content), 0o644); err != nil {
		return err
	}
	tm := oldTime.Add(time.Duration(i) * time.Hour)
	return os.Chtimes(p, tm, tm)
}

// runCase returns msg != "" when the property fails on c; inconc != "" when
// the case could not be decided. stats describes the case for labels.
func runCase(c Case) (msg, inconc string, stats map[string]int) {
	stats = map[string]int{}
	if e := setup(); e != "" {
		return "", e, stats
	}
	w := filepath.Join(ev.Scratch(), "c17w")
	defer os.RemoveAll(w)
	outRoot := filepath.Join(w, c.Cwd)
	if c.Out != "" {
		outRoot = resolve(w, c.Cwd, c.Out)
	}
	prepare := func() string {
		if err := buildWorkspace(c, w); err != nil {
			return "cannot build the workspace: " + err.Error()
		}
		if c.OutExists && c.OutSymlink {
			real := outRoot + ".real"
			if err := os.MkdirAll(real, 0o755); err != nil {
				return err.Error()
			}
			if err := os.MkdirAll(filepath.Dir(outRoot), 0o755); err != nil {
				return err.Error()
			}
			os.Remove(outRoot)
			if err := os.Symlink(real, outRoot); err != nil {
				return err.Error()
			}
		} else if c.OutExists {
			if err := os.MkdirAll(outRoot, 0o755); err != nil {
				return err.Error()
			}
		}
		return ""
	}

	// ---- phase A: fresh output tree ----
	if e := prepare(); e != "" {
		return "", e, stats
	}
	pkgs, ic := expectation(c, w)
	if ic != "" {
		return "", ic, stats
	}
	for _, p := range pkgs {
		stats["matched"]++
		stats[p.Class]++
	}
	ra, ic := invoke(c, w, outRoot, false)
	if ic != "" {
		return "", ic, stats
	}
	stats["invocations"]++
	m, writtenA := judge("fresh output tree", c, pkgs, ra, nil)
	if m != "" {
		return m, "", stats
	}

	// ---- phase C: -dir D ≡ running inside D ----
	if c.Dir != "" {
		if e := prepare(); e != "" {
			return "", e, stats
		}
		rc, ic := invoke(c, w, outRoot, true)
		if ic != "" {
			return "", ic, stats
		}
		stats["invocations"]++
		if rc.Exit != ra.Exit {
			return fmt.Sprintf("exit status %d with -dir %s, but %d when run inside that directory without -dir", ra.Exit, c.Dir, rc.Exit), "", stats
		}
		newA, newC := newFiles(ra), newFiles(rc)
		if fmt.Sprint(sortedKeys(newA)) != fmt.Sprint(sortedKeys(newC)) {
			return fmt.Sprintf("-dir %s wrote %v, running inside that directory wrote %v", c.Dir, sortedKeys(newA), sortedKeys(newC)), "", stats
		}
		for k, v := range newA {
			if newC[k] != v {
				return fmt.Sprintf("-dir %s and running inside that directory produce different bytes for %s", c.Dir, k), "", stats
			}
		}
	}

	// ---- phase D: obstructed output path ----
	// A regular file sits where a directory of the output path of a package that translates is
	// needed, so its file cannot be written: goose must not report success (exit 0 means every
	// matched package was translated AND written), and must leave the obstructing file alone
	// (seeded change C17-3).
	if len(c.Prior) > 0 && c.Prior[len(c.Prior)-1]%3 == 1 && ra.Exit == 0 {
		var victim string
		for _, rel := range sortedKeys(writtenA) {
			if strings.Count(filepath.ToSlash(rel), "/") >= 1 {
				victim = rel
				break
			}
		}
		if victim != "" {
			if e := prepare(); e != "" {
				return "", e, stats
			}
			block := filepath.Dir(victim)
			if c.Prior[0]%2 == 1 {
				// the topmost component instead of the innermost directory
				block = strings.SplitN(filepath.ToSlash(victim), "/", 2)[0]
			}
			if err := plantFile(outRoot, block, "not a directory\n", 7); err != nil {
				return "", "cannot plant the obstructing file: " + err.Error(), stats
			}
			rd, ic := invoke(c, w, outRoot, false)
			if ic != "" {
				return "", ic, stats
			}
			stats["invocations"]++
			stats["obstructed-output-path"]++
			if rd.Exit == 0 {
				return fmt.Sprintf("[obstructed output path] a regular file at %s under the output root makes it impossible to write %s, yet goose exited with status 0; stderr: %s", block, victim, tail(rd.Stderr, 300)), "", stats
			}
			if st, ok := rd.After[block]; !ok || st.Content != "not a directory\n" {
				return fmt.Sprintf("[obstructed output path] the regular file at %s under the output root was removed or overwritten", block), "", stats
			}
		}
	}

	// ---- phase B: pre-populated output tree ----
	if e := prepare(); e != "" {
		return "", e, stats
	}
	prior := map[string]string{}
	var rels []string
	relSet := map[string]bool{}
	for _, p := range pkgs {
		if p.CoqRel != "" && !relSet[p.CoqRel] {
			relSet[p.CoqRel] = true
			rels = append(rels, p.CoqRel)
		}
	}
	sort.Strings(rels)
	planted := 0
	for i, rel := range rels {
		choice, variant := 0, 0
		if len(c.Prior) > 0 {
			choice = c.Prior[i%len(c.Prior)] % 3
			variant = c.Prior[i%len(c.Prior)] / 3
		}
		content, willWrite := writtenA[rel]
		var err error
		switch {
		case choice == 0:
			continue
		case willWrite && choice == 1:
			prior[rel] = "identical"
			err = plantFile(outRoot, rel, content, i)
			stats["prior-identical"]++
		case willWrite:
			prior[rel] = "stale"
			// a different earlier translation: longer, or of exactly the same length and differing in
			// one byte only (at the end, at the start, in the middle; seeded change C17-5)
			staleContent := content + "(* stale *)\n"
			if b := []byte(content); variant > 0 && len(b) > 2 {
				pos := map[int]int{1: len(b) - 2, 2: 0, 3: len(b) / 2}[variant]
				if b[pos] == '#' {
					b[pos] = '%'
				} else {
					b[pos] = '#'
				}
				staleContent = string(b)
				stats["prior-stale-same-length"]++
			}
			err = plantFile(outRoot, rel, staleContent, i)
			stats["prior-stale"]++
		default:
			prior[rel] = "other"
			err = plantFile(outRoot, rel, "(* output of an earlier successful run *)\nDefinition Old: val := #0.\n", i)
			stats["prior-of-failing-package"]++
		}
		if err != nil {
			return "", "cannot plant prior output: " + err.Error(), stats
		}
		planted++
	}
	for i, u := range c.Unrelated {
		rel := filepath.FromSlash(u.Path)
		if relSet[rel] {
			continue
		}
		if _, err := os.Lstat(filepath.Join(outRoot, rel)); err == nil {
			continue // never overwrite a file of the workspace
		}
		if err := plantFile(outRoot, rel, u.Content, 100+i); err != nil {
			return "", "cannot plant unrelated file: " + err.Error(), stats
		}
		prior[rel] = "other"
		stats["prior-unrelated"]++
		planted++
	}
	if planted == 0 {
		return "", "", stats
	}
	rb, ic := invoke(c, w, outRoot, false)
	if ic != "" {
		return "", ic, stats
	}
	stats["invocations"]++
	m, writtenB := judge("pre-populated output tree", c, pkgs, rb, prior)
	if m != "" {
		return m, "", stats
	}
	if rb.Exit != ra.Exit {
		return fmt.Sprintf("exit status depends on the prior output tree: %d on a fresh tree, %d on a pre-populated one", ra.Exit, rb.Exit), "", stats
	}
	for rel, a := range writtenA {
		if b, ok := writtenB[rel]; ok && a != b {
			return "", "output of two runs on the same module differs (" + rel + "): determinism is C06's subject", stats
		}
	}
	return "", "", stats
}

func newFiles(rr runResult) map[string]string {
	out := map[string]string{}
	for k, v := range rr.After {
		if b, ok := rr.Before[k]; !ok || b.Content != v.Content {
			out[k] = v.Content
		}
	}
	return out
}

func sortedKeys(m map[string]string) []string {
	var out []string
	for k := range m {
		out = append(out, k)
	}
	sort.Strings(out)
	return out
}
