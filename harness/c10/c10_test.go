// Package c10: concurrent disk operations are linearizable per block, the
// library is free of data races, and FileDisk keeps distinct addresses
// independent and real-time-ordered operations in order (DESIGN.md §3 C10).
//
// Parts:
//
//	TestMemLinearizable  free-running client goroutines on disk.MemDisk, stamped history,
//	                     torn-block check + porcupine against the per-address register model
//	TestFileOrdering     disk.FileDisk with (i) disjoint owners, (ii) an address handed from
//	                     client to client through channels; same oracle
//	TestRace             the same workloads (no stamps) in cmd/diskchild built with -race,
//	                     GORACE=halt_on_error=1 exitcode=66; a race report whose stacks are in
//	                     machine/disk is a violation
package c10

import (
	"encoding/json"
	"fmt"
	"os"
	"os/exec"
	"path/filepath"
	"regexp"
	"sort"
	"strconv"
	"strings"
	"testing"
	"time"

	"github.com/anishathalye/porcupine"
	"pgregory.net/rapid"

	"verifharness/cmd/diskchild/work"
	"verifharness/ev"
	"verifharness/gen"
	"verifharness/models"
)

func TestMain(m *testing.M) {
	ev.Meta("exploration",
		"cases = (disk kind, size, GOMAXPROCS in {2,4,16}, 2-8 client goroutines each with 5-60 Read/ReadTo/Write/Size operations over 1-3 hot addresses, optional Gosched before an operation; "+
			"FileDisk: disjoint owners, or one token handed from client to client); every case is executed several times (schedules are whatever the Go runtime produces); "+
			"written blocks carry a unique tag mixed into all 512 words; non-trivial = in at least one execution two operations of different clients on one address overlap in time and one of them is a write "+
			"(file-disjoint: two operations of different clients overlap in time, one a write; file-handoff: a read directly follows a write of the same address by another client; "+
			"race part: the case has two clients touching one address, one of them writing); distinct by hash of the case",
		"the per-address register model (harness/models/regdisk.go) and porcupine v1.3.0 decide linearizability; porcupine Unknown (timeout) is inconclusive",
		"invocation/response stamps come from one atomic counter taken immediately before/after each API call",
		"the Go race detector decides the data-race clause; only reports with a machine/disk frame count",
		"atomicity of overlapping same-address I/O on FileDisk is a kernel property and is not asserted (never generated)")
	ev.Main(m, "C10")
}

// ---- oracle ---------------------------------------------------------------

func describe(r work.Rec) string {
	who := fmt.Sprintf("client %d op#%d", r.Client, r.Idx)
	switch r.Op {
	case "write":
		return fmt.Sprintf("[%d,%d] %s Write(%d, tag %#x) refused=%v", r.Call, r.Ret, who, r.Addr, r.Tag, r.Refused)
	case "size":
		return fmt.Sprintf("[%d,%d] %s Size() = %d", r.Call, r.Ret, who, r.Size)
	}
	return fmt.Sprintf("[%d,%d] %s %s(%d) -> tag %#x refused=%v", r.Call, r.Ret, who, r.Op, r.Addr, r.Tag, r.Refused)
}

// judge decides one recorded history.
func judge(c work.ConcCase, recs []work.Rec) (msg, infra string) {
	written := map[uint64]map[uint64]bool{}
	for _, r := range recs {
		if r.Op == "write" && !r.Refused {
			if written[r.Addr] == nil {
				written[r.Addr] = map[uint64]bool{}
			}
			written[r.Addr][r.Tag] = true
		}
	}
	byAddr := map[uint64][]work.Rec{}
	var addrs []uint64
	for _, r := range recs {
		switch r.Op {
		case "size":
			if r.Size != c.Size {
				return fmt.Sprintf("%s on a disk of %d blocks", describe(r), c.Size), ""
			}
			continue
		case "read", "readto":
			if r.Torn && c.Kind != "file-mixed" {
				return fmt.Sprintf("torn read: %s returned a block that is not one whole written block: word 0 carries tag %#x but word %d carries tag %#x", describe(r), r.Tag, r.TornAt, r.TornTag), ""
			}
			if !r.Refused && r.Tag != 0 && !written[r.Addr][r.Tag] && !(r.Torn && c.Kind == "file-mixed") {
				return fmt.Sprintf("%s: that tag was never written to address %d", describe(r), r.Addr), ""
			}
		}
		if _, ok := byAddr[r.Addr]; !ok {
			addrs = append(addrs, r.Addr)
		}
		byAddr[r.Addr] = append(byAddr[r.Addr], r)
	}
	sort.Slice(addrs, func(i, j int) bool { return addrs[i] < addrs[j] })
	if c.Kind == "file-mixed" {
		return judgeMixed(c, byAddr, addrs), ""
	}
	model := models.RegisterModel(c.Size)
	for _, a := range addrs {
		var ops []porcupine.Operation
		for _, r := range byAddr[a] {
			ops = append(ops, porcupine.Operation{
				ClientId: r.Client,
				Input:    models.RegIn{Write: r.Op == "write", Addr: r.Addr, Tag: r.Tag},
				Call:     r.Call,
				Output:   models.RegOut{Tag: r.Tag, Refused: r.Refused},
				Return:   r.Ret,
			})
		}
		switch porcupine.CheckOperationsTimeout(model, ops, 20*time.Second) {
		case porcupine.Unknown:
			return "", "porcupine timed out"
		case porcupine.Illegal:
			rs := append([]work.Rec(nil), byAddr[a]...)
			sort.Slice(rs, func(i, j int) bool { return rs[i].Call < rs[j].Call })
			var sb strings.Builder
			for i, r := range rs {
				if i >= 40 {
					fmt.Fprintf(&sb, "\n… (%d more)", len(rs)-i)
					break
				}
				sb.WriteString("\n" + describe(r))
			}
			return fmt.Sprintf("history of address %d (disk of %d blocks) is not linearizable w.r.t. the register specification:%s", a, c.Size, sb.String()), ""
		}
	}
	return "", ""
}

// judgeMixed: concurrent clients on shared addresses of the FILE-backed disk. The property does not
// make pread/pwrite of one block atomic with respect to each other, only "operations ordered in
// real time on one address are observed in that order": a read R of address a returns the value
// of a write W of a (or zero, if no write returned before R was called) such that no other write
// of a lies entirely between W and R; and a read that overlaps no write of a returns one whole
// block. (Seeded change C10-6: a block cache of the file-backed disk that keeps a stale block.)
func judgeMixed(c work.ConcCase, byAddr map[uint64][]work.Rec, addrs []uint64) string {
	for _, a := range addrs {
		var writes []work.Rec
		for _, r := range byAddr[a] {
			if r.Op == "write" && !r.Refused {
				writes = append(writes, r)
			}
		}
		for _, r := range byAddr[a] {
			if r.Op == "write" || r.Refused {
				continue
			}
			concurrent := false
			for _, w := range writes {
				if w.Call < r.Ret && r.Call < w.Ret {
					concurrent = true
				}
			}
			if r.Torn {
				if !concurrent {
					return fmt.Sprintf("torn read: %s overlaps no write of address %d, yet it returned a block that is not one whole written block: word 0 carries tag %#x but word %d carries tag %#x", describe(r), a, r.Tag, r.TornAt, r.TornTag)
				}
				continue
			}
			// the write whose value R returned (tags are unique per write); tag 0 = the initial zero block
			var src *work.Rec
			for i := range writes {
				if writes[i].Tag == r.Tag {
					src = &writes[i]
				}
			}
			if r.Tag != 0 && src == nil {
				continue // reported by the caller ("never written")
			}
			if src != nil && src.Call > r.Ret {
				return fmt.Sprintf("%s returned the value of a write that started only afterwards: %s", describe(r), describe(*src))
			}
			for _, w := range writes {
				if w.Ret >= r.Call {
					continue // not entirely before the read
				}
				if src == nil || src.Ret < w.Call {
					what := "the initial zero block"
					if src != nil {
						what = "the value of " + describe(*src)
					}
					return fmt.Sprintf("stale read on the file-backed disk: %s returned %s although %s had been written and had returned in between (operations ordered in real time on one address must be observed in that order)", describe(r), what, describe(w))
				}
			}
		}
	}
	return ""
}

// overlapping is the non-triviality test of one execution:
//
//	mem            two operations of different clients on one address overlap in time, one a write
//	file-disjoint  two operations of different clients (necessarily on different addresses)
//	               overlap in time, one a write
//	file-handoff   a read of an address directly follows (in the hand-off order) a write of
//	               that address issued by a different client
func overlapping(c work.ConcCase, recs []work.Rec) bool {
	if c.Kind == "file-handoff" {
		rs := append([]work.Rec(nil), recs...)
		sort.Slice(rs, func(i, j int) bool { return rs[i].Call < rs[j].Call })
		last := map[uint64]work.Rec{}
		for _, r := range rs {
			if r.Op == "size" || r.Client >= len(c.Clients) {
				continue
			}
			if p, ok := last[r.Addr]; ok && r.Op != "write" && p.Op == "write" && p.Client != r.Client {
				return true
			}
			last[r.Addr] = r
		}
		return false
	}
	byAddr := map[uint64][]work.Rec{}
	for _, r := range recs {
		if r.Op != "size" {
			a := r.Addr
			if c.Kind == "file-disjoint" {
				a = 0
			}
			byAddr[a] = append(byAddr[a], r)
		}
	}
	for _, rs := range byAddr {
		for i, x := range rs {
			if x.Op != "write" {
				continue
			}
			for j, y := range rs {
				if i != j && x.Client != y.Client && x.Call < y.Ret && y.Call < x.Ret {
					return true
				}
			}
		}
	}
	return false
}

var fileCounter int

func scratchFile() string {
	fileCounter++
	return filepath.Join(ev.Scratch(), fmt.Sprintf("c10-%d.img", fileCounter))
}

func catch(f func()) {
	defer func() { recover() }()
	f()
}

// runInProcess executes c reps times with stamps and judges every history.
func runInProcess(c work.ConcCase, reps int) (msg, infra string, overlapped int) {
	for rep := 0; rep < reps; rep++ {
		path := ""
		if c.Kind != "mem" {
			path = scratchFile()
		}
		d, err := work.OpenConc(c, path)
		if err != nil {
			return "", "NewFileDisk failed: " + err.Error(), overlapped
		}
		recs := work.RunConc(c, d, true)
		catch(func() { d.Close() })
		if path != "" {
			os.Remove(path)
		}
		if overlapping(c, recs) {
			overlapped++
		}
		if m, i := judge(c, recs); m != "" || i != "" {
			if m != "" {
				m = fmt.Sprintf("execution %d of %d: %s", rep+1, reps, m)
			}
			return m, i, overlapped
		}
	}
	return "", "", overlapped
}

// ---- generators -----------------------------------------------------------

func genOps(t *rapid.T, n int, addrs []uint64, label string) []work.ConcOp {
	ops := make([]work.ConcOp, 0, n)
	for j := 0; j < n; j++ {
		var op work.ConcOp
		switch k := rapid.IntRange(0, 9).Draw(t, label+"op"); {
		case k <= 3:
			op.Op = "write"
		case k <= 6:
			op.Op = "read"
		case k <= 8:
			op.Op = "readto"
		default:
			op.Op = "size"
		}
		if op.Op != "size" {
			op.Addr = addrs[rapid.IntRange(0, len(addrs)-1).Draw(t, label+"addr")]
		}
		op.Yield = rapid.IntRange(0, 5).Draw(t, label+"yield") == 0
		ops = append(ops, op)
	}
	return ops
}

// decorate sends part of the operations through the package-level wrappers and makes part of the
// writes repeat one of a few shared contents.
func decorate(t *rapid.T, c *work.ConcCase) {
	pkgPct := rapid.SampledFrom([]int{0, 0, 50, 50, 100}).Draw(t, "pkgPct")
	poolPct := rapid.SampledFrom([]int{0, 0, 40, 80}).Draw(t, "poolPct")
	if c.Kind == "file-mixed" {
		poolPct = 0
	}
	for ci := range c.Clients {
		for j := range c.Clients[ci] {
			op := &c.Clients[ci][j]
			op.Pkg = pkgPct > 0 && gen.Chance(t, "pkg", pkgPct)
			if op.Op == "write" && poolPct > 0 && gen.Chance(t, "pool", poolPct) {
				op.Pool = gen.Range(t, "poolk", 1, 2)
			}
		}
	}
}

func genMem(t *rapid.T) work.ConcCase {
	c := genMem0(t)
	decorate(t, &c)
	return c
}

func genFile(t *rapid.T) work.ConcCase {
	c := genFile0(t)
	decorate(t, &c)
	return c
}

func genMem0(t *rapid.T) work.ConcCase {
	c := work.ConcCase{Kind: "mem"}
	c.Size = uint64(rapid.IntRange(1, 4).Draw(t, "size"))
	c.Procs = rapid.SampledFrom([]int{2, 4, 16}).Draw(t, "procs")
	nhot := rapid.IntRange(1, 3).Draw(t, "nhot")
	var hot []uint64
	for i := 0; i < nhot; i++ {
		hot = append(hot, uint64(rapid.IntRange(0, int(c.Size)-1).Draw(t, "hot")))
	}
	if rapid.IntRange(0, 7).Draw(t, "oob") == 0 {
		hot = append(hot, c.Size) // refused concurrently with everything else
	}
	n := rapid.IntRange(2, 8).Draw(t, "clients")
	for ci := 0; ci < n; ci++ {
		c.Clients = append(c.Clients, genOps(t, rapid.IntRange(5, 60).Draw(t, "nops"), hot, ""))
	}
	return c
}

func genFile0(t *rapid.T) work.ConcCase {
	var c work.ConcCase
	c.Procs = rapid.SampledFrom([]int{2, 4, 16}).Draw(t, "procs")
	n := rapid.IntRange(2, 6).Draw(t, "clients")
	if rapid.Bool().Draw(t, "handoff") {
		c.Kind = "file-handoff"
		c.Size = uint64(rapid.IntRange(1, 3).Draw(t, "size"))
		var hot []uint64
		nhot := rapid.IntRange(1, 2).Draw(t, "nhot")
		for i := 0; i < nhot; i++ {
			hot = append(hot, uint64(rapid.IntRange(0, int(c.Size)-1).Draw(t, "hot")))
		}
		c.Clients = make([][]work.ConcOp, n)
		total := rapid.IntRange(10, 80).Draw(t, "turns")
		for k := 0; k < total; k++ {
			ci := rapid.IntRange(0, n-1).Draw(t, "who")
			c.Route = append(c.Route, ci)
			c.Clients[ci] = append(c.Clients[ci], genOps(t, 1, hot, "h")...)
		}
		return c
	}
	if gen.Chance(t, "mixed", 40) {
		// truly concurrent clients on shared addresses; disks large enough for addresses that differ
		// by a power of two (anything keyed by a % 2^k collides) next to neighbours
		c.Kind = "file-mixed"
		stride := uint64(1) // neighbours (read-ahead, C10-4) in a third of the cases, else 2^k (slot collisions, C10-6)
		if !gen.Chance(t, "adjacent", 35) {
			stride = uint64(1) << uint(gen.Range(t, "stridelog", 1, 8))
		}
		base := uint64(gen.Range(t, "base", 0, 5))
		hot := []uint64{base, base + stride}
		if gen.Chance(t, "third", 50) {
			hot = append(hot, base+2*stride)
		}
		c.Size = base + 2*stride + uint64(gen.Range(t, "spare", 1, 3))
		for ci := 0; ci < n; ci++ {
			c.Clients = append(c.Clients, genOps(t, rapid.IntRange(5, 40).Draw(t, "nops"), hot, ""))
		}
		return c
	}
	c.Kind = "file-disjoint"
	per := rapid.IntRange(1, 2).Draw(t, "per")
	c.Size = uint64(n*per + rapid.IntRange(0, 2).Draw(t, "spare"))
	for ci := 0; ci < n; ci++ {
		var own []uint64
		for k := 0; k < per; k++ {
			own = append(own, uint64(ci*per+k))
		}
		c.Clients = append(c.Clients, genOps(t, rapid.IntRange(5, 40).Draw(t, "nops"), own, ""))
	}
	return c
}

func labels(c work.ConcCase) {
	ev.Label("kind=" + c.Kind)
	pkg, meth, pool := false, false, false
	for _, ops := range c.Clients {
		for _, op := range ops {
			pkg = pkg || op.Pkg
			meth = meth || !op.Pkg
			pool = pool || op.Pool > 0
		}
	}
	switch {
	case pkg && meth:
		ev.Label("access: package-level wrappers and Disk methods mixed")
	case pkg:
		ev.Label("access: package-level wrappers only")
	}
	if pool {
		ev.Label("writes repeating a shared block content")
	}
	ev.Label(fmt.Sprintf("procs=%d", c.Procs))
	n := len(c.Clients)
	switch {
	case n <= 2:
		ev.Label("clients=2")
	case n <= 4:
		ev.Label("clients=3-4")
	default:
		ev.Label("clients>=5")
	}
}

func reps() int { return ev.EnvInt("VERIF_REPS", 8) }

func checkInProcess(t ev.TB, test string, c work.ConcCase, n int) {
	ev.Eval()
	labels(c)
	msg, infra, ov := runInProcess(c, n)
	ev.Add("executions", int64(n))
	ev.Add("executions_with_overlap", int64(ov))
	if ov > 0 {
		ev.Label("overlap-observed")
		b, _ := json.Marshal(c)
		ev.NonTrivial(string(b))
		if total(c) <= 40 {
			ev.Sample(c)
		}
	} else {
		ev.Label("no-overlap-observed")
	}
	if infra != "" {
		ev.Inconclusive(infra)
		return
	}
	if msg != "" {
		ev.Failf(t, test, c, "%s", msg)
	}
}

func total(c work.ConcCase) int {
	n := 0
	for _, ops := range c.Clients {
		n += len(ops)
	}
	return n
}

func TestMemLinearizable(t *testing.T) {
	rapid.Check(t, func(t *rapid.T) { checkInProcess(t, "TestMemLinearizable", genMem(t), reps()) })
}

func TestFileOrdering(t *testing.T) {
	rapid.Check(t, func(t *rapid.T) { checkInProcess(t, "TestFileOrdering", genFile(t), reps()) })
}

// ---- race part --------------------------------------------------------------

// conflicting reports whether two clients touch one address, one writing.
func conflicting(c work.ConcCase) bool {
	type use struct{ w, any map[int]bool }
	m := map[uint64]*use{}
	for ci, ops := range c.Clients {
		for _, op := range ops {
			if op.Op == "size" {
				continue
			}
			u := m[op.Addr]
			if u == nil {
				u = &use{map[int]bool{}, map[int]bool{}}
				m[op.Addr] = u
			}
			u.any[ci] = true
			if op.Op == "write" {
				u.w[ci] = true
			}
		}
	}
	for _, u := range m {
		for w := range u.w {
			for o := range u.any {
				if o != w {
					return true
				}
			}
		}
	}
	return false
}

func raceBin() string { return filepath.Join(os.Getenv("VERIF_BIN"), "diskchild-race") }

var caseRe = regexp.MustCompile(`(?m)^CASE (\d+)$`)
var tornRe = regexp.MustCompile(`(?m)^TORN (\d+) (.*)$`)

// runRace runs a batch in the -race child. bad = index of the offending case (-1: none).
func runRace(cases []work.ConcCase, n int) (bad int, msg, infra string) {
	dir := filepath.Join(ev.Scratch(), fmt.Sprintf("c10-race-%d", fileCounter))
	fileCounter++
	if err := os.MkdirAll(dir, 0o755); err != nil {
		return -1, "", "mkdir: " + err.Error()
	}
	defer os.RemoveAll(dir)
	b, _ := json.Marshal(work.ConcBatch{Cases: cases, Reps: n, Dir: dir})
	bf := filepath.Join(dir, "batch.json")
	if err := os.WriteFile(bf, b, 0o644); err != nil {
		return -1, "", "write batch: " + err.Error()
	}
	cmd := exec.Command(raceBin(), "conc", bf)
	cmd.Dir = dir
	var env []string
	for _, e := range os.Environ() {
		if !strings.HasPrefix(e, "GORACE=") {
			env = append(env, e)
		}
	}
	cmd.Env = append(env, "GORACE=halt_on_error=1 exitcode=66")
	var so, se strings.Builder
	cmd.Stdout, cmd.Stderr = &so, &se
	done := make(chan error, 1)
	if err := cmd.Start(); err != nil {
		return -1, "", "cannot start the -race child: " + err.Error()
	}
	go func() { done <- cmd.Wait() }()
	var err error
	select {
	case err = <-done:
	case <-time.After(5 * time.Minute):
		cmd.Process.Kill()
		<-done
		return -1, "", "-race child timed out"
	}
	stderr, stdout := se.String(), so.String()
	code := 0
	if err != nil {
		ee, ok := err.(*exec.ExitError)
		if !ok {
			return -1, "", "-race child: " + err.Error()
		}
		code = ee.ExitCode()
	}
	if m := tornRe.FindStringSubmatch(stdout); m != nil {
		i, _ := strconv.Atoi(m[1])
		if i >= 0 && i < len(cases) {
			return i, "torn read in the -race child: " + m[2], ""
		}
	}
	switch {
	case code == 0 && strings.Contains(stdout, fmt.Sprintf("DONE %d", len(cases))):
		if strings.Contains(stdout, "OPENFAIL") {
			return -1, "", "NewFileDisk failed in the child"
		}
		return -1, "", ""
	case code == 66 && strings.Contains(stderr, "WARNING: DATA RACE"):
		at := strings.Index(stderr, "WARNING: DATA RACE")
		idx := -1
		for _, m := range caseRe.FindAllStringSubmatch(stderr[:at], -1) {
			idx, _ = strconv.Atoi(m[1])
		}
		report := stderr[at:]
		if end := strings.Index(report, "=================="); end > 0 {
			report = report[:end]
		}
		if idx < 0 || idx >= len(cases) {
			return -1, "", "race report without a case marker"
		}
		if !strings.Contains(report, "machine/disk") {
			return -1, "", "race report without a machine/disk frame (harness race?): " + firstLines(report, 6)
		}
		return idx, "the race detector reports a data race inside machine/disk:\n" + firstLines(report, 28), ""
	default:
		return -1, "", fmt.Sprintf("-race child exited with status %d: %s", code, firstLines(stderr, 3))
	}
}

func firstLines(s string, n int) string {
	lines := strings.Split(strings.TrimSpace(s), "\n")
	if len(lines) > n {
		lines = lines[:n]
	}
	return strings.Join(lines, "\n")
}

func needRaceBin(t *testing.T) {
	if _, err := os.Stat(raceBin()); err != nil {
		ev.Inconclusive("diskchild-race missing")
		t.Fatalf("INCONCLUSIVE: %s missing (VERIF_BIN not set by the driver?)", raceBin())
	}
}

func checkRace(t ev.TB, cases []work.ConcCase, n int) {
	for _, c := range cases {
		ev.Eval()
		ev.Label("kind=" + c.Kind)
		if conflicting(c) {
			ev.Label("conflicting-clients")
			b, _ := json.Marshal(c)
			ev.NonTrivial("race/" + string(b))
		}
	}
	ev.Add("race_executions", int64(n*len(cases)))
	bad, msg, infra := runRace(cases, n)
	if infra != "" {
		ev.Inconclusive(infra)
		return
	}
	if msg != "" {
		ev.Failf(t, "TestRace", cases[bad], "%s", msg)
	}
}

func TestRace(t *testing.T) {
	needRaceBin(t)
	batch := ev.EnvInt("VERIF_BATCH", 8)
	rapid.Check(t, func(t *rapid.T) {
		var cases []work.ConcCase
		for i := 0; i < batch; i++ {
			if rapid.IntRange(0, 3).Draw(t, "kind") == 0 {
				cases = append(cases, genFile(t))
			} else {
				cases = append(cases, genMem(t))
			}
		}
		checkRace(t, cases, ev.EnvInt("VERIF_RACE_REPS", 3))
	})
}

func TestReplay(t *testing.T) {
	p := ev.ReplayPath()
	if p == "" {
		t.Skip("no replay")
	}
	r, err := ev.LoadReplay(p)
	if err != nil {
		t.Fatal(err)
	}
	var c work.ConcCase
	if err := json.Unmarshal(r.Case, &c); err != nil {
		t.Fatal(err)
	}
	if err := c.Validate(); err != nil {
		t.Fatal(err)
	}
	// schedule-dependent: re-run the same operation lists many times
	switch r.Test {
	case "TestRace":
		needRaceBin(t)
		checkRace(t, []work.ConcCase{c}, 200)
	case "TestFileOrdering":
		checkInProcess(t, "TestFileOrdering", c, 300)
	default:
		checkInProcess(t, "TestMemLinearizable", c, 2000)
	}
}
