package c05

import (
	"strings"
	"testing"
	"unicode/utf8"
)

// FuzzHostileText is the coverage-guided counterpart of TestHostileText: the
// fuzzer chooses one or two sinks and fills them with arbitrary text (any valid
// UTF-8 without NUL / BOM, i.e. anything a Go source file may contain in a
// comment or an interpreted string literal), not only concatenations of the
// hostile alphabet. Same oracle (runHostile).
func FuzzHostileText(f *testing.F) {
	for i := range sinkKinds {
		f.Add(uint8(i), uint8(i+5), "(*", "x")
		f.Add(uint8(i), uint8(i), "a \" b", "*)")
		f.Add(uint8(i), uint8(i+1), "Definition evil: val := #().\n", "\"\"")
		f.Add(uint8(i), uint8(i+3), "é\\", "λ: (* \" *)")
	}
	f.Fuzz(func(t *testing.T, k1, k2 uint8, t1, t2 string) {
		for _, s := range []string{t1, t2} {
			if !utf8.ValidString(s) || strings.ContainsRune(s, 0) || strings.ContainsRune(s, '\uFEFF') || len(s) > 200 {
				t.Skip()
			}
		}
		c := HostileCase{Sinks: map[string]string{}}
		for _, k := range sinkKinds {
			c.Sinks[k] = "x"
		}
		classes := map[string][]string{}
		for i, k := range []uint8{k1, k2} {
			kind := sinkKinds[int(k)%len(sinkKinds)]
			txt := sanitize(kind, []string{t1, t2}[i])
			c.Sinks[kind] = txt
			classes[kind] = textClasses(txt)
		}
		checkHostile(t, c, classes)
	})
}

// textClasses classifies free text by the hostile token classes it contains.
func textClasses(s string) []string {
	var out []string
	add := func(c string) { out = append(out, c) }
	if strings.Contains(s, "(*") || strings.Contains(s, "*)") {
		add("comment-delim")
	}
	if strings.Contains(s, "\"") {
		add("quote")
	}
	if strings.ContainsAny(s, "\n\r") {
		add("newline")
	}
	if strings.ContainsAny(s, "\\`'\t") {
		add("escape")
	}
	for _, r := range s {
		if r >= 0x80 {
			add("non-ascii")
			break
		}
	}
	if strings.Contains(s, "%") {
		add("format")
	}
	if len(out) == 0 {
		add("plain")
	}
	return out
}
