package c05

import (
	"fmt"
	"go/ast"
	"go/parser"
	"go/token"
	"strings"
	"testing"

	goose "github.com/goose-lang/goose"
	"pgregory.net/rapid"

	"verifharness/ev"
	"verifharness/gen"
	"verifharness/vread"
)

// (c) expression nesting: the nesting read from the emitted text with Coq's
// precedences must be the nesting of the Go source.

type ExprCase struct {
	Src string `json:"src"`
}

type enode struct {
	op   string // binary/unary operator, "var", "lit", "conv", "call", "len"
	text string
	kids []*enode
	ty   string // "u64" "u32" "bool" "str"
}

var goPrec = map[string]int{"*": 5, "/": 5, "%": 5, "<<": 5, ">>": 5, "&": 5, "+": 4, "-": 4, "|": 4, "^": 4,
	"==": 3, "!=": 3, "<": 3, "<=": 3, ">": 3, ">=": 3, "&&": 2, "||": 1}

type egen struct {
	t      *rapid.T
	precs  map[int]bool
	maxDep int
}

func (g *egen) pick(label string, n int) int { return gen.Uniform(g.t, label, n) }

var vars = map[string][]string{"u64": {"a", "b", "c"}, "u32": {"k", "m"}, "bool": {"p", "q"}, "str": {"s", "t"}}

// gen builds an expression of type ty; mustVar forces a variable into it
// (so that it is not a constant expression).
func (g *egen) gen(ty string, depth int, mustVar bool) *enode {
	if depth <= 0 {
		if mustVar || g.pick("leafvar", 3) > 0 {
			vs := vars[ty]
			return &enode{op: "var", text: vs[g.pick("var", len(vs))], ty: ty}
		}
		switch ty {
		case "u64", "u32":
			return &enode{op: "lit", text: fmt.Sprint([]int{1, 2, 3, 7, 255, 65536}[g.pick("lit", 6)]), ty: ty}
		case "bool":
			return &enode{op: "lit", text: []string{"true", "false"}[g.pick("blit", 2)], ty: ty}
		default:
			return &enode{op: "lit", text: []string{`"x"`, `"ab"`, `""`}[g.pick("slit", 3)], ty: ty}
		}
	}
	switch ty {
	case "u64", "u32":
		switch g.pick("intform", 10) {
		case 0, 1, 2, 3, 4, 5:
			ops := []string{"+", "-", "*", "/", "%", "&", "|", "^", "<<", ">>"}
			op := ops[g.pick("arith", len(ops))]
			l := g.gen(ty, depth-1-g.pick("ldrop", 2), true)
			rty := ty
			if op == "<<" || op == ">>" {
				rty = []string{"u64", "u32"}[g.pick("shiftty", 2)]
			}
			r := g.gen(rty, depth-1-g.pick("rdrop", 2), false)
			if (op == "/" || op == "%") && r.op == "lit" {
				r.text = "3"
			}
			g.precs[goPrec[op]] = true
			return &enode{op: op, kids: []*enode{l, r}, ty: ty}
		case 6:
			return &enode{op: "^u", kids: []*enode{g.gen(ty, depth-1, true)}, ty: ty}
		case 7:
			from := "u32"
			if ty == "u32" {
				from = "u64"
			}
			return &enode{op: "conv", text: map[string]string{"u64": "uint64", "u32": "uint32"}[ty], kids: []*enode{g.gen(from, depth-1, true)}, ty: ty}
		case 8:
			if ty == "u64" {
				return &enode{op: "len", kids: []*enode{g.gen("str", depth-1, true)}, ty: ty}
			}
		case 9:
			if ty == "u64" {
				return &enode{op: "call", text: "add3", kids: []*enode{g.gen("u64", depth-1, false), g.gen("u64", depth-1, true), g.gen("bool", depth-1, false)}, ty: ty}
			}
		}
		return g.gen(ty, depth-1, mustVar)
	case "bool":
		switch g.pick("boolform", 8) {
		case 0, 1, 2:
			ops := []string{"==", "!=", "<", "<=", ">", ">="}
			op := ops[g.pick("cmp", len(ops))]
			ity := []string{"u64", "u32"}[g.pick("cmpty", 2)]
			g.precs[3] = true
			return &enode{op: op, kids: []*enode{g.gen(ity, depth-1, true), g.gen(ity, depth-1, false)}, ty: ty}
		case 3:
			op := []string{"==", "!="}[g.pick("seq", 2)]
			g.precs[3] = true
			return &enode{op: op, kids: []*enode{g.gen("str", depth-1, true), g.gen("str", depth-1, false)}, ty: ty}
		case 4, 5:
			op := []string{"&&", "||"}[g.pick("logic", 2)]
			g.precs[goPrec[op]] = true
			return &enode{op: op, kids: []*enode{g.gen("bool", depth-1, true), g.gen("bool", depth-1, false)}, ty: ty}
		case 6:
			return &enode{op: "!", kids: []*enode{g.gen("bool", depth-1, true)}, ty: ty}
		case 7:
			op := []string{"==", "!="}[g.pick("beq", 2)]
			g.precs[3] = true
			return &enode{op: op, kids: []*enode{g.gen("bool", depth-1, true), g.gen("bool", depth-1, false)}, ty: ty}
		}
	case "str":
		if g.pick("strform", 3) > 0 {
			g.precs[4] = true
			return &enode{op: "+", kids: []*enode{g.gen("str", depth-1, true), g.gen("str", depth-1, false)}, ty: ty}
		}
	}
	return g.gen(ty, 0, mustVar)
}

func (g *egen) render(n *enode, parentPrec int, right bool) string {
	var s string
	prec := 7
	switch n.op {
	case "var", "lit":
		s = n.text
	case "^u":
		s = "^" + g.render(n.kids[0], 6, false)
		prec = 6
	case "!":
		s = "!" + g.render(n.kids[0], 6, false)
		prec = 6
	case "conv":
		s = n.text + "(" + g.render(n.kids[0], 0, false) + ")"
	case "len":
		s = "uint64(len(" + g.render(n.kids[0], 0, false) + "))"
	case "call":
		var as []string
		for _, k := range n.kids {
			as = append(as, g.render(k, 0, false))
		}
		s = n.text + "(" + strings.Join(as, ", ") + ")"
	default:
		prec = goPrec[n.op]
		s = g.render(n.kids[0], prec, false) + " " + n.op + " " + g.render(n.kids[1], prec, true)
	}
	if prec < parentPrec || (prec == parentPrec && right && prec <= 5) || g.pick("redundant", 6) == 0 {
		return "(" + s + ")"
	}
	return s
}

var coqOp = map[string]string{"+": "+", "-": "-", "*": "*", "/": "`quot`", "%": "`rem`", "&": "`and`", "|": "`or`", "^": "`xor`", "<<": "≪", ">>": "≫",
	"==": "=", "!=": "≠", "<": "<", "<=": "≤", ">": ">", ">=": "≥", "&&": "&&", "||": "||"}

// goSkeleton renders the nesting of a Go expression.
func goSkeleton(e ast.Expr) string {
	switch e := e.(type) {
	case *ast.ParenExpr:
		return goSkeleton(e.X)
	case *ast.BinaryExpr:
		return "(" + coqOp[e.Op.String()] + " " + goSkeleton(e.X) + " " + goSkeleton(e.Y) + ")"
	case *ast.UnaryExpr:
		return "(~ " + goSkeleton(e.X) + ")"
	case *ast.Ident:
		if e.Name == "true" || e.Name == "false" {
			return "#" + e.Name
		}
		return e.Name
	case *ast.BasicLit:
		if e.Kind == token.STRING {
			return "str" + e.Value
		}
		return "#" + e.Value
	case *ast.CallExpr:
		fn := e.Fun.(*ast.Ident).Name
		switch fn {
		case "uint64", "uint32":
			// uint64(len(s)) is a same-width conversion of StringLength
			if inner, ok := e.Args[0].(*ast.CallExpr); ok {
				if id, ok := inner.Fun.(*ast.Ident); ok && id.Name == "len" {
					return "(StringLength " + goSkeleton(inner.Args[0]) + ")"
				}
			}
			return "(to_u" + fn[4:] + " " + goSkeleton(e.Args[0]) + ")"
		}
		var as []string
		for _, a := range e.Args {
			as = append(as, goSkeleton(a))
		}
		return "(call " + fn + " " + strings.Join(as, " ") + ")"
	}
	return fmt.Sprintf("<?%T>", e)
}

func coqSkeleton(e vread.Expr) string {
	switch e := e.(type) {
	case vread.Paren:
		return coqSkeleton(e.X)
	case vread.Bin:
		return "(" + e.Op + " " + coqSkeleton(e.X) + " " + coqSkeleton(e.Y) + ")"
	case vread.Not:
		return "(~ " + coqSkeleton(e.X) + ")"
	case vread.Str:
		return e.S
	case vread.Lit:
		switch e.Kind {
		case "u64", "u32", "u8":
			return fmt.Sprintf("#%d", e.N)
		case "bool":
			return fmt.Sprintf("#%v", e.B)
		case "str":
			return fmt.Sprintf("str%q", e.S)
		}
	case vread.App:
		fn, ok := vread.Strip(e.Fn).(vread.Gid)
		if !ok {
			return "<app of non-identifier>"
		}
		var as []string
		for _, a := range e.Args {
			as = append(as, coqSkeleton(a))
		}
		switch fn.Name {
		case "to_u64", "to_u32", "to_u8", "StringLength":
			return "(" + fn.Name + " " + strings.Join(as, " ") + ")"
		}
		return "(call " + fn.Name + " " + strings.Join(as, " ") + ")"
	}
	return fmt.Sprintf("<?%s>", vread.Sexp(e))
}

func exprProgram(retTy, expr string) string {
	gt := map[string]string{"u64": "uint64", "u32": "uint32", "bool": "bool", "str": "string"}[retTy]
	return "package main\n\nfunc add3(x uint64, y uint64, z bool) uint64 {\n\treturn x + y\n}\n\n" +
		"func f(a uint64, b uint64, c uint64, k uint32, m uint32, p bool, q bool, s string, t string) " + gt + " {\n\treturn " + expr + "\n}\n"
}

func runExpr(c ExprCase) (string, bool) {
	fset := token.NewFileSet()
	af, err := parser.ParseFile(fset, "prog.go", c.Src, 0)
	if err != nil {
		return "", false
	}
	var ret ast.Expr
	for _, d := range af.Decls {
		if fd, ok := d.(*ast.FuncDecl); ok && fd.Name.Name == "f" {
			ret = fd.Body.List[0].(*ast.ReturnStmt).Results[0]
		}
	}
	tr, err := translate(c.Src, goose.TranslationConfig{})
	if err != nil {
		return "", false
	}
	if tr.Panic != nil {
		return fmt.Sprintf("goose panicked: %v", tr.Panic), true
	}
	if len(tr.Errs) > 0 {
		return fmt.Sprintf("goose rejected a pure expression function: %v", tr.Errs[0]), true
	}
	vf, err := vread.ParseFile(tr.Text)
	if err != nil {
		return fmt.Sprintf("emitted text is not well-formed: %v\n%s", err, tr.Text), true
	}
	d := vf.Def("f")
	if d == nil {
		return "definition f missing", true
	}
	rec, ok := vread.Strip(d.Body).(vread.Rec)
	if !ok {
		return "f is not a rec:", true
	}
	want, got := goSkeleton(ret), coqSkeleton(rec.Body)
	if want != got {
		return fmt.Sprintf("nesting differs:\n Go source : %s\n emitted   : %s\n--- Go ---\n%s\n--- emitted ---\n%s", want, got, c.Src, d.Raw), true
	}
	return "", true
}

func TestExprNesting(t *testing.T) {
	rapid.Check(t, func(t *rapid.T) {
		g := &egen{t: t, precs: map[int]bool{}}
		ty := []string{"u64", "u64", "u32", "bool", "bool", "str"}[g.pick("rootty", 6)]
		depth := 1 + g.pick("depth", 6)
		root := g.gen(ty, depth, true)
		c := ExprCase{Src: exprProgram(ty, g.render(root, 0, false))}
		ev.Eval()
		msg, ok := runExpr(c)
		if !ok {
			ev.Inconclusive("expr: program does not type-check")
			ev.Note("expr program unusable: %s", c.Src)
			return
		}
		ev.Label(fmt.Sprintf("expr:depth%d", depth))
		if depth >= 3 && len(g.precs) >= 2 {
			ev.NonTrivial("expr|" + c.Src)
			ev.Sample(map[string]any{"kind": "expr", "src": c.Src})
		}
		if msg != "" {
			ev.Failf(t, "TestExprNesting", c, "%s", msg)
		}
	})
}
