package c05

// (g) hostile position file names. With -source-comments goose prints "go: <file>:<line>:<col>"
// into the output; the file name comes from the position, which a //line directive (or a hostile
// directory name) sets to arbitrary text. That text must not be able to close the comment, open a
// string, or otherwise change which definitions Coq sees (seeded change C05-9).

import (
	"encoding/json"
	"fmt"
	"strings"
	"testing"

	"github.com/goose-lang/goose"
	"pgregory.net/rapid"

	"verifharness/ev"
	"verifharness/gen"
)

type LineDirCase struct {
	Names []string `json:"names"` // file names of the //line directives before the three declarations
}

func renderLineDir(c LineDirCase) string {
	dir := func(i int) string {
		if i >= len(c.Names) || c.Names[i] == "" {
			return ""
		}
		n := strings.NewReplacer("\n", " ", "\r", " ").Replace(c.Names[i])
		return "//line " + n + ".go:" + fmt.Sprint(100+10*i) + "\n"
	}
	var sb strings.Builder
	sb.WriteString("package main\n\n")
	sb.WriteString(dir(0) + "type Pair struct {\n\ta uint64\n\tb uint64\n}\n\n")
	sb.WriteString(dir(1) + "func first(p Pair) uint64 {\n\treturn p.a\n}\n\n")
	sb.WriteString(dir(2) + "func sum(p Pair) uint64 {\n\treturn first(p) + p.b\n}\n")
	return sb.String()
}

func runLineDir(c LineDirCase) (string, bool) {
	base, err := translate(renderLineDir(LineDirCase{}), goose.TranslationConfig{})
	if err != nil || base.Panic != nil || len(base.Errs) > 0 {
		return "", false
	}
	want, wantOrder, err := defsText(base.Text)
	if err != nil {
		return "", false
	}
	src := renderLineDir(c)
	for _, on := range []bool{true, false} {
		tr, err := translate(src, goose.TranslationConfig{AddSourceFileComments: on})
		if err != nil {
			return "", false // the directive made the source unparsable: generator problem
		}
		if tr.Panic != nil {
			return fmt.Sprintf("goose panicked: %v", tr.Panic), true
		}
		if len(tr.Errs) > 0 {
			return fmt.Sprintf("goose rejects the program because of its //line directives (source comments %v): %v", on, tr.Errs[0]), true
		}
		got, order, err := defsText(tr.Text)
		if err != nil {
			return fmt.Sprintf("source comments %v: emitted text is not well-formed: %v\n--- Go source ---\n%s\n--- emitted ---\n%s", on, err, src, tr.Text), true
		}
		if strings.Join(order, " ") != strings.Join(wantOrder, " ") {
			return fmt.Sprintf("source comments %v: definitions seen by Coq changed: got %v, want %v\n--- Go source ---\n%s\n--- emitted ---\n%s", on, order, wantOrder, src, tr.Text), true
		}
		for _, n := range wantOrder {
			if got[n] != want[n] {
				return fmt.Sprintf("source comments %v: body of %s changed:\n got  %s\n want %s\n--- Go source ---\n%s\n--- emitted ---\n%s", on, n, got[n], want[n], src, tr.Text), true
			}
		}
	}
	return "", true
}

func TestHostileLineDirective(t *testing.T) {
	ev.Pinned(t, "C05", "TestHostileLineDirective", func(raw json.RawMessage) string {
		var c LineDirCase
		if json.Unmarshal(raw, &c) != nil {
			return ""
		}
		m, _ := runLineDir(c)
		return m
	})
	rapid.Check(t, func(t *rapid.T) {
		c := LineDirCase{Names: make([]string, 3)}
		var classes []string
		n := 0
		for i := range c.Names {
			if gen.Chance(t, "hasdir", 60) {
				txt, cl := genHostileText(t, "name")
				c.Names[i] = txt
				classes = append(classes, cl...)
				n++
			}
		}
		ev.Eval()
		msg, ok := runLineDir(c)
		if !ok {
			ev.Inconclusive("linedir: program unusable")
			return
		}
		if n > 0 {
			ev.Label("linedir:hostile-position-file-name")
			for _, cl := range classes {
				ev.Label("linedir:" + cl)
			}
			ev.NonTrivial(fmt.Sprintf("linedir|%v", c.Names))
			ev.Sample(map[string]any{"kind": "linedir", "case": c})
		}
		if msg != "" {
			ev.Failf(t, "TestHostileLineDirective", c, "%s", msg)
		}
	})
}
