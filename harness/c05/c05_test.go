// Package c05: the emitted file is well-formed and source text cannot alter
// its structure (DESIGN.md §3 C05).
package c05

import (
	"bytes"
	"encoding/json"
	"fmt"
	"go/ast"
	"go/importer"
	"go/parser"
	"go/printer"
	"go/token"
	"go/types"
	"sort"
	"strconv"
	"strings"
	"sync"
	"testing"

	goose "github.com/goose-lang/goose"
	"pgregory.net/rapid"

	"verifharness/ev"
	"verifharness/gen"
	"verifharness/tv"
	"verifharness/vread"
)

func TestMain(m *testing.M) {
	ev.Meta("exploration",
		"(hostile) a fixed program skeleton whose comment / string-literal / log-call / panic-message sinks are filled with generated text over a hostile alphabet ((*, *), quotes, newlines, Coq vernacular, non-ASCII); oracle: output parses with harness/vread, the (kind, name) sequence of definitions, the number of comments and every body (string literals abstracted) equal those of the same program with neutral text, and every emitted string literal is byte-for-byte the Go value; "+
			"(expr) pure-expression functions with generated operator nestings: the operator/call skeleton read from the emitted text with Coq precedences equals the skeleton of the Go AST; "+
			"(flags) all 8 combinations of -typecheck/-source-comments/-skip-interfaces leave every definition unchanged; "+
			"non-trivial = at least one hostile token in a sink that reaches the output / expression of depth >= 3 with >= 2 precedence levels / program with >= 3 definitions; distinct by (sink kind, token class set) resp. skeleton hash resp. source hash",
		"well-formedness is judged by harness/vread (Coq lexical rules for comments and strings, Perennial notation precedences), not by Coq itself")
	ev.Main(m, "C05")
}

// ---------------------------------------------------------------------
// (b) hostile text

// Sink kinds, in the order they appear in the skeleton.
var sinkKinds = []string{"pkgdoc", "typedoc", "constcomment", "funcdoc", "logprintln", "logprintf", "fmtprintln", "strlit", "panicmsg", "strlit2", "funcdoc2", "blockdoc", "strlit3", "strlit4", "strlit5", "panicconcat", "constmsg"}

// HostileCase is one generated case.
type HostileCase struct {
	Sinks map[string]string `json:"sinks"` // sink kind -> text
}

var alphabet = []string{
	"(*", "*)", "(*)", "(**)", "*)(*", "( *", "* )", "\"", "\"\"", "\"\"\"", "'", "`", "\\", "\\\"", "\\n", "%s", "%d", "%!", "%v",
	"\n", "\r", "\t", "(", ")", "*", "((", "))", "**", ".", ". ", ".\n", "é", "日本", "😀", "λ:", "#", "#(", "[", "]", "{", "}", ";;", ":=",
	"Definition evil: val := #().", "End code.", "Qed.", "Proof.", "Abort.", "Admitted.", " in ", "let:", "x", "hello world", " ", "  ",
}

func classOf(tok string) string {
	switch {
	case strings.Contains(tok, "(*") || strings.Contains(tok, "*)"):
		return "comment-delim"
	case strings.Contains(tok, "\""):
		return "quote"
	case tok == "\n" || tok == "\r" || tok == ".\n":
		return "newline"
	case strings.Contains(tok, "Definition") || strings.Contains(tok, "End code") || strings.Contains(tok, "Qed") || strings.Contains(tok, "Proof") || strings.Contains(tok, "Abort") || strings.Contains(tok, "Admitted"):
		return "vernacular"
	case tok == "\\" || tok == "\\n" || tok == "`" || tok == "'" || tok == "\t":
		return "escape"
	case tok == "é" || tok == "日本" || tok == "😀" || tok == "λ:":
		return "non-ascii"
	case strings.HasPrefix(tok, "%"):
		return "format"
	case tok == "x" || tok == "hello world" || tok == " " || tok == "  ":
		return "plain"
	}
	return "punct"
}

func genHostileText(t *rapid.T, label string) (string, []string) {
	n := gen.Range(t, label+".n", 1, 4)
	var sb strings.Builder
	var classes []string
	for i := 0; i < n; i++ {
		tok := alphabet[gen.Uniform(t, label+".tok", len(alphabet))]
		sb.WriteString(tok)
		classes = append(classes, classOf(tok))
	}
	return sb.String(), classes
}

// switches for known findings (on = the generator avoids the trigger)
var (
	swQuoteInComment  = "c05NoOddQuotesInComments" // T15
	swNewlineInString = "c05NoNewlineInStringLit"  // T10
	swQuoteInPanic    = "c05NoQuoteInPanicMsg"
	swBackslashString = "c05NoBackslashAtStringEnd"
)

func sanitize(kind, s string) string {
	isComment := kind == "pkgdoc" || kind == "typedoc" || kind == "constcomment" || kind == "funcdoc" || kind == "funcdoc2" || kind == "blockdoc" ||
		kind == "logprintln" || kind == "logprintf" || kind == "fmtprintln"
	if isComment && ev.SwitchOn(swQuoteInComment) && strings.Contains(s, "\"") {
		ev.Prune(swQuoteInComment)
		s = strings.ReplaceAll(s, "\"", "q")
	}
	if strings.HasPrefix(kind, "strlit") && ev.SwitchOn(swNewlineInString) && strings.ContainsAny(s, "\n\r") {
		ev.Prune(swNewlineInString)
		s = strings.NewReplacer("\n", "n", "\r", "r").Replace(s)
	}
	if kind == "panicmsg" && ev.SwitchOn(swQuoteInPanic) && strings.Contains(s, "\"") {
		ev.Prune(swQuoteInPanic)
		s = strings.ReplaceAll(s, "\"", "q")
	}
	return s
}

// lineComment renders text as // comments (newlines start new comment lines).
func lineComment(text string) string {
	text = strings.ReplaceAll(text, "\r", " ")
	lines := strings.Split(text, "\n")
	for i := range lines {
		lines[i] = "// " + lines[i]
	}
	return strings.Join(lines, "\n")
}

// blockComment renders text as a /* */ comment (the only thing it cannot contain is */).
func blockComment(text string) string {
	return "/* " + strings.ReplaceAll(text, "*/", "* /") + " */"
}

func goString(s string) string {
	if !strings.ContainsAny(s, "`\r") && len(s)%2 == 0 {
		return "`" + s + "`"
	}
	return strconv.Quote(s)
}

// render builds the program for a sink assignment.
func render(sinks map[string]string) string {
	g := func(k string) string { return sinks[k] }
	trail := strings.NewReplacer("\n", " ", "\r", " ").Replace(g("constcomment"))
	var sb strings.Builder
	sb.WriteString(lineComment(g("pkgdoc")) + "\npackage main\n\nimport (\n\t\"fmt\"\n\t\"log\"\n)\n\n")
	sb.WriteString(lineComment(g("typedoc")) + "\ntype S struct {\n\ta uint64\n}\n\n")
	sb.WriteString("const c uint64 = 5 // " + trail + "\n\n")
	sb.WriteString(lineComment(g("funcdoc")) + "\nfunc f(x uint64) string {\n")
	sb.WriteString("\tlog.Println(" + goString(g("logprintln")) + ", x)\n")
	sb.WriteString("\tlog.Printf(" + goString(g("logprintf")) + ", x)\n")
	sb.WriteString("\tfmt.Println(" + goString(g("fmtprintln")) + ")\n")
	sb.WriteString("\tif x == 0 {\n\t\tpanic(" + goString(g("panicmsg")) + ")\n\t}\n")
	sb.WriteString("\ty := " + goString(g("strlit")) + "\n")
	sb.WriteString("\treturn y + " + goString(g("strlit2")) + "\n}\n\n")
	sb.WriteString(lineComment(g("funcdoc2")) + "\nfunc g(s S) uint64 {\n\treturn s.a + c\n}\n\n")
	sb.WriteString(blockComment(g("blockdoc")) + "\nfunc h() uint64 {\n\treturn g(S{a: 1})\n}\n\n")
	// string literals in other printing contexts: a one-line if branch, call arguments
	sb.WriteString("func pick(a string, b string) string {\n\treturn a + b\n}\n\n")
	sb.WriteString("func k(b bool) string {\n\tif b {\n\t\treturn " + goString(g("strlit3")) + "\n\t}\n")
	sb.WriteString("\treturn pick(" + goString(g("strlit4")) + ", " + goString(g("strlit5")) + ")\n}\n")
	// panic messages that are constant EXPRESSIONS rather than one literal (a concatenation, a named
	// constant), and the string constant itself (seeded change C05-12)
	sb.WriteString("\nconst pmsg = " + goString(g("constmsg")) + "\n\n")
	sb.WriteString("func pn(b bool) {\n\tif b {\n\t\tpanic(\"pn: \" + " + goString(g("panicconcat")) + ")\n\t}\n}\n\n")
	sb.WriteString("func pc(b bool) {\n\tif b {\n\t\tpanic(pmsg)\n\t}\n}\n")
	return sb.String()
}

type shape struct {
	defs     []string // kind:name
	bodies   map[string]string
	strs     map[string][]string // string literals per definition, in order
	panics   map[string][]string // Panic messages per definition, in order
	comments int
}

func shapeOf(text string) (*shape, error) {
	f, err := vread.ParseFile(text)
	if err != nil {
		return nil, err
	}
	sh := &shape{bodies: map[string]string{}, strs: map[string][]string{}, panics: map[string][]string{}, comments: len(f.Comments)}
	for _, d := range f.Defs() {
		sh.defs = append(sh.defs, d.DefKind+":"+d.Name)
		var lits []string
		vread.Walk(d.Body, func(e vread.Expr) bool {
			if l, ok := e.(vread.Lit); ok && l.Kind == "str" {
				lits = append(lits, l.S)
			}
			if a, ok := e.(vread.App); ok && len(a.Args) == 1 {
				if g, ok := vread.Strip(a.Fn).(vread.Gid); ok && g.Name == "Panic" {
					if m, ok := vread.Strip(a.Args[0]).(vread.Str); ok {
						sh.panics[d.Name] = append(sh.panics[d.Name], m.S)
					}
				}
			}
			return true
		})
		sh.strs[d.Name] = lits
		sh.bodies[d.Name] = abstractStrings(d.Body)
	}
	return sh, nil
}

// abstractStrings renders a body with every string literal and every Panic
// message replaced by a placeholder.
func abstractStrings(e vread.Expr) string {
	s := vread.Sexp(mapExpr(e))
	return s
}

func mapExpr(e vread.Expr) vread.Expr {
	switch e := e.(type) {
	case vread.Lit:
		if e.Kind == "str" {
			return vread.Lit{Kind: "str", S: "§"}
		}
		return e
	case vread.Paren:
		return vread.Paren{X: mapExpr(e.X)}
	case vread.App:
		if g, ok := vread.Strip(e.Fn).(vread.Gid); ok && g.Name == "Panic" && len(e.Args) == 1 {
			if _, ok := vread.Strip(e.Args[0]).(vread.Str); ok {
				return vread.App{Fn: e.Fn, Args: []vread.Expr{vread.Str{S: "§"}}}
			}
		}
		args := make([]vread.Expr, len(e.Args))
		for i, a := range e.Args {
			args[i] = mapExpr(a)
		}
		return vread.App{Fn: mapExpr(e.Fn), Args: args}
	case vread.Bin:
		return vread.Bin{Op: e.Op, X: mapExpr(e.X), Y: mapExpr(e.Y)}
	case vread.Not:
		return vread.Not{X: mapExpr(e.X)}
	case vread.Load:
		return vread.Load{Ty: e.Ty, X: mapExpr(e.X)}
	case vread.Store:
		return vread.Store{Dst: mapExpr(e.Dst), Ty: e.Ty, Val: mapExpr(e.Val)}
	case vread.Let:
		return vread.Let{Names: e.Names, Bound: mapExpr(e.Bound), Body: mapExpr(e.Body)}
	case vread.Seq:
		return vread.Seq{A: mapExpr(e.A), B: mapExpr(e.B)}
	case vread.If:
		return vread.If{Cond: mapExpr(e.Cond), Then: mapExpr(e.Then), Else: mapExpr(e.Else)}
	case vread.Lam:
		return vread.Lam{Params: e.Params, Body: mapExpr(e.Body)}
	case vread.Rec:
		return vread.Rec{Name: e.Name, Params: e.Params, Body: mapExpr(e.Body)}
	case vread.Tuple:
		el := make([]vread.Expr, len(e.Elems))
		for i, a := range e.Elems {
			el[i] = mapExpr(a)
		}
		return vread.Tuple{Elems: el}
	case vread.For:
		return vread.For{Cond: mapExpr(e.Cond), Post: mapExpr(e.Post), Body: mapExpr(e.Body)}
	case vread.List:
		el := make([]vread.Expr, len(e.Elems))
		for i, a := range e.Elems {
			el[i] = mapExpr(a)
		}
		return vread.List{Elems: el}
	}
	return e
}

var importsOnce sync.Once

func translate(src string, cfg goose.TranslationConfig) (*tv.Translation, error) {
	// creates the scratch module that imports (github.com/goose-lang/goose/machine) are resolved
	// from; without it every generated program that imports machine was unusable when the test
	// binary runs outside the harness module (as it does under cmd/check)
	importsOnce.Do(func() {
		if _, err := tv.NewGoRunner(); err != nil {
			ev.Note("cannot create the scratch module for imports: %v", err)
		}
	})
	return tv.Translate("main", []tv.SourceFile{{Name: "prog.go", Src: src}}, cfg)
}

// runHostile returns "" if the property holds.
func runHostile(c HostileCase) (msg string, reached bool) {
	neutral := map[string]string{}
	for _, k := range sinkKinds {
		neutral[k] = "x"
	}
	hostSrc, neutSrc := render(c.Sinks), render(neutral)
	nt, err := translate(neutSrc, goose.TranslationConfig{})
	if err != nil || nt.Panic != nil || len(nt.Errs) > 0 {
		return "", false // skeleton itself unusable: harness problem, counted by caller
	}
	want, err := shapeOf(nt.Text)
	if err != nil {
		return "", false
	}
	ht, err := translate(hostSrc, goose.TranslationConfig{})
	if err != nil {
		// hostile text produced Go that does not type-check (generator bug)
		return "", false
	}
	if ht.Panic != nil {
		return fmt.Sprintf("goose panicked: %v", ht.Panic), true
	}
	// declarations goose rejected with a structured error are legitimately absent
	rejected := map[string]bool{}
	for _, e := range ht.Errs {
		ce, ok := e.(*goose.ConversionError)
		if !ok {
			return fmt.Sprintf("non-structured error %T: %v", e, e), true
		}
		// the rejected declaration is the function the error lies in (f or k hold rejectable text)
		name := ""
		for _, af := range ht.Files {
			for _, d := range af.Decls {
				if fd, ok := d.(*ast.FuncDecl); ok && fd.Pos() <= ce.Pos && ce.Pos < fd.End() {
					name = fd.Name.Name
				}
				if gd, ok := d.(*ast.GenDecl); ok && gd.Tok == token.CONST && gd.Pos() <= ce.Pos && ce.Pos < gd.End() {
					for _, sp := range gd.Specs {
						if vs, ok := sp.(*ast.ValueSpec); ok && len(vs.Names) == 1 && vs.Names[0].Name == "pmsg" {
							name = "pmsg"
						}
					}
				}
			}
		}
		if name == "" {
			return fmt.Sprintf("error outside every function of the skeleton: %v", ce), true
		}
		rejected[name] = true
	}
	got, err := shapeOf(ht.Text)
	if err != nil {
		return fmt.Sprintf("emitted text is not well-formed: %v\n--- Go source ---\n%s\n--- emitted ---\n%s", err, hostSrc, ht.Text), true
	}
	var wantDefs []string
	for _, d := range want.defs {
		name := d[strings.Index(d, ":")+1:]
		if !rejected[name] {
			wantDefs = append(wantDefs, d)
		}
	}
	if strings.Join(got.defs, " ") != strings.Join(wantDefs, " ") {
		return fmt.Sprintf("definitions seen by Coq changed: got %v, want %v\n--- Go source ---\n%s\n--- emitted ---\n%s", got.defs, wantDefs, hostSrc, ht.Text), true
	}
	for _, d := range wantDefs {
		name := d[strings.Index(d, ":")+1:]
		if got.bodies[name] != want.bodies[name] {
			return fmt.Sprintf("body of %s changed:\n got  %s\n want %s\n--- Go source ---\n%s\n--- emitted ---\n%s", name, got.bodies[name], want.bodies[name], hostSrc, ht.Text), true
		}
	}
	// A comment whose text is blank is (legitimately) not emitted at all; what counts as blank is
	// goose's business (go/ast strips some white space, goose trims other), so a sink holding only
	// white space may or may not produce a comment: both counts are accepted.
	maxComments := want.comments
	minComments := want.comments
	for _, k := range []string{"pkgdoc", "typedoc", "constcomment", "funcdoc", "funcdoc2", "blockdoc"} {
		switch {
		case c.Sinks[k] == "" || strings.Trim(c.Sinks[k], " \n") == "":
			maxComments--
			minComments--
		case strings.TrimSpace(c.Sinks[k]) == "":
			minComments--
		}
	}
	// (if f was rejected, its doc comment and its three logging comments vanish with it: no count check)
	if !rejected["f"] && (got.comments < minComments || got.comments > maxComments) {
		return fmt.Sprintf("number of comments changed: got %d, want %d..%d (text escaped a comment or merged two)\n--- Go source ---\n%s\n--- emitted ---\n%s", got.comments, minComments, maxComments, hostSrc, ht.Text), true
	}
	if !rejected["f"] {
		wantStrs := []string{c.Sinks["strlit"], c.Sinks["strlit2"]}
		if strings.Join(got.strs["f"], "\x00") != strings.Join(wantStrs, "\x00") {
			return fmt.Sprintf("string literals of f changed: got %q, want %q\n--- emitted ---\n%s", got.strs["f"], wantStrs, ht.Text), true
		}
		// (the text of a Panic message has no meaning in GooseLang; goose re-indents a message that
		// contains a newline, which changes no structure — not compared)
	}
	if !rejected["k"] {
		wantStrs := []string{c.Sinks["strlit3"], c.Sinks["strlit4"], c.Sinks["strlit5"]}
		if strings.Join(got.strs["k"], "\x00") != strings.Join(wantStrs, "\x00") {
			return fmt.Sprintf("string literals of k changed: got %q, want %q\n--- emitted ---\n%s", got.strs["k"], wantStrs, ht.Text), true
		}
	}
	return "", true
}

func checkHostile(t ev.TB, c HostileCase, classes map[string][]string) {
	ev.Eval()
	msg, reached := runHostile(c)
	if !reached {
		ev.Inconclusive("hostile skeleton unusable")
		return
	}
	var keys []string
	for k, cl := range classes {
		for _, x := range cl {
			if x != "plain" {
				keys = append(keys, k+"/"+x)
				ev.Label("hostile:" + k + "/" + x)
			}
		}
	}
	sort.Strings(keys)
	if len(keys) > 0 {
		ev.NonTrivial("hostile|" + strings.Join(keys, ","))
		ev.Sample(c)
	}
	if msg != "" {
		ev.Failf(t, "TestHostileText", c, "%s", msg)
	}
}

func TestHostileText(t *testing.T) {
	ev.Pinned(t, "C05", "TestHostileText", func(raw json.RawMessage) string {
		var c HostileCase
		if json.Unmarshal(raw, &c) != nil {
			return ""
		}
		m, _ := runHostile(c)
		return m
	})
	rapid.Check(t, func(t *rapid.T) {
		c := HostileCase{Sinks: map[string]string{}}
		classes := map[string][]string{}
		// 1–4 hostile sinks, the rest neutral
		for _, k := range sinkKinds {
			c.Sinks[k] = "x"
		}
		n := gen.Range(t, "nsinks", 1, 4)
		for i := 0; i < n; i++ {
			k := sinkKinds[gen.Uniform(t, "sink", len(sinkKinds))]
			txt, cl := genHostileText(t, "text")
			c.Sinks[k] = sanitize(k, txt)
			classes[k] = cl
		}
		checkHostile(t, c, classes)
	})
}

// ---------------------------------------------------------------------
// (d) flags

type FlagsCase struct {
	Src string `json:"src"`
}

func defsText(text string) (map[string]string, []string, error) {
	f, err := vread.ParseFile(text)
	if err != nil {
		return nil, nil, err
	}
	m := map[string]string{}
	var order []string
	for _, d := range f.Defs() {
		m[d.Name] = vread.Sexp(d.Body) + "|" + strings.Join(d.TypeParams, ",") + "|" + d.DefKind
		order = append(order, d.Name)
	}
	return m, order, nil
}

func runFlags(c FlagsCase) (string, bool) {
	var base map[string]string
	var baseOrder []string
	for mask := 0; mask < 8; mask++ {
		cfg := goose.TranslationConfig{TypeCheck: mask&1 != 0, AddSourceFileComments: mask&2 != 0, SkipInterfaces: mask&4 != 0}
		tr, err := translate(c.Src, cfg)
		if err != nil {
			ev.Note("flags: unusable (mask %d): %v", mask, err)
			return "", false
		}
		if tr.Panic != nil {
			return fmt.Sprintf("goose panicked with flags %+v: %v", cfg, tr.Panic), true
		}
		if len(tr.Errs) > 0 {
			ev.Note("flags: rejected (mask %d): %v", mask, tr.Errs[0])
			return "", false
		}
		m, order, err := defsText(tr.Text)
		if err != nil {
			return fmt.Sprintf("output with flags %+v is not well-formed: %v\n%s", cfg, err, tr.Text), true
		}
		if base == nil {
			base, baseOrder = m, order
			continue
		}
		if mask&4 == 0 {
			if strings.Join(order, " ") != strings.Join(baseOrder, " ") {
				return fmt.Sprintf("flags %+v change the definition list: %v vs %v", cfg, order, baseOrder), true
			}
		}
		for name, body := range m {
			if b0, ok := base[name]; ok && b0 != body {
				return fmt.Sprintf("flags %+v change the body of %s:\n %s\nvs\n %s", cfg, name, body, b0), true
			}
		}
		if mask&4 != 0 {
			// skipping interface helpers may only remove S__to__I definitions
			for name := range base {
				if _, ok := m[name]; !ok && !strings.Contains(name, "__to__") {
					return fmt.Sprintf("flags %+v drop definition %s", cfg, name), true
				}
			}
		}
	}
	return "", true
}

func TestFlags(t *testing.T) {
	rapid.Check(t, func(t *rapid.T) {
		cfg := gen.DefaultConfig()
		cfg.Entries, cfg.Helpers, cfg.MaxStmts = 2, 2, 4
		p := gen.Generate(t, cfg)
		// doc comments so that -source-comments has something to extend
		for i, f := range p.Funcs {
			if rapid.Bool().Draw(t, "doc") {
				f.Doc = fmt.Sprintf("doc of function %d\nsecond line", i)
			}
		}
		c := FlagsCase{Src: p.Source("main")}
		ev.Eval()
		msg, ok := runFlags(c)
		if !ok {
			ev.Inconclusive("flags: program unusable")
			return
		}
		if len(p.Funcs) >= 3 {
			ev.NonTrivial("flags|" + c.Src)
			if len(c.Src) < 3000 {
				ev.Sample(map[string]any{"kind": "flags", "src": c.Src})
			}
		}
		ev.Label("flags:programs")
		if msg != "" {
			ev.Failf(t, "TestFlags", c, "%s", msg)
		}
	})
}

// ---------------------------------------------------------------------
// replay

func TestReplay(t *testing.T) {
	p := ev.ReplayPath()
	if p == "" {
		t.Skip("no replay")
	}
	r, err := ev.LoadReplay(p)
	if err != nil {
		t.Fatal(err)
	}
	switch r.Test {
	case "TestHostileText":
		var c HostileCase
		if err := json.Unmarshal(r.Case, &c); err != nil {
			t.Fatal(err)
		}
		checkHostile(t, c, nil)
	case "TestFlags":
		var c FlagsCase
		if err := json.Unmarshal(r.Case, &c); err != nil {
			t.Fatal(err)
		}
		if msg, _ := runFlags(c); msg != "" {
			ev.Failf(t, "TestFlags", c, "%s", msg)
		}
	case "TestHostileLineDirective":
		var c LineDirCase
		if err := json.Unmarshal(r.Case, &c); err != nil {
			t.Fatal(err)
		}
		if msg, _ := runLineDir(c); msg != "" {
			ev.Failf(t, "TestHostileLineDirective", c, "%s", msg)
		}
	case "TestHostileNames":
		var c NamesCase
		if err := json.Unmarshal(r.Case, &c); err != nil {
			t.Fatal(err)
		}
		if msg, _ := runNames(c); msg != "" {
			ev.Failf(t, "TestHostileNames", c, "%s", msg)
		}
	case "TestScopes":
		var c ScopeCase
		if err := json.Unmarshal(r.Case, &c); err != nil {
			t.Fatal(err)
		}
		if msg, _ := runScopes(c); msg != "" {
			ev.Failf(t, "TestScopes", c, "%s", msg)
		}
	case "TestExprNesting":
		var c ExprCase
		if err := json.Unmarshal(r.Case, &c); err != nil {
			t.Fatal(err)
		}
		if msg, _ := runExpr(c); msg != "" {
			ev.Failf(t, "TestExprNesting", c, "%s", msg)
		}
	default:
		t.Fatalf("unknown test %q in replay", r.Test)
	}
}

// ---------------------------------------------------------------------
// (e) hostile identifiers: top-level Go names that are reserved words of Coq
// or of the GooseLang notations must not end up as definition names that
// Coq cannot read (the declaration may be rejected instead).

type NamesCase struct {
	Func  string `json:"func"`
	Type  string `json:"type"`
	Const string `json:"const"`
	Param string `json:"param"`
	Field string `json:"field"`
	Local string `json:"local"`
	// further declaration forms × the same names (seeded change C05-8: a newly accepted form that
	// bypasses the reserved-word guard); "" = the form is absent
	GlobalInit string `json:"global_init,omitempty"` // var X uint64 = 4
	GlobalZero string `json:"global_zero,omitempty"` // var X uint64
	GlobalPair string `json:"global_pair,omitempty"` // var X, X2 uint64
	Named      string `json:"named,omitempty"`       // type X uint64
	Alias      string `json:"alias,omitempty"`       // type X = []uint64
	Iface      string `json:"iface,omitempty"`       // type X interface{ … }
	Method     string `json:"method,omitempty"`      // func (r *Type) X() uint64
}

var hostileNames = []string{"as", "at", "by", "cofix", "end", "exists", "exists2", "fix", "forall", "fun", "IF", "in", "let", "match", "mod", "Prop", "Set", "then", "Type",
	"using", "where", "with", "SProp", "λ", "rec", "val", "expr", "ty", "Definition", "Theorem", "Axiom", "Fixpoint", "CoFixpoint", "Hypothesis", "Parameter", "Variable",
	"discriminated", "lazymatch", "multimatch", "End", "Section", "Qed", "Notation", "ok", "x"}

var swKeywordNames = "c05NoCoqKeywordNames"

func renderNames(c NamesCase) string {
	extra := ""
	if c.GlobalInit != "" {
		extra += fmt.Sprintf("\nvar %s uint64 = 4\n", c.GlobalInit)
	}
	if c.GlobalZero != "" {
		extra += fmt.Sprintf("\nvar %s uint64\n", c.GlobalZero)
	}
	if c.GlobalPair != "" {
		extra += fmt.Sprintf("\nvar %s, %s2 uint64\n", c.GlobalPair, c.GlobalPair)
	}
	if c.Named != "" {
		extra += fmt.Sprintf("\ntype %s uint64\n", c.Named)
	}
	if c.Alias != "" {
		extra += fmt.Sprintf("\ntype %s = []uint64\n", c.Alias)
	}
	if c.Iface != "" {
		extra += fmt.Sprintf("\ntype %s interface {\n\tim() uint64\n}\n", c.Iface)
	}
	if c.Method != "" {
		extra += fmt.Sprintf("\nfunc (r *%s) %s() uint64 {\n\treturn r.%s\n}\n", c.Type, c.Method, c.Field)
	}
	return renderNamesBase(c) + extra
}

func renderNamesBase(c NamesCase) string {
	return fmt.Sprintf("package main\n\ntype %s struct {\n\t%s uint64\n}\n\nconst %s uint64 = 3\n\nfunc %s(%s uint64) uint64 {\n\t%s := %s{%s: %s}\n\treturn %s.%s + %s\n}\n",
		c.Type, c.Field, c.Const, c.Func, c.Param, c.Local, c.Type, c.Field, c.Param, c.Local, c.Field, c.Const)
}

func runNames(c NamesCase) (string, bool) {
	src := renderNames(c)
	tr, err := translate(src, goose.TranslationConfig{})
	if err != nil {
		return "", false
	}
	if tr.Panic != nil {
		return fmt.Sprintf("goose panicked: %v", tr.Panic), true
	}
	rejected := len(tr.Errs)
	if rejected > 0 {
		// goose refused some declarations (a complete file is not produced). The declarations that
		// are still emitted may mention a refused one by its (reserved) name — they are dangling in
		// any case — so only the lexical structure and the definition names are checked here.
		toks, _, err := vread.Lex(tr.Text)
		if err != nil {
			return fmt.Sprintf("emitted text is not lexically well-formed: %v\n--- Go ---\n%s\n--- emitted ---\n%s", err, src, tr.Text), true
		}
		for i := 0; i+1 < len(toks); i++ {
			atStart := i == 0 || toks[i-1].Kind == vread.TDot
			if atStart && toks[i].Kind == vread.TIdent && (toks[i].Text == "Definition" || toks[i].Text == "Notation") && (toks[i+1].Kind != vread.TIdent || isReservedName(toks[i+1].Text)) {
				return fmt.Sprintf("a definition with the unreadable name %s is emitted\n--- Go ---\n%s\n--- emitted ---\n%s", toks[i+1], src, tr.Text), true
			}
		}
		return "", true
	}
	f, err := vread.ParseFile(tr.Text)
	if err != nil {
		return fmt.Sprintf("emitted text is not well-formed: %v\n--- Go ---\n%s\n--- emitted ---\n%s", err, src, tr.Text), true
	}
	var got []string
	for _, d := range f.Defs() {
		got = append(got, d.Name)
	}
	if rejected == 0 {
		want := []string{c.Type, c.Const, c.Func}
		for _, n := range []string{c.GlobalInit, c.Named, c.Alias, c.Iface} {
			if n != "" {
				want = append(want, n)
			}
		}
		if c.Method != "" {
			want = append(want, c.Type+"__"+c.Method)
		}
		sort.Strings(got)
		sort.Strings(want)
		if strings.Join(got, " ") != strings.Join(want, " ") {
			return fmt.Sprintf("definitions seen: %v, want %v\n%s", got, want, tr.Text), true
		}
	}
	return "", true
}

func TestHostileNames(t *testing.T) {
	ev.Pinned(t, "C05", "TestHostileNames", func(raw json.RawMessage) string {
		var c NamesCase
		if json.Unmarshal(raw, &c) != nil {
			return ""
		}
		m, _ := runNames(c)
		return m
	})
	rapid.Check(t, func(t *rapid.T) {
		names := rapid.Permutation(hostileNames).Draw(t, "names")
		c := NamesCase{Func: names[0], Type: names[1], Const: names[2], Param: names[3], Field: names[4], Local: names[5]}
		for i, p := range []*string{&c.GlobalInit, &c.GlobalZero, &c.GlobalPair, &c.Named, &c.Alias, &c.Iface, &c.Method} {
			if gen.Chance(t, "extraform", 35) {
				*p = names[6+i]
			}
		}
		if ev.SwitchOn(swKeywordNames) {
			// only positions that become Gallina identifiers matter: keep reserved words out of them
			k := 6
			for _, p := range []*string{&c.Func, &c.Type, &c.Const} {
				for isReservedName(*p) {
					ev.Prune(swKeywordNames)
					*p = names[k]
					k++
				}
			}
		}
		ev.Eval()
		msg, ok := runNames(c)
		if !ok {
			ev.Inconclusive("names: program does not type-check")
			ev.Note("names program unusable: %+v", c)
			return
		}
		ev.NonTrivial(fmt.Sprintf("names|%+v", c))
		ev.Sample(map[string]any{"kind": "names", "case": c})
		if msg != "" {
			ev.Failf(t, "TestHostileNames", c, "%s", msg)
		}
	})
}

func isReservedName(n string) bool {
	switch n {
	case "Axiom", "CoFixpoint", "Definition", "Fixpoint", "Hypothesis", "IF", "Parameter", "Prop", "SProp", "Set", "Theorem", "Type", "Variable", "as", "at", "by", "cofix",
		"discriminated", "end", "exists", "exists2", "fix", "forall", "fun", "in", "lazymatch", "let", "match", "mod", "multimatch", "then", "using", "where", "with", "λ", "rec":
		return true
	}
	return false
}

// ---------------------------------------------------------------------
// (f) block / let nesting: the binding structure of the emitted text (which
// binder every variable occurrence refers to under Coq's scoping) must not
// depend on the names of the Go variables. The same program is translated
// twice — as generated (with shadowing and bare blocks) and with every local
// variable renamed to a unique name — and the two binding structures must be
// identical. A `let:` that leaks out of a Go block captures a later use of a
// shadowed outer variable in the first version only.

type ScopeCase struct {
	Src string `json:"src"`
}

// bindingStructure lists, for every variable occurrence in a definition (in
// pre-order), the index of the binder it resolves to (-1 = free).
func bindingStructure(e vread.Expr) []int {
	var out []int
	nb := 0
	type env struct {
		name string
		id   int
		up   *env
	}
	var walk func(e vread.Expr, en *env)
	bind := func(en *env, names []string) *env {
		for _, n := range names {
			nb++
			if n != "" {
				en = &env{n, nb, en}
			}
		}
		return en
	}
	walk = func(e vread.Expr, en *env) {
		switch e := e.(type) {
		case vread.Str:
			id := -1
			for c := en; c != nil; c = c.up {
				if c.name == e.S {
					id = c.id
					break
				}
			}
			out = append(out, id)
		case vread.Paren:
			walk(e.X, en)
		case vread.Scoped:
			walk(e.X, en)
		case vread.App:
			// field names of struct operations and Panic messages are not variables
			if g, ok := vread.Strip(e.Fn).(vread.Gid); ok {
				switch g.Name {
				case "struct.get", "struct.loadF", "struct.storeF", "struct.fieldRef":
					for i, a := range e.Args {
						if i != 1 {
							walk(a, en)
						}
					}
					return
				case "Panic":
					return
				case "ForSlice":
					if len(e.Args) == 5 {
						walk(e.Args[3], en)
						var names []string
						for _, b := range e.Args[1:3] {
							if s, ok := vread.Strip(b).(vread.Str); ok {
								names = append(names, s.S)
							} else {
								names = append(names, "")
							}
						}
						walk(e.Args[4], bind(en, names))
						return
					}
				}
			}
			walk(e.Fn, en)
			for _, a := range e.Args {
				walk(a, en)
			}
		case vread.Bin:
			if e.Op == "::=" {
				walk(e.Y, en)
				return
			}
			walk(e.X, en)
			walk(e.Y, en)
		case vread.Not:
			walk(e.X, en)
		case vread.Load:
			walk(e.X, en)
		case vread.Store:
			walk(e.Dst, en)
			walk(e.Val, en)
		case vread.Let:
			walk(e.Bound, en)
			walk(e.Body, bind(en, e.Names))
		case vread.Seq:
			walk(e.A, en)
			walk(e.B, en)
		case vread.If:
			walk(e.Cond, en)
			walk(e.Then, en)
			walk(e.Else, en)
		case vread.Lam:
			walk(e.Body, bind(en, e.Params))
		case vread.Rec:
			walk(e.Body, bind(bind(en, []string{e.Name}), e.Params))
		case vread.Tuple:
			for _, x := range e.Elems {
				walk(x, en)
			}
		case vread.For:
			walk(e.Cond, en)
			walk(e.Post, en)
			walk(e.Body, en)
		case vread.List:
			for _, x := range e.Elems {
				walk(x, en)
			}
		}
	}
	walk(e, nil)
	return out
}

// renameLocals gives every local variable (declared inside a function body,
// parameters included) a unique name.
func renameLocals(src string) (string, error) {
	fset := token.NewFileSet()
	f, err := parser.ParseFile(fset, "prog.go", src, parser.ParseComments)
	if err != nil {
		return "", err
	}
	info := &types.Info{Defs: map[*ast.Ident]types.Object{}, Uses: map[*ast.Ident]types.Object{}}
	conf := types.Config{Importer: importer.ForCompiler(fset, "source", nil), Error: func(error) {}}
	pkg, _ := conf.Check("main", fset, []*ast.File{f}, info)
	if pkg == nil {
		return "", fmt.Errorf("type check failed")
	}
	names := map[types.Object]string{}
	n := 0
	rename := func(id *ast.Ident, obj types.Object) {
		v, ok := obj.(*types.Var)
		if !ok || v.IsField() || v.Parent() == nil || v.Parent() == pkg.Scope() || id.Name == "_" {
			return
		}
		if _, ok := names[obj]; !ok {
			n++
			names[obj] = fmt.Sprintf("%s_r%d", obj.Name(), n)
		}
		id.Name = names[obj]
	}
	for id, obj := range info.Defs {
		if obj != nil {
			rename(id, obj)
		}
	}
	for id, obj := range info.Uses {
		rename(id, obj)
	}
	var buf bytes.Buffer
	if err := printer.Fprint(&buf, fset, f); err != nil {
		return "", err
	}
	return buf.String(), nil
}

func runScopes(c ScopeCase) (string, bool) {
	renamed, err := renameLocals(c.Src)
	if err != nil {
		return "", false
	}
	t1, err := translate(c.Src, goose.TranslationConfig{})
	if err != nil || t1.Panic != nil || len(t1.Errs) > 0 {
		return "", false
	}
	t2, err := translate(renamed, goose.TranslationConfig{})
	if err != nil || t2.Panic != nil || len(t2.Errs) > 0 {
		return "", false
	}
	f1, err := vread.ParseFile(t1.Text)
	if err != nil {
		return "emitted text is not well-formed: " + err.Error(), true
	}
	f2, err := vread.ParseFile(t2.Text)
	if err != nil {
		return "", false
	}
	for _, d := range f1.Defs() {
		d2 := f2.Def(d.Name)
		if d2 == nil {
			return "", false
		}
		b1, b2 := bindingStructure(d.Body), bindingStructure(d2.Body)
		if fmt.Sprint(b1) != fmt.Sprint(b2) {
			k := 0
			for k < len(b1) && k < len(b2) && b1[k] == b2[k] {
				k++
			}
			return fmt.Sprintf("the binding structure of %s depends on the variable names: occurrence #%d resolves to binder %v in the original and to binder %v after renaming all locals apart (a let: escapes its block, or is captured)\n--- original Go ---\n%s\n--- emitted ---\n%s\n--- emitted after renaming ---\n%s",
				d.Name, k, at(b1, k), at(b2, k), c.Src, d.Raw, d2.Raw), true
		}
	}
	return "", true
}

func at(s []int, k int) any {
	if k < len(s) {
		return s[k]
	}
	return "none"
}

func TestScopes(t *testing.T) {
	rapid.Check(t, func(t *rapid.T) {
		cfg := gen.DefaultConfig()
		cfg.Entries, cfg.Helpers, cfg.MaxStmts = 2, 2, 5
		cfg.NoBareBlocks = ev.SwitchOn("c02BareBlockScope")
		cfg.NoLoopVarReuse = ev.SwitchOn("c02LoopVarScope")
		cfg.NoMachine = true
		p := gen.Generate(t, cfg)
		c := ScopeCase{Src: p.Source("main")}
		ev.Eval()
		msg, ok := runScopes(c)
		if !ok {
			ev.Inconclusive("scopes: program unusable")
			return
		}
		if p.Features["shadowing"] > 0 || p.Features["bare-block"] > 0 {
			ev.NonTrivial("scopes|" + c.Src)
			ev.Label("scopes:with-shadowing-or-bare-block")
		}
		if msg != "" {
			ev.Failf(t, "TestScopes", c, "%s", msg)
		}
	})
}
