// Package c04: every declaration is emitted once, uniquely named, and defined
// before use, whatever the order of declarations and files (DESIGN.md §3 C04).
package c04

import (
	"bytes"
	"encoding/json"
	"fmt"
	"os"
	"path/filepath"
	"regexp"
	"sort"
	"strconv"
	"strings"
	"testing"

	goose "github.com/goose-lang/goose"
	"pgregory.net/rapid"

	"verifharness/ev"
	"verifharness/gen"
	"verifharness/vread"
)

func TestMain(m *testing.M) {
	ev.Meta("exploration",
		"cases = a generated acyclic declaration graph (structs, named types, aliases, constants, globals, interfaces, functions, value/pointer methods, self-recursion) whose declarations reference each other in every way goose tracks (parameter/result/field/slice/map types, new, composite literals, loads and stores through pointers, field access, calls, method calls, constants in constants and bodies, struct-to-interface conversion), laid out in 6-8 random permutations split over 1-4 files with adversarial names, all translated through TranslatePackages (so the file sorting is included); "+
			"oracle per layout: defined names = expected names (S__to__I helpers allowed), pairwise distinct, every same-package identifier a definition mentions is defined earlier, self-calls use the quoted rec binder, and name->body is identical across layouts; "+
			"non-trivial layout = at least one dependant is textually before its dependency; distinct by (graph hash, layout)",
		"expected Coq names follow the documented scheme f / T__m / T / const name", "the reader harness/vread resolves free identifiers")
	ev.Main(m, "C04")
}

// Decl is one generated top-level declaration.
type Decl struct {
	Name string   `json:"name"` // expected Coq name
	Text string   `json:"text"`
	Deps []string `json:"deps"` // Coq names this declaration mentions (same package)
	Rec  bool     `json:"rec"`
	// Also: further names defined by the same Go declaration (a const ( … ) / var ( … ) group)
	Also []string `json:"also,omitempty"`
	// Rejected: a planted declaration outside the subset (channel type, float constant, channel send,
	// package-level var without value): goose must report exactly one error for it, emit nothing
	// under its name, and treat every OTHER declaration exactly as if it were not there
	// (seeded change C04-10: state of a rejected declaration leaking onto the next one)
	Rejected bool `json:"rejected,omitempty"`
}

// Layout is one arrangement: files (name -> ordered decl indexes).
type Layout struct {
	Files []LayoutFile `json:"files"`
}

type LayoutFile struct {
	Name  string `json:"name"`
	Decls []int  `json:"decls"`
}

// Case is a declaration graph with its layouts.
type Case struct {
	Decls   []Decl   `json:"decls"`
	Layouts []Layout `json:"layouts"`
}

// ---- generator ----

type dgen struct {
	t           *rapid.T
	decls       []Decl
	structs     []string            // struct names by rank order
	fields      map[string][]string // struct -> "name type"
	named       []string            // named scalar/slice types and aliases (usable as uint64-like: only scalar ones listed in scalarNamed)
	scalarNamed []string
	consts      []string // uint64 constants and globals
	trueConsts  []string
	funcs       []fnInfo
	methods     map[string][]fnInfo // struct -> methods
	ifaces      []ifaceInfo
	usersDone   map[string]bool
	generics    []string // generic functions gfN[TP any](x TP) TP
	nextFn      int      // index of the next function to be generated
}

type fnInfo struct {
	name   string // Go name
	coq    string
	params []string // Go types
	result string   // "" or uint64
	ptr    bool     // pointer receiver (methods)
}

type ifaceInfo struct {
	name   string
	method string
}

func (g *dgen) pick(label string, n int) int      { return gen.Uniform(g.t, label, n) }
func (g *dgen) chance(label string, pct int) bool { return gen.Chance(g.t, label, pct) }

func (g *dgen) add(d Decl) {
	// dedupe deps
	seen := map[string]bool{}
	var deps []string
	for _, x := range d.Deps {
		if !seen[x] && x != "" {
			seen[x] = true
			deps = append(deps, x)
		}
	}
	sort.Strings(deps)
	d.Deps = deps
	g.decls = append(g.decls, d)
}

// tyRef draws a type usable for fields/params and returns (Go type, Coq deps).
func (g *dgen) tyRef(label string, allowStructValue bool) (string, []string) {
	switch g.pick(label, 9) {
	case 0, 1:
		return "uint64", nil
	case 2:
		return "bool", nil
	case 3:
		if len(g.structs) > 0 && allowStructValue {
			s := g.structs[g.pick(label+".s", len(g.structs))]
			return s, []string{s}
		}
	case 4:
		if len(g.structs) > 0 {
			s := g.structs[g.pick(label+".ps", len(g.structs))]
			return "*" + s, nil // pointer: ptrT, no Coq dependency
		}
	case 5:
		if len(g.structs) > 0 {
			s := g.structs[g.pick(label+".sl", len(g.structs))]
			return "[]" + s, []string{s}
		}
		return "[]uint64", nil
	case 6:
		if len(g.structs) > 0 {
			s := g.structs[g.pick(label+".mp", len(g.structs))]
			return "map[uint64]" + s, []string{s}
		}
	case 7:
		if len(g.named) > 0 {
			n := g.named[g.pick(label+".n", len(g.named))]
			return n, []string{n}
		}
	case 8:
		return "string", nil
	}
	return "uint64", nil
}

func zeroOf(ty string) string {
	switch {
	case ty == "uint64":
		return "0"
	case ty == "bool":
		return "false"
	case ty == "string":
		return `""`
	}
	return ""
}

var swDerefOnly = "c04NoDerefOnlyDependency" // T13

func (g *dgen) genStruct(i int) {
	name := fmt.Sprintf("S%d", i)
	nf := 1 + g.pick("nf", 3)
	var lines, deps []string
	var flds []string
	for j := 0; j < nf; j++ {
		ty, d := g.tyRef("fty", true)
		// no recursive value containment: only earlier structs are in g.structs
		lines = append(lines, fmt.Sprintf("\tf%d %s", j, ty))
		flds = append(flds, fmt.Sprintf("f%d %s", j, ty))
		deps = append(deps, d...)
	}
	// a pointer to a LATER struct is fine (mutual recursion through pointers)
	if g.chance("fwdptr", 30) {
		lines = append(lines, fmt.Sprintf("\tnext *S%d", i+1+g.pick("fwd", 2)))
	}
	if g.fields == nil {
		g.fields = map[string][]string{}
	}
	g.fields[name] = flds
	g.add(Decl{Name: name, Text: "type " + name + " struct {\n" + strings.Join(lines, "\n") + "\n}\n", Deps: deps})
	g.structs = append(g.structs, name)
}

func (g *dgen) genNamed(i int) {
	name := fmt.Sprintf("N%d", i)
	switch g.pick("namedkind", 5) {
	case 0:
		if len(g.scalarNamed) > 0 && g.chance("namedOverNamed", 45) {
			// a defined type over another defined (non-struct) type, each with a method of the same
			// name: two definitions <type>__get, each exactly once (seeded change C04-13)
			base := g.scalarNamed[g.pick("overn", len(g.scalarNamed))]
			g.add(Decl{Name: name, Text: "type " + name + " " + base + "\n", Deps: []string{base}})
		} else {
			g.add(Decl{Name: name, Text: "type " + name + " uint64\n"})
		}
		g.scalarNamed = append(g.scalarNamed, name)
		if g.chance("namedMethod", 60) {
			m := name + "__get"
			g.add(Decl{Name: m, Text: "func (v " + name + ") get() uint64 {\n\treturn uint64(v) + 1\n}\n", Deps: []string{name}})
			u := "use" + name
			g.add(Decl{Name: u, Text: "func " + u + "(v " + name + ") uint64 {\n\treturn v.get()\n}\n", Deps: []string{m, name}})
		}
	case 1:
		g.add(Decl{Name: name, Text: "type " + name + " []byte\n"})
	case 2:
		if len(g.structs) > 0 {
			s := g.structs[g.pick("nst", len(g.structs))]
			g.add(Decl{Name: name, Text: "type " + name + " map[uint64]" + s + "\n", Deps: []string{s}})
			break
		}
		g.add(Decl{Name: name, Text: "type " + name + " map[uint64]bool\n"})
	case 3: // alias of an earlier named type / struct
		if len(g.named) > 0 {
			n := g.named[g.pick("aliasn", len(g.named))]
			g.add(Decl{Name: name, Text: "type " + name + " = " + n + "\n", Deps: []string{n}})
			break
		}
		g.add(Decl{Name: name, Text: "type " + name + " = uint64\n"})
	default:
		if len(g.structs) > 0 {
			s := g.structs[g.pick("aliass", len(g.structs))]
			g.add(Decl{Name: name, Text: "type " + name + " = []" + s + "\n", Deps: []string{s}})
			break
		}
		g.add(Decl{Name: name, Text: "type " + name + " = []uint64\n"})
	}
	g.named = append(g.named, name)
}

func (g *dgen) genConst(i int) {
	name := fmt.Sprintf("C%d", i)
	if g.chance("constgroup", 30) {
		// a const ( … ) or var ( … ) group of 2–3 members: every member must be findable as a
		// dependency, not only the last one (seeded change C04-6)
		n := 2 + g.pick("groupn", 2)
		isVar := g.chance("vargroup", 25)
		var names []string
		var sb strings.Builder
		var deps []string
		kw := "const"
		if isVar {
			kw = "var"
		}
		sb.WriteString(kw + " (\n")
		for k := 0; k < n; k++ {
			m := fmt.Sprintf("%sg%d", name, k)
			names = append(names, m)
			val := fmt.Sprintf("%d", g.pick("gval2", 100))
			if !isVar && len(g.trueConsts) > 0 && g.chance("groupdep", 40) {
				c := g.trueConsts[g.pick("groupref", len(g.trueConsts))]
				val = c + " + " + val
				deps = append(deps, c)
			} else if !isVar && k > 0 && g.chance("groupself", 40) {
				val = names[k-1] + " + " + val
			}
			fmt.Fprintf(&sb, "\t%s uint64 = %s\n", m, val)
		}
		sb.WriteString(")\n")
		g.add(Decl{Name: names[0], Also: names[1:], Text: sb.String(), Deps: deps})
		for _, m := range names {
			g.consts = append(g.consts, m)
			if !isVar {
				g.trueConsts = append(g.trueConsts, m)
			}
		}
		return
	}
	if len(g.trueConsts) > 0 && g.chance("constdep", 50) {
		c := g.trueConsts[g.pick("constref", len(g.trueConsts))]
		g.add(Decl{Name: name, Text: fmt.Sprintf("const %s uint64 = %s + %d\n", name, c, 1+g.pick("cadd", 5)), Deps: []string{c}})
		g.trueConsts = append(g.trueConsts, name)
	} else if g.chance("globalvar", 25) {
		g.add(Decl{Name: name, Text: fmt.Sprintf("var %s uint64 = %d\n", name, g.pick("gval", 100))})
	} else {
		g.add(Decl{Name: name, Text: fmt.Sprintf("const %s uint64 = %d\n", name, g.pick("cval", 100))})
		g.trueConsts = append(g.trueConsts, name)
	}
	g.consts = append(g.consts, name)
}

// genGeneric adds a generic identity function. Its type parameter is usually T/K/V, sometimes it has
// the name of a top-level declaration of the package (legal shadowing): the type parameter is bound
// by the Definition itself and must neither be confused with that declaration nor hide it from
// later declarations (seeded change C04-5).
func (g *dgen) genGeneric(i int) {
	name := fmt.Sprintf("gf%d", i)
	tp := []string{"T", "K", "V"}[g.pick("tpname", 3)]
	var pool []string
	pool = append(pool, g.named...)
	pool = append(pool, g.structs...)
	pool = append(pool, g.consts...)
	for _, f := range g.funcs {
		pool = append(pool, f.name)
	}
	// … or of the function generated next, which may call this generic function: the bogus
	// dependency "gf depends on fnK" then closes a cycle with the real one
	pool = append(pool, fmt.Sprintf("fn%d", g.nextFn), fmt.Sprintf("fn%d", g.nextFn))
	if len(pool) > 0 && g.chance("tpshadow", 45) {
		tp = pool[g.pick("tpshadowidx", len(pool))]
	}
	g.add(Decl{Name: name, Text: "func " + name + "[" + tp + " any](x " + tp + ") " + tp + " {\n\treturn x\n}\n"})
	g.generics = append(g.generics, name)
}

func (g *dgen) genIface(i int) {
	name := fmt.Sprintf("I%d", i)
	m := fmt.Sprintf("im%d", i)
	g.add(Decl{Name: name, Text: "type " + name + " interface {\n\t" + m + "() uint64\n}\n"})
	g.ifaces = append(g.ifaces, ifaceInfo{name, m})
}

// body builds statements that mention other declarations; returns lines + deps.
func (g *dgen) body(self fnInfo, recv string, recvPtr bool, canRecurse bool) ([]string, []string, bool) {
	var lines, deps []string
	rec := false
	n := g.pick("nbody", 5)
	for k := 0; k < n; k++ {
		switch g.pick("bodykind", 15) {
		case 12: // instantiate and call a generic function
			if len(g.generics) > 0 {
				f := g.generics[g.pick("gcallee", len(g.generics))]
				if g.chance("ginferred", 40) {
					lines = append(lines, "_ = "+f+"(uint64(3))")
				} else {
					lines = append(lines, "_ = "+f+"[uint64](3)")
				}
				deps = append(deps, f)
			}
		case 0: // call an earlier function
			if len(g.funcs) > 0 {
				f := g.funcs[g.pick("callee", len(g.funcs))]
				var args []string
				ok := true
				for _, p := range f.params {
					a, d := g.argOf(p)
					if a == "" {
						ok = false
						break
					}
					args = append(args, a)
					deps = append(deps, d...)
				}
				if !ok {
					continue
				}
				call := f.name + "(" + strings.Join(args, ", ") + ")"
				if f.result != "" {
					call = "_ = " + call
				}
				lines = append(lines, call)
				deps = append(deps, f.coq)
			}
		case 1: // use a constant
			if len(g.consts) > 0 {
				c := g.consts[g.pick("bconst", len(g.consts))]
				lines = append(lines, "_ = "+c+" + 1")
				deps = append(deps, c)
			}
		case 2: // new(S)
			if len(g.structs) > 0 {
				s := g.structs[g.pick("bnew", len(g.structs))]
				lines = append(lines, "_ = new("+s+")")
				deps = append(deps, s)
			}
		case 3: // composite literal
			if len(g.structs) > 0 {
				s := g.structs[g.pick("blit", len(g.structs))]
				if g.chance("blitptr", 50) {
					lines = append(lines, "_ = &"+s+"{}")
				} else {
					lines = append(lines, "_ = "+s+"{}")
				}
				deps = append(deps, s)
			}
		case 4: // var of struct type + field access
			if len(g.structs) > 0 {
				s := g.structs[g.pick("bvar", len(g.structs))]
				v := fmt.Sprintf("v%d", k)
				lines = append(lines, "var "+v+" "+s, "_ = "+v+".f0")
				deps = append(deps, s)
				for _, d := range g.fieldDeps(s) {
					deps = append(deps, d)
				}
			}
		case 5: // method call on a fresh value
			for _, s := range g.structs {
				ms := g.methods[s]
				if len(ms) == 0 || !g.chance("bmcall", 50) {
					continue
				}
				m := ms[g.pick("bm", len(ms))]
				recvExpr := s + "{}"
				v := fmt.Sprintf("mv%d", k)
				if m.ptr && g.chance("bmimplicit", 40) {
					// pointer-receiver method called on an addressable value: Go takes the address
					// implicitly (what the call MEANS is C02's business, known finding implicitReceiver;
					// the dependency on the method is the same; seeded change C04-9)
					lines = append(lines, "var "+v+" "+s)
				} else if m.ptr {
					lines = append(lines, v+" := &"+s+"{}")
				} else {
					lines = append(lines, v+" := "+recvExpr)
				}
				call := v + "." + m.name + "()"
				if m.result != "" {
					call = "_ = " + call
				}
				lines = append(lines, call)
				deps = append(deps, s, m.coq)
				break
			}
		case 6: // load / store through pointers only (T13)
			if len(g.structs) > 0 {
				if ev.SwitchOn(swDerefOnly) {
					ev.Prune(swDerefOnly)
					continue
				}
				s := g.structs[g.pick("bderef", len(g.structs))]
				lines = append(lines, fmt.Sprintf("var dp%d *%s", k, s), fmt.Sprintf("var dq%d *%s", k, s), fmt.Sprintf("if false {\n\t\t*dp%d = *dq%d\n\t}", k, k))
				deps = append(deps, s)
			}
		case 7: // self recursion
			if canRecurse && !rec && self.result == "uint64" && len(self.params) > 0 && self.params[0] == "uint64" {
				rec = true
			}
		case 8: // struct-to-interface conversion at a call
			if len(g.ifaces) > 0 {
				// needs a function taking the interface and a struct implementing it: generated in genIfaceUse
			}
		case 9: // named type use
			if len(g.scalarNamed) > 0 && ev.SwitchOn("c04NoTypeInfoOnlyDependency") {
				ev.Prune("c04NoTypeInfoOnlyDependency")
			} else if len(g.scalarNamed) > 0 {
				nm := g.scalarNamed[g.pick("bnamed", len(g.scalarNamed))]
				lines = append(lines, fmt.Sprintf("var nv%d %s", k, nm), fmt.Sprintf("_ = nv%d", k))
				deps = append(deps, nm)
			}
		case 13, 14: // the struct is mentioned only by a field store / a field address through a pointer
			if len(g.structs) > 0 {
				s := g.structs[g.pick("bstore", len(g.structs))]
				fl := strings.SplitN(g.fields[s][g.pick("bstorefield", len(g.fields[s]))], " ", 2)
				if g.chance("bfieldref", 40) {
					lines = append(lines, fmt.Sprintf("var fp%d *%s", k, s), fmt.Sprintf("if false {\n\t\t_ = &fp%d.%s\n\t}", k, fl[0]))
					deps = append(deps, s)
				} else if z := zeroOf(fl[1]); z != "" {
					lines = append(lines, fmt.Sprintf("var fp%d *%s", k, s), fmt.Sprintf("if false {\n\t\tfp%d.%s = %s\n\t}", k, fl[0], z))
					deps = append(deps, s)
				}
			}
		case 10: // slice / map of struct
			if len(g.structs) > 0 {
				s := g.structs[g.pick("bmk", len(g.structs))]
				if g.chance("bmkmap", 50) {
					lines = append(lines, "_ = make(map[uint64]"+s+")")
				} else {
					lines = append(lines, "_ = make([]"+s+", 1)")
				}
				deps = append(deps, s)
			}
		}
	}
	return lines, deps, rec
}

// fieldDeps: reading v.f0 adds the dependency on the struct only; nothing else.
func (g *dgen) fieldDeps(s string) []string { return nil }

// argOf builds an argument of a Go type.
func (g *dgen) argOf(ty string) (string, []string) {
	if z := zeroOf(ty); z != "" {
		return z, nil
	}
	switch {
	case strings.HasPrefix(ty, "*"):
		return "new(" + ty[1:] + ")", []string{ty[1:]}
	case strings.HasPrefix(ty, "[]"):
		el := ty[2:]
		if strings.HasPrefix(el, "S") {
			return "make(" + ty + ", 1)", []string{el}
		}
		return "make(" + ty + ", 1)", nil
	case strings.HasPrefix(ty, "map["):
		el := ty[strings.Index(ty, "]")+1:]
		if strings.HasPrefix(el, "S") {
			return "make(" + ty + ")", []string{el}
		}
		return "make(" + ty + ")", nil
	case strings.HasPrefix(ty, "S"):
		return ty + "{}", []string{ty}
	}
	return "", nil
}

func (g *dgen) genFunc(i int) {
	f := fnInfo{name: fmt.Sprintf("fn%d", i)}
	f.coq = f.name
	var deps []string
	var ps []string
	np := g.pick("np", 3)
	for j := 0; j < np; j++ {
		ty, d := g.tyRef("pty", true)
		if strings.HasPrefix(ty, "N") {
			// arguments of named types are awkward to build; keep them out of parameters
			ty, d = "uint64", nil
		}
		f.params = append(f.params, ty)
		ps = append(ps, fmt.Sprintf("p%d %s", j, ty))
		deps = append(deps, d...)
	}
	if g.chance("hasresult", 60) {
		f.result = "uint64"
	}
	lines, bdeps, rec := g.body(f, "", false, true)
	deps = append(deps, bdeps...)
	ret := ""
	if f.result != "" {
		ret = "return 0"
		if rec {
			args := []string{"p0 - 1"}
			for _, p := range f.params[1:] {
				a, d := g.argOf(p)
				args = append(args, a)
				deps = append(deps, d...)
			}
			lines = append(lines, "if p0 == 0 {\n\t\treturn 0\n\t}")
			ret = "return " + f.name + "(" + strings.Join(args, ", ") + ")"
		}
	}
	for j := range f.params {
		lines = append([]string{fmt.Sprintf("_ = p%d", j)}, lines...)
	}
	if ret != "" {
		lines = append(lines, ret)
	}
	res := ""
	if f.result != "" {
		res = " " + f.result
	}
	text := "func " + f.name + "(" + strings.Join(ps, ", ") + ")" + res + " {\n\t" + strings.Join(lines, "\n\t") + "\n}\n"
	g.add(Decl{Name: f.coq, Text: text, Deps: deps, Rec: rec})
	g.funcs = append(g.funcs, f)
}

func (g *dgen) genMethod(s string, i int) {
	m := fnInfo{name: fmt.Sprintf("m%d", i), ptr: g.chance("mptr", 50)}
	m.coq = s + "__" + m.name
	if g.chance("mres", 60) {
		m.result = "uint64"
	}
	lines, deps, _ := g.body(m, s, m.ptr, false)
	deps = append(deps, s)
	recv := "r " + s
	if m.ptr {
		recv = "r *" + s
	}
	lines = append([]string{"_ = r.f0"}, lines...)
	res := ""
	if m.result != "" {
		res = " uint64"
		lines = append(lines, "return 0")
	}
	text := "func (" + recv + ") " + m.name + "()" + res + " {\n\t" + strings.Join(lines, "\n\t") + "\n}\n"
	g.add(Decl{Name: m.coq, Text: text, Deps: deps})
	if g.methods == nil {
		g.methods = map[string][]fnInfo{}
	}
	g.methods[s] = append(g.methods[s], m)
}

// genIfaceUse: struct implementing an interface (value receiver) + a function
// taking the interface + a caller passing the struct (S__to__I conversion).
func (g *dgen) genIfaceUse(i int) {
	if len(g.ifaces) == 0 || len(g.structs) == 0 {
		return
	}
	if ev.SwitchOn("c04NoIfaceConversion") {
		ev.Prune("c04NoIfaceConversion")
		return
	}
	it := g.ifaces[g.pick("iface", len(g.ifaces))]
	s := g.structs[g.pick("ifstruct", len(g.structs))]
	mc := s + "__" + it.method
	user := "useI_" + it.name
	// implementing method and the function taking the interface: once per (struct, interface)
	implemented := false
	for _, m := range g.methods[s] {
		if m.name == it.method {
			implemented = true
		}
	}
	if !implemented {
		g.add(Decl{Name: mc, Text: "func (r " + s + ") " + it.method + "() uint64 {\n\treturn 7\n}\n", Deps: []string{s}})
		g.methods[s] = append(g.methods[s], fnInfo{name: it.method, coq: mc, result: "uint64"})
	}
	if !g.usersDone[it.name] {
		g.usersDone[it.name] = true
		g.add(Decl{Name: user, Text: "func " + user + "(x " + it.name + ") uint64 {\n\treturn x." + it.method + "()\n}\n", Deps: []string{it.name}})
	}
	// a caller converting the struct to the interface; several callers may convert the same pair,
	// and later functions may call the callers
	caller := fmt.Sprintf("callI%d", i)
	g.add(Decl{Name: caller, Text: "func " + caller + "() uint64 {\n\ts := " + s + "{}\n\treturn " + user + "(s)\n}\n",
		Deps: []string{s, user, it.name, mc}})
	g.funcs = append(g.funcs, fnInfo{name: caller, coq: caller, result: "uint64"})
}

func genCase(t *rapid.T) Case {
	g := &dgen{t: t, methods: map[string][]fnInfo{}, usersDone: map[string]bool{}}
	// interleave kinds in rank order so that later declarations can depend on earlier ones
	n := 4 + g.pick("ndecls", 12)
	si, ni, ci, fi, ii, gi := 0, 0, 0, 0, 0, 0
	for k := 0; k < n; k++ {
		g.nextFn = fi
		switch g.pick("declkind", 12) {
		case 11:
			g.genGeneric(gi)
			gi++
		case 0, 1:
			g.genStruct(si)
			si++
		case 2:
			g.genNamed(ni)
			ni++
		case 3, 4:
			g.genConst(ci)
			ci++
		case 5, 6, 7:
			g.genFunc(fi)
			fi++
		case 8:
			if len(g.structs) > 0 {
				s := g.structs[g.pick("mstruct", len(g.structs))]
				g.genMethod(s, len(g.methods[s]))
			}
		case 9, 10:
			if g.chance("ifacedecl", 30) || len(g.ifaces) == 0 {
				g.genIface(ii)
				ii++
			} else {
				g.genIfaceUse(k)
			}
		}
	}
	// a cluster that converts one struct to one interface at several call sites which are themselves
	// called by other functions (the conversion helper is emitted with its callers)
	if g.chance("ifacecluster", 30) {
		if len(g.ifaces) == 0 {
			g.genIface(ii)
			ii++
		}
		if len(g.structs) == 0 {
			g.genStruct(si)
			si++
		}
		nc := 2 + g.pick("clustercallers", 2)
		first := len(g.funcs)
		for k := 0; k < nc; k++ {
			saved := g.ifaces
			g.ifaces = saved[:1]
			savedS := g.structs
			g.structs = savedS[:1]
			g.genIfaceUse(1000 + k)
			g.ifaces, g.structs = saved, savedS
		}
		// functions that call the callers (any of them, including the later ones)
		for k := 0; k < 1+g.pick("clusterusers", 2); k++ {
			if len(g.funcs) > first {
				c := g.funcs[first+g.pick("clustercallee", len(g.funcs)-first)]
				name := fmt.Sprintf("viaI%d", k)
				g.add(Decl{Name: name, Text: "func " + name + "() uint64 {\n\treturn " + c.name + "() + 1\n}\n", Deps: []string{c.coq}})
			}
		}
	}
	// planted rejections, with accepted declarations that mention them and callers of those
	if g.chance("planted", 30) {
		np := 1 + g.pick("nplanted", 3)
		for k := 0; k < np; k++ {
			name := fmt.Sprintf("RJ%d", k)
			switch g.pick("plantkind", 4) {
			case 0:
				g.decls = append(g.decls, Decl{Name: name, Rejected: true, Text: "type " + name + " chan uint64\n"})
				user := "use" + name
				g.decls = append(g.decls, Decl{Name: user, Text: "func " + user + "() {\n\tvar c " + name + "\n\t_ = c\n}\n"})
				g.decls = append(g.decls, Decl{Name: "via" + name, Text: "func via" + name + "() {\n\t" + user + "()\n}\n", Deps: []string{user}})
			case 1:
				g.decls = append(g.decls, Decl{Name: name, Rejected: true, Text: "const " + name + " = 1.5\n"})
			case 2:
				body, deps := "\tx := uint64(1)\n", []string(nil)
				if len(g.funcs) > 0 && g.funcs[0].result == "uint64" && len(g.funcs[0].params) == 0 {
					body = "\tx := " + g.funcs[0].name + "()\n"
				}
				_ = deps
				g.decls = append(g.decls, Decl{Name: name, Rejected: true, Text: "func " + name + "(c chan uint64) uint64 {\n" + body + "\tc <- x\n\treturn x\n}\n"})
			default:
				g.decls = append(g.decls, Decl{Name: name, Rejected: true, Text: "var " + name + " uint64\n"})
				user := "read" + name
				g.decls = append(g.decls, Decl{Name: user, Text: "func " + user + "() uint64 {\n\treturn " + name + "\n}\n"})
			}
		}
	}
	// forward pointer fields may name structs that were never generated: add them
	for k := si; k < si+3; k++ {
		g.decls = append(g.decls, Decl{Name: fmt.Sprintf("S%d", k), Text: fmt.Sprintf("type S%d struct {\n\tz uint64\n}\n", k)})
	}
	c := Case{Decls: g.decls}
	nl := 6 + g.pick("nlayouts", 3)
	fileNames := []string{"a.go", "b.go", "z_first.go", "0last.go", "Upper.go", "m1.go", "m10.go", "m2.go", "x_y.go", "é.go"}
	for l := 0; l < nl; l++ {
		perm := rapid.Permutation(indexes(len(c.Decls))).Draw(t, "perm")
		nf := 1 + g.pick("nfiles", 4)
		names := rapid.Permutation(fileNames).Draw(t, "fnames")[:nf]
		lay := Layout{}
		for _, fn := range names {
			lay.Files = append(lay.Files, LayoutFile{Name: fn})
		}
		for _, d := range perm {
			fidx := g.pick("file", nf)
			lay.Files[fidx].Decls = append(lay.Files[fidx].Decls, d)
		}
		c.Layouts = append(c.Layouts, lay)
	}
	return c
}

var nErrorsRe = regexp.MustCompile(`(?s)\n(\d+) errors\s*$`)

func keys(m map[string]bool) []string {
	var out []string
	for k := range m {
		out = append(out, k)
	}
	sort.Strings(out)
	return out
}

func indexes(n int) []int {
	out := make([]int, n)
	for i := range out {
		out[i] = i
	}
	return out
}

// ---- oracle ----

var modDir string
var caseCounter int

func writeModule(c Case) (string, error) {
	caseCounter++
	dir := filepath.Join(ev.Scratch(), fmt.Sprintf("c04mod%d", caseCounter%4))
	os.RemoveAll(dir)
	if err := os.MkdirAll(dir, 0o755); err != nil {
		return "", err
	}
	if err := os.WriteFile(filepath.Join(dir, "go.mod"), []byte("module c04mod\n\ngo 1.22\n"), 0o644); err != nil {
		return "", err
	}
	for li, lay := range c.Layouts {
		pdir := filepath.Join(dir, fmt.Sprintf("l%d", li))
		os.MkdirAll(pdir, 0o755)
		for _, f := range lay.Files {
			var sb strings.Builder
			sb.WriteString("package lay\n\n")
			for _, di := range f.Decls {
				sb.WriteString(c.Decls[di].Text + "\n")
			}
			if err := os.WriteFile(filepath.Join(pdir, f.Name), []byte(sb.String()), 0o644); err != nil {
				return "", err
			}
		}
	}
	return dir, nil
}

type result struct {
	msg        string
	nontrivial []string // layout keys that are non-trivial
	unusable   string
}

func runCase(c Case) result {
	dir, err := writeModule(c)
	if err != nil {
		return result{unusable: err.Error()}
	}
	defer os.RemoveAll(dir)
	tr := goose.TranslationConfig{}
	cfiles, errs, perr := tr.TranslatePackages(dir, "./...")
	if perr != nil {
		return result{unusable: "load: " + perr.Error()}
	}
	if len(cfiles) != len(c.Layouts) {
		return result{unusable: fmt.Sprintf("loaded %d packages for %d layouts", len(cfiles), len(c.Layouts))}
	}
	expected := map[string]bool{}
	deps := map[string][]string{}
	planted := map[string]bool{}
	for _, d := range c.Decls {
		if d.Rejected {
			planted[d.Name] = true
			continue
		}
		expected[d.Name] = true
		deps[d.Name] = d.Deps
		for _, n := range d.Also {
			expected[n] = true
			deps[n] = d.Deps
		}
	}
	bodies := map[string]string{}
	var res result
	for i, cf := range cfiles {
		if cf.PkgPath == "" && errs[i] != nil {
			return result{unusable: "package failed: " + errs[i].Error()}
		}
		li := -1
		fmt.Sscanf(strings.TrimPrefix(cf.PkgPath, "c04mod/l"), "%d", &li)
		if li < 0 || li >= len(c.Layouts) {
			return result{unusable: "unexpected package " + cf.PkgPath}
		}
		lay := c.Layouts[li]
		if errs[i] != nil {
			if strings.Contains(errs[i].Error(), "could not load package") {
				return result{unusable: "generated declarations do not type-check: " + errs[i].Error()}
			}
			nerr := 1 // a single error is returned as it is, several end in "<n> errors"
			if m := nErrorsRe.FindStringSubmatch(errs[i].Error()); m != nil {
				nerr, _ = strconv.Atoi(m[1])
			}
			if len(planted) == 0 {
				return result{msg: fmt.Sprintf("layout %d: goose rejected the package: %v\n%s", li, errs[i], showLayout(c, lay))}
			}
			if nerr != len(planted) {
				return result{msg: fmt.Sprintf("layout %d: %d declarations outside the subset were planted (%v), goose reports %d errors: every other declaration must be treated as if the planted ones were not there\n%v\n%s", li, len(planted), keys(planted), nerr, errs[i], showLayout(c, lay))}
			}
		} else if len(planted) > 0 {
			return result{unusable: "a planted declaration was accepted"}
		}
		var buf bytes.Buffer
		cf.Write(&buf)
		text := buf.String()
		vf, err := vread.ParseFile(text)
		if err != nil {
			return result{msg: fmt.Sprintf("layout %d: output is not well-formed: %v\n%s", li, err, text)}
		}
		seen := map[string]int{}
		var order []string
		for _, d := range vf.Defs() {
			seen[d.Name]++
			order = append(order, d.Name)
		}
		for n, k := range seen {
			if k > 1 {
				return result{msg: fmt.Sprintf("layout %d: name %s is defined %d times\n%s\n--- emitted ---\n%s", li, n, k, showLayout(c, lay), text)}
			}
			if planted[n] {
				return result{msg: fmt.Sprintf("layout %d: the rejected declaration %s is emitted all the same\n%s\n--- emitted ---\n%s", li, n, showLayout(c, lay), text)}
			}
			if !expected[n] && !strings.Contains(n, "__to__") {
				return result{msg: fmt.Sprintf("layout %d: unexpected definition %s\n%s\n--- emitted ---\n%s", li, n, showLayout(c, lay), text)}
			}
		}
		for n := range expected {
			if seen[n] == 0 {
				return result{msg: fmt.Sprintf("layout %d: declaration %s has no definition\n%s\n--- emitted ---\n%s", li, n, showLayout(c, lay), text)}
			}
		}
		pos := map[string]int{}
		for k, n := range order {
			pos[n] = k
		}
		for _, d := range vf.Defs() {
			var bad string
			vread.Walk(d.Body, func(e vread.Expr) bool {
				if g, ok := e.(vread.Gid); ok {
					if p, isDef := pos[g.Name]; isDef && p >= pos[d.Name] {
						if bad == "" {
							bad = g.Name
						}
					}
				}
				return true
			})
			for _, f := range d.Fields {
				vread.Walk(f.Type, func(e vread.Expr) bool {
					if g, ok := e.(vread.Gid); ok {
						if p, isDef := pos[g.Name]; isDef && p >= pos[d.Name] && bad == "" {
							bad = g.Name
						}
					}
					return true
				})
			}
			if bad != "" {
				what := "is defined later"
				if bad == d.Name {
					what = "is the definition itself (a self-call must go through the quoted rec: binder)"
				}
				return result{msg: fmt.Sprintf("layout %d: definition %s mentions %s, which %s\n%s\n--- emitted ---\n%s", li, d.Name, bad, what, showLayout(c, lay), text)}
			}
			// the generator's own dependency list must be honoured too (independent of what the reader resolves)
			for _, dep := range deps[d.Name] {
				if p, ok := pos[dep]; ok && p >= pos[d.Name] && dep != d.Name {
					return result{msg: fmt.Sprintf("layout %d: %s depends on %s but is emitted before it\n%s\n--- emitted ---\n%s", li, d.Name, dep, showLayout(c, lay), text)}
				}
			}
			body := vread.Sexp(d.Body) + "|" + d.DefKind + "|" + strings.Join(d.TypeParams, ",")
			if b0, ok := bodies[d.Name]; ok && b0 != body {
				return result{msg: fmt.Sprintf("layout %d: body of %s differs from another layout:\n %s\nvs\n %s", li, d.Name, body, b0)}
			}
			bodies[d.Name] = body
		}
		// non-trivial: a dependant textually before its dependency
		textual := map[string]int{}
		k := 0
		sorted := append([]LayoutFile(nil), lay.Files...)
		sort.Slice(sorted, func(a, b int) bool { return sorted[a].Name < sorted[b].Name })
		for _, f := range sorted {
			for _, di := range f.Decls {
				textual[c.Decls[di].Name] = k
				for _, n := range c.Decls[di].Also {
					textual[n] = k
				}
				k++
			}
		}
		nt := false
		for _, d := range c.Decls {
			for _, dep := range d.Deps {
				if textual[dep] > textual[d.Name] {
					nt = true
				}
			}
		}
		if nt {
			b, _ := json.Marshal(lay)
			res.nontrivial = append(res.nontrivial, string(b))
		}
	}
	return res
}

func showLayout(c Case, lay Layout) string {
	var sb strings.Builder
	sorted := append([]LayoutFile(nil), lay.Files...)
	sort.Slice(sorted, func(a, b int) bool { return sorted[a].Name < sorted[b].Name })
	for _, f := range sorted {
		fmt.Fprintf(&sb, "--- %s ---\n", f.Name)
		for _, di := range f.Decls {
			sb.WriteString(c.Decls[di].Text)
		}
	}
	return sb.String()
}

func check(t ev.TB, c Case) {
	ev.Eval()
	r := runCase(c)
	if r.unusable != "" {
		ev.Inconclusive("case unusable")
		ev.Note("unusable: %s", firstLine(r.unusable))
		if testing.Verbose() {
			fmt.Println("UNUSABLE:", r.unusable)
		}
		return
	}
	ev.Add("layouts", int64(len(c.Layouts)))
	var graph []string
	for _, d := range c.Decls {
		graph = append(graph, d.Text)
	}
	gh := strings.Join(graph, "\x00")
	for _, k := range r.nontrivial {
		ev.NonTrivial(gh + k)
	}
	ev.Label(fmt.Sprintf("decls:%d", len(c.Decls)/5*5))
	if len(r.nontrivial) > 0 && len(c.Decls) <= 12 {
		ev.Sample(c)
	}
	if r.msg != "" {
		ev.Failf(t, "TestLayouts", c, "%s", r.msg)
	}
}

func firstLine(s string) string {
	if i := strings.Index(s, "\n"); i >= 0 {
		return s[:i]
	}
	return s
}

func TestLayouts(t *testing.T) {
	ev.Pinned(t, "C04", "TestLayouts", func(raw json.RawMessage) string {
		var c Case
		if json.Unmarshal(raw, &c) != nil {
			return ""
		}
		return runCase(c).msg
	})
	rapid.Check(t, func(t *rapid.T) { check(t, genCase(t)) })
}

func TestReplay(t *testing.T) {
	p := ev.ReplayPath()
	if p == "" {
		t.Skip("no replay")
	}
	r, err := ev.LoadReplay(p)
	if err != nil {
		t.Fatal(err)
	}
	var c Case
	if err := json.Unmarshal(r.Case, &c); err != nil {
		t.Fatal(err)
	}
	check(t, c)
}
