package ev
