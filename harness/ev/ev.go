// Package ev is the evidence / verdict plumbing shared by all property
// packages. A property package calls ev.Main from TestMain; its properties
// call Eval/NonTrivial/Label/Sample while they run and Fail when the oracle
// rejects a case. At process exit a shard file (JSON) is written to
// $VERIF_OUT; the driver (cmd/check) merges the shard files of all processes
// of a run into /verif/evidence/<ID>.json and decides the exit status.
//
// Rules every property package follows:
//   - a violation of the property is reported ONLY through Fail/Failf (which
//     record the failing case so that it can become a replay file);
//   - infrastructure trouble (tool missing, timeouts, generator bugs) is
//     reported through Inconclusive and never through Fail;
//   - every case is a JSON-serialisable value, produced from rapid draws by a
//     generator and consumed by a pure "run the oracle on this case" function,
//     so that TestReplay can re-run a saved case without rapid.
package ev

import (
	"encoding/json"
	"fmt"
	"hash/fnv"
	"os"
	"path/filepath"
	"sort"
	"strconv"
	"sync"
	"testing"
	"time"
)

// Failure is one recorded oracle rejection (the last one recorded for a test
// is the shrunk one, because rapid re-runs the minimal case last).
type Failure struct {
	Test    string          `json:"test"`
	Message string          `json:"message"`
	Case    json.RawMessage `json:"case"`
}

// Shard is what one test process writes.
type Shard struct {
	Property     string            `json:"property"`
	Level        string            `json:"level"`
	Rule         string            `json:"rule"`
	Assumptions  []string          `json:"assumptions"`
	Evaluations  int64             `json:"evaluations"`
	NonTrivial   []uint64          `json:"nontrivial_hashes"`
	NonTrivialN  int64             `json:"nontrivial_total"`
	Labels       map[string]int64  `json:"labels"`
	Pruned       map[string]int64  `json:"pruned"`
	Inconclusive map[string]int64  `json:"inconclusive"`
	Samples      []json.RawMessage `json:"samples"`
	Failures     []Failure         `json:"failures"`
	Known        []string          `json:"known_findings"`
	Extra        map[string]int64  `json:"extra"`
	Notes        []string          `json:"notes"`
	WallS        float64           `json:"wall_s"`
}

const maxHashes = 2_000_000
const maxSamples = 6

var (
	mu       sync.Mutex
	sh       Shard
	hashes   = map[uint64]struct{}{}
	lastFail = map[string]*Failure{}
	knownSet = map[string]bool{}
	start    time.Time
)

// Root is the /verif directory.
func Root() string {
	if r := os.Getenv("VERIF_ROOT"); r != "" {
		return r
	}
	return "/verif"
}

// Repo is the goose tree under test: /repo, unless VERIF_REPO redirects the
// build to a scratch worktree (sensitivity experiments only).
func Repo() string {
	if r := os.Getenv("VERIF_REPO"); r != "" {
		return r
	}
	return "/repo"
}

// Tier is "quick" or "thorough".
func Tier() string {
	if t := os.Getenv("VERIF_TIER"); t == "thorough" {
		return "thorough"
	}
	return "quick"
}

// Thorough reports whether the thorough tier is running.
func Thorough() bool { return Tier() == "thorough" }

// Seed is the VERIF_SEED value the driver received (default 1).
func Seed() int64 {
	n, err := strconv.ParseInt(os.Getenv("VERIF_SEED"), 10, 64)
	if err != nil {
		return 1
	}
	return n
}

// ShardIndex is the index of this process among the shards of one part.
func ShardIndex() int {
	n, _ := strconv.Atoi(os.Getenv("VERIF_SHARD"))
	return n
}

// EnvInt reads an integer knob passed by the driver (e.g. VERIF_N).
func EnvInt(name string, def int) int {
	n, err := strconv.Atoi(os.Getenv(name))
	if err != nil {
		return def
	}
	return n
}

// Scratch returns a per-process scratch directory outside /repo and /verif.
func Scratch() string {
	d := os.Getenv("VERIF_SCRATCH")
	if d == "" {
		d = filepath.Join(os.TempDir(), "verif-scratch-"+strconv.Itoa(os.Getpid()))
	}
	if os.Getenv("VERIF_FUZZING") != "" {
		// native fuzzing runs one coordinator and several worker processes of the same binary
		// in the same directory: each gets its own scratch space
		d = filepath.Join(d, "p"+strconv.Itoa(os.Getpid()))
	}
	_ = os.MkdirAll(d, 0o755)
	return d
}

// ReplayPath is the replay file to run ("" when not replaying).
func ReplayPath() string { return os.Getenv("VERIF_REPLAY") }

// Meta sets the evidence level, the non-triviality rule and the assumptions.
func Meta(level, rule string, assumptions ...string) {
	mu.Lock()
	defer mu.Unlock()
	sh.Level = level
	sh.Rule = rule
	sh.Assumptions = append(sh.Assumptions, assumptions...)
}

// Main is the TestMain body of every property package.
func Main(m *testing.M, property string) {
	start = time.Now()
	sh.Property = property
	sh.Labels = map[string]int64{}
	sh.Pruned = map[string]int64{}
	sh.Inconclusive = map[string]int64{}
	sh.Extra = map[string]int64{}
	code := m.Run()
	Flush()
	os.Exit(code)
}

// Eval counts one executed case.
func Eval() { Add("", 1) }

// Add adds to an extra counter ("" = evaluations).
func Add(name string, n int64) {
	mu.Lock()
	defer mu.Unlock()
	if name == "" {
		sh.Evaluations += n
		return
	}
	sh.Extra[name] += n
}

// Hash hashes any number of strings to a 64-bit key.
func Hash(parts ...string) uint64 {
	h := fnv.New64a()
	for _, p := range parts {
		h.Write([]byte(p))
		h.Write([]byte{0})
	}
	return h.Sum64()
}

// NonTrivial records a case that is non-trivial by the property's rule; key is
// the canonical form used for distinctness.
func NonTrivial(key string) { NonTrivialHash(Hash(key)) }

// NonTrivialHash is NonTrivial with a precomputed hash.
func NonTrivialHash(h uint64) {
	mu.Lock()
	defer mu.Unlock()
	sh.NonTrivialN++
	if len(hashes) < maxHashes {
		hashes[h] = struct{}{}
	}
}

// Label classifies a case (generator distribution histogram).
func Label(l string) {
	mu.Lock()
	defer mu.Unlock()
	sh.Labels[l]++
}

// Prune counts a draw that was pruned by a known-finding exclusion switch.
func Prune(sw string) {
	mu.Lock()
	defer mu.Unlock()
	sh.Pruned[sw]++
}

// Inconclusive counts a case that could not be decided (never a violation).
func Inconclusive(reason string) {
	mu.Lock()
	defer mu.Unlock()
	sh.Inconclusive[reason]++
}

// Note adds a free-text note to the evidence.
func Note(format string, a ...any) {
	mu.Lock()
	defer mu.Unlock()
	if len(sh.Notes) < 50 {
		sh.Notes = append(sh.Notes, fmt.Sprintf(format, a...))
	}
}

// Sample offers a case as a sample for the evidence file; the first few
// offered are kept.
func Sample(v any) {
	mu.Lock()
	defer mu.Unlock()
	if len(sh.Samples) >= maxSamples {
		return
	}
	b, err := json.Marshal(v)
	if err != nil {
		return
	}
	if len(b) > 20000 {
		b, _ = json.Marshal(string(b[:20000]) + "…(truncated)")
	}
	sh.Samples = append(sh.Samples, b)
}

// WantSample reports whether more samples are wanted (to avoid building them).
func WantSample() bool {
	mu.Lock()
	defer mu.Unlock()
	return len(sh.Samples) < maxSamples
}

// TB is the subset of testing.TB / *rapid.T used here.
type TB interface {
	Fatalf(format string, args ...any)
	Helper()
}

// Record records a failing case without stopping the test (for checks that
// run outside rapid and want to report several violations).
func Record(test string, c any, format string, a ...any) {
	b, err := json.Marshal(c)
	if err != nil {
		b, _ = json.Marshal(fmt.Sprintf("%+v", c))
	}
	mu.Lock()
	defer mu.Unlock()
	lastFail[test] = &Failure{Test: test, Message: fmt.Sprintf(format, a...), Case: b}
}

// Begin notes the case that is about to run in a side file next to the shard file; End removes it.
// If the test process dies while the file exists (a fatal runtime error of the code under test that
// recover cannot stop: stack overflow, concurrent map writes), the driver turns the noted case into
// a violation with a replay file instead of an inconclusive run.
func Begin(test string, c any) {
	out := os.Getenv("VERIF_OUT")
	if out == "" {
		return
	}
	b, err := json.Marshal(c)
	if err != nil {
		return
	}
	rec, _ := json.Marshal(&Failure{Test: test, Message: "the test process died while this case was running", Case: b})
	_ = os.WriteFile(out+".current", rec, 0o644)
}

// End marks the case noted by Begin as finished.
func End() {
	if out := os.Getenv("VERIF_OUT"); out != "" {
		_ = os.Remove(out + ".current")
	}
}

// Failf records the failing case under the given test name and fails the
// test. The last record per test name wins (rapid re-runs the shrunk case
// last).
func Failf(t TB, test string, c any, format string, a ...any) {
	t.Helper()
	Record(test, c, format, a...)
	t.Fatalf("VIOLATION-CANDIDATE "+format, a...)
}

// Known prints the KNOWN-FINDING line for a listed finding (once).
func Known(property, what string) {
	mu.Lock()
	defer mu.Unlock()
	line := fmt.Sprintf("KNOWN-FINDING: property=%s %s", property, what)
	if knownSet[line] {
		return
	}
	knownSet[line] = true
	sh.Known = append(sh.Known, line)
	fmt.Println(line)
}

// Flush writes the shard file.
func Flush() {
	mu.Lock()
	defer mu.Unlock()
	out := os.Getenv("VERIF_OUT")
	if out == "" {
		return
	}
	sh.NonTrivial = sh.NonTrivial[:0]
	for h := range hashes {
		sh.NonTrivial = append(sh.NonTrivial, h)
	}
	sort.Slice(sh.NonTrivial, func(i, j int) bool { return sh.NonTrivial[i] < sh.NonTrivial[j] })
	sh.Failures = sh.Failures[:0]
	var names []string
	for n := range lastFail {
		names = append(names, n)
	}
	sort.Strings(names)
	for _, n := range names {
		sh.Failures = append(sh.Failures, *lastFail[n])
	}
	sh.WallS = time.Since(start).Seconds()
	b, err := json.Marshal(&sh)
	if err != nil {
		fmt.Fprintln(os.Stderr, "ev: marshal:", err)
		return
	}
	tmp := out + ".tmp"
	if err := os.WriteFile(tmp, b, 0o644); err != nil {
		fmt.Fprintln(os.Stderr, "ev: write:", err)
		return
	}
	_ = os.Rename(tmp, out)
}

// ---- known findings ---------------------------------------------------

// Finding is one entry of /verif/known_findings.json.
type Finding struct {
	Property string `json:"property"`
	Status   string `json:"status"` // "known" | "fixed"
	Key      string `json:"key"`
	What     string `json:"what"`
	Replay   string `json:"replay"` // path relative to /verif
	Commit   string `json:"commit,omitempty"`
	Switch   string `json:"switch,omitempty"` // generator exclusion switch
}

// knownFile is /verif/known_findings.json (VERIF_KNOWN_FILE overrides it for
// experiments with fix candidates; registered commands never set it).
func knownFile() string {
	if f := os.Getenv("VERIF_KNOWN_FILE"); f != "" {
		return f
	}
	return filepath.Join(Root(), "known_findings.json")
}

var (
	knownOnce sync.Once
	knownAll  []Finding
)

// allFindings reads known_findings.json once per process (a check's verdict
// must not depend on the file changing while it runs).
func allFindings() []Finding {
	knownOnce.Do(func() {
		b, err := os.ReadFile(knownFile())
		if err != nil {
			return
		}
		var all struct {
			Findings []Finding `json:"findings"`
		}
		if err := json.Unmarshal(b, &all); err != nil {
			panic("known_findings.json: " + err.Error())
		}
		knownAll = all.Findings
	})
	return knownAll
}

// Findings returns the entries of known_findings.json for one property.
func Findings(property string) []Finding {
	var out []Finding
	for _, f := range allFindings() {
		if f.Property == property {
			out = append(out, f)
		}
	}
	return out
}

// SwitchOn reports whether the generator exclusion switch of a known (not
// fixed) finding is on, i.e. whether known_findings.json lists a finding
// with status "known" and this switch name.
func SwitchOn(name string) bool {
	for _, f := range allFindings() {
		if f.Status == "known" && f.Switch == name {
			return true
		}
	}
	return false
}

// ReplayFile is the on-disk format of a replay (and of a pinned known case).
type ReplayFile struct {
	Property string          `json:"property"`
	Part     string          `json:"part,omitempty"`
	Test     string          `json:"test"`
	Message  string          `json:"message,omitempty"`
	Case     json.RawMessage `json:"case"`
	Rapid    string          `json:"rapid_failfile,omitempty"`
}

// LoadReplay reads a replay file.
func LoadReplay(path string) (*ReplayFile, error) {
	if !filepath.IsAbs(path) {
		if _, err := os.Stat(path); err != nil {
			path = filepath.Join(Root(), path)
		}
	}
	b, err := os.ReadFile(path)
	if err != nil {
		return nil, err
	}
	var r ReplayFile
	if err := json.Unmarshal(b, &r); err != nil {
		return nil, err
	}
	return &r, nil
}

// Pinned runs the pinned cases of a property: for every finding of the
// property whose replay file names the given test, run(case) is called; it
// returns a non-empty message when the case (still) violates the property.
// known+failing → KNOWN-FINDING line; known+passing → KNOWN-FINDING line and a note; fixed+failing →
// violation; fixed+passing → silent.
func Pinned(t TB, property, test string, run func(c json.RawMessage) string) {
	t.Helper()
	for _, f := range Findings(property) {
		if f.Replay == "" {
			continue
		}
		r, err := LoadReplay(f.Replay)
		if err != nil {
			Inconclusive("pinned replay unreadable: " + f.Replay)
			continue
		}
		if r.Test != test {
			continue
		}
		msg := run(r.Case)
		Add("pinned_cases_run", 1)
		switch {
		case f.Status == "known" && msg != "":
			Known(property, f.What)
		case f.Status == "known" && msg == "":
			// still listed (some findings are schedule-dependent and do not show in every run)
			Known(property, f.What)
			Note("known finding %q did not reproduce in this run", f.Key)
		case f.Status == "fixed" && msg != "":
			Failf(t, test, json.RawMessage(r.Case), "fixed finding %q has returned: %s", f.Key, msg)
		}
	}
}
