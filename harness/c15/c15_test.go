// Package c15: UInt64Put/UInt32Put/UInt64Get/UInt32Get are little-endian,
// framed and invertible (DESIGN.md §3 C15).
package c15

import (
	"encoding/json"
	"fmt"
	"testing"

	"github.com/goose-lang/goose/machine"
	"pgregory.net/rapid"

	"verifharness/ev"
)

func TestMain(m *testing.M) {
	ev.Meta("exploration",
		"cases = (width, value, surrounding array contents, offset and length of the buffer inside it); "+
			"non-trivial = value has >= 2 distinct non-zero bytes inside the frame and the buffer is longer than the frame; distinct by (width, value, offset, length)",
		"reference encoder is a hand-written shift loop, not encoding/binary")
	ev.Main(m, "C15")
}

// Case is one generated case: the buffer is Arr[Off:Off+Len].
type Case struct {
	Width int    `json:"width"` // 64 or 32
	Value uint64 `json:"value"`
	Arr   []byte `json:"arr"`
	Off   int    `json:"off"`
	Len   int    `json:"len"`
}

func refEncode(v uint64, w int) []byte {
	out := make([]byte, w/8)
	for i := range out {
		out[i] = byte(v >> (8 * uint(i)))
	}
	return out
}

func refDecode(b []byte, w int) uint64 {
	var v uint64
	for i := 0; i < w/8; i++ {
		v |= uint64(b[i]) << (8 * uint(i))
	}
	return v
}

func catch(f func()) (panicked bool) {
	defer func() {
		if r := recover(); r != nil {
			panicked = true
		}
	}()
	f()
	return false
}

// runCase returns "" when the property holds on c.
func runCase(c Case) string {
	w := c.Width / 8
	if c.Width == 32 {
		c.Value &= 0xffffffff
	}
	arr := append([]byte(nil), c.Arr...)
	orig := append([]byte(nil), c.Arr...)
	buf := arr[c.Off : c.Off+c.Len]
	put := func() {
		if c.Width == 64 {
			machine.UInt64Put(buf, c.Value)
		} else {
			machine.UInt32Put(buf, uint32(c.Value))
		}
	}
	get := func(b []byte) (v uint64, panicked bool) {
		panicked = catch(func() {
			if c.Width == 64 {
				v = machine.UInt64Get(b)
			} else {
				v = uint64(machine.UInt32Get(b))
			}
		})
		return
	}
	// Get on the prior contents: reads only the frame.
	if c.Len >= w {
		v, p := get(buf)
		if p {
			return fmt.Sprintf("Get%d panicked on a %d-byte buffer", c.Width, c.Len)
		}
		if want := refDecode(orig[c.Off:], c.Width); v != want {
			return fmt.Sprintf("Get%d of prior contents = %#x, reference decode = %#x", c.Width, v, want)
		}
		for i := range arr {
			if arr[i] != orig[i] {
				return fmt.Sprintf("Get%d modified byte %d of the array", c.Width, i)
			}
		}
		// mutate every byte outside the frame: result must not change
		mut := append([]byte(nil), orig...)
		for i := range mut {
			if i < c.Off || i >= c.Off+w {
				mut[i] ^= 0xff
			}
		}
		v2, _ := get(mut[c.Off : c.Off+c.Len])
		if v2 != v {
			return fmt.Sprintf("Get%d depends on bytes outside its frame: %#x vs %#x", c.Width, v, v2)
		}
	} else {
		if _, p := get(buf); !p {
			return fmt.Sprintf("Get%d accepted a %d-byte buffer", c.Width, c.Len)
		}
	}
	panicked := catch(put)
	if c.Len < w {
		if !panicked {
			return fmt.Sprintf("Put%d accepted a %d-byte buffer", c.Width, c.Len)
		}
		for i := range arr {
			if arr[i] != orig[i] {
				return fmt.Sprintf("refused Put%d wrote byte %d of the underlying array (%#x -> %#x)", c.Width, i, orig[i], arr[i])
			}
		}
		return ""
	}
	if panicked {
		return fmt.Sprintf("Put%d panicked on a %d-byte buffer", c.Width, c.Len)
	}
	want := refEncode(c.Value, c.Width)
	for i := range arr {
		exp := orig[i]
		if i >= c.Off && i < c.Off+w {
			exp = want[i-c.Off]
		}
		if arr[i] != exp {
			return fmt.Sprintf("after Put%d(%#x): array byte %d (buffer byte %d) = %#x, want %#x", c.Width, c.Value, i, i-c.Off, arr[i], exp)
		}
	}
	v, p := get(buf)
	if p || v != c.Value {
		return fmt.Sprintf("Get%d(Put%d(%#x)) = %#x (panicked=%v)", c.Width, c.Width, c.Value, v, p)
	}
	return ""
}

var boundary64 = []uint64{0, 1, 0xff, 0x100, 0xffff, 0x10000, 0xffffffff, 0x100000000, 1 << 63, ^uint64(0),
	0x0102030405060708, 0x8877665544332211, 0x00000000deadbeef, 0xdeadbeef00000000, 0x0100000000000000, 0x00000000000000ff}

func genCase(t *rapid.T) Case {
	var c Case
	c.Width = rapid.SampledFrom([]int{64, 32}).Draw(t, "width")
	switch rapid.IntRange(0, 3).Draw(t, "vkind") {
	case 0:
		c.Value = rapid.SampledFrom(boundary64).Draw(t, "bval")
	case 1:
		k := rapid.IntRange(0, 63).Draw(t, "k")
		c.Value = uint64(1)<<uint(k) - uint64(rapid.IntRange(0, 1).Draw(t, "minus"))
	default:
		c.Value = rapid.Uint64().Draw(t, "val")
	}
	if c.Width == 32 {
		if rapid.Bool().Draw(t, "hi") {
			c.Value >>= 32
		}
		c.Value &= 0xffffffff
	}
	c.Len = rapid.IntRange(0, 40).Draw(t, "len")
	if rapid.IntRange(0, 3).Draw(t, "lenkind") == 0 {
		c.Len = rapid.SampledFrom([]int{0, 1, 3, 4, 5, 7, 8, 9}).Draw(t, "blen")
	}
	c.Off = rapid.IntRange(0, 9).Draw(t, "off")
	tail := rapid.IntRange(0, 12).Draw(t, "tail")
	c.Arr = rapid.SliceOfN(rapid.Byte(), c.Off+c.Len+tail, c.Off+c.Len+tail).Draw(t, "arr")
	return c
}

func nonTrivial(c Case) bool {
	w := c.Width / 8
	if c.Len <= w {
		return false
	}
	seen := map[byte]bool{}
	for _, b := range refEncode(c.Value, c.Width) {
		if b != 0 {
			seen[b] = true
		}
	}
	return len(seen) >= 2
}

func check(t ev.TB, c Case) {
	ev.Eval()
	if c.Len < c.Width/8 {
		ev.Label("short-buffer")
	} else if c.Len == c.Width/8 {
		ev.Label("exact-buffer")
	} else {
		ev.Label("long-buffer")
	}
	if nonTrivial(c) {
		ev.NonTrivial(fmt.Sprintf("%d/%x/%d/%d", c.Width, c.Value, c.Off, c.Len))
		ev.Sample(c)
	}
	if msg := runCase(c); msg != "" {
		ev.Failf(t, "TestEncoding", c, "%s", msg)
	}
}

func TestEncoding(t *testing.T) {
	rapid.Check(t, func(t *rapid.T) { check(t, genCase(t)) })
}

func TestReplay(t *testing.T) {
	p := ev.ReplayPath()
	if p == "" {
		t.Skip("no replay")
	}
	r, err := ev.LoadReplay(p)
	if err != nil {
		t.Fatal(err)
	}
	if r.Test == "TestSequences" {
		var c SeqCase
		if err := json.Unmarshal(r.Case, &c); err != nil {
			t.Fatal(err)
		}
		checkSeq(t, c)
		return
	}
	var c Case
	if err := json.Unmarshal(r.Case, &c); err != nil {
		t.Fatal(err)
	}
	check(t, c)
}
