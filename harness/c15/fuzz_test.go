package c15

import "testing"

// FuzzEncoding is the byte-level, coverage-guided counterpart of TestEncoding:
// the fuzzer chooses the width, the value, the whole underlying array and where
// the buffer lies inside it. Same oracle (runCase).
func FuzzEncoding(f *testing.F) {
	f.Add(true, uint64(0x0102030405060708), []byte("0123456789abcdefghij"), uint8(3), uint8(9))
	f.Add(false, uint64(0xdeadbeef), []byte("0123456789abcdefghij"), uint8(0), uint8(4))
	f.Add(true, ^uint64(0), []byte{1, 2, 3, 4, 5, 6, 7}, uint8(0), uint8(7))
	f.Add(false, uint64(1)<<31, []byte{1, 2, 3}, uint8(1), uint8(2))
	f.Add(true, uint64(0), []byte{}, uint8(0), uint8(0))
	f.Fuzz(func(t *testing.T, w64 bool, v uint64, arr []byte, off, ln uint8) {
		c := Case{Width: 32, Value: v, Arr: arr}
		if w64 {
			c.Width = 64
		} else {
			c.Value &= 0xffffffff
		}
		if len(arr) > 0 {
			c.Off = int(off) % (len(arr) + 1)
			c.Len = int(ln) % (len(arr) - c.Off + 1)
		}
		check(t, c)
	})
}
