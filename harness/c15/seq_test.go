package c15

import (
	"fmt"
	"testing"

	"github.com/goose-lang/goose/machine"
	"pgregory.net/rapid"

	"verifharness/ev"
)

// Sequences of Put/Get calls through windows of ONE backing array, interleaved
// with direct byte stores, against a byte-array model (seeded change C15-7: an
// encoder that remembers what it decoded last and skips a Put that "cannot
// change anything" — wrong once another window or a plain store has touched the
// word in between). TestEncoding looks at single calls on fresh arrays; the
// statement's "for every value and every buffer" includes buffers that alias
// what earlier calls used.

// SeqOp is one step. Windows are Arr[Off:Off+Len].
type SeqOp struct {
	Kind  string `json:"kind"` // put64 put32 get64 get32 store copy
	Off   int    `json:"off"`
	Len   int    `json:"len"`
	Value uint64 `json:"value,omitempty"`
	// ValueFrom: "" literal; "last" the result of the latest Get; "last+1"; "here" what the target
	// window decodes to now (a Put that changes nothing); "at" what the window at From decodes to
	ValueFrom string `json:"value_from,omitempty"`
	From      int    `json:"from,omitempty"`
}

type SeqCase struct {
	Arr []byte  `json:"arr"`
	Ops []SeqOp `json:"ops"`
}

func runSeq(c SeqCase) string {
	arr := append([]byte(nil), c.Arr...)
	model := append([]byte(nil), c.Arr...)
	var last uint64
	n := len(arr)
	for k, op := range c.Ops {
		if op.Off < 0 || op.Len < 0 || op.Off+op.Len > n {
			return ""
		}
		w := 8
		if op.Kind == "put32" || op.Kind == "get32" {
			w = 4
		}
		desc := fmt.Sprintf("step %d %s [%d:%d]", k, op.Kind, op.Off, op.Off+op.Len)
		switch op.Kind {
		case "store":
			if op.Off < n {
				arr[op.Off] = byte(op.Value)
				model[op.Off] = byte(op.Value)
			}
		case "copy":
			if op.From >= 0 && op.From+op.Len <= n {
				copy(arr[op.Off:op.Off+op.Len], arr[op.From:op.From+op.Len])
				copy(model[op.Off:op.Off+op.Len], append([]byte(nil), model[op.From:op.From+op.Len]...))
			}
		case "get64", "get32":
			var v uint64
			p := catch(func() {
				if w == 8 {
					v = machine.UInt64Get(arr[op.Off : op.Off+op.Len])
				} else {
					v = uint64(machine.UInt32Get(arr[op.Off : op.Off+op.Len]))
				}
			})
			if op.Len < w {
				if !p {
					return desc + ": accepted a short buffer"
				}
				break
			}
			if p {
				return desc + ": panicked"
			}
			if want := refDecode(model[op.Off:], w*8); v != want {
				return fmt.Sprintf("%s = %#x, the bytes there decode to %#x", desc, v, want)
			}
			last = v
		case "put64", "put32":
			v := op.Value
			switch op.ValueFrom {
			case "last":
				v = last
			case "last+1":
				v = last + 1
			case "here":
				if op.Len >= w {
					v = refDecode(model[op.Off:], w*8)
				}
			case "at":
				if op.From >= 0 && op.From+w <= n {
					v = refDecode(model[op.From:], w*8)
				}
			}
			if w == 4 {
				v &= 0xffffffff
			}
			p := catch(func() {
				if w == 8 {
					machine.UInt64Put(arr[op.Off:op.Off+op.Len], v)
				} else {
					machine.UInt32Put(arr[op.Off:op.Off+op.Len], uint32(v))
				}
			})
			if op.Len < w {
				if !p {
					return desc + ": accepted a short buffer"
				}
			} else {
				if p {
					return desc + ": panicked"
				}
				copy(model[op.Off:], refEncode(v, w*8))
			}
			desc = fmt.Sprintf("%s value %#x", desc, v)
		default:
			return ""
		}
		for i := range arr {
			if arr[i] != model[i] {
				return fmt.Sprintf("after %s: array byte %d = %#x, want %#x (history of %d steps on one array)", desc, i, arr[i], model[i], k+1)
			}
		}
	}
	return ""
}

func genSeq(t *rapid.T) SeqCase {
	var c SeqCase
	n := rapid.IntRange(12, 40).Draw(t, "n")
	c.Arr = rapid.SliceOfN(rapid.Byte(), n, n).Draw(t, "arr")
	steps := rapid.IntRange(2, 14).Draw(t, "steps")
	// windows cluster around a few anchors so that they overlap often
	anchor := rapid.IntRange(0, n-8).Draw(t, "anchor")
	for i := 0; i < steps; i++ {
		var op SeqOp
		op.Kind = rapid.SampledFrom([]string{"put64", "put64", "put32", "put32", "get64", "get64", "get32", "store", "copy"}).Draw(t, "kind")
		if rapid.IntRange(0, 3).Draw(t, "near") > 0 {
			op.Off = anchor + rapid.IntRange(-8, 8).Draw(t, "delta")
			if op.Off < 0 {
				op.Off = 0
			}
			if op.Off > n {
				op.Off = n
			}
		} else {
			op.Off = rapid.IntRange(0, n).Draw(t, "off")
		}
		switch op.Kind {
		case "store":
			if op.Off >= n {
				op.Off = n - 1
			}
			op.Value = uint64(rapid.Byte().Draw(t, "b"))
		case "copy":
			op.Len = rapid.IntRange(0, n-op.Off).Draw(t, "clen")
			if op.Len > 8 {
				op.Len = 8
			}
			op.From = rapid.IntRange(0, n-op.Len).Draw(t, "from")
		default:
			w := 8
			if op.Kind == "put32" || op.Kind == "get32" {
				w = 4
			}
			max := n - op.Off
			switch rapid.IntRange(0, 5).Draw(t, "lenkind") {
			case 0:
				op.Len = rapid.IntRange(0, max).Draw(t, "len")
			case 1:
				op.Len = w
			default:
				op.Len = rapid.IntRange(w, w+6).Draw(t, "lenOver")
			}
			if op.Len > max {
				op.Len = max
			}
			if op.Kind[0] == 'p' {
				op.ValueFrom = rapid.SampledFrom([]string{"", "", "last", "last", "last+1", "here", "at"}).Draw(t, "valueFrom")
				switch op.ValueFrom {
				case "":
					if rapid.Bool().Draw(t, "boundary") {
						op.Value = rapid.SampledFrom(boundary64).Draw(t, "bval")
					} else {
						op.Value = rapid.Uint64().Draw(t, "val")
					}
				case "at":
					op.From = rapid.IntRange(0, n-w).Draw(t, "from")
				}
			}
		}
		c.Ops = append(c.Ops, op)
	}
	return c
}

// a sequence is non-trivial when a Put lands on bytes an earlier Get decoded or an earlier Put wrote
// through a DIFFERENT window
func seqNonTrivial(c SeqCase) (overlap, backward bool) {
	type win struct{ off, w int }
	var seen []win
	for _, op := range c.Ops {
		w := 8
		if op.Kind == "put32" || op.Kind == "get32" {
			w = 4
		}
		switch op.Kind {
		case "put64", "put32", "get64", "get32":
			if op.Len < w {
				continue
			}
			if op.Kind[0] == 'p' {
				for _, s := range seen {
					if s.off != op.Off && op.Off < s.off+s.w && s.off < op.Off+w {
						overlap = true
						if op.Off < s.off {
							backward = true
						}
					}
				}
			}
			seen = append(seen, win{op.Off, w})
		}
	}
	return
}

func checkSeq(t ev.TB, c SeqCase) {
	ev.Eval()
	ov, back := seqNonTrivial(c)
	if ov {
		ev.Label("sequence: a Put overlaps an earlier window at another offset")
		ev.NonTrivial(fmt.Sprintf("seq/%x", ev.Hash(fmt.Sprint(c))))
		ev.Sample(c)
	}
	if back {
		ev.Label("sequence: a Put starts before an earlier window and runs into it")
	}
	for _, op := range c.Ops {
		ev.Label("sequence op: " + op.Kind)
		if op.ValueFrom != "" {
			ev.Label("sequence value: " + op.ValueFrom)
		}
	}
	if msg := runSeq(c); msg != "" {
		ev.Failf(t, "TestSequences", c, "%s", msg)
	}
}

func TestSequences(t *testing.T) {
	rapid.Check(t, func(t *rapid.T) { checkSeq(t, genSeq(t)) })
}
