package tv

import (
	"fmt"
	"go/ast"
	"go/token"
	"go/types"
	"sort"
	"strings"

	goose "github.com/goose-lang/goose"

	"verifharness/glang"
	"verifharness/vread"
)

// EntryReport is the comparison of one entry function.
type EntryReport struct {
	Name      string
	Go        string // canonical Go result ("" if Go panicked)
	GoPanic   string
	Model     string // canonical model result, or outcome description
	Outcome   string // glang outcome kind
	Agree     bool
	EvalOrder bool   // disagreement disappears under left-to-right evaluation (known finding T3)
	GoSteps   uint64 // function entries + loop iterations of the Go run
	FuelUsed  int64  // interpreter steps of the GooseLang run
}

// Report is the result of validating one program.
type Report struct {
	GeneratorBug string   // non-empty: the program is unusable (does not type-check / compile); never a violation
	Violations   []string // property violations, human readable
	GooseErrors  []string
	Rejected     map[string]string // Coq name of a rejected declaration -> error
	// RejectedImport: an import declaration was rejected (renamed / dot imports); every function
	// that uses a qualified name may then refer to something undefined, as with any other rejected
	// declaration
	RejectedImport bool
	Entries        []EntryReport
	Text           string   // emitted GooseLang
	Unknown        []string // model lacks a primitive (inconclusive entries)
}

// Fuel for one entry evaluation.
const Fuel = 2_000_000

// SmallRun: a Go run with at most this many function entries + loop iterations cannot need Fuel
// interpreter steps (measured: generated programs use < 400 interpreter steps per Go step, see
// the fuel-per-go-step extra counter of C01's evidence). StepCost/BigFuel bound the retry.
const (
	SmallRun = 2000
	StepCost = 2000
	BigFuel  = 300_000_000
)

// Options of ValidateOpts.
type Options struct {
	// AllowReject: a conversion error located inside a top-level declaration
	// is a legitimate outcome for that declaration (C02/C07); entries that are
	// rejected, or that reach a rejected declaration, are not compared.
	AllowReject bool
}

// Validate runs the whole differential pipeline on one package source
// (package main, without a main function, entries named entryN); any
// conversion error is a violation (C01).
func Validate(src string, runner *GoRunner) *Report {
	return ValidateOpts(src, runner, Options{})
}

// declNamesAt returns the Coq names defined by the top-level declaration containing pos.
func inImportDecl(tr *Translation, pos token.Pos) bool {
	for _, f := range tr.Files {
		for _, d := range f.Decls {
			if gd, ok := d.(*ast.GenDecl); ok && gd.Tok == token.IMPORT && d.Pos() <= pos && pos <= d.End() {
				return true
			}
		}
	}
	return false
}

func declNamesAt(tr *Translation, pos token.Pos) []string {
	for _, f := range tr.Files {
		for _, d := range f.Decls {
			if gd, ok := d.(*ast.GenDecl); ok && d.Pos() <= pos && pos <= d.End() {
				var names []string
				for _, sp := range gd.Specs {
					switch sp := sp.(type) {
					case *ast.TypeSpec:
						names = append(names, sp.Name.Name)
					case *ast.ValueSpec:
						for _, n := range sp.Names {
							names = append(names, n.Name)
						}
					}
				}
				if len(names) > 0 {
					return names
				}
			}
		}
	}
	if n := declNameAt(tr, pos); n != "" {
		return []string{n}
	}
	return nil
}

// declNameAt returns the Coq name of the top-level declaration containing pos.
func declNameAt(tr *Translation, pos token.Pos) string {
	for _, f := range tr.Files {
		for _, d := range f.Decls {
			if d.Pos() <= pos && pos <= d.End() {
				switch d := d.(type) {
				case *ast.FuncDecl:
					if d.Recv != nil && len(d.Recv.List) == 1 {
						t := d.Recv.List[0].Type
						if st, ok := t.(*ast.StarExpr); ok {
							t = st.X
						}
						if id, ok := t.(*ast.Ident); ok {
							// calls name a method after the type behind an alias receiver
							return aliasTarget(tr, id.Name) + "__" + d.Name.Name
						}
					}
					return d.Name.Name
				case *ast.GenDecl:
					for _, sp := range d.Specs {
						switch sp := sp.(type) {
						case *ast.TypeSpec:
							return sp.Name.Name
						case *ast.ValueSpec:
							return sp.Names[0].Name
						case *ast.ImportSpec:
							return "import"
						}
					}
					return "gendecl"
				}
			}
		}
	}
	return ""
}

// aliasTarget follows `type A = T` declarations of the package (T an identifier).
func aliasTarget(tr *Translation, name string) string {
	for hops := 0; hops < 8; hops++ {
		next := ""
		for _, f := range tr.Files {
			for _, d := range f.Decls {
				if gd, ok := d.(*ast.GenDecl); ok {
					for _, sp := range gd.Specs {
						if ts, ok := sp.(*ast.TypeSpec); ok && ts.Name.Name == name && ts.Assign.IsValid() {
							if id, ok := ts.Type.(*ast.Ident); ok {
								next = id.Name
							}
						}
					}
				}
			}
		}
		if next == "" {
			return name
		}
		name = next
	}
	return name
}

// ValidateOpts is Validate with options.
func ValidateOpts(src string, runner *GoRunner, opts Options) *Report {
	rep := &Report{Rejected: map[string]string{}}
	tr, err := Translate("main", []SourceFile{{Name: "prog.go", Src: src}}, goose.TranslationConfig{})
	if err != nil {
		rep.GeneratorBug = err.Error()
		return rep
	}
	rep.Text = tr.Text
	if tr.Panic != nil {
		rep.Violations = append(rep.Violations, fmt.Sprintf("goose panicked: %v\n%s", tr.Panic, firstLines(tr.PanicStack, 30)))
		return rep
	}
	for _, e := range tr.Errs {
		rep.GooseErrors = append(rep.GooseErrors, e.Error())
	}
	if len(tr.Errs) > 0 && !opts.AllowReject {
		rep.Violations = append(rep.Violations, "goose rejected a program of the supported subset:\n"+strings.Join(rep.GooseErrors, "\n"))
		return rep
	}
	for _, e := range tr.Errs {
		ce, ok := e.(*goose.ConversionError)
		if !ok {
			rep.Violations = append(rep.Violations, fmt.Sprintf("goose reported a non-structured error (%T): %v", e, e))
			continue
		}
		if inImportDecl(tr, ce.Pos) {
			rep.RejectedImport = true
			continue
		}
		names := declNamesAt(tr, ce.Pos)
		if len(names) == 0 {
			rep.Violations = append(rep.Violations, fmt.Sprintf("conversion error is not located inside any declaration of the package: %v", ce))
			continue
		}
		for _, name := range names {
			rep.Rejected[name] = "[" + ce.Category + "] " + ce.Message
		}
	}
	if len(rep.Violations) > 0 {
		return rep
	}
	vf, err := vread.ParseFile(tr.Text)
	if err != nil {
		rep.Violations = append(rep.Violations, "emitted text does not parse: "+err.Error()+"\n"+excerpt(tr.Text, err))
		return rep
	}
	// entries
	var entries []Entry
	sigs := map[string]*types.Signature{}
	scope := tr.Pkg.Scope()
	names := scope.Names()
	sort.Strings(names)
	for _, n := range names {
		if !strings.HasPrefix(n, "entry") {
			continue
		}
		f, ok := scope.Lookup(n).(*types.Func)
		if !ok {
			continue
		}
		sig := f.Type().(*types.Signature)
		if sig.Params().Len() != 0 || sig.Recv() != nil {
			continue
		}
		entries = append(entries, Entry{Name: n, NResults: sig.Results().Len()})
		sigs[n] = sig
	}
	if len(entries) == 0 {
		rep.GeneratorBug = "no entry functions"
		return rep
	}
	gr, err := runner.Run(src, entries)
	if err != nil {
		rep.GeneratorBug = err.Error()
		return rep
	}
	prog := glang.Load("main", map[string]*vread.File{"main": vf})
	// Coq names shared by several Go declarations (a method bar of Foo and a function Foo__bar;
	// blank declarations): when one of them is rejected the name may still be defined — by the
	// other one — and an entry that reaches the rejected one silently runs the other
	shared := map[string]int{}
	for _, f := range tr.Files {
		for _, d := range f.Decls {
			for _, n := range declNamesAt(tr, d.Pos()) {
				shared[n]++
			}
		}
	}
	clash := map[string]bool{}
	for name := range rep.Rejected {
		if shared[name] > 1 {
			clash[name] = true
		}
	}
	// a rejected declaration must not appear in the output at all
	for name := range rep.Rejected {
		if clash[name] {
			continue
		}
		if vf.Def(name) != nil {
			rep.Violations = append(rep.Violations, fmt.Sprintf("declaration %s was rejected with an error but is also emitted", name))
		}
	}
	for _, e := range entries {
		er := EntryReport{Name: e.Name}
		if _, rej := rep.Rejected[e.Name]; rej {
			er.Outcome = "rejected"
			rep.Entries = append(rep.Entries, er)
			continue
		}
		goRes, ok := gr.Results[e.Name]
		if !ok {
			er.GoPanic = gr.Panicked[e.Name]
			rep.Entries = append(rep.Entries, er)
			continue
		}
		er.Go = goRes
		var tys []types.Type
		res := sigs[e.Name].Results()
		for i := 0; i < res.Len(); i++ {
			tys = append(tys, res.At(i).Type())
		}
		er.GoSteps = gr.Steps[e.Name]
		fuel := int64(Fuel)
		run := func(ltr bool) (string, string) {
			in := glang.NewInterp(prog, fuel)
			in.LeftToRight = ltr
			out := in.Run(e.Name)
			er.FuelUsed = fuel - in.Fuel
			if out.Kind != glang.Value {
				return out.Kind.String(), out.Kind.String() + ": " + out.Msg
			}
			return "value", Canon(in, out.Val, tys)
		}
		er.Outcome, er.Model = run(false)
		if er.Outcome == "out-of-fuel" && er.GoSteps > SmallRun {
			// The Go run itself was long (nested loops over a growing slice, …): give the model
			// StepCost steps per Go step, up to BigFuel; if that is still not enough the case is
			// inconclusive, not a violation. (A short Go run that exhausts 2M steps stays a violation:
			// that is what a translated loop that never ends looks like.)
			fuel = int64(er.GoSteps) * StepCost
			if fuel > BigFuel {
				fuel = BigFuel
			}
			if fuel > Fuel {
				er.Outcome, er.Model = run(false)
			}
			if er.Outcome == "out-of-fuel" {
				er.Outcome = "long-run-inconclusive"
				rep.Entries = append(rep.Entries, er)
				continue
			}
		}
		er.Agree = er.Outcome == "value" && er.Model == er.Go
		if !er.Agree {
			dangling := false
			if rep.RejectedImport && er.Outcome == "stuck" && strings.Contains(er.Model, "is neither defined") {
				dangling = true
			}
			for name := range rep.Rejected {
				if er.Outcome == "stuck" && strings.Contains(er.Model, "identifier "+name+" is neither defined") {
					dangling = true
				}
			}
			if len(clash) > 0 && reaches(vf, e.Name, clash) {
				dangling = true
			}
			if dangling {
				er.Outcome = "reaches-rejected"
			} else if er.Outcome == "unknown-primitive" {
				rep.Unknown = append(rep.Unknown, e.Name+": "+er.Model)
			} else {
				if o2, m2 := run(true); o2 == "value" && m2 == er.Go {
					er.EvalOrder = true
				}
				if !er.EvalOrder {
					rep.Violations = append(rep.Violations, fmt.Sprintf("%s: Go returned\n    %s\n  GooseLang (%s):\n    %s", e.Name, er.Go, er.Outcome, er.Model))
				}
			}
		}
		rep.Entries = append(rep.Entries, er)
	}
	return rep
}

// reaches reports whether the definition `from` mentions, directly or through other definitions
// of the file, one of the names.
func reaches(vf *vread.File, from string, names map[string]bool) bool {
	seen := map[string]bool{}
	var visit func(n string) bool
	visit = func(n string) bool {
		if names[n] {
			return true
		}
		if seen[n] {
			return false
		}
		seen[n] = true
		d := vf.Def(n)
		if d == nil {
			return false
		}
		found := false
		vread.Walk(d.Body, func(e vread.Expr) bool {
			if g, ok := e.(vread.Gid); ok && !found && visit(g.Name) {
				found = true
			}
			return !found
		})
		return found
	}
	return visit(from)
}

func firstLines(s string, n int) string {
	ls := strings.Split(s, "\n")
	if len(ls) > n {
		ls = ls[:n]
	}
	return strings.Join(ls, "\n")
}

func excerpt(text string, err error) string {
	pos := -1
	switch e := err.(type) {
	case *vread.ParseError:
		pos = e.Pos
	case *vread.LexError:
		pos = e.Pos
	}
	if pos < 0 {
		return ""
	}
	lo, hi := pos-200, pos+100
	if lo < 0 {
		lo = 0
	}
	if hi > len(text) {
		hi = len(text)
	}
	if pos > len(text) {
		pos = len(text)
	}
	return "…" + text[lo:pos] + "⟦HERE⟧" + text[pos:hi] + "…"
}
