package tv

import (
	"fmt"
	"go/types"
	"sort"
	"strings"

	goose "github.com/goose-lang/goose"

	"verifharness/glang"
	"verifharness/vread"
)

// EntryReport is the comparison of one entry function.
type EntryReport struct {
	Name     string
	Go       string // canonical Go result ("" if Go panicked)
	GoPanic  string
	Model    string // canonical model result, or outcome description
	Outcome  string // glang outcome kind
	Agree    bool
	EvalOrder bool // disagreement disappears under left-to-right evaluation (known finding T3)
}

// Report is the result of validating one program.
type Report struct {
	GeneratorBug string   // non-empty: the program is unusable (does not type-check / compile); never a violation
	Violations   []string // property violations, human readable
	GooseErrors  []string
	Entries      []EntryReport
	Text         string // emitted GooseLang
	Unknown      []string // model lacks a primitive (inconclusive entries)
}

// Fuel for one entry evaluation.
const Fuel = 2_000_000

// Validate runs the whole differential pipeline on one package source
// (package main, without a main function, entries named entryN).
func Validate(src string, runner *GoRunner) *Report {
	rep := &Report{}
	tr, err := Translate("main", []SourceFile{{Name: "prog.go", Src: src}}, goose.TranslationConfig{})
	if err != nil {
		rep.GeneratorBug = err.Error()
		return rep
	}
	rep.Text = tr.Text
	if tr.Panic != nil {
		rep.Violations = append(rep.Violations, fmt.Sprintf("goose panicked: %v\n%s", tr.Panic, firstLines(tr.PanicStack, 30)))
		return rep
	}
	for _, e := range tr.Errs {
		rep.GooseErrors = append(rep.GooseErrors, e.Error())
	}
	if len(tr.Errs) > 0 {
		rep.Violations = append(rep.Violations, "goose rejected a program of the supported subset:\n"+strings.Join(rep.GooseErrors, "\n"))
		return rep
	}
	vf, err := vread.ParseFile(tr.Text)
	if err != nil {
		rep.Violations = append(rep.Violations, "emitted text does not parse: "+err.Error()+"\n"+excerpt(tr.Text, err))
		return rep
	}
	// entries
	var entries []Entry
	sigs := map[string]*types.Signature{}
	scope := tr.Pkg.Scope()
	names := scope.Names()
	sort.Strings(names)
	for _, n := range names {
		if !strings.HasPrefix(n, "entry") {
			continue
		}
		f, ok := scope.Lookup(n).(*types.Func)
		if !ok {
			continue
		}
		sig := f.Type().(*types.Signature)
		if sig.Params().Len() != 0 || sig.Recv() != nil {
			continue
		}
		entries = append(entries, Entry{Name: n, NResults: sig.Results().Len()})
		sigs[n] = sig
	}
	if len(entries) == 0 {
		rep.GeneratorBug = "no entry functions"
		return rep
	}
	gr, err := runner.Run(src, entries)
	if err != nil {
		rep.GeneratorBug = err.Error()
		return rep
	}
	prog := glang.Load("main", map[string]*vread.File{"main": vf})
	for _, e := range entries {
		er := EntryReport{Name: e.Name}
		goRes, ok := gr.Results[e.Name]
		if !ok {
			er.GoPanic = gr.Panicked[e.Name]
			rep.Entries = append(rep.Entries, er)
			continue
		}
		er.Go = goRes
		var tys []types.Type
		res := sigs[e.Name].Results()
		for i := 0; i < res.Len(); i++ {
			tys = append(tys, res.At(i).Type())
		}
		run := func(ltr bool) (string, string) {
			in := glang.NewInterp(prog, Fuel)
			in.LeftToRight = ltr
			out := in.Run(e.Name)
			if out.Kind != glang.Value {
				return out.Kind.String(), out.Kind.String() + ": " + out.Msg
			}
			return "value", Canon(in, out.Val, tys)
		}
		er.Outcome, er.Model = run(false)
		er.Agree = er.Outcome == "value" && er.Model == er.Go
		if !er.Agree {
			if er.Outcome == "unknown-primitive" {
				rep.Unknown = append(rep.Unknown, e.Name+": "+er.Model)
			} else {
				if o2, m2 := run(true); o2 == "value" && m2 == er.Go {
					er.EvalOrder = true
				}
				if !er.EvalOrder {
					rep.Violations = append(rep.Violations, fmt.Sprintf("%s: Go returned\n    %s\n  GooseLang (%s):\n    %s", e.Name, er.Go, er.Outcome, er.Model))
				}
			}
		}
		rep.Entries = append(rep.Entries, er)
	}
	return rep
}

func firstLines(s string, n int) string {
	ls := strings.Split(s, "\n")
	if len(ls) > n {
		ls = ls[:n]
	}
	return strings.Join(ls, "\n")
}

func excerpt(text string, err error) string {
	pos := -1
	switch e := err.(type) {
	case *vread.ParseError:
		pos = e.Pos
	case *vread.LexError:
		pos = e.Pos
	}
	if pos < 0 {
		return ""
	}
	lo, hi := pos-200, pos+100
	if lo < 0 {
		lo = 0
	}
	if hi > len(text) {
		hi = len(text)
	}
	if pos > len(text) {
		pos = len(text)
	}
	return "…" + text[lo:pos] + "⟦HERE⟧" + text[pos:hi] + "…"
}
