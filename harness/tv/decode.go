package tv

import (
	"fmt"
	"go/types"
	"sort"
	"strings"

	"verifharness/glang"
)

// GlangType maps a Go type of the source program to the GooseLang type goose
// is expected to use for it (built from the Go declarations, independently of
// the emitted struct descriptors).
func GlangType(t types.Type) glang.Type {
	switch u := t.Underlying().(type) {
	case *types.Basic:
		switch u.Kind() {
		case types.Uint64:
			return glang.TBase{Name: "uint64T"}
		case types.Uint32:
			return glang.TBase{Name: "uint32T"}
		case types.Uint8:
			return glang.TBase{Name: "byteT"}
		case types.Bool:
			return glang.TBase{Name: "boolT"}
		case types.String:
			return glang.TBase{Name: "stringT"}
		}
	case *types.Struct:
		d := &glang.Desc{Name: types.TypeString(t, nil)}
		for i := 0; i < u.NumFields(); i++ {
			d.Fields = append(d.Fields, glang.DescField{Name: u.Field(i).Name(), Type: GlangType(u.Field(i).Type())})
		}
		return glang.TStruct{D: d}
	case *types.Pointer:
		return glang.TBase{Name: "ptrT"}
	case *types.Slice:
		return glang.TSlice{Elem: GlangType(u.Elem())}
	case *types.Map:
		return glang.TBase{Name: "mapT"}
	}
	return glang.TBase{Name: "ptrT"}
}

type ptrKey struct {
	b   *glang.Block
	off int
	t   string
}

type decoder struct {
	in   *glang.Interp
	seen map[ptrKey]int
}

// Canon renders GooseLang result values of the given Go types in the same
// canonical format as the Go-side printer. A shape mismatch is rendered as
// <bad …> so that it shows up as a difference.
func Canon(in *glang.Interp, v glang.Val, tys []types.Type) (s string) {
	defer func() {
		if r := recover(); r != nil {
			s = fmt.Sprintf("<decode stuck: %v>", r)
		}
	}()
	d := &decoder{in: in, seen: map[ptrKey]int{}}
	if len(tys) == 0 {
		return ""
	}
	// results are a left-nested tuple: ((r0, r1), r2)
	vals := make([]glang.Val, len(tys))
	cur := v
	for i := len(tys) - 1; i >= 1; i-- {
		p, ok := cur.(glang.VPair)
		if !ok {
			return fmt.Sprintf("<bad tuple %s>", glang.Show(v))
		}
		vals[i] = p.B
		cur = p.A
	}
	vals[0] = cur
	var parts []string
	for i, t := range tys {
		parts = append(parts, d.val(vals[i], t))
	}
	return strings.Join(parts, " | ")
}

func (d *decoder) val(v glang.Val, t types.Type) string {
	switch u := t.Underlying().(type) {
	case *types.Basic:
		switch u.Kind() {
		case types.Uint64, types.Uint32, types.Uint8:
			w := map[types.BasicKind]int{types.Uint64: 64, types.Uint32: 32, types.Uint8: 8}[u.Kind()]
			i, ok := v.(glang.VInt)
			if !ok || i.W != w {
				return fmt.Sprintf("<bad %s: %s>", u.Name(), glang.Show(v))
			}
			return fmt.Sprintf("%d%s", i.N, map[int]string{64: "", 32: "u32", 8: "u8"}[i.W])
		case types.Bool:
			b, ok := v.(glang.VBool)
			if !ok {
				return fmt.Sprintf("<bad bool: %s>", glang.Show(v))
			}
			return fmt.Sprintf("%v", bool(b))
		case types.String:
			s, ok := v.(glang.VStr)
			if !ok {
				return fmt.Sprintf("<bad string: %s>", glang.Show(v))
			}
			return fmt.Sprintf("%q", string(s))
		}
	case *types.Struct:
		var parts []string
		cur := v
		for i := 0; i < u.NumFields(); i++ {
			p, ok := cur.(glang.VPair)
			if !ok {
				return fmt.Sprintf("<bad struct %s: %s>", t, glang.Show(v))
			}
			parts = append(parts, u.Field(i).Name()+":"+d.val(p.A, u.Field(i).Type()))
			cur = p.B
		}
		if _, ok := cur.(glang.VUnit); !ok {
			return fmt.Sprintf("<bad struct %s (tail): %s>", t, glang.Show(v))
		}
		return "{" + strings.Join(parts, " ") + "}"
	case *types.Pointer:
		l, ok := v.(glang.VLoc)
		if !ok {
			return fmt.Sprintf("<bad pointer: %s>", glang.Show(v))
		}
		if l.B == nil {
			return "nil"
		}
		k := ptrKey{l.B, l.Off, types.TypeString(t, nil)}
		if n, ok := d.seen[k]; ok {
			return fmt.Sprintf("&#%d", n)
		}
		n := len(d.seen)
		d.seen[k] = n
		return fmt.Sprintf("&#%d=%s", n, d.val(d.in.LoadTy(GlangType(u.Elem()), l), u.Elem()))
	case *types.Slice:
		p, ok := v.(glang.VPair)
		if !ok {
			return fmt.Sprintf("<bad slice: %s>", glang.Show(v))
		}
		q, ok := p.A.(glang.VPair)
		if !ok {
			return fmt.Sprintf("<bad slice: %s>", glang.Show(v))
		}
		ptr, ok1 := q.A.(glang.VLoc)
		n, ok2 := q.B.(glang.VInt)
		if !ok1 || !ok2 || n.W != 64 {
			return fmt.Sprintf("<bad slice: %s>", glang.Show(v))
		}
		if n.N > 1<<20 {
			return fmt.Sprintf("<bad slice length %d>", n.N)
		}
		et := GlangType(u.Elem())
		sz := glang.TySize(et)
		var parts []string
		for i := 0; i < int(n.N); i++ {
			parts = append(parts, d.val(d.in.LoadTy(et, glang.VLoc{B: ptr.B, Off: ptr.Off + i*sz}), u.Elem()))
		}
		return "[" + strings.Join(parts, " ") + "]"
	case *types.Map:
		l, ok := v.(glang.VLoc)
		if !ok {
			return fmt.Sprintf("<bad map: %s>", glang.Show(v))
		}
		if l.B == nil {
			return "map[]"
		}
		m, ok := d.in.LoadTy(glang.TBase{Name: "mapT"}, l).(*glang.VMap)
		if !ok {
			return "<bad map cell>"
		}
		type kv struct {
			ks   string
			kn   uint64
			text string
		}
		var kvs []kv
		for i := range m.Keys {
			e := kv{text: d.val(m.Keys[i], u.Key()) + ":" + d.val(m.Vals[i], u.Elem())}
			switch k := m.Keys[i].(type) {
			case glang.VInt:
				e.kn = k.N
			case glang.VStr:
				e.ks = string(k)
			}
			kvs = append(kvs, e)
		}
		sort.Slice(kvs, func(i, j int) bool {
			if kvs[i].ks != kvs[j].ks {
				return kvs[i].ks < kvs[j].ks
			}
			return kvs[i].kn < kvs[j].kn
		})
		var parts []string
		for _, e := range kvs {
			parts = append(parts, e.text)
		}
		return "map[" + strings.Join(parts, " ") + "]"
	}
	return fmt.Sprintf("<unprintable %s>", t)
}
