package tv

import (
	"bytes"
	"context"
	"fmt"
	"go/ast"
	"go/parser"
	"go/printer"
	"go/token"
	"os"
	"os/exec"
	"path/filepath"
	"strconv"
	"strings"
	"time"

	"verifharness/ev"
)

// Entry describes a closed entry function of a generated program.
type Entry struct {
	Name     string
	NResults int
}

// canonSrc is the Go-side canonical printer compiled into every generated
// program. Format (must match Canon in decode.go):
//
//	uint64 123 | uint32 123u32 | byte 123u8 | bool | string %q
//	struct {f0:… f1:…} | pointer nil / &#k=<contents> on first visit / &#k later
//	slice [e0 e1 …] (nil = empty) | map map[k:v …] sorted by key (nil = empty)
const canonSrc = `package zzcanon

import (
	"fmt"
	"os"
	"reflect"
	"sort"
	"strings"
)

type zzPtrKey struct {
	p uintptr
	t string
}

type zzCanon struct {
	seen map[zzPtrKey]int
}

func (c *zzCanon) val(v reflect.Value) string {
	switch v.Kind() {
	case reflect.Uint64:
		return fmt.Sprintf("%d", v.Uint())
	case reflect.Uint32:
		return fmt.Sprintf("%du32", v.Uint())
	case reflect.Uint8:
		return fmt.Sprintf("%du8", v.Uint())
	case reflect.Bool:
		return fmt.Sprintf("%v", v.Bool())
	case reflect.String:
		return fmt.Sprintf("%q", v.String())
	case reflect.Struct:
		var parts []string
		for i := 0; i < v.NumField(); i++ {
			parts = append(parts, v.Type().Field(i).Name+":"+c.val(v.Field(i)))
		}
		return "{" + strings.Join(parts, " ") + "}"
	case reflect.Ptr:
		if v.IsNil() {
			return "nil"
		}
		k := zzPtrKey{v.Pointer(), v.Type().String()}
		if n, ok := c.seen[k]; ok {
			return fmt.Sprintf("&#%d", n)
		}
		n := len(c.seen)
		c.seen[k] = n
		return fmt.Sprintf("&#%d=%s", n, c.val(v.Elem()))
	case reflect.Slice:
		var parts []string
		for i := 0; i < v.Len(); i++ {
			parts = append(parts, c.val(v.Index(i)))
		}
		return "[" + strings.Join(parts, " ") + "]"
	case reflect.Map:
		keys := v.MapKeys()
		sort.Slice(keys, func(i, j int) bool {
			if keys[i].Kind() == reflect.String {
				return keys[i].String() < keys[j].String()
			}
			return keys[i].Uint() < keys[j].Uint()
		})
		var parts []string
		for _, k := range keys {
			parts = append(parts, c.val(k)+":"+c.val(v.MapIndex(k)))
		}
		return "map[" + strings.Join(parts, " ") + "]"
	}
	return "<unprintable " + v.Kind().String() + ">"
}

// All renders result values.
func All(vs ...interface{}) string {
	c := &zzCanon{seen: map[zzPtrKey]int{}}
	var parts []string
	for _, v := range vs {
		parts = append(parts, c.val(reflect.ValueOf(v)))
	}
	return strings.Join(parts, " | ")
}

// Steps is incremented by the instrumented copy of the program at every function entry and
// loop iteration (the work the Go run actually did; see tv.instrument).
var Steps uint64

// Run runs one entry and prints its canonical result or its panic.
func Run(name string, f func() string) {
	Steps = 0
	defer func() { fmt.Fprintf(os.Stdout, "%s STEPS %d\n", name, Steps) }()
	defer func() {
		if r := recover(); r != nil {
			fmt.Fprintf(os.Stdout, "%s PANIC %v\n", name, strings.ReplaceAll(fmt.Sprint(r), "\n", " "))
		}
	}()
	s := f()
	fmt.Fprintf(os.Stdout, "%s = %s\n", name, s)
}
`

// GoRunner compiles and runs generated programs in a scratch module.
type GoRunner struct {
	Dir string
	n   int
}

// NewGoRunner creates the scratch module (go.mod with a replace to the tree
// under test, go.sum copied from it).
func NewGoRunner() (*GoRunner, error) {
	dir := filepath.Join(ev.Scratch(), "gorun")
	os.RemoveAll(dir)
	if err := os.MkdirAll(dir, 0o755); err != nil {
		return nil, err
	}
	gomod := fmt.Sprintf("module gcase\n\ngo 1.22\n\nrequire github.com/goose-lang/goose v0.0.0\n\nreplace github.com/goose-lang/goose => %s\n", ev.Repo())
	if err := os.WriteFile(filepath.Join(dir, "go.mod"), []byte(gomod), 0o644); err != nil {
		return nil, err
	}
	sum, err := os.ReadFile(filepath.Join(ev.Repo(), "go.sum"))
	if err != nil {
		return nil, err
	}
	if err := os.WriteFile(filepath.Join(dir, "go.sum"), sum, 0o644); err != nil {
		return nil, err
	}
	ImportDir = dir
	return &GoRunner{Dir: dir}, nil
}

// shim renders main() calling every entry and printing canonical results.
func shim(entries []Entry) string {
	var sb strings.Builder
	sb.WriteString("package main\n\nimport \"gcase/zzcanon\"\n\n// zzStep counts function entries and loop iterations (instrumented copy only).\nfunc zzStep() { zzcanon.Steps++ }\n\nfunc main() {\n")
	for _, f := range entries {
		n := f.NResults
		var rs []string
		for i := 0; i < n; i++ {
			rs = append(rs, fmt.Sprintf("r%d", i))
		}
		fmt.Fprintf(&sb, "\tzzcanon.Run(%q, func() string {\n", f.Name)
		if n == 0 {
			fmt.Fprintf(&sb, "\t\t%s()\n\t\treturn zzcanon.All()\n", f.Name)
		} else {
			fmt.Fprintf(&sb, "\t\t%s := %s()\n\t\treturn zzcanon.All(%s)\n", strings.Join(rs, ", "), f.Name, strings.Join(rs, ", "))
		}
		sb.WriteString("\t})\n")
	}
	sb.WriteString("}\n")
	return sb.String()
}

// GoResult is the outcome of running a generated program.
type GoResult struct {
	Results  map[string]string // entry -> canonical rendering (only entries that returned normally)
	Panicked map[string]string // entry -> panic message
	Steps    map[string]uint64 // entry -> function entries + loop iterations executed by Go
}

// instrument returns src with a call of zzStep() (defined by the shim) at the start of every
// function body, function literal and loop body. The copy is only what the Go runner compiles;
// goose translates the original. The count bounds the work of the run from below in units the
// GooseLang interpreter's fuel can be compared with (out-of-fuel is a violation only when Go's
// own run was short).
func instrument(src string) string {
	fset := token.NewFileSet()
	f, err := parser.ParseFile(fset, "prog.go", src, parser.ParseComments)
	if err != nil {
		return src
	}
	step := func() ast.Stmt {
		return &ast.ExprStmt{X: &ast.CallExpr{Fun: ast.NewIdent("zzStep")}}
	}
	ast.Inspect(f, func(n ast.Node) bool {
		switch n := n.(type) {
		case *ast.FuncDecl:
			if n.Body != nil {
				n.Body.List = append([]ast.Stmt{step()}, n.Body.List...)
			}
		case *ast.FuncLit:
			n.Body.List = append([]ast.Stmt{step()}, n.Body.List...)
		case *ast.ForStmt:
			n.Body.List = append([]ast.Stmt{step()}, n.Body.List...)
		case *ast.RangeStmt:
			n.Body.List = append([]ast.Stmt{step()}, n.Body.List...)
		}
		return true
	})
	var buf bytes.Buffer
	if err := printer.Fprint(&buf, fset, f); err != nil {
		return src
	}
	return buf.String()
}

// BuildError means the generated program did not compile (generator bug).
type BuildError struct{ Out string }

func (e *BuildError) Error() string { return "generated program does not compile:\n" + e.Out }

// Run compiles src (package main, without main()) together with the shim and
// runs it.
func (r *GoRunner) Run(src string, entries []Entry) (*GoResult, error) {
	r.n++
	os.MkdirAll(filepath.Join(r.Dir, "zzcanon"), 0o755)
	for name, content := range map[string]string{"prog.go": instrument(src), "zzcanon/canon.go": canonSrc, "zz_main.go": shim(entries)} {
		if err := os.WriteFile(filepath.Join(r.Dir, name), []byte(content), 0o644); err != nil {
			return nil, err
		}
	}
	bin := filepath.Join(r.Dir, "prog.bin")
	ctx, cancel := context.WithTimeout(context.Background(), 120*time.Second)
	defer cancel()
	cmd := exec.CommandContext(ctx, "go", "build", "-o", bin, ".")
	cmd.Dir = r.Dir
	cmd.Env = append(os.Environ(), "GOFLAGS=-mod=mod", "GOPROXY=off", "GOSUMDB=off", "GOTOOLCHAIN=local")
	out, err := cmd.CombinedOutput()
	if err != nil {
		if ctx.Err() != nil {
			return nil, fmt.Errorf("go build timed out")
		}
		return nil, &BuildError{string(out)}
	}
	ctx2, cancel2 := context.WithTimeout(context.Background(), 20*time.Second)
	defer cancel2()
	run := exec.CommandContext(ctx2, bin)
	var so, se bytes.Buffer
	run.Stdout = &so
	run.Stderr = &se
	err = run.Run()
	if ctx2.Err() != nil {
		return nil, fmt.Errorf("generated program timed out (generator bug: unbounded loop)")
	}
	res := &GoResult{Results: map[string]string{}, Panicked: map[string]string{}, Steps: map[string]uint64{}}
	for _, line := range strings.Split(so.String(), "\n") {
		if i := strings.Index(line, " STEPS "); i > 0 && strings.HasPrefix(line, "entry") {
			n, _ := strconv.ParseUint(strings.TrimSpace(line[i+7:]), 10, 64)
			res.Steps[line[:i]] = n
		} else if i := strings.Index(line, " = "); i > 0 && strings.HasPrefix(line, "entry") {
			res.Results[line[:i]] = line[i+3:]
		} else if i := strings.Index(line, " PANIC "); i > 0 {
			res.Panicked[line[:i]] = line[i+7:]
		}
	}
	if err != nil && len(res.Results)+len(res.Panicked) < len(entries) {
		return res, fmt.Errorf("generated program died: %v: %s", err, se.String())
	}
	return res, nil
}

// ManyResult is the outcome multiset of repeated runs of entry0.
type ManyResult struct {
	Outcomes map[string]int // canonical result -> number of runs
	Panics   map[string]int
	Race     string // race detector report ("" if none)
	Runs     int
}

// RunMany builds src (plain and, if raceRuns > 0, with -race) and runs it
// repeatedly under different GOMAXPROCS values, collecting the results of the
// single entry function.
func (r *GoRunner) RunMany(src string, entry Entry, procs []int, repeat int, raceRuns int) (*ManyResult, error) {
	os.MkdirAll(filepath.Join(r.Dir, "zzcanon"), 0o755)
	for name, content := range map[string]string{"prog.go": src, "zzcanon/canon.go": canonSrc, "zz_main.go": shim([]Entry{entry})} {
		if err := os.WriteFile(filepath.Join(r.Dir, name), []byte(content), 0o644); err != nil {
			return nil, err
		}
	}
	env := append(os.Environ(), "GOFLAGS=-mod=mod", "GOPROXY=off", "GOSUMDB=off", "GOTOOLCHAIN=local")
	build := func(out string, race bool) error {
		args := []string{"build", "-o", out}
		if race {
			args = append(args, "-race")
		}
		args = append(args, ".")
		ctx, cancel := context.WithTimeout(context.Background(), 180*time.Second)
		defer cancel()
		cmd := exec.CommandContext(ctx, "go", args...)
		cmd.Dir = r.Dir
		cmd.Env = env
		if b, err := cmd.CombinedOutput(); err != nil {
			return &BuildError{string(b)}
		}
		return nil
	}
	res := &ManyResult{Outcomes: map[string]int{}, Panics: map[string]int{}}
	runOnce := func(bin string, p int, race bool) error {
		ctx, cancel := context.WithTimeout(context.Background(), 30*time.Second)
		defer cancel()
		cmd := exec.CommandContext(ctx, bin)
		cmd.Env = append(os.Environ(), fmt.Sprintf("GOMAXPROCS=%d", p), "GORACE=halt_on_error=1 exitcode=66")
		var so, se bytes.Buffer
		cmd.Stdout, cmd.Stderr = &so, &se
		err := cmd.Run()
		if ctx.Err() != nil {
			return fmt.Errorf("generated concurrent program timed out (deadlock or livelock in Go)")
		}
		if race && strings.Contains(se.String(), "DATA RACE") {
			res.Race = se.String()
			return nil
		}
		res.Runs++
		for _, line := range strings.Split(so.String(), "\n") {
			if i := strings.Index(line, " = "); i > 0 && strings.HasPrefix(line, entry.Name) {
				res.Outcomes[line[i+3:]]++
			} else if i := strings.Index(line, " PANIC "); i > 0 {
				res.Panics[line[i+7:]]++
			}
		}
		if err != nil && len(res.Outcomes)+len(res.Panics) == 0 {
			return fmt.Errorf("generated program died: %v: %s", err, se.String())
		}
		return nil
	}
	bin := filepath.Join(r.Dir, "prog.bin")
	if err := build(bin, false); err != nil {
		return nil, err
	}
	for _, p := range procs {
		for k := 0; k < repeat; k++ {
			if err := runOnce(bin, p, false); err != nil {
				return res, err
			}
		}
	}
	if raceRuns > 0 {
		rbin := filepath.Join(r.Dir, "prog.race.bin")
		if err := build(rbin, true); err != nil {
			return nil, err
		}
		for k := 0; k < raceRuns; k++ {
			if err := runOnce(rbin, []int{2, 4, 16}[k%3], true); err != nil {
				return res, err
			}
			if res.Race != "" {
				break
			}
		}
	}
	return res, nil
}
