package c16

import (
	"bytes"
	"encoding/json"
	"fmt"
	"math"
	"sync"
	"testing"

	"github.com/goose-lang/goose/machine"
	"pgregory.net/rapid"

	"verifharness/ev"
)

// nanSwitch is the generator exclusion switch of known finding L4 (MapClear
// cannot remove keys that are not equal to themselves): while it is on, no key
// that contains a NaN is generated.
const nanSwitch = "noNaNMapKeys"

// MapEntry is the abstract description of one key/value pair; each map type
// derives its key and its value from these fields (floats travel as bits so
// that NaN payloads survive JSON).
type MapEntry struct {
	K uint64 `json:"k"`
	S string `json:"s"`
	B bool   `json:"b"`
	V uint64 `json:"v"`
}

// MapCase: a map of type Type is built from Entries (later entries overwrite
// equal keys), cleared with MapClear, checked, refilled with After, checked
// against an association-list model, and cleared again.
type MapCase struct {
	Type    string     `json:"type"`
	Nil     bool       `json:"nil"`  // the map is a nil map (Entries and After are ignored)
	Hint    int        `json:"hint"` // make(M, Hint) capacity hint
	Entries []MapEntry `json:"entries"`
	After   []MapEntry `json:"after"`
}

type sKey struct {
	A uint64
	B string
	C bool
}

type fKey struct {
	F float64
	N uint64
}

type sVal struct {
	X uint64
	Y string
}

type namedKey uint64
type namedVal string
type namedMap map[namedKey]namedVal
type namedBytesMap map[string][]byte

const ptrPool = 12

var mapTypes = []string{"uint64-bool", "string-bytes", "struct-uint64", "ptr-string", "named", "named-bytes",
	"float64-uint64", "fstruct-bool", "iface-uint64", "array-string", "bool-uint64", "uint32-struct", "byte-ptr", "uint64-map"}

// hasNaNKey reports whether entry e yields a key containing a NaN in a map of
// type typ.
func hasNaNKey(typ string, e MapEntry) bool {
	f := math.Float64frombits(e.K)
	switch typ {
	case "float64-uint64", "fstruct-bool":
		return f != f
	case "iface-uint64":
		return e.V%4 == 3 && f != f
	}
	return false
}

// model is the reference: an association list using Go's == on keys.
type model[K comparable, V any] struct {
	keys []K
	vals []V
}

func (m *model[K, V]) put(k K, v V) {
	for i := range m.keys {
		if m.keys[i] == k {
			m.vals[i] = v
			return
		}
	}
	m.keys = append(m.keys, k)
	m.vals = append(m.vals, v)
}

func (m *model[K, V]) get(k K) (v V, ok bool) {
	for i := range m.keys {
		if m.keys[i] == k {
			return m.vals[i], true
		}
	}
	return v, false
}

// modelLimit bounds the quadratic model; beyond it only len/emptiness are checked.
const modelLimit = 300

func runMapT[M ~map[K]V, K comparable, V any](c MapCase, key func(MapEntry) K, val func(MapEntry) V, eq func(a, b V) bool) string {
	var m M
	if !c.Nil {
		m = make(M, c.Hint)
	}
	alias := m
	var keys []K
	if !c.Nil {
		for _, e := range c.Entries {
			k := key(e)
			m[k] = val(e)
			keys = append(keys, k)
		}
	}
	n0 := len(m)
	if p, v := catch(func() { machine.MapClear(m) }); p {
		return fmt.Sprintf("MapClear panicked on a %d-entry %s map: %v", n0, c.Type, v)
	}
	if len(m) != 0 {
		return fmt.Sprintf("after MapClear of a %d-entry %s map len = %d, want 0", n0, c.Type, len(m))
	}
	if len(alias) != 0 {
		return fmt.Sprintf("after MapClear an alias of the map has len %d", len(alias))
	}
	for k := range m {
		return fmt.Sprintf("after MapClear range still yields key %v", k)
	}
	for _, k := range keys {
		if _, ok := m[k]; ok {
			return fmt.Sprintf("after MapClear key %v is still present", k)
		}
	}
	if c.Nil {
		if m != nil {
			return "MapClear made a nil map non-nil"
		}
		return ""
	}
	// still usable: insert, look up, clear again
	var ref model[K, V]
	useModel := len(c.After) <= modelLimit
	for i, e := range c.After {
		k, v := key(e), val(e)
		m[k] = v
		if !useModel {
			continue
		}
		ref.put(k, v)
		if len(m) != len(ref.keys) {
			return fmt.Sprintf("after MapClear and %d inserts len = %d, model has %d", i+1, len(m), len(ref.keys))
		}
	}
	if useModel {
		for _, e := range c.After {
			k := key(e)
			got, ok := m[k]
			want, wok := ref.get(k)
			if ok != wok || (ok && !eq(got, want)) {
				return fmt.Sprintf("after MapClear and refill lookup of %v = (%v, %v), model says (%v, %v)", k, got, ok, want, wok)
			}
		}
		for _, k := range keys {
			_, ok := m[k]
			if _, wok := ref.get(k); ok != wok {
				return fmt.Sprintf("after MapClear and refill old key %v present=%v, model says %v", k, ok, wok)
			}
		}
		seen := 0
		for k, v := range m {
			seen++
			if k != k {
				continue // a NaN-containing key cannot be looked up, by Go's semantics
			}
			if want, ok := ref.get(k); !ok || !eq(v, want) {
				return fmt.Sprintf("after MapClear and refill range yields (%v, %v), model says (%v, %v)", k, v, want, ok)
			}
		}
		if seen != len(ref.keys) {
			return fmt.Sprintf("after MapClear and refill range yields %d entries, model has %d", seen, len(ref.keys))
		}
	}
	n1 := len(m)
	if p, v := catch(func() { machine.MapClear(m) }); p {
		return fmt.Sprintf("second MapClear panicked on a %d-entry %s map: %v", n1, c.Type, v)
	}
	if len(m) != 0 {
		return fmt.Sprintf("after a second MapClear (of the refilled %d-entry %s map) len = %d, want 0", n1, c.Type, len(m))
	}
	for k := range m {
		return fmt.Sprintf("after the second MapClear range still yields key %v", k)
	}
	return ""
}

func eqOf[V comparable](a, b V) bool { return a == b }

// runMap returns "" when the property holds on c.
func runMap(c MapCase) string {
	switch c.Type {
	case "uint64-bool":
		return runMapT[map[uint64]bool](c, func(e MapEntry) uint64 { return e.K }, func(e MapEntry) bool { return e.B }, eqOf[bool])
	case "string-bytes", "named-bytes":
		// the value slices are retained to check that MapClear does not touch values
		var kept [][]byte
		var orig [][]byte
		val := func(e MapEntry) []byte {
			b := []byte(e.S + fmt.Sprint(e.V))
			kept = append(kept, b)
			orig = append(orig, append([]byte(nil), b...))
			return b
		}
		var msg string
		if c.Type == "string-bytes" {
			msg = runMapT[map[string][]byte](c, func(e MapEntry) string { return e.S }, val, bytes.Equal)
		} else {
			msg = runMapT[namedBytesMap](c, func(e MapEntry) string { return e.S }, val, bytes.Equal)
		}
		if msg != "" {
			return msg
		}
		for i := range kept {
			if !bytes.Equal(kept[i], orig[i]) {
				return fmt.Sprintf("MapClear modified a value that was stored in the map: %q -> %q", orig[i], kept[i])
			}
		}
		return ""
	case "struct-uint64":
		return runMapT[map[sKey]uint64](c, func(e MapEntry) sKey { return sKey{e.K, e.S, e.B} }, func(e MapEntry) uint64 { return e.V }, eqOf[uint64])
	case "ptr-string":
		// distinct allocations, several of them holding equal values
		pool := make([]*uint64, ptrPool)
		for i := range pool {
			v := uint64(i % 3)
			pool[i] = &v
		}
		msg := runMapT[map[*uint64]string](c, func(e MapEntry) *uint64 {
			if e.B && e.K%5 == 0 {
				return nil
			}
			return pool[e.K%ptrPool]
		}, func(e MapEntry) string { return e.S }, eqOf[string])
		if msg != "" {
			return msg
		}
		for i := range pool {
			if *pool[i] != uint64(i%3) {
				return fmt.Sprintf("MapClear wrote through a pointer key (pointee %d is now %d)", i, *pool[i])
			}
		}
		return ""
	case "named":
		return runMapT[namedMap](c, func(e MapEntry) namedKey { return namedKey(e.K) }, func(e MapEntry) namedVal { return namedVal(e.S) }, eqOf[namedVal])
	case "float64-uint64":
		return runMapT[map[float64]uint64](c, func(e MapEntry) float64 { return math.Float64frombits(e.K) }, func(e MapEntry) uint64 { return e.V }, eqOf[uint64])
	case "fstruct-bool":
		return runMapT[map[fKey]bool](c, func(e MapEntry) fKey { return fKey{math.Float64frombits(e.K), e.V % 3} }, func(e MapEntry) bool { return e.B }, eqOf[bool])
	case "iface-uint64":
		return runMapT[map[any]uint64](c, func(e MapEntry) any {
			switch e.V % 4 {
			case 0:
				return e.K
			case 1:
				return e.S
			case 2:
				return sKey{e.K, e.S, e.B}
			default:
				return math.Float64frombits(e.K)
			}
		}, func(e MapEntry) uint64 { return e.V }, eqOf[uint64])
	case "array-string":
		return runMapT[map[[2]uint64]string](c, func(e MapEntry) [2]uint64 { return [2]uint64{e.K, e.V % 2} }, func(e MapEntry) string { return e.S }, eqOf[string])
	case "bool-uint64":
		return runMapT[map[bool]uint64](c, func(e MapEntry) bool { return e.B }, func(e MapEntry) uint64 { return e.V }, eqOf[uint64])
	case "uint32-struct":
		return runMapT[map[uint32]sVal](c, func(e MapEntry) uint32 { return uint32(e.K) }, func(e MapEntry) sVal { return sVal{e.V, e.S} }, eqOf[sVal])
	case "byte-ptr":
		return runMapT[map[byte]*uint64](c, func(e MapEntry) byte { return byte(e.K) }, func(e MapEntry) *uint64 {
			if e.B {
				return nil
			}
			v := e.V
			return &v
		}, func(a, b *uint64) bool { return (a == nil) == (b == nil) && (a == nil || *a == *b) })
	case "uint64-map":
		// map-valued map: the inner maps must not be cleared
		var inner []map[uint64]uint64
		msg := runMapT[map[uint64]map[uint64]uint64](c, func(e MapEntry) uint64 { return e.K }, func(e MapEntry) map[uint64]uint64 {
			im := map[uint64]uint64{e.V: e.K, e.V + 1: 7}
			inner = append(inner, im)
			return im
		}, func(a, b map[uint64]uint64) bool { return len(a) == len(b) })
		if msg != "" {
			return msg
		}
		for _, im := range inner {
			if len(im) != 2 {
				return fmt.Sprintf("MapClear cleared a map stored as a value (len %d, want 2)", len(im))
			}
		}
		return ""
	}
	return "unknown map type " + c.Type // generator/replay bug; never produced by genMap
}

// ---- generator ----

var floatBits = []uint64{
	0, 1 << 63, // +0, -0 (equal as keys)
	0x3ff0000000000000, 0xbff0000000000000, // 1, -1
	0x7ff0000000000000, 0xfff0000000000000, // +Inf, -Inf
	0x7ff8000000000000, 0x7ff8000000000001, 0xfff8000000000000, 0x7ff0000000000001, 0xffffffffffffffff, // NaNs (quiet, payload, negative, signalling)
	0x0000000000000001, 0x7fefffffffffffff, // smallest subnormal, largest finite
}

var keyStrings = []string{"", "a", "b", "ab", "a\x00", "\x00", "é", "key", "key ", "Key", "0", "1"}

func genEntry(t *rapid.T, typ string, small bool) MapEntry {
	var e MapEntry
	switch rapid.IntRange(0, 3).Draw(t, "kkind") {
	case 0:
		e.K = rapid.SampledFrom(floatBits).Draw(t, "kf")
	case 1:
		e.K = uint64(rapid.IntRange(0, 15).Draw(t, "ksmall"))
	case 2:
		// collisions in the low bits (uint32/byte keys, pointer pool)
		e.K = uint64(rapid.IntRange(0, 3).Draw(t, "klow")) + uint64(rapid.IntRange(0, 3).Draw(t, "khigh"))<<32
	default:
		e.K = rapid.Uint64().Draw(t, "k")
	}
	if small || rapid.Bool().Draw(t, "spool") {
		e.S = rapid.SampledFrom(keyStrings).Draw(t, "ks")
	} else {
		e.S = rapid.StringN(0, 6, 12).Draw(t, "s")
	}
	e.B = rapid.Bool().Draw(t, "b")
	e.V = uint64(rapid.IntRange(0, 11).Draw(t, "v"))
	if hasNaNKey(typ, e) && nanExcluded() {
		// known finding L4: redirect the draw to a finite float with the same low bits
		e.K &^= 1 << 62
		ev.Prune(nanSwitch)
	}
	return e
}

// nanExcluded caches ev.SwitchOn(nanSwitch) (known_findings.json is never
// written at run time).
var nanExcluded = sync.OnceValue(func() bool { return ev.SwitchOn(nanSwitch) })

func genEntries(t *rapid.T, typ, label string, maxN int) []MapEntry {
	n := 0
	switch rapid.IntRange(0, 9).Draw(t, label+"-size") {
	case 0:
		n = 0
	case 1, 2, 3:
		n = rapid.IntRange(1, 4).Draw(t, label+"-n")
	case 4, 5, 6:
		n = rapid.IntRange(5, 20).Draw(t, label+"-n") // crosses the 8-entry bucket
	case 7, 8:
		n = rapid.IntRange(21, 120).Draw(t, label+"-n")
	default:
		n = rapid.IntRange(121, maxN).Draw(t, label+"-n") // several growth steps
	}
	out := make([]MapEntry, 0, n)
	if n > 120 {
		// large maps: mostly distinct keys, cheap draws
		base := rapid.Uint64().Draw(t, label+"-base")
		step := uint64(rapid.SampledFrom([]int{1, 2, 8, 1 << 16, 0x9e3779b9}).Draw(t, label+"-step"))
		for i := 0; i < n; i++ {
			k := base + uint64(i)*step
			e := MapEntry{K: k, S: fmt.Sprint(k % 1000), B: i%2 == 0, V: uint64(i % 12)}
			if hasNaNKey(typ, e) && nanExcluded() {
				e.K &^= 1 << 62
				ev.Prune(nanSwitch)
			}
			out = append(out, e)
		}
		return out
	}
	small := rapid.Bool().Draw(t, label+"-smallkeys")
	for i := 0; i < n; i++ {
		out = append(out, genEntry(t, typ, small))
	}
	return out
}

func genMap(t *rapid.T) MapCase {
	c := MapCase{Type: rapid.SampledFrom(mapTypes).Draw(t, "type")}
	if rapid.IntRange(0, 29).Draw(t, "nil") == 0 {
		c.Nil = true
		return c
	}
	if rapid.IntRange(0, 3).Draw(t, "hinted") == 0 {
		c.Hint = rapid.IntRange(0, 200).Draw(t, "hint")
	}
	maxN := 1500
	c.Entries = genEntries(t, c.Type, "e", maxN)
	c.After = genEntries(t, c.Type, "a", 400)
	return c
}

func sizeClass(n int) string {
	switch {
	case n == 0:
		return "0"
	case n <= 8:
		return "1-8"
	case n <= 120:
		return "9-120"
	default:
		return ">120"
	}
}

func checkMap(t ev.TB, c MapCase) {
	ev.Eval()
	ev.Label("map:type=" + c.Type)
	if c.Nil {
		ev.Label("map:nil")
	} else {
		ev.Label("map:entries=" + sizeClass(len(c.Entries)))
		ev.Label("map:after=" + sizeClass(len(c.After)))
		nan := false
		for _, e := range c.Entries {
			if hasNaNKey(c.Type, e) {
				nan = true
			}
		}
		if nan {
			ev.Label("map:has-NaN-key")
		}
	}
	if !c.Nil && len(c.Entries) > 0 {
		b, _ := json.Marshal(c)
		ev.NonTrivialHash(ev.Hash("map", string(b)))
		if len(c.Entries) <= 6 && len(c.After) <= 6 {
			sample("map", 2, c)
		}
	}
	if msg := runMap(c); msg != "" {
		ev.Failf(t, "TestMapClear", c, "%s", msg)
	}
}

func TestMapClear(t *testing.T) {
	ev.Pinned(t, "C16", "TestMapClear", func(raw json.RawMessage) string {
		var c MapCase
		if err := json.Unmarshal(raw, &c); err != nil {
			return "" // unreadable pinned case: nothing to reproduce
		}
		return runMap(c)
	})
	rapid.Check(t, func(t *rapid.T) { checkMap(t, genMap(t)) })
}
