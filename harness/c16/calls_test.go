package c16

import (
	"fmt"
	"testing"

	"github.com/goose-lang/goose/machine"
	"pgregory.net/rapid"

	"verifharness/ev"
)

// Call is one call of a stateless primitive.
type Call struct {
	Fn  string `json:"fn"`  // assume | assert | linearize | proph | random | timenow | sleep
	Arg bool   `json:"arg"` // assume/assert argument, proph ResolveBool argument
	N   uint64 `json:"n"`   // sleep nanoseconds, proph ResolveU64 argument
}

// CallsCase is a sequence of calls; each is checked on its own (the sequence
// exposes behaviour that depends on earlier calls).
type CallsCase struct {
	Calls []Call `json:"calls"`
}

func runCalls(c CallsCase) string {
	for i, call := range c.Calls {
		var f func()
		wantPanic := false
		switch call.Fn {
		case "assume":
			f = func() { machine.Assume(call.Arg) }
			wantPanic = !call.Arg
		case "assert":
			f = func() { machine.Assert(call.Arg) }
			wantPanic = !call.Arg
		case "linearize":
			f = machine.Linearize
		case "proph":
			f = func() {
				var p machine.ProphId = machine.NewProph()
				p.ResolveBool(call.Arg)
				p.ResolveU64(call.N)
			}
		case "random":
			f = func() { _ = machine.RandomUint64() }
		case "timenow":
			f = func() { _ = machine.TimeNow() }
		case "sleep":
			f = func() { machine.Sleep(call.N) }
		default:
			return "unknown call " + call.Fn // generator/replay bug; never produced by genCalls
		}
		p, v := catch(f)
		switch {
		case p && !wantPanic:
			return fmt.Sprintf("call %d: %s(%s) panicked: %v", i, call.Fn, argText(call), v)
		case !p && wantPanic:
			return fmt.Sprintf("call %d: %s(false) returned normally, must panic", i, call.Fn)
		}
	}
	return ""
}

func argText(c Call) string {
	switch c.Fn {
	case "assume", "assert":
		return fmt.Sprint(c.Arg)
	case "sleep":
		return fmt.Sprint(c.N)
	case "proph":
		return fmt.Sprintf("%v, %d", c.Arg, c.N)
	}
	return ""
}

var callKinds = []string{"assume", "assume", "assume", "assert", "assert", "assert", "linearize", "proph", "random", "timenow", "sleep"}

func genCalls(t *rapid.T) CallsCase {
	n := rapid.IntRange(1, 8).Draw(t, "ncalls")
	var c CallsCase
	sleeps := 0
	for i := 0; i < n; i++ {
		call := Call{Fn: rapid.SampledFrom(callKinds).Draw(t, "fn")}
		switch call.Fn {
		case "assume", "assert":
			call.Arg = rapid.Bool().Draw(t, "arg")
		case "proph":
			call.Arg = rapid.Bool().Draw(t, "arg")
			call.N = rapid.Uint64().Draw(t, "n")
		case "sleep":
			if sleeps >= 1 {
				call.Fn = "linearize" // at most one real sleep per case (cost)
				break
			}
			sleeps++
			// 0 .. 200 µs
			call.N = uint64(rapid.SampledFrom([]int{0, 1, 999, 1000, 50_000, 200_000}).Draw(t, "ns"))
		}
		c.Calls = append(c.Calls, call)
	}
	return c
}

func checkCalls(t ev.TB, c CallsCase) {
	ev.Eval()
	sawTrue, sawFalse := false, false
	key := ""
	for _, call := range c.Calls {
		l := "calls:" + call.Fn
		if call.Fn == "assume" || call.Fn == "assert" {
			l += fmt.Sprintf("(%v)", call.Arg)
			if call.Arg {
				sawTrue = true
			} else {
				sawFalse = true
			}
		}
		ev.Label(l)
		key += fmt.Sprintf("%s/%v/%d;", call.Fn, call.Arg, call.N)
	}
	if sawTrue && sawFalse {
		ev.NonTrivial("calls/" + key)
		sample("calls", 2, c)
	}
	if msg := runCalls(c); msg != "" {
		ev.Failf(t, "TestCalls", c, "%s", msg)
	}
}

func TestCalls(t *testing.T) {
	rapid.Check(t, func(t *rapid.T) { checkCalls(t, genCalls(t)) })
}
