package c16

import (
	"flag"
	"fmt"
	"sync"
	"sync/atomic"
	"testing"
	"time"

	"github.com/goose-lang/goose/machine"
	"pgregory.net/rapid"

	"verifharness/ev"
)

// Other is another goroutine waiting on the same condition variable.
type Other struct {
	Kind      string `json:"kind"`       // "wait" (for !flag { cond.Wait() }) | "waittimeout" (one machine.WaitTimeout call)
	TimeoutMs uint64 `json:"timeout_ms"` // for "waittimeout"
	StartUs   int64  `json:"start_us"`   // 0: parked before the call under test starts; > 0: starts that long after it
}

// WaitCase is one WaitTimeout case. The caller locks a fresh lock, calls
// machine.WaitTimeout(cond, TimeoutMs); a signaller (if any) waits DelayUs,
// locks, sets the flag, signals or broadcasts, unlocks.
type WaitCase struct {
	TimeoutMs uint64  `json:"timeout_ms"`
	Signaller string  `json:"signaller"` // "none" | "signal" | "broadcast"
	DelayUs   int64   `json:"delay_us"`
	Others    []Other `json:"others"`
	Locker    string  `json:"locker"` // "tracked" (ownership-tracking wrapper around sync.Mutex) | "plain" (*sync.Mutex)
}

// ---- lockers ----

type locker interface {
	sync.Locker
	TryLock() bool
}

// tracked wraps a sync.Mutex and records whether it is held and who locked it
// last (0 = somebody who used the plain Lock method, i.e. library code), so
// that the lock state after WaitTimeout returns can be observed without ever
// unlocking an unlocked sync.Mutex (which is a fatal error).
type tracked struct {
	mu        sync.Mutex
	held      atomic.Bool
	owner     atomic.Int64
	badUnlock atomic.Int64
}

func (l *tracked) Lock() { l.mu.Lock(); l.owner.Store(0); l.held.Store(true) }
func (l *tracked) TryLock() bool {
	if l.mu.TryLock() {
		l.owner.Store(0)
		l.held.Store(true)
		return true
	}
	return false
}
func (l *tracked) Unlock() {
	if !l.held.CompareAndSwap(true, false) {
		l.badUnlock.Add(1)
		return
	}
	l.mu.Unlock()
}

const (
	idCaller  = 1
	idSignal  = 2
	idCleanup = 3
	idOther0  = 10
)

func whoIs(id int64) string {
	switch {
	case id == 0:
		return "library code"
	case id == idCaller:
		return "the caller"
	case id == idSignal:
		return "the signaller"
	case id == idCleanup:
		return "the harness cleanup"
	default:
		return fmt.Sprintf("other waiter %d", id-idOther0)
	}
}

type waitEnv struct {
	lk   locker
	tr   *tracked // nil for the plain mutex
	cond *sync.Cond
	flag atomic.Bool

	mu   sync.Mutex
	errs []string // lock-state violations observed by other waiters
}

func newEnv(kind string) *waitEnv {
	e := &waitEnv{}
	if kind == "plain" {
		e.lk = &sync.Mutex{}
	} else {
		e.tr = &tracked{}
		e.lk = e.tr
	}
	e.cond = sync.NewCond(e.lk)
	return e
}

func (e *waitEnv) lockAs(id int64) {
	e.lk.Lock()
	e.own(id)
}

// own marks the current holder (call only while holding the lock).
func (e *waitEnv) own(id int64) {
	if e.tr != nil {
		e.tr.owner.Store(id)
	}
}

// afterReturn is called by a goroutine immediately after its WaitTimeout call
// returned. It reports a violation message when the goroutine does not hold
// the lock, and whether the goroutine may (and must) Unlock.
func (e *waitEnv) afterReturn(self int64) (msg string, unlock bool) {
	if e.tr != nil {
		if !e.tr.held.Load() {
			return "the lock is not held when WaitTimeout returns (TryLock would succeed)", false
		}
		if o := e.tr.owner.Load(); o != 0 && o != self {
			return fmt.Sprintf("when WaitTimeout returns the lock is held by %s, not by the goroutine that called it", whoIs(o)), false
		}
		if e.tr.TryLock() {
			return "TryLock succeeded immediately after WaitTimeout returned: the caller does not hold the lock", true
		}
		e.own(self)
		return "", true
	}
	if e.lk.TryLock() {
		return "TryLock succeeded immediately after WaitTimeout returned: the caller does not hold the lock", true
	}
	return "", true
}

func (e *waitEnv) addErr(s string) {
	e.mu.Lock()
	e.errs = append(e.errs, s)
	e.mu.Unlock()
}

// tryLockFor polls TryLock for at most d.
func (e *waitEnv) tryLockFor(d time.Duration, id int64) bool {
	deadline := time.Now().Add(d)
	for {
		if e.lk.TryLock() {
			e.own(id)
			return true
		}
		if time.Now().After(deadline) {
			return false
		}
		time.Sleep(200 * time.Microsecond)
	}
}

// ---- one run ----

type outcome struct {
	kind    string // ok | modest-late | gross-late | hang | lock | panic | infra
	msg     string
	elapsed time.Duration
	early   bool
}

func (o outcome) timing() bool { return o.kind == "gross-late" || o.kind == "hang" }

// probeLatency measures how late the scheduler currently wakes a sleeping
// goroutine and hands a value to another goroutine (max over n rounds).
func probeLatency(n int) time.Duration {
	var worst time.Duration
	ch := make(chan time.Time)
	for i := 0; i < n; i++ {
		t0 := time.Now()
		time.Sleep(time.Millisecond)
		if d := time.Since(t0) - time.Millisecond; d > worst {
			worst = d
		}
		t1 := time.Now()
		go func() { ch <- time.Now() }()
		<-ch
		if d := time.Since(t1); d > worst {
			worst = d
		}
	}
	return worst
}

// recentLatency records a probe result and returns the worst of the last few
// probes, so that slack follows bursty load instead of one lucky probe.
var (
	latMu   sync.Mutex
	latRing [8]time.Duration
	latNext int
)

func recentLatency(lat time.Duration) time.Duration {
	latMu.Lock()
	defer latMu.Unlock()
	latRing[latNext%len(latRing)] = lat
	latNext++
	worst := time.Duration(0)
	for _, l := range latRing {
		if l > worst {
			worst = l
		}
	}
	return worst
}

const minSlack = 250 * time.Millisecond
const maxSlack = 3 * time.Second

func slackFor(lat time.Duration) time.Duration {
	s := 20 * lat
	if s < minSlack {
		s = minSlack
	}
	return s
}

// bound is the time by which the call under test must have returned (before slack).
func bound(c WaitCase) time.Duration {
	t := time.Duration(c.TimeoutMs) * time.Millisecond
	d := time.Duration(c.DelayUs) * time.Microsecond
	switch c.Signaller {
	case "broadcast":
		if d < t {
			return d
		}
	case "signal":
		// a Signal wakes one waiter: it is guaranteed to reach the call under
		// test only when nobody else waits on the condition variable
		if len(c.Others) == 0 && d < t {
			return d
		}
	}
	return t
}

type callerResult struct {
	elapsed  time.Duration
	lockMsg  string
	panicV   any
	panicked bool
}

func runWaitOnce(c WaitCase, slack time.Duration) outcome {
	e := newEnv(c.Locker)
	b := bound(c)
	watchdog := 10 * (b + slack)
	grace := slack
	if grace < time.Second {
		grace = time.Second
	}

	var wg sync.WaitGroup // signaller and other waiters
	cancel := make(chan struct{})
	started := make(chan struct{}) // closed when the call under test starts
	sleepOrCancel := func(d time.Duration) bool {
		if d <= 0 {
			return true
		}
		tm := time.NewTimer(d)
		defer tm.Stop()
		select {
		case <-tm.C:
			return true
		case <-cancel:
			return false
		}
	}
	other := func(i int, o Other, parked chan<- struct{}) {
		defer wg.Done()
		id := int64(idOther0 + i)
		if o.StartUs > 0 {
			<-started
			if !sleepOrCancel(time.Duration(o.StartUs) * time.Microsecond) {
				return
			}
		}
		e.lockAs(id)
		if parked != nil {
			parked <- struct{}{}
		}
		switch o.Kind {
		case "wait":
			for !e.flag.Load() {
				e.cond.Wait()
				e.own(id)
			}
			e.lk.Unlock()
		default:
			p, v := catch(func() { machine.WaitTimeout(e.cond, o.TimeoutMs) })
			if p {
				e.addErr(fmt.Sprintf("WaitTimeout(%d ms) of other waiter %d panicked: %v", o.TimeoutMs, i, v))
				return
			}
			msg, unlock := e.afterReturn(id)
			if msg != "" {
				e.addErr(fmt.Sprintf("other waiter %d (WaitTimeout %d ms): %s", i, o.TimeoutMs, msg))
			}
			if unlock {
				e.lk.Unlock()
			}
		}
	}
	// waiters that must be parked before the call under test starts
	nPre := 0
	parked := make(chan struct{}, len(c.Others))
	for i, o := range c.Others {
		wg.Add(1)
		if o.StartUs <= 0 {
			nPre++
			go other(i, o, parked)
		} else {
			go other(i, o, nil)
		}
	}
	for i := 0; i < nPre; i++ {
		select {
		case <-parked:
		case <-time.After(watchdog):
			close(cancel)
			close(started)
			e.flag.Store(true)
			e.cond.Broadcast()
			return outcome{kind: "infra", msg: "other waiters did not park"}
		}
	}

	done := make(chan callerResult, 1)
	go func() {
		// the caller: once it has the lock every parked waiter is inside
		// Wait (a waiter releases the lock only from inside cond.Wait)
		e.lockAs(idCaller)
		t0 := time.Now()
		if c.Signaller != "none" {
			wg.Add(1)
			go func() {
				defer wg.Done()
				if !sleepOrCancel(time.Duration(c.DelayUs) * time.Microsecond) {
					return
				}
				e.lockAs(idSignal)
				e.flag.Store(true)
				if c.Signaller == "signal" {
					e.cond.Signal()
				} else {
					e.cond.Broadcast()
				}
				e.lk.Unlock()
			}()
		}
		close(started)
		var r callerResult
		r.panicked, r.panicV = catch(func() { machine.WaitTimeout(e.cond, c.TimeoutMs) })
		r.elapsed = time.Since(t0)
		if !r.panicked {
			var unlock bool
			r.lockMsg, unlock = e.afterReturn(idCaller)
			if unlock {
				e.lk.Unlock()
			}
		}
		done <- r
	}()

	var r callerResult
	hung := false
	wd := time.NewTimer(watchdog)
	select {
	case r = <-done:
		wd.Stop()
	case <-wd.C:
		hung = true
	}

	// cleanup: wake every goroutine still waiting on the condition variable
	// (including the helper goroutines the implementation leaves behind)
	close(cancel)
	e.flag.Store(true)
	lockOK := e.tryLockFor(grace, idCleanup)
	e.cond.Broadcast()
	if lockOK {
		e.lk.Unlock()
	}
	if hung {
		returned := false
		select {
		case r = <-done:
			returned = true
		case <-time.After(grace):
		}
		what := "did not return even after the watchdog broadcast"
		if returned {
			what = fmt.Sprintf("returned after %v (after the watchdog acted)", r.elapsed.Round(time.Millisecond))
		}
		return outcome{kind: "hang", elapsed: watchdog,
			msg: fmt.Sprintf("WaitTimeout(%d ms) had not returned %v after the call (it must return within %v; signaller=%s delay=%v); it %s",
				c.TimeoutMs, watchdog, b, c.Signaller, time.Duration(c.DelayUs)*time.Microsecond, what)}
	}
	joined := make(chan struct{})
	go func() { wg.Wait(); close(joined) }()
	othersDone := true
	select {
	case <-joined:
	case <-time.After(watchdog + grace):
		othersDone = false
	}

	if r.panicked {
		return outcome{kind: "panic", msg: fmt.Sprintf("WaitTimeout(%d ms) panicked: %v", c.TimeoutMs, r.panicV)}
	}
	if r.lockMsg != "" {
		return outcome{kind: "lock", msg: fmt.Sprintf("WaitTimeout(%d ms): %s", c.TimeoutMs, r.lockMsg)}
	}
	e.mu.Lock()
	errs := append([]string(nil), e.errs...)
	e.mu.Unlock()
	if len(errs) > 0 {
		return outcome{kind: "lock", msg: errs[0]}
	}
	if e.tr != nil && e.tr.badUnlock.Load() > 0 {
		return outcome{kind: "lock", msg: fmt.Sprintf("WaitTimeout(%d ms): the lock was unlocked %d time(s) while nobody held it", c.TimeoutMs, e.tr.badUnlock.Load())}
	}
	if !lockOK {
		return outcome{kind: "infra", msg: "cleanup could not take the lock"}
	}
	if !othersDone {
		return outcome{kind: "hang", elapsed: watchdog,
			msg: fmt.Sprintf("after the call under test returned, the flag was set and the condition variable broadcast, another waiter or the signaller had still not finished %v later", watchdog+grace)}
	}
	early := r.elapsed < b-2*time.Millisecond
	switch {
	case r.elapsed <= b+slack:
		return outcome{kind: "ok", elapsed: r.elapsed, early: early}
	case r.elapsed <= b+10*slack:
		return outcome{kind: "modest-late", elapsed: r.elapsed}
	default:
		return outcome{kind: "gross-late", elapsed: r.elapsed,
			msg: fmt.Sprintf("WaitTimeout(%d ms) returned after %v; it must return within %v (signaller=%s delay=%v; slack %v, violation threshold %v)",
				c.TimeoutMs, r.elapsed.Round(time.Millisecond), b, c.Signaller, time.Duration(c.DelayUs)*time.Microsecond, slack, b+10*slack)}
	}
}

// runWait decides one case: msg != "" is a violation, inconclusive != "" is an
// undecided case.
func runWait(c WaitCase) (msg, inconclusive string, first outcome) {
	slack := slackFor(recentLatency(probeLatency(3)))
	if slack > maxSlack {
		return "", "scheduler latency too high for a timing case", outcome{kind: "infra"}
	}
	o := runWaitOnce(c, slack)
	switch {
	case o.kind == "ok":
		return "", "", o
	case o.kind == "modest-late":
		return "", "WaitTimeout returned between 1x and 10x slack late", o
	case o.kind == "infra":
		return "", o.msg, o
	case o.timing():
		// a timing breach is a violation only when it reproduces in fresh
		// runs and the machine is not starving the test
		for i := 0; i < 2; i++ {
			if slackFor(recentLatency(probeLatency(8))) > slack {
				return "", "timing breach while scheduler latency was rising", o
			}
			if o2 := runWaitOnce(c, slack); !o2.timing() {
				if o2.kind == "lock" || o2.kind == "panic" {
					return o2.msg, "", o2
				}
				return "", "timing breach not reproduced", o
			}
		}
		return o.msg + " (reproduced in 3 consecutive fresh runs)", "", o
	default: // lock, panic
		return o.msg, "", o
	}
}

// ---- generator ----

var timeouts = []uint64{0, 1, 5, 20, 100, 5000}
var otherTimeouts = []uint64{0, 1, 5, 20, 100}

func genWait(t *rapid.T, lockerKind string) WaitCase {
	c := WaitCase{Locker: lockerKind}
	if rapid.IntRange(0, 4).Draw(t, "tkind") == 0 {
		c.TimeoutMs = uint64(rapid.IntRange(0, 120).Draw(t, "tms"))
	} else {
		c.TimeoutMs = rapid.SampledFrom(timeouts).Draw(t, "timeout")
	}
	tus := int64(c.TimeoutMs) * 1000
	long := c.TimeoutMs > 150
	sigs := []string{"none", "signal", "broadcast", "signal", "broadcast"}
	if long {
		sigs = sigs[1:] // a long timeout is only run with a prompt signal
	}
	c.Signaller = rapid.SampledFrom(sigs).Draw(t, "signaller")
	if c.Signaller != "none" {
		switch k := rapid.IntRange(0, 3).Draw(t, "dkind"); {
		case long || k == 0: // d << t
			hi := tus / 4
			if hi > 150_000 {
				hi = 150_000
			}
			c.DelayUs = rapid.Int64Range(0, hi).Draw(t, "delay")
		case k == 1: // race: |t-d| <= 2 ms
			lo := tus - 2000
			if lo < 0 {
				lo = 0
			}
			c.DelayUs = rapid.Int64Range(lo, tus+2000).Draw(t, "delay")
		case k == 2: // signal after the timeout
			c.DelayUs = rapid.Int64Range(tus+3000, tus+60_000).Draw(t, "delay")
		default:
			c.DelayUs = rapid.Int64Range(0, tus+10_000).Draw(t, "delay")
		}
	}
	n := rapid.SampledFrom([]int{0, 0, 0, 1, 2, 3}).Draw(t, "nothers")
	if long && c.Signaller == "signal" {
		n = 0 // otherwise the signal may legitimately wake somebody else and the call lasts 5 s
	}
	for i := 0; i < n; i++ {
		o := Other{Kind: rapid.SampledFrom([]string{"wait", "waittimeout"}).Draw(t, "okind")}
		if o.Kind == "waittimeout" {
			o.TimeoutMs = rapid.SampledFrom(otherTimeouts).Draw(t, "otimeout")
		}
		if rapid.Bool().Draw(t, "olate") {
			o.StartUs = rapid.Int64Range(1, 40_000).Draw(t, "ostart")
		}
		c.Others = append(c.Others, o)
	}
	return c
}

func waitNonTrivial(c WaitCase) bool {
	if c.Signaller == "none" {
		return false
	}
	tus := int64(c.TimeoutMs) * 1000
	diff := tus - c.DelayUs
	if diff < 0 {
		diff = -diff
	}
	return diff <= 2000 || (c.TimeoutMs >= 20 && c.DelayUs <= tus/4)
}

func checkWait(t ev.TB, test string, c WaitCase) {
	ev.Eval()
	tus := int64(c.TimeoutMs) * 1000
	switch {
	case c.Signaller == "none":
		ev.Label("wait:no-signaller")
	case c.DelayUs+2000 < tus:
		ev.Label("wait:" + c.Signaller + "-before-timeout")
	case c.DelayUs > tus+2000:
		ev.Label("wait:" + c.Signaller + "-after-timeout")
	default:
		ev.Label("wait:" + c.Signaller + "-races-timeout")
	}
	tl := "other(0-120)"
	for _, v := range timeouts {
		if v == c.TimeoutMs {
			tl = fmt.Sprint(v)
		}
	}
	ev.Label("wait:timeout-ms=" + tl)
	ev.Label(fmt.Sprintf("wait:others=%d", len(c.Others)))
	ev.Label("wait:locker=" + c.Locker)
	if waitNonTrivial(c) {
		ev.NonTrivial(fmt.Sprintf("wait/%+v", c))
		sample("wait", 3, c)
	}
	msg, inc, o := runWait(c)
	if o.kind == "ok" {
		if o.early {
			ev.Label("wait:returned-early")
		}
		ev.Add("wait_elapsed_ms_total", o.elapsed.Milliseconds())
	}
	if inc != "" {
		ev.Inconclusive(inc)
	}
	if msg != "" {
		// write the shard file at once: a broken WaitTimeout can go on to
		// unlock an unlocked sync.Mutex, which kills the process
		ev.Record(test, c, "%s", msg)
		ev.Flush()
		ev.Failf(t, test, c, "%s", msg)
	}
}

// shortShrink caps rapid's shrinking time for the real-time cases: every
// attempt on a failing case costs three watchdog periods, and the cases are
// small to begin with.
func shortShrink() {
	if f := flag.Lookup("rapid.shrinktime"); f != nil {
		_ = f.Value.Set("5s")
	}
}

// TestWaitTimeout runs the cases on the ownership-tracking lock (which
// survives a misbehaving implementation); TestWaitTimeoutPlain runs after it
// with a plain *sync.Mutex, the lock type callers actually use.
func TestWaitTimeout(t *testing.T) {
	shortShrink()
	lat := probeLatency(20)
	recentLatency(lat)
	ev.Note("scheduler-latency probe at start: %v (slack %v)", lat, slackFor(lat))
	defer ev.Flush()
	rapid.Check(t, func(t *rapid.T) { checkWait(t, "TestWaitTimeout", genWait(t, "tracked")) })
}

func TestWaitTimeoutPlain(t *testing.T) {
	shortShrink()
	rapid.Check(t, func(t *rapid.T) { checkWait(t, "TestWaitTimeoutPlain", genWait(t, "plain")) })
}
