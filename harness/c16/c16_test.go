// Package c16: the remaining machine primitives meet their modelled contracts
// (DESIGN.md §3 C16): UInt64ToString, MapClear, Assume/Assert, Linearize,
// NewProph, RandomUint64/TimeNow/Sleep (str_test.go, map_test.go,
// calls_test.go) and WaitTimeout (wait_test.go).
package c16

import (
	"encoding/json"
	"sync"
	"testing"

	"verifharness/ev"
)

func TestMain(m *testing.M) {
	ev.Meta("exploration",
		"cases per primitive: (x, y) pair for UInt64ToString; (key/value type, entries, entries inserted after the clear) for MapClear; "+
			"a call sequence for Assume/Assert/Linearize/NewProph/RandomUint64/TimeNow/Sleep; (timeout, signaller kind and delay, other waiters, locker) for WaitTimeout. "+
			"non-trivial = distinct pair with both renderings multi-digit / non-empty map / sequence passing both true and false to Assume or Assert / "+
			"signal and timeout racing (|t-d| <= 2 ms) or d <= t/4 with t >= 20 ms; distinct by the whole case",
		"reference decimal rendering and parser are hand-written digit loops (not fmt/strconv)",
		"WaitTimeout timing uses the wall clock: slack = max(250 ms, 20 x the worst of the last 8 scheduler-latency probes, one taken before each case); "+
			"only a hang (watchdog at 10 x (bound+slack)) or a return later than bound + 10 x slack, reproduced in 3 consecutive fresh runs, is a violation; "+
			"lateness between 1 x and 10 x slack is counted inconclusive; early returns are legal",
		"TestWaitCoincide: 4-8 workers x 120 waits of 1-2 ms with the Signal/Broadcast aimed at the expiry (-100..+300 us); a wait is a hang only if it has not returned after 10 s and again after 10 more seconds",
		"every WaitTimeout case uses a fresh lock and condition variable (goose-lang/primitive leaks a helper goroutine per timed-out call; out of scope)",
		"RandomUint64, TimeNow, Sleep, Linearize, NewProph: only 'does not panic and returns' is asserted")
	ev.Main(m, "C16")
}

// catch runs f and reports whether it panicked (and with what).
func catch(f func()) (panicked bool, val any) {
	defer func() {
		if r := recover(); r != nil {
			panicked = true
			val = r
		}
	}()
	f()
	return false, nil
}

// sampleOnce offers at most n samples per test so that every test of the
// package is represented in the evidence samples.
var (
	sampleMu sync.Mutex
	sampleN  = map[string]int{}
)

func sample(test string, n int, c any) {
	sampleMu.Lock()
	ok := sampleN[test] < n
	if ok {
		sampleN[test]++
	}
	sampleMu.Unlock()
	if ok {
		ev.Sample(c)
	}
}

func TestReplay(t *testing.T) {
	p := ev.ReplayPath()
	if p == "" {
		t.Skip("no replay")
	}
	r, err := ev.LoadReplay(p)
	if err != nil {
		t.Fatal(err)
	}
	switch r.Test {
	case "TestString":
		var c StrCase
		if err := json.Unmarshal(r.Case, &c); err != nil {
			t.Fatal(err)
		}
		checkStr(t, c)
	case "TestMapClear":
		var c MapCase
		if err := json.Unmarshal(r.Case, &c); err != nil {
			t.Fatal(err)
		}
		checkMap(t, c)
	case "TestCalls":
		var c CallsCase
		if err := json.Unmarshal(r.Case, &c); err != nil {
			t.Fatal(err)
		}
		checkCalls(t, c)
	case "TestWaitTimeout", "TestWaitTimeoutPlain":
		var c WaitCase
		if err := json.Unmarshal(r.Case, &c); err != nil {
			t.Fatal(err)
		}
		// schedule-dependent: re-run the same case several times
		for i := 0; i < 5; i++ {
			checkWait(t, r.Test, c)
		}
	case "TestWaitCoincide":
		var c CoincideCase
		if err := json.Unmarshal(r.Case, &c); err != nil {
			t.Fatal(err)
		}
		for i := 0; i < 3; i++ {
			checkCoincide(t, c)
		}
	default:
		t.Fatalf("replay names unknown test %q", r.Test)
	}
}
