package c16

import (
	"fmt"
	"regexp"
	"testing"

	"github.com/goose-lang/goose/machine"
	"pgregory.net/rapid"

	"verifharness/ev"
)

// StrCase is one UInt64ToString case: X is rendered and checked against the
// reference; when Y != X the two renderings must differ (injectivity).
type StrCase struct {
	X   uint64 `json:"x"`
	Y   uint64 `json:"y"`
	Rel string `json:"rel"` // how Y was derived from X (label only)
}

var canonical = regexp.MustCompile(`^(0|[1-9][0-9]*)$`)

// refDecimal is the hand-written canonical decimal rendering.
func refDecimal(x uint64) string {
	if x == 0 {
		return "0"
	}
	var buf [20]byte
	i := len(buf)
	for x > 0 {
		i--
		buf[i] = byte('0' + x%10)
		x /= 10
	}
	return string(buf[i:])
}

// parseDecimal parses a digits-only string; ok=false on a non-digit, the empty
// string or overflow.
func parseDecimal(s string) (v uint64, ok bool) {
	if s == "" {
		return 0, false
	}
	for i := 0; i < len(s); i++ {
		d := s[i]
		if d < '0' || d > '9' {
			return 0, false
		}
		const max = ^uint64(0)
		if v > max/10 || (v == max/10 && uint64(d-'0') > max%10) {
			return 0, false
		}
		v = v*10 + uint64(d-'0')
	}
	return v, true
}

func render(x uint64) (s string, panicked bool) {
	panicked, _ = catch(func() { s = machine.UInt64ToString(x) })
	return
}

func runStr(c StrCase) string {
	s, p := render(c.X)
	if p {
		return fmt.Sprintf("UInt64ToString(%d) panicked", c.X)
	}
	if want := refDecimal(c.X); s != want {
		return fmt.Sprintf("UInt64ToString(%d) = %q, canonical decimal rendering is %q", c.X, s, want)
	}
	if !canonical.MatchString(s) {
		return fmt.Sprintf("UInt64ToString(%d) = %q is not of the form 0|[1-9][0-9]*", c.X, s)
	}
	if v, ok := parseDecimal(s); !ok || v != c.X {
		return fmt.Sprintf("UInt64ToString(%d) = %q does not parse back (got %d, ok=%v)", c.X, s, v, ok)
	}
	if s2, _ := render(c.X); s2 != s {
		return fmt.Sprintf("UInt64ToString(%d) is not pure: %q then %q", c.X, s, s2)
	}
	if c.Y != c.X {
		sy, p := render(c.Y)
		if p {
			return fmt.Sprintf("UInt64ToString(%d) panicked", c.Y)
		}
		if sy == s {
			return fmt.Sprintf("not injective: UInt64ToString(%d) = UInt64ToString(%d) = %q", c.X, c.Y, s)
		}
		if want := refDecimal(c.Y); sy != want {
			return fmt.Sprintf("UInt64ToString(%d) = %q, canonical decimal rendering is %q", c.Y, sy, want)
		}
	}
	return ""
}

func pow10(k int) uint64 {
	v := uint64(1)
	for i := 0; i < k; i++ {
		v *= 10
	}
	return v
}

func genValue(t *rapid.T) uint64 {
	switch rapid.IntRange(0, 5).Draw(t, "xkind") {
	case 0: // small values, every one- and two-digit number
		return uint64(rapid.IntRange(0, 120).Draw(t, "small"))
	case 1: // around powers of ten
		k := rapid.IntRange(0, 19).Draw(t, "p10")
		return pow10(k) + uint64(rapid.IntRange(-1, 1).Draw(t, "pd"))
	case 2: // around powers of two
		k := rapid.IntRange(0, 64).Draw(t, "p2")
		v := uint64(0)
		if k < 64 {
			v = uint64(1) << uint(k)
		}
		return v + uint64(rapid.IntRange(-1, 1).Draw(t, "pd"))
	case 3: // uniform in the number of digits
		n := rapid.IntRange(1, 20).Draw(t, "ndigits")
		var v uint64
		for i := 0; i < n; i++ {
			lo := 0
			if i == 0 && n > 1 {
				lo = 1
			}
			d := uint64(rapid.IntRange(lo, 9).Draw(t, "d"))
			if v > (^uint64(0)-d)/10 {
				break
			}
			v = v*10 + d
		}
		return v
	default:
		return rapid.Uint64().Draw(t, "x")
	}
}

var relations = []string{"plus1", "minus1", "times10", "div10", "rotl", "rotr", "swap", "append", "dropfirst", "zeroinsert",
	"plus2^32", "flipbit", "reverse", "trunc32", "random", "same"}

// related derives a near-collision partner of x.
func related(t *rapid.T, x uint64) (uint64, string) {
	rel := rapid.SampledFrom(relations).Draw(t, "rel")
	ds := refDecimal(x)
	fromDigits := func(s string) uint64 {
		// strip leading zeros, keep at least one digit
		for len(s) > 1 && s[0] == '0' {
			s = s[1:]
		}
		if v, ok := parseDecimal(s); ok {
			return v
		}
		return x + 1
	}
	switch rel {
	case "plus1":
		return x + 1, rel
	case "minus1":
		return x - 1, rel
	case "times10":
		return x * 10, rel
	case "div10":
		return x / 10, rel
	case "rotl":
		return fromDigits(ds[1:] + ds[:1]), rel
	case "rotr":
		return fromDigits(ds[len(ds)-1:] + ds[:len(ds)-1]), rel
	case "swap":
		if len(ds) < 2 {
			return x + 1, rel
		}
		i := rapid.IntRange(0, len(ds)-2).Draw(t, "swapat")
		b := []byte(ds)
		b[i], b[i+1] = b[i+1], b[i]
		return fromDigits(string(b)), rel
	case "append":
		return fromDigits(ds + string(rune('0'+rapid.IntRange(0, 9).Draw(t, "ad")))), rel
	case "dropfirst":
		if len(ds) < 2 {
			return x + 1, rel
		}
		return fromDigits(ds[1:]), rel
	case "zeroinsert":
		i := rapid.IntRange(1, len(ds)).Draw(t, "zat")
		return fromDigits(ds[:i] + "0" + ds[i:]), rel
	case "plus2^32":
		return x + 1<<32, rel
	case "flipbit":
		return x ^ (uint64(1) << uint(rapid.IntRange(0, 63).Draw(t, "bit"))), rel
	case "reverse":
		b := []byte(ds)
		for i, j := 0, len(b)-1; i < j; i, j = i+1, j-1 {
			b[i], b[j] = b[j], b[i]
		}
		return fromDigits(string(b)), rel
	case "trunc32":
		return x & 0xffffffff, rel
	case "same":
		return x, rel
	default:
		return genValue(t), "random"
	}
}

func genStr(t *rapid.T) StrCase {
	x := genValue(t)
	y, rel := related(t, x)
	return StrCase{X: x, Y: y, Rel: rel}
}

func checkStr(t ev.TB, c StrCase) {
	ev.Eval()
	ev.Label(fmt.Sprintf("str:digits=%02d", len(refDecimal(c.X))))
	if c.X == c.Y {
		ev.Label("str:pair-equal")
	} else {
		ev.Label("str:rel=" + c.Rel)
		if len(refDecimal(c.X)) == len(refDecimal(c.Y)) {
			ev.Label("str:pair-same-length")
		}
	}
	if c.X != c.Y && c.X >= 10 && c.Y >= 10 {
		ev.NonTrivial(fmt.Sprintf("str/%d/%d", c.X, c.Y))
		sample("str", 2, c)
	}
	if msg := runStr(c); msg != "" {
		ev.Failf(t, "TestString", c, "%s", msg)
	}
}

func TestString(t *testing.T) {
	rapid.Check(t, func(t *rapid.T) { checkStr(t, genStr(t)) })
}
