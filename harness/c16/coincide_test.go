package c16

// TestWaitCoincide: many short WaitTimeout calls whose Signal is aimed AT the expiry of the
// timeout (offset −100 µs … +300 µs), from several workers at once. Whatever wins, the call must
// return (with the lock: the caller unlocks it afterwards). A call that is still blocked 10 s
// later, and still blocked after 10 more seconds, hangs: "returns within a bounded delay after
// the timeout" is violated. Added for seeded change C16-5 (a hand-off of the lock between the
// helper goroutine and the caller that both sides can skip when signal and timer coincide); the
// single-shot race cases of TestWaitTimeout hit a window of a few microseconds too rarely.

import (
	"encoding/json"
	"fmt"
	"sync"
	"sync/atomic"
	"testing"
	"time"

	"github.com/goose-lang/goose/machine"
	"pgregory.net/rapid"

	"verifharness/ev"
	"verifharness/gen"
)

type CoincideCase struct {
	Workers   int    `json:"workers"`
	Iters     int    `json:"iters"`
	TimeoutMs uint64 `json:"timeout_ms"`
	LoUs      int64  `json:"lo_us"` // signal at timeout + [LoUs, HiUs) µs
	HiUs      int64  `json:"hi_us"`
	Broadcast bool   `json:"broadcast"`
	Locked    bool   `json:"locked"` // the signaller holds the lock while signalling
	Seed      uint64 `json:"seed"`
}

func runCoincide(c CoincideCase) string {
	if c.Workers < 1 || c.Workers > 32 || c.Iters < 1 || c.Iters > 5000 || c.TimeoutMs > 20 || c.HiUs <= c.LoUs {
		return ""
	}
	var stuck atomic.Int64
	var firstMsg atomic.Value
	var wg sync.WaitGroup
	for w := 0; w < c.Workers; w++ {
		wg.Add(1)
		go func(w int) {
			defer wg.Done()
			x := c.Seed*0x9e3779b97f4a7c15 + uint64(w+1)*0xbf58476d1ce4e5b9
			for it := 0; it < c.Iters && stuck.Load() == 0; it++ {
				x ^= x << 13
				x ^= x >> 7
				x ^= x << 17
				off := c.LoUs + int64(x%uint64(c.HiUs-c.LoUs))
				mu := new(sync.Mutex)
				cond := sync.NewCond(mu)
				d := time.Duration(c.TimeoutMs)*time.Millisecond + time.Duration(off)*time.Microsecond
				returned := make(chan struct{})
				go func() {
					if d > 0 {
						time.Sleep(d)
					}
					if c.Locked {
						mu.Lock()
					}
					if c.Broadcast {
						cond.Broadcast()
					} else {
						cond.Signal()
					}
					if c.Locked {
						mu.Unlock()
					}
				}()
				go func() {
					mu.Lock()
					machine.WaitTimeout(cond, c.TimeoutMs)
					mu.Unlock()
					close(returned)
				}()
				select {
				case <-returned:
				case <-time.After(10 * time.Second):
					select {
					case <-returned: // a loaded machine, not a hang
					case <-time.After(10 * time.Second):
						stuck.Add(1)
						firstMsg.CompareAndSwap(nil, fmt.Sprintf("worker %d, wait %d: machine.WaitTimeout(cond, %d) with a %s aimed %d µs after the expiry of the timeout (signaller %s the lock) had not returned 20 s later: it hangs although both the timeout and the signal have happened",
							w, it, c.TimeoutMs, map[bool]string{true: "Broadcast", false: "Signal"}[c.Broadcast], off, map[bool]string{true: "holding", false: "not holding"}[c.Locked]))
					}
				}
				// release a helper goroutine that is still parked on this condition variable
				cond.Broadcast()
			}
		}(w)
	}
	wg.Wait()
	if m, ok := firstMsg.Load().(string); ok {
		return m
	}
	return ""
}

func checkCoincide(t ev.TB, c CoincideCase) {
	ev.Eval()
	ev.Add("coincide-waits", int64(c.Workers*c.Iters))
	ev.Label(fmt.Sprintf("coincide:locked=%v:broadcast=%v", c.Locked, c.Broadcast))
	b, _ := json.Marshal(c)
	ev.NonTrivial(string(b))
	sample("TestWaitCoincide", 2, c)
	if msg := runCoincide(c); msg != "" {
		ev.Failf(t, "TestWaitCoincide", c, "%s", msg)
	}
}

func TestWaitCoincide(t *testing.T) {
	shortShrink()
	ev.Pinned(t, "C16", "TestWaitCoincide", func(raw json.RawMessage) string {
		var c CoincideCase
		if json.Unmarshal(raw, &c) != nil {
			return ""
		}
		return runCoincide(c)
	})
	rapid.Check(t, func(t *rapid.T) {
		c := CoincideCase{
			Workers:   gen.Range(t, "workers", 4, 8),
			Iters:     ev.EnvInt("VERIF_COINCIDE_ITERS", 120),
			TimeoutMs: uint64(gen.Range(t, "timeout", 1, 2)),
			LoUs:      -100,
			HiUs:      300,
			Broadcast: gen.Chance(t, "broadcast", 30),
			Locked:    gen.Chance(t, "locked", 50),
			Seed:      rapid.Uint64().Draw(t, "seed"),
		}
		checkCoincide(t, c)
	})
}
