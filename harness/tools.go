//go:build tools

package tools

import (
	_ "github.com/anishathalye/porcupine"
	_ "github.com/goose-lang/goose"
	_ "pgregory.net/rapid"
)
