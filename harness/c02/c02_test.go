// Package c02: outside the subset goose rejects instead of mistranslating
// (DESIGN.md §3 C02). The catalogue lives in harness/catalog.
package c02

import (
	"encoding/json"
	"fmt"
	"os"
	"sort"
	"strings"
	"testing"

	"pgregory.net/rapid"

	"verifharness/catalog"
	"verifharness/ev"
	"verifharness/gen"
	"verifharness/glang"
	"verifharness/tv"
)

var runner *tv.GoRunner

func TestMain(m *testing.M) {
	ev.Meta("translation_validation",
		"programs = a catalogue of out-of-subset and look-alike constructs (operators, conversions, slice/string/array forms, literals, statement kinds, control-flow shapes, declaration forms, user definitions named like builtins), each rendered as a closed entry function in 5 syntactic contexts (plain, then-branch, else-branch, loop body, closure) and combined with generated subset programs; oracle per top-level declaration: rejected with a conversion error located inside it (and then absent from the output), or emitted and Go and the GooseLang reference interpreter agree on every entry that reaches it; declarations without an inserted item must be emitted unchanged; "+
			"non-trivial = the item's entry is rejected, or Go returns normally from it and the results are compared; distinct by (item, context, outcome)",
		"GooseLang semantics = harness/glang calibrated on internal/examples/semantics", "the catalogue is finite (DESIGN.md §3 C02)")
	ev.Main(m, "C02")
}

func setup() bool {
	if runner == nil {
		res, err := glang.Calibrate(ev.Repo())
		if err != nil || len(res.Problems) > 0 {
			ev.Inconclusive(fmt.Sprintf("interpreter calibration failed: %v %v", err, res))
			return false
		}
		r, err := tv.NewGoRunner()
		if err != nil {
			ev.Inconclusive("cannot create go runner: " + err.Error())
			return false
		}
		runner = r
	}
	return true
}

// Case is a package: optional generated base program + item uses.
type Case struct {
	Base string        `json:"base"` // source of the base program ("" = none); package main
	Uses []catalog.Use `json:"uses"`
}

// Outcome of one use.
type Outcome struct {
	Use     catalog.Use
	Class   string // rejected | faithful | go-panic | MISTRANSLATED | CRASH | MALFORMED | inconclusive | reaches-rejected
	Detail  string
	Emitted string
}

// runCase validates the package and classifies every use. generatorBug is
// non-empty when the rendered package does not type-check / compile.
func runCase(c Case) (outs []Outcome, other []string, generatorBug string) {
	src, entries := catalog.RenderPackage(c.Base, c.Uses)
	rep := tv.ValidateOpts(src, runner, tv.Options{AllowReject: true})
	if rep.GeneratorBug != "" {
		return nil, nil, rep.GeneratorBug
	}
	if len(rep.Entries) == 0 && len(rep.Violations) > 0 {
		// package-level failure (goose panic, malformed output): attribute to all uses
		class := "MALFORMED"
		if strings.Contains(rep.Violations[0], "goose panicked") {
			class = "CRASH"
		}
		for _, u := range c.Uses {
			outs = append(outs, Outcome{Use: u, Class: class, Detail: rep.Violations[0], Emitted: rep.Text})
		}
		return outs, nil, ""
	}
	seen := map[string]bool{}
	for _, e := range rep.Entries {
		u, isItem := entries[e.Name]
		var o Outcome
		switch {
		case e.Outcome == "rejected":
			o = Outcome{Class: "rejected", Detail: rep.Rejected[e.Name]}
		case e.GoPanic != "":
			o = Outcome{Class: "go-panic", Detail: e.GoPanic}
		case e.Agree:
			o = Outcome{Class: "faithful", Detail: e.Go}
		case e.Outcome == "unknown-primitive":
			o = Outcome{Class: "inconclusive", Detail: e.Model}
		case e.Outcome == "reaches-rejected":
			o = Outcome{Class: "reaches-rejected", Detail: e.Model}
		case e.EvalOrder && !isItem:
			// a generated base whose entry depends on the order in which the operands of a pair or an
			// operator are evaluated (a closure call next to a read of the variable it updates): the
			// listed finding evalOrder, and for call-versus-variable-read not even fixed by the Go
			// specification. C01 counts these the same way (entry:known-eval-order).
			o = Outcome{Class: "known-eval-order", Detail: e.Go}
			ev.Label("base entry: known evaluation-order disagreement")
		case e.EvalOrder:
			o = Outcome{Class: "MISTRANSLATED", Detail: fmt.Sprintf("evaluation order: Go %s, GooseLang (right-to-left) %s", e.Go, e.Model)}
		default:
			o = Outcome{Class: "MISTRANSLATED", Detail: fmt.Sprintf("Go returned %s, GooseLang: %s %s", e.Go, e.Outcome, e.Model)}
		}
		if isItem {
			o.Use = u
			o.Emitted = rep.Text
			outs = append(outs, o)
			seen[e.Name] = true
		} else if strings.ToUpper(o.Class) == o.Class {
			other = append(other, fmt.Sprintf("base entry %s: %s %s", e.Name, o.Class, o.Detail))
		}
	}
	// rejected helper declarations of an item count as rejection of the item when its entry disappeared
	for name, u := range entries {
		if !seen[name] {
			outs = append(outs, Outcome{Use: u, Class: "inconclusive", Detail: "entry not evaluated"})
		}
	}
	for _, v := range rep.Violations {
		if strings.Contains(v, "was rejected with an error but is also emitted") || strings.Contains(v, "not located inside") || strings.Contains(v, "non-structured") {
			other = append(other, v)
		}
	}
	sort.Slice(outs, func(i, j int) bool { return outs[i].Use.Item < outs[j].Use.Item })
	return outs, other, ""
}

func isViolation(class string) bool {
	return class == "MISTRANSLATED" || class == "CRASH" || class == "MALFORMED"
}

func account(o Outcome) {
	ev.Add("programs", 1)
	ev.Label("outcome:" + o.Class)
	ev.Label("item:" + o.Use.Item + ":" + o.Class)
	switch o.Class {
	case "rejected", "faithful", "MISTRANSLATED", "CRASH", "MALFORMED":
		ev.Add("disagreements_checked", 1)
		ev.NonTrivial(fmt.Sprintf("%s|%d|%s", o.Use.Item, o.Use.Ctx, o.Class))
	case "inconclusive":
		ev.Inconclusive("model lacks primitive or entry not evaluated: " + o.Use.Item)
	}
}

func knownSkip(it *catalog.Item) bool {
	if it.Known != "" && ev.SwitchOn(it.Known) {
		ev.Prune(it.Known)
		return true
	}
	return false
}

// checkUses runs a case and reports violations of the uses (not excluded as known).
func checkUses(t ev.TB, test string, c Case) {
	ev.Eval()
	outs, other, bug := runCase(c)
	if bug != "" {
		// a package-level type error can be caused by a single item: retry the uses one by one
		if len(c.Uses) > 1 {
			for _, u := range c.Uses {
				checkUses(t, test, Case{Uses: []catalog.Use{u}})
			}
			return
		}
		ev.Inconclusive("generator bug")
		ev.Note("generator bug (%v): %s", c.Uses, firstLine(bug))
		if testing.Verbose() {
			fmt.Println("GENERATOR BUG", c.Uses, bug)
		}
		return
	}
	crashed := false
	for _, o := range outs {
		if (o.Class == "CRASH" || o.Class == "MALFORMED") && len(c.Uses) > 1 {
			crashed = true
		}
	}
	if crashed {
		// find the culprit: run each use alone
		for _, u := range c.Uses {
			checkUses(t, test, Case{Uses: []catalog.Use{u}})
		}
		return
	}
	for _, o := range outs {
		account(o)
		if ev.WantSample() && (o.Class == "rejected" || o.Class == "faithful") {
			_, e, _ := catalog.RenderUse(o.Use, 0)
			ev.Sample(map[string]any{"item": o.Use.Item, "context": catalog.Contexts[o.Use.Ctx], "outcome": o.Class, "detail": o.Detail, "entry": e})
		}
		if isViolation(o.Class) {
			single := Case{Base: "", Uses: []catalog.Use{o.Use}}
			ev.Failf(t, test, single, "item %s in context %s: %s\n%s\n--- emitted ---\n%s", o.Use.Item, catalog.Contexts[o.Use.Ctx], o.Class, o.Detail, o.Emitted)
		}
	}
	if len(other) > 0 {
		ev.Failf(t, test, c, "%s", strings.Join(other, "\n"))
	}
}

func firstLine(s string) string {
	if i := strings.Index(s, "\n"); i >= 0 {
		return s[:i]
	}
	return s
}

func pinned(t ev.TB, test string) {
	ev.Pinned(t, "C02", test, func(raw json.RawMessage) string {
		var c Case
		if json.Unmarshal(raw, &c) != nil {
			return ""
		}
		outs, other, bug := runCase(c)
		if bug != "" {
			return ""
		}
		for _, o := range outs {
			if isViolation(o.Class) {
				return o.Class + ": " + o.Detail
			}
		}
		if len(other) > 0 {
			return other[0]
		}
		return ""
	})
}

// TestCatalogueSweep runs every catalogue item (not excluded as a known
// finding) in VERIF_C02_CTXS contexts; deterministic enumeration, sharded by
// item index.
func TestCatalogueSweep(t *testing.T) {
	if !setup() {
		t.Skip("setup failed")
	}
	pinned(t, "TestCatalogueSweep")
	nsh := ev.EnvInt("VERIF_NSHARDS", 1)
	sh := ev.ShardIndex()
	nctx := ev.EnvInt("VERIF_C02_CTXS", 2)
	var batch []catalog.Use
	flush := func() {
		if len(batch) > 0 {
			checkUses(t, "TestCatalogueSweep", Case{Uses: batch})
			batch = nil
		}
	}
	for i := range catalog.Items {
		it := &catalog.Items[i]
		if i%nsh != sh {
			continue
		}
		if knownSkip(it) {
			continue
		}
		ctxs := []int{0}
		if !it.NoCtx {
			for k := 1; k < nctx && k < len(catalog.Contexts); k++ {
				ctxs = append(ctxs, int((ev.Seed()+int64(i)+int64(k)*3)%4)+1)
			}
			if nctx >= len(catalog.Contexts) {
				ctxs = []int{0, 1, 2, 3, 4}
			}
		}
		for _, cx := range ctxs {
			u := catalog.Use{Item: it.ID, Ctx: cx}
			if it.Solo() {
				flush()
				checkUses(t, "TestCatalogueSweep", Case{Uses: []catalog.Use{u}})
				continue
			}
			batch = append(batch, u)
			if len(batch) >= 8 {
				flush()
			}
		}
	}
	flush()
}

// TestInsertions combines random items in random contexts with a generated
// base program: items must be rejected or faithful, the base program's
// entries must still agree.
func TestInsertions(t *testing.T) {
	if !setup() {
		t.Skip("setup failed")
	}
	rapid.Check(t, func(t *rapid.T) {
		cfg := gen.DefaultConfig()
		cfg.Entries, cfg.Helpers, cfg.MaxStmts = 2, 2, 4
		base := gen.Generate(t, cfg).Source("main")
		var pool []*catalog.Item
		for i := range catalog.Items {
			it := &catalog.Items[i]
			if it.Solo() || knownSkip(it) {
				continue
			}
			pool = append(pool, it)
		}
		n := gen.Range(t, "nitems", 1, 4)
		var uses []catalog.Use
		for k := 0; k < n; k++ {
			it := pool[gen.Uniform(t, "item", len(pool))]
			uses = append(uses, catalog.Use{Item: it.ID, Ctx: gen.Uniform(t, "ctx", len(catalog.Contexts))})
		}
		checkUses(t, "TestInsertions", Case{Base: base, Uses: uses})
	})
}

func TestReplay(t *testing.T) {
	p := ev.ReplayPath()
	if p == "" {
		t.Skip("no replay")
	}
	if !setup() {
		t.Skip("setup failed")
	}
	r, err := ev.LoadReplay(p)
	if err != nil {
		t.Fatal(err)
	}
	if r.Test == "TestControlFlow" {
		var c CFCase
		if err := json.Unmarshal(r.Case, &c); err != nil {
			t.Fatal(err)
		}
		checkCF(t, c)
		return
	}
	var c Case
	if err := json.Unmarshal(r.Case, &c); err != nil {
		t.Fatal(err)
	}
	checkUses(t, r.Test, c)
}

// TestDiscover prints the classification table of the whole catalogue
// (development aid; not part of any registered check).
func TestDiscover(t *testing.T) {
	if os.Getenv("C02_DISCOVER") == "" {
		t.Skip("set C02_DISCOVER=1")
	}
	if !setup() {
		t.Skip("setup failed")
	}
	for i := range catalog.Items {
		it := &catalog.Items[i]
		outs, other, bug := runCase(Case{Uses: []catalog.Use{{Item: it.ID, Ctx: 0}}})
		if bug != "" {
			fmt.Printf("%-28s GENERATOR-BUG %s\n", it.ID, firstLine(bug))
			continue
		}
		for _, o := range outs {
			d := o.Detail
			if len(d) > 110 {
				d = d[:110]
			}
			fmt.Printf("%-28s %-14s %s\n", it.ID, o.Class, strings.ReplaceAll(d, "\n", " "))
		}
		for _, x := range other {
			fmt.Printf("%-28s OTHER %s\n", it.ID, firstLine(x))
		}
	}
}

// ---------------------------------------------------------------------
// Generated control-flow frontier: functions with if/else, loops, return,
// break and continue in arbitrary positions (most shapes are outside what
// goose accepts). Oracle as for the catalogue: the function is rejected, or
// Go and GooseLang agree for all 8 argument vectors.

type CFCase struct {
	Src string `json:"src"`
}

func genCF(t *rapid.T) CFCase { return CFCase{Src: gen.GenerateControlFlow(t)} }

func checkCF(t ev.TB, c CFCase) {
	ev.Eval()
	ev.Add("programs", 1)
	rep := tv.ValidateOpts(c.Src, runner, tv.Options{AllowReject: true})
	if rep.GeneratorBug != "" {
		ev.Inconclusive("generator bug")
		ev.Note("cf generator bug: %s", firstLine(rep.GeneratorBug))
		return
	}
	if _, rej := rep.Rejected["cf"]; rej {
		ev.Label("cf:rejected")
		ev.NonTrivial("cf-rejected|" + rep.Rejected["cf"] + "|" + c.Src)
	} else if len(rep.Violations) == 0 {
		ev.Label("cf:accepted-and-faithful")
		ev.Add("disagreements_checked", int64(len(rep.Entries)))
		ev.NonTrivial("cf-faithful|" + c.Src)
		if ev.WantSample() {
			ev.Sample(map[string]any{"kind": "control-flow", "outcome": "accepted, 8 argument vectors agree", "src": c.Src})
		}
	}
	if len(rep.Violations) > 0 {
		ev.Failf(t, "TestControlFlow", c, "%s\n--- Go ---\n%s\n--- emitted ---\n%s", strings.Join(rep.Violations, "\n"), c.Src, rep.Text)
	}
}

func TestControlFlow(t *testing.T) {
	if !setup() {
		t.Skip("setup failed")
	}
	rapid.Check(t, func(t *rapid.T) { checkCF(t, genCF(t)) })
}
