package c02

import (
	"encoding/json"
	"fmt"
	"os"
	"sort"
	"strings"
	"testing"

	"pgregory.net/rapid"

	"verifharness/ev"
	"verifharness/gen"
	"verifharness/glang"
	"verifharness/tv"
)

var runner *tv.GoRunner

func TestMain(m *testing.M) {
	ev.Meta("translation_validation",
		"programs = a catalogue of out-of-subset and look-alike constructs (operators, conversions, slice/string/array forms, literals, statement kinds, control-flow shapes, declaration forms, user definitions named like builtins), each rendered as a closed entry function in 5 syntactic contexts (plain, then-branch, else-branch, loop body, closure) and combined with generated subset programs; oracle per top-level declaration: rejected with a conversion error located inside it (and then absent from the output), or emitted and Go and the GooseLang reference interpreter agree on every entry that reaches it; declarations without an inserted item must be emitted unchanged; "+
			"non-trivial = the item's entry is rejected, or Go returns normally from it and the results are compared; distinct by (item, context, outcome)",
		"GooseLang semantics = harness/glang calibrated on internal/examples/semantics", "the catalogue is finite (DESIGN.md §3 C02)")
	ev.Main(m, "C02")
}

func setup() bool {
	if runner == nil {
		res, err := glang.Calibrate(ev.Repo())
		if err != nil || len(res.Problems) > 0 {
			ev.Inconclusive(fmt.Sprintf("interpreter calibration failed: %v %v", err, res))
			return false
		}
		r, err := tv.NewGoRunner()
		if err != nil {
			ev.Inconclusive("cannot create go runner: " + err.Error())
			return false
		}
		runner = r
	}
	return true
}

// Use is one use of a catalogue item in a context.
type Use struct {
	Item string `json:"item"`
	Ctx  int    `json:"ctx"`
}

// Case is a package: optional generated base program + item uses.
type Case struct {
	Base string `json:"base"` // source of the base program ("" = none); package main
	Uses []Use  `json:"uses"`
}

var contexts = []string{"plain", "then-branch", "else-branch", "loop-body", "closure"}

func itemByID(id string) *Item {
	for i := range catalogue {
		if catalogue[i].ID == id {
			return &catalogue[i]
		}
	}
	return nil
}

func indent(s string) string { return strings.ReplaceAll(s, "\n", "\n\t") }

// renderUse renders the declarations and the entry function of one use.
func renderUse(u Use, k int) (decls string, entry string, name string) {
	it := itemByID(u.Item)
	suffix := fmt.Sprintf("x%d", k)
	sub := func(s string) string { return strings.ReplaceAll(s, "%N%", suffix) }
	name = fmt.Sprintf("entryC%d", k)
	core := sub(it.Core)
	ctx := u.Ctx
	if it.NoCtx {
		ctx = 0
	}
	switch ctx {
	case 1:
		core = "if r == 0 {\n\t\t" + indent(core) + "\n\t}"
	case 2:
		core = "if r != 0 {\n\t\tr = 9\n\t} else {\n\t\t" + indent(core) + "\n\t}"
	case 3:
		core = "for it := uint64(0); it < 1; it++ {\n\t\t" + indent(core) + "\n\t}"
	case 4:
		core = "fn := func() {\n\t\t" + indent(core) + "\n\t}\n\tfn()"
	}
	var sb strings.Builder
	fmt.Fprintf(&sb, "func %s() uint64 {\n\tvar r uint64\n", name)
	if it.Setup != "" {
		sb.WriteString("\t" + sub(it.Setup) + "\n")
	}
	sb.WriteString("\t" + core + "\n\treturn r\n}\n")
	return sub(it.Decls), sb.String(), name
}

func render(c Case) (string, map[string]Use) {
	var sb strings.Builder
	entries := map[string]Use{}
	needSync := false
	var body strings.Builder
	for k, u := range c.Uses {
		d, e, name := renderUse(u, k)
		if strings.Contains(d+e, "sync.") {
			needSync = true
		}
		if d != "" {
			body.WriteString(d + "\n\n")
		}
		body.WriteString(e + "\n")
		entries[name] = u
	}
	if c.Base != "" {
		base := c.Base
		if needSync && !strings.Contains(base, "\"sync\"") {
			if strings.Contains(base, "import (") {
				base = strings.Replace(base, "import (", "import (\n\t\"sync\"", 1)
			} else {
				base = strings.Replace(base, "package main\n", "package main\n\nimport \"sync\"\n", 1)
			}
		}
		sb.WriteString(base + "\n")
	} else {
		sb.WriteString("package main\n\n")
		if needSync {
			sb.WriteString("import \"sync\"\n\n")
		}
	}
	sb.WriteString(body.String())
	return sb.String(), entries
}

// Outcome of one use.
type Outcome struct {
	Use     Use
	Class   string // rejected | faithful | go-panic | MISTRANSLATED | CRASH | MALFORMED | inconclusive | reaches-rejected
	Detail  string
	Emitted string
}

// runCase validates the package and classifies every use. generatorBug is
// non-empty when the rendered package does not type-check / compile.
func runCase(c Case) (outs []Outcome, other []string, generatorBug string) {
	src, entries := render(c)
	rep := tv.ValidateOpts(src, runner, tv.Options{AllowReject: true})
	if rep.GeneratorBug != "" {
		return nil, nil, rep.GeneratorBug
	}
	if len(rep.Entries) == 0 && len(rep.Violations) > 0 {
		// package-level failure (goose panic, malformed output): attribute to all uses
		class := "MALFORMED"
		if strings.Contains(rep.Violations[0], "goose panicked") {
			class = "CRASH"
		}
		for _, u := range c.Uses {
			outs = append(outs, Outcome{Use: u, Class: class, Detail: rep.Violations[0], Emitted: rep.Text})
		}
		return outs, nil, ""
	}
	seen := map[string]bool{}
	for _, e := range rep.Entries {
		u, isItem := entries[e.Name]
		var o Outcome
		switch {
		case e.Outcome == "rejected":
			o = Outcome{Class: "rejected", Detail: rep.Rejected[e.Name]}
		case e.GoPanic != "":
			o = Outcome{Class: "go-panic", Detail: e.GoPanic}
		case e.Agree:
			o = Outcome{Class: "faithful", Detail: e.Go}
		case e.Outcome == "unknown-primitive":
			o = Outcome{Class: "inconclusive", Detail: e.Model}
		case e.Outcome == "reaches-rejected":
			o = Outcome{Class: "reaches-rejected", Detail: e.Model}
		case e.EvalOrder:
			o = Outcome{Class: "MISTRANSLATED", Detail: fmt.Sprintf("evaluation order: Go %s, GooseLang (right-to-left) %s", e.Go, e.Model)}
		default:
			o = Outcome{Class: "MISTRANSLATED", Detail: fmt.Sprintf("Go returned %s, GooseLang: %s %s", e.Go, e.Outcome, e.Model)}
		}
		if isItem {
			o.Use = u
			o.Emitted = rep.Text
			outs = append(outs, o)
			seen[e.Name] = true
		} else if strings.ToUpper(o.Class) == o.Class {
			other = append(other, fmt.Sprintf("base entry %s: %s %s", e.Name, o.Class, o.Detail))
		}
	}
	// rejected helper declarations of an item count as rejection of the item when its entry disappeared
	for name, u := range entries {
		if !seen[name] {
			outs = append(outs, Outcome{Use: u, Class: "inconclusive", Detail: "entry not evaluated"})
		}
	}
	for _, v := range rep.Violations {
		if strings.Contains(v, "was rejected with an error but is also emitted") || strings.Contains(v, "not located inside") || strings.Contains(v, "non-structured") {
			other = append(other, v)
		}
	}
	sort.Slice(outs, func(i, j int) bool { return outs[i].Use.Item < outs[j].Use.Item })
	return outs, other, ""
}

func isViolation(class string) bool { return class == "MISTRANSLATED" || class == "CRASH" || class == "MALFORMED" }

func account(o Outcome) {
	ev.Add("programs", 1)
	ev.Label("outcome:" + o.Class)
	ev.Label("item:" + o.Use.Item + ":" + o.Class)
	switch o.Class {
	case "rejected", "faithful", "MISTRANSLATED", "CRASH", "MALFORMED":
		ev.Add("disagreements_checked", 1)
		ev.NonTrivial(fmt.Sprintf("%s|%d|%s", o.Use.Item, o.Use.Ctx, o.Class))
	case "inconclusive":
		ev.Inconclusive("model lacks primitive or entry not evaluated: " + o.Use.Item)
	}
}

func knownSkip(it *Item) bool {
	if it.Known != "" && ev.SwitchOn(it.Known) {
		ev.Prune(it.Known)
		return true
	}
	return false
}

// checkUses runs a case and reports violations of the uses (not excluded as known).
func checkUses(t ev.TB, test string, c Case) {
	ev.Eval()
	outs, other, bug := runCase(c)
	if bug != "" {
		// a package-level type error can be caused by a single item: retry the uses one by one
		if len(c.Uses) > 1 {
			for _, u := range c.Uses {
				checkUses(t, test, Case{Uses: []Use{u}})
			}
			return
		}
		ev.Inconclusive("generator bug")
		ev.Note("generator bug (%v): %s", c.Uses, firstLine(bug))
		if testing.Verbose() {
			fmt.Println("GENERATOR BUG", c.Uses, bug)
		}
		return
	}
	crashed := false
	for _, o := range outs {
		if (o.Class == "CRASH" || o.Class == "MALFORMED") && len(c.Uses) > 1 {
			crashed = true
		}
	}
	if crashed {
		// find the culprit: run each use alone
		for _, u := range c.Uses {
			checkUses(t, test, Case{Uses: []Use{u}})
		}
		return
	}
	for _, o := range outs {
		account(o)
		if ev.WantSample() && (o.Class == "rejected" || o.Class == "faithful") {
			_, e, _ := renderUse(o.Use, 0)
			ev.Sample(map[string]any{"item": o.Use.Item, "context": contexts[o.Use.Ctx], "outcome": o.Class, "detail": o.Detail, "entry": e})
		}
		if isViolation(o.Class) {
			single := Case{Base: "", Uses: []Use{o.Use}}
			ev.Failf(t, test, single, "item %s in context %s: %s\n%s\n--- emitted ---\n%s", o.Use.Item, contexts[o.Use.Ctx], o.Class, o.Detail, o.Emitted)
		}
	}
	if len(other) > 0 {
		ev.Failf(t, test, c, "%s", strings.Join(other, "\n"))
	}
}

func firstLine(s string) string {
	if i := strings.Index(s, "\n"); i >= 0 {
		return s[:i]
	}
	return s
}

func isSolo(it *Item) bool {
	return strings.HasPrefix(it.ID, "user-func-") || strings.HasPrefix(it.ID, "user-var-")
}

func pinned(t ev.TB, test string) {
	ev.Pinned(t, "C02", test, func(raw json.RawMessage) string {
		var c Case
		if json.Unmarshal(raw, &c) != nil {
			return ""
		}
		outs, other, bug := runCase(c)
		if bug != "" {
			return ""
		}
		for _, o := range outs {
			if isViolation(o.Class) {
				return o.Class + ": " + o.Detail
			}
		}
		if len(other) > 0 {
			return other[0]
		}
		return ""
	})
}

// TestCatalogueSweep runs every catalogue item (not excluded as a known
// finding) in VERIF_C02_CTXS contexts; deterministic enumeration, sharded by
// item index.
func TestCatalogueSweep(t *testing.T) {
	if !setup() {
		t.Skip("setup failed")
	}
	pinned(t, "TestCatalogueSweep")
	nsh := ev.EnvInt("VERIF_NSHARDS", 1)
	sh := ev.ShardIndex()
	nctx := ev.EnvInt("VERIF_C02_CTXS", 2)
	var batch []Use
	flush := func() {
		if len(batch) > 0 {
			checkUses(t, "TestCatalogueSweep", Case{Uses: batch})
			batch = nil
		}
	}
	for i := range catalogue {
		it := &catalogue[i]
		if i%nsh != sh {
			continue
		}
		if knownSkip(it) {
			continue
		}
		ctxs := []int{0}
		if !it.NoCtx {
			for k := 1; k < nctx && k < len(contexts); k++ {
				ctxs = append(ctxs, int((ev.Seed()+int64(i)+int64(k)*3)%4)+1)
			}
			if nctx >= len(contexts) {
				ctxs = []int{0, 1, 2, 3, 4}
			}
		}
		for _, cx := range ctxs {
			u := Use{Item: it.ID, Ctx: cx}
			if isSolo(it) {
				flush()
				checkUses(t, "TestCatalogueSweep", Case{Uses: []Use{u}})
				continue
			}
			batch = append(batch, u)
			if len(batch) >= 8 {
				flush()
			}
		}
	}
	flush()
}

// TestInsertions combines random items in random contexts with a generated
// base program: items must be rejected or faithful, the base program's
// entries must still agree.
func TestInsertions(t *testing.T) {
	if !setup() {
		t.Skip("setup failed")
	}
	rapid.Check(t, func(t *rapid.T) {
		cfg := gen.DefaultConfig()
		cfg.Entries, cfg.Helpers, cfg.MaxStmts = 2, 2, 4
		base := gen.Generate(t, cfg).Source("main")
		var pool []*Item
		for i := range catalogue {
			it := &catalogue[i]
			if isSolo(it) || knownSkip(it) {
				continue
			}
			pool = append(pool, it)
		}
		n := rapid.IntRange(1, 4).Draw(t, "nitems")
		var uses []Use
		for k := 0; k < n; k++ {
			it := pool[rapid.IntRange(0, len(pool)-1).Draw(t, "item")]
			uses = append(uses, Use{Item: it.ID, Ctx: rapid.IntRange(0, len(contexts)-1).Draw(t, "ctx")})
		}
		checkUses(t, "TestInsertions", Case{Base: base, Uses: uses})
	})
}

func TestReplay(t *testing.T) {
	p := ev.ReplayPath()
	if p == "" {
		t.Skip("no replay")
	}
	if !setup() {
		t.Skip("setup failed")
	}
	r, err := ev.LoadReplay(p)
	if err != nil {
		t.Fatal(err)
	}
	var c Case
	if err := json.Unmarshal(r.Case, &c); err != nil {
		t.Fatal(err)
	}
	checkUses(t, r.Test, c)
}

// TestDiscover prints the classification table of the whole catalogue
// (development aid; not part of any registered check).
func TestDiscover(t *testing.T) {
	if os.Getenv("C02_DISCOVER") == "" {
		t.Skip("set C02_DISCOVER=1")
	}
	if !setup() {
		t.Skip("setup failed")
	}
	for i := range catalogue {
		it := &catalogue[i]
		outs, other, bug := runCase(Case{Uses: []Use{{Item: it.ID, Ctx: 0}}})
		if bug != "" {
			fmt.Printf("%-28s GENERATOR-BUG %s\n", it.ID, firstLine(bug))
			continue
		}
		for _, o := range outs {
			d := o.Detail
			if len(d) > 110 {
				d = d[:110]
			}
			fmt.Printf("%-28s %-14s %s\n", it.ID, o.Class, strings.ReplaceAll(d, "\n", " "))
		}
		for _, x := range other {
			fmt.Printf("%-28s OTHER %s\n", it.ID, firstLine(x))
		}
	}
}
