// Package c12: MemFs ≡ DirFs ≡ reference model on all valid histories
// (DESIGN.md §3 C12).
//
// A case is a history of filesys.Filesys calls whose documented
// preconditions hold in the reference model (models.RefFs). The history is
// executed on a fresh MemFs, on a fresh DirFs over a scratch directory and on
// the model; after every call the three must agree. Descriptors are logical
// numbers (the model's) mapped to each implementation's own values.
package c12

import (
	"bytes"
	"encoding/json"
	"fmt"
	"os"
	"sort"
	"strings"
	"testing"

	"github.com/goose-lang/goose/machine/filesys"
	"pgregory.net/rapid"

	"verifharness/ev"
	"verifharness/models"
)

const (
	// generator switches of the known findings (see /verif/known/C12)
	swL2 = "noTwoDescriptorsOnOneInode" // L2: MemFs uses the inode number as descriptor
	swL3 = "noDirNamedLikeStagingFile"  // L3: DirFs.AtomicCreate stages in <root>/<name>.tmp
	test = "TestHistories"
)

func TestMain(m *testing.M) {
	ev.Meta("exploration",
		"cases = histories of Filesys calls valid in the reference model, run on MemFs, DirFs and RefFs; "+
			"non-trivial = at some point >= 2 descriptors are open on one inode, or a ReadAt reads an inode that an earlier Delete/AtomicCreate/Link affected; distinct by history",
		"reference model models.RefFs is hand-written from the interface documentation (filesys.go) and POSIX hard-link/unlink semantics",
		"DirFs runs on the filesystem holding os.TempDir() (ext4 here)",
		"ReadAt lengths are bounded by 70000 and offsets by 2^40 (both implementations allocate `length` bytes; larger values are outside the explored domain)")
	ev.Main(m, "C12")
}

// Case is one history.
type Case struct {
	Ops []models.FsOp `json:"ops"`
}

// ---- running a history ---------------------------------------------------

type impl struct {
	name string
	fs   filesys.Filesys
	fds  map[int]filesys.File // logical descriptor -> implementation value
	// held: the last few slices ReadAt returned, extended to their full capacity and scribbled
	// over, with a snapshot: the file system must never write into memory it handed out
	held []heldSlice
}

type heldSlice struct {
	call       string
	mem, snapv []byte
}

// heldChanged reports a returned slice (or the spare capacity behind it) that the file system
// has written to since it was handed out.
func (im *impl) heldChanged() string {
	for _, h := range im.held {
		if !bytes.Equal(h.mem, h.snapv) {
			return fmt.Sprintf("the slice returned by %s (extended to its capacity of %d bytes and overwritten by the caller) was later modified by the file system at byte %d", h.call, len(h.mem), firstDiff(h.snapv, h.mem))
		}
	}
	return ""
}

func scribble(b []byte) {
	for i := range b {
		b[i] ^= 0xa5
	}
}

// do executes one call on the implementation; pmsg != "" when it panicked.
func (im *impl) do(op models.FsOp) (res models.FsRes, newFd filesys.File, pmsg string) {
	defer func() {
		if r := recover(); r != nil {
			pmsg = fmt.Sprint(r)
			if pmsg == "" {
				pmsg = "panic"
			}
		}
	}()
	switch op.Kind {
	case models.FsMkdir:
		im.fs.Mkdir(op.Dir)
	case models.FsCreate:
		f, ok := im.fs.Create(op.Dir, op.Name)
		res.Ok = ok
		newFd = f
	case models.FsOpen:
		newFd = im.fs.Open(op.Dir, op.Name)
	case models.FsAppend:
		d := op.Data()
		im.fs.Append(im.fds[op.Fd], d)
		scribble(d) // the passed slice must not be aliased with the file
	case models.FsClose:
		im.fs.Close(im.fds[op.Fd])
	case models.FsReadAt:
		got := im.fs.ReadAt(im.fds[op.Fd], op.Off, op.Len)
		res.Data = append([]byte{}, got...)
		// the returned slice must not be aliased with the file: neither its bytes nor the spare
		// capacity behind it (a caller's append(got, …) writes there; seeded change C12-4)
		full := got[:cap(got)]
		scribble(full)
		if len(full) > 0 {
			im.held = append(im.held, heldSlice{call: op.String(), mem: full, snapv: append([]byte{}, full...)})
			if len(im.held) > 6 {
				im.held = im.held[1:]
			}
		}
	case models.FsDelete:
		im.fs.Delete(op.Dir, op.Name)
	case models.FsLink:
		res.Ok = im.fs.Link(op.Dir, op.Name, op.Dir2, op.Name2)
	case models.FsAtomic:
		d := op.Data()
		im.fs.AtomicCreate(op.Dir, op.Name, d)
		scribble(d)
	case models.FsList:
		names := append([]string{}, im.fs.List(op.Dir)...)
		sort.Strings(names)
		res.Names = names
	}
	return
}

func showRes(kind string, r models.FsRes) string {
	switch kind {
	case models.FsCreate, models.FsLink:
		return fmt.Sprintf("ok=%v", r.Ok)
	case models.FsReadAt:
		if len(r.Data) > 24 {
			return fmt.Sprintf("%d bytes %x…%x", len(r.Data), r.Data[:12], r.Data[len(r.Data)-8:])
		}
		return fmt.Sprintf("%d bytes %x", len(r.Data), r.Data)
	case models.FsList:
		return fmt.Sprintf("%q", r.Names)
	}
	return "()"
}

func firstDiff(a, b []byte) int {
	for i := 0; i < len(a) && i < len(b); i++ {
		if a[i] != b[i] {
			return i
		}
	}
	if len(a) != len(b) {
		if len(a) < len(b) {
			return len(a)
		}
		return len(b)
	}
	return -1
}

// runCase returns "" when the property holds on c. invalid=true means that the
// history is not valid in the model (generator or replay-file problem, never
// a violation).
func runCase(c Case) (msg string, invalid bool) {
	root, err := os.MkdirTemp(ev.Scratch(), "c12-")
	if err != nil {
		return "scratch: " + err.Error(), true
	}
	defer os.RemoveAll(root)
	dfs := filesys.NewDirFs(root)
	mem := &impl{name: "MemFs", fs: filesys.NewMemFs(), fds: map[int]filesys.File{}}
	dir := &impl{name: "DirFs", fs: dfs, fds: map[int]filesys.File{}}
	defer func() {
		// close every OS descriptor DirFs still holds
		for _, f := range dir.fds {
			if int(f) > 2 {
				func() {
					defer func() { recover() }()
					dfs.Close(f)
				}()
			}
		}
		func() {
			defer func() { recover() }()
			dfs.CloseFs()
		}()
	}()
	ref := models.NewRefFs()
	var trace []string
	history := func() string {
		t := trace
		if len(t) > 14 {
			t = append([]string{fmt.Sprintf("… (%d earlier calls)", len(t)-14)}, t[len(t)-14:]...)
		}
		return strings.Join(t, "\n")
	}
	step := func(i int, op models.FsOp) (string, bool) {
		next, want, valid := ref.Apply(op, -1)
		if !valid {
			return fmt.Sprintf("call %d %s is not valid in the reference model", i, op), true
		}
		trace = append(trace, fmt.Sprintf("%3d %s => %s", i, op, showRes(op.Kind, want)))
		for _, im := range []*impl{mem, dir} {
			got, nf, pmsg := im.do(op)
			if pmsg != "" {
				return fmt.Sprintf("%s panicked on call %d %s: %s\n(model result: %s)\nhistory:\n%s",
					im.name, i, op, pmsg, showRes(op.Kind, want), history()), false
			}
			if m := im.heldChanged(); m != "" {
				return fmt.Sprintf("%s: after call %d %s %s\nhistory:\n%s", im.name, i, op, m, history()), false
			}
			if !models.FsResEqual(op.Kind, want, got) {
				extra := ""
				if op.Kind == models.FsReadAt {
					extra = fmt.Sprintf(" (first difference at byte %d)", firstDiff(want.Data, got.Data))
				}
				return fmt.Sprintf("%s disagrees with the reference model on call %d %s:\n  model: %s\n  %s: %s%s\nhistory:\n%s",
					im.name, i, op, showRes(op.Kind, want), im.name, showRes(op.Kind, got), extra, history()), false
			}
			switch op.Kind {
			case models.FsCreate, models.FsOpen:
				if op.Kind == models.FsCreate && !want.Ok {
					break
				}
				// an independent descriptor: its value differs from every descriptor still open
				var logical []int
				for l := range im.fds {
					logical = append(logical, l)
				}
				sort.Ints(logical)
				for _, l := range logical {
					if im.fds[l] == nf {
						return fmt.Sprintf("%s: call %d %s returned descriptor value %d, which is the value of the still-open descriptor fd%d (descriptors are not independent)\nhistory:\n%s",
							im.name, i, op, int(nf), l, history()), false
					}
				}
				im.fds[want.Fd] = nf
			case models.FsClose:
				delete(im.fds, op.Fd)
			}
		}
		ref = next
		return "", false
	}
	for i, op := range c.Ops {
		if m, inv := step(i, op); m != "" {
			return m, inv
		}
	}
	// final sweep: read every live read descriptor in full, close everything,
	// list every directory and read every file through a fresh descriptor.
	n := len(c.Ops)
	sweep := func(op models.FsOp) (string, bool) {
		m, inv := step(n, op)
		n++
		if m != "" {
			m = "final sweep: " + m
		}
		return m, inv
	}
	for _, fd := range ref.Fds(models.FsRead) {
		ino, _, _ := ref.FdInode(fd)
		if m, inv := sweep(models.FsOp{Kind: models.FsReadAt, Fd: fd, Off: 0, Len: uint64(ref.Size(ino) + 7)}); m != "" {
			return m, inv
		}
	}
	for _, fd := range ref.AllFds() {
		if m, inv := sweep(models.FsOp{Kind: models.FsClose, Fd: fd}); m != "" {
			return m, inv
		}
	}
	for _, d := range ref.Dirs() {
		if m, inv := sweep(models.FsOp{Kind: models.FsList, Dir: d}); m != "" {
			return m, inv
		}
		for _, nm := range ref.Names(d) {
			ino, _ := ref.Lookup(d, nm)
			size := ref.Size(ino)
			if m, inv := sweep(models.FsOp{Kind: models.FsOpen, Dir: d, Name: nm}); m != "" {
				return m, inv
			}
			fd := ref.AllFds()[0]
			if m, inv := sweep(models.FsOp{Kind: models.FsReadAt, Fd: fd, Off: 0, Len: uint64(size + 1)}); m != "" {
				return m, inv
			}
			if size > 1 {
				if m, inv := sweep(models.FsOp{Kind: models.FsReadAt, Fd: fd, Off: uint64(size / 2), Len: uint64(size)}); m != "" {
					return m, inv
				}
			}
			if m, inv := sweep(models.FsOp{Kind: models.FsClose, Fd: fd}); m != "" {
				return m, inv
			}
		}
	}
	return "", false
}

// ---- classification ------------------------------------------------------

type class struct {
	labels     map[string]bool
	nonTrivial bool
	invalid    bool
}

// classify replays the history on the model only.
func classify(c Case) class {
	cl := class{labels: map[string]bool{}}
	ref := models.NewRefFs()
	affected := map[int]bool{}
	for _, op := range c.Ops {
		next, res, valid := ref.Apply(op, -1)
		if !valid {
			cl.invalid = true
			return cl
		}
		switch op.Kind {
		case models.FsCreate:
			if !res.Ok {
				cl.labels["create-existing-name"] = true
			}
		case models.FsOpen:
			ino, _ := ref.Lookup(op.Dir, op.Name)
			if ref.OpenCount(ino) >= 1 {
				cl.labels["two-descriptors-one-inode"] = true
				cl.nonTrivial = true
				for _, fd := range ref.Fds(models.FsWrite) {
					if i, _, _ := ref.FdInode(fd); i == ino {
						cl.labels["open-while-creator-open"] = true
					}
				}
			}
		case models.FsAppend:
			ino, _, _ := ref.FdInode(op.Fd)
			if ref.OpenCount(ino) >= 2 {
				cl.labels["append-while-reader-open"] = true
			}
			if ref.Nlink(ino) == 0 {
				cl.labels["append-to-unlinked"] = true
			}
			if ref.Nlink(ino) >= 2 {
				cl.labels["append-to-multiply-linked"] = true
			}
			if op.N > 4096 {
				cl.labels["data>4096"] = true
			}
			if op.N == 0 {
				cl.labels["data=0"] = true
			}
		case models.FsClose:
			ino, _, _ := ref.FdInode(op.Fd)
			if ref.OpenCount(ino) >= 2 {
				cl.labels["close-one-of-several"] = true
			}
		case models.FsReadAt:
			ino, _, _ := ref.FdInode(op.Fd)
			size := uint64(ref.Size(ino))
			if affected[ino] {
				cl.labels["read-of-affected-inode"] = true
				cl.nonTrivial = true
			}
			if ref.Nlink(ino) == 0 {
				cl.labels["read-of-unlinked-inode"] = true
			}
			switch {
			case op.Len == 0:
				cl.labels["readat-len0"] = true
			case op.Off == size:
				cl.labels["readat-at-eof"] = true
			case op.Off > size:
				cl.labels["readat-beyond-eof"] = true
			case op.Len > size-op.Off:
				cl.labels["readat-crossing-eof"] = true
			case op.Len == size-op.Off:
				cl.labels["readat-exactly-to-eof"] = true
			default:
				cl.labels["readat-inside"] = true
			}
			if len(res.Data) > 4096 {
				cl.labels["read>4096"] = true
			}
			if len(res.Data) > 65536 {
				cl.labels["read>65536"] = true
			}
		case models.FsDelete:
			ino, _ := ref.Lookup(op.Dir, op.Name)
			affected[ino] = true
			if ref.OpenCount(ino) > 0 {
				cl.labels["delete-while-open"] = true
			}
			if ref.Nlink(ino) >= 2 {
				cl.labels["delete-one-of-several-links"] = true
			}
		case models.FsLink:
			ino, _ := ref.Lookup(op.Dir, op.Name)
			if res.Ok {
				affected[ino] = true
				if op.Dir != op.Dir2 {
					cl.labels["link-across-dirs"] = true
				}
			} else {
				cl.labels["link-onto-existing-name"] = true
			}
		case models.FsAtomic:
			if ino, ok := ref.Lookup(op.Dir, op.Name); ok {
				affected[ino] = true
				cl.labels["atomic-over-existing"] = true
				if ref.OpenCount(ino) > 0 {
					cl.labels["atomic-over-open-file"] = true
				}
				if ref.Nlink(ino) >= 2 {
					cl.labels["atomic-over-linked-name"] = true
				}
			}
			if ref.HasDir(op.Name + ".tmp") {
				cl.labels["atomic-name.tmp-is-a-directory"] = true
			}
			if op.N > 4096 {
				cl.labels["data>4096"] = true
			}
		case models.FsList:
			if len(res.Names) >= 2 {
				cl.labels["list>=2-names"] = true
			}
		}
		ref = next
	}
	if len(ref.Dirs()) >= 2 {
		cl.labels["dirs>=2"] = true
	}
	switch n := len(c.Ops); {
	case n <= 10:
		cl.labels["len<=10"] = true
	case n <= 30:
		cl.labels["len11-30"] = true
	default:
		cl.labels["len>30"] = true
	}
	return cl
}

// ---- generation ------------------------------------------------------------

// longName: 240 bytes, a valid file name (NAME_MAX is 255) that leaves little room for a staging
// suffix (seeded change C13-9: the name truncated to make room)
var longName = strings.Repeat("n", 236) + ".dat"

// names that look like something else: a directory named like a file, like another directory plus a
// suffix, like the staging name of an AtomicCreate (<name>.<i>.tmp; seeded change C12-5)
var dirPool = []string{"d", "e", "x.tmp", "ü", "dir-2", "a", "d2", "a.0.tmp"}
var namePool = []string{"a", "b", "c", "x", "a.b", "a-b", "ü", "x.tmp", "a.tmp", "a.0.tmp", "x.12.tmp", ".h", "a b", "-r", "2a", "2", longName} // d + 2a and d2 + a concatenate to the same text (seeded change C12-9)

// bigSizes straddles the page size and the 64 KiB / 128 KiB marks at which an implementation that
// reads or writes in chunks would switch to a second chunk (seeded change C12-2).
var bigSizes = []int{0, 1, 4095, 4096, 4097, 8192, 8193, 12288, 20000, 65535, 65536, 65537, 70000, 131072, 131073, 200001}

// raw is the randomness of one step of the history; build interprets it
// against the model state, so that deleting or simplifying steps (shrinking)
// always leaves a valid history.
type raw struct{ A, B, C, D, E, F int }

var rawGen = rapid.Custom(func(t *rapid.T) raw {
	g := rapid.IntRange(0, 1<<20)
	return raw{g.Draw(t, "a"), g.Draw(t, "b"), g.Draw(t, "c"), g.Draw(t, "d"), g.Draw(t, "e"), g.Draw(t, "f")}
})

func dataOf(r raw) (seed, n int) {
	seed = r.C % 256
	switch r.D % 6 {
	case 0:
		n = bigSizes[r.E%len(bigSizes)]
	case 1:
		n = r.E % 9001
	default:
		n = r.E % 41
	}
	return
}

func readOf(r raw, size uint64) (off, length uint64) {
	switch r.C % 8 {
	case 0:
		off = 0
	case 1:
		off = size
	case 2:
		if size > 0 {
			off = size - 1
		}
	case 3:
		off = size + 1
	case 4:
		off = size + uint64(r.D%5000)
	case 5:
		off = uint64(1) << 40
	default:
		off = uint64(r.D) % (size + 1)
	}
	var rest uint64
	if off < size {
		rest = size - off
	}
	switch r.E % 9 {
	case 0:
		length = 0
	case 1:
		length = 1
	case 2:
		length = rest
	case 3:
		length = rest + 1
	case 4:
		if rest > 0 {
			length = rest - 1
		}
	case 5:
		length = uint64([]int{4095, 4096, 4097, 8192, 65536, 65537, 70000, 131073, 1 << 21}[r.F%9])
	default:
		length = uint64(r.F) % (size + 11)
	}
	return
}

type choice struct {
	kind   string
	weight int
}

// build turns raw randomness into a history that is valid in the model.
func build(dirs []string, ndirs int, raws []raw, l2, l3 bool) Case {
	var c Case
	ref := models.NewRefFs()
	emit := func(op models.FsOp) {
		next, _, valid := ref.Apply(op, -1)
		if !valid {
			panic("generator produced an invalid call: " + op.String())
		}
		ref = next
		c.Ops = append(c.Ops, op)
	}
	for _, d := range dirs[:ndirs] {
		emit(models.FsOp{Kind: models.FsMkdir, Dir: d})
	}
	unused := dirs[ndirs:]
	type ent struct{ dir, name string }
	for _, r := range raws {
		var ents []ent
		for _, d := range ref.Dirs() {
			for _, nm := range ref.Names(d) {
				ents = append(ents, ent{d, nm})
			}
		}
		wfds, rfds, all := ref.Fds(models.FsWrite), ref.Fds(models.FsRead), ref.AllFds()
		choices := []choice{{models.FsCreate, 5}, {models.FsAtomic, 3}, {models.FsList, 2}}
		if len(unused) > 0 {
			choices = append(choices, choice{models.FsMkdir, 1})
		}
		if len(wfds) > 0 {
			choices = append(choices, choice{models.FsAppend, 8})
		}
		if len(all) > 0 {
			choices = append(choices, choice{models.FsClose, 3})
		}
		if len(rfds) > 0 {
			choices = append(choices, choice{models.FsReadAt, 10})
		}
		if len(ents) > 0 {
			choices = append(choices, choice{models.FsOpen, 6}, choice{models.FsDelete, 2}, choice{models.FsLink, 3})
		}
		total := 0
		for _, ch := range choices {
			total += ch.weight
		}
		x := r.A % total
		kind := ""
		for _, ch := range choices {
			if x < ch.weight {
				kind = ch.kind
				break
			}
			x -= ch.weight
		}
		ds := ref.Dirs()
		switch kind {
		case models.FsMkdir:
			emit(models.FsOp{Kind: models.FsMkdir, Dir: unused[0]})
			unused = unused[1:]
		case models.FsCreate:
			emit(models.FsOp{Kind: models.FsCreate, Dir: ds[r.B%len(ds)], Name: namePool[r.C%len(namePool)]})
		case models.FsAtomic:
			op := models.FsOp{Kind: models.FsAtomic, Dir: ds[r.B%len(ds)], Name: namePool[r.F%len(namePool)]}
			op.Seed, op.N = dataOf(r)
			if l3 && ref.HasDir(op.Name+".tmp") {
				// known finding L3: the staging file <root>/<name>.tmp collides with the directory
				ev.Prune(swL3)
				op.Name = "b"
			}
			emit(op)
		case models.FsList:
			emit(models.FsOp{Kind: models.FsList, Dir: ds[r.B%len(ds)]})
		case models.FsAppend:
			op := models.FsOp{Kind: models.FsAppend, Fd: wfds[r.B%len(wfds)]}
			op.Seed, op.N = dataOf(r)
			emit(op)
		case models.FsClose:
			emit(models.FsOp{Kind: models.FsClose, Fd: all[r.B%len(all)]})
		case models.FsReadAt:
			fd := rfds[r.B%len(rfds)]
			ino, _, _ := ref.FdInode(fd)
			off, length := readOf(r, uint64(ref.Size(ino)))
			emit(models.FsOp{Kind: models.FsReadAt, Fd: fd, Off: off, Len: length})
		case models.FsOpen:
			e := ents[r.B%len(ents)]
			ino, _ := ref.Lookup(e.dir, e.name)
			if l2 && ref.OpenCount(ino) > 0 {
				// known finding L2: a second descriptor on one inode is not
				// independent in MemFs; close the existing one(s) first
				ev.Prune(swL2)
				for _, fd := range all {
					if i, _, _ := ref.FdInode(fd); i == ino {
						emit(models.FsOp{Kind: models.FsClose, Fd: fd})
					}
				}
			}
			emit(models.FsOp{Kind: models.FsOpen, Dir: e.dir, Name: e.name})
		case models.FsDelete:
			e := ents[r.B%len(ents)]
			emit(models.FsOp{Kind: models.FsDelete, Dir: e.dir, Name: e.name})
		case models.FsLink:
			e := ents[r.B%len(ents)]
			emit(models.FsOp{Kind: models.FsLink, Dir: e.dir, Name: e.name, Dir2: ds[r.C%len(ds)], Name2: namePool[r.D%len(namePool)]})
		}
	}
	return c
}

func genCase(t *rapid.T) Case {
	ndirs := rapid.IntRange(1, 3).Draw(t, "ndirs")
	dirs := rapid.Permutation(dirPool).Draw(t, "dirs")
	minLen := rapid.SampledFrom([]int{1, 5, 15, 30, 50}).Draw(t, "minlen")
	raws := rapid.SliceOfN(rawGen, minLen, 80).Draw(t, "steps")
	return build(dirs, ndirs, raws, models.KnownSwitch(swL2), models.KnownSwitch(swL3))
}

// ---- tests -----------------------------------------------------------------

func check(t ev.TB, c Case) {
	cl := classify(c)
	if cl.invalid {
		ev.Inconclusive("history not valid in the reference model")
		return
	}
	ev.Eval()
	var ls []string
	for l := range cl.labels {
		ls = append(ls, l)
	}
	sort.Strings(ls)
	for _, l := range ls {
		ev.Label(l)
	}
	if cl.nonTrivial {
		b, _ := json.Marshal(c)
		ev.NonTrivial(string(b))
		if len(c.Ops) <= 25 {
			ev.Sample(c)
		}
	}
	msg, invalid := runCase(c)
	if invalid {
		ev.Inconclusive("case could not be run: " + msg)
		return
	}
	if msg != "" {
		ev.Failf(t, test, c, "%s", msg)
	}
}

func pinned(raw json.RawMessage) string {
	var c Case
	if err := json.Unmarshal(raw, &c); err != nil {
		return ""
	}
	msg, invalid := runCase(c)
	if invalid {
		ev.Inconclusive("pinned case could not be run: " + msg)
		return ""
	}
	return msg
}

func TestHistories(t *testing.T) {
	ev.Pinned(t, "C12", test, pinned)
	rapid.Check(t, func(t *rapid.T) { check(t, genCase(t)) })
}

func TestReplay(t *testing.T) {
	p := ev.ReplayPath()
	if p == "" {
		t.Skip("no replay")
	}
	r, err := ev.LoadReplay(p)
	if err != nil {
		t.Fatal(err)
	}
	var c Case
	if err := json.Unmarshal(r.Case, &c); err != nil {
		t.Fatal(err)
	}
	check(t, c)
}
