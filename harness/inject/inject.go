// Package inject (engine E5) runs a child process under strace and either
// records its system calls, makes the N-th call of one system call fail with
// an errno without executing it, or kills the process on entry to the N-th
// call (a crash point). No hook in /repo is needed: the child is an ordinary
// binary built from the current tree.
package inject

import (
	"bufio"
	"bytes"
	"context"
	"fmt"
	"os"
	"os/exec"
	"regexp"
	"strconv"
	"strings"
	"time"
)

// Syscalls is the default set traced (as issued by x/sys on linux/amd64).
const Syscalls = "openat,write,pwrite64,pread64,fsync,fdatasync,ftruncate,renameat,renameat2,unlinkat,linkat,close,mkdirat,getdents64,fstat,newfstatat"

// Mode of a run.
type Mode int

const (
	Trace Mode = iota // record only
	Error             // fail the When-th call of Syscall with Errno
	Kill              // SIGKILL on entry to the When-th call of Syscall
)

// Spec describes one run.
type Spec struct {
	Mode    Mode
	Syscall string // e.g. "fsync"
	When    int    // 1-based occurrence among calls of Syscall (after PathFilter, if any)
	Errno   string // e.g. "EIO"
	// Persistent: in Error mode fail the When-th call and every later one (strace when=N+),
	// so that a retry loop cannot succeed.
	Persistent bool
	Argv       []string
	Env        []string
	Dir        string
	Timeout    time.Duration
	// TraceSet overrides the traced syscall set.
	TraceSet string
}

// Call is one traced system call.
type Call struct {
	Pid    int
	Name   string
	Args   string
	Ret    string // "0", "-1 EIO (Input/output error) (INJECTED)", "?" when killed
	Raw    string
	Failed bool
	Inject bool
}

// Result of a run.
type Result struct {
	Exit     int  // exit status of the child (strace propagates it); 137-like when killed
	Killed   bool // child died from SIGKILL
	TimedOut bool
	Stdout   string
	Stderr   string
	Calls    []Call
}

// Available reports whether strace can trace a child here.
func Available() error {
	if _, err := exec.LookPath("strace"); err != nil {
		return err
	}
	out, err := exec.Command("strace", "-f", "-e", "trace=write", "-o", "/dev/null", "true").CombinedOutput()
	if err != nil {
		return fmt.Errorf("strace cannot trace: %v: %s", err, out)
	}
	return nil
}

var lineRe = regexp.MustCompile(`^(\d+)\s+([a-z0-9_]+)\((.*)\)\s+=\s+(.*)$`)
var unfinishedRe = regexp.MustCompile(`^(\d+)\s+([a-z0-9_]+)\((.*) <unfinished \.\.\.>$`)
var resumedRe = regexp.MustCompile(`^(\d+)\s+<\.\.\. ([a-z0-9_]+) resumed>(.*)\)\s+=\s+(.*)$`)

// Run executes the spec.
func Run(s Spec) (*Result, error) {
	tf, err := os.CreateTemp("", "strace-*.log")
	if err != nil {
		return nil, err
	}
	tf.Close()
	defer os.Remove(tf.Name())
	set := s.TraceSet
	if set == "" {
		set = Syscalls
	}
	args := []string{"-f", "-qq", "-s", "64", "-o", tf.Name(), "-e", "trace=" + set, "-e", "signal=none"}
	switch s.Mode {
	case Error:
		plus := ""
		if s.Persistent {
			plus = "+"
		}
		args = append(args, "-e", fmt.Sprintf("inject=%s:error=%s:when=%d%s", s.Syscall, s.Errno, s.When, plus))
	case Kill:
		args = append(args, "-e", fmt.Sprintf("inject=%s:signal=KILL:when=%d", s.Syscall, s.When))
	}
	args = append(args, "--")
	args = append(args, s.Argv...)
	to := s.Timeout
	if to == 0 {
		to = 30 * time.Second
	}
	ctx, cancel := context.WithTimeout(context.Background(), to)
	defer cancel()
	cmd := exec.CommandContext(ctx, "strace", args...)
	cmd.Dir = s.Dir
	cmd.Env = append(os.Environ(), s.Env...)
	var so, se bytes.Buffer
	cmd.Stdout = &so
	cmd.Stderr = &se
	err = cmd.Run()
	r := &Result{Stdout: so.String(), Stderr: se.String()}
	if ctx.Err() != nil {
		r.TimedOut = true
	}
	if err != nil {
		if ee, ok := err.(*exec.ExitError); ok {
			r.Exit = ee.ExitCode()
			if r.Exit == -1 || r.Exit == 137 {
				r.Killed = true
			}
		} else {
			return nil, err
		}
	}
	r.Calls = parse(tf.Name())
	if strings.Contains(r.Stderr, "+++ killed by SIGKILL") {
		r.Killed = true
	}
	for _, c := range r.Calls {
		if c.Raw == "+++ killed by SIGKILL +++" {
			r.Killed = true
		}
	}
	return r, nil
}

func parse(path string) []Call {
	f, err := os.Open(path)
	if err != nil {
		return nil
	}
	defer f.Close()
	var calls []Call
	pending := map[string]int{} // pid/name -> index of unfinished call
	sc := bufio.NewScanner(f)
	sc.Buffer(make([]byte, 1<<20), 1<<24)
	for sc.Scan() {
		line := sc.Text()
		if m := lineRe.FindStringSubmatch(line); m != nil {
			pid, _ := strconv.Atoi(m[1])
			calls = append(calls, mk(pid, m[2], m[3], m[4], line))
			continue
		}
		if m := unfinishedRe.FindStringSubmatch(line); m != nil {
			pid, _ := strconv.Atoi(m[1])
			pending[m[1]+"/"+m[2]] = len(calls)
			calls = append(calls, Call{Pid: pid, Name: m[2], Args: m[3], Ret: "?", Raw: line})
			continue
		}
		if m := resumedRe.FindStringSubmatch(line); m != nil {
			if i, ok := pending[m[1]+"/"+m[2]]; ok {
				c := mk(calls[i].Pid, m[2], calls[i].Args+m[3], m[4], calls[i].Raw+" … "+line)
				calls[i] = c
				delete(pending, m[1]+"/"+m[2])
			}
			continue
		}
		if i := strings.Index(line, "+++ killed by SIGKILL"); i >= 0 {
			calls = append(calls, Call{Name: "+++", Raw: "+++ killed by SIGKILL +++"})
		}
	}
	return calls
}

func mk(pid int, name, args, ret, raw string) Call {
	c := Call{Pid: pid, Name: name, Args: args, Ret: strings.TrimSpace(ret), Raw: raw}
	c.Failed = strings.HasPrefix(c.Ret, "-1")
	c.Inject = strings.Contains(c.Ret, "(INJECTED)")
	return c
}

// Count returns how many calls of the named syscall the trace contains whose
// argument text contains sub (sub == "" matches all).
func Count(calls []Call, name, sub string) int {
	n := 0
	for _, c := range calls {
		if c.Name == name && strings.Contains(c.Args, sub) {
			n++
		}
	}
	return n
}

// RunPlain runs a child without strace (same Result conventions as Run).
func RunPlain(argv []string, timeout time.Duration) (*Result, error) {
	return RunPlainEnv(argv, nil, timeout)
}

// RunPlainEnv is RunPlain with extra environment variables.
func RunPlainEnv(argv, env []string, timeout time.Duration) (*Result, error) {
	if timeout == 0 {
		timeout = 30 * time.Second
	}
	ctx, cancel := context.WithTimeout(context.Background(), timeout)
	defer cancel()
	cmd := exec.CommandContext(ctx, argv[0], argv[1:]...)
	cmd.Env = append(os.Environ(), env...)
	var so, se bytes.Buffer
	cmd.Stdout = &so
	cmd.Stderr = &se
	err := cmd.Run()
	r := &Result{Stdout: so.String(), Stderr: se.String()}
	if ctx.Err() != nil {
		r.TimedOut = true
	}
	if err != nil {
		ee, ok := err.(*exec.ExitError)
		if !ok {
			return nil, err
		}
		r.Exit = ee.ExitCode()
		if r.Exit == -1 || r.Exit == 137 {
			r.Killed = true
		}
	}
	return r, nil
}
