// Package c03: concurrent programs — Go outcomes are GooseLang outcomes over
// all schedules (DESIGN.md §3 C03).
package c03

import (
	"encoding/json"
	"fmt"
	"go/types"
	"sort"
	"strings"
	"testing"

	goose "github.com/goose-lang/goose"
	"pgregory.net/rapid"

	"verifharness/ev"
	"verifharness/gen"
	"verifharness/glang"
	"verifharness/tv"
	"verifharness/vread"
)

var runner *tv.GoRunner

func TestMain(m *testing.M) {
	ev.Meta("exploration",
		"cases = generated data-race-free programs (1-3 goroutines spawned explicitly or in a loop, a mutex protecting a pointer-wrapped local, a struct, a map, a slice and an order log; joins through sync.WaitGroup, a condition-variable counter or none; condition-variable hand-off; machine.Sleep / machine.WaitTimeout); Go side: the program is run 24+ times under GOMAXPROCS 1/2/4/16 plus race-detector runs (a reported race voids the case); model side: the emitted GooseLang is explored depth-first over all interleavings at synchronisation points; "+
			"oracle: goose accepts; no explored interleaving has a stuck thread; every Go outcome is a model outcome (when the exploration is complete); for the schedule-independent family the model has exactly one outcome, equal to Go's, and no interleaving deadlocks; "+
			"non-trivial = at least 2 threads touch the shared state and the exploration visited >= 2 interleavings (schedule-dependent family: additionally >= 2 model outcomes); distinct by program source",
		"GooseLang lock / condition variable / waitgroup / Fork semantics = harness/glang (DESIGN.md Appendix A): condWait = release; re-acquire (spurious wake-ups allowed), signal/broadcast are no-ops; interleaving only at acquire-type operations (sound for data-race-free programs)",
		"Go's schedule space is sampled, not enumerated")
	ev.Main(m, "C03")
}

type Case struct {
	Src         string `json:"src"`
	Independent bool   `json:"independent"`
	MayReject   bool   `json:"may_reject"`
}

func setup() bool {
	if runner == nil {
		res, err := glang.Calibrate(ev.Repo())
		if err != nil || len(res.Problems) > 0 {
			ev.Inconclusive(fmt.Sprintf("interpreter calibration failed: %v %v", err, res))
			return false
		}
		r, err := tv.NewGoRunner()
		if err != nil {
			ev.Inconclusive("cannot create go runner: " + err.Error())
			return false
		}
		runner = r
	}
	return true
}

type info struct {
	schedules    int
	complete     bool
	modelSet     int
	goSet        int
	unusable     string
	inconclusive string
	rejected     bool
}

func runCase(c Case) (string, info) {
	var inf info
	tr, err := tv.Translate("main", []tv.SourceFile{{Name: "prog.go", Src: c.Src}}, goose.TranslationConfig{})
	if err != nil {
		inf.unusable = err.Error()
		return "", inf
	}
	if tr.Panic != nil {
		return fmt.Sprintf("goose panicked: %v", tr.Panic), inf
	}
	if len(tr.Errs) > 0 {
		if c.MayReject {
			inf.rejected = true
			return "", inf
		}
		return fmt.Sprintf("goose rejected a concurrent program of the supported subset: %v", tr.Errs[0]), inf
	}
	vf, err := vread.ParseFile(tr.Text)
	if err != nil {
		return "emitted text does not parse: " + err.Error() + "\n" + tr.Text, inf
	}
	f, ok := tr.Pkg.Scope().Lookup("entry0").(*types.Func)
	if !ok {
		inf.unusable = "no entry0"
		return "", inf
	}
	res := f.Type().(*types.Signature).Results()
	var tys []types.Type
	for i := 0; i < res.Len(); i++ {
		tys = append(tys, res.At(i).Type())
	}
	repeat, raceRuns := 6, 4
	if ev.Thorough() {
		repeat, raceRuns = 15, 8
	}
	gr, err := runner.RunMany(c.Src, tv.Entry{Name: "entry0", NResults: res.Len()}, []int{1, 2, 4, 16}, repeat, raceRuns)
	if err != nil {
		inf.unusable = err.Error()
		return "", inf
	}
	if gr.Race != "" {
		inf.unusable = "generated program has a data race (generator bug): " + firstLines(gr.Race, 12)
		return "", inf
	}
	if len(gr.Panics) > 0 {
		inf.unusable = fmt.Sprintf("generated program panicked in Go: %v", gr.Panics)
		return "", inf
	}
	inf.goSet = len(gr.Outcomes)
	prog := glang.Load("main", map[string]*vread.File{"main": vf})
	model := map[string]int{}
	var bad string
	deadlocks := 0
	var deadlockTrace []int
	maxRuns := 40000
	if ev.Thorough() {
		maxRuns = 400000
	}
	runs, complete := glang.Explore(prog, "entry0", 3_000_000, maxRuns, 20000, func(o glang.ThreadedOutcome) bool {
		if o.Aborted {
			inf.inconclusive = "schedule exceeded the step bound"
			return false
		}
		if len(o.StuckInfo) > 0 {
			bad = fmt.Sprintf("under schedule %v a thread is stuck: %s", o.Trace, strings.Join(o.StuckInfo, "; "))
			return false
		}
		if o.Deadlock {
			deadlocks++
			if deadlockTrace == nil {
				deadlockTrace = o.Trace
			}
			return true
		}
		switch o.Main.Kind {
		case glang.Value:
			model[tv.Canon(o.Final, o.Main.Val, tys)]++
		case glang.Unknown:
			inf.inconclusive = "model lacks a primitive: " + o.Main.Msg
			return false
		default:
			bad = fmt.Sprintf("under schedule %v the main thread is %s: %s", o.Trace, o.Main.Kind, o.Main.Msg)
			return false
		}
		return true
	})
	inf.schedules, inf.complete, inf.modelSet = runs, complete, len(model)
	show := func() string {
		var ms, gs []string
		for k, n := range model {
			ms = append(ms, fmt.Sprintf("  %s   (%d schedules)", k, n))
		}
		for k, n := range gr.Outcomes {
			gs = append(gs, fmt.Sprintf("  %s   (%d runs)", k, n))
		}
		sort.Strings(ms)
		sort.Strings(gs)
		return "Go outcomes:\n" + strings.Join(gs, "\n") + "\nGooseLang outcomes over " + fmt.Sprint(runs) + " interleavings (complete=" + fmt.Sprint(complete) + "):\n" + strings.Join(ms, "\n") + "\n--- Go ---\n" + c.Src + "\n--- emitted ---\n" + tr.Text
	}
	if bad != "" {
		return bad + "\n" + show(), inf
	}
	if inf.inconclusive != "" {
		return "", inf
	}
	for g := range gr.Outcomes {
		if _, ok := model[g]; !ok {
			if !complete {
				inf.inconclusive = "Go outcome not among the model outcomes found, but the exploration is incomplete"
				return "", inf
			}
			return "Go produced an outcome that no interleaving of the GooseLang program produces: " + g + "\n" + show(), inf
		}
	}
	if c.Independent {
		if len(gr.Outcomes) != 1 {
			inf.unusable = "program of the schedule-independent family has several Go outcomes (generator bug)"
			return "", inf
		}
		if deadlocks > 0 {
			return fmt.Sprintf("the GooseLang program deadlocks under schedule %v although the Go result does not depend on the schedule\n%s", deadlockTrace, show()), inf
		}
		if len(model) != 1 {
			return "the Go result does not depend on the schedule, but the GooseLang program has several outcomes\n" + show(), inf
		}
	}
	return "", inf
}

func firstLines(s string, n int) string {
	ls := strings.Split(s, "\n")
	if len(ls) > n {
		ls = ls[:n]
	}
	return strings.Join(ls, "\n")
}

func check(t ev.TB, c Case, feats []string) {
	ev.Eval()
	msg, inf := runCase(c)
	if inf.unusable != "" {
		ev.Inconclusive("case unusable")
		ev.Note("unusable: %s", firstLines(inf.unusable, 3))
		if testing.Verbose() {
			fmt.Println("UNUSABLE:", inf.unusable, "\n", c.Src)
		}
		return
	}
	if inf.inconclusive != "" {
		ev.Inconclusive(inf.inconclusive)
	}
	if inf.rejected {
		ev.Label("frontier:rejected")
		ev.NonTrivial("rejected|" + c.Src)
		return
	}
	fam := "dependent"
	if c.Independent {
		fam = "independent"
	}
	ev.Label("family:" + fam)
	for _, f := range feats {
		ev.Label("feature:" + f)
	}
	ev.Add("interleavings_explored", int64(inf.schedules))
	if inf.complete {
		ev.Label("exploration:complete")
	} else {
		ev.Label("exploration:bounded")
	}
	ev.Label(fmt.Sprintf("model-outcomes:%d", min(inf.modelSet, 6)))
	if inf.schedules >= 2 && (c.Independent || inf.modelSet >= 2) {
		ev.NonTrivial(c.Src)
		ev.Sample(map[string]any{"family": fam, "interleavings": inf.schedules, "model_outcomes": inf.modelSet, "go_outcomes": inf.goSet, "src": c.Src})
	}
	if msg != "" {
		ev.Failf(t, "TestConcurrent", c, "%s", msg)
	}
}

func TestConcurrent(t *testing.T) {
	if !setup() {
		t.Skip("setup failed")
	}
	rapid.Check(t, func(t *rapid.T) {
		p := gen.GenerateConcurrent(t)
		check(t, Case{Src: p.Src, Independent: p.Independent, MayReject: p.MayReject}, p.Features)
	})
}

func TestReplay(t *testing.T) {
	p := ev.ReplayPath()
	if p == "" {
		t.Skip("no replay")
	}
	if !setup() {
		t.Skip("setup failed")
	}
	r, err := ev.LoadReplay(p)
	if err != nil {
		t.Fatal(err)
	}
	var c Case
	if err := json.Unmarshal(r.Case, &c); err != nil {
		t.Fatal(err)
	}
	check(t, c, nil)
}
