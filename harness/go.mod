module verifharness

go 1.23

toolchain go1.23.5

// goose's own go.mod says go 1.22: build everything (test binaries and the goose/test_gen
// binaries built from this module) with Go 1.22's GODEBUG defaults (gotypesalias=0, asynctimerchan=1, …)
// so that the code under test behaves as it does when built from its own module.
godebug default=go1.22

require (
	github.com/anishathalye/porcupine v1.3.0
	github.com/goose-lang/goose v0.0.0
	golang.org/x/sys v0.22.0
	golang.org/x/tools v0.23.0
	pgregory.net/rapid v1.3.0
)

require (
	github.com/goose-lang/primitive v0.1.0 // indirect
	github.com/pkg/errors v0.9.1 // indirect
	golang.org/x/mod v0.19.0 // indirect
	golang.org/x/sync v0.7.0 // indirect
)

replace github.com/goose-lang/goose => /repo
