// Package c09: both disk implementations are arrays of independent 4096-byte
// registers, never alias caller memory, and Mem ≡ File through disk,
// async_disk and the global wrappers (DESIGN.md §3 C09).
package c09

import (
	"encoding/json"
	"fmt"
	"os"
	"path/filepath"
	"testing"

	"github.com/goose-lang/goose/machine/async_disk"
	"github.com/goose-lang/goose/machine/disk"
	"pgregory.net/rapid"

	"verifharness/ev"
	"verifharness/gen"
	"verifharness/models"
)

func TestMain(m *testing.M) {
	ev.Meta("exploration",
		"cases = (disk size, kind of the disk behind the global wrappers, history of <= 60 Write/Read/ReadTo/Size/Barrier/scribble steps with in-range, boundary and offset-overflow addresses, "+
			"good and bad buffer lengths, buffers taken as windows of one arena per system), run on disk.MemDisk, disk.FileDisk, async_disk.MemDisk, async_disk.FileDisk and a fifth disk behind disk.Init/Read/Write/Size/Barrier, against the RegDisk model; "+
			"non-trivial = the history has a write to a, later another accepted write, later a read of a, and at least one refused call; distinct by hash of the whole case",
		"RegDisk (harness/models/regdisk.go) is the specification",
		"ReadTo is only called with 4096-byte buffers (other sizes are not constrained by the property)",
		"panics are compared as a class (refused / not refused), not by message",
		"NewFileDisk failing on a fresh scratch path is infrastructure (inconclusive)")
	ev.Main(m, "C09")
}

const (
	bs       = models.DiskBlockSize
	arenaLen = 4 * bs
	heldMax  = 4
)

// Step is one action of a history.
type Step struct {
	Op       string `json:"op"` // write | read | readto | size | barrier | scribble
	Addr     uint64 `json:"addr,omitempty"`
	Len      int    `json:"len,omitempty"`      // write: buffer length
	Off      int    `json:"off,omitempty"`      // write/readto: window offset inside the arena
	Tag      uint64 `json:"tag,omitempty"`      // write: content
	Pat      int    `json:"pat,omitempty"`      // write: content pattern
	Scribble bool   `json:"scribble,omitempty"` // write: mutate the buffer after the call; read: mutate the returned buffer
	Ref      int    `json:"ref,omitempty"`      // scribble: which retained Read result to mutate
	// Via: how the "global wrappers" system issues this call: 0 the package-level wrapper,
	// 1 the handle returned by disk.Get(), 2 the handle that was passed to disk.Init. All three
	// are the same disk and must stay coherent (seeded change C09-6: a cache inside the wrappers)
	Via int `json:"via,omitempty"`
}

// Case is one generated history.
type Case struct {
	Size   uint64 `json:"size"`
	Global int    `json:"global"` // kind of the disk behind the global wrappers (0..3, see kinds)
	Steps  []Step `json:"steps"`
	// Prior: length in bytes of an all-zero image that exists before the file-backed disks are
	// opened (-1 / absent in old replays = 0 = none). An all-zero prior image of any length is the
	// same disk as a fresh one (seeded change C09-3: a partly backed last block).
	Prior int `json:"prior,omitempty"`
}

var kinds = []string{"disk.MemDisk", "disk.FileDisk", "async_disk.MemDisk", "async_disk.FileDisk"}

type held struct {
	buf  []byte // slice returned by Read (caller-owned from then on)
	want []byte // what it must still contain
	step int
}

type system struct {
	name   string
	d      disk.Disk
	global bool
	via    int // access path of the current step (global system only)
	arena  []byte
	held   []held
	path   string
}

// handle is the disk a non-wrapper call of the global system goes through.
func (s *system) handle() disk.Disk {
	if s.global && s.via == 1 {
		return disk.Get()
	}
	return s.d
}
func (s *system) read(a uint64) disk.Block {
	if s.global && s.via == 0 {
		return disk.Read(a)
	}
	return s.handle().Read(a)
}
func (s *system) readTo(a uint64, b disk.Block) {
	if s.global && s.via != 2 {
		disk.Get().ReadTo(a, b) // there is no ReadTo wrapper
		return
	}
	s.d.ReadTo(a, b)
}
func (s *system) write(a uint64, b disk.Block) {
	if s.global && s.via == 0 {
		disk.Write(a, b)
		return
	}
	s.handle().Write(a, b)
}
func (s *system) size() uint64 {
	if s.global && s.via == 0 {
		return disk.Size()
	}
	return s.handle().Size()
}
func (s *system) barrier() {
	if s.global && s.via == 0 {
		disk.Barrier()
		return
	}
	s.handle().Barrier()
}

func catch(f func()) (panicked bool, val any) {
	defer func() {
		if r := recover(); r != nil {
			panicked = true
			val = r
		}
	}()
	f()
	return false, nil
}

var fileCounter int

type infraError struct{ msg string }

func open(kind int, size uint64, name string, prior int) (*system, *infraError) {
	s := &system{name: name, arena: make([]byte, arenaLen)}
	switch kind {
	case 0:
		s.d = disk.NewMemDisk(size)
	case 2:
		var d async_disk.Disk = async_disk.NewMemDisk(size)
		s.d = d
	case 1, 3:
		fileCounter++
		s.path = filepath.Join(ev.Scratch(), fmt.Sprintf("c09-%d.img", fileCounter))
		os.Remove(s.path)
		if prior > 0 {
			if err := os.WriteFile(s.path, make([]byte, prior), 0o644); err != nil {
				return nil, &infraError{"cannot create the prior image: " + err.Error()}
			}
		}
		if kind == 1 {
			d, err := disk.NewFileDisk(s.path, size)
			if err != nil {
				return nil, &infraError{"NewFileDisk on a fresh scratch file failed: " + err.Error()}
			}
			s.d = d
		} else {
			d, err := async_disk.NewFileDisk(s.path, size)
			if err != nil {
				return nil, &infraError{"NewFileDisk on a fresh scratch file failed: " + err.Error()}
			}
			var ad async_disk.Disk = d
			s.d = ad
		}
	}
	return s, nil
}

func (s *system) close() {
	catch(func() { s.d.Close() })
	if s.path != "" {
		os.Remove(s.path)
	}
}

func diff(got, want []byte) string {
	if len(got) != len(want) {
		return fmt.Sprintf("length %d, want %d", len(got), len(want))
	}
	for i := range got {
		if got[i] != want[i] {
			n := 0
			for j := range got {
				if got[j] != want[j] {
					n++
				}
			}
			return fmt.Sprintf("first difference at byte %d: got %#02x want %#02x (%d bytes differ)", i, got[i], want[i], n)
		}
	}
	return ""
}

// checkHeld verifies that buffers handed out by Read earlier are still what
// the caller last left in them.
func (s *system) checkHeld(stepNo int, st Step) string {
	for _, h := range s.held {
		if d := diff(h.buf, h.want); d != "" {
			return fmt.Sprintf("%s: after step %d (%s) the buffer returned by Read at step %d changed behind the caller's back: %s", s.name, stepNo, st.Op, h.step, d)
		}
	}
	return ""
}

// runCase returns "" when the property holds on c; infra != "" means the case
// could not be decided.
func runCase(c Case) (msg string, infra string) {
	model := models.NewRegDisk(c.Size)
	var systems []*system
	defer func() {
		for _, s := range systems {
			s.close()
		}
		disk.Init(nil)
	}()
	for k := 0; k < 4; k++ {
		s, ie := open(k, c.Size, kinds[k], c.Prior)
		if ie != nil {
			return "", ie.msg
		}
		systems = append(systems, s)
	}
	g, ie := open(c.Global, c.Size, "global wrappers over "+kinds[c.Global], c.Prior)
	if ie != nil {
		return "", ie.msg
	}
	g.global = true
	disk.Init(g.d)
	systems = append(systems, g)
	if disk.Get() == nil {
		return "disk.Get() is nil after disk.Init(d)", ""
	}

	for i, st := range c.Steps {
		// expected outcome from the model (computed before the model moves)
		var want []byte
		wantOK := true
		switch st.Op {
		case "read", "readto":
			want, wantOK = model.Read(st.Addr)
		case "write":
			wantOK = st.Len == bs && model.InRange(st.Addr)
		}
		for _, s := range systems {
			s.via = st.Via % 3
			switch st.Op {
			case "write":
				win := s.arena[st.Off : st.Off+st.Len]
				models.FillBlock(win, st.Tag, st.Pat)
				p, _ := catch(func() { s.write(st.Addr, win) })
				if p != !wantOK {
					if p {
						return fmt.Sprintf("%s: step %d Write(%d, %d-byte buffer) on a disk of %d blocks panicked; the model accepts it", s.name, i, st.Addr, st.Len, c.Size), ""
					}
					return fmt.Sprintf("%s: step %d Write(%d, %d-byte buffer) on a disk of %d blocks was accepted; it must be refused", s.name, i, st.Addr, st.Len, c.Size), ""
				}
				if st.Scribble {
					for j := range win {
						win[j] ^= 0xa5
					}
				}
			case "read":
				var got disk.Block
				p, _ := catch(func() { got = s.read(st.Addr) })
				if p != !wantOK {
					if p {
						return fmt.Sprintf("%s: step %d Read(%d) on a disk of %d blocks panicked", s.name, i, st.Addr, c.Size), ""
					}
					return fmt.Sprintf("%s: step %d Read(%d) on a disk of %d blocks was accepted; it must be refused", s.name, i, st.Addr, c.Size), ""
				}
				if wantOK {
					if d := diff(got, want); d != "" {
						return fmt.Sprintf("%s: step %d Read(%d) differs from the model: %s", s.name, i, st.Addr, d), ""
					}
					if st.Scribble {
						for j := range got {
							got[j] ^= 0x5a
						}
					}
					h := held{buf: got, want: append([]byte(nil), got...), step: i}
					if len(s.held) >= heldMax {
						s.held = s.held[1:]
					}
					s.held = append(s.held, h)
				}
			case "readto":
				win := s.arena[st.Off : st.Off+bs]
				models.FillBlock(win, ^uint64(i), 0) // junk
				p, _ := catch(func() { s.readTo(st.Addr, win) })
				if p != !wantOK {
					if p {
						return fmt.Sprintf("%s: step %d ReadTo(%d) on a disk of %d blocks panicked", s.name, i, st.Addr, c.Size), ""
					}
					return fmt.Sprintf("%s: step %d ReadTo(%d) on a disk of %d blocks was accepted; it must be refused", s.name, i, st.Addr, c.Size), ""
				}
				if wantOK {
					if d := diff(win, want); d != "" {
						return fmt.Sprintf("%s: step %d ReadTo(%d) into a junk-filled buffer differs from the model: %s", s.name, i, st.Addr, d), ""
					}
				}
			case "size":
				var n uint64
				if p, v := catch(func() { n = s.size() }); p {
					return fmt.Sprintf("%s: step %d Size() panicked: %v", s.name, i, v), ""
				}
				if n != c.Size {
					return fmt.Sprintf("%s: step %d Size() = %d, want %d", s.name, i, n, c.Size), ""
				}
			case "barrier":
				if p, v := catch(func() { s.barrier() }); p {
					return fmt.Sprintf("%s: step %d Barrier() panicked: %v", s.name, i, v), ""
				}
			case "scribble":
				if len(s.held) > 0 {
					h := &s.held[st.Ref%len(s.held)]
					for j := range h.buf {
						h.buf[j] += byte(j) | 1
					}
					copy(h.want, h.buf)
				}
			}
			if m := s.checkHeld(i, st); m != "" {
				return m, ""
			}
		}
		if st.Op == "write" && wantOK {
			model.Write(st.Addr, models.MakeBlock(bs, st.Tag, st.Pat))
		}
	}
	// final scan
	for _, s := range systems {
		s.via = 0
		var n uint64
		if p, v := catch(func() { n = s.size() }); p || n != c.Size {
			return fmt.Sprintf("%s: final Size() = %d (panic %v), want %d", s.name, n, v, c.Size), ""
		}
		for a := uint64(0); a < c.Size; a++ {
			var got disk.Block
			if p, v := catch(func() { got = s.read(a) }); p {
				return fmt.Sprintf("%s: final scan Read(%d) panicked: %v", s.name, a, v), ""
			}
			if d := diff(got, model.Peek(a)); d != "" {
				return fmt.Sprintf("%s: final scan: block %d differs from the model: %s", s.name, a, d), ""
			}
		}
		if m := s.checkHeld(len(c.Steps), Step{Op: "final scan"}); m != "" {
			return m, ""
		}
	}
	return "", ""
}

// ---- generator ----------------------------------------------------------

func genAddr(t *rapid.T, size uint64, written []uint64) (a uint64, class string) {
	k := rapid.IntRange(0, 19).Draw(t, "akind")
	inRange := func(label string) uint64 {
		return uint64(rapid.Uint64Range(0, size-1).Draw(t, label))
	}
	switch {
	case k <= 5 && size > 0:
		return inRange("a"), "in"
	case k <= 10 && len(written) > 0:
		w := written[rapid.IntRange(0, len(written)-1).Draw(t, "widx")]
		return w, "written"
	case k <= 12 && len(written) > 0:
		w := written[rapid.IntRange(0, len(written)-1).Draw(t, "widx")]
		if rapid.Bool().Draw(t, "up") {
			return w + 1, "neighbour"
		}
		if w > 0 {
			return w - 1, "neighbour"
		}
		return w, "written"
	case k == 13 && size > 0:
		return size - 1, "last"
	case k == 14:
		return size, "size"
	case k == 15:
		return size + uint64(rapid.IntRange(1, 5).Draw(t, "k")), "beyond"
	case k == 16:
		// a*4096 wraps around to an in-range offset
		base := rapid.SampledFrom([]uint64{1 << 52, 1 << 53, 1 << 63, 3 << 52}).Draw(t, "wrap")
		if size > 0 {
			return base + inRange("wa"), "overflow"
		}
		return base, "overflow"
	case k == 17:
		return rapid.SampledFrom([]uint64{1<<64 - 1, 1<<63 - 1, 1 << 63, 1<<52 - 1, 1 << 32, 1<<64 - 4096}).Draw(t, "huge"), "overflow"
	case size > 0:
		return inRange("a2"), "in"
	default:
		return uint64(rapid.IntRange(0, 3).Draw(t, "a0")), "beyond"
	}
}

func genCase(t *rapid.T) Case {
	var c Case
	if rapid.IntRange(0, 9).Draw(t, "sizekind") < 4 {
		c.Size = uint64(rapid.IntRange(0, 2).Draw(t, "small"))
	} else {
		c.Size = uint64(rapid.IntRange(3, 48).Draw(t, "size"))
	}
	c.Global = rapid.IntRange(0, 3).Draw(t, "global")
	if rapid.IntRange(0, 2).Draw(t, "hasprior") == 0 && c.Size > 0 {
		// an existing all-zero image: shorter, exact, longer, and ending inside a block
		total := int(c.Size) * bs
		c.Prior = rapid.SampledFrom([]int{1, bs - 1, bs, bs + 1, total - bs + 1, total - 1, total, total + 1, total + bs, total - bs/2}).Draw(t, "prior")
		if c.Prior < 0 {
			c.Prior = 0
		}
	}
	n := rapid.IntRange(1, 60).Draw(t, "nsteps")
	var written []uint64
	for i := 0; i < n; i++ {
		var st Step
		switch k := rapid.IntRange(0, 19).Draw(t, "op"); {
		case k <= 7:
			st.Op = "write"
			st.Len = bs
			if rapid.IntRange(0, 7).Draw(t, "lenkind") == 0 {
				st.Len = rapid.SampledFrom([]int{0, 1, 4095, 4097, 8192}).Draw(t, "badlen")
			}
			st.Addr, _ = genAddr(t, c.Size, written)
			st.Off = rapid.IntRange(0, arenaLen-st.Len).Draw(t, "off")
			if rapid.IntRange(0, 2).Draw(t, "offkind") == 0 {
				st.Off = 0 // identical backing array for consecutive calls
			}
			st.Tag = rapid.Uint64().Draw(t, "tag")
			st.Pat = 0
			if rapid.IntRange(0, 2).Draw(t, "patkind") == 0 {
				st.Pat = rapid.IntRange(0, models.NumBlockPatterns-1).Draw(t, "pat")
			}
			st.Scribble = rapid.IntRange(0, 2).Draw(t, "scr") == 0
			if st.Len == bs && st.Addr < c.Size {
				written = append(written, st.Addr)
			}
		case k <= 12:
			st.Op = "read"
			st.Addr, _ = genAddr(t, c.Size, written)
			st.Scribble = rapid.IntRange(0, 2).Draw(t, "scr") == 0
		case k <= 16:
			st.Op = "readto"
			st.Addr, _ = genAddr(t, c.Size, written)
			st.Off = rapid.IntRange(0, arenaLen-bs).Draw(t, "off")
			if rapid.IntRange(0, 2).Draw(t, "offkind") == 0 {
				st.Off = 0
			}
		case k == 17:
			st.Op = "size"
		case k == 18:
			st.Op = "barrier"
		default:
			st.Op = "scribble"
			st.Ref = rapid.IntRange(0, heldMax-1).Draw(t, "ref")
		}
		// the access path of the wrappers' system: mostly the wrapper, sometimes a handle
		if gen.Chance(t, "viahandle", 35) {
			st.Via = 1 + gen.Uniform(t, "via", 2)
		}
		c.Steps = append(c.Steps, st)
	}
	return c
}

// ---- classification -----------------------------------------------------

type stats struct {
	nontrivial, refused, overflow, badlen, scribble, oobWrite bool
}

func classify(c Case) stats {
	var s stats
	// write(a) ... accepted write ... read(a)
	firstWrite := map[uint64]int{}
	var acceptedWrites []int
	for i, st := range c.Steps {
		switch st.Op {
		case "write":
			ok := st.Len == bs && st.Addr < c.Size
			if !ok {
				s.refused = true
				if st.Len != bs {
					s.badlen = true
				}
				if st.Addr >= c.Size && st.Len == bs {
					s.oobWrite = true
				}
			} else {
				if _, seen := firstWrite[st.Addr]; !seen {
					firstWrite[st.Addr] = i
				}
				acceptedWrites = append(acceptedWrites, i)
			}
			if st.Scribble {
				s.scribble = true
			}
		case "read", "readto":
			if st.Addr >= c.Size {
				s.refused = true
			} else if fw, ok := firstWrite[st.Addr]; ok {
				for _, j := range acceptedWrites {
					if j > fw && j < i {
						s.nontrivial = true
					}
				}
			}
			if st.Scribble {
				s.scribble = true
			}
		case "scribble":
			s.scribble = true
		}
		if st.Addr >= 1<<32 {
			s.overflow = true
		}
	}
	s.nontrivial = s.nontrivial && s.refused
	return s
}

func check(t ev.TB, c Case) {
	ev.Eval()
	s := classify(c)
	switch {
	case c.Size == 0:
		ev.Label("size=0")
	case c.Size <= 2:
		ev.Label("size=1-2")
	default:
		ev.Label("size>=3")
	}
	ev.Label("global=" + kinds[c.Global])
	if s.refused {
		ev.Label("has-refused-call")
	}
	if s.overflow {
		ev.Label("has-offset-overflow-address")
	}
	if s.badlen {
		ev.Label("has-wrong-sized-write")
	}
	if s.oobWrite {
		ev.Label("has-out-of-range-write")
	}
	if s.scribble {
		ev.Label("has-scribble")
	}
	ev.Add("steps", int64(len(c.Steps)))
	if s.nontrivial {
		ev.Label("non-trivial")
		b, _ := json.Marshal(c)
		ev.NonTrivial(string(b))
		if len(c.Steps) <= 25 {
			ev.Sample(c)
		}
	}
	msg, infra := runCase(c)
	if infra != "" {
		ev.Inconclusive(infra)
		return
	}
	if msg != "" {
		ev.Failf(t, "TestRegisters", c, "%s", msg)
	}
}

func validate(c Case) error {
	if c.Global < 0 || c.Global > 3 || c.Size > 1<<20 {
		return fmt.Errorf("bad case header")
	}
	for i, st := range c.Steps {
		switch st.Op {
		case "write":
			if st.Len < 0 || st.Off < 0 || st.Off+st.Len > arenaLen {
				return fmt.Errorf("step %d: window outside the arena", i)
			}
		case "readto":
			if st.Off < 0 || st.Off+bs > arenaLen {
				return fmt.Errorf("step %d: window outside the arena", i)
			}
		case "read", "size", "barrier":
		case "scribble":
			if st.Ref < 0 {
				return fmt.Errorf("step %d: bad ref", i)
			}
		default:
			return fmt.Errorf("step %d: unknown op %q", i, st.Op)
		}
	}
	return nil
}

func runPinned(raw json.RawMessage) string {
	var c Case
	if err := json.Unmarshal(raw, &c); err != nil || validate(c) != nil {
		ev.Inconclusive("pinned case unreadable")
		return ""
	}
	msg, _ := runCase(c)
	return msg
}

func TestRegisters(t *testing.T) {
	ev.Pinned(t, "C09", "TestRegisters", runPinned)
	rapid.Check(t, func(t *rapid.T) { check(t, genCase(t)) })
}

func TestReplay(t *testing.T) {
	p := ev.ReplayPath()
	if p == "" {
		t.Skip("no replay")
	}
	r, err := ev.LoadReplay(p)
	if err != nil {
		t.Fatal(err)
	}
	var c Case
	if err := json.Unmarshal(r.Case, &c); err != nil {
		t.Fatal(err)
	}
	if err := validate(c); err != nil {
		t.Fatal(err)
	}
	check(t, c)
}
