package c07

import (
	"crypto/sha256"
	"testing"

	"pgregory.net/rapid"
)

// FuzzMutateExamples drives the mutation property of TestMutateExamples from
// the native coverage-guided fuzzer: the input bytes are rapid's random stream,
// so the fuzzer steers which example is mutated where, guided by coverage of
// goose itself (the test binary is built with -fuzz instrumentation).
func FuzzMutateExamples(f *testing.F) {
	if !setup() {
		f.Skip("setup failed")
	}
	loadSeeds()
	if len(seeds) == 0 {
		f.Skip("no seeds")
	}
	// deterministic pseudo-random starting streams of several lengths
	h := sha256.Sum256([]byte("c07"))
	for i := 0; i < 24; i++ {
		var b []byte
		for len(b) < 128+64*(i%8) {
			h = sha256.Sum256(h[:])
			b = append(b, h[:]...)
		}
		f.Add(b)
	}
	f.Fuzz(rapid.MakeFuzz(mutateProp))
}
