// Package c07: goose never crashes — output or structured, located errors
// (DESIGN.md §3 C07).
package c07

import (
	"bytes"
	"encoding/json"
	"fmt"
	"go/ast"
	"go/parser"
	"go/printer"
	"go/token"
	"os"
	"path/filepath"
	"sort"
	"strings"
	"testing"
	"verifharness/vread"

	goose "github.com/goose-lang/goose"
	"pgregory.net/rapid"

	"verifharness/catalog"
	"verifharness/ev"
	"verifharness/gen"
	"verifharness/tv"
)

func TestMain(m *testing.M) {
	ev.Meta("exploration",
		"cases = type-correct packages from three sources: (dense) 3-10 catalogue constructs in random contexts on top of a generated subset program; (mutants) the shipped example packages under 1-4 random AST mutations (swap/delete/duplicate/wrap statements, change operators and literals, := <-> var, swap same-typed identifiers, negate conditions, add/remove else, insert switch/defer/go/select/label snippets), kept only if go/types accepts them; "+
			"oracle: no Go panic inside goose; every error is a *ConversionError with a documented category, a non-empty message, a source position in the package's files that lies inside exactly one top-level declaration, at most one error per declaration; completeness: after cutting the rejected declarations out of the source the translation has no errors and emits exactly the same declarations; "+
			"non-trivial = goose reported at least one conversion error or translated a mutated declaration; distinct by (source kind, error site GooseCaller, mutation kinds)",
		"type-correctness is decided by go/types with the source importer; mutants that do not type-check are discarded (rate reported)")
	ev.Main(m, "C07")
}

var categories = map[string]bool{"unsupported": true, "todo": true, "future": true, "impossible(go)": true, "impossible(no-examples)": true}

// Case is a package given as files.
type Case struct {
	PkgPath string          `json:"pkg_path"`
	Files   []tv.SourceFile `json:"files"`
	Kind    string          `json:"kind"`
	Muts    []string        `json:"mutations,omitempty"`
}

var runnerReady bool

func setup() bool {
	if !runnerReady {
		// creates the scratch module that imports are resolved from (tv.ImportDir)
		if _, err := tv.NewGoRunner(); err != nil {
			ev.Inconclusive("cannot create scratch module: " + err.Error())
			return false
		}
		runnerReady = true
	}
	return true
}

type verdict struct {
	msg      string
	unusable string
	sites    []string // GooseCaller of each error
	nerrs    int
}

type declSpan struct {
	file       int
	start, end int // byte offsets in the file
	name       string
}

func declSpans(tr *tv.Translation) []declSpan {
	var out []declSpan
	for fi, f := range tr.Files {
		for _, d := range f.Decls {
			s := tr.Fset.Position(d.Pos()).Offset
			e := tr.Fset.Position(d.End()).Offset
			// include the doc comment
			switch d := d.(type) {
			case *ast.FuncDecl:
				if d.Doc != nil {
					s = tr.Fset.Position(d.Doc.Pos()).Offset
				}
			case *ast.GenDecl:
				if d.Doc != nil {
					s = tr.Fset.Position(d.Doc.Pos()).Offset
				}
			}
			out = append(out, declSpan{file: fi, start: s, end: e})
		}
	}
	return out
}

func runCase(c Case) verdict {
	cfg := goose.TranslationConfig{}
	tr, err := tv.Translate(c.PkgPath, c.Files, cfg)
	if err != nil {
		return verdict{unusable: err.Error()}
	}
	if tr.Panic != nil {
		return verdict{msg: fmt.Sprintf("goose aborted with a Go panic: %v\n%s", tr.Panic, firstLines(tr.PanicStack, 24))}
	}
	v := verdict{nerrs: len(tr.Errs)}
	spans := declSpans(tr)
	hit := map[int]bool{}
	for _, e := range tr.Errs {
		ce, ok := e.(*goose.ConversionError)
		if !ok {
			return verdict{msg: fmt.Sprintf("error is not a *ConversionError but %T: %v", e, e)}
		}
		v.sites = append(v.sites, shortSite(ce.GooseCaller))
		if !categories[ce.Category] {
			return verdict{msg: fmt.Sprintf("undocumented error category %q: %v", ce.Category, ce)}
		}
		if strings.TrimSpace(ce.Message) == "" {
			return verdict{msg: fmt.Sprintf("empty error message: %v", ce)}
		}
		if !ce.Pos.IsValid() || !ce.End.IsValid() || ce.End < ce.Pos {
			return verdict{msg: fmt.Sprintf("error without a valid source range: %v", ce)}
		}
		if tf := tr.Fset.File(ce.Pos); tf == nil || int(ce.End) > tf.Base()+tf.Size() {
			return verdict{msg: fmt.Sprintf("error range ends outside the file it starts in: %v", ce)}
		}
		p := tr.Fset.Position(ce.Pos)
		fileOK := false
		fi := -1
		for i, f := range c.Files {
			if p.Filename == f.Name {
				fileOK, fi = true, i
			}
		}
		if !fileOK || !strings.HasPrefix(ce.GoSrcFile, p.Filename+":") {
			return verdict{msg: fmt.Sprintf("error position %q / GoSrcFile %q is not in the package's files: %v", p.Filename, ce.GoSrcFile, ce)}
		}
		found := -1
		for si, s := range spans {
			if s.file == fi && s.start <= p.Offset && tr.Fset.Position(ce.End).Offset <= s.end {
				found = si
			}
		}
		if found < 0 {
			return verdict{msg: fmt.Sprintf("error range %s is not inside one top-level declaration: %v", ce.GoSrcFile, ce)}
		}
		if hit[found] {
			return verdict{msg: fmt.Sprintf("two errors for one declaration (at %s)", ce.GoSrcFile)}
		}
		hit[found] = true
	}
	// accounting: every top-level declaration is either reported (an error inside it) or emitted
	// (a definition with its name) — independent of whether the rest can be re-translated
	// without the rejected ones (seeded change C07-5: an error suppressed as a "follow-on")
	if msg := unaccounted(tr, spans, hit); msg != "" {
		return verdict{msg: msg}
	}
	if len(hit) == 0 {
		return v
	}
	// completeness: cut the rejected declarations out and translate again
	files := make([]tv.SourceFile, len(c.Files))
	copy(files, c.Files)
	for fi := range files {
		src := []byte(files[fi].Src)
		var cuts []declSpan
		for si, s := range spans {
			if hit[si] && s.file == fi {
				cuts = append(cuts, s)
			}
		}
		sort.Slice(cuts, func(i, j int) bool { return cuts[i].start > cuts[j].start })
		for _, s := range cuts {
			// keep line structure so that positions in later errors stay meaningful
			blank := bytes.Repeat([]byte("\n"), bytes.Count(src[s.start:s.end], []byte("\n")))
			src = append(append(append([]byte{}, src[:s.start]...), blank...), src[s.end:]...)
		}
		files[fi].Src = string(src)
	}
	tr2, err := tv.Translate(c.PkgPath, files, cfg)
	if err != nil {
		// the good declarations depend on a rejected one (or an import became unused): completeness cannot be checked this way
		ev.Label("completeness:not-checkable")
		return v
	}
	ev.Label("completeness:checked")
	if tr2.Panic != nil {
		return verdict{msg: fmt.Sprintf("goose aborted with a Go panic after removing the rejected declarations: %v", tr2.Panic)}
	}
	if len(tr2.Errs) > 0 {
		return verdict{msg: fmt.Sprintf("after removing the %d rejected declarations goose reports %d more errors (an error hid other errors): first %v", len(hit), len(tr2.Errs), tr2.Errs[0])}
	}
	if strings.Join(tr.Decls, "\n\x00\n") != strings.Join(tr2.Decls, "\n\x00\n") {
		return verdict{msg: fmt.Sprintf("the declarations emitted next to %d rejected ones differ from the ones emitted without them:\n--- with ---\n%s\n--- without ---\n%s", len(hit), strings.Join(tr.Decls, "\n\n"), strings.Join(tr2.Decls, "\n\n"))}
	}
	return v
}

// unaccounted returns a message if some top-level declaration has neither an error inside it nor a
// definition of its name in the output.
func unaccounted(tr *tv.Translation, spans []declSpan, hit map[int]bool) string {
	vf, err := vread.ParseFile(tr.Text)
	if err != nil {
		return "" // well-formedness is C05's business
	}
	emitted := map[string]bool{}
	for _, d := range vf.Defs() {
		emitted[d.Name] = true
	}
	si := -1
	for _, f := range tr.Files {
		for _, d := range f.Decls {
			si++
			if hit[si] {
				continue
			}
			var names []string
			switch d := d.(type) {
			case *ast.FuncDecl:
				n := d.Name.Name
				if d.Recv != nil && len(d.Recv.List) == 1 {
					t := d.Recv.List[0].Type
					if st, ok := t.(*ast.StarExpr); ok {
						t = st.X
					}
					if ix, ok := t.(*ast.IndexExpr); ok {
						t = ix.X
					}
					if id, ok := t.(*ast.Ident); ok {
						n = id.Name + "__" + n
					}
				}
				names = append(names, n)
			case *ast.GenDecl:
				for _, sp := range d.Specs {
					switch sp := sp.(type) {
					case *ast.TypeSpec:
						names = append(names, sp.Name.Name)
					case *ast.ValueSpec:
						for _, id := range sp.Names {
							names = append(names, id.Name)
						}
					}
				}
			}
			for _, n := range names {
				if n == "_" || n == "init" || emitted[n] {
					continue
				}
				return fmt.Sprintf("declaration %s is neither emitted nor reported: no definition of that name in the output and no error inside the declaration (%d errors reported for other declarations)", n, len(hit))
			}
		}
	}
	return ""
}

func shortSite(s string) string {
	if i := strings.LastIndex(s, "/"); i >= 0 {
		return s[i+1:]
	}
	return s
}

func firstLines(s string, n int) string {
	ls := strings.Split(s, "\n")
	if len(ls) > n {
		ls = ls[:n]
	}
	return strings.Join(ls, "\n")
}

func check(t ev.TB, test string, c Case) {
	ev.Eval()
	ev.Begin(test, c)
	v := runCase(c)
	ev.End()
	if v.unusable != "" {
		ev.Label(c.Kind + ":discarded-not-type-correct")
		return
	}
	ev.Label(c.Kind + ":type-correct")
	for _, s := range v.sites {
		ev.Label("site:" + s)
	}
	sort.Strings(v.sites)
	if v.nerrs > 0 || len(c.Muts) > 0 {
		ev.NonTrivial(c.Kind + "|" + strings.Join(v.sites, ",") + "|" + strings.Join(c.Muts, ","))
		if ev.WantSample() && v.nerrs > 0 {
			ev.Sample(map[string]any{"kind": c.Kind, "mutations": c.Muts, "errors_at": v.sites, "first_file": truncate(c.Files[0].Src, 1500)})
		}
	}
	if v.msg != "" {
		ev.Failf(t, test, c, "%s", v.msg)
	}
}

func truncate(s string, n int) string {
	if len(s) > n {
		return s[:n] + "…"
	}
	return s
}

// ---- (a) dense catalogue packages ----

func knownSkip(it *catalog.Item) bool {
	// crash-type findings recorded for C02 are excluded here while they are known
	if it.Known != "" && ev.SwitchOn(it.Known) {
		ev.Prune(it.Known)
		return true
	}
	return false
}

func TestDenseCatalogue(t *testing.T) {
	if !setup() {
		t.Skip("setup failed")
	}
	rapid.Check(t, func(t *rapid.T) {
		cfg := gen.DefaultConfig()
		cfg.Entries, cfg.Helpers, cfg.MaxStmts = 1, 1, 3
		base := ""
		if rapid.Bool().Draw(t, "withbase") {
			base = gen.Generate(t, cfg).Source("main")
		}
		var pool []*catalog.Item
		for i := range catalog.Items {
			it := &catalog.Items[i]
			if it.Solo() || knownSkip(it) {
				continue
			}
			pool = append(pool, it)
		}
		n := gen.Range(t, "nitems", 3, 10)
		var uses []catalog.Use
		for k := 0; k < n; k++ {
			it := pool[gen.Uniform(t, "item", len(pool))]
			uses = append(uses, catalog.Use{Item: it.ID, Ctx: gen.Uniform(t, "ctx", len(catalog.Contexts))})
		}
		src, _ := catalog.RenderPackage(base, uses)
		check(t, "TestDenseCatalogue", Case{PkgPath: "main", Files: []tv.SourceFile{{Name: "prog.go", Src: src}}, Kind: "dense"})
	})
}

// TestControlFlow: generated control-flow shapes (returns, breaks and continues in arbitrary
// positions, else-if chains): most are rejected — the errors must be structured and located.
func TestControlFlow(t *testing.T) {
	if !setup() {
		t.Skip("setup failed")
	}
	rapid.Check(t, func(t *rapid.T) {
		src := gen.GenerateControlFlow(t)
		check(t, "TestControlFlow", Case{PkgPath: "main", Files: []tv.SourceFile{{Name: "prog.go", Src: src}}, Kind: "controlflow"})
	})
}

// ---- (b) mutation of the shipped examples ----

type seedPkg struct {
	path  string
	files []tv.SourceFile
}

var seeds []seedPkg

func loadSeeds() {
	if seeds != nil {
		return
	}
	root := ev.Repo()
	for _, rel := range []string{"internal/examples/unittest", "internal/examples/semantics", "internal/examples/simpledb", "internal/examples/wal",
		"internal/examples/append_log", "internal/examples/logging2", "internal/examples/comments", "internal/examples/rfc1813", "internal/examples/async"} {
		matches, _ := filepath.Glob(filepath.Join(root, rel, "*.go"))
		sort.Strings(matches)
		sp := seedPkg{path: "github.com/goose-lang/goose/" + rel}
		for _, m := range matches {
			if strings.HasSuffix(m, "_test.go") {
				continue
			}
			b, err := os.ReadFile(m)
			if err != nil {
				continue
			}
			sp.files = append(sp.files, tv.SourceFile{Name: filepath.Base(m), Src: string(b)})
		}
		if len(sp.files) > 0 {
			seeds = append(seeds, sp)
		}
	}
	// the negative tests: one file = one package
	neg, _ := filepath.Glob(filepath.Join(root, "testdata/negative-tests/*.go"))
	sort.Strings(neg)
	for _, m := range neg {
		b, err := os.ReadFile(m)
		if err == nil {
			seeds = append(seeds, seedPkg{path: "example.com/neg", files: []tv.SourceFile{{Name: filepath.Base(m), Src: string(b)}}})
		}
	}
}

var snippetStmts = []string{
	"switch {\n}", "defer func() {}()", "go func() {}()", "_ = 0", "{\n}", "var zzv uint64\n_ = zzv", "for {\nbreak\n}", "if true {\n}",
	"zzl:\nfor {\nbreak zzl\n}", "var zzs []uint64\nzzs = append(zzs, 1)\n_ = zzs", "zzm := make(map[uint64]uint64)\ndelete(zzm, 1)", "var zzp *uint64\n_ = zzp == nil",
	"zzf := func() {}\nzzf()", "var zzi interface{}\n_ = zzi", "zzarr := [2]uint64{}\n_ = zzarr", "zzstr := \"a\\\"b\"\n_ = zzstr",
}

func parseStmts(src string) []ast.Stmt {
	f, err := parser.ParseFile(token.NewFileSet(), "s.go", "package p\nfunc f() {\n"+src+"\n}\n", 0)
	if err != nil {
		return nil
	}
	return f.Decls[0].(*ast.FuncDecl).Body.List
}

type mutator struct {
	t    *rapid.T
	file *ast.File
}

func (m *mutator) pick(label string, n int) int { return gen.Uniform(m.t, label, n) }

func (m *mutator) blocks() []*ast.BlockStmt {
	var out []*ast.BlockStmt
	ast.Inspect(m.file, func(n ast.Node) bool {
		if b, ok := n.(*ast.BlockStmt); ok && b != nil {
			out = append(out, b)
		}
		return true
	})
	return out
}

var opGroups = [][]token.Token{
	{token.ADD, token.SUB, token.MUL, token.QUO, token.REM, token.AND, token.OR, token.XOR, token.SHL, token.SHR, token.AND_NOT},
	{token.EQL, token.NEQ, token.LSS, token.LEQ, token.GTR, token.GEQ},
	{token.LAND, token.LOR},
}

// mutate applies one random mutation; it returns its name ("" if nothing applied).
func (m *mutator) mutate() string {
	switch m.pick("mutkind", 13) {
	case 0, 1, 2, 3, 4, 5: // statement-level
		bs := m.blocks()
		var cands []*ast.BlockStmt
		for _, b := range bs {
			if len(b.List) >= 1 {
				cands = append(cands, b)
			}
		}
		if len(cands) == 0 {
			return ""
		}
		b := cands[m.pick("block", len(cands))]
		i := m.pick("stmt", len(b.List))
		switch m.pick("stmtmut", 6) {
		case 0:
			if i+1 < len(b.List) {
				b.List[i], b.List[i+1] = b.List[i+1], b.List[i]
				return "swap-stmts"
			}
		case 1:
			b.List = append(append([]ast.Stmt{}, b.List[:i]...), b.List[i+1:]...)
			return "delete-stmt"
		case 2:
			if _, isDecl := b.List[i].(*ast.DeclStmt); isDecl {
				return ""
			}
			if as, ok := b.List[i].(*ast.AssignStmt); ok && as.Tok == token.DEFINE {
				return ""
			}
			nl := append([]ast.Stmt{}, b.List[:i+1]...)
			nl = append(nl, b.List[i])
			b.List = append(nl, b.List[i+1:]...)
			return "duplicate-stmt"
		case 3:
			b.List[i] = &ast.BlockStmt{List: []ast.Stmt{b.List[i]}}
			return "wrap-block"
		case 4:
			b.List[i] = &ast.IfStmt{Cond: ast.NewIdent("true"), Body: &ast.BlockStmt{List: []ast.Stmt{b.List[i]}}}
			return "wrap-if"
		case 5:
			sn := parseStmts(snippetStmts[m.pick("snippet", len(snippetStmts))])
			if sn == nil {
				return ""
			}
			nl := append([]ast.Stmt{}, b.List[:i]...)
			nl = append(nl, sn...)
			b.List = append(nl, b.List[i:]...)
			return "insert-snippet"
		}
	case 6: // operator
		var bes []*ast.BinaryExpr
		ast.Inspect(m.file, func(n ast.Node) bool {
			if be, ok := n.(*ast.BinaryExpr); ok {
				bes = append(bes, be)
			}
			return true
		})
		if len(bes) == 0 {
			return ""
		}
		be := bes[m.pick("binexpr", len(bes))]
		for _, g := range opGroups {
			for _, op := range g {
				if op == be.Op {
					be.Op = g[m.pick("newop", len(g))]
					return "change-operator"
				}
			}
		}
	case 7: // literal
		var lits []*ast.BasicLit
		ast.Inspect(m.file, func(n ast.Node) bool {
			if l, ok := n.(*ast.BasicLit); ok && (l.Kind == token.INT || l.Kind == token.STRING) {
				lits = append(lits, l)
			}
			return true
		})
		// not import paths
		var cands []*ast.BasicLit
		imports := map[*ast.BasicLit]bool{}
		for _, im := range m.file.Imports {
			imports[im.Path] = true
		}
		for _, l := range lits {
			if !imports[l] {
				cands = append(cands, l)
			}
		}
		if len(cands) == 0 {
			return ""
		}
		l := cands[m.pick("lit", len(cands))]
		if m.pick("switchkind", 4) == 0 {
			// a literal of another kind (type-checks e.g. as an argument of panic, or of an interface parameter)
			alt := []struct {
				k token.Token
				v string
			}{{token.INT, "42"}, {token.STRING, `"s"`}, {token.CHAR, "'x'"}, {token.FLOAT, "1.5"}}[m.pick("altkind", 4)]
			l.Kind, l.Value = alt.k, alt.v
			return "change-literal-kind"
		}
		if l.Kind == token.INT {
			l.Value = []string{"0", "1", "255", "256", "4294967296", "18446744073709551615", "0x10", "1_000"}[m.pick("intval", 8)]
		} else {
			l.Value = []string{`""`, `"a\"b"`, "`a\nb`", `"(* x *)"`, `"é"`}[m.pick("strval", 5)]
		}
		return "change-literal"
	case 8: // := <-> var
		var as []*ast.AssignStmt
		ast.Inspect(m.file, func(n ast.Node) bool {
			if a, ok := n.(*ast.AssignStmt); ok && a.Tok == token.DEFINE && len(a.Lhs) == 1 && len(a.Rhs) == 1 {
				as = append(as, a)
			}
			return true
		})
		if len(as) == 0 {
			return ""
		}
		target := as[m.pick("define", len(as))]
		done := false
		for _, b := range m.blocks() {
			for i, s := range b.List {
				if s == ast.Stmt(target) {
					id, ok := target.Lhs[0].(*ast.Ident)
					if !ok {
						return ""
					}
					b.List[i] = &ast.DeclStmt{Decl: &ast.GenDecl{Tok: token.VAR, Specs: []ast.Spec{&ast.ValueSpec{Names: []*ast.Ident{ast.NewIdent(id.Name)}, Values: []ast.Expr{target.Rhs[0]}}}}}
					done = true
				}
			}
		}
		if done {
			return "define-to-var"
		}
	case 9: // swap two identifiers inside one function body (type-check decides)
		var fns []*ast.FuncDecl
		for _, d := range m.file.Decls {
			if fd, ok := d.(*ast.FuncDecl); ok && fd.Body != nil {
				fns = append(fns, fd)
			}
		}
		if len(fns) == 0 {
			return ""
		}
		fd := fns[m.pick("fn", len(fns))]
		var ids []*ast.Ident
		ast.Inspect(fd.Body, func(n ast.Node) bool {
			if id, ok := n.(*ast.Ident); ok && id.Name != "_" {
				ids = append(ids, id)
			}
			return true
		})
		if len(ids) < 2 {
			return ""
		}
		a, b := ids[m.pick("ida", len(ids))], ids[m.pick("idb", len(ids))]
		a.Name, b.Name = b.Name, a.Name
		return "swap-identifiers"
	case 10: // negate a condition / drop or add else
		var ifs []*ast.IfStmt
		ast.Inspect(m.file, func(n ast.Node) bool {
			if s, ok := n.(*ast.IfStmt); ok {
				ifs = append(ifs, s)
			}
			return true
		})
		if len(ifs) == 0 {
			return ""
		}
		s := ifs[m.pick("if", len(ifs))]
		switch m.pick("ifmut", 3) {
		case 0:
			s.Cond = &ast.UnaryExpr{Op: token.NOT, X: &ast.ParenExpr{X: s.Cond}}
			return "negate-condition"
		case 1:
			if s.Else != nil {
				s.Else = nil
				return "drop-else"
			}
			s.Else = &ast.BlockStmt{}
			return "add-else"
		default:
			if s.Else == nil {
				s.Else = &ast.BlockStmt{List: append([]ast.Stmt{}, s.Body.List...)}
				return "copy-then-to-else"
			}
		}
	case 11: // x = x + 1 <-> x++ ; op-assign
		var as []*ast.IncDecStmt
		ast.Inspect(m.file, func(n ast.Node) bool {
			if a, ok := n.(*ast.IncDecStmt); ok {
				as = append(as, a)
			}
			return true
		})
		if len(as) > 0 {
			a := as[m.pick("incdec", len(as))]
			if a.Tok == token.INC {
				a.Tok = token.DEC
			} else {
				a.Tok = token.INC
			}
			return "flip-incdec"
		}
	case 12: // turn an assignment into an op-assignment
		var as []*ast.AssignStmt
		ast.Inspect(m.file, func(n ast.Node) bool {
			if a, ok := n.(*ast.AssignStmt); ok && a.Tok == token.ASSIGN && len(a.Lhs) == 1 && len(a.Rhs) == 1 {
				as = append(as, a)
			}
			return true
		})
		if len(as) > 0 {
			a := as[m.pick("assign", len(as))]
			a.Tok = []token.Token{token.ADD_ASSIGN, token.SUB_ASSIGN, token.MUL_ASSIGN, token.QUO_ASSIGN, token.REM_ASSIGN, token.AND_ASSIGN, token.OR_ASSIGN, token.XOR_ASSIGN, token.SHL_ASSIGN, token.SHR_ASSIGN, token.AND_NOT_ASSIGN}[m.pick("assignop", 11)]
			return "assign-to-op-assign"
		}
	}
	return ""
}

func TestMutateExamples(t *testing.T) {
	if !setup() {
		t.Skip("setup failed")
	}
	loadSeeds()
	if len(seeds) == 0 {
		ev.Inconclusive("no seed packages found")
		t.Skip("no seeds")
	}
	rapid.Check(t, mutateProp)
}

// mutateProp is the property of TestMutateExamples / FuzzMutateExamples.
func mutateProp(t *rapid.T) {
	{
		sp := seeds[gen.Uniform(t, "seed", len(seeds))]
		fi := gen.Uniform(t, "file", len(sp.files))
		fset := token.NewFileSet()
		af, err := parser.ParseFile(fset, sp.files[fi].Name, sp.files[fi].Src, parser.ParseComments)
		if err != nil {
			ev.Inconclusive("seed does not parse")
			return
		}
		m := &mutator{t: t, file: af}
		n := gen.Range(t, "nmut", 1, 4)
		var muts []string
		for k := 0; k < n; k++ {
			if name := m.mutate(); name != "" {
				muts = append(muts, name)
			}
		}
		if len(muts) == 0 {
			ev.Label("mutants:no-mutation-applied")
			return
		}
		var buf bytes.Buffer
		if err := printer.Fprint(&buf, fset, af); err != nil {
			ev.Label("mutants:unprintable")
			return
		}
		files := make([]tv.SourceFile, len(sp.files))
		copy(files, sp.files)
		files[fi].Src = buf.String()
		for _, mu := range muts {
			ev.Label("mutation:" + mu)
		}
		check(t, "TestMutateExamples", Case{PkgPath: sp.path, Files: files, Kind: "mutants", Muts: muts})
	}
}

// TestSeedsUnmutated: the shipped examples themselves must translate without a crash
// and satisfy the error oracle (sanity of the harness on the unchanged corpus).
func TestSeedsUnmutated(t *testing.T) {
	if !setup() {
		t.Skip("setup failed")
	}
	loadSeeds()
	for _, sp := range seeds {
		check(t, "TestSeedsUnmutated", Case{PkgPath: sp.path, Files: sp.files, Kind: "seed"})
	}
}

func TestReplay(t *testing.T) {
	p := ev.ReplayPath()
	if p == "" {
		t.Skip("no replay")
	}
	if !setup() {
		t.Skip("setup failed")
	}
	r, err := ev.LoadReplay(p)
	if err != nil {
		t.Fatal(err)
	}
	var c Case
	if err := json.Unmarshal(r.Case, &c); err != nil {
		t.Fatal(err)
	}
	check(t, r.Test, c)
}
