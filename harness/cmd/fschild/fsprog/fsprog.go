// Package fsprog describes and executes small concurrent programs against a
// filesys.Filesys (used by C13/C14 in-process and by cmd/fschild in a child
// process built with -race).
package fsprog

import (
	"fmt"
	"runtime"
	"sort"
	"sync"
	"sync/atomic"

	"github.com/goose-lang/goose/machine/filesys"

	"verifharness/models"
)

// Program is a sequential setup followed by concurrent clients. In a program
// the Fd field of a create/open op names the *slot* that receives the
// descriptor, and the Fd field of append/close/readat names the slot whose
// descriptor is used. Slots are private to a client (or to the setup). An op
// that uses a slot that holds no descriptor (because the Create that should
// have filled it returned ok=false, or the call that should have filled it
// panicked) is skipped.
type Program struct {
	Impl    string          `json:"impl"` // "mem" or "dir"
	Setup   []models.FsOp   `json:"setup"`
	Clients [][]models.FsOp `json:"clients"`
}

// Event is one executed (or skipped) call. Call and Ret are stamps of a
// logical clock (one atomic counter): Ret(a) < Call(b) implies that a had
// returned before b was invoked.
type Event struct {
	Client  int          `json:"client"` // -1 = setup
	Index   int          `json:"index"`
	Call    int64        `json:"call"`
	Ret     int64        `json:"ret"`
	Op      models.FsOp  `json:"op"`   // Fd = the implementation's descriptor value for append/close/readat
	Slot    int          `json:"slot"` // the program's slot
	Out     models.FsOut `json:"out"`
	Skipped bool         `json:"skipped,omitempty"`
}

// Result of a run.
type Result struct {
	Setup  []Event
	Events []Event        // all client events, ordered by Call stamp
	Live   []filesys.File // descriptors still open at the end
}

type runner struct {
	fs    filesys.Filesys
	clock *int64
	slots map[int]filesys.File
}

func (r *runner) exec(client, idx int, op models.FsOp) Event {
	e := Event{Client: client, Index: idx, Op: op, Slot: op.Fd}
	var f filesys.File
	switch op.Kind {
	case models.FsAppend, models.FsClose, models.FsReadAt:
		var ok bool
		f, ok = r.slots[op.Fd]
		if !ok {
			e.Skipped = true
			return e
		}
		e.Op.Fd = int(f)
	default:
		e.Op.Fd = 0
	}
	e.Call = atomic.AddInt64(r.clock, 1)
	func() {
		defer func() {
			if p := recover(); p != nil {
				e.Out.Panicked = true
				e.Out.Panic = fmt.Sprint(p)
			}
		}()
		switch op.Kind {
		case models.FsMkdir:
			r.fs.Mkdir(op.Dir)
		case models.FsCreate:
			nf, ok := r.fs.Create(op.Dir, op.Name)
			e.Out.Res.Ok = ok
			if ok {
				e.Out.Res.Fd = int(nf)
				r.slots[op.Fd] = nf
			}
		case models.FsOpen:
			nf := r.fs.Open(op.Dir, op.Name)
			e.Out.Res.Fd = int(nf)
			r.slots[op.Fd] = nf
		case models.FsAppend:
			r.fs.Append(f, op.Data())
		case models.FsClose:
			delete(r.slots, op.Fd)
			r.fs.Close(f)
		case models.FsReadAt:
			e.Out.Res.Data = append([]byte{}, r.fs.ReadAt(f, op.Off, op.Len)...)
		case models.FsDelete:
			r.fs.Delete(op.Dir, op.Name)
		case models.FsLink:
			e.Out.Res.Ok = r.fs.Link(op.Dir, op.Name, op.Dir2, op.Name2)
		case models.FsAtomic:
			r.fs.AtomicCreate(op.Dir, op.Name, op.Data())
		case models.FsList:
			names := append([]string{}, r.fs.List(op.Dir)...)
			sort.Strings(names)
			e.Out.Res.Names = names
		}
	}()
	e.Ret = atomic.AddInt64(r.clock, 1)
	return e
}

// Run executes the program on fs. yield makes every client call
// runtime.Gosched between its operations (a different family of schedules).
func Run(fs filesys.Filesys, p Program, yield bool) Result {
	var clock int64
	var res Result
	sr := &runner{fs: fs, clock: &clock, slots: map[int]filesys.File{}}
	for i, op := range p.Setup {
		res.Setup = append(res.Setup, sr.exec(-1, i, op))
	}
	runners := make([]*runner, len(p.Clients))
	events := make([][]Event, len(p.Clients))
	// start barrier: every client announces itself and spins until all have,
	// so that the first calls of the clients really coincide
	var ready int32
	n := int32(len(p.Clients))
	var wg sync.WaitGroup
	for c := range p.Clients {
		runners[c] = &runner{fs: fs, clock: &clock, slots: map[int]filesys.File{}}
		wg.Add(1)
		go func(c int) {
			defer wg.Done()
			atomic.AddInt32(&ready, 1)
			for spin := 0; atomic.LoadInt32(&ready) < n; spin++ {
				if spin > 2000 || spin%200 == 199 {
					runtime.Gosched() // oversubscribed machine: do not burn time slices
				}
			}
			for i, op := range p.Clients[c] {
				events[c] = append(events[c], runners[c].exec(c, i, op))
				if yield {
					runtime.Gosched()
				}
			}
		}(c)
	}
	wg.Wait()
	for c := range events {
		res.Events = append(res.Events, events[c]...)
	}
	sort.SliceStable(res.Events, func(i, j int) bool { return res.Events[i].Call < res.Events[j].Call })
	for _, r := range append([]*runner{sr}, runners...) {
		var ks []int
		for k := range r.slots {
			ks = append(ks, k)
		}
		sort.Ints(ks)
		for _, k := range ks {
			res.Live = append(res.Live, r.slots[k])
		}
	}
	return res
}
