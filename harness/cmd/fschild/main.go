// Command fschild is the child process of the filesystem checks.
//
//	fschild atomic <root> <dir> <name> <seed> <n> [fsizeLimit]
//	    NewDirFs(root).AtomicCreate(dir, name, Pattern(seed, n)) on the main
//	    thread (so that a tracer sees the calls of the operation in order on
//	    one thread). Exit 0 = the call returned, 3 = it panicked (message on
//	    stderr). With fsizeLimit > 0 RLIMIT_FSIZE is set to that many bytes
//	    before the call (SIGXFSZ ignored), so that a write crossing the limit
//	    is short and the next one fails with EFBIG.
//
//	fschild conc <program.json> <rounds>
//	    runs the fsprog.Program `rounds` times on a fresh MemFs each (built
//	    with -race by the driver: the race detector is the oracle). Exit 0,
//	    or 66 from the race detector (GORACE exitcode=66).
package main

import (
	"encoding/json"
	"fmt"
	"os"
	"os/signal"
	"runtime"
	"strconv"
	"syscall"

	"github.com/goose-lang/goose/machine/filesys"

	"verifharness/cmd/fschild/fsprog"
	"verifharness/models"
)

func init() {
	// main runs on the main thread; keep it there.
	runtime.LockOSThread()
}

func usage() {
	fmt.Fprintln(os.Stderr, "usage: fschild atomic <root> <dir> <name> <seed> <n> [fsize] | fschild conc <program.json> <rounds>")
	os.Exit(64)
}

func main() {
	if len(os.Args) < 2 {
		usage()
	}
	switch os.Args[1] {
	case "atomic":
		if len(os.Args) < 7 {
			usage()
		}
		seed, err1 := strconv.Atoi(os.Args[5])
		n, err2 := strconv.Atoi(os.Args[6])
		if err1 != nil || err2 != nil {
			usage()
		}
		data := models.Pattern(seed, n)
		if len(os.Args) > 7 {
			lim, err := strconv.Atoi(os.Args[7])
			if err != nil {
				usage()
			}
			if lim > 0 {
				signal.Ignore(syscall.SIGXFSZ)
				rl := syscall.Rlimit{Cur: uint64(lim), Max: uint64(lim)}
				if err := syscall.Setrlimit(syscall.RLIMIT_FSIZE, &rl); err != nil {
					fmt.Fprintln(os.Stderr, "setrlimit:", err)
					os.Exit(65)
				}
			}
		}
		code := 0
		func() {
			defer func() {
				if r := recover(); r != nil {
					code = 3
					os.Stderr.WriteString(fmt.Sprintf("PANIC: %v\n", r))
				}
			}()
			fs := filesys.NewDirFs(os.Args[2])
			fs.AtomicCreate(os.Args[3], os.Args[4], data)
		}()
		os.Exit(code)
	case "conc":
		if len(os.Args) < 4 {
			usage()
		}
		b, err := os.ReadFile(os.Args[2])
		if err != nil {
			fmt.Fprintln(os.Stderr, err)
			os.Exit(65)
		}
		var p fsprog.Program
		if err := json.Unmarshal(b, &p); err != nil {
			fmt.Fprintln(os.Stderr, err)
			os.Exit(65)
		}
		rounds, _ := strconv.Atoi(os.Args[3])
		for i := 0; i < rounds; i++ {
			fsprog.Run(filesys.NewMemFs(), p, i%2 == 1)
		}
		os.Exit(0)
	default:
		usage()
	}
}
