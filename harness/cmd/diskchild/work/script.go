// Package work holds what the disk checks (C10, C11) share with their child
// process cmd/diskchild: the script / workload formats and their executors.
package work

import (
	"fmt"
	"io"

	"github.com/goose-lang/goose/machine/disk"

	"verifharness/models"
)

// Step is one API call of a sequential FileDisk script.
type Step struct {
	Op   string `json:"op"` // write | read | readto | barrier | size
	Addr uint64 `json:"addr,omitempty"`
	Tag  uint64 `json:"tag,omitempty"` // write: content (models.FillBlock)
	Pat  int    `json:"pat,omitempty"`
}

// Open is one NewFileDisk(path, Size) … Close() session.
type Open struct {
	Size  uint64 `json:"size"`
	Steps []Step `json:"steps"`
}

// Script is a sequence of sessions on one backing file.
type Script struct {
	Opens []Open `json:"opens"`
}

// Call is one API call of the flattened script.
type Call struct {
	Open int    // index into Opens
	Step int    // index into Steps, -1 for open/close
	Kind string // open | close | write | read | readto | barrier | size
}

// Calls flattens the script; the index into the result is the call number
// used in the child's log.
func (s Script) Calls() []Call {
	var out []Call
	for k, o := range s.Opens {
		out = append(out, Call{Open: k, Step: -1, Kind: "open"})
		for j, st := range o.Steps {
			out = append(out, Call{Open: k, Step: j, Kind: st.Op})
		}
		out = append(out, Call{Open: k, Step: -1, Kind: "close"})
	}
	return out
}

func catch(f func()) (panicked bool) {
	defer func() {
		if r := recover(); r != nil {
			panicked = true
		}
	}()
	f()
	return false
}

// RunScript executes the script against disk.FileDisk on path, writing one
// unbuffered line per event to log:
//
//	B <i>            call i is about to start
//	E <i> <result>   call i returned normally (result: 16 hex digits of
//	                 models.BlockHash for read/readto, the value for size, "-" otherwise)
//	P <i>            call i panicked
//	ERR <i>          NewFileDisk returned an error; the script stops there
//
// Every line is a single Write on log so that it appears as one write system
// call between the system calls of the surrounding API calls.
func RunScript(s Script, path string, log io.Writer) {
	i := 0
	say := func(format string, a ...any) { io.WriteString(log, fmt.Sprintf(format, a...)) }
	for _, o := range s.Opens {
		say("B %d\n", i)
		d, err := disk.NewFileDisk(path, o.Size)
		if err != nil {
			say("ERR %d\n", i)
			return
		}
		say("E %d -\n", i)
		i++
		for _, st := range o.Steps {
			say("B %d\n", i)
			res := "-"
			var p bool
			switch st.Op {
			case "write":
				b := models.MakeBlock(models.DiskBlockSize, st.Tag, st.Pat)
				p = catch(func() { d.Write(st.Addr, b) })
			case "read":
				var b disk.Block
				p = catch(func() { b = d.Read(st.Addr) })
				if !p {
					res = fmt.Sprintf("%016x", models.BlockHash(b))
				}
			case "readto":
				b := models.MakeBlock(models.DiskBlockSize, ^uint64(i), 0) // junk
				p = catch(func() { d.ReadTo(st.Addr, b) })
				if !p {
					res = fmt.Sprintf("%016x", models.BlockHash(b))
				}
			case "barrier":
				p = catch(func() { d.Barrier() })
			case "size":
				var n uint64
				p = catch(func() { n = d.Size() })
				res = fmt.Sprintf("%d", n)
			default:
				panic("unknown op " + st.Op)
			}
			if p {
				say("P %d\n", i)
			} else {
				say("E %d %s\n", i, res)
			}
			i++
		}
		say("B %d\n", i)
		if catch(func() { d.Close() }) {
			say("P %d\n", i)
		} else {
			say("E %d -\n", i)
		}
		i++
	}
}
