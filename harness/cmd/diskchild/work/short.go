package work

import (
	"fmt"
	"io"
	"os/signal"
	"syscall"

	"github.com/goose-lang/goose/machine/disk"

	"verifharness/models"
)

// ShortCase: a FileDisk of Size blocks is filled with pattern A, then the process's file size
// limit (RLIMIT_FSIZE, soft) is set to Limit bytes and the blocks in Writes are overwritten with
// pattern B: a write wholly below the limit succeeds, a write wholly above fails with EFBIG and a
// write of the block that contains the limit is SHORT (the kernel writes Limit mod 4096 bytes and
// returns that count with no error). Then the limit is lifted and every block is read.
type ShortCase struct {
	Size   uint64   `json:"size"`
	Limit  uint64   `json:"limit"`
	Writes []uint64 `json:"writes"`
	TagA   uint64   `json:"tag_a"`
	TagB   uint64   `json:"tag_b"`
}

// RunShort prints "W <i> ok|panic" per write of phase B and "R <a> <digest>|panic" per block.
func RunShort(c ShortCase, path string, log io.Writer) error {
	say := func(format string, a ...any) { io.WriteString(log, fmt.Sprintf(format, a...)) }
	signal.Ignore(syscall.SIGXFSZ)
	d, err := disk.NewFileDisk(path, c.Size)
	if err != nil {
		return err
	}
	for a := uint64(0); a < c.Size; a++ {
		d.Write(a, models.MakeBlock(models.DiskBlockSize, c.TagA+a, 0))
	}
	var old syscall.Rlimit
	if err := syscall.Getrlimit(syscall.RLIMIT_FSIZE, &old); err != nil {
		return err
	}
	if err := syscall.Setrlimit(syscall.RLIMIT_FSIZE, &syscall.Rlimit{Cur: c.Limit, Max: old.Max}); err != nil {
		return err
	}
	res := make([]string, len(c.Writes))
	for i, a := range c.Writes {
		b := models.MakeBlock(models.DiskBlockSize, c.TagB+uint64(i), 0)
		if catch(func() { d.Write(a, b) }) {
			res[i] = "panic"
		} else {
			res[i] = "ok"
		}
	}
	if err := syscall.Setrlimit(syscall.RLIMIT_FSIZE, &old); err != nil {
		return err
	}
	for i, r := range res {
		say("W %d %s\n", i, r)
	}
	for a := uint64(0); a < c.Size; a++ {
		var b disk.Block
		if catch(func() { b = d.Read(a) }) {
			say("R %d panic\n", a)
		} else {
			say("R %d %016x\n", a, models.BlockHash(b))
		}
	}
	d.Close()
	return nil
}
