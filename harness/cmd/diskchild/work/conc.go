package work

import (
	"encoding/json"
	"fmt"
	"io"
	"os"
	"path/filepath"
	"runtime"
	"sync"
	"sync/atomic"

	"github.com/goose-lang/goose/machine/disk"

	"verifharness/models"
)

// ConcOp is one operation of one client of a concurrent workload.
type ConcOp struct {
	Op    string `json:"op"` // read | readto | write | size
	Addr  uint64 `json:"addr"`
	Yield bool   `json:"yield,omitempty"` // runtime.Gosched() before the operation
	// Pkg: through the package-level wrapper (disk.Read, disk.Write, … on the disk bound by disk.Init)
	// instead of the Disk method.
	Pkg bool `json:"pkg,omitempty"`
	// Pool k > 0 (writes): the block content is shared content number k instead of one unique to this
	// write, so the same block is written again and again, by several clients (seeded change C10-8:
	// a wrapper that skips a Write repeating "the last one"). Not used by file-mixed, whose oracle
	// identifies the write a read observed by its content.
	Pool int `json:"pool,omitempty"`
}

// PoolTag is the tag of shared content k.
func PoolTag(k int) uint64 { return uint64(0xfff)<<32 | uint64(k) }

// ConcCase is a concurrent workload.
//
//	mem            free-running clients on one disk.MemDisk
//	file-disjoint  free-running clients on one disk.FileDisk, every address used by one client only
//	file-handoff   clients on one disk.FileDisk that take turns (a token is passed through
//	               channels along Route), so all operations are totally ordered in real time
//	               although they are issued from different goroutines/threads
type ConcCase struct {
	Kind    string     `json:"kind"`
	Size    uint64     `json:"size"`
	Procs   int        `json:"procs"` // GOMAXPROCS during the run
	Clients [][]ConcOp `json:"clients"`
	Route   []int      `json:"route,omitempty"` // file-handoff: Route[k] = client that moves at turn k
}

// Validate checks the structural invariants of a case (replay soundness).
func (c ConcCase) Validate() error {
	if c.Procs < 1 || c.Procs > 64 || len(c.Clients) < 1 || len(c.Clients) > 16 || c.Size > 1024 {
		return fmt.Errorf("bad header")
	}
	for _, ops := range c.Clients {
		for _, op := range ops {
			switch op.Op {
			case "read", "readto", "write", "size":
			default:
				return fmt.Errorf("unknown op %q", op.Op)
			}
			if op.Pool < 0 || op.Pool > 8 || (op.Pool > 0 && c.Kind == "file-mixed") {
				return fmt.Errorf("bad pool")
			}
		}
	}
	switch c.Kind {
	case "mem", "file-mixed":
	case "file-disjoint":
		owner := map[uint64]int{}
		for ci, ops := range c.Clients {
			for _, op := range ops {
				if op.Op == "size" {
					continue
				}
				if o, ok := owner[op.Addr]; ok && o != ci {
					return fmt.Errorf("address %d used by two clients", op.Addr)
				}
				owner[op.Addr] = ci
			}
		}
	case "file-handoff":
		cnt := make([]int, len(c.Clients))
		for _, r := range c.Route {
			if r < 0 || r >= len(c.Clients) {
				return fmt.Errorf("bad route")
			}
			cnt[r]++
		}
		for ci, ops := range c.Clients {
			if cnt[ci] != len(ops) {
				return fmt.Errorf("route does not cover client %d", ci)
			}
		}
	default:
		return fmt.Errorf("unknown kind %q", c.Kind)
	}
	return nil
}

// Rec is one completed operation of a recorded history.
type Rec struct {
	Client  int    `json:"c"` // len(Clients) = the final scan
	Idx     int    `json:"i"`
	Op      string `json:"op"`
	Addr    uint64 `json:"a"`
	Call    int64  `json:"call"`
	Ret     int64  `json:"ret"`
	Tag     uint64 `json:"tag"` // write: tag written; read: tag decoded
	Refused bool   `json:"refused,omitempty"`
	Torn    bool   `json:"torn,omitempty"` // the block read is not one whole written block
	TornAt  int    `json:"torn_at,omitempty"`
	TornTag uint64 `json:"torn_tag,omitempty"`
	Size    uint64 `json:"size,omitempty"`
}

// WriteTag is the unique non-zero tag of the j-th operation of client ci.
func WriteTag(ci, j int) uint64 { return uint64(ci+1)<<32 | uint64(j+1) }

func decode(r *Rec, b []byte) {
	tag, ok, at, tagAt := models.DecodeTag(b)
	r.Tag = tag
	if !ok {
		r.Torn, r.TornAt, r.TornTag = true, at, tagAt
	}
}

func doOp(d disk.Disk, ci, j int, op ConcOp, wbuf, rbuf []byte, now func() int64) Rec {
	r := Rec{Client: ci, Idx: j, Op: op.Op, Addr: op.Addr}
	switch op.Op {
	case "write":
		r.Tag = WriteTag(ci, j)
		if op.Pool > 0 {
			r.Tag = PoolTag(op.Pool)
		}
		models.TagBlock(wbuf, r.Tag)
		r.Call = now()
		if op.Pkg {
			r.Refused = catch(func() { disk.Write(op.Addr, wbuf) })
		} else {
			r.Refused = catch(func() { d.Write(op.Addr, wbuf) })
		}
		r.Ret = now()
	case "read":
		var b disk.Block
		r.Call = now()
		if op.Pkg {
			r.Refused = catch(func() { b = disk.Read(op.Addr) })
		} else {
			r.Refused = catch(func() { b = d.Read(op.Addr) })
		}
		r.Ret = now()
		if !r.Refused {
			decode(&r, b)
		}
	case "readto":
		for i := range rbuf {
			rbuf[i] = 0xee
		}
		r.Call = now()
		if op.Pkg {
			r.Refused = catch(func() { disk.Get().ReadTo(op.Addr, rbuf) }) // no wrapper for ReadTo: the bound disk itself
		} else {
			r.Refused = catch(func() { d.ReadTo(op.Addr, rbuf) })
		}
		r.Ret = now()
		if !r.Refused {
			decode(&r, rbuf)
		}
	case "size":
		r.Call = now()
		if op.Pkg {
			r.Size = disk.Size()
		} else {
			r.Size = d.Size()
		}
		r.Ret = now()
	}
	return r
}

// RunConc runs the workload on d and returns the history (the operations of
// all clients followed by a final scan of every address). With stamps=false
// no invocation/response stamps are taken, so that the only synchronisation
// between clients is what the disk itself does (race-detector runs).
func RunConc(c ConcCase, d disk.Disk, stamps bool) []Rec {
	old := runtime.GOMAXPROCS(c.Procs)
	defer runtime.GOMAXPROCS(old)
	disk.Init(d) // the disk the package-level wrappers act on (ConcOp.Pkg)
	n := len(c.Clients)
	per := make([][]Rec, n)
	var clock atomic.Int64
	now := func() int64 {
		if stamps {
			return clock.Add(1)
		}
		return 0
	}
	handoff := c.Kind == "file-handoff"
	turn := make([]chan int, n)
	for i := range turn {
		turn[i] = make(chan int, 1)
	}
	var ready atomic.Int32
	var wg sync.WaitGroup
	for ci := range c.Clients {
		wg.Add(1)
		go func(ci int) {
			defer wg.Done()
			ops := c.Clients[ci]
			out := make([]Rec, 0, len(ops))
			wbuf := make([]byte, models.DiskBlockSize)
			rbuf := make([]byte, models.DiskBlockSize)
			ready.Add(1)
			for int(ready.Load()) < n {
				runtime.Gosched()
			}
			for j, op := range ops {
				k := 0
				if handoff {
					k = <-turn[ci]
				}
				if op.Yield {
					runtime.Gosched()
				}
				out = append(out, doOp(d, ci, j, op, wbuf, rbuf, now))
				if handoff && k+1 < len(c.Route) {
					turn[c.Route[k+1]] <- k + 1
				}
			}
			per[ci] = out
		}(ci)
	}
	if handoff && len(c.Route) > 0 {
		turn[c.Route[0]] <- 0
	}
	wg.Wait()
	var recs []Rec
	for _, p := range per {
		recs = append(recs, p...)
	}
	wbuf := make([]byte, models.DiskBlockSize)
	rbuf := make([]byte, models.DiskBlockSize)
	always := func() int64 { return clock.Add(1) }
	for a := uint64(0); a < c.Size; a++ {
		recs = append(recs, doOp(d, n, int(a), ConcOp{Op: "read", Addr: a}, wbuf, rbuf, always))
	}
	return recs
}

// OpenConc creates the disk a case runs on (path is used by the file kinds).
func OpenConc(c ConcCase, path string) (disk.Disk, error) {
	if c.Kind == "mem" {
		return disk.NewMemDisk(c.Size), nil
	}
	os.Remove(path)
	d, err := disk.NewFileDisk(path, c.Size)
	if err != nil {
		return nil, err
	}
	return d, nil
}

// ConcBatch is the input of "diskchild conc".
type ConcBatch struct {
	Cases []ConcCase `json:"cases"`
	Reps  int        `json:"reps"`
	Dir   string     `json:"dir"`
}

// ConcMain runs a batch without stamps (meant for a -race build with
// GORACE=halt_on_error=1): "CASE i" is written to stderr before case i
// starts, "TORN i …" to stdout for every block read that is not one whole
// written block, "DONE n" at the end.
func ConcMain(batchFile string, stdout, stderr io.Writer) error {
	b, err := os.ReadFile(batchFile)
	if err != nil {
		return err
	}
	var batch ConcBatch
	if err := json.Unmarshal(b, &batch); err != nil {
		return err
	}
	for i, c := range batch.Cases {
		if err := c.Validate(); err != nil {
			return fmt.Errorf("case %d: %v", i, err)
		}
		fmt.Fprintf(stderr, "CASE %d\n", i)
		path := filepath.Join(batch.Dir, fmt.Sprintf("conc-%d-%d.img", os.Getpid(), i))
		for rep := 0; rep < batch.Reps; rep++ {
			d, err := OpenConc(c, path)
			if err != nil {
				fmt.Fprintf(stdout, "OPENFAIL %d %v\n", i, err)
				break
			}
			recs := RunConc(c, d, false)
			catch(func() { d.Close() })
			for _, r := range recs {
				// file-mixed: a read that overlaps a write of its block on the file-backed disk may
				// legitimately see part of it (one pread against one pwrite; not claimed atomic)
				if r.Torn && c.Kind != "file-mixed" {
					fmt.Fprintf(stdout, "TORN %d client=%d op#%d %s(%d): word %d carries tag %#x, word 0 carries %#x\n", i, r.Client, r.Idx, r.Op, r.Addr, r.TornAt, r.TornTag, r.Tag)
				}
			}
		}
		os.Remove(path)
	}
	fmt.Fprintf(stdout, "DONE %d\n", len(batch.Cases))
	return nil
}
