// Command diskchild is the child process of the disk checks:
//
//	diskchild script <script.json> <image>   run a sequential FileDisk script (C11, under strace)
//	diskchild short <case.json> <image>      overwrite blocks under a file size limit (C11 short writes)
//	diskchild conc <cases.json>              run concurrent workloads (C10, built with -race)
//
// It is built from the tree under test by cmd/check (registry "bins").
package main

import (
	"encoding/json"
	"fmt"
	"os"
	"runtime"

	"verifharness/cmd/diskchild/work"
)

func init() {
	// strace counts "when=N" per thread: keep the main goroutine (which issues
	// every system call of a script) on the main thread.
	runtime.LockOSThread()
}

func die(format string, a ...any) {
	fmt.Fprintf(os.Stderr, "diskchild: "+format+"\n", a...)
	os.Exit(3)
}

func main() {
	if len(os.Args) < 3 {
		die("usage")
	}
	switch os.Args[1] {
	case "script":
		if len(os.Args) != 4 {
			die("usage: script <script.json> <image>")
		}
		b, err := os.ReadFile(os.Args[2])
		if err != nil {
			die("%v", err)
		}
		var s work.Script
		if err := json.Unmarshal(b, &s); err != nil {
			die("%v", err)
		}
		work.RunScript(s, os.Args[3], os.Stdout)
	case "short":
		if len(os.Args) != 4 {
			die("usage: short <case.json> <image>")
		}
		b, err := os.ReadFile(os.Args[2])
		if err != nil {
			die("%v", err)
		}
		var c work.ShortCase
		if err := json.Unmarshal(b, &c); err != nil {
			die("%v", err)
		}
		if err := work.RunShort(c, os.Args[3], os.Stdout); err != nil {
			die("%v", err)
		}
	case "conc":
		if err := work.ConcMain(os.Args[2], os.Stdout, os.Stderr); err != nil {
			die("%v", err)
		}
	default:
		die("unknown mode %s", os.Args[1])
	}
}
