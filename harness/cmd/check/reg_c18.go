package main

import "time"

func init() {
	registry = append(registry, property{id: "C18", parts: []part{
		{name: "testgen", pkg: "./c18", run: "^TestTestGen$",
			shards: [2]int{16, 16}, checks: [2]int{250, 4000}, timeout: [2]time.Duration{15 * min, 80 * min},
			bins: []string{"test_gen"}},
	}})
}
