package main

import "time"

func init() {
	registry = append(registry, property{id: "C06", parts: []part{
		{name: "determinism", pkg: "./c06", run: "^TestDeterminism$",
			shards: [2]int{16, 16}, checks: [2]int{3, 50}, timeout: [2]time.Duration{15 * min, 80 * min},
			bins: []string{"goose"}},
		{name: "race", pkg: "./c06", run: "^TestRace$",
			shards: [2]int{1, 4}, checks: [2]int{3, 40}, timeout: [2]time.Duration{15 * min, 80 * min},
			bins: []string{"goose-race"}},
	}})
}
