package main

import "time"

func init() {
	registry = append(registry, property{id: "C14", parts: []part{
		{name: "linearizable", pkg: "./c14", run: "^TestLinearizable$",
			shards: [2]int{8, 16}, checks: [2]int{250, 3500}, timeout: [2]time.Duration{12 * min, 60 * min},
			env: [2][]string{{"VERIF_ROUNDS=4"}, {"VERIF_ROUNDS=8"}}},
		{name: "contend", pkg: "./c14", run: "^TestContention$",
			shards: [2]int{4, 8}, checks: [2]int{60, 800}, timeout: [2]time.Duration{12 * min, 60 * min},
			env: [2][]string{{"VERIF_CONTEND_ROUNDS=300"}, {"VERIF_CONTEND_ROUNDS=1000"}}},
		{name: "race", pkg: "./c14", run: "^TestRace$", bins: []string{"fschild-race"},
			shards: [2]int{4, 8}, checks: [2]int{80, 400}, timeout: [2]time.Duration{12 * min, 60 * min},
			env: [2][]string{{"VERIF_RACE_ROUNDS=30"}, {"VERIF_RACE_ROUNDS=100"}}},
	}})
}
