package main

import "time"

func init() {
	registry = append(registry, property{id: "C17", parts: []part{
		{name: "cli", pkg: "./c17", run: "^TestGooseCommand$",
			shards: [2]int{16, 16}, checks: [2]int{64, 600}, timeout: [2]time.Duration{15 * min, 60 * min},
			bins: []string{"goose"}},
	}})
}
