package main

import "time"

func init() {
	registry = append(registry, property{id: "C08", parts: []part{
		{name: "headers", pkg: "./c08", run: "^TestHeaders$",
			shards: [2]int{16, 16}, checks: [2]int{30, 600}, timeout: [2]time.Duration{12 * min, 80 * min},
			bins: []string{"goose"}},
	}})
}
