package main

import "time"

func init() {
	registry = append(registry, property{id: "C01", parts: []part{
		{name: "differential", pkg: "./c01", run: "^TestDifferential$",
			shards: [2]int{16, 16}, checks: [2]int{50, 2500}, timeout: [2]time.Duration{18 * min, 100 * min}},
	}})
}
