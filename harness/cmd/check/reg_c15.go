package main

import "time"

func init() {
	registry = append(registry, property{id: "C15", parts: []part{
		{name: "encoding", pkg: "./c15", run: "^TestEncoding$",
			shards: [2]int{8, 16}, checks: [2]int{25000, 1250000}, timeout: [2]time.Duration{6 * min, 40 * min}},
		{name: "sequences", pkg: "./c15", run: "^TestSequences$",
			shards: [2]int{8, 16}, checks: [2]int{8000, 400000}, timeout: [2]time.Duration{6 * min, 40 * min}},
		{name: "fuzz-encoding", pkg: "./c15", fuzz: "FuzzEncoding",
			shards: [2]int{0, 1}, fuzztime: [2]time.Duration{0, 3 * min}, timeout: [2]time.Duration{6 * min, 40 * min}},
	}})
}
