// Command check is the driver behind /verif/check:
//
//	check <ID> quick|thorough
//	check <ID> --replay <file>
//
// It rebuilds the property's test binaries from the current /repo tree (the
// harness module has `replace github.com/goose-lang/goose => /repo`), runs
// the parts of the property as sharded processes with seeds derived from
// VERIF_SEED, merges their shard files into /verif/evidence/<ID>.json, writes
// replay files for violations and sets the exit status:
//
//	0  property held on everything explored (KNOWN-FINDING lines possible)
//	1  violation: a line "VIOLATION property=<ID> replay=<path>" was printed
//	2  inconclusive (infrastructure: build failure, timeout, short run)
package main

import (
	"bytes"
	"context"
	"encoding/json"
	"fmt"
	"os"
	"os/exec"
	"path/filepath"
	"regexp"
	"sort"
	"strconv"
	"strings"
	"sync"
	"time"

	"verifharness/ev"
)

const (
	quick    = 0
	thorough = 1
)

type part struct {
	name    string
	pkg     string
	run     string
	race    bool
	shards  [2]int
	checks  [2]int
	timeout [2]time.Duration
	env     [2][]string
	bins    []string
	tags    string
	// fuzz: name of a native fuzz target (func FuzzX(f *testing.F)); the part first runs
	// `go test -fuzz` for fuzztime (coverage-guided, cannot be seeded), then re-runs the seed
	// corpus plus every crasher the campaign saved, in-process, so that a crasher becomes an
	// ordinary recorded violation with a replay file. Thorough tier only (fuzztime 0 = skip).
	fuzz     string
	fuzztime [2]time.Duration
}

type property struct {
	id    string
	parts []part
}

func root() string { return ev.Root() }

// outRoot is where evidence and replays are written: /verif, except when
// VERIF_REPO redirects the build to a mutant worktree (then outputs go to
// /tmp/verif-mut/<worktree name> so that committed evidence is never
// overwritten by an experiment).
func outRoot() string {
	if ev.Repo() == "/repo" {
		return root()
	}
	return filepath.Join(os.TempDir(), "verif-mut", filepath.Base(ev.Repo()))
}

func harnessDir() string { return filepath.Join(root(), "harness") }

func baseEnv() []string {
	env := os.Environ()
	set := func(k, v string) {
		for i, e := range env {
			if strings.HasPrefix(e, k+"=") {
				env[i] = k + "=" + v
				return
			}
		}
		env = append(env, k+"="+v)
	}
	set("GOFLAGS", "-mod=mod")
	set("GOPROXY", "off")
	set("GOSUMDB", "off")
	set("GOTOOLCHAIN", "local")
	set("VERIF_ROOT", root())
	set("VERIF_REPO", ev.Repo())
	return env
}

func die(code int, format string, a ...any) {
	fmt.Fprintf(os.Stderr, format+"\n", a...)
	os.Exit(code)
}

// modfileArg is "-modfile=<file>" when VERIF_REPO redirects the goose module
// to a scratch worktree (used for sensitivity mutants only; registered
// commands always build /repo).
var modfileArg string

func setupRepoOverride(scratch string) error {
	repo := ev.Repo()
	if repo == "/repo" {
		return nil
	}
	b, err := os.ReadFile(filepath.Join(harnessDir(), "go.mod"))
	if err != nil {
		return err
	}
	s := strings.Replace(string(b), "=> /repo", "=> "+repo, 1)
	mf := filepath.Join(scratch, "go.mod")
	if err := os.WriteFile(mf, []byte(s), 0o644); err != nil {
		return err
	}
	sum, _ := os.ReadFile(filepath.Join(harnessDir(), "go.sum"))
	os.WriteFile(filepath.Join(scratch, "go.sum"), sum, 0o644)
	modfileArg = "-modfile=" + mf
	return nil
}

func goBuild(args []string, log *bytes.Buffer) error {
	if modfileArg != "" {
		args = append([]string{args[0], modfileArg}, args[1:]...)
	}
	cmd := exec.Command("go", args...)
	cmd.Dir = harnessDir()
	cmd.Env = baseEnv()
	cmd.Stdout = log
	cmd.Stderr = log
	return cmd.Run()
}

type shardResult struct {
	part      string
	idx       int
	exit      int
	timed     bool
	out       string
	shard     *ev.Shard
	failf     string
	checks    int
	fuzzExecs int64
	fuzzNote  string
}

var passedRe = regexp.MustCompile(`OK, passed (\d+) tests`)

func main() {
	if len(os.Args) < 3 {
		die(2, "usage: check <ID> quick|thorough | check <ID> --replay <file>")
	}
	id := os.Args[1]
	prop := lookup(id)
	if prop == nil {
		die(2, "unknown property %s", id)
	}
	mode := os.Args[2]
	tier := quick
	replay := ""
	switch mode {
	case "quick":
	case "thorough":
		tier = thorough
	case "--replay":
		if len(os.Args) < 4 {
			die(2, "--replay needs a file")
		}
		replay, _ = filepath.Abs(os.Args[3])
		if _, err := os.Stat(replay); err != nil {
			replay = filepath.Join(root(), os.Args[3])
		}
	default:
		die(2, "unknown mode %s", mode)
	}
	if t := os.Getenv("VERIF_TIER"); replay == "" && mode == "" && t == "thorough" {
		tier = thorough
	}
	tierName := []string{"quick", "thorough"}[tier]
	seed := int64(1)
	if s, err := strconv.ParseInt(os.Getenv("VERIF_SEED"), 10, 64); err == nil {
		seed = s
	}
	start := time.Now()

	scratch, err := os.MkdirTemp("", "verif-"+id+"-")
	if err != nil {
		die(2, "mktemp: %v", err)
	}
	code := run(prop, tier, tierName, seed, replay, scratch, start)
	os.RemoveAll(scratch)
	os.Exit(code)
}

func run(prop *property, tier int, tierName string, seed int64, replay, scratch string, start time.Time) int {
	id := prop.id
	parts := prop.parts
	var rf *ev.ReplayFile
	if replay != "" {
		var err error
		rf, err = ev.LoadReplay(replay)
		if err != nil {
			fmt.Fprintf(os.Stderr, "cannot read replay %s: %v\n", replay, err)
			return 2
		}
		var sel []part
		for _, p := range parts {
			if p.name == rf.Part {
				sel = append(sel, p)
			}
		}
		if len(sel) == 0 {
			sel = parts[:1]
		}
		sel = sel[:1]
		sel[0].run = "^TestReplay$"
		sel[0].shards = [2]int{1, 1}
		parts = sel
	}

	// development aids (never set by registered commands): VERIF_ONLY_PARTS=a,b restricts the
	// run to the named parts; VERIF_FUZZTIME overrides the native fuzzing time.
	if only := os.Getenv("VERIF_ONLY_PARTS"); only != "" && replay == "" {
		var sel []part
		for _, p := range parts {
			for _, n := range strings.Split(only, ",") {
				if p.name == n {
					sel = append(sel, p)
				}
			}
		}
		parts = sel
	}
	if d, err := time.ParseDuration(os.Getenv("VERIF_FUZZTIME")); err == nil {
		for i := range parts {
			if parts[i].fuzz != "" {
				parts[i].fuzztime = [2]time.Duration{d, d}
				if parts[i].shards[0] == 0 {
					parts[i].shards[0] = 1
				}
			}
		}
	}
	if err := setupRepoOverride(scratch); err != nil {
		fmt.Fprintf(os.Stderr, "INCONCLUSIVE property=%s: %v\n", id, err)
		return 2
	}
	// ---- build ----
	binDir := filepath.Join(scratch, "bin")
	os.MkdirAll(binDir, 0o755)
	built := map[string]string{}
	builtBins := map[string]bool{}
	for _, p := range parts {
		for _, b := range p.bins {
			if builtBins[b] {
				continue
			}
			builtBins[b] = true
			var log bytes.Buffer
			target := "./cmd/" + b
			name := b
			race := false
			if strings.HasSuffix(b, "-race") {
				race = true
				b = strings.TrimSuffix(b, "-race")
				target = "./cmd/" + b
			}
			switch b {
			case "goose":
				target = "github.com/goose-lang/goose/cmd/goose"
			case "test_gen":
				target = "github.com/goose-lang/goose/cmd/test_gen"
			}
			args := []string{"build", "-o", filepath.Join(binDir, name)}
			if race {
				args = append(args, "-race")
			}
			args = append(args, target)
			if err := goBuild(args, &log); err != nil {
				fmt.Fprintf(os.Stderr, "INCONCLUSIVE property=%s: build of %s failed:\n%s\n", id, name, log.String())
				return 2
			}
		}
		key := p.pkg + "|" + strconv.FormatBool(p.race) + "|" + p.tags + "|" + strconv.FormatBool(p.fuzz != "")
		if _, ok := built[key]; ok {
			continue
		}
		if p.fuzz != "" && (p.fuzztime[tier] <= 0 || replay != "") && p.shards[tier] <= 0 {
			continue
		}
		out := filepath.Join(scratch, fmt.Sprintf("t%d.test", len(built)))
		args := []string{"test", "-c", "-vet=off", "-o", out}
		if p.fuzz != "" {
			// coverage instrumentation for the native fuzzer
			args = append(args, "-fuzz", "^"+p.fuzz+"$")
		}
		if p.race {
			args = append(args, "-race")
		}
		if p.tags != "" {
			args = append(args, "-tags", p.tags)
		}
		args = append(args, p.pkg)
		var log bytes.Buffer
		if err := goBuild(args, &log); err != nil {
			fmt.Fprintf(os.Stderr, "INCONCLUSIVE property=%s: build of %s failed:\n%s\n", id, p.pkg, log.String())
			return 2
		}
		built[key] = out
	}

	// ---- run shards ----
	var results []*shardResult
	var mu sync.Mutex
	var wg sync.WaitGroup
	sem := make(chan struct{}, 16)
	for pi, p := range parts {
		key := p.pkg + "|" + strconv.FormatBool(p.race) + "|" + p.tags + "|" + strconv.FormatBool(p.fuzz != "")
		bin := built[key]
		n := p.shards[tier]
		if n <= 0 {
			continue
		}
		for k := 0; k < n; k++ {
			wg.Add(1)
			go func(pi int, p part, k int) {
				defer wg.Done()
				sem <- struct{}{}
				defer func() { <-sem }()
				dir := filepath.Join(scratch, fmt.Sprintf("%s-%d", p.name, k))
				os.MkdirAll(dir, 0o755)
				shardFile := filepath.Join(dir, "shard.json")
				failFile := filepath.Join(dir, "rapid.fail")
				// rapid seeds its i-th case with base+i(i+1)/2: shards whose base seeds are close to
				// each other would replay each other's first cases (with 3 cases per shard and
				// consecutive bases, 16 shards produce 19 distinct programs instead of 48), so the
				// base seeds are spread over the whole range with a splitmix64 hash of
				// (VERIF_SEED, part, shard).
				rseed := int64(splitmix(uint64(seed)*0x9e3779b97f4a7c15+uint64(pi)*0xbf58476d1ce4e5b9+uint64(k)*0x94d049bb133111eb+1) >> 2)
				if rseed <= 0 {
					rseed = 1 - rseed
				}
				to := p.timeout[tier]
				if to == 0 {
					to = 10 * time.Minute
				}
				var fuzzExecs int64
				fuzzNote := ""
				if p.fuzz != "" && replay == "" {
					ft := p.fuzztime[tier]
					if ft <= 0 {
						return
					}
					// the engine gives up on a worker that does not answer in time ("fuzzing process hung or
					// terminated unexpectedly") — on a loaded machine that happens without any failing
					// input. Such a run is repeated (twice at most); a crash of the code under test on a
					// corpus entry shows again in the in-process run below either way.
					for attempt := 0; attempt < 3; attempt++ {
						fuzzNote = ""
						fctx, fcancel := context.WithTimeout(context.Background(), ft+5*time.Minute)
						fargs := []string{"-test.run", "^$", "-test.fuzz", "^" + p.fuzz + "$", "-test.fuzztime", ft.String(),
							"-test.fuzzcachedir", filepath.Join(dir, "fuzzcache"), "-test.parallel", "8", "-test.timeout", (ft + 4*time.Minute).String()}
						fcmd := exec.CommandContext(fctx, bin, fargs...)
						fcmd.Dir = dir
						fenv := baseEnv()
						fenv = append(fenv, "VERIF_TIER="+tierName, "VERIF_SCRATCH="+filepath.Join(dir, "scratch-fuzz"), "VERIF_BIN="+binDir, "VERIF_PART="+p.name, "VERIF_FUZZING=1")
						fenv = append(fenv, p.env[tier]...)
						fcmd.Env = fenv
						var fout bytes.Buffer
						fcmd.Stdout, fcmd.Stderr = &fout, &fout
						ferr := fcmd.Run()
						fcancel()
						if m := regexp.MustCompile(`execs: (\d+)`).FindAllStringSubmatch(fout.String(), -1); len(m) > 0 {
							fuzzExecs, _ = strconv.ParseInt(m[len(m)-1][1], 10, 64)
						}
						if ferr != nil {
							if saved, _ := filepath.Glob(filepath.Join(dir, "testdata", "fuzz", p.fuzz, "*")); len(saved) > 0 {
								fuzzNote = "native fuzzing stopped with a failing input (re-run in-process below): " + lastLines(fout.String(), 6)
							} else {
								fuzzNote = "BROKEN native fuzzing run ended with an error but saved no failing input: " + lastLines(fout.String(), 6)
							}
						}
						if !strings.HasPrefix(fuzzNote, "BROKEN") || !strings.Contains(fuzzNote, "hung or terminated unexpectedly") {
							break
						}
						os.RemoveAll(filepath.Join(dir, "fuzzcache"))
					}
					os.RemoveAll(filepath.Join(dir, "fuzzcache"))
					p.run = "^" + p.fuzz + "$"
				}
				args := []string{"-test.run", p.run, "-test.v", "-test.timeout", (to + 30*time.Second).String(),
					"-rapid.seed", strconv.FormatInt(rseed, 10),
					"-rapid.failfile", failFile, "-rapid.nofailfile=false"}
				if c := p.checks[tier]; c > 0 {
					args = append(args, "-rapid.checks", strconv.Itoa(c))
				}
				if replay == "" {
					st := "30s"
					if tier == thorough {
						st = "90s"
					}
					args = append(args, "-rapid.shrinktime", st)
				}
				ctx, cancel := context.WithTimeout(context.Background(), to+60*time.Second)
				defer cancel()
				cmd := exec.CommandContext(ctx, bin, args...)
				cmd.Dir = dir
				env := baseEnv()
				env = append(env,
					"VERIF_OUT="+shardFile,
					"VERIF_TIER="+tierName,
					"VERIF_SEED="+strconv.FormatInt(seed, 10),
					"VERIF_SHARD="+strconv.Itoa(k),
					"VERIF_NSHARDS="+strconv.Itoa(n),
					"VERIF_SCRATCH="+filepath.Join(dir, "scratch"),
					"VERIF_BIN="+binDir,
					"VERIF_PART="+p.name,
				)
				if replay != "" {
					env = append(env, "VERIF_REPLAY="+replay)
				}
				env = append(env, p.env[tier]...)
				if p.race {
					env = append(env, "GORACE=halt_on_error=0")
				}
				cmd.Env = env
				var out bytes.Buffer
				cmd.Stdout = &out
				cmd.Stderr = &out
				err := cmd.Run()
				r := &shardResult{part: p.name, idx: k, out: out.String(), checks: p.checks[tier], fuzzExecs: fuzzExecs, fuzzNote: fuzzNote}
				if err != nil {
					r.exit = 1
					if ee, ok := err.(*exec.ExitError); ok {
						r.exit = ee.ExitCode()
					}
					if ctx.Err() != nil {
						r.timed = true
					}
				}
				if b, err := os.ReadFile(shardFile); err == nil {
					var s ev.Shard
					if json.Unmarshal(b, &s) == nil {
						r.shard = &s
					}
				}
				// the process died in the middle of a case (ev.Begin without ev.End) with a fatal
				// runtime error: that case is a violation of the code under test, not an
				// infrastructure problem — unless the run timed out or was killed from outside
				if b, err := os.ReadFile(shardFile + ".current"); err == nil && r.exit != 0 && !r.timed {
					var f ev.Failure
					if json.Unmarshal(b, &f) == nil && (strings.Contains(r.out, "fatal error:") || strings.Contains(r.out, "goroutine stack exceeds")) {
						i := strings.Index(r.out, "fatal error:")
						if i < 0 {
							i = strings.Index(r.out, "goroutine stack exceeds")
						}
						f.Message = "the code under test killed the test process: " + firstLines(r.out[i:], 14)
						if r.shard == nil {
							r.shard = &ev.Shard{}
						}
						r.shard.Failures = append(r.shard.Failures, f)
					}
				}
				if b, err := os.ReadFile(failFile); err == nil {
					r.failf = string(b)
				}
				mu.Lock()
				results = append(results, r)
				mu.Unlock()
			}(pi, p, k)
		}
	}
	wg.Wait()
	sort.Slice(results, func(i, j int) bool {
		if results[i].part != results[j].part {
			return results[i].part < results[j].part
		}
		return results[i].idx < results[j].idx
	})

	// ---- merge ----
	type partSummary struct {
		Part        string `json:"part"`
		Shards      int    `json:"shards"`
		Evaluations int64  `json:"evaluations"`
	}
	hashes := map[uint64]struct{}{}
	labels := map[string]int64{}
	pruned := map[string]int64{}
	inconc := map[string]int64{}
	extra := map[string]int64{}
	var samples []json.RawMessage
	var evals, ntTotal int64
	level, rule := "", ""
	assumptions := []string{}
	seenAss := map[string]bool{}
	known := map[string]bool{}
	var notes []string
	psum := map[string]*partSummary{}
	var violations []string
	inconclusive := []string{}
	perPartSamples := map[string]int{}
	seenReplay := map[string]bool{}

	replayDir := filepath.Join(outRoot(), "replays", id)
	for _, r := range results {
		ps := psum[r.part]
		if ps == nil {
			ps = &partSummary{Part: r.part}
			psum[r.part] = ps
		}
		ps.Shards++
		for _, line := range strings.Split(r.out, "\n") {
			if strings.HasPrefix(line, "KNOWN-FINDING:") {
				known[strings.TrimSpace(line)] = true
			}
		}
		if r.shard == nil {
			inconclusive = append(inconclusive, fmt.Sprintf("%s/%d: no shard file (exit %d, timeout=%v)", r.part, r.idx, r.exit, r.timed))
			saveLog(id, r)
			continue
		}
		s := r.shard
		if r.fuzzExecs > 0 {
			extra["native_fuzz_execs"] += r.fuzzExecs
			evals += r.fuzzExecs
			ps.Evaluations += r.fuzzExecs
		}
		if r.fuzzNote != "" {
			notes = append(notes, r.fuzzNote)
			if strings.HasPrefix(r.fuzzNote, "BROKEN") {
				inconclusive = append(inconclusive, fmt.Sprintf("%s/%d: %s", r.part, r.idx, r.fuzzNote))
			}
		}
		ps.Evaluations += s.Evaluations
		evals += s.Evaluations
		ntTotal += s.NonTrivialN
		for _, h := range s.NonTrivial {
			hashes[h] = struct{}{}
		}
		for k, v := range s.Labels {
			labels[r.part+":"+k] += v
		}
		for k, v := range s.Pruned {
			pruned[k] += v
		}
		for k, v := range s.Inconclusive {
			inconc[k] += v
		}
		for k, v := range s.Extra {
			extra[k] += v
		}
		for _, smp := range s.Samples {
			if perPartSamples[r.part] < 3 && len(samples) < 12 {
				perPartSamples[r.part]++
				samples = append(samples, smp)
			}
		}
		if s.Level != "" {
			level = s.Level
		}
		if s.Rule != "" && !strings.Contains(rule, s.Rule) {
			if rule != "" {
				rule += " || "
			}
			rule += s.Rule
		}
		for _, a := range s.Assumptions {
			if !seenAss[a] {
				seenAss[a] = true
				assumptions = append(assumptions, a)
			}
		}
		for _, k := range s.Known {
			known[k] = true
		}
		notes = append(notes, s.Notes...)
		for _, f := range s.Failures {
			if replay != "" {
				violations = append(violations, replay)
				fmt.Printf("VIOLATION property=%s replay=%s\n", id, replay)
				fmt.Printf("  %s: %s\n", f.Test, firstLines(f.Message, 12))
				continue
			}
			os.MkdirAll(replayDir, 0o755)
			rfile := ev.ReplayFile{Property: id, Part: r.part, Test: f.Test, Message: f.Message, Case: f.Case, Rapid: r.failf}
			b, _ := json.MarshalIndent(&rfile, "", " ")
			name := fmt.Sprintf("%s-%s-seed%d-%016x.json", r.part, sanitize(f.Test), seed, ev.Hash(string(f.Case)))
			path := filepath.Join(replayDir, name)
			if seenReplay[path] {
				continue
			}
			seenReplay[path] = true
			os.WriteFile(path, b, 0o644)
			violations = append(violations, path)
			fmt.Printf("VIOLATION property=%s replay=%s\n", id, path)
			fmt.Printf("  %s: %s\n", f.Test, firstLines(f.Message, 12))
		}
		if len(s.Failures) == 0 {
			if r.exit != 0 {
				inconclusive = append(inconclusive, fmt.Sprintf("%s/%d: exit %d without a recorded violation (timeout=%v)", r.part, r.idx, r.exit, r.timed))
				saveLog(id, r)
			} else if r.checks > 0 && replay == "" {
				for _, m := range passedRe.FindAllStringSubmatch(r.out, -1) {
					n, _ := strconv.Atoi(m[1])
					if n < r.checks {
						inconclusive = append(inconclusive, fmt.Sprintf("%s/%d: rapid ran %d of %d cases", r.part, r.idx, n, r.checks))
					}
				}
			}
		}
	}
	var knownList []string
	for k := range known {
		knownList = append(knownList, k)
	}
	sort.Strings(knownList)
	for _, k := range knownList {
		fmt.Println(k)
	}

	if replay != "" {
		if len(violations) > 0 {
			return 1
		}
		if len(inconclusive) > 0 {
			fmt.Fprintf(os.Stderr, "INCONCLUSIVE property=%s: %s\n", id, strings.Join(inconclusive, "; "))
			return 2
		}
		fmt.Printf("replay passed: property=%s %s\n", id, replay)
		return 0
	}

	// ---- evidence ----
	if level == "" {
		level = "exploration"
	}
	var partList []*partSummary
	for _, p := range psum {
		partList = append(partList, p)
	}
	sort.Slice(partList, func(i, j int) bool { return partList[i].Part < partList[j].Part })
	if samples == nil {
		samples = []json.RawMessage{}
	}
	coverage := map[string]any{
		"evaluations":         evals,
		"distinct_nontrivial": len(hashes),
		"nontrivial_total":    ntTotal,
		"rule":                rule,
		"samples":             samples,
		"labels":              labels,
		"pruned_by_switch":    pruned,
		"inconclusive_cases":  inconc,
		"counters":            extra,
		"parts":               partList,
		"known_findings":      knownList,
		"notes":               notes,
		"inconclusive_run":    inconclusive,
		"exhaustive":          false,
	}
	if level == "translation_validation" {
		coverage["programs"] = extra["programs"]
		coverage["disagreements_checked"] = extra["disagreements_checked"]
	}
	evd := map[string]any{
		"property_id": id,
		"tier":        tierName,
		"seed":        seed,
		"level":       level,
		"coverage":    coverage,
		"assumptions": assumptions,
		"wall_s":      time.Since(start).Seconds(),
		"violations":  len(violations),
	}
	b, _ := json.MarshalIndent(evd, "", " ")
	os.MkdirAll(filepath.Join(outRoot(), "evidence"), 0o755)
	if err := os.WriteFile(filepath.Join(outRoot(), "evidence", id+".json"), b, 0o644); err != nil {
		fmt.Fprintf(os.Stderr, "cannot write evidence: %v\n", err)
		return 2
	}
	fmt.Printf("property=%s tier=%s seed=%d evaluations=%d distinct_nontrivial=%d violations=%d wall=%.1fs\n",
		id, tierName, seed, evals, len(hashes), len(violations), time.Since(start).Seconds())
	if len(violations) > 0 {
		return 1
	}
	if len(inconclusive) > 0 {
		fmt.Fprintf(os.Stderr, "INCONCLUSIVE property=%s: %s\n", id, strings.Join(inconclusive, "; "))
		return 2
	}
	return 0
}

func saveLog(id string, r *shardResult) {
	dir := filepath.Join(outRoot(), "replays", id, "logs")
	os.MkdirAll(dir, 0o755)
	out := r.out
	if len(out) > 200000 {
		out = out[:100000] + "\n…\n" + out[len(out)-100000:]
	}
	os.WriteFile(filepath.Join(dir, fmt.Sprintf("%s-%d.log", r.part, r.idx)), []byte(out), 0o644)
}

func splitmix(x uint64) uint64 {
	x += 0x9e3779b97f4a7c15
	x = (x ^ (x >> 30)) * 0xbf58476d1ce4e5b9
	x = (x ^ (x >> 27)) * 0x94d049bb133111eb
	return x ^ (x >> 31)
}

func lastLines(s string, n int) string {
	lines := strings.Split(strings.TrimSpace(s), "\n")
	if len(lines) > n {
		lines = lines[len(lines)-n:]
	}
	return strings.Join(lines, " | ")
}

func firstLines(s string, n int) string {
	lines := strings.Split(s, "\n")
	if len(lines) > n {
		lines = append(lines[:n], "…")
	}
	return strings.Join(lines, "\n  ")
}

func sanitize(s string) string {
	return regexp.MustCompile(`[^A-Za-z0-9_]+`).ReplaceAllString(s, "_")
}
