package main

import "time"

func init() {
	registry = append(registry, property{id: "C04", parts: []part{
		{name: "layouts", pkg: "./c04", run: "^TestLayouts$",
			shards: [2]int{16, 16}, checks: [2]int{40, 700}, timeout: [2]time.Duration{15 * min, 90 * min}},
	}})
}
