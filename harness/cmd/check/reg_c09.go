package main

import "time"

func init() {
	registry = append(registry, property{id: "C09", parts: []part{
		{name: "registers", pkg: "./c09", run: "^TestRegisters$",
			shards: [2]int{8, 16}, checks: [2]int{4000, 60000}, timeout: [2]time.Duration{9 * min, 50 * min}},
	}})
}
