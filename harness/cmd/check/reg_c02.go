package main

import "time"

func init() {
	registry = append(registry, property{id: "C02", parts: []part{
		{name: "catalogue", pkg: "./c02", run: "^TestCatalogueSweep$",
			shards:  [2]int{8, 16},
			timeout: [2]time.Duration{18 * min, 60 * min},
			env:     [2][]string{{"VERIF_C02_CTXS=2"}, {"VERIF_C02_CTXS=5"}}},
		{name: "controlflow", pkg: "./c02", run: "^TestControlFlow$",
			shards: [2]int{8, 16}, checks: [2]int{25, 1800}, timeout: [2]time.Duration{18 * min, 90 * min}},
		{name: "insertions", pkg: "./c02", run: "^TestInsertions$",
			shards: [2]int{8, 16}, checks: [2]int{12, 900}, timeout: [2]time.Duration{18 * min, 90 * min}},
	}})
}
