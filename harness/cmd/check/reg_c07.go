package main

import "time"

func init() {
	registry = append(registry, property{id: "C07", parts: []part{
		{name: "seeds", pkg: "./c07", run: "^TestSeedsUnmutated$",
			shards: [2]int{1, 1}, timeout: [2]time.Duration{9 * min, 40 * min}},
		{name: "dense", pkg: "./c07", run: "^TestDenseCatalogue$",
			shards: [2]int{6, 16}, checks: [2]int{150, 8000}, timeout: [2]time.Duration{15 * min, 80 * min}},
		{name: "controlflow", pkg: "./c07", run: "^TestControlFlow$",
			shards: [2]int{4, 16}, checks: [2]int{400, 20000}, timeout: [2]time.Duration{15 * min, 80 * min}},
		{name: "mutants", pkg: "./c07", run: "^TestMutateExamples$",
			shards: [2]int{9, 16}, checks: [2]int{120, 6000}, timeout: [2]time.Duration{15 * min, 80 * min}},
		{name: "fuzz-mutants", pkg: "./c07", fuzz: "FuzzMutateExamples",
			shards: [2]int{0, 1}, fuzztime: [2]time.Duration{0, 8 * min}, timeout: [2]time.Duration{15 * min, 60 * min}},
	}})
}
