package main

import "time"

func init() {
	registry = append(registry, property{id: "C03", parts: []part{
		{name: "concurrent", pkg: "./c03", run: "^TestConcurrent$",
			shards: [2]int{16, 16}, checks: [2]int{6, 60}, timeout: [2]time.Duration{24 * min, 120 * min}},
	}})
}
