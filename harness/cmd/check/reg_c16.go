package main

import "time"

func init() {
	registry = append(registry, property{id: "C16", parts: []part{
		// UInt64ToString, MapClear, Assume/Assert/Linearize/NewProph/RandomUint64/TimeNow/Sleep:
		// three rapid properties per shard, `checks` cases each.
		{name: "pure", pkg: "./c16", run: "^(TestString|TestMapClear|TestCalls)$",
			shards: [2]int{8, 16}, checks: [2]int{20000, 1000000}, timeout: [2]time.Duration{9 * min, 50 * min}},
		// WaitTimeout: real-time cases, few processes so that a loaded machine does not starve them.
		{name: "timing", pkg: "./c16", run: "^TestWaitTimeout(Plain)?$",
			shards: [2]int{2, 4}, checks: [2]int{60, 1500}, timeout: [2]time.Duration{24 * min, 50 * min}},
		// signal aimed at the expiry of the timeout, in volume (a window of microseconds)
		{name: "coincide", pkg: "./c16", run: "^TestWaitCoincide$",
			shards: [2]int{2, 4}, checks: [2]int{8, 400}, timeout: [2]time.Duration{24 * min, 50 * min}},
	}})
}
