package main

import "time"

func init() {
	registry = append(registry, property{id: "C05", parts: []part{
		{name: "hostile", pkg: "./c05", run: "^TestHostileText$",
			shards: [2]int{6, 16}, checks: [2]int{800, 40000}, timeout: [2]time.Duration{12 * min, 80 * min}},
		{name: "expr", pkg: "./c05", run: "^TestExprNesting$",
			shards: [2]int{4, 16}, checks: [2]int{3000, 150000}, timeout: [2]time.Duration{12 * min, 80 * min}},
		{name: "names", pkg: "./c05", run: "^TestHostileNames$",
			shards: [2]int{2, 8}, checks: [2]int{1500, 50000}, timeout: [2]time.Duration{12 * min, 80 * min}},
		{name: "linedir", pkg: "./c05", run: "^TestHostileLineDirective$",
			shards: [2]int{2, 8}, checks: [2]int{600, 20000}, timeout: [2]time.Duration{12 * min, 80 * min}},
		{name: "scopes", pkg: "./c05", run: "^TestScopes$",
			shards: [2]int{6, 16}, checks: [2]int{150, 6000}, timeout: [2]time.Duration{12 * min, 80 * min}},
		{name: "flags", pkg: "./c05", run: "^TestFlags$",
			shards: [2]int{6, 16}, checks: [2]int{60, 1200}, timeout: [2]time.Duration{12 * min, 80 * min}},
		{name: "fuzz-hostile", pkg: "./c05", fuzz: "FuzzHostileText",
			shards: [2]int{0, 1}, fuzztime: [2]time.Duration{0, 6 * min}, timeout: [2]time.Duration{12 * min, 60 * min}},
	}})
}
