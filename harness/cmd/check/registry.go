package main

import "time"

func lookup(id string) *property {
	for i := range registry {
		if registry[i].id == id {
			return &registry[i]
		}
	}
	return nil
}

const min = time.Minute

// registry is filled by the init functions of the reg_cNN.go files.
var registry []property
