package main

import "time"

func init() {
	registry = append(registry, property{id: "C13", parts: []part{
		{name: "faults", pkg: "./c13", run: "^TestFaults$", bins: []string{"fschild"},
			shards: [2]int{8, 16}, checks: [2]int{6, 60}, timeout: [2]time.Duration{12 * min, 60 * min}},
		{name: "concurrent", pkg: "./c13", run: "^TestConcurrent$", bins: []string{"fschild"},
			shards: [2]int{4, 8}, checks: [2]int{40, 1500}, timeout: [2]time.Duration{12 * min, 60 * min},
			env: [2][]string{{"VERIF_ROUNDS=3"}, {"VERIF_ROUNDS=6"}}},
		{name: "race", pkg: "./c13", run: "^TestConcurrentRace$", bins: []string{"fschild-race"},
			shards: [2]int{2, 8}, checks: [2]int{60, 400}, timeout: [2]time.Duration{12 * min, 60 * min},
			env: [2][]string{{"VERIF_RACE_ROUNDS=30"}, {"VERIF_RACE_ROUNDS=100"}}},
	}})
}
