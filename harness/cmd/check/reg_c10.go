package main

import "time"

func init() {
	registry = append(registry, property{id: "C10", parts: []part{
		{name: "mem", pkg: "./c10", run: "^TestMemLinearizable$",
			shards: [2]int{6, 12}, checks: [2]int{300, 4000}, timeout: [2]time.Duration{12 * min, 60 * min},
			env: [2][]string{{"VERIF_REPS=8"}, {"VERIF_REPS=12"}}},
		{name: "file", pkg: "./c10", run: "^TestFileOrdering$",
			shards: [2]int{4, 8}, checks: [2]int{250, 3000}, timeout: [2]time.Duration{12 * min, 60 * min},
			env: [2][]string{{"VERIF_REPS=4"}, {"VERIF_REPS=6"}}},
		{name: "race", pkg: "./c10", run: "^TestRace$", bins: []string{"diskchild-race"},
			shards: [2]int{6, 12}, checks: [2]int{8, 150}, timeout: [2]time.Duration{12 * min, 60 * min},
			env: [2][]string{{"VERIF_BATCH=8", "VERIF_RACE_REPS=3"}, {"VERIF_BATCH=10", "VERIF_RACE_REPS=4"}}},
	}})
}
