package main

import "time"

func init() {
	registry = append(registry, property{id: "C12", parts: []part{
		{name: "histories", pkg: "./c12", run: "^TestHistories$",
			shards: [2]int{8, 16}, checks: [2]int{1500, 35000}, timeout: [2]time.Duration{9 * min, 50 * min}},
	}})
}
