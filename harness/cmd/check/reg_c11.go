package main

import "time"

func init() {
	registry = append(registry, property{id: "C11", parts: []part{
		{name: "reopen", pkg: "./c11", run: "^TestReopen$",
			shards: [2]int{8, 16}, checks: [2]int{5000, 80000}, timeout: [2]time.Duration{9 * min, 50 * min}},
		{name: "bigoffsets", pkg: "./c11", run: "^TestBigOffsets$",
			shards: [2]int{8, 16}, checks: [2]int{60, 2500}, timeout: [2]time.Duration{9 * min, 50 * min}},
		{name: "shortwrite", pkg: "./c11", run: "^TestShortWrites$", bins: []string{"diskchild"},
			shards: [2]int{8, 16}, checks: [2]int{25, 1500}, timeout: [2]time.Duration{9 * min, 50 * min}},
		{name: "faults", pkg: "./c11", run: "^TestFaults$", bins: []string{"diskchild"},
			shards: [2]int{8, 16}, checks: [2]int{8, 120}, timeout: [2]time.Duration{12 * min, 50 * min}},
	}})
}
