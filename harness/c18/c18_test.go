package c18

import (
	"encoding/json"
	"strings"
	"testing"

	"pgregory.net/rapid"

	"verifharness/ev"
)

func TestMain(m *testing.M) {
	ev.Meta("exploration",
		"cases = generated gofmt-formatted package directories (1-6 source files plus x_test.go / *.gold.v / *~ / sub-directory decoys); "+
			"non-trivial = the directory has at least one test, one failing_test, one disabled_ function, one helper or method, and at least one decoy file; distinct by the bytes of the directory",
		"expected tests come from go/parser (top-level receiver-less functions named (failing_)?test[A-Za-z0-9]+, files in directory order, x_test.go / *.gold.v / *~ skipped)",
		"functions named test… take no arguments and return bool (README); helpers never start with test / failing_test",
		"for test-prefixed names outside test[A-Za-z0-9]+ (underscores, non-ASCII, bare 'test') only agreement of the two generators is asserted",
		"the package does not itself declare the identifiers the generated Go file declares or imports (testing, disk, suite, GoTestSuite, TestSuite)",
		"'compiles' = go/types against the export data of the real dependencies on every case, confirmed/sampled with `go test -c` in a temporary module that replaces goose by the tree under test",
		"only regular *.go sources, the three skip classes and sub-directories are placed in the directory (no other non-Go files)")
	ev.Main(m, "C18")
}

func has(c Case, f string) bool {
	for _, x := range c.Feat {
		if x == f {
			return true
		}
	}
	return false
}

func nonTrivial(c Case) bool {
	decoy := false
	for _, f := range c.Files {
		if skipped(f.Name) {
			decoy = true
		}
	}
	return decoy && has(c, "has:test") && has(c, "has:failing") && has(c, "has:disabled") && (has(c, "has:helper") || has(c, "has:method"))
}

func key(c Case) string {
	var b strings.Builder
	for _, f := range c.Files {
		b.WriteString(f.Name)
		b.WriteByte(0)
		b.WriteString(f.Content)
		b.WriteByte(0)
	}
	for _, f := range c.Sub {
		b.WriteString(f.Name)
		b.WriteByte(0)
	}
	return b.String()
}

func check(t ev.TB, test string, c Case) {
	ev.Eval()
	for _, f := range c.Feat {
		ev.Label(f)
	}
	if len(c.GoOmit) > 0 {
		ev.Label("go-run-without-known-decoys")
	}
	if c.Compile {
		ev.Label("compile-sampled")
	}
	if c.OutFile {
		ev.Label("out-file-vs-stdout")
	}
	if nonTrivial(c) {
		ev.Label("non-trivial")
		ev.NonTrivial(key(c))
		if ev.WantSample() {
			ev.Sample(c)
		}
	}
	msg, inconc := runCase(c)
	if inconc != "" {
		ev.Inconclusive(inconc)
		return
	}
	if msg != "" {
		ev.Failf(t, test, c, "%s", msg)
	}
}

func pinned(t ev.TB) {
	ev.Pinned(t, "C18", "TestTestGen", func(raw json.RawMessage) string {
		var c Case
		if err := json.Unmarshal(raw, &c); err != nil {
			ev.Inconclusive("pinned case unreadable")
			return ""
		}
		msg, inconc := runCase(c)
		if inconc != "" {
			ev.Inconclusive("pinned: " + inconc)
		}
		return msg
	})
}

func TestTestGen(t *testing.T) {
	if e := setup(); e != "" {
		ev.Inconclusive(e)
		t.Fatalf("setup: %s", e)
	}
	if ev.ShardIndex() == 0 {
		pinned(t)
	}
	rapid.Check(t, func(t *rapid.T) {
		c, err := genCase(t)
		if err != nil {
			ev.Inconclusive("generator: " + err.Error())
			return
		}
		check(t, "TestTestGen", c)
	})
}

func TestReplay(t *testing.T) {
	p := ev.ReplayPath()
	if p == "" {
		t.Skip("no replay")
	}
	r, err := ev.LoadReplay(p)
	if err != nil {
		t.Fatal(err)
	}
	var c Case
	if err := json.Unmarshal(r.Case, &c); err != nil {
		t.Fatal(err)
	}
	check(t, "TestTestGen", c)
}
