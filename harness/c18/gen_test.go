package c18

// gen_test.go: the constructive generator of package directories. Every
// source file is assembled from declaration chunks and passed through
// go/format, so the inputs are gofmt-formatted by construction.

import (
	"fmt"
	"go/format"
	"sort"
	"strings"
	"sync"
	vgen "verifharness/gen"

	"pgregory.net/rapid"

	"verifharness/ev"
)

// Generator switches of the known findings of C18 (on while the finding is
// listed with status "known" in known_findings.json).
const (
	swGoDecoys  = "c18GoModeDecoyFiles"     // -go scans x_test.go / *.gold.v
	swLineScan  = "c18LineScanLexical"      // headers recognised by a regexp over raw lines
	swCollision = "c18FailingNameCollision" // testX + failing_testX → duplicate Go method
	swZeroTests = "c18ZeroTests"            // no test function → unused import
)

var (
	swOnce sync.Once
	swOn   map[string]bool
)

func switchOn(name string) bool {
	swOnce.Do(func() {
		swOn = map[string]bool{}
		for _, n := range []string{swGoDecoys, swLineScan, swCollision, swZeroTests} {
			swOn[n] = ev.SwitchOn(n)
		}
	})
	return swOn[name]
}

// Name material. No suffix may produce an identifier that the generated Go
// file itself declares or imports (testing, disk, suite, GoTestSuite,
// TestSuite): "testing" is therefore not constructible ("ing" is absent).
var suffixWords = []string{"Alloc", "Append", "Foo", "Bar", "Wal", "Enc32", "X", "A", "Z9z", "ify", "er", "0", "1x", "7",
	"LoopSum", "MapIter", "FOO", "aB", "Test", "test", "Failing", "func", "Func1", "x86", "Nil", "CopySlice", "s"}

var helperStems = []string{"helper", "attest", "contest", "latest", "mytest", "Test", "Testing", "functest", "retest", "doTest", "failing", "failingtest", "failing_", "disabled", "Failing_test", "xfailing_test", "tes", "tset"}

var fileStems = []string{"a", "alloc", "append", "wal", "z9", "m_x", "loops", "b.v", "xtest", "gold", "test", "a.gold", "tests_x", "zz", "Upper", "0num"}

type chunk struct {
	kind string
	src  string
	recv string // receiver type needed in the same package ("" = none)
}

type gen struct {
	t        *rapid.T
	usedFn   map[string]bool // package-level identifiers
	usedTF   map[string]bool // suffixes of test/failing_test functions
	plain    []string        // suffixes of plain tests
	failing  []string        // suffixes of failing tests
	n        int
	feat     map[string]bool
	counts   map[string]int
	recvMeth map[string]bool
}

func (g *gen) id() int { g.n++; return g.n }

func (g *gen) mark(f string) { g.feat[f] = true }

// suffix draws an alphanumeric suffix that is new among test/failing names.
func (g *gen) suffix() string {
	s := rapid.SampledFrom(suffixWords).Draw(g.t, "word")
	if vgen.Range(g.t, "two", 0, 2) == 0 {
		s += rapid.SampledFrom(suffixWords).Draw(g.t, "word2")
	}
	for g.usedTF[s] || g.usedFn["test"+s] || g.usedFn["failing_test"+s] {
		s += fmt.Sprint(g.id())
	}
	return s
}

// reserved are the identifiers the generated Go file declares or imports; a
// package declaring them itself cannot be combined with any generated file
// (documented assumption), so the generator never produces them.
var reserved = map[string]bool{"testing": true, "disk": true, "suite": true, "GoTestSuite": true, "TestSuite": true}

// freshFn returns a new package-level name for a function that is NOT a test:
// it never starts with test / failing_test (README: helpers must not follow
// the test pattern).
func (g *gen) freshFn(stem string) string {
	if looseRe.MatchString(stem) {
		stem = "h" + stem
	}
	return g.freshAny(stem)
}

// freshAny returns a new package-level name built from stem.
func (g *gen) freshAny(stem string) string {
	n := stem
	for g.usedFn[n] || reserved[n] {
		n = stem + fmt.Sprint(g.id())
	}
	g.usedFn[n] = true
	return n
}

// body returns the statements of a niladic function returning bool.
func (g *gen) body() string {
	switch vgen.Range(g.t, "body", 0, 7) {
	case 0, 1:
		return "\treturn true\n"
	case 2:
		return "\tx := uint64(3)\n\treturn x+1 == 4\n"
	case 3:
		return "\tf := func() bool {\n\t\treturn true\n\t}\n\treturn f()\n"
	case 4:
		g.mark("indented-string-decoy")
		return fmt.Sprintf("\ts := \"func testFake%d() bool {\"\n\treturn len(s) > 0\n", g.id())
	case 5:
		g.mark("indented-comment-decoy")
		return fmt.Sprintf("\t// func testFake%d() bool {\n\treturn true\n", g.id())
	case 6:
		g.mark("indented-rawstring-decoy")
		return fmt.Sprintf("\ts := `\n\tfunc testFake%d() bool {\n func failing_testFake%d() bool {\n`\n\treturn len(s) > 0\n", g.id(), g.id())
	default:
		if g.lexical() {
			g.mark("lexical:rawstring-in-body")
			return fmt.Sprintf("\ts := `\nfunc testFake%d() bool {\n`\n\treturn len(s) > 0\n", g.id())
		}
		return "\tvar ok bool\n\tfor i := 0; i < 3; i++ {\n\t\tok = i == 2\n\t}\n\treturn ok\n"
	}
}

// lexical decides whether a declaration whose recognition needs Go's lexical
// structure (not just the raw line) may be produced.
func (g *gen) lexical() bool {
	if vgen.Range(g.t, "lexical", 0, 3) != 0 {
		return false
	}
	if switchOn(swLineScan) {
		ev.Prune(swLineScan)
		return false
	}
	return true
}

// niladic renders `func name() bool` in one of the gofmt-stable spellings.
func (g *gen) niladic(name string) string {
	doc := ""
	if vgen.Range(g.t, "doc", 0, 4) == 0 {
		doc = fmt.Sprintf("// %s checks something.\n// func testDoc%d() bool {\n", name, g.id())
		g.mark("doc-comment-decoy")
	}
	switch vgen.Range(g.t, "shape", 0, 5) {
	case 0:
		return doc + "func " + name + "() bool { return true }\n"
	case 1:
		return doc + "func " + name + "() (ok bool) {\n\tok = true\n\treturn ok\n}\n"
	case 2:
		return doc + "func " + name + "() (\n\tok bool,\n) {\n\tok = true\n\treturn\n}\n"
	default:
		return doc + "func " + name + "() bool {\n" + g.body() + "}\n"
	}
}

func (g *gen) testChunk(failing bool) chunk {
	var s string
	collide := vgen.Range(g.t, "collide", 0, 7) == 0
	other := g.plain
	if !failing {
		other = g.failing
	}
	var free []string
	for _, o := range other {
		full := "test" + o
		if failing {
			full = "failing_test" + o
		}
		if !g.usedFn[full] {
			free = append(free, o)
		}
	}
	if collide && len(free) > 0 {
		if switchOn(swCollision) {
			ev.Prune(swCollision)
			collide = false
		}
	} else {
		collide = false
	}
	if collide {
		s = rapid.SampledFrom(free).Draw(g.t, "colliding")
		g.mark("collision")
	} else {
		s = g.suffix()
	}
	g.usedTF[s] = true
	name := "test" + s
	kind := "test"
	if failing {
		name = "failing_test" + s
		kind = "failing"
		g.failing = append(g.failing, s)
	} else {
		g.plain = append(g.plain, s)
	}
	g.usedFn[name] = true
	if g.lexical() {
		g.mark("lexical:comment-before-paren")
		return chunk{kind: kind, src: "func " + name + " /* c */ () bool {\n\treturn true\n}\n"}
	}
	if vgen.Chance(g.t, "variadic", 12) {
		// still callable as f(): a test like any other (seeded change C18-10: one generator skipped
		// every function with a non-empty parameter list)
		g.mark("test with a variadic parameter only")
		return chunk{kind: kind, src: "func " + name + "(extra ...uint64) bool {\n\treturn len(extra) == 0\n}\n"}
	}
	return chunk{kind: kind, src: g.niladic(name)}
}

func (g *gen) otherChunk(fileIdx int) chunk {
	switch k := vgen.Range(g.t, "other", 0, 11); k {
	case 0:
		name := "disabled_test" + rapid.SampledFrom(suffixWords).Draw(g.t, "dword")
		if rapid.Bool().Draw(g.t, "dfail") {
			name = "disabled_failing_test" + rapid.SampledFrom(suffixWords).Draw(g.t, "dword2")
		}
		return chunk{kind: "disabled", src: g.niladic(g.freshFn(name))}
	case 1, 2:
		stem := rapid.SampledFrom(helperStems).Draw(g.t, "hstem") + rapid.SampledFrom(append([]string{""}, suffixWords...)).Draw(g.t, "hsuf")
		name := g.freshFn(stem)
		if rapid.Bool().Draw(g.t, "hnil") {
			return chunk{kind: "helper", src: g.niladic(name)}
		}
		if rapid.Bool().Draw(g.t, "hmulti") {
			g.mark("multiline-signature")
			return chunk{kind: "helper", src: "func " + name + "(\n\ta uint64,\n\tb uint64,\n) uint64 {\n\treturn a + b\n}\n"}
		}
		return chunk{kind: "helper", src: "func " + name + "(x uint64) uint64 {\n\treturn x + 1\n}\n"}
	case 3, 4:
		// method named like a test
		recv := fmt.Sprintf("recv%d", fileIdx)
		pre := rapid.SampledFrom([]string{"test", "failing_test", "test", "disabled_test"}).Draw(g.t, "mpre")
		var name string
		for {
			name = pre + rapid.SampledFrom(suffixWords).Draw(g.t, "mword")
			if g.recvMeth[recv+"."+name] {
				name += fmt.Sprint(g.id())
			}
			if !g.recvMeth[recv+"."+name] {
				break
			}
		}
		g.recvMeth[recv+"."+name] = true
		r := "(r " + recv + ")"
		switch vgen.Range(g.t, "mrecv", 0, 2) {
		case 1:
			r = "(r *" + recv + ")"
		case 2:
			r = "(" + recv + ")"
		}
		return chunk{kind: "method", recv: recv, src: "func " + r + " " + name + "() bool {\n\treturn true\n}\n"}
	case 5:
		stem := rapid.SampledFrom([]string{"generic", "pretest", "gtest", "Testgen"}).Draw(g.t, "gstem")
		name := g.freshFn(stem + fmt.Sprint(g.id()))
		return chunk{kind: "generic", src: "func " + name + "[T any](x T) T {\n\treturn x\n}\n"}
	case 6:
		// test-prefixed names outside test[A-Za-z0-9]+ (only agreement is asserted)
		base := rapid.SampledFrom([]string{"test_", "testFoo_bar", "testÉcole", "failing_test_", "testΩ", "test_Foo", "failing_testBar_", "testé"}).Draw(g.t, "loose")
		name := g.freshAny(base + fmt.Sprint(g.id()))
		if vgen.Range(g.t, "bare", 0, 5) == 0 && !g.usedFn["test"] {
			name = "test"
			g.usedFn[name] = true
		}
		g.mark("loose-name")
		return chunk{kind: "loose", src: g.niladic(name)}
	case 7:
		g.mark("line-comment-decoy")
		return chunk{kind: "decl", src: fmt.Sprintf("// func testFake%d() bool {\n// func failing_testFake%d() bool {\nvar v%d = 1 // func testFake%d() bool {\n", g.id(), g.id(), g.id(), g.id())}
	case 8:
		g.mark("indented-toplevel-rawstring")
		return chunk{kind: "decl", src: fmt.Sprintf("var doc%d = `\n\tfunc testFake%d() bool {\n  func failing_testFake%d() bool {\nxfunc testFake%d() bool {\n`\n", g.id(), g.id(), g.id(), g.id())}
	case 9:
		if g.lexical() {
			g.mark("lexical:toplevel-rawstring")
			return chunk{kind: "decl", src: fmt.Sprintf("var doc%d = `\nfunc testFake%d() bool {\n\treturn true\n}\n`\n", g.id(), g.id())}
		}
		return chunk{kind: "decl", src: fmt.Sprintf("const c%d uint64 = %d\n", g.id(), g.id())}
	case 10:
		if g.lexical() {
			g.mark("lexical:block-comment")
			return chunk{kind: "decl", src: fmt.Sprintf("/*\nfunc failing_testFake%d() bool {\n\treturn true\n}\n*/\n\ntype t%d struct{ x uint64 }\n", g.id(), g.id())}
		}
		return chunk{kind: "decl", src: fmt.Sprintf("/*\n func testFake%d() bool {\n*/\n\ntype t%d struct{ x uint64 }\n", g.id(), g.id())}
	default:
		if vgen.Range(g.t, "long", 0, 9) == 0 && g.lexical() {
			g.mark("lexical:long-line")
			return chunk{kind: "decl", src: fmt.Sprintf("var long%d = \"%s\"\n", g.id(), strings.Repeat("x", 66000))}
		}
		return chunk{kind: "decl", src: fmt.Sprintf("var w%d = func() bool { return true }\n", g.id())}
	}
}

func gofmt(src string) (string, error) {
	b, err := format.Source([]byte(src))
	return string(b), err
}

// genCase draws one package directory.
func genCase(t *rapid.T) (Case, error) {
	g := &gen{t: t, usedFn: map[string]bool{}, usedTF: map[string]bool{}, feat: map[string]bool{}, counts: map[string]int{}, recvMeth: map[string]bool{}}
	nFiles := vgen.Range(t, "nfiles", 1, 6)
	stems := rapid.Permutation(fileStems).Draw(t, "stems")[:nFiles]

	nTests := vgen.Range(t, "ntests", 0, 6)
	nFailing := vgen.Range(t, "nfailing", 0, 3)
	nOther := vgen.Range(t, "nother", 0, 12)
	if nTests+nFailing == 0 {
		if switchOn(swZeroTests) {
			ev.Prune(swZeroTests)
			nTests = 1
		} else {
			g.mark("zero-tests")
		}
	}
	type placed struct {
		c    chunk
		file int
	}
	var chunks []placed
	kinds := make([]int, 0, nTests+nFailing+nOther)
	for i := 0; i < nTests; i++ {
		kinds = append(kinds, 0)
	}
	for i := 0; i < nFailing; i++ {
		kinds = append(kinds, 1)
	}
	for i := 0; i < nOther; i++ {
		kinds = append(kinds, 2)
	}
	if len(kinds) > 1 {
		kinds = rapid.Permutation(kinds).Draw(t, "order")
	}
	for _, k := range kinds {
		fi := vgen.Range(t, "file", 0, nFiles-1)
		var c chunk
		switch k {
		case 0:
			c = g.testChunk(false)
		case 1:
			c = g.testChunk(true)
		default:
			c = g.otherChunk(fi)
		}
		g.counts[c.kind]++
		chunks = append(chunks, placed{c, fi})
	}
	var c Case
	srcOf := make([]string, nFiles)
	for fi := 0; fi < nFiles; fi++ {
		var b strings.Builder
		if vgen.Range(t, "filedoc", 0, 3) == 0 {
			fmt.Fprintf(&b, "// File %d.\n// func testFileDoc%d() bool {\n", fi, g.id())
		}
		b.WriteString("package " + pkgDirName + "\n")
		needRecv := false
		for _, p := range chunks {
			if p.file != fi {
				continue
			}
			b.WriteString("\n" + p.c.src)
			if p.c.recv != "" {
				needRecv = true
			}
		}
		if needRecv {
			fmt.Fprintf(&b, "\ntype recv%d struct{}\n", fi)
		}
		src, err := gofmt(b.String())
		if err != nil {
			return c, fmt.Errorf("gofmt: %v", err)
		}
		srcOf[fi] = src
		c.Files = append(c.Files, File{Name: stems[fi] + ".go", Content: src})
	}

	// ---- decoy files ----
	armed := func() bool { return vgen.Range(t, "armed", 0, 4) != 0 }
	nTestFiles := vgen.Range(t, "ntestfiles", 0, 2)
	for i := 0; i < nTestFiles; i++ {
		stem := rapid.SampledFrom(fileStems).Draw(t, "tstem")
		name := stem + "_test.go"
		if hasFile(c.Files, name) {
			continue
		}
		var b strings.Builder
		pkg := pkgDirName
		if vgen.Range(t, "external", 0, 4) == 0 {
			pkg += "_test"
		}
		b.WriteString("package " + pkg + "\n")
		isArmed := armed()
		if isArmed {
			fmt.Fprintf(&b, "\nfunc %s() bool {\n\treturn true\n}\n", g.freshAny(fmt.Sprintf("testInTestFile%d", g.id())))
			if rapid.Bool().Draw(t, "tfail") {
				fmt.Fprintf(&b, "\nfunc %s() bool { return true }\n", g.freshAny(fmt.Sprintf("failing_testInTestFile%d", g.id())))
			}
		} else {
			fmt.Fprintf(&b, "\nfunc %s() bool {\n\treturn true\n}\n", g.freshFn(fmt.Sprintf("checkInTestFile%d", g.id())))
		}
		src, err := gofmt(b.String())
		if err != nil {
			return c, fmt.Errorf("gofmt: %v", err)
		}
		c.Files = append(c.Files, File{Name: name, Content: src})
		g.mark("decoy:_test.go")
		if isArmed {
			g.mark("decoy:_test.go-armed")
			if switchOn(swGoDecoys) {
				ev.Prune(swGoDecoys)
				c.GoOmit = append(c.GoOmit, name)
			}
		}
	}
	if vgen.Range(t, "gold", 0, 2) != 0 {
		name := rapid.SampledFrom([]string{pkgDirName, "pkg", "a"}).Draw(t, "goldstem") + ".gold.v"
		var b strings.Builder
		b.WriteString("(* autogenerated from example.com/semantics *)\nFrom Perennial.goose_lang Require Import prelude.\n\n")
		isArmed := armed()
		if isArmed {
			fmt.Fprintf(&b, "func testGold%d() bool {\nfunc failing_testGold%d() bool {\n", g.id(), g.id())
			if len(g.plain) > 0 {
				fmt.Fprintf(&b, "func test%s() bool {\n", g.plain[0])
			}
		}
		b.WriteString("Definition testFoo: val :=\n  rec: \"testFoo\" <> :=\n    #true.\n")
		c.Files = append(c.Files, File{Name: name, Content: b.String()})
		g.mark("decoy:gold.v")
		if isArmed {
			g.mark("decoy:gold.v-armed")
			if switchOn(swGoDecoys) {
				ev.Prune(swGoDecoys)
				c.GoOmit = append(c.GoOmit, name)
			}
		}
	}
	nBackups := vgen.Range(t, "nbackups", 0, 2)
	for i := 0; i < nBackups; i++ {
		fi := vgen.Range(t, "bfile", 0, nFiles-1)
		name := stems[fi] + ".go~"
		content := srcOf[fi]
		if rapid.Bool().Draw(t, "bother") {
			name = rapid.SampledFrom([]string{"old.go~", "semantics.gold.v~", "x_test.go~", "notes~"}).Draw(t, "bname")
		}
		if hasFile(c.Files, name) {
			continue
		}
		if armed() {
			content += fmt.Sprintf("\nfunc testBackup%d() bool {\n\treturn true\n}\n\nfunc failing_testBackup%d() bool { return true }\n", g.id(), g.id())
			g.mark("decoy:backup-armed")
		}
		c.Files = append(c.Files, File{Name: name, Content: content})
		g.mark("decoy:backup")
	}
	nSub := vgen.Range(t, "nsub", 0, 2)
	for i := 0; i < nSub; i++ {
		d := rapid.SampledFrom([]string{"sub", "testdata", "inner", "zsub", "Asub"}).Draw(t, "subdir")
		p := d + "/x.go"
		if hasFile(c.Sub, p) {
			continue
		}
		c.Sub = append(c.Sub, File{Name: p, Content: fmt.Sprintf("package %s\n\nfunc testSub%d() bool {\n\treturn true\n}\n", strings.ToLower(d), g.id())})
		g.mark("decoy:subdir")
	}
	// a file the Go toolchain leaves out of the package on this host, with test functions of its own
	excluded := false
	if vgen.Chance(t, "buildexcluded", 20) {
		name := []string{"zz_windows.go", "aa_arm.go", "mm_tagged.go", "_under.go", ".dot.go"}[vgen.Uniform(t, "exclname", 5)]
		if !hasFile(c.Files, name) {
			content := "package " + pkgDirName + "\n"
			if name == "mm_tagged.go" {
				content = "//go:build " + []string{"slowtests", "ignore", "windows"}[vgen.Uniform(t, "excltag", 3)] + "\n\n" + content
			}
			content += fmt.Sprintf("\nfunc testExcl%d() bool {\n\treturn true\n}\n", g.id())
			if rapid.Bool().Draw(t, "exclfailing") {
				content += fmt.Sprintf("\nfunc failing_testExcl%d() bool {\n\treturn false\n}\n", g.id())
			}
			c.Files = append(c.Files, File{Name: name, Content: content})
			g.mark("build-excluded-file")
			excluded = true
		}
	}
	sort.Slice(c.Files, func(i, j int) bool { return c.Files[i].Name < c.Files[j].Name })
	// sampled by content (rapid integer draws are biased towards small values)
	c.OutFile = ev.Hash("out", key(c))%3 == 0
	c.Compile = ev.Hash(key(c))%uint64(ev.EnvInt("VERIF_C18_COMPILE_1_IN", 40)) == 0 && !excluded
	for f := range g.feat {
		c.Feat = append(c.Feat, f)
	}
	for _, k := range []string{"test", "failing", "disabled", "helper", "method", "generic", "loose"} {
		if g.counts[k] > 0 {
			c.Feat = append(c.Feat, "has:"+k)
		}
	}
	sort.Strings(c.Feat)
	return c, nil
}

func hasFile(fs []File, name string) bool {
	for _, f := range fs {
		if f.Name == name {
			return true
		}
	}
	return false
}
