// Package c18: test_gen emits exactly one Go and one Coq test per test
// function (DESIGN.md §3 C18).
//
// oracle_test.go: the case type and the pure oracle (runCase). The expected
// list of tests is computed with go/parser from the files of the case; the
// outputs of `test_gen -coq` and `test_gen -go` are parsed and compared with
// it, with each other, and the generated Go file is type-checked in process
// and (sampled) compiled with `go test -c`.
package c18

import (
	"fmt"
	"go/ast"
	"go/importer"
	"go/parser"
	"go/token"
	"go/types"
	"io"
	"os"
	"path/filepath"
	"regexp"
	"sort"
	"strings"
	"sync"
	"time"

	"verifharness/ev"
	"verifharness/modgen"
)

// File is one regular file of the package directory.
type File struct {
	Name    string `json:"name"`
	Content string `json:"content"`
}

// Case is one generated package directory.
type Case struct {
	// Files are the regular files directly inside the directory (sources and
	// decoys such as x_test.go, pkg.gold.v, a.go~).
	Files []File `json:"files"`
	// Sub are files inside sub-directories (Name is "dir/file").
	Sub []File `json:"sub,omitempty"`
	// GoOmit lists entries that are moved out of the directory while
	// `test_gen -go` runs. Only the generator switch of a known finding
	// (c18GoModeDecoyFiles) fills it; it is empty otherwise.
	GoOmit []string `json:"go_omit,omitempty"`
	// Compile: also build the test binary with `go test -c` (the in-process
	// type check runs on every case).
	Compile bool `json:"compile"`
	// OutFile: also run both modes with -out FILE and compare with stdout.
	OutFile bool `json:"out_file"`
	// Feat are generator features, used for labels only.
	Feat []string `json:"feat,omitempty"`
}

const pkgDirName = "semantics"

var (
	strictRe = regexp.MustCompile(`^(failing_)?test[A-Za-z0-9]+$`)
	looseRe  = regexp.MustCompile(`^(failing_)?test`)
)

// skipped reports whether the property says a directory entry must be
// skipped by both generators.
func skipped(name string) bool {
	return strings.HasSuffix(name, "~") || strings.HasSuffix(name, ".gold.v") || strings.HasSuffix(name, "_test.go")
}

// buildExcluded reports whether the Go toolchain leaves the file out of the package on this host
// (name with an OS / architecture suffix, a leading _ or ., an unsatisfied //go:build line). The
// property defines the tests by the directory's functions and also wants the Go file to compile;
// for such a file the two clauses pull apart, so its functions are "optional": the generators
// must only AGREE on them (seeded change C18-6), and the case is never compiled with go test -c.
func buildExcluded(f File) bool {
	n := f.Name
	return strings.HasPrefix(n, "_") || strings.HasPrefix(n, ".") || strings.HasSuffix(n, "_windows.go") || strings.HasSuffix(n, "_arm.go") ||
		strings.HasPrefix(f.Content, "//go:build ")
}

type fn struct {
	File string
	Name string
}

// expected returns the functions that must have a test (in file then source
// order), the names for which a test is optional (test-prefixed names outside
// test[A-Za-z0-9]+: only agreement of the two generators is asserted), and an
// error when a source file of the case does not parse (a generator bug).
func expected(c Case) (strict []fn, optional map[string]bool, err error) {
	optional = map[string]bool{}
	files := append([]File(nil), c.Files...)
	sort.Slice(files, func(i, j int) bool { return files[i].Name < files[j].Name })
	fset := token.NewFileSet()
	for _, f := range files {
		if skipped(f.Name) || !strings.HasSuffix(f.Name, ".go") {
			continue
		}
		af, perr := parser.ParseFile(fset, f.Name, f.Content, parser.SkipObjectResolution)
		if perr != nil {
			return nil, nil, perr
		}
		for _, d := range af.Decls {
			fd, ok := d.(*ast.FuncDecl)
			if !ok || fd.Recv != nil {
				continue
			}
			switch n := fd.Name.Name; {
			case strictRe.MatchString(n) && buildExcluded(f):
				optional[n] = true
			case strictRe.MatchString(n):
				strict = append(strict, fn{f.Name, n})
			case looseRe.MatchString(n):
				optional[n] = true
			}
		}
	}
	return strict, optional, nil
}

// ---- parsing the generated files ---------------------------------------

type coqTest struct {
	Heading string
	Fail    bool
	ExName  string
	Callee  string
}

var (
	coqExRe      = regexp.MustCompile(`^(Fail )?Example (\S+) : (\S+) #\(\) ~~> #true := t\.$`)
	coqHeadingRe = regexp.MustCompile(`^\(\* (.+) \*\)$`)
)

func parseCoq(out string, entries map[string]bool) (tests []coqTest, bad string) {
	heading := ""
	for i, line := range strings.Split(out, "\n") {
		if m := coqHeadingRe.FindStringSubmatch(line); m != nil && entries[m[1]] {
			heading = m[1]
			continue
		}
		if !strings.Contains(line, "Example") {
			continue
		}
		m := coqExRe.FindStringSubmatch(line)
		if m == nil {
			return nil, fmt.Sprintf("line %d of the Coq file mentions Example but is not a well-formed test: %q", i+1, line)
		}
		tests = append(tests, coqTest{Heading: heading, Fail: m[1] != "", ExName: m[2], Callee: m[3]})
	}
	return tests, ""
}

type goTest struct {
	Method string
	Callee string
}

// parseGo extracts the Test… methods of the generated suite and the package
// function each one calls (the only call of a bare identifier in its body).
func parseGo(src string) (tests []goTest, bad string) {
	fset := token.NewFileSet()
	af, err := parser.ParseFile(fset, "generated_test.go", src, parser.SkipObjectResolution)
	if err != nil {
		return nil, "the generated Go file does not parse: " + err.Error()
	}
	for _, d := range af.Decls {
		fd, ok := d.(*ast.FuncDecl)
		if !ok || fd.Recv == nil || !strings.HasPrefix(fd.Name.Name, "Test") || fd.Body == nil {
			continue
		}
		var callees []string
		ast.Inspect(fd.Body, func(n ast.Node) bool {
			if ce, ok := n.(*ast.CallExpr); ok {
				if id, ok := ce.Fun.(*ast.Ident); ok {
					callees = append(callees, id.Name)
				}
			}
			return true
		})
		if len(callees) != 1 {
			return nil, fmt.Sprintf("generated method %s calls %d package-level functions %v, want exactly 1", fd.Name.Name, len(callees), callees)
		}
		tests = append(tests, goTest{Method: fd.Name.Name, Callee: callees[0]})
	}
	return tests, ""
}

// ---- per-process environment --------------------------------------------

var (
	envOnce   sync.Once
	envErr    string
	modRoot   string
	testGen   string
	exports   map[string]string
	exportErr string
)

func setup() string {
	envOnce.Do(func() {
		var ok bool
		testGen, ok = modgen.Bin("test_gen")
		if !ok {
			envErr = "test_gen binary not available ($VERIF_BIN)"
			return
		}
		modRoot = filepath.Join(ev.Scratch(), "c18mod")
		if err := modgen.Write(modRoot, modgen.Module{Path: "example.com/c18", Goose: true, Testify: true}); err != nil {
			envErr = "cannot write the temporary module: " + err.Error()
			return
		}
		// export data of the packages the generated file imports, for the
		// in-process type check
		r := modgen.Run(modRoot, 10*time.Minute, nil, "go", "list", "-export", "-deps",
			"-f", "{{if .Export}}{{.ImportPath}}\t{{.Export}}{{end}}",
			"testing", "github.com/stretchr/testify/suite", modgen.GoosePath+"/machine/disk")
		if r.Err != nil || r.Exit != 0 {
			exportErr = "go list -export failed: " + firstLine(r.Stderr)
			return
		}
		exports = map[string]string{}
		for _, l := range strings.Split(r.Stdout, "\n") {
			if i := strings.IndexByte(l, '\t'); i > 0 {
				exports[l[:i]] = l[i+1:]
			}
		}
	})
	return envErr
}

func firstLine(s string) string {
	s = strings.TrimSpace(s)
	if i := strings.IndexByte(s, '\n'); i >= 0 {
		s = s[:i]
	}
	if len(s) > 300 {
		s = s[:300]
	}
	return s
}

// typeCheck type-checks the Go files of the directory (plus extra) with
// go/types against the export data of the real dependencies. It returns the
// first error, or "" when the files type-check.
func typeCheck(c Case, extra *File) string {
	fset := token.NewFileSet()
	byPkg := map[string][]*ast.File{}
	add := func(f File) string {
		af, err := parser.ParseFile(fset, f.Name, f.Content, parser.SkipObjectResolution)
		if err != nil {
			return err.Error()
		}
		byPkg[af.Name.Name] = append(byPkg[af.Name.Name], af)
		return ""
	}
	for _, f := range c.Files {
		if strings.HasSuffix(f.Name, ".go") {
			if e := add(f); e != "" {
				return e
			}
		}
	}
	if extra != nil {
		if e := add(*extra); e != "" {
			return e
		}
	}
	imp := depImporter()
	// the package itself (with its in-package tests), then external tests
	var names []string
	for n := range byPkg {
		names = append(names, n)
	}
	sort.Strings(names)
	for _, n := range names {
		if n != pkgDirName {
			continue // external test packages import the package by path; not needed for the generated file
		}
		var first error
		conf := types.Config{Importer: imp, Error: func(err error) {
			if first == nil {
				first = err
			}
		}}
		conf.Check("example.com/c18/"+pkgDirName, fset, byPkg[n], nil)
		if first != nil {
			return first.Error()
		}
	}
	return ""
}

// depImporter returns the process-wide importer for the dependencies of the
// generated file; imported packages are cached (their positions are never
// used), so the export data is read once per process.
var (
	depImpOnce sync.Once
	depImp     types.Importer
)

type cachingImporter struct {
	base  types.Importer
	cache map[string]*types.Package
}

func (c *cachingImporter) Import(path string) (*types.Package, error) {
	if p, ok := c.cache[path]; ok {
		return p, nil
	}
	p, err := c.base.Import(path)
	if err == nil {
		c.cache[path] = p
	}
	return p, err
}

func depImporter() types.Importer {
	depImpOnce.Do(func() {
		base := importer.ForCompiler(token.NewFileSet(), "gc", func(path string) (io.ReadCloser, error) {
			p, ok := exports[path]
			if !ok {
				return nil, fmt.Errorf("no export data for %s", path)
			}
			return os.Open(p)
		})
		depImp = &cachingImporter{base: base, cache: map[string]*types.Package{}}
	})
	return depImp
}

var compileDiagRe = regexp.MustCompile(`(?m)^(?:\./)?` + pkgDirName + `/[^:\s]+:\d+(?::\d+)?: `)

// goTestCompile runs `go test -c` on the package directory. ok=true: built;
// diag != "": the compiler rejected it; otherwise infra trouble (inconc).
func goTestCompile() (ok bool, diag string, inconc string) {
	out := filepath.Join(ev.Scratch(), "c18.test")
	r := modgen.Run(modRoot, 10*time.Minute, nil, "go", "test", "-c", "-vet=off", "-o", out, "./"+pkgDirName)
	os.Remove(out)
	if r.Err != nil || r.TimedOut {
		return false, "", "go test -c did not finish"
	}
	if r.Exit == 0 {
		return true, "", ""
	}
	if compileDiagRe.MatchString(r.Stderr) || compileDiagRe.MatchString(r.Stdout) {
		return false, strings.TrimSpace(r.Stdout + r.Stderr), ""
	}
	return false, "", "go test -c failed without a compiler diagnostic: " + firstLine(r.Stderr)
}

func writeDir(dir string, c Case) error {
	if err := os.RemoveAll(dir); err != nil {
		return err
	}
	if err := os.MkdirAll(dir, 0o755); err != nil {
		return err
	}
	for _, f := range c.Files {
		if strings.ContainsAny(f.Name, "/\\") || f.Name == "" {
			return fmt.Errorf("bad file name %q", f.Name)
		}
		if err := os.WriteFile(filepath.Join(dir, f.Name), []byte(f.Content), 0o644); err != nil {
			return err
		}
	}
	for _, f := range c.Sub {
		p := filepath.Join(dir, filepath.FromSlash(f.Name))
		if err := os.MkdirAll(filepath.Dir(p), 0o755); err != nil {
			return err
		}
		if err := os.WriteFile(p, []byte(f.Content), 0o644); err != nil {
			return err
		}
	}
	return nil
}

// runGen runs test_gen in one mode (with withOut a second time with -out FILE) and returns
// the output. msg is a property violation, inconc infrastructure trouble.
func runGen(mode, dir string, withOut bool) (out, msg, inconc string) {
	r := modgen.Run(modRoot, 2*time.Minute, nil, testGen, mode, dir)
	if r.Err != nil || r.TimedOut {
		return "", "", "test_gen did not run: " + fmt.Sprint(r.Err)
	}
	if r.Exit != 0 {
		return "", fmt.Sprintf("test_gen %s exited with status %d: %s", mode, r.Exit, firstLine(r.Stderr)), ""
	}
	if !withOut {
		return r.Stdout, "", ""
	}
	outFile := filepath.Join(ev.Scratch(), "c18.out")
	os.Remove(outFile)
	// prior state of the output file (regeneration into an existing file must replace it
	// completely): absent, empty, the new text plus a stale tail, a shorter text, identical
	switch ev.Hash("prior", mode, r.Stdout) % 5 {
	case 1:
		os.WriteFile(outFile, nil, 0o644)
		ev.Label("out-prior:empty")
	case 2:
		os.WriteFile(outFile, []byte(r.Stdout+"func (suite *GoTestSuite) TestStale() {}\n(* stale *)\n"), 0o644)
		ev.Label("out-prior:longer")
	case 3:
		os.WriteFile(outFile, []byte("stale\n"), 0o644)
		ev.Label("out-prior:shorter")
	case 4:
		os.WriteFile(outFile, []byte(r.Stdout), 0o644)
		ev.Label("out-prior:identical")
	default:
		ev.Label("out-prior:absent")
	}
	r2 := modgen.Run(modRoot, 2*time.Minute, nil, testGen, mode, "-out", outFile, dir)
	if r2.Err != nil || r2.TimedOut {
		return "", "", "test_gen did not run: " + fmt.Sprint(r2.Err)
	}
	b, err := os.ReadFile(outFile)
	os.Remove(outFile)
	if r2.Exit != 0 || err != nil {
		return "", fmt.Sprintf("test_gen %s -out FILE exited with status %d (file readable: %v): %s", mode, r2.Exit, err == nil, firstLine(r2.Stderr)), ""
	}
	if string(b) != r.Stdout {
		return "", fmt.Sprintf("test_gen %s: -out FILE and stdout differ (%d vs %d bytes)", mode, len(b), len(r.Stdout)), ""
	}
	if r2.Stdout != "" {
		return "", fmt.Sprintf("test_gen %s -out FILE also wrote %d bytes to stdout", mode, len(r2.Stdout)), ""
	}
	return r.Stdout, "", ""
}

func names(fs []fn) []string {
	var out []string
	for _, f := range fs {
		out = append(out, f.Name)
	}
	return out
}

// runCase returns msg != "" when the property fails on c, inconc != "" when
// the case could not be decided.
func runCase(c Case) (msg, inconc string) {
	if e := setup(); e != "" {
		return "", e
	}
	want, optional, err := expected(c)
	if err != nil {
		return "", "generator produced a file that does not parse: " + err.Error()
	}
	wantSet := map[string]string{}
	for _, w := range want {
		wantSet[w.Name] = w.File
	}
	dir := filepath.Join(modRoot, pkgDirName)
	if err := writeDir(dir, c); err != nil {
		return "", "cannot write the package directory: " + err.Error()
	}
	defer os.RemoveAll(dir)
	entries := map[string]bool{}
	for _, f := range c.Files {
		entries[f.Name] = true
	}
	for _, f := range c.Sub {
		entries[strings.SplitN(f.Name, "/", 2)[0]] = true
	}

	// ---- Coq ----
	coqOut, m, ic := runGen("-coq", dir, c.OutFile)
	if m != "" || ic != "" {
		return m, ic
	}
	coqTests, bad := parseCoq(coqOut, entries)
	if bad != "" {
		return bad, ""
	}
	var coqStrict []string
	coqAll := map[string]bool{}
	for _, ct := range coqTests {
		coqAll[ct.Callee] = true
		file, isStrict := wantSet[ct.Callee]
		switch {
		case isStrict:
			coqStrict = append(coqStrict, ct.Callee)
			if ct.Heading != file {
				return fmt.Sprintf("Coq test for %s (defined in %s) is listed under heading %q", ct.Callee, file, ct.Heading), ""
			}
		case optional[ct.Callee]:
		default:
			return fmt.Sprintf("Coq file has a test for %q, which is not a top-level test function of the package (expected tests: %v)", ct.Callee, names(want)), ""
		}
		isFailing := strings.HasPrefix(ct.Callee, "failing_")
		if ct.Fail != isFailing {
			return fmt.Sprintf("Coq test for %s: marked as expected failure = %v, want %v", ct.Callee, ct.Fail, isFailing), ""
		}
		if !strings.Contains(ct.ExName, strings.TrimPrefix(ct.Callee, "failing_")) {
			return fmt.Sprintf("Coq test for %s is named %q, which does not mention the function", ct.Callee, ct.ExName), ""
		}
	}
	if fmt.Sprint(coqStrict) != fmt.Sprint(names(want)) {
		return fmt.Sprintf("Coq tests (in order) = %v, want exactly one per test function in source order = %v", coqStrict, names(want)), ""
	}

	// ---- Go ----
	var moved []string
	hold := filepath.Join(ev.Scratch(), "c18hold")
	if len(c.GoOmit) > 0 {
		os.RemoveAll(hold)
		if err := os.MkdirAll(hold, 0o755); err != nil {
			return "", "mkdir: " + err.Error()
		}
		for _, n := range c.GoOmit {
			if !entries[n] || strings.ContainsAny(n, "/\\") {
				continue
			}
			if err := os.Rename(filepath.Join(dir, n), filepath.Join(hold, n)); err != nil {
				return "", "rename: " + err.Error()
			}
			moved = append(moved, n)
		}
	}
	goOut, m, ic := runGen("-go", dir, c.OutFile)
	for _, n := range moved {
		if err := os.Rename(filepath.Join(hold, n), filepath.Join(dir, n)); err != nil {
			return "", "rename back: " + err.Error()
		}
	}
	if len(c.GoOmit) > 0 {
		os.RemoveAll(hold)
	}
	if m != "" || ic != "" {
		return m, ic
	}
	goTests, bad := parseGo(goOut)
	if bad != "" {
		return bad, ""
	}
	var goStrict []string
	goAll := map[string]bool{}
	for _, gt := range goTests {
		goAll[gt.Callee] = true
		_, isStrict := wantSet[gt.Callee]
		switch {
		case isStrict:
			goStrict = append(goStrict, gt.Callee)
		case optional[gt.Callee]:
		default:
			return fmt.Sprintf("Go file has a test (%s) calling %q, which is not a top-level test function of the package (expected tests: %v)", gt.Method, gt.Callee, names(want)), ""
		}
	}
	if fmt.Sprint(goStrict) != fmt.Sprint(names(want)) {
		return fmt.Sprintf("Go tests (in order) call %v, want exactly one per test function in source order = %v", goStrict, names(want)), ""
	}

	// ---- agreement ----
	for n := range coqAll {
		if !goAll[n] {
			return fmt.Sprintf("generators disagree: %s has a Coq test but no Go test", n), ""
		}
	}
	for n := range goAll {
		if !coqAll[n] {
			return fmt.Sprintf("generators disagree: %s has a Go test but no Coq test", n), ""
		}
	}

	// ---- the generated Go file compiles against the package ----
	gen := File{Name: "generated_test.go", Content: goOut}
	tcFail := ""
	if exports != nil {
		if e := typeCheck(c, nil); e != "" {
			return "", "generator produced a package that does not type-check: " + e
		}
		tcFail = typeCheck(c, &gen)
	} else if exportErr != "" {
		ev.Inconclusive("in-process type check unavailable: " + exportErr)
	}
	if tcFail == "" && !c.Compile {
		return "", ""
	}
	if err := os.WriteFile(filepath.Join(dir, gen.Name), []byte(goOut), 0o644); err != nil {
		return "", "write: " + err.Error()
	}
	ev.Add("go_test_c_runs", 1)
	ok, diag, ic := goTestCompile()
	if ic != "" {
		return "", ic
	}
	if ok {
		if tcFail != "" {
			return "", "go/types rejected the generated file but the compiler accepted it: " + tcFail
		}
		return "", ""
	}
	// the compiler rejected package + generated file: make sure the package
	// alone is fine (otherwise the generator is at fault)
	os.Remove(filepath.Join(dir, gen.Name))
	if ok2, _, ic2 := goTestCompile(); !ok2 {
		if ic2 == "" {
			ic2 = "generator produced a package that does not compile"
		}
		return "", ic2
	}
	lines := strings.Split(diag, "\n")
	if len(lines) > 6 {
		lines = lines[:6]
	}
	return "the generated Go test file does not compile against the package: " + strings.Join(lines, " | "), ""
}
