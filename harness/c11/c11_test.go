// Package c11: FileDisk contents persist across Close/reopen for every prior
// image length, and failed fsync/pwrite64/pread64/ftruncate calls are never
// reported as success (DESIGN.md §3 C11).
//
// Two parts:
//
//	TestReopen  in-process histories: prior image × (open(size); steps; close)*, against RegDisk
//	TestFaults  the same kind of script run in a child (cmd/diskchild) under strace with one
//	            injected system-call failure; every (syscall, occurrence) of the script is tried
package c11

import (
	"encoding/json"
	"fmt"
	"os"
	"path/filepath"
	"regexp"
	"strconv"
	"strings"
	"testing"
	"time"

	"github.com/goose-lang/goose/machine/disk"
	"pgregory.net/rapid"

	"verifharness/cmd/diskchild/work"
	"verifharness/ev"
	"verifharness/inject"
	"verifharness/models"
)

func TestMain(m *testing.M) {
	ev.Meta("fault_enumeration",
		"reopen part: cases = (prior state of the backing path: absent or a file of length 0 / 1 / numBlocks bytes / partial block / k*4096±d / exact / larger with non-zero content; 1-4 sessions NewFileDisk(size) + Write/Read/ReadTo/Barrier/Size steps + Close, sizes equal/smaller/larger/0/\"file length taken as block count\"); "+
			"non-trivial = a non-empty prior image, or a reopen with a different size after at least one write; distinct by hash of the case. "+
			"fault part: cases = (prior image, script, syscall in {pwrite64,pread64,fsync,fdatasync,ftruncate}, occurrence, errno), every occurrence found by a dry-run strace of the script is injected once (exhaustive per script); "+
			"non-trivial = the injected failure hit a system call issued inside an API call of the script; distinct by hash of (script, syscall, occurrence, errno)",
		"RegDisk (harness/models/regdisk.go) over a flat byte image is the specification",
		"strace error injection (the call is not executed and returns -1/errno) stands for a failing device",
		"Barrier is required to issue fsync or fdatasync (durability itself is not observable: the page cache survives)",
		"after a failed Write the target block may hold either the old or the new value",
		"NewFileDisk failing without an injected fault, and panics of un-injected valid calls, are treated as infrastructure (inconclusive)",
		"short reads/writes without an error (retval injection) are not part of the quantifier and not injected")
	ev.Main(m, "C11")
}

const bs = models.DiskBlockSize

// switchL1 excludes the known finding "NewFileDisk compares the file length
// in bytes with numBlocks" (DESIGN.md §4 L1): opening an existing regular file
// whose length in bytes equals the requested number of blocks (> 0).
const switchL1 = "noImageLengthEqualsNumBlocks"

var l1On = ev.SwitchOn(switchL1)

func catch(f func()) (panicked bool, val any) {
	defer func() {
		if r := recover(); r != nil {
			panicked = true
			val = r
		}
	}()
	f()
	return false, nil
}

func diff(got, want []byte) string {
	if len(got) != len(want) {
		return fmt.Sprintf("length %d, want %d", len(got), len(want))
	}
	for i := range got {
		if got[i] != want[i] {
			n := 0
			for j := range got {
				if got[j] != want[j] {
					n++
				}
			}
			return fmt.Sprintf("first difference at byte %d: got %#02x want %#02x (%d bytes differ)", i, got[i], want[i], n)
		}
	}
	return ""
}

// ---- part 1: reopen histories -------------------------------------------

// ReopenCase is a prior image plus a script.
type ReopenCase struct {
	PriorLen int         `json:"prior_len"` // -1: the path does not exist
	PriorTag uint64      `json:"prior_tag"`
	Script   work.Script `json:"script"`
	// Witness w > 0: together with session w-1 a second FileDisk is opened on the same path (same
	// size) and stays open until the script is over; it is never written through.
	// Replace[k] (k >= 1), before session k: 1 = the file is removed (the open creates a new one),
	// 2 = another image of ReplaceLen bytes is renamed over it. "Reopening the same backing file"
	// means the file at that path (seeded change C11-8: descriptors cached by path name).
	Witness    int   `json:"witness,omitempty"`
	Replace    []int `json:"replace,omitempty"`
	ReplaceLen int   `json:"replace_len,omitempty"`
}

func priorImage(n int, tag uint64) []byte {
	b := models.MakeBlock(n, tag, 0)
	for i := range b { // every byte non-zero: a retained byte is never mistaken for a zero-filled one
		if b[i] == 0 {
			b[i] = 0x77
		}
	}
	return b
}

var fileCounter int

func scratchFile(prefix string) string {
	fileCounter++
	return filepath.Join(ev.Scratch(), fmt.Sprintf("%s-%d", prefix, fileCounter))
}

func setupImage(path string, priorLen int, tag uint64) ([]byte, error) {
	os.Remove(path)
	if priorLen < 0 {
		return nil, nil
	}
	img := priorImage(priorLen, tag)
	if err := os.WriteFile(path, img, 0o644); err != nil {
		return nil, err
	}
	return img, nil
}

func scanAddrs(size uint64, prevLen int) []uint64 {
	if size <= 64 {
		out := make([]uint64, size)
		for i := range out {
			out[i] = uint64(i)
		}
		return out
	}
	seen := map[uint64]bool{}
	var out []uint64
	add := func(a uint64) {
		if a < size && !seen[a] {
			seen[a] = true
			out = append(out, a)
		}
	}
	pb := uint64(0)
	if prevLen > 0 {
		pb = uint64(prevLen) / bs
	}
	for _, a := range []uint64{0, 1, 2, 3, pb - 2, pb - 1, pb, pb + 1, pb + 2, size / 2, size - 3, size - 2, size - 1} {
		add(a)
	}
	return out
}

func runReopen(c ReopenCase) (msg, infra string) {
	path := scratchFile("c11-img")
	defer os.Remove(path)
	img, err := setupImage(path, c.PriorLen, c.PriorTag)
	if err != nil {
		return "", "cannot create prior image: " + err.Error()
	}
	exists := c.PriorLen >= 0
	describe := func(k int) string {
		if !exists {
			return fmt.Sprintf("open #%d of an absent path", k)
		}
		return fmt.Sprintf("open #%d of an existing image of %d bytes", k, len(img))
	}
	var witness *disk.FileDisk
	defer func() {
		if witness != nil {
			catch(func() { witness.Close() })
		}
	}()
	for k, o := range c.Script.Opens {
		if k > 0 && k < len(c.Replace) && c.Replace[k] != 0 {
			if c.Replace[k] == 1 {
				if err := os.Remove(path); err != nil {
					return "", "remove: " + err.Error()
				}
				img, exists = nil, false
			} else {
				img = priorImage(c.ReplaceLen, c.PriorTag+uint64(k))
				tmp := path + ".new"
				if err := os.WriteFile(tmp, img, 0o644); err != nil {
					return "", "write replacement: " + err.Error()
				}
				if err := os.Rename(tmp, path); err != nil {
					os.Remove(tmp)
					return "", "rename: " + err.Error()
				}
			}
		}
		where := describe(k)
		d, err := disk.NewFileDisk(path, o.Size)
		if err != nil {
			return "", "NewFileDisk failed: " + err.Error()
		}
		if c.Witness == k+1 {
			w, err := disk.NewFileDisk(path, o.Size)
			if err != nil {
				catch(func() { d.Close() })
				return "", "NewFileDisk (second handle) failed: " + err.Error()
			}
			witness = &w
		}
		model := models.NewRegDiskImage(img, o.Size)
		closed := false
		closeIt := func() {
			if !closed {
				closed = true
				catch(func() { d.Close() })
			}
		}
		fail := func(format string, a ...any) (string, string) {
			closeIt()
			return fmt.Sprintf(format, a...), ""
		}
		var n uint64
		if p, v := catch(func() { n = d.Size() }); p || n != o.Size {
			return fail("%s as %d blocks: Size() = %d (panic %v)", where, o.Size, n, v)
		}
		fi, err := os.Stat(path)
		if err != nil {
			if os.IsNotExist(err) {
				return fail("%s as %d blocks: NewFileDisk succeeded, yet there is no file at the path", where, o.Size)
			}
			closeIt()
			return "", "stat: " + err.Error()
		}
		if fi.Size() != int64(o.Size*bs) {
			return fail("%s as %d blocks: backing file is %d bytes long after the open, want %d", where, o.Size, fi.Size(), o.Size*bs)
		}
		junk := make([]byte, bs)
		readBoth := func(a uint64, what string) string {
			var got disk.Block
			if p, v := catch(func() { got = d.Read(a) }); p {
				return fmt.Sprintf("%s as %d blocks: %s Read(%d) panicked: %v", where, o.Size, what, a, v)
			}
			if df := diff(got, model.Peek(a)); df != "" {
				return fmt.Sprintf("%s as %d blocks: %s Read(%d) differs from the model (retained image bytes, zero-padded): %s", where, o.Size, what, a, df)
			}
			models.FillBlock(junk, ^a, 0)
			if p, v := catch(func() { d.ReadTo(a, junk) }); p {
				return fmt.Sprintf("%s as %d blocks: %s ReadTo(%d) panicked: %v", where, o.Size, what, a, v)
			}
			if df := diff(junk, model.Peek(a)); df != "" {
				return fmt.Sprintf("%s as %d blocks: %s ReadTo(%d) into a junk-filled buffer differs from the model (retained image bytes, zero-padded): %s", where, o.Size, what, a, df)
			}
			return ""
		}
		for _, a := range scanAddrs(o.Size, len(img)) {
			if m := readBoth(a, "scan after open:"); m != "" {
				return fail("%s", m)
			}
		}
		for j, st := range o.Steps {
			switch st.Op {
			case "write":
				b := models.MakeBlock(bs, st.Tag, st.Pat)
				if p, v := catch(func() { d.Write(st.Addr, b) }); p {
					return fail("%s as %d blocks: step %d Write(%d) panicked: %v", where, o.Size, j, st.Addr, v)
				}
				model.Write(st.Addr, b)
			case "read", "readto":
				if m := readBoth(st.Addr, fmt.Sprintf("step %d", j)); m != "" {
					return fail("%s", m)
				}
			case "barrier":
				if p, v := catch(func() { d.Barrier() }); p {
					return fail("%s as %d blocks: step %d Barrier panicked: %v", where, o.Size, j, v)
				}
			case "size":
				if p, v := catch(func() { n = d.Size() }); p || n != o.Size {
					return fail("%s as %d blocks: step %d Size() = %d (panic %v)", where, o.Size, j, n, v)
				}
			}
		}
		closeIt()
		img = model.Image()
		exists = true
	}
	if len(c.Script.Opens) > 0 {
		raw, err := os.ReadFile(path)
		if err != nil {
			return "", "read back: " + err.Error()
		}
		if df := diff(raw, img); df != "" {
			return fmt.Sprintf("backing file after the last Close differs from the model image: %s", df), ""
		}
	}
	return "", ""
}

var priorClasses = []string{"absent", "empty", "1-byte", "numBlocks-bytes", "partial-block", "aligned-minus", "aligned-plus", "exact", "larger", "one-block-short"}

// genPrior draws the prior image length relative to the size of the first open.
func genPrior(t *rapid.T, size uint64) (n int, class string) {
	class = rapid.SampledFrom(priorClasses).Draw(t, "prior")
	switch class {
	case "absent":
		return -1, class
	case "empty":
		return 0, class
	case "1-byte":
		n = 1
	case "numBlocks-bytes":
		n = int(size)
	case "partial-block":
		n = rapid.IntRange(2, bs-1).Draw(t, "partial")
	case "aligned-minus":
		n = rapid.IntRange(1, 6).Draw(t, "k")*bs - rapid.IntRange(1, 17).Draw(t, "d")
	case "aligned-plus":
		n = rapid.IntRange(1, 6).Draw(t, "k")*bs + rapid.IntRange(1, 17).Draw(t, "d")
	case "exact":
		n = int(size) * bs
	case "larger":
		n = int(size)*bs + rapid.IntRange(1, 3*bs).Draw(t, "extra")
	case "one-block-short":
		if size == 0 {
			n = 0
		} else {
			n = int(size-1) * bs
		}
	}
	if l1On && size > 0 && uint64(n) == size {
		ev.Prune(switchL1)
		n++
		class = "numBlocks-bytes+1 (redirected)"
	}
	return n, class
}

func genSteps(t *rapid.T, size uint64, lo, hi int, moreBarriers bool) []work.Step {
	n := rapid.IntRange(lo, hi).Draw(t, "nsteps")
	var steps []work.Step
	var written []uint64
	for i := 0; i < n; i++ {
		var st work.Step
		k := rapid.IntRange(0, 9).Draw(t, "op")
		if moreBarriers && k == 9 && rapid.Bool().Draw(t, "b2") {
			k = 8
		}
		if moreBarriers && k == 3 {
			k = 8
		}
		if size == 0 {
			if k < 5 {
				k = 8
			} else {
				k = 9
			}
		}
		switch {
		case k <= 3:
			st.Op = "write"
		case k <= 5:
			st.Op = "read"
		case k <= 7:
			st.Op = "readto"
		case k == 8:
			st.Op = "barrier"
		default:
			st.Op = "size"
		}
		if st.Op == "write" || st.Op == "read" || st.Op == "readto" {
			switch ak := rapid.IntRange(0, 5).Draw(t, "akind"); {
			case ak == 0:
				st.Addr = size - 1
			case ak <= 2 && len(written) > 0 && st.Op != "write":
				st.Addr = written[rapid.IntRange(0, len(written)-1).Draw(t, "widx")]
			default:
				hi := size - 1
				if hi > 15 && rapid.Bool().Draw(t, "low") {
					hi = 15
				}
				st.Addr = rapid.Uint64Range(0, hi).Draw(t, "addr")
			}
		}
		if st.Op == "write" {
			st.Tag = rapid.Uint64Range(1, 1<<40).Draw(t, "tag")
			if rapid.IntRange(0, 3).Draw(t, "patkind") == 0 {
				st.Pat = rapid.IntRange(0, models.NumBlockPatterns-1).Draw(t, "pat")
			}
			written = append(written, st.Addr)
		}
		steps = append(steps, st)
	}
	return steps
}

// genSize draws the size of a reopen given the current file length in bytes.
func genSize(t *rapid.T, fileLen int, prev uint64) (size uint64, class string) {
	k := rapid.IntRange(0, 11).Draw(t, "sizekind")
	switch {
	case k <= 2:
		size, class = prev, "equal"
	case k <= 4 && prev > 0:
		size, class = rapid.Uint64Range(0, prev-1).Draw(t, "smaller"), "smaller"
	case k <= 7:
		size, class = prev+rapid.Uint64Range(1, 6).Draw(t, "grow"), "larger"
	case k == 8:
		size, class = 0, "zero"
	case k == 9 && fileLen >= 1 && fileLen <= 2*bs:
		size, class = uint64(fileLen), "file-length-as-block-count"
	default:
		size, class = rapid.Uint64Range(0, 12).Draw(t, "any"), "any"
	}
	if l1On && size > 0 && fileLen >= 0 && uint64(fileLen) == size {
		ev.Prune(switchL1)
		size++
		class += " (redirected)"
	}
	return size, class
}

type reopenGen struct {
	c       ReopenCase
	classes []string
}

func genReopen(t *rapid.T) reopenGen {
	var g reopenGen
	nOpens := rapid.IntRange(1, 4).Draw(t, "nopens")
	first := uint64(rapid.IntRange(0, 12).Draw(t, "size0"))
	if rapid.IntRange(0, 3).Draw(t, "tiny") == 0 {
		first = uint64(rapid.IntRange(0, 2).Draw(t, "size0s"))
	}
	var pc string
	g.c.PriorLen, pc = genPrior(t, first)
	g.c.PriorTag = rapid.Uint64Range(1, 1<<40).Draw(t, "ptag")
	g.classes = append(g.classes, "prior="+pc)
	fileLen := g.c.PriorLen
	size := first
	for k := 0; k < nOpens; k++ {
		if k > 0 {
			if rapid.IntRange(0, 5).Draw(t, "replace") == 0 {
				for len(g.c.Replace) <= k {
					g.c.Replace = append(g.c.Replace, 0)
				}
				g.c.Replace[k] = rapid.IntRange(1, 2).Draw(t, "replaceHow")
				if g.c.Replace[k] == 1 {
					fileLen = 0
					g.classes = append(g.classes, "file removed between sessions")
				} else {
					if g.c.ReplaceLen == 0 {
						g.c.ReplaceLen = rapid.IntRange(1, 6*bs).Draw(t, "replaceLen")
					}
					fileLen = g.c.ReplaceLen
					g.classes = append(g.classes, "file replaced by rename between sessions")
				}
			}
			var sc string
			size, sc = genSize(t, fileLen, size)
			g.classes = append(g.classes, "reopen-size="+sc)
		}
		g.c.Script.Opens = append(g.c.Script.Opens, work.Open{Size: size, Steps: genSteps(t, size, 0, 10, false)})
		fileLen = int(size) * bs
	}
	if rapid.IntRange(0, 3).Draw(t, "witness") == 0 {
		g.c.Witness = rapid.IntRange(1, nOpens).Draw(t, "witnessAt")
		g.classes = append(g.classes, "second handle on the path kept open")
		across := false
		for k, r := range g.c.Replace {
			across = across || (r != 0 && k >= g.c.Witness)
		}
		if across {
			g.classes = append(g.classes, "second handle kept open across a replacement of the file")
		}
	}
	return g
}

func reopenNonTrivial(c ReopenCase) bool {
	if c.PriorLen > 0 {
		return true
	}
	writes := 0
	for k, o := range c.Script.Opens {
		if k > 0 && writes > 0 && o.Size != c.Script.Opens[k-1].Size {
			return true
		}
		for _, st := range o.Steps {
			if st.Op == "write" {
				writes++
			}
		}
	}
	return false
}

func validScript(s work.Script, maxSize uint64) error {
	for k, o := range s.Opens {
		if o.Size > maxSize {
			return fmt.Errorf("open %d: size too large", k)
		}
		for j, st := range o.Steps {
			switch st.Op {
			case "write", "read", "readto":
				if st.Addr >= o.Size {
					return fmt.Errorf("open %d step %d: address out of range (only valid calls are scripted)", k, j)
				}
			case "barrier", "size":
			default:
				return fmt.Errorf("open %d step %d: unknown op", k, j)
			}
		}
	}
	return nil
}

func checkReopen(t ev.TB, c ReopenCase, classes []string) {
	ev.Eval()
	for _, cl := range classes {
		ev.Label(cl)
	}
	if reopenNonTrivial(c) {
		ev.Label("reopen:non-trivial")
		b, _ := json.Marshal(c)
		ev.NonTrivial(string(b))
		ev.Sample(c)
	}
	msg, infra := runReopen(c)
	if infra != "" {
		ev.Inconclusive(infra)
		return
	}
	if msg != "" {
		ev.Failf(t, "TestReopen", c, "%s", msg)
	}
}

func pinnedReopen(raw json.RawMessage) string {
	var c ReopenCase
	if err := json.Unmarshal(raw, &c); err != nil || validScript(c.Script, 1<<14) != nil || c.PriorLen > 1<<24 {
		ev.Inconclusive("pinned case unreadable")
		return ""
	}
	msg, _ := runReopen(c)
	return msg
}

func TestReopen(t *testing.T) {
	ev.Pinned(t, "C11", "TestReopen", pinnedReopen)
	rapid.Check(t, func(t *rapid.T) {
		g := genReopen(t)
		checkReopen(t, g.c, g.classes)
	})
}

// ---- part 2: injected failures ------------------------------------------

// FaultCase is a script run in the child with one injected failure.
// Syscall == "" is the un-injected dry run.
type FaultCase struct {
	PriorLen int         `json:"prior_len"`
	PriorTag uint64      `json:"prior_tag"`
	Script   work.Script `json:"script"`
	Syscall  string      `json:"syscall"`
	When     int         `json:"when"`
	Errno    string      `json:"errno"`
	// Persistent: the When-th call and every later call of Syscall fail (a bounded retry loop
	// must not turn repeated failure into success)
	Persistent bool `json:"persistent,omitempty"`
}

const traceSet = "openat,write,pwrite64,pread64,pwritev,preadv,pwritev2,preadv2,fsync,fdatasync,sync_file_range,syncfs,sync,ftruncate,fallocate,close"

var faultSyscalls = []string{"ftruncate", "pwrite64", "pread64", "fsync", "fdatasync"}
var errnos = []string{"EIO", "ENOSPC", "EINTR", "EBADF", "EDQUOT"}

var markerRe = regexp.MustCompile(`^1, "(B|E|P|ERR) (\d+)`)

type logEntry struct {
	status string // "", E, P, ERR
	res    string
}

type faultRun struct {
	res     *inject.Result
	per     [][]inject.Call // system calls issued inside each API call
	injAt   int             // API call the injected failure landed in (-1: none / outside)
	injSeen bool
	injCall inject.Call
	log     []logEntry
}

func childBin() string { return filepath.Join(os.Getenv("VERIF_BIN"), "diskchild") }

// execFault runs the child; infra != "" when the run could not be made.
func execFault(c FaultCase) (fr *faultRun, image string, cleanup func(), infra string) {
	dir := scratchFile("c11-fault")
	if err := os.MkdirAll(dir, 0o755); err != nil {
		return nil, "", func() {}, "mkdir: " + err.Error()
	}
	cleanup = func() { os.RemoveAll(dir) }
	image = filepath.Join(dir, "disk.img")
	if _, err := setupImage(image, c.PriorLen, c.PriorTag); err != nil {
		return nil, "", cleanup, "cannot create prior image: " + err.Error()
	}
	sb, _ := json.Marshal(c.Script)
	sf := filepath.Join(dir, "script.json")
	if err := os.WriteFile(sf, sb, 0o644); err != nil {
		return nil, "", cleanup, "write script: " + err.Error()
	}
	spec := inject.Spec{Mode: inject.Trace, Argv: []string{childBin(), "script", sf, image}, Dir: dir, TraceSet: traceSet, Timeout: 60 * time.Second}
	if c.Syscall != "" {
		spec.Mode, spec.Syscall, spec.When, spec.Errno = inject.Error, c.Syscall, c.When, c.Errno
		spec.Persistent = c.Persistent
	}
	res, err := inject.Run(spec)
	if err != nil {
		return nil, "", cleanup, "strace run failed: " + err.Error()
	}
	if res.TimedOut {
		return nil, "", cleanup, "child timed out"
	}
	if res.Exit != 0 {
		return nil, "", cleanup, fmt.Sprintf("child exited with status %d: %s", res.Exit, firstLine(res.Stderr))
	}
	ncalls := len(c.Script.Calls())
	fr = &faultRun{res: res, per: make([][]inject.Call, ncalls), injAt: -1, log: make([]logEntry, ncalls)}
	cur := -1
	for _, tc := range res.Calls {
		if tc.Name == "write" {
			if m := markerRe.FindStringSubmatch(tc.Args); m != nil {
				idx, _ := strconv.Atoi(m[2])
				if m[1] == "B" && idx < ncalls {
					cur = idx
				} else {
					cur = -1
				}
				continue
			}
		}
		if cur >= 0 {
			fr.per[cur] = append(fr.per[cur], tc)
		}
		if tc.Inject && !fr.injSeen {
			fr.injSeen = true
			fr.injAt = cur
			fr.injCall = tc
		}
	}
	for _, line := range strings.Split(res.Stdout, "\n") {
		f := strings.Fields(line)
		if len(f) < 2 {
			continue
		}
		idx, err := strconv.Atoi(f[1])
		if err != nil || idx < 0 || idx >= ncalls {
			continue
		}
		switch f[0] {
		case "E":
			fr.log[idx].status = "E"
			if len(f) > 2 {
				fr.log[idx].res = f[2]
			}
		case "P", "ERR":
			fr.log[idx].status = f[0]
		}
	}
	return fr, image, cleanup, ""
}

func firstLine(s string) string {
	s = strings.TrimSpace(s)
	if i := strings.IndexByte(s, '\n'); i >= 0 {
		s = s[:i]
	}
	if len(s) > 200 {
		s = s[:200]
	}
	return s
}

func flushed(calls []inject.Call) bool {
	for _, c := range calls {
		if (c.Name == "fsync" || c.Name == "fdatasync") && !c.Failed {
			return true
		}
	}
	return false
}

// judge decides one run (dry or injected).
func judge(c FaultCase) (msg, infra string, hitKind string) {
	msg, infra, hitKind, _ = judgeRun(c)
	return
}

func judgeRun(c FaultCase) (msg, infra string, hitKind string, run *faultRun) {
	fr, image, cleanup, infra := execFault(c)
	defer cleanup()
	run = fr
	if infra != "" {
		return "", infra, "", run
	}
	injected := c.Syscall != ""
	if injected && !fr.injSeen {
		return "", "the injection did not trigger (occurrence not reached)", "", run
	}
	if injected && fr.injAt < 0 {
		return "", "the injected failure landed outside every API call", "", run
	}
	if !injected && fr.injSeen {
		return "", "unexpected injection marker in a dry run", "", run
	}
	retried := false
	if injected {
		after := false
		for _, tc := range fr.per[fr.injAt] {
			if tc.Inject {
				after = true
				continue
			}
			if after && tc.Name == c.Syscall && !tc.Failed {
				retried = true
			}
		}
	}
	calls := c.Script.Calls()
	var img []byte
	if c.PriorLen >= 0 {
		img = priorImage(c.PriorLen, c.PriorTag)
	}
	var model *models.RegDisk
	alt := map[uint64][]byte{} // blocks whose last Write failed: the attempted value is acceptable too
	skipFinal := false
	fault := fmt.Sprintf("%s #%d failed with %s", c.Syscall, c.When, c.Errno)
walk:
	for i, call := range calls {
		le := fr.log[i]
		here := injected && i == fr.injAt
		if here {
			hitKind = call.Kind
		}
		if c.Persistent && injected && i > fr.injAt {
			// every later call of the failed system call fails too: nothing more to judge
			skipFinal = true
			break walk
		}
		if le.status == "" {
			return "", fmt.Sprintf("child log has no outcome for call %d (%s)", i, call.Kind), hitKind, run
		}
		var st work.Step
		o := c.Script.Opens[call.Open]
		if call.Step >= 0 {
			st = o.Steps[call.Step]
		}
		silent := func(api string) string {
			return fmt.Sprintf("call %d: %s returned normally although its %s (and it was not retried); trace: %s", i, api, fault, fr.injCall.Raw)
		}
		switch call.Kind {
		case "open":
			switch le.status {
			case "ERR":
				if !here {
					return "", "NewFileDisk failed without an injected fault", hitKind, run
				}
				skipFinal = true
				break walk
			case "E":
				if here && !retried {
					return silent(fmt.Sprintf("NewFileDisk(%d blocks) (nil error)", o.Size)), "", hitKind, run
				}
				model = models.NewRegDiskImage(img, o.Size)
				for a := range alt {
					if a >= o.Size {
						delete(alt, a)
					}
				}
			default:
				return "", "NewFileDisk panicked", hitKind, run
			}
		case "close":
			img = model.Image()
		case "write":
			nb := models.MakeBlock(bs, st.Tag, st.Pat)
			switch le.status {
			case "E":
				if here && !retried {
					return silent(fmt.Sprintf("Write(%d)", st.Addr)), "", hitKind, run
				}
				model.Write(st.Addr, nb)
				delete(alt, st.Addr)
			case "P":
				if !here {
					return "", "a valid Write panicked without an injected fault", hitKind, run
				}
				alt[st.Addr] = nb
			}
		case "read", "readto":
			switch le.status {
			case "E":
				if here && !retried {
					return silent(fmt.Sprintf("%s(%d)", call.Kind, st.Addr)), "", hitKind, run
				}
				want := fmt.Sprintf("%016x", models.BlockHash(model.Peek(st.Addr)))
				ok := le.res == want
				if a, has := alt[st.Addr]; has && le.res == fmt.Sprintf("%016x", models.BlockHash(a)) {
					ok = true
				}
				if !ok {
					return fmt.Sprintf("call %d: %s(%d) returned normally with a block (digest %s) that is not the last value written there (digest %s): stale or garbage data", i, call.Kind, st.Addr, le.res, want), "", hitKind, run
				}
			case "P":
				if !here {
					return "", "a valid read panicked without an injected fault", hitKind, run
				}
			}
		case "barrier":
			switch le.status {
			case "E":
				if here && !retried {
					return silent("Barrier()"), "", hitKind, run
				}
				if !flushed(fr.per[i]) {
					return fmt.Sprintf("call %d: Barrier() returned normally without a successful fsync/fdatasync (system calls it issued: %d)", i, len(fr.per[i])), "", hitKind, run
				}
			case "P":
				if !here {
					return "", "Barrier panicked without an injected fault", hitKind, run
				}
			}
		case "size":
			if le.status != "E" || le.res != strconv.FormatUint(o.Size, 10) {
				return fmt.Sprintf("call %d: Size() = %q (status %s), want %d", i, le.res, le.status, o.Size), "", hitKind, run
			}
		}
	}
	if !skipFinal && model != nil {
		raw, err := os.ReadFile(image)
		if err != nil {
			return "", "read back: " + err.Error(), hitKind, run
		}
		want := model.Image()
		if len(raw) != len(want) {
			return fmt.Sprintf("final un-injected scan: backing file is %d bytes, want %d", len(raw), len(want)), "", hitKind, run
		}
		for a := uint64(0); a < model.Size(); a++ {
			got := raw[a*bs : (a+1)*bs]
			if df := diff(got, model.Peek(a)); df != "" {
				if alv, has := alt[a]; has && diff(got, alv) == "" {
					continue
				}
				return fmt.Sprintf("final un-injected scan: block %d does not hold the last value whose Write returned normally (silently lost write): %s", a, df), "", hitKind, run
			}
		}
	}
	return "", "", hitKind, run
}

func checkFault(t ev.TB, c FaultCase) *faultRun {
	ev.Eval()
	msg, infra, hit, run := judgeRun(c)
	if c.Syscall == "" {
		ev.Label("fault:dry-run")
	} else {
		ev.Label("fault:" + c.Syscall + ":" + c.Errno)
		if c.Persistent {
			ev.Label("fault:persistent")
		}
		if hit != "" {
			ev.Label("fault-hit-in:" + hit)
		}
	}
	if infra != "" {
		ev.Inconclusive(infra)
		return nil
	}
	if c.Syscall != "" && hit != "" {
		b, _ := json.Marshal(c)
		ev.NonTrivial(string(b))
		ev.Sample(c)
	}
	if msg != "" {
		ev.Failf(t, "TestFaults", c, "%s", msg)
	}
	return run
}

func needInjector(t *testing.T) {
	if err := inject.Available(); err != nil {
		ev.Inconclusive("strace unavailable: " + firstLine(err.Error()))
		t.Fatalf("INCONCLUSIVE: fault injector unavailable: %v", err)
	}
	if _, err := os.Stat(childBin()); err != nil {
		ev.Inconclusive("child binary missing")
		t.Fatalf("INCONCLUSIVE: %s missing (VERIF_BIN not set by the driver?)", childBin())
	}
}

func genFaultBase(t *rapid.T) FaultCase {
	var c FaultCase
	nOpens := rapid.IntRange(1, 2).Draw(t, "nopens")
	size := uint64(rapid.IntRange(1, 6).Draw(t, "size0"))
	c.PriorLen, _ = genPrior(t, size)
	c.PriorTag = rapid.Uint64Range(1, 1<<40).Draw(t, "ptag")
	fileLen := c.PriorLen
	for k := 0; k < nOpens; k++ {
		if k > 0 {
			size, _ = genSize(t, fileLen, size)
		}
		c.Script.Opens = append(c.Script.Opens, work.Open{Size: size, Steps: genSteps(t, size, 2, 7, true)})
		fileLen = int(size) * bs
	}
	return c
}

func TestFaults(t *testing.T) {
	needInjector(t)
	rapid.Check(t, func(t *rapid.T) {
		base := genFaultBase(t)
		errIdx := rapid.SliceOfN(rapid.IntRange(0, len(errnos)-1), 40, 40).Draw(t, "errnos")
		persist := rapid.SliceOfN(rapid.Bool(), 40, 40).Draw(t, "persistent")
		// dry run: oracle on the un-injected script, and the occurrence counts
		fr := checkFault(t, base)
		if fr == nil {
			return
		}
		point := 0
		for _, sc := range faultSyscalls {
			n := inject.Count(fr.res.Calls, sc, "")
			for when := 1; when <= n; when++ {
				c := base
				c.Syscall, c.When, c.Errno = sc, when, errnos[errIdx[point%len(errIdx)]]
				c.Persistent = persist[point%len(persist)]
				point++
				checkFault(t, c)
			}
		}
		ev.Add("fault_scripts_enumerated_exhaustively", 1)
		ev.Add("fault_points", int64(point))
	})
}

func TestReplay(t *testing.T) {
	p := ev.ReplayPath()
	if p == "" {
		t.Skip("no replay")
	}
	r, err := ev.LoadReplay(p)
	if err != nil {
		t.Fatal(err)
	}
	switch r.Test {
	case "TestFaults":
		needInjector(t)
		var c FaultCase
		if err := json.Unmarshal(r.Case, &c); err != nil {
			t.Fatal(err)
		}
		if err := validScript(c.Script, 1<<14); err != nil {
			t.Fatal(err)
		}
		checkFault(t, c)
	case "TestShortWrites":
		var c work.ShortCase
		if err := json.Unmarshal(r.Case, &c); err != nil {
			t.Fatal(err)
		}
		checkShort(t, c)
	case "TestBigOffsets":
		if msg := pinnedBig(r.Case); msg != "" {
			var c BigCase
			_ = json.Unmarshal(r.Case, &c)
			ev.Failf(t, "TestBigOffsets", c, "%s", msg)
		}
	default:
		var c ReopenCase
		if err := json.Unmarshal(r.Case, &c); err != nil {
			t.Fatal(err)
		}
		if err := validScript(c.Script, 1<<14); err != nil {
			t.Fatal(err)
		}
		checkReopen(t, c, nil)
	}
}
