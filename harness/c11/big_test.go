package c11

// Part 3: block numbers beyond 32-bit byte offsets. A disk of more than 2^19 / 2^20 / 2^21
// blocks is a sparse backing file of more than 2 / 4 / 8 GiB; the byte offset of a block must be
// computed in 64 bits. The oracle is a sparse map (never-written blocks are zero) plus the raw
// bytes of the backing file at the 64-bit offsets. Added for seeded change C11-4.

import (
	"encoding/json"
	"fmt"
	"os"
	"testing"

	"github.com/goose-lang/goose/machine/disk"
	"pgregory.net/rapid"
	"verifharness/ev"
	"verifharness/gen"
	"verifharness/models"
)

type BigStep struct {
	Op   string `json:"op"` // write, read, reopen
	Addr uint64 `json:"addr"`
	Tag  uint64 `json:"tag"`
}

type BigCase struct {
	Size  uint64    `json:"size"`
	Steps []BigStep `json:"steps"`
}

var bigBases = []uint64{1 << 19, 1 << 20, 1 << 21, 3 << 19, 1 << 22}

func genBig(t *rapid.T) BigCase {
	var c BigCase
	top := bigBases[gen.Uniform(t, "top", len(bigBases))]
	c.Size = top + uint64(gen.Range(t, "slack", 1, 40))
	addr := func() uint64 {
		base := bigBases[gen.Uniform(t, "base", len(bigBases))]
		var a uint64
		switch gen.Uniform(t, "akind", 5) {
		case 0:
			a = uint64(gen.Range(t, "low", 0, 40)) // the blocks a wrapped offset lands on
		case 1:
			a = base + uint64(gen.Range(t, "above", 0, 40))
		case 2:
			a = base - uint64(gen.Range(t, "below", 1, 40))
		case 3:
			a = c.Size - uint64(gen.Range(t, "end", 1, 40))
		default:
			a = base/2 + uint64(gen.Range(t, "half", 0, 40))
		}
		if a >= c.Size {
			a = c.Size - 1
		}
		return a
	}
	n := gen.Range(t, "nsteps", 3, 14)
	for i := 0; i < n; i++ {
		st := BigStep{Addr: addr(), Tag: rapid.Uint64Range(1, 1<<40).Draw(t, "tag")}
		switch k := gen.Uniform(t, "op", 10); {
		case k < 5:
			st.Op = "write"
		case k < 9:
			st.Op = "read"
		default:
			st.Op = "reopen"
		}
		c.Steps = append(c.Steps, st)
	}
	return c
}

func runBig(c BigCase) (msg, infra string) {
	path := scratchFile("c11-big")
	defer os.Remove(path)
	os.Remove(path)
	d, err := disk.NewFileDisk(path, c.Size)
	if err != nil {
		return "", "NewFileDisk failed: " + err.Error()
	}
	closed := false
	closeIt := func() {
		if !closed {
			closed = true
			catch(func() { d.Close() })
		}
	}
	defer closeIt()
	model := map[uint64][]byte{}
	zero := make([]byte, bs)
	want := func(a uint64) []byte {
		if b, ok := model[a]; ok {
			return b
		}
		return zero
	}
	// every address the script mentions, plus the places a 31/32-bit wrapped offset would hit
	touched := map[uint64]bool{}
	for _, st := range c.Steps {
		for _, a := range []uint64{st.Addr, st.Addr % (1 << 20), st.Addr % (1 << 19), st.Addr % (1 << 21)} {
			if a < c.Size {
				touched[a] = true
			}
		}
	}
	check := func(what string) string {
		for a := range touched {
			var got disk.Block
			if p, v := catch(func() { got = d.Read(a) }); p {
				return fmt.Sprintf("%s: Read(%d) on a disk of %d blocks panicked: %v", what, a, c.Size, v)
			}
			if df := diff(got, want(a)); df != "" {
				return fmt.Sprintf("%s: Read(%d) on a disk of %d blocks differs from the last value written there: %s", what, a, c.Size, df)
			}
		}
		return ""
	}
	raw := func(what string) (string, string) {
		f, err := os.Open(path)
		if err != nil {
			return "", "open backing file: " + err.Error()
		}
		defer f.Close()
		fi, err := f.Stat()
		if err != nil {
			return "", err.Error()
		}
		if fi.Size() != int64(c.Size*bs) {
			return fmt.Sprintf("%s: backing file is %d bytes long, want %d", what, fi.Size(), c.Size*bs), ""
		}
		buf := make([]byte, bs)
		for a := range touched {
			if _, err := f.ReadAt(buf, int64(a)*int64(bs)); err != nil {
				return "", "read backing file: " + err.Error()
			}
			if df := diff(buf, want(a)); df != "" {
				return fmt.Sprintf("%s: backing file bytes of block %d (offset %d) differ from the last value written there: %s", what, a, a*bs, df), ""
			}
		}
		return "", ""
	}
	for j, st := range c.Steps {
		switch st.Op {
		case "write":
			b := models.MakeBlock(bs, st.Tag, 0)
			if p, v := catch(func() { d.Write(st.Addr, b) }); p {
				return fmt.Sprintf("step %d Write(%d) on a disk of %d blocks panicked: %v", j, st.Addr, c.Size, v), ""
			}
			model[st.Addr] = b
		case "read":
			if m := check(fmt.Sprintf("step %d", j)); m != "" {
				return m, ""
			}
		case "reopen":
			if p, v := catch(func() { d.Barrier() }); p {
				return fmt.Sprintf("step %d Barrier panicked: %v", j, v), ""
			}
			closeIt()
			if m, inf := raw(fmt.Sprintf("step %d after Close", j)); m != "" || inf != "" {
				return m, inf
			}
			d, err = disk.NewFileDisk(path, c.Size)
			if err != nil {
				return "", "NewFileDisk (reopen) failed: " + err.Error()
			}
			closed = false
			if m := check(fmt.Sprintf("step %d after reopening", j)); m != "" {
				return m, ""
			}
		}
	}
	if m := check("end of script"); m != "" {
		return m, ""
	}
	closeIt()
	return raw("after the last Close")
}

func bigNonTrivial(c BigCase) bool {
	for _, st := range c.Steps {
		if st.Op == "write" && st.Addr >= 1<<19 {
			return true
		}
	}
	return false
}

func checkBig(t ev.TB, c BigCase) {
	ev.Eval()
	if bigNonTrivial(c) {
		ev.Label("bigoffsets:write-beyond-2GiB")
		b, _ := json.Marshal(c)
		ev.NonTrivial(string(b))
		ev.Sample(c)
	}
	for _, st := range c.Steps {
		if st.Op == "write" && st.Addr >= 1<<20 {
			ev.Label("bigoffsets:write-beyond-4GiB")
			break
		}
	}
	for _, st := range c.Steps {
		if st.Op == "reopen" {
			ev.Label("bigoffsets:reopen")
			break
		}
	}
	msg, infra := runBig(c)
	if infra != "" {
		ev.Inconclusive(infra)
		return
	}
	if msg != "" {
		ev.Failf(t, "TestBigOffsets", c, "%s", msg)
	}
}

func pinnedBig(raw json.RawMessage) string {
	var c BigCase
	if err := json.Unmarshal(raw, &c); err != nil || c.Size == 0 || c.Size > 1<<23 || len(c.Steps) > 1000 {
		ev.Inconclusive("pinned case unreadable")
		return ""
	}
	for _, st := range c.Steps {
		if st.Addr >= c.Size {
			ev.Inconclusive("pinned case unreadable")
			return ""
		}
	}
	msg, _ := runBig(c)
	return msg
}

func TestBigOffsets(t *testing.T) {
	ev.Pinned(t, "C11", "TestBigOffsets", pinnedBig)
	rapid.Check(t, func(t *rapid.T) {
		checkBig(t, genBig(t))
	})
}
