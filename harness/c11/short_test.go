package c11

// Part 4: short writes. pwrite may write fewer bytes than asked and report that count with no
// error (device full, file size limit, quota). FileDisk.Write must not return normally then: the
// block would silently hold a mixture. The child process makes the kernel produce REAL short
// writes with RLIMIT_FSIZE (soft limit inside a block): below the limit a write is complete, the
// block containing the limit is written short, above it pwrite fails with EFBIG.
// Oracle: a Write that returned normally is read back complete (after the limit is lifted) and is
// in the raw file; a Write that panicked may leave the old block, the new block or the short
// mixture of the two (new prefix, old suffix).

import (
	"bytes"
	"encoding/json"
	"fmt"
	"os"
	"os/exec"
	"path/filepath"
	"strings"
	"testing"
	"time"

	"pgregory.net/rapid"

	"verifharness/cmd/diskchild/work"
	"verifharness/ev"
	"verifharness/gen"
	"verifharness/models"
)

func genShort(t *rapid.T) work.ShortCase {
	var c work.ShortCase
	c.Size = uint64(gen.Range(t, "size", 1, 12))
	lb := uint64(gen.Uniform(t, "limitblock", int(c.Size)))
	off := uint64([]int{1, 7, 512, 2048, 4088, 4095, gen.Range(t, "offany", 1, 4095)}[gen.Uniform(t, "offkind", 7)])
	c.Limit = lb*bs + off
	c.TagA = rapid.Uint64Range(1, 1<<40).Draw(t, "taga")
	c.TagB = rapid.Uint64Range(1<<41, 1<<42).Draw(t, "tagb")
	n := gen.Range(t, "nwrites", 1, 6)
	for i := 0; i < n; i++ {
		a := uint64(gen.Uniform(t, "addr", int(c.Size)))
		if gen.Chance(t, "atlimit", 40) {
			a = lb
		}
		c.Writes = append(c.Writes, a)
	}
	return c
}

func runShort(c work.ShortCase) (msg, infra string) {
	if c.Size == 0 || c.Size > 64 || c.Limit == 0 || c.Limit >= c.Size*bs || len(c.Writes) > 64 {
		return "", "case out of range"
	}
	for _, a := range c.Writes {
		if a >= c.Size {
			return "", "case out of range"
		}
	}
	dir := scratchFile("c11-short")
	if err := os.MkdirAll(dir, 0o755); err != nil {
		return "", "mkdir: " + err.Error()
	}
	defer os.RemoveAll(dir)
	image := filepath.Join(dir, "disk.img")
	cb, _ := json.Marshal(c)
	cf := filepath.Join(dir, "case.json")
	if err := os.WriteFile(cf, cb, 0o644); err != nil {
		return "", "write case: " + err.Error()
	}
	cmd := exec.Command(childBin(), "short", cf, image)
	var out, errb bytes.Buffer
	cmd.Stdout, cmd.Stderr = &out, &errb
	if err := cmd.Start(); err != nil {
		return "", "start child: " + err.Error()
	}
	done := make(chan error, 1)
	go func() { done <- cmd.Wait() }()
	select {
	case err := <-done:
		if err != nil {
			return "", fmt.Sprintf("child failed: %v: %s", err, firstLine(errb.String()))
		}
	case <-time.After(60 * time.Second):
		cmd.Process.Kill()
		<-done
		return "", "child timed out"
	}
	wres := make([]string, len(c.Writes))
	rres := make([]string, c.Size)
	for _, line := range strings.Split(out.String(), "\n") {
		f := strings.Fields(line)
		if len(f) != 3 {
			continue
		}
		var i int
		if _, err := fmt.Sscanf(f[1], "%d", &i); err != nil || i < 0 {
			continue
		}
		switch {
		case f[0] == "W" && i < len(wres):
			wres[i] = f[2]
		case f[0] == "R" && i < len(rres):
			rres[i] = f[2]
		}
	}
	for i, r := range wres {
		if r == "" {
			return "", fmt.Sprintf("child log has no outcome for write %d", i)
		}
	}
	raw, err := os.ReadFile(image)
	if err != nil {
		return "", "read back: " + err.Error()
	}
	if uint64(len(raw)) != c.Size*bs {
		return fmt.Sprintf("backing file is %d bytes after the run, want %d", len(raw), c.Size*bs), ""
	}
	lb := c.Limit / bs
	// acceptable contents per block
	accept := make([][][]byte, c.Size)
	for a := uint64(0); a < c.Size; a++ {
		accept[a] = [][]byte{models.MakeBlock(bs, c.TagA+a, 0)}
	}
	describe := func(i int) string {
		a := c.Writes[i]
		switch {
		case a < lb:
			return "wholly below the limit"
		case a == lb:
			return fmt.Sprintf("containing the limit: the kernel writes only the first %d of 4096 bytes and reports that count without an error", c.Limit-lb*bs)
		}
		return "wholly above the limit (EFBIG)"
	}
	for i, a := range c.Writes {
		nb := models.MakeBlock(bs, c.TagB+uint64(i), 0)
		if wres[i] == "ok" {
			accept[a] = [][]byte{nb}
			continue
		}
		if a < lb {
			return "", fmt.Sprintf("write %d of block %d (wholly below the limit) panicked", i, a)
		}
		// failed: old contents (each acceptable one), the new block, or new prefix + old suffix
		var more [][]byte
		for _, old := range accept[a] {
			if a == lb {
				mix := append(append([]byte{}, nb[:c.Limit-lb*bs]...), old[c.Limit-lb*bs:]...)
				more = append(more, mix)
			}
		}
		accept[a] = append(append(accept[a], more...), nb)
	}
	for a := uint64(0); a < c.Size; a++ {
		okRaw, okRead := false, false
		for _, w := range accept[a] {
			if bytes.Equal(raw[a*bs:(a+1)*bs], w) {
				okRaw = true
			}
			if rres[a] == fmt.Sprintf("%016x", models.BlockHash(w)) {
				okRead = true
			}
		}
		if okRaw && okRead {
			continue
		}
		last := -1
		for i, wa := range c.Writes {
			if wa == a {
				last = i
			}
		}
		what := "was never overwritten"
		if last >= 0 {
			what = fmt.Sprintf("was last written by write %d (block %s), which returned %q", last, describe(last), map[string]string{"ok": "normally", "panic": "with a panic"}[wres[last]])
		}
		if !okRaw {
			return fmt.Sprintf("disk of %d blocks, file size limit %d bytes: block %d %s, yet the backing file holds none of the contents that outcome allows: %s", c.Size, c.Limit, a, what, diff(raw[a*bs:(a+1)*bs], accept[a][0])), ""
		}
		return fmt.Sprintf("disk of %d blocks, file size limit %d bytes: block %d %s, yet Read(%d) after the limit was lifted returned %s, none of the contents that outcome allows", c.Size, c.Limit, a, what, a, rres[a]), ""
	}
	return "", ""
}

func checkShort(t ev.TB, c work.ShortCase) {
	ev.Eval()
	lb := c.Limit / bs
	for _, a := range c.Writes {
		if a == lb {
			ev.Label("shortwrite:write-straddles-limit")
			b, _ := json.Marshal(c)
			ev.NonTrivial(string(b))
			ev.Sample(c)
			break
		}
	}
	for _, a := range c.Writes {
		if a > lb {
			ev.Label("shortwrite:write-above-limit")
			break
		}
	}
	msg, infra := runShort(c)
	if infra != "" {
		ev.Inconclusive(infra)
		return
	}
	if msg != "" {
		ev.Failf(t, "TestShortWrites", c, "%s", msg)
	}
}

func pinnedShort(raw json.RawMessage) string {
	var c work.ShortCase
	if err := json.Unmarshal(raw, &c); err != nil {
		ev.Inconclusive("pinned case unreadable")
		return ""
	}
	msg, _ := runShort(c)
	return msg
}

func TestShortWrites(t *testing.T) {
	ev.Pinned(t, "C11", "TestShortWrites", pinnedShort)
	rapid.Check(t, func(t *rapid.T) {
		checkShort(t, genShort(t))
	})
}
