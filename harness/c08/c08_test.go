// Package c08: the header of each emitted file names exactly the FFI and the
// imports the package uses (DESIGN.md §3 C08).
//
// A case is a temporary module whose packages form an import DAG over the FFI
// packages (both machine and primitive variants, a stub grove_ffi that may hide
// a disk import), the builtin non-FFI packages and plain generated packages.
// The reference walks the generated graph (plus the import graph of the leaf
// packages as reported by `go list`) and derives, per package, the expected
// FFI prelude or generic section header/footer, the expected Require
// sentences and the output path; goose (binary, and the library entry point)
// is run on the module and the first/last lines of every emitted file are
// compared with that.
package c08

import (
	"bytes"
	"encoding/json"
	"fmt"
	"os"
	"path/filepath"
	"sort"
	"strings"
	"sync"
	"sync/atomic"
	"testing"
	"verifharness/gen"

	"github.com/goose-lang/goose"
	"pgregory.net/rapid"

	"verifharness/c08/gmod"
	"verifharness/ev"
)

const (
	swTwoFfi     = "noTwoFfiPackage"
	swLastElem   = "noMappedCharInLastImportElem"
	swSingleElem = "noSingleElementImportPath"
)

func TestMain(m *testing.M) {
	ev.Meta("exploration",
		"cases = temporary modules (import DAG of 1-7 generated packages over FFI / builtin / plain leaves, imports spread over 1-3 files with repetition and drawn order, pattern list, flags); "+
			"non-trivial = some translated package gets its FFI only transitively or reaches an FFI package that hides another FFI, or has >= 2 distinct non-builtin imports; distinct by hash of the graph (dirs, per-file import lists, grove stub import) and pattern list",
		"the grove FFI is a local stub module (github.com/mit-pdos/gokv via replace); real third-party layouts are not fetched",
		"import graph of the leaf packages (machine, primitive, stub) is read from `go list -deps`, the FFI and builtin tables of the reference are written from the property text",
		"Require sentences are compared after whitespace normalisation; 'sorted' is taken as lexicographic order of the sentences")
	ev.Main(m, "C08")
}

// Case is one generated case.
type Case struct {
	Mod      gmod.Module `json:"mod"`
	Patterns []string    `json:"patterns"`
	Flags    []string    `json:"flags"`
	Lib      bool        `json:"lib"` // also go through goose.TranslationConfig.TranslatePackages in-process
}

// ---- reference ------------------------------------------------------------

// FFI table and builtin table of the reference, written from the property
// text (quantifier: no FFI, disk, async_disk, grove, both primitive and
// machine variants) and DESIGN.md §3 C08.
var refFfi = map[string]string{
	gmod.MachineDisk:    "disk",
	gmod.PrimitiveDisk:  "disk",
	gmod.MachineAsync:   "async_disk",
	gmod.PrimitiveAsync: "async_disk",
	gmod.Grove:          "grove",
}

var refBuiltin = map[string]bool{
	"fmt": true, "log": true, "sync": true,
	gmod.Machine: true, gmod.Filesys: true, gmod.Primitive: true, gmod.GokvTime: true,
	gmod.MachineDisk: true, gmod.PrimitiveDisk: true, gmod.MachineAsync: true, gmod.PrimitiveAsync: true, gmod.Grove: true,
}

var ffiLeaves = []string{gmod.MachineDisk, gmod.PrimitiveDisk, gmod.MachineAsync, gmod.PrimitiveAsync, gmod.Grove}
var plainLeaves = []string{gmod.Machine, gmod.Filesys, gmod.Primitive, gmod.GokvTime, "sync", "fmt", "log"}

const stdSingle = "errors" // a non-builtin import whose path has one element

var (
	leafOnce  sync.Once
	leafEdges map[string][]string
	leafErr   error
)

// leafGraph returns the import graph of everything reachable from the leaf
// packages, as `go list -deps` reports it for a probe module importing all of
// them (independent of goose's own walk over packages.Package values).
func leafGraph() (map[string][]string, error) {
	leafOnce.Do(func() {
		var imps []string
		imps = append(imps, ffiLeaves...)
		imps = append(imps, plainLeaves...)
		imps = append(imps, stdSingle)
		var body strings.Builder
		for _, ip := range imps {
			fmt.Fprintf(&body, "import _ %q\n", ip)
		}
		m := gmod.Module{Path: "example.com/leafprobe", Pkgs: []gmod.Pkg{{Dir: "", Name: "leafprobe",
			Files: []gmod.File{{Name: "p.go", Body: body.String()}}}}}
		root := filepath.Join(ev.Scratch(), "leafprobe")
		defer os.RemoveAll(root)
		dir, err := m.Write(root, ev.Repo())
		if err != nil {
			leafErr = err
			return
		}
		r := gmod.Run(dir, nil, "go", "list", "-deps", "-f", `{{.ImportPath}}|{{join .Imports ","}}`, "./...")
		if r.Err != nil || r.Exit != 0 {
			leafErr = fmt.Errorf("go list -deps failed (exit %d, %v): %s", r.Exit, r.Err, r.Stderr)
			return
		}
		g := map[string][]string{}
		for _, line := range strings.Split(strings.TrimSpace(r.Stdout), "\n") {
			k, v, ok := strings.Cut(line, "|")
			if !ok {
				continue
			}
			if v == "" {
				g[k] = nil
			} else {
				g[k] = strings.Split(v, ",")
			}
		}
		for _, ip := range imps {
			if _, ok := g[ip]; !ok {
				leafErr = fmt.Errorf("go list -deps did not report %s", ip)
				return
			}
		}
		leafEdges = g
	})
	return leafEdges, leafErr
}

// graph is the import graph of a case: generated packages + leaves.
type graph struct {
	edges map[string][]string
}

func buildGraph(m gmod.Module, leaves map[string][]string) graph {
	g := graph{edges: map[string][]string{}}
	for k, v := range leaves {
		g.edges[k] = v
	}
	// the stub's imports are what the case says, not what the probe module had
	if m.GroveImport != "" {
		g.edges[gmod.Grove] = []string{m.GroveImport}
	} else {
		g.edges[gmod.Grove] = nil
	}
	for _, p := range m.Pkgs {
		g.edges[m.ImportPath(p)] = pkgImports(p)
	}
	return g
}

// pkgImports is the set of distinct import paths of a package, sorted.
func pkgImports(p gmod.Pkg) []string {
	set := map[string]bool{}
	for _, f := range p.Files {
		for _, ip := range f.Imports {
			set[ip] = true
		}
	}
	var out []string
	for ip := range set {
		out = append(out, ip)
	}
	sort.Strings(out)
	return out
}

// ffis returns the sorted FFI names reachable from pkg by a walk that does
// not look behind FFI packages.
func (g graph) ffis(pkg string) []string {
	seen := map[string]bool{}
	found := map[string]bool{}
	var walk func(n string)
	walk = func(n string) {
		if seen[n] {
			return
		}
		seen[n] = true
		if f, ok := refFfi[n]; ok {
			found[f] = true
			return
		}
		for _, d := range g.edges[n] {
			walk(d)
		}
	}
	walk(pkg)
	var out []string
	for f := range found {
		out = append(out, f)
	}
	sort.Strings(out)
	return out
}

func mapPath(p string) string {
	var b strings.Builder
	for _, r := range p {
		if r == '.' || r == '-' {
			b.WriteRune('_')
		} else {
			b.WriteRune(r)
		}
	}
	return b.String()
}

func lastElem(p string) string { return p[strings.LastIndex(p, "/")+1:] }

// requireLine is the expected Require sentence of an import path.
func requireLine(ip string) string {
	logical := strings.ReplaceAll(mapPath(ip), "/", ".")
	if strings.HasPrefix(lastElem(ip), "trusted_") {
		return "From Perennial.goose_lang.trusted Require Import " + logical + "."
	}
	return "From Goose Require " + logical + "."
}

// expectation for one package.
type expect struct {
	pkgPath  string
	ffis     []string
	requires []string
	outFile  string // slash-separated, relative to -out
}

func expectFor(m gmod.Module, g graph, p gmod.Pkg) expect {
	ip := m.ImportPath(p)
	e := expect{pkgPath: ip, ffis: g.ffis(ip), outFile: mapPath(ip) + ".v"}
	for _, dep := range pkgImports(p) {
		if !refBuiltin[dep] {
			e.requires = append(e.requires, requireLine(dep))
		}
	}
	sort.Strings(e.requires)
	return e
}

// checkText compares the header/footer of an emitted file with e.
func checkText(e expect, text string) string {
	h, err := gmod.ParseHeader(text)
	if err != nil {
		return fmt.Sprintf("package %s: unreadable header: %v", e.pkgPath, err)
	}
	if h.PkgPath != e.pkgPath {
		return fmt.Sprintf("package %s: autogenerated notice names %q", e.pkgPath, h.PkgPath)
	}
	if !h.Prelude {
		return fmt.Sprintf("package %s: second line is not the goose_lang prelude import", e.pkgPath)
	}
	if strings.Join(h.Requires, "\n") != strings.Join(e.requires, "\n") {
		return fmt.Sprintf("package %s: Require sentences differ\n expected (%d):\n  %s\n observed (%d):\n  %s", e.pkgPath,
			len(e.requires), strings.Join(e.requires, "\n  "), len(h.Requires), strings.Join(h.Requires, "\n  "))
	}
	switch len(e.ffis) {
	case 0:
		if len(h.Ffis) != 0 || !h.Section {
			return fmt.Sprintf("package %s reaches no FFI: expected the generic `Section code.` header, observed ffi preludes %v, section header %v", e.pkgPath, h.Ffis, h.Section)
		}
		if h.SectionLines != 1 || h.EndLines != 1 || h.LastLine != "End code." {
			return fmt.Sprintf("package %s reaches no FFI: expected exactly one `Section code.` closed by a final `End code.`; observed %d Section lines, %d End lines, last line %q", e.pkgPath, h.SectionLines, h.EndLines, h.LastLine)
		}
	case 1:
		if len(h.Ffis) != 1 || h.Ffis[0] != e.ffis[0] || h.Section {
			return fmt.Sprintf("package %s reaches exactly the FFI %q: expected `ffi.%s_prelude`, observed ffi preludes %v, generic section header %v", e.pkgPath, e.ffis[0], e.ffis[0], h.Ffis, h.Section)
		}
		if h.SectionLines != 0 || h.EndLines != 0 {
			return fmt.Sprintf("package %s uses the FFI %q: expected no `Section code.`/`End code.`, observed %d/%d", e.pkgPath, e.ffis[0], h.SectionLines, h.EndLines)
		}
	}
	return ""
}

// ---- running a case ---------------------------------------------------------

var caseCounter int64

// selected returns the packages of the module the patterns select.
func selected(c Case) []gmod.Pkg {
	var out []gmod.Pkg
	seen := map[string]bool{}
	for _, pat := range c.Patterns {
		for _, p := range c.Mod.Pkgs {
			ip := c.Mod.ImportPath(p)
			rel := "./" + p.Dir
			if p.Dir == "" {
				rel = "."
			}
			if (pat == "./..." || pat == ip || pat == rel) && !seen[ip] {
				seen[ip] = true
				out = append(out, p)
			}
		}
	}
	return out
}

func unrelatedFailure(stderr string) bool {
	return strings.Contains(stderr, "conversion failed") || strings.Contains(stderr, "could not load package") ||
		strings.Contains(stderr, "patterns matched no packages")
}

// runCase returns "" when the property holds on c (or the case could not be
// decided, which is counted as inconclusive).
func runCase(c Case) string {
	leaves, err := leafGraph()
	if err != nil {
		ev.Inconclusive("leaf import graph unavailable")
		ev.Note("leaf graph: %v", err)
		return ""
	}
	goose_ := filepath.Join(os.Getenv("VERIF_BIN"), "goose")
	if _, err := os.Stat(goose_); err != nil {
		ev.Inconclusive("goose binary missing")
		return ""
	}
	root := filepath.Join(ev.Scratch(), fmt.Sprintf("case%d", atomic.AddInt64(&caseCounter, 1)))
	defer os.RemoveAll(root)
	modDir, err := c.Mod.Write(root, ev.Repo())
	if err != nil {
		ev.Inconclusive("cannot write module")
		return ""
	}
	g := buildGraph(c.Mod, leaves)
	sel := selected(c)
	if len(sel) == 0 {
		ev.Inconclusive("patterns select nothing")
		return ""
	}
	var exps []expect
	refused := map[string]bool{}
	for _, p := range sel {
		e := expectFor(c.Mod, g, p)
		exps = append(exps, e)
		if len(e.ffis) > 1 {
			refused[e.pkgPath] = true
		}
	}

	// --- the binary ---
	outDir := filepath.Join(root, "out")
	args := append([]string{"-out", outDir}, c.Flags...)
	args = append(args, c.Patterns...)
	r := gmod.Run(modDir, nil, goose_, args...)
	if r.Err != nil || r.TimedOut {
		ev.Inconclusive("goose could not be run")
		return ""
	}
	if gmod.Crashed(r.Stderr) || r.Exit == 2 {
		if len(refused) > 0 {
			return fmt.Sprintf("package(s) %v reach two different FFIs: expected a refusal of those packages only (error, exit 1, other packages translated); observed a crash of the whole run: exit %d, stderr:\n%s", keys(refused), r.Exit, head(r.Stderr, 12))
		}
		return fmt.Sprintf("goose crashed on an import graph with at most one FFI per package: exit %d, stderr:\n%s", r.Exit, head(r.Stderr, 12))
	}
	if len(refused) == 0 && r.Exit != 0 || r.Exit > 1 {
		if unrelatedFailure(r.Stderr) {
			ev.Inconclusive("unexpected translation/load error")
			ev.Note("unexpected failure: %s", head(r.Stderr, 6))
			return ""
		}
		return fmt.Sprintf("no package reaches two FFIs but goose exited %d; stderr:\n%s", r.Exit, head(r.Stderr, 12))
	}
	if len(refused) > 0 && r.Exit != 1 {
		return fmt.Sprintf("package(s) %v reach two different FFIs and must be refused with an error (exit 1); goose exited %d", keys(refused), r.Exit)
	}
	tree, err := gmod.ReadTree(outDir)
	if err != nil {
		ev.Inconclusive("cannot read output tree")
		return ""
	}
	wantFiles := map[string]expect{}
	for _, e := range exps {
		if !refused[e.pkgPath] {
			wantFiles[e.outFile] = e
		}
	}
	for _, e := range exps {
		if refused[e.pkgPath] {
			if _, ok := tree[e.outFile]; ok {
				return fmt.Sprintf("package %s reaches the FFIs %v and must be refused, but %s was written", e.pkgPath, e.ffis, e.outFile)
			}
			continue
		}
		b, ok := tree[e.outFile]
		if !ok {
			if unrelatedFailure(r.Stderr) && len(refused) == 0 {
				ev.Inconclusive("unexpected translation/load error")
				return ""
			}
			return fmt.Sprintf("package %s (FFIs %v): expected output file %s under -out; files written: %v; exit %d; stderr:\n%s", e.pkgPath, e.ffis, e.outFile, gmod.TreeKeys(tree), r.Exit, head(r.Stderr, 8))
		}
		if msg := checkText(e, string(b)); msg != "" {
			return "goose binary: " + msg
		}
	}
	for _, k := range gmod.TreeKeys(tree) {
		if _, ok := wantFiles[k]; !ok {
			return fmt.Sprintf("unexpected output file %s (expected exactly %v)", k, sortedKeys(wantFiles))
		}
	}

	// --- the library entry point (never for two-FFI graphs: a panic in a
	// translation goroutine cannot be caught in-process) ---
	if c.Lib && len(refused) == 0 {
		var tr goose.TranslationConfig
		for _, f := range c.Flags {
			switch f {
			case "-typecheck":
				tr.TypeCheck = true
			case "-source-comments":
				tr.AddSourceFileComments = true
			case "-skip-interfaces":
				tr.SkipInterfaces = true
			}
		}
		files, errs, perr := tr.TranslatePackages(modDir, c.Patterns...)
		if perr != nil {
			ev.Inconclusive("library: pattern error")
			return ""
		}
		if len(files) != len(exps) {
			return fmt.Sprintf("library: %d packages selected, TranslatePackages returned %d files", len(exps), len(files))
		}
		byPath := map[string]expect{}
		for _, e := range exps {
			byPath[e.pkgPath] = e
		}
		for i, f := range files {
			if errs[i] != nil {
				ev.Inconclusive("library: unexpected translation error")
				ev.Note("library error: %s", head(errs[i].Error(), 4))
				return ""
			}
			e, ok := byPath[f.PkgPath]
			if !ok {
				return fmt.Sprintf("library: file for unexpected package %q", f.PkgPath)
			}
			delete(byPath, f.PkgPath)
			var buf bytes.Buffer
			f.Write(&buf)
			if msg := checkText(e, buf.String()); msg != "" {
				return "library: " + msg
			}
			if !bytes.Equal(buf.Bytes(), tree[e.outFile]) {
				return fmt.Sprintf("package %s: library output differs from the file the binary wrote (%d vs %d bytes)", e.pkgPath, buf.Len(), len(tree[e.outFile]))
			}
		}
		if len(byPath) != 0 {
			return fmt.Sprintf("library: no file for package(s) %v", sortedKeys(byPath))
		}
	}
	return ""
}

func keys(m map[string]bool) []string {
	var ks []string
	for k := range m {
		ks = append(ks, k)
	}
	sort.Strings(ks)
	return ks
}

func sortedKeys(m map[string]expect) []string {
	var ks []string
	for k := range m {
		ks = append(ks, k)
	}
	sort.Strings(ks)
	return ks
}

func head(s string, n int) string {
	lines := strings.Split(strings.TrimRight(s, "\n"), "\n")
	if len(lines) > n {
		lines = append(lines[:n], "…")
	}
	return strings.Join(lines, "\n")
}

// ---- generator ------------------------------------------------------------

var modPaths = []string{"example.com/m", "m", "ex-ample.com/my.mod/v-1", "github.com/u-s.er/repo", "a.b-c"}

// path elements: plain, with characters that need mapping, trusted and
// near-trusted names. Every element starts with a letter and does not end in
// a separator (valid Go import path elements, valid directory names).
var elems = []string{"a", "b", "util", "core", "kv",
	"my-pkg", "v1.2", "x.y-z", "go-kit", "io.v2",
	"trusted_x", "trusted_io", "trusted_a-b", "trustedx", "nottrusted_x"}

var fileNames = []string{"a.go", "b.go", "m.go", "z.go", "x_y.go", "c.go", "b2.go", "k9.go"}

func hasMapChar(s string) bool { return strings.ContainsAny(s, ".-") }

// use returns Go statements that use the imported package (so that the file
// compiles) inside a function with a local `var s uint64`.
func use(ip, name string) string {
	switch ip {
	case gmod.MachineDisk, gmod.PrimitiveDisk, gmod.MachineAsync, gmod.PrimitiveAsync:
		return "\ts = s + " + name + ".BlockSize\n"
	case gmod.Machine, gmod.Primitive:
		return "\ts = s + " + name + ".RandomUint64()\n"
	case gmod.Filesys:
		return "\tfilesys.Delete(\"d\", \"f\")\n"
	case gmod.Grove:
		return "\ts = s + grove_ffi.Use()\n"
	case gmod.GokvTime:
		return "\ts = s + time.TimeNow()\n"
	case "sync":
		return "\tmu := new(sync.Mutex)\n\tmu.Lock()\n\tmu.Unlock()\n"
	case "fmt":
		return "\tfmt.Println(\"x\")\n"
	case "log":
		return "\tlog.Println(\"x\")\n"
	case stdSingle:
		return "\terrors.New(\"x\")\n"
	}
	return "\t" + name + ".F()\n"
}

type genPkg struct {
	dir, name, ip string
}

var docLines = []string{"Package documentation.", "the product (*) of two numbers", "End code.", "Section code.", "a *) b", "(* opened",
	"From Perennial.goose_lang Require Import ffi.disk_prelude.", "", "(**)", "x (*) y (*) z", "End code. *)"}

func genCase(t *rapid.T) Case {
	var c Case
	swTwo, swLast, swSingle := ev.SwitchOn(swTwoFfi), ev.SwitchOn(swLastElem), ev.SwitchOn(swSingleElem)
	c.Mod.Path = rapid.SampledFrom(modPaths).Draw(t, "modpath")
	c.Mod.GroveImport = rapid.SampledFrom([]string{"", "", gmod.MachineDisk, gmod.PrimitiveDisk, gmod.MachineAsync}).Draw(t, "groveImport")
	wantTwo := gen.Range(t, "wantTwoFfi", 0, 2) == 0
	allowTwo := wantTwo && !swTwo
	n := gen.Range(t, "npkgs", 1, 7)

	leaves, _ := leafGraph()
	pkgNameOf := map[string]string{} // import path -> Go package name
	for _, l := range ffiLeaves {
		pkgNameOf[l] = gmod.LeafName(l)
	}
	for _, l := range plainLeaves {
		pkgNameOf[l] = gmod.LeafName(l)
	}
	pkgNameOf[stdSingle] = stdSingle

	var gps []genPkg
	usedDirs := map[string]bool{} // mapped dir -> used (as package)
	nameDiffers := 0
	for i := 0; i < n; i++ {
		var gp genPkg
		if i == 0 && gen.Range(t, "root", 0, 2) == 0 {
			gp.dir = ""
			gp.name = mapPath(lastElem(c.Mod.Path))
		} else {
			// parent: module root, an existing package directory, or a fresh intermediate directory
			parent := ""
			switch k := gen.Range(t, "parentKind", 0, 3); {
			case k == 1 && len(gps) > 0:
				parent = gps[gen.Range(t, "parent", 0, len(gps)-1)].dir
			case k == 2:
				parent = rapid.SampledFrom(elems).Draw(t, "midElem")
			}
			el := rapid.SampledFrom(elems).Draw(t, "elem")
			dir := el
			if parent != "" {
				dir = parent + "/" + el
			}
			for usedDirs[mapPath(dir)] {
				dir += fmt.Sprint(i)
			}
			gp.dir = dir
			gp.name = mapPath(lastElem(dir))
			if gen.Chance(t, "nameDiffers", 30) {
				// the package clause need not repeat the directory name (store-v2 / package store);
				// Require lines follow the import PATH (seeded change C08-7)
				gp.name = fmt.Sprintf("pkn%d", i)
				if j := strings.IndexAny(lastElem(dir), "-._"); j > 0 {
					gp.name = lastElem(dir)[:j] + "pkg" // never a Go keyword
				}
				nameDiffers++
			}
		}
		usedDirs[mapPath(gp.dir)] = true
		gp.ip = c.Mod.Path
		if gp.dir != "" {
			gp.ip += "/" + gp.dir
		}
		pkgNameOf[gp.ip] = gp.name
		gps = append(gps, gp)
	}

	// imports of each package, as a DAG over earlier packages and leaves
	edges := map[string][]string{}
	g := func() graph {
		gr := buildGraph(gmod.Module{Path: c.Mod.Path, GroveImport: c.Mod.GroveImport}, leaves)
		for k, v := range edges {
			gr.edges[k] = v
		}
		return gr
	}
	for i, gp := range gps {
		if i == len(gps)-1 && len(gps) > 1 && gen.Chance(t, "barePackage", 25) {
			// a package with nothing in it but its package clause (nobody imports the last package):
			// the header and footer must still be complete (seeded change C08-8)
			edges[gp.ip] = nil
			body := ""
			if gen.Chance(t, "bareConst", 30) {
				body = "const K uint64 = 3\n"
			}
			c.Mod.Pkgs = append(c.Mod.Pkgs, gmod.Pkg{Dir: gp.dir, Name: gp.name, Files: []gmod.File{{Name: "only.go", Body: body}}})
			continue
		}
		var cands []string
		for j := 0; j < i; j++ {
			if gen.Range(t, fmt.Sprintf("imp%d_%d", i, j), 0, 9) < 4 {
				cands = append(cands, gps[j].ip)
			}
		}
		switch k := gen.Range(t, "ffiKind", 0, 9); {
		case k < 3:
			cands = append(cands, rapid.SampledFrom(ffiLeaves).Draw(t, "ffi"))
		case k == 3:
			cands = append(cands, rapid.SampledFrom(ffiLeaves).Draw(t, "ffi1"), rapid.SampledFrom(ffiLeaves).Draw(t, "ffi2"))
		}
		for _, l := range plainLeaves {
			if gen.Range(t, "leaf", 0, 9) < 2 {
				cands = append(cands, l)
			}
		}
		if gen.Range(t, "std", 0, 9) < 2 {
			cands = append(cands, stdSingle)
		}
		var imps []string
		have := map[string]bool{}
		for _, ip := range cands {
			if have[ip] {
				continue
			}
			if swLast && !refBuiltin[ip] && hasMapChar(lastElem(ip)) {
				ev.Prune(swLastElem)
				continue
			}
			if swSingle && !refBuiltin[ip] && !strings.Contains(ip, "/") {
				ev.Prune(swSingleElem)
				continue
			}
			edges[gp.ip] = append(imps, ip)
			if !allowTwo && len(g().ffis(gp.ip)) > 1 {
				if wantTwo && swTwo {
					ev.Prune(swTwoFfi)
				}
				edges[gp.ip] = imps
				continue
			}
			have[ip] = true
			imps = append(imps, ip)
		}
		edges[gp.ip] = imps

		// spread the imports over files: every import in >= 1 file, some in
		// more; package names unique within a file
		nf := gen.Range(t, "nfiles", 1, 3)
		names := append([]string(nil), fileNames...)
		perm := rapid.Permutation(names).Draw(t, "fileNames")
		files := make([]gmod.File, nf)
		fileHas := make([]map[string]bool, nf) // package names used in file
		for k := range files {
			files[k].Name = perm[k]
			files[k].Style = gen.Range(t, "style", 0, 2)
			fileHas[k] = map[string]bool{}
		}
		order := rapid.Permutation(append([]string(nil), imps...)).Draw(t, "importOrder")
		for _, ip := range order {
			name := pkgNameOf[ip]
			first := gen.Range(t, "file", 0, nf-1)
			placed := false
			for d := 0; d < nf; d++ {
				k := (first + d) % nf
				if !fileHas[k][name] {
					files[k].Imports = append(files[k].Imports, ip)
					fileHas[k][name] = true
					placed = true
					break
				}
			}
			if !placed {
				// every file already imports a package of that name: one more file
				files = append(files, gmod.File{Name: perm[len(files)], Imports: []string{ip}})
				fileHas = append(fileHas, map[string]bool{name: true})
				nf++
				continue
			}
			// repetition across files
			for k := 0; k < nf; k++ {
				if !fileHas[k][name] && gen.Range(t, "repeat", 0, 3) == 0 {
					files[k].Imports = append(files[k].Imports, ip)
					fileHas[k][name] = true
				}
			}
		}
		for k := range files {
			var b strings.Builder
			if k == 0 {
				b.WriteString("func F() {\n}\n\n")
			}
			fmt.Fprintf(&b, "func U%d() uint64 {\n\tvar s uint64 = 0\n", k)
			for _, ip := range files[k].Imports {
				b.WriteString(use(ip, pkgNameOf[ip]))
			}
			b.WriteString("\treturn s\n}\n")
			files[k].Body = b.String()
		}
		c.Mod.Pkgs = append(c.Mod.Pkgs, gmod.Pkg{Dir: gp.dir, Name: gp.name, Files: files})
	}

	// patterns
	switch gen.Range(t, "patternMode", 0, 3) {
	case 0, 1:
		c.Patterns = []string{"./..."}
	case 2:
		for _, k := range rapid.Permutation(indices(n)).Draw(t, "order") {
			c.Patterns = append(c.Patterns, patternOf(t, gps[k]))
		}
	default:
		ord := rapid.Permutation(indices(n)).Draw(t, "order")
		m := gen.Range(t, "subset", 1, n)
		for _, k := range ord[:m] {
			c.Patterns = append(c.Patterns, patternOf(t, gps[k]))
		}
	}
	for _, f := range []string{"-typecheck", "-source-comments", "-skip-interfaces"} {
		if gen.Range(t, "flag", 0, 4) == 0 {
			c.Flags = append(c.Flags, f)
		}
	}
	c.Lib = gen.Range(t, "lib", 0, 2) == 0
	// comments in front of the package clause, some with text that would be vernacular (or end the
	// comment) if the comment did not hold
	for pi := range c.Mod.Pkgs {
		for fi := range c.Mod.Pkgs[pi].Files {
			if !gen.Chance(t, "doc", 30) {
				continue
			}
			k := gen.Range(t, "doclines", 1, 3)
			for j := 0; j < k; j++ {
				c.Mod.Pkgs[pi].Files[fi].Doc = append(c.Mod.Pkgs[pi].Files[fi].Doc, rapid.SampledFrom(docLines).Draw(t, "docline"))
			}
			ev.Label("file with a comment in front of the package clause")
		}
	}
	return c
}

func patternOf(t *rapid.T, gp genPkg) string {
	if rapid.Bool().Draw(t, "relative") {
		if gp.dir == "" {
			return "."
		}
		return "./" + gp.dir
	}
	return gp.ip
}

func indices(n int) []int {
	out := make([]int, n)
	for i := range out {
		out[i] = i
	}
	return out
}

// ---- classification ---------------------------------------------------------

// classify labels the case and reports whether it is non-trivial.
func classify(c Case) (nontrivial bool, key string) {
	leaves, err := leafGraph()
	if err != nil {
		return false, ""
	}
	g := buildGraph(c.Mod, leaves)
	for _, p := range selected(c) {
		ip := c.Mod.ImportPath(p)
		fs := g.ffis(ip)
		imps := pkgImports(p)
		direct, hides := false, false
		for _, d := range imps {
			if _, ok := refFfi[d]; ok {
				direct = true
			}
		}
		// hidden: some FFI package reached by the walk itself imports (reaches) an FFI package
		seen := map[string]bool{}
		var walk func(n string)
		walk = func(n string) {
			if seen[n] {
				return
			}
			seen[n] = true
			if _, ok := refFfi[n]; ok {
				for _, d := range g.edges[n] {
					if len(g.ffis(d)) > 0 {
						hides = true
					}
				}
				return
			}
			for _, d := range g.edges[n] {
				walk(d)
			}
		}
		walk(ip)
		switch {
		case len(fs) == 0:
			ev.Label("pkg ffi: none")
		case len(fs) > 1:
			ev.Label("pkg ffi: two or more (refused)")
		case direct:
			ev.Label("pkg ffi: " + fs[0] + " direct")
		default:
			ev.Label("pkg ffi: " + fs[0] + " transitive only")
			nontrivial = true
		}
		if hides {
			ev.Label("pkg reaches an FFI package that hides another FFI")
			nontrivial = true
		}
		nonBuiltin, trusted, mappedLast, single := 0, false, false, false
		for _, d := range imps {
			if refBuiltin[d] {
				continue
			}
			nonBuiltin++
			if strings.HasPrefix(lastElem(d), "trusted_") {
				trusted = true
			}
			if hasMapChar(lastElem(d)) {
				mappedLast = true
			}
			if !strings.Contains(d, "/") {
				single = true
			}
		}
		if nonBuiltin >= 2 {
			ev.Label("pkg has >= 2 non-builtin imports")
			nontrivial = true
		}
		if trusted {
			ev.Label("pkg imports a trusted_* package")
		}
		if mappedLast {
			ev.Label("pkg imports a path whose last element needs mapping")
		}
		if single {
			ev.Label("pkg imports a single-element path")
		}
		rep := map[string]int{}
		for _, f := range p.Files {
			for _, d := range f.Imports {
				rep[d]++
			}
		}
		for d, k := range rep {
			if k > 1 && !refBuiltin[d] {
				ev.Label("pkg repeats a non-builtin import across files")
				break
			}
		}
		if hasMapChar(p.Dir) {
			ev.Label("pkg path (inside module) needs mapping")
		}
		if strings.Contains(p.Dir, "/") {
			ev.Label("pkg in nested directory")
		}
		if p.Dir == "" {
			ev.Label("pkg is module root")
		}
		ev.Label(fmt.Sprintf("pkg files: %d", len(p.Files)))
	}
	if len(c.Patterns) == 1 && c.Patterns[0] == "./..." {
		ev.Label("patterns: ./...")
	} else {
		ev.Label("patterns: explicit list")
	}
	if c.Lib {
		ev.Label("library entry point too")
	}
	if c.Mod.GroveImport != "" {
		ev.Label("grove stub imports " + gmod.LeafName(c.Mod.GroveImport))
	}
	// shape key: everything but the bodies
	shape := c
	shape.Mod.Pkgs = nil
	for _, p := range c.Mod.Pkgs {
		q := gmod.Pkg{Dir: p.Dir, Name: p.Name}
		for _, f := range p.Files {
			q.Files = append(q.Files, gmod.File{Name: f.Name, Imports: f.Imports, Style: f.Style})
		}
		shape.Mod.Pkgs = append(shape.Mod.Pkgs, q)
	}
	b, _ := json.Marshal(shape)
	return nontrivial, string(b)
}

func check(t ev.TB, c Case) {
	ev.Eval()
	ev.Add("packages", int64(len(selected(c))))
	nt, key := classify(c)
	if nt {
		ev.NonTrivial(key)
		ev.Sample(c)
	}
	if msg := runCase(c); msg != "" {
		ev.Failf(t, "TestHeaders", c, "%s", msg)
	}
}

func pinned(t ev.TB) {
	ev.Pinned(t, "C08", "TestHeaders", func(raw json.RawMessage) string {
		var c Case
		if err := json.Unmarshal(raw, &c); err != nil {
			return "unreadable pinned case: " + err.Error()
		}
		return runCase(c)
	})
}

func TestHeaders(t *testing.T) {
	pinned(t)
	rapid.Check(t, func(t *rapid.T) { check(t, genCase(t)) })
}

func TestReplay(t *testing.T) {
	p := ev.ReplayPath()
	if p == "" {
		t.Skip("no replay")
	}
	r, err := ev.LoadReplay(p)
	if err != nil {
		t.Fatal(err)
	}
	var c Case
	if err := json.Unmarshal(r.Case, &c); err != nil {
		t.Fatal(err)
	}
	check(t, c)
}
