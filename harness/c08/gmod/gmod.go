// Package gmod describes small temporary Go modules (an import graph of
// generated packages over the FFI / builtin leaf packages goose knows about),
// writes them to a scratch directory, runs the goose binary on them and reads
// the first and last lines of the emitted .v files. It is shared by the C08
// and C06 property packages; it contains no oracle.
package gmod

import (
	"bytes"
	"context"
	"fmt"
	"os"
	"os/exec"
	"path/filepath"
	"regexp"
	"sort"
	"strings"
	"time"
)

// Import paths of the leaf packages.
const (
	MachineDisk    = "github.com/goose-lang/goose/machine/disk"
	MachineAsync   = "github.com/goose-lang/goose/machine/async_disk"
	PrimitiveDisk  = "github.com/goose-lang/primitive/disk"
	PrimitiveAsync = "github.com/goose-lang/primitive/async_disk"
	Grove          = "github.com/mit-pdos/gokv/grove_ffi"
	Machine        = "github.com/goose-lang/goose/machine"
	Filesys        = "github.com/goose-lang/goose/machine/filesys"
	Primitive      = "github.com/goose-lang/primitive"
	GokvTime       = "github.com/mit-pdos/gokv/time"
)

// File is one Go source file of a generated package.
type File struct {
	Name    string   `json:"name"`
	Imports []string `json:"imports"`       // import paths in source order
	Style   int      `json:"style"`         // 0: one import decl per path; 1: one block; 2: two blocks
	Body    string   `json:"body"`          // declarations following the imports
	Doc     []string `json:"doc,omitempty"` // lines of the comment in front of the package clause
}

// Pkg is one generated package; Dir is relative to the module root ("" = the
// module's root package).
type Pkg struct {
	Dir   string `json:"dir"`
	Name  string `json:"name"`
	Files []File `json:"files"`
}

// Module is a temporary module.
type Module struct {
	Path        string `json:"path"`
	Pkgs        []Pkg  `json:"pkgs"`
	GroveImport string `json:"grove_import"` // what the grove_ffi stub itself imports ("" = nothing)
}

// ImportPath is the import path of package p of module m.
func (m Module) ImportPath(p Pkg) string {
	if p.Dir == "" {
		return m.Path
	}
	return m.Path + "/" + p.Dir
}

// PkgName is the Go package name of a leaf import path.
func LeafName(importPath string) string {
	return importPath[strings.LastIndex(importPath, "/")+1:]
}

// Source renders one file.
func Source(p Pkg, f File) string {
	var b strings.Builder
	for _, l := range f.Doc {
		b.WriteString(strings.TrimRight("// "+l, " ") + "\n")
	}
	fmt.Fprintf(&b, "package %s\n\n", p.Name)
	block := func(ps []string) {
		if len(ps) == 0 {
			return
		}
		b.WriteString("import (\n")
		for _, ip := range ps {
			fmt.Fprintf(&b, "\t%q\n", ip)
		}
		b.WriteString(")\n\n")
	}
	switch {
	case f.Style == 1:
		block(f.Imports)
	case f.Style == 2 && len(f.Imports) >= 2:
		h := len(f.Imports) / 2
		block(f.Imports[:h])
		block(f.Imports[h:])
	default:
		for _, ip := range f.Imports {
			fmt.Fprintf(&b, "import %q\n", ip)
		}
		b.WriteString("\n")
	}
	b.WriteString(f.Body)
	if !strings.HasSuffix(f.Body, "\n") {
		b.WriteString("\n")
	}
	return b.String()
}

// Write writes the module under root (root/mod) and the stub module for
// github.com/mit-pdos/gokv (root/stubs/gokv); repo is the goose tree. It
// returns the module directory.
func (m Module) Write(root, repo string) (string, error) {
	sum, err := os.ReadFile(filepath.Join(repo, "go.sum"))
	if err != nil {
		return "", err
	}
	stub := filepath.Join(root, "stubs", "gokv")
	mod := filepath.Join(root, "mod")
	files := map[string]string{}
	files[filepath.Join(stub, "go.mod")] = "module github.com/mit-pdos/gokv\n\ngo 1.22\n\n" +
		"require github.com/goose-lang/goose v0.0.0\n\n" +
		"require (\n\tgithub.com/goose-lang/primitive v0.1.0\n\tgolang.org/x/sys v0.22.0 // indirect\n)\n\n" +
		"replace github.com/goose-lang/goose => " + repo + "\n"
	files[filepath.Join(stub, "go.sum")] = string(sum)
	g := "package grove_ffi\n\n"
	if m.GroveImport != "" {
		g += fmt.Sprintf("import %q\n\n", m.GroveImport)
		g += "func Use() uint64 {\n\treturn " + LeafName(m.GroveImport) + ".BlockSize\n}\n"
	} else {
		g += "func Use() uint64 {\n\treturn 7\n}\n"
	}
	files[filepath.Join(stub, "grove_ffi", "grove_ffi.go")] = g
	files[filepath.Join(stub, "time", "time.go")] = "package time\n\nfunc TimeNow() uint64 {\n\treturn 0\n}\n"
	files[filepath.Join(mod, "go.mod")] = "module " + m.Path + "\n\ngo 1.22\n\n" +
		"require (\n\tgithub.com/goose-lang/goose v0.0.0\n\tgithub.com/goose-lang/primitive v0.1.0\n\tgithub.com/mit-pdos/gokv v0.0.0\n)\n\n" +
		"require (\n\tgithub.com/pkg/errors v0.9.1 // indirect\n\tgolang.org/x/sys v0.22.0 // indirect\n)\n\n" +
		"replace github.com/goose-lang/goose => " + repo + "\n\n" +
		"replace github.com/mit-pdos/gokv => ../stubs/gokv\n"
	files[filepath.Join(mod, "go.sum")] = string(sum)
	for _, p := range m.Pkgs {
		for _, f := range p.Files {
			files[filepath.Join(mod, filepath.FromSlash(p.Dir), f.Name)] = Source(p, f)
		}
	}
	for name, text := range files {
		if err := os.MkdirAll(filepath.Dir(name), 0o755); err != nil {
			return "", err
		}
		if err := os.WriteFile(name, []byte(text), 0o644); err != nil {
			return "", err
		}
	}
	return mod, nil
}

// Result is the outcome of one run of a child process.
type Result struct {
	Exit     int
	Stdout   string
	Stderr   string
	TimedOut bool
	Err      error // start failure or other non-exit error
}

// Run runs bin with args in dir with extra environment entries appended to
// the current environment. A generous timeout guards against hangs; a
// timeout is infrastructure trouble, never an oracle signal.
func Run(dir string, extraEnv []string, bin string, args ...string) Result {
	ctx, cancel := context.WithTimeout(context.Background(), 10*time.Minute)
	defer cancel()
	cmd := exec.CommandContext(ctx, bin, args...)
	cmd.Dir = dir
	cmd.Env = append(os.Environ(), extraEnv...)
	var so, se bytes.Buffer
	cmd.Stdout = &so
	cmd.Stderr = &se
	err := cmd.Run()
	r := Result{Stdout: so.String(), Stderr: se.String()}
	if err != nil {
		if ctx.Err() != nil {
			r.TimedOut = true
			r.Err = ctx.Err()
			return r
		}
		if ee, ok := err.(*exec.ExitError); ok && ee.ExitCode() >= 0 {
			r.Exit = ee.ExitCode()
		} else {
			r.Err = err
		}
	}
	return r
}

// Crashed reports whether stderr shows a Go runtime crash (panic or fatal
// error with goroutine dump).
func Crashed(stderr string) bool {
	return strings.Contains(stderr, "goroutine ") && (strings.Contains(stderr, "panic:") || strings.Contains(stderr, "fatal error:"))
}

// ReadTree returns the regular files under dir keyed by slash-separated
// relative path.
func ReadTree(dir string) (map[string][]byte, error) {
	out := map[string][]byte{}
	err := filepath.Walk(dir, func(p string, info os.FileInfo, err error) error {
		if err != nil {
			if os.IsNotExist(err) && p == dir {
				return filepath.SkipDir
			}
			return err
		}
		if !info.Mode().IsRegular() {
			return nil
		}
		b, err := os.ReadFile(p)
		if err != nil {
			return err
		}
		rel, _ := filepath.Rel(dir, p)
		out[filepath.ToSlash(rel)] = b
		return nil
	})
	if err != nil && os.IsNotExist(err) {
		return out, nil
	}
	return out, err
}

// TreeKeys returns the sorted keys of a tree.
func TreeKeys(t map[string][]byte) []string {
	var ks []string
	for k := range t {
		ks = append(ks, k)
	}
	sort.Strings(ks)
	return ks
}

// Header is what the thin line reader extracts from an emitted file.
type Header struct {
	PkgPath      string   // from the "autogenerated from" comment
	Prelude      bool     // second line is the goose_lang prelude import
	Requires     []string // Require sentences between the prelude and the FFI/section header, in file order, whitespace-normalised
	Ffis         []string // names in "ffi.<name>_prelude" sentences of the header
	Section      bool     // generic "Section code. / Context / Coercion" header present in the header area
	SectionLines int      // number of "Section code." lines in the whole file
	EndLines     int      // number of "End code." lines in the whole file
	LastLine     string   // last non-blank line
}

var (
	autoRe = regexp.MustCompile(`^\(\* autogenerated from (.*) \*\)$`)
	ffiRe  = regexp.MustCompile(`^From Perennial\.goose_lang Require Import ffi\.([A-Za-z0-9_]+)_prelude\.$`)
	wsRe   = regexp.MustCompile(`\s+`)
)

const preludeLine = "From Perennial.goose_lang Require Import prelude."

var sectionLines = []string{"Section code.", "Context `{ext_ty: ext_types}.", "Local Coercion Var' s: expr := Var s."}

// ParseHeader reads the header area and the footer of an emitted file.
func ParseHeader(text string) (Header, error) {
	var h Header
	raw := strings.Split(text, "\n")
	lines := make([]string, len(raw))
	for i, l := range raw {
		lines[i] = strings.TrimSpace(wsRe.ReplaceAllString(l, " "))
	}
	if len(lines) < 3 {
		return h, fmt.Errorf("file has only %d lines", len(lines))
	}
	m := autoRe.FindStringSubmatch(lines[0])
	if m == nil {
		return h, fmt.Errorf("first line is not the autogenerated notice: %q", lines[0])
	}
	h.PkgPath = m[1]
	h.Prelude = lines[1] == preludeLine
	i := 2
	for ; i < len(lines); i++ {
		l := lines[i]
		if l == "" {
			continue
		}
		if fm := ffiRe.FindStringSubmatch(l); fm != nil {
			h.Ffis = append(h.Ffis, fm[1])
			continue
		}
		if l == sectionLines[0] {
			if i+2 < len(lines) && lines[i+1] == sectionLines[1] && lines[i+2] == sectionLines[2] {
				h.Section = true
				i += 2
				continue
			}
			return h, fmt.Errorf("incomplete generic section header at line %d", i+1)
		}
		if strings.HasPrefix(l, "From ") {
			if len(h.Ffis) > 0 || h.Section {
				return h, fmt.Errorf("Require sentence after the FFI/section header at line %d: %q", i+1, l)
			}
			h.Requires = append(h.Requires, l)
			continue
		}
		break
	}
	// the footer and the section count are read from the text outside comments: a package
	// comment may well contain a line "End code." (seeded change C08-9: a comment that ends early
	// turns the rest of the documentation into vernacular)
	body, err := StripComments(text)
	if err != nil {
		return h, err
	}
	for _, l := range strings.Split(body, "\n") {
		l = strings.TrimSpace(wsRe.ReplaceAllString(l, " "))
		switch l {
		case "Section code.":
			h.SectionLines++
		case "End code.":
			h.EndLines++
		}
		if l != "" {
			h.LastLine = l
		}
	}
	return h, nil
}

// StripComments removes Coq comments (which nest) from text; string literals outside comments are
// copied verbatim. An unbalanced comment delimiter is an error.
func StripComments(text string) (string, error) {
	var b strings.Builder
	depth := 0
	inStr := false
	for i := 0; i < len(text); i++ {
		c := text[i]
		switch {
		case inStr:
			b.WriteByte(c)
			if c == '"' {
				inStr = false
			}
		case c == '(' && i+1 < len(text) && text[i+1] == '*':
			depth++
			i++
		case depth > 0 && c == '*' && i+1 < len(text) && text[i+1] == ')':
			depth--
			i++
		case depth > 0:
			if c == '\n' {
				b.WriteByte(c)
			}
		case c == '*' && i+1 < len(text) && text[i+1] == ')':
			return "", fmt.Errorf("comment terminator outside a comment at byte %d", i)
		default:
			if c == '"' {
				inStr = true
			}
			b.WriteByte(c)
		}
	}
	if depth > 0 {
		return "", fmt.Errorf("unterminated comment")
	}
	return b.String(), nil
}
